(* C14 (codec half) — the decoder agrees with the specification's decoding algorithm
   (members after bias/maximum, unread remainder, error condition). *)
From Coq Require Import ZArith List Bool Lia Arith PeanoNat ZifyNat ZifyBool Sorting.Sorted.
From FV Require Import Lib.RustInt C14.SbsModel C14.SbsProofs.
Import ListNotations.
Open Scope Z_scope.
Ltac Zify.zify_post_hook ::= Z.to_euclidean_division_equations.

Fixpoint zseq (i : Z) (n : nat) : list Z :=
  match n with O => [] | S m => i :: zseq (i + 1) m end.

Definition node_bits (bf v : Z) : list bool := map (Z.testbit v) (zseq 0 (Z.to_nat bf)).

Lemma tp_set_bits v n : forall i, true_positions i (map (Z.testbit v) (zseq i n)) = set_bits_from n i v.
Proof.
  induction n as [|n IH]; intros i; cbn [zseq map true_positions set_bits_from]; [reflexivity|].
  rewrite IH. reflexivity.
Qed.

Lemma zseq_in i n j : In j (zseq i n) <-> i <= j < i + Z.of_nat n.
Proof.
  revert i. induction n as [|n IH]; intros i; cbn [zseq In].
  - lia.
  - rewrite IH. lia.
Qed.

Lemma allzero_node bf v : 0 <= bf -> 0 <= v < 2 ^ bf -> forallb negb (node_bits bf v) = (v =? 0).
Proof.
  intros Hbf Hv. destruct (Z.eqb_spec v 0) as [->|Hne].
  - apply forallb_forall. intros b Hin. apply in_map_iff in Hin. destruct Hin as (j & <- & _).
    rewrite Z.bits_0. reflexivity.
  - destruct (forallb negb (node_bits bf v)) eqn:E; [|reflexivity]. exfalso. apply Hne.
    apply Z.bits_inj'. intros j Hj. rewrite Z.bits_0.
    destruct (Z_lt_le_dec j bf).
    + rewrite forallb_forall in E. specialize (E (Z.testbit v j)).
      assert (Hin : In (Z.testbit v j) (node_bits bf v)).
      { apply in_map. apply zseq_in. lia. }
      specialize (E Hin). destruct (Z.testbit v j); [discriminate | reflexivity].
    + apply (testbit_small v bf); lia.
Qed.

Section Spec.
Variables bf H bias maxv : Z.
Hypothesis Hbf : bf_valid bf = true.
Hypothesis HH : 1 <= H <= max_height bf.
Hypothesis Hbias : 0 <= bias.
Hypothesis Hmax : 0 <= maxv < U32.

(* the specification's loop on node values instead of bit groups *)
Fixpoint zspec (ns : list Z) (used : Z) (Q S : list (Z * Z)) : option (list (Z * Z) * Z) :=
  match Q with
  | [] => Some (S, used)
  | (start, depth) :: Q' =>
      match ns with
      | [] => None
      | v :: ns' =>
          if v =? 0 then zspec ns' (used + 1) Q' (S ++ [(start, start + bf ^ (H - depth + 1) - 1)])
          else if depth =? H then
            zspec ns' (used + 1) Q' (S ++ map (fun i => (start + i, start + i)) (set_bits v))
          else
            zspec ns' (used + 1) (Q' ++ map (fun i => (start + i * bf ^ (H - depth), depth + 1)) (set_bits v)) S
      end
  end.

Lemma spec_loop_zspec ns : Forall (fun v => 0 <= v < 2 ^ bf) ns -> forall used Q S,
  spec_loop bf H (map (node_bits bf) ns) used Q S = zspec ns used Q S.
Proof.
  pose proof (bf_ge2 bf Hbf) as Hb2.
  induction 1 as [|v ns Hv _ IH]; intros used Q S; destruct Q as [|[start depth] Q']; cbn [map spec_loop zspec]; try reflexivity.
  rewrite allzero_node by lia.
  assert (E : true_positions 0 (node_bits bf v) = set_bits v).
  { unfold node_bits. rewrite tp_set_bits. symmetry. apply set_bits_trunc; lia. }
  rewrite E. destruct (v =? 0); [apply IH|]. destruct (depth =? H); apply IH.
Qed.

(* ---- clipping ---- *)
Definition okv (y : Z) : bool := y + bias <=? maxv.

Lemma clip_start_eq start j : 0 <= start -> 0 <= j ->
  clip_start start j bias maxv = if okv (start + j) then Some (start + j + bias) else None.
Proof.
  intros Hs Hj. unfold clip_start, okv, U32 in *.
  destruct (Z.leb_spec (start + j + bias) maxv).
  - destruct (Z.ltb_spec start 4294967296); [|lia].
    destruct (Z.ltb_spec (start + j) 4294967296); [|lia].
    destruct (Z.ltb_spec (start + j + bias) 4294967296); [|lia]. reflexivity.
  - rewrite andb_false_r. reflexivity.
Qed.

Lemma in_ranges_app x a b : in_ranges x (a ++ b) = in_ranges x a || in_ranges x b.
Proof. unfold in_ranges. apply existsb_app. Qed.

Lemma in_ranges_rev x a : in_ranges x (rev a) = in_ranges x a.
Proof.
  induction a as [|r a IH]; [reflexivity|]. cbn [rev]. rewrite in_ranges_app, IH. cbn. rewrite orb_false_r. apply orb_comm.
Qed.

Lemma clip_ranges_app a b : clip_ranges bias maxv (a ++ b) = clip_ranges bias maxv a ++ clip_ranges bias maxv b.
Proof. unfold clip_ranges. apply flat_map_app. Qed.

(* membership in one clipped range *)
Lemma in_clip_one x lo hi : in_ranges x (clip_ranges bias maxv [(lo, hi)]) =
  (lo + bias <=? x) && (x <=? hi + bias) && (x <=? maxv).
Proof.
  unfold clip_ranges, in_ranges. cbn [flat_map fst snd app].
  destruct (Z.leb_spec (lo + bias) (Z.min (hi + bias) maxv)); cbn [existsb fst snd app]; lia.
Qed.

Lemma in_clip_points x start (idxs : list Z) :
  in_ranges x (clip_ranges bias maxv (map (fun i => (start + i, start + i)) idxs)) =
  existsb (fun j => okv (start + j) && (x =? start + j + bias)) idxs.
Proof.
  induction idxs as [|j r IH]; [reflexivity|].
  cbn [map]. change ((start + j, start + j) :: ?l) with ([(start + j, start + j)] ++ l).
  rewrite clip_ranges_app, in_ranges_app, IH, in_clip_one. cbn [existsb]. f_equal. unfold okv. lia.
Qed.

(* ---- the leaf arm of bits_loop ---- *)
Lemma bits_loop_leaf_spec start nns : 0 <= start -> forall idxs q out,
  Sorted Z.lt idxs -> Forall (fun j => 0 <= j) idxs ->
  exists b out', bits_loop idxs H bias maxv start H nns q out = Some (b, q, out') /\
    (forall x, in_ranges x out' = in_ranges x out || existsb (fun j => okv (start + j) && (x =? start + j + bias)) idxs) /\
    (b = true -> exists j0, In j0 idxs /\ okv (start + j0) = false).
Proof.
  intros Hs. induction idxs as [|j r IH]; intros q out Hsort Hnn; cbn [bits_loop].
  - exists false, out. repeat split; [intros; cbn; rewrite orb_false_r; reflexivity | discriminate].
  - rewrite Z.eqb_refl. inversion Hnn as [|? ? Hj Hnn']; subst.
    rewrite clip_start_eq by assumption.
    apply Sorted_StronglySorted in Hsort; [|intros a b c; lia].
    inversion Hsort as [|? ? Hsort' Hall]; subst.
    destruct (okv (start + j)) eqn:Eok.
    + destruct (IH q ((start + j + bias, start + j + bias) :: out) (StronglySorted_Sorted Hsort') Hnn') as (b & out' & E & Hmem & Hb).
      exists b, out'. split; [exact E|]. split.
      * intros x. rewrite Hmem. cbn [in_ranges existsb fst snd]. rewrite Eok. cbn [andb].
        fold (in_ranges x out).
        destruct (Z.eqb_spec x (start + j + bias)); destruct (in_ranges x out); cbn; try reflexivity; try lia;
          destruct (existsb _ r); try reflexivity;
          repeat match goal with |- context [?a <=? ?b] => destruct (Z.leb_spec a b) end; cbn; try reflexivity; lia.
      * intros Hbt. destruct (Hb Hbt) as (j0 & Hin & Hok). exists j0. split; [right|]; assumption.
    + exists true, out. split; [reflexivity|]. split.
      * intros x. cbn [existsb]. rewrite Eok. cbn [andb orb].
        assert (En : existsb (fun j0 => okv (start + j0) && (x =? start + j0 + bias)) r = false).
        { apply not_true_is_false. intros Hex. apply existsb_exists in Hex. destruct Hex as (j1 & Hin & Hc).
          rewrite Forall_forall in Hall. specialize (Hall j1 Hin). unfold okv in *. lia. }
        rewrite En, orb_false_r. reflexivity.
      * intros _. exists j. split; [left; reflexivity | assumption].
Qed.

Lemma set_bits_from_sorted n : forall i v, Sorted Z.lt (set_bits_from n i v) /\ Forall (fun j => i <= j) (set_bits_from n i v).
Proof.
  induction n as [|n IH]; intros i v; cbn [set_bits_from]; [split; constructor|].
  destruct (IH (i + 1) v) as (Hs & Hf).
  assert (Hf' : Forall (fun j => i <= j) (set_bits_from n (i + 1) v)) by (eapply Forall_impl; [|exact Hf]; cbn; intros; lia).
  destruct (Z.testbit v i); [|split; assumption].
  split; [|constructor; [lia | assumption]].
  constructor; [assumption|]. destruct (set_bits_from n (i + 1) v) as [|a l]; constructor.
  inversion Hf; subst. lia.
Qed.

Lemma set_bits_sorted v : Sorted Z.lt (set_bits v) /\ Forall (fun j => 0 <= j) (set_bits v).
Proof. rewrite set_bits_unfold. apply set_bits_from_sorted. Qed.

(* ---- the filled arm ---- *)
Lemma filled_range_spec s d : qwf bf H (s, d) ->
  exists r, filled_range bf H bias maxv s d = Some r /\
    forall x, in_ranges x (match r with Some rg => [rg] | None => [] end) =
              (s + bias <=? x) && (x <=? s + bf ^ (H - d + 1) - 1 + bias) && (x <=? maxv).
Proof.
  intros (Hd & Hs & He). cbn [fst snd] in *. unfold filled_range.
  destruct (Z.ltb_spec H d); [lia|].
  pose proof (bf_pow_max bf H Hbf ltac:(lia)) as HP. pose proof (bf_ge2 bf Hbf) as Hb2.
  assert (HP2 : 0 < bf ^ (H - d + 1)) by (apply Z.pow_pos_nonneg; lia).
  assert (2 ^ 35 < U64) by (vm_compute; reflexivity).
  rewrite pow_u64_some by lia.
  rewrite clip_start_eq by lia. unfold okv. rewrite Z.add_0_r.
  set (sz := bf ^ (H - d + 1)) in *. unfold U32, U64 in *.
  destruct (Z.leb_spec (s + bias) maxv).
  - destruct (Z.leb_spec 18446744073709551616 (s + sz)); [lia|].
    eexists. split; [reflexivity|]. intros x. cbn [in_ranges existsb fst snd]. rewrite orb_false_r.
    destruct (Z.ltb_spec (s + sz - 1) 4294967296); lia.
  - eexists. split; [reflexivity|]. intros x. cbn [in_ranges existsb]. lia.
Qed.

(* ---- queue order: earlier entries lie before later ones at the same depth; entries one level
   deeper (children of already processed nodes) lie before earlier entries ---- *)
Definition qR (x y : Z * Z) : Prop :=
  (snd x = snd y /\ fst x + bf ^ (H - snd x + 1) <= fst y) \/
  (snd y = snd x + 1 /\ fst y + bf ^ (H - snd y + 1) <= fst x).

Lemma spec_tail T : okv T = false -> forall q ns used Sm,
  Forall (fun e => snd e = H /\ T <= fst e) q ->
  exists S', (forall x, in_ranges x (clip_ranges bias maxv S') = in_ranges x (clip_ranges bias maxv Sm)) /\
    zspec ns used q Sm = if (length q <=? length ns)%nat then Some (S', used + Z.of_nat (length q)) else None.
Proof.
  intros HT. unfold okv in HT. induction q as [|[s d] q IH]; intros ns used Sm Hq.
  - exists Sm. split; [reflexivity|]. destruct ns; cbn; f_equal; f_equal; lia.
  - inversion Hq as [|? ? (Hd & Hs) Hq']; subst. cbn [fst snd] in *. subst d.
    destruct ns as [|v ns]; [exists Sm; split; reflexivity|].
    cbn [zspec length]. rewrite Z.eqb_refl.
    destruct (v =? 0).
    + destruct (IH ns (used + 1) (Sm ++ [(s, s + bf ^ (H - H + 1) - 1)]) Hq') as (S' & Hm & E).
      exists S'. split.
      * intros x. rewrite Hm, clip_ranges_app, in_ranges_app, in_clip_one.
        replace ((s + bias <=? x) && (x <=? s + bf ^ (H - H + 1) - 1 + bias) && (x <=? maxv)) with false by lia.
        apply orb_false_r.
      * rewrite E. change (S (length q) <=? S (length ns))%nat with (length q <=? length ns)%nat.
        destruct (length q <=? length ns)%nat; [|reflexivity]. f_equal. f_equal. lia.
    + destruct (IH ns (used + 1) (Sm ++ map (fun i => (s + i, s + i)) (set_bits v)) Hq') as (S' & Hm & E).
      exists S'. split.
      * intros x. rewrite Hm, clip_ranges_app, in_ranges_app, in_clip_points.
        assert (En : existsb (fun j => okv (s + j) && (x =? s + j + bias)) (set_bits v) = false).
        { apply not_true_is_false. intros Hex. apply existsb_exists in Hex. destruct Hex as (j1 & Hin & Hc).
          destruct (set_bits_sorted v) as (_ & Hnn). rewrite Forall_forall in Hnn. specialize (Hnn j1 Hin).
          unfold okv in Hc. lia. }
        rewrite En. apply orb_false_r.
      * rewrite E. change (S (length q) <=? S (length ns))%nat with (length q <=? length ns)%nat.
        destruct (length q <=? length ns)%nat; [|reflexivity]. f_equal. f_equal. lia.
Qed.

Lemma sim ns : Forall (fun v => 0 <= v < 2 ^ bf) ns -> forall i q out used Sm,
  Forall (qwf bf H) q -> StronglySorted qR q ->
  (forall x, in_ranges x out = in_ranges x (clip_ranges bias maxv Sm)) ->
  match aloop bf H bias maxv ns i q out with
  | APanic => True
  | AErr => zspec ns used q Sm = None
  | ADone i' q' out' =>
      exists S', (forall x, in_ranges x out' = in_ranges x (clip_ranges bias maxv S')) /\
        zspec ns used q Sm =
        if (length q' <=? length ns - (i' - i))%nat
        then Some (S', used + Z.of_nat (i' - i) + Z.of_nat (length q')) else None
  end.
Proof.
  pose proof (bf_ge2 bf Hbf) as Hb2.
  pose proof (bf_pow_max bf H Hbf ltac:(lia)) as HP.
  assert (HU : 2 ^ 35 < U64) by (vm_compute; reflexivity).
  induction 1 as [|v ns Hv Hns IH]; intros i q out used Sm Hq Hsort Hrel.
  - destruct q as [|[s d] q]; cbn [aloop zspec]; [|reflexivity].
    exists Sm. split; [assumption|]. cbn. f_equal. f_equal. lia.
  - destruct q as [|[s d] q]; cbn [aloop zspec].
    { exists Sm. split; [assumption|]. cbn [length]. replace (i - i)%nat with 0%nat by lia. cbn. f_equal. f_equal. lia. }
    inversion Hq as [|? ? Hsd Hq']; subst.
    inversion Hsort as [|? ? Hsort' Hall]; subst.
    (* a helper to transport the recursive result *)
    assert (Hstep : forall q2 out2 S2, Forall (qwf bf H) q2 -> StronglySorted qR q2 ->
      (forall x, in_ranges x out2 = in_ranges x (clip_ranges bias maxv S2)) ->
      match aloop bf H bias maxv ns (S i) q2 out2 with
      | APanic => True
      | AErr => zspec ns (used + 1) q2 S2 = None
      | ADone i' q' out' =>
          exists S', (forall x, in_ranges x out' = in_ranges x (clip_ranges bias maxv S')) /\
            zspec ns (used + 1) q2 S2 =
            if (length q' <=? length (v :: ns) - (i' - i))%nat
            then Some (S', used + Z.of_nat (i' - i) + Z.of_nat (length q')) else None
      end).
    { intros q2 out2 S2 Hq2 Hs2 Hr2. specialize (IH (S i) q2 out2 (used + 1) S2 Hq2 Hs2 Hr2).
      pose proof (aloop_safe bf H bias maxv Hbf HH ns Hns (S i) q2 out2 Hq2) as Hsafe.
      destruct (aloop bf H bias maxv ns (S i) q2 out2) as [i' q' out'| |]; try assumption.
      destruct Hsafe as (Hi & _ & _). destruct IH as (S' & Hm & E). exists S'. split; [assumption|].
      rewrite E. cbn [length].
      replace (S (length ns) - (i' - i))%nat with (length ns - (i' - S i))%nat by lia.
      destruct (length q' <=? length ns - (i' - S i))%nat; [|reflexivity]. f_equal. f_equal. lia. }
    destruct (v =? 0).
    + destruct (filled_range_spec s d Hsd) as (r & Er & Hmr). rewrite Er.
      assert (Hrel2 : forall x, in_ranges x (match r with Some rg => rg :: out | None => out end) =
                in_ranges x (clip_ranges bias maxv (Sm ++ [(s, s + bf ^ (H - d + 1) - 1)]))).
      { intros x. rewrite clip_ranges_app, in_ranges_app, in_clip_one, <- Hrel, <- Hmr.
        destruct r as [rg|]; cbn [in_ranges existsb]; [|rewrite orb_false_r; reflexivity].
        rewrite orb_false_r. apply orb_comm. }
      destruct r as [rg|]; apply Hstep; assumption.
    + destruct Hsd as (Hd & Hs & He). cbn [fst snd] in *.
      destruct (Z.ltb_spec H d); [lia|].
      assert (HPd : 0 < bf ^ (H - d)) by (apply Z.pow_pos_nonneg; lia).
      assert (HPs : bf ^ (H - d + 1) = bf * bf ^ (H - d)) by (apply pow_split; lia).
      rewrite pow_u64_some by nia.
      destruct (set_bits_sorted v) as (Hsb1 & Hsb2).
      destruct (Z.eqb_spec d H) as [->|Hne].
      * destruct (bits_loop_leaf_spec s (bf ^ (H - H)) Hs (set_bits v) q out Hsb1 Hsb2) as (b & out' & E & Hmem & Hb).
        rewrite E.
        assert (Hrel2 : forall x, in_ranges x out' =
                  in_ranges x (clip_ranges bias maxv (Sm ++ map (fun i0 => (s + i0, s + i0)) (set_bits v)))).
        { intros x. rewrite Hmem, clip_ranges_app, in_ranges_app, in_clip_points, Hrel. reflexivity. }
        destruct b; [|apply Hstep; assumption].
        (* break 'outer *)
        destruct (Hb eq_refl) as (j0 & Hin0 & Hok0).
        assert (Hj0 : 0 <= j0 < bf) by (apply (set_bits_in v bf j0) in Hin0; lia).
        destruct (spec_tail (s + j0) Hok0 q ns (used + 1) (Sm ++ map (fun i0 => (s + i0, s + i0)) (set_bits v))) as (S' & Hm & Ez).
        { rewrite Forall_forall in Hall, Hq' |- *. intros [s2 d2] Hin2. specialize (Hall _ Hin2). specialize (Hq' _ Hin2).
          unfold qR, qwf in *. cbn [fst snd] in *. replace (H - H + 1) with 1 in Hall by lia. rewrite Z.pow_1_r in Hall. lia. }
        exists S'. split.
        -- intros x. rewrite Hm. apply Hrel2.
        -- rewrite Ez. cbn [length]. replace (S (length ns) - (S i - i))%nat with (length ns) by lia.
           destruct (length q <=? length ns)%nat; [|reflexivity]. f_equal. f_equal. lia.
      * assert (Hj : forall j, In j (set_bits v) -> 0 <= j < bf).
        { intros j Hin. apply (set_bits_in v bf j) in Hin; lia. }
        rewrite bits_loop_inner; [|assumption|].
        2:{ intros j Hin. specialize (Hj j Hin). nia. }
        apply Hstep; [| |assumption].
        -- apply Forall_app. split; [assumption|]. apply Forall_forall. intros e Hin.
           apply in_map_iff in Hin. destruct Hin as (j & <- & Hin). specialize (Hj j Hin).
           unfold qwf. cbn [fst snd]. replace (H - (d + 1) + 1) with (H - d) by lia. nia.
        -- (* order preserved *)
           assert (Hch : forall l lo, Sorted Z.lt l -> Forall (fun j => lo <= j) l ->
                     StronglySorted qR (map (fun j => (s + j * bf ^ (H - d), d + 1)) l)).
           { induction l as [|a l IHl]; intros lo Hsl Hfl; cbn [map]; [constructor|].
             apply Sorted_StronglySorted in Hsl; [|intros x y z; lia].
             inversion Hsl as [|? ? Hsl' Hal]; subst. inversion Hfl; subst.
             constructor; [apply (IHl lo); [apply StronglySorted_Sorted|]; assumption|].
             apply Forall_forall. intros e Hin. apply in_map_iff in Hin. destruct Hin as (j & <- & Hin).
             rewrite Forall_forall in Hal. specialize (Hal j Hin).
             left. cbn [fst snd]. split; [reflexivity|]. replace (H - (d + 1) + 1) with (H - d) by lia. nia. }
           assert (Happ : forall l1 l2, StronglySorted qR l1 -> StronglySorted qR l2 ->
                     (forall x y, In x l1 -> In y l2 -> qR x y) -> StronglySorted qR (l1 ++ l2)).
           { induction l1 as [|a l1 IHl1]; intros l2 H1 H2 H12; cbn [app]; [assumption|].
             inversion H1 as [|? ? H1' Ha]; subst.
             constructor; [apply IHl1; [assumption | assumption | intros; apply H12; [right|]; assumption]|].
             apply Forall_app. split; [assumption|]. apply Forall_forall. intros y Hy. apply H12; [left; reflexivity | assumption]. }
           apply Happ; [assumption | apply (Hch _ 0); assumption |].
           intros [s2 d2] y Hin2 Hiny. apply in_map_iff in Hiny. destruct Hiny as (j & <- & Hinj).
           specialize (Hj j Hinj). rewrite Forall_forall in Hall. specialize (Hall _ Hin2).
           unfold qR in *. cbn [fst snd] in *.
           replace (H - (d + 1) + 1) with (H - d) by lia.
           destruct Hall as [(Ed & Hle) | (Ed & Hle)].
           ++ right. split; [lia|]. subst d2. nia.
           ++ left. split; [lia|]. subst d2. replace (H - (d + 1) + 1) with (H - d) in * by lia. nia.
Qed.

End Spec.

(* ------------------------------------------------------------------------------------------ *)
(* the specification's bit string, cut into groups of B bits, is the node stream *)
Lemma map_zseq_ext (f g : Z -> bool) n : forall a c,
  (forall t, 0 <= t < Z.of_nat n -> f (a + t) = g (c + t)) -> map f (zseq a n) = map g (zseq c n).
Proof.
  induction n as [|n IH]; intros a c Hfg; cbn [zseq map]; [reflexivity|].
  f_equal.
  - specialize (Hfg 0 ltac:(lia)). rewrite !Z.add_0_r in Hfg. exact Hfg.
  - apply IH. intros t Ht. replace (a + 1 + t) with (a + (1 + t)) by lia. replace (c + 1 + t) with (c + (1 + t)) by lia.
    apply Hfg. lia.
Qed.

Lemma node_bits_sub b k si : 0 <= si -> 0 <= k ->
  node_bits k (Z.shiftr (Z.land b (Z.shiftl (Z.ones k) si)) si) = map (Z.testbit b) (zseq si (Z.to_nat k)).
Proof.
  intros Hsi Hk. unfold node_bits. apply map_zseq_ext. intros t Ht.
  rewrite land_shr_eq by assumption. rewrite Z.mod_pow2_bits_low by lia.
  rewrite Z.shiftr_spec by lia. f_equal. lia.
Qed.

Lemma chunks8 tree : forall f, (8 * length tree <= f)%nat ->
  chunks f 8 (bit_string tree) = map (node_bits 8) tree.
Proof.
  induction tree as [|b r IH]; intros f Hf.
  - destruct f; reflexivity.
  - destruct f as [|f]; [cbn [length] in Hf; lia|].
    unfold bit_string in *. cbn [flat_map map]. unfold byte_bits at 1. cbn [map app].
    cbn [chunks length Nat.ltb Nat.leb firstn skipn]. f_equal. apply IH. cbn [length] in Hf. lia.
Qed.

Lemma chunks4 tree : forall f, (8 * length tree <= f)%nat ->
  chunks f 4 (bit_string tree) = map (node_bits 4) (flat_map (fun b => [n4 b 0; n4 b 4]) tree).
Proof.
  induction tree as [|b r IH]; intros f Hf.
  - destruct f; reflexivity.
  - destruct f as [|[|f]]; try (cbn [length] in Hf; lia).
    unfold bit_string in *. cbn [flat_map map app]. unfold byte_bits at 1. cbn [map app].
    cbn [chunks length Nat.ltb Nat.leb firstn skipn].
    unfold n4. change 15 with (Z.ones 4). rewrite !node_bits_sub by lia.
    f_equal. f_equal. apply IH. cbn [length] in Hf. lia.
Qed.

Lemma chunks2 tree : forall f, (8 * length tree <= f)%nat ->
  chunks f 2 (bit_string tree) = map (node_bits 2) (flat_map (fun b => [n2 b 0; n2 b 2; n2 b 4; n2 b 6]) tree).
Proof.
  induction tree as [|b r IH]; intros f Hf.
  - destruct f; reflexivity.
  - destruct f as [|[|[|[|f]]]]; try (cbn [length] in Hf; lia).
    unfold bit_string in *. cbn [flat_map map app]. unfold byte_bits at 1. cbn [map app].
    cbn [chunks length Nat.ltb Nat.leb firstn skipn].
    unfold n2. change 3 with (Z.ones 2). rewrite !node_bits_sub by lia.
    f_equal. f_equal. f_equal. f_equal. apply IH. cbn [length] in Hf. lia.
Qed.

Lemma lor4_bits b1 b2 b3 b4 i : is_byte b1 -> is_byte b2 -> is_byte b3 -> is_byte b4 -> 0 <= i ->
  Z.testbit (Z.lor (Z.lor (Z.lor b1 (Z.shiftl b2 8)) (Z.shiftl b3 16)) (Z.shiftl b4 24)) i =
  if i <? 8 then Z.testbit b1 i else if i <? 16 then Z.testbit b2 (i - 8)
  else if i <? 24 then Z.testbit b3 (i - 16) else Z.testbit b4 (i - 24).
Proof.
  unfold is_byte. intros H1 H2 H3 H4 Hi.
  rewrite !Z.lor_spec, !Z.shiftl_spec by lia.
  assert (Hs : forall b j, 0 <= b < 256 -> 8 <= j -> Z.testbit b j = false).
  { intros b j Hb Hj. apply (testbit_small b 8); [change (2 ^ 8) with 256|]; lia. }
  destruct (Z.ltb_spec i 8).
  - rewrite (Z.testbit_neg_r b2), (Z.testbit_neg_r b3), (Z.testbit_neg_r b4) by lia. rewrite !orb_false_r. reflexivity.
  - rewrite (Hs b1 i) by lia. destruct (Z.ltb_spec i 16).
    + rewrite (Z.testbit_neg_r b3), (Z.testbit_neg_r b4) by lia. rewrite !orb_false_r. reflexivity.
    + rewrite (Hs b2 (i - 8)) by lia. destruct (Z.ltb_spec i 24).
      * rewrite (Z.testbit_neg_r b4) by lia. rewrite !orb_false_r. reflexivity.
      * rewrite (Hs b3 (i - 16)) by lia. reflexivity.
Qed.

Lemma node_bits32 b1 b2 b3 b4 : is_byte b1 -> is_byte b2 -> is_byte b3 -> is_byte b4 ->
  node_bits 32 (Z.lor (Z.lor (Z.lor b1 (Z.shiftl b2 8)) (Z.shiftl b3 16)) (Z.shiftl b4 24)) =
  byte_bits b1 ++ byte_bits b2 ++ byte_bits b3 ++ byte_bits b4.
Proof.
  intros H1 H2 H3 H4. unfold node_bits.
  change (zseq 0 (Z.to_nat 32)) with (zseq 0 8 ++ zseq 8 8 ++ zseq 16 8 ++ zseq 24 8).
  rewrite !map_app.
  change (byte_bits b1) with (map (Z.testbit b1) (zseq 0 8)).
  change (byte_bits b2) with (map (Z.testbit b2) (zseq 0 8)).
  change (byte_bits b3) with (map (Z.testbit b3) (zseq 0 8)).
  change (byte_bits b4) with (map (Z.testbit b4) (zseq 0 8)).
  f_equal; [|f_equal; [|f_equal]]; apply map_zseq_ext; intros t Ht; change (Z.of_nat 8) with 8 in Ht;
    rewrite lor4_bits by (assumption || lia).
  - destruct (Z.ltb_spec (0 + t) 8); [reflexivity | lia].
  - destruct (Z.ltb_spec (8 + t) 8); [lia|]. destruct (Z.ltb_spec (8 + t) 16); [f_equal; lia | lia].
  - destruct (Z.ltb_spec (16 + t) 8); [lia|]. destruct (Z.ltb_spec (16 + t) 16); [lia|].
    destruct (Z.ltb_spec (16 + t) 24); [f_equal; lia | lia].
  - destruct (Z.ltb_spec (24 + t) 8); [lia|]. destruct (Z.ltb_spec (24 + t) 16); [lia|].
    destruct (Z.ltb_spec (24 + t) 24); [lia | f_equal; lia].
Qed.

Lemma byte_bits_length b : length (byte_bits b) = 8%nat.
Proof. reflexivity. Qed.

Lemma bit_string_length tree : length (bit_string tree) = (8 * length tree)%nat.
Proof. induction tree as [|b r IH]; [reflexivity|]. unfold bit_string in *. cbn [flat_map]. rewrite app_length, IH, byte_bits_length. cbn [length]. lia. Qed.

Lemma chunks32 n : forall tree f, (length tree <= n)%nat -> Forall is_byte tree -> (8 * length tree <= f)%nat ->
  chunks f 32 (bit_string tree) = map (node_bits 32) (nodes32 tree).
Proof.
  induction n as [|n IH]; intros tree f Hn Hby Hf.
  - destruct tree; [|cbn [length] in Hn; lia]. destruct f; reflexivity.
  - destruct tree as [|b1 [|b2 [|b3 [|b4 r]]]].
    + destruct f; reflexivity.
    + destruct f; reflexivity.
    + destruct f; reflexivity.
    + destruct f; reflexivity.
    + destruct f as [|f]; [cbn [length] in Hf; lia|].
      inversion Hby as [|? ? H1 Hby1]; subst. inversion Hby1 as [|? ? H2 Hby2]; subst.
      inversion Hby2 as [|? ? H3 Hby3]; subst. inversion Hby3 as [|? ? H4 Hby4]; subst.
      cbn [nodes32 map]. rewrite node_bits32 by assumption.
      change (bit_string (b1 :: b2 :: b3 :: b4 :: r)) with
        (byte_bits b1 ++ byte_bits b2 ++ byte_bits b3 ++ byte_bits b4 ++ bit_string r).
      unfold byte_bits at 1 2 3 4 5 6 7 8. cbn [map app].
      cbn [chunks length Nat.ltb Nat.leb firstn skipn]. f_equal.
      apply IH; [cbn [length] in Hn; lia | assumption | cbn [length] in Hf; lia].
Qed.

Lemma chunks_nodes bf tree : bf_valid bf = true -> Forall is_byte tree ->
  chunks (length (bit_string tree)) (Z.to_nat bf) (bit_string tree) = map (node_bits bf) (all_nodes bf tree).
Proof.
  intros Hbf Hby. rewrite bit_string_length.
  destruct (bf_cases _ Hbf) as [-> | [-> | [-> | ->]]]; unfold all_nodes; cbn [Z.eqb Pos.eqb].
  - apply chunks2. lia.
  - apply chunks4. lia.
  - apply chunks8. lia.
  - apply (chunks32 (length tree)); [lia | assumption | lia].
Qed.

(* ------------------------------------------------------------------------------------------ *)
(* header, stream length, remainder *)
Definition spec_B (header : Z) : Z :=
  match Z.testbit header 1, Z.testbit header 0 with
  | false, false => 2 | false, true => 4 | true, false => 8 | true, true => 32 end.

Lemma spec_B_eq h : is_byte h -> spec_B h = bf_of_bits (Z.land h 3).
Proof.
  intros Hb.
  assert (Hall : forallb (fun h => spec_B h =? bf_of_bits (Z.land h 3)) (zseq 0 256) = true) by (vm_compute; reflexivity).
  rewrite forallb_forall in Hall. specialize (Hall h). apply Z.eqb_eq. apply Hall. apply zseq_in. unfold is_byte in Hb. lia.
Qed.

Lemma all_nodes_len bf tree : bf_valid bf = true ->
  Z.of_nat (length (all_nodes bf tree)) = (8 * Z.of_nat (length tree)) / bf.
Proof.
  intros Hbf. destruct (bf_cases _ Hbf) as [-> | [-> | [-> | ->]]]; unfold all_nodes; cbn [Z.eqb Pos.eqb].
  - assert (E : length (flat_map (fun b => [n2 b 0; n2 b 2; n2 b 4; n2 b 6]) tree) = (4 * length tree)%nat)
      by (induction tree; cbn [flat_map length app] in *; lia).
    rewrite E. lia.
  - assert (E : length (flat_map (fun b => [n4 b 0; n4 b 4]) tree) = (2 * length tree)%nat)
      by (induction tree; cbn [flat_map length app] in *; lia).
    rewrite E. lia.
  - lia.
  - assert (G : forall n l, (length l <= n)%nat -> Z.of_nat (length (nodes32 l)) = Z.of_nat (length l) / 4).
    { induction n; intros l Hl.
      - destruct l; cbn in *; [reflexivity | lia].
      - destruct l as [|b1 [|b2 [|b3 [|b4 r]]]]; cbn [nodes32 length] in *; try reflexivity.
        specialize (IHn r ltac:(lia)). lia. }
    rewrite (G (length tree)) by lia. lia.
Qed.

Lemma skip_consumed bf i n : bf_valid bf = true -> 0 <= n -> (bf <= 4 -> snd (st_of_index bf i) + n * bf < U32) ->
  exists s2, ibs_skip bf (st_of_index bf i) n = Some s2 /\
             bytes_consumed s2 = S (Z.to_nat (((Z.of_nat i + n) * bf + 7) / 8)).
Proof.
  intros Hbf Hn Hb. unfold ibs_skip, st_of_index, U32 in *.
  destruct (bf_cases _ Hbf) as [-> | [-> | [-> | ->]]]; cbn [Z.eqb Pos.eqb orb snd] in *.
  - specialize (Hb ltac:(lia)).
    destruct (Z.leb_spec 4294967296 (n * 2)); [lia|].
    destruct (Z.leb_spec 4294967296 (Z.of_nat (2 * (i mod 4)) + n * 2)); [lia|].
    eexists. split; [reflexivity|]. unfold bytes_consumed. cbn [fst snd].
    destruct (Z.ltb_spec 0 ((Z.of_nat (2 * (i mod 4)) + n * 2) mod 8)); lia.
  - specialize (Hb ltac:(lia)).
    destruct (Z.leb_spec 4294967296 (n * 4)); [lia|].
    destruct (Z.leb_spec 4294967296 (Z.of_nat (4 * (i mod 2)) + n * 4)); [lia|].
    eexists. split; [reflexivity|]. unfold bytes_consumed. cbn [fst snd].
    destruct (Z.ltb_spec 0 ((Z.of_nat (4 * (i mod 2)) + n * 4) mod 8)); lia.
  - eexists. split; [reflexivity|]. unfold bytes_consumed. cbn [fst snd Z.ltb Z.compare]. lia.
  - eexists. split; [reflexivity|]. unfold bytes_consumed. cbn [fst snd Z.ltb Z.compare]. lia.
Qed.

Theorem decode_matches_spec data bias maxv :
  Forall is_byte data -> 0 <= bias -> 0 <= maxv < U32 ->
  match data with
  | h :: _ => Z.shiftr (Z.land h 124) 2 <= max_height (bf_of_bits (Z.land h 3))
  | [] => True
  end ->
  match spec_decode data with
  | SErr => decode data bias maxv = Err
  | SOk srs srest =>
      exists rs, decode data bias maxv = Ok rs srest /\
                 forall x, in_ranges x rs = in_ranges x (clip_ranges bias maxv srs)
  end.
Proof.
  intros Hby Hbias Hmax Hsup. destruct data as [|h tree]; [reflexivity|].
  inversion Hby as [|? ? Hh Htree]; subst.
  unfold spec_decode, decode. fold (spec_B h). rewrite (spec_B_eq h Hh), <- header_height_eq.
  set (bf := bf_of_bits (Z.land h 3)) in *. set (H := Z.shiftr (Z.land h 124) 2) in *.
  assert (Hbf : bf_valid bf = true) by apply bf_of_bits_valid.
  pose proof (header_height_range h) as HH. fold H in HH. clearbody bf H.
  destruct (Z.ltb_spec (max_height bf) H); [lia|].
  unfold decode_nodes. destruct (Z.eqb_spec H 0) as [|HH0].
  { exists []. split; reflexivity. }
  rewrite chunks_nodes by assumption.
  pose proof (all_nodes_bound bf tree Hbf Htree) as Hnb.
  rewrite (spec_loop_zspec bf H Hbf) by assumption.
  rewrite <- (st_of_index_0 bf).
  pose proof (all_nodes_length bf tree Hbf) as HL. pose proof (bf_ge2 bf Hbf) as Hb2.
  rewrite dec_loop_aloop by (try assumption; cbn [length]; nia).
  cbn [skipn].
  assert (Hq0 : Forall (qwf bf H) [(0, 1)]).
  { constructor; [|constructor]. unfold qwf. cbn [fst snd]. replace (H - 1 + 1) with H by lia.
    pose proof (bf_pow_max bf H Hbf ltac:(lia)). lia. }
  pose proof (aloop_safe bf H bias maxv Hbf ltac:(lia) (all_nodes bf tree) Hnb 0%nat [(0, 1)] [] Hq0) as Hsafe.
  assert (Hs0 : StronglySorted (qR bf H) [(0, 1)]) by (constructor; constructor).
  pose proof (sim bf H bias maxv Hbf ltac:(lia) Hbias Hmax (all_nodes bf tree) Hnb 0%nat [(0, 1)] [] 0 [] Hq0 Hs0
                  (fun x => eq_refl)) as Hsim.
  pose proof (aloop_count bf H bias maxv Hbf ltac:(lia) (all_nodes bf tree) Hnb 0%nat [(0, 1)] [] Hq0) as Hcount.
  destruct (aloop bf H bias maxv (all_nodes bf tree) 0 [(0, 1)] []) as [i' q' out'| |]; cbn [lift]; [| |contradiction].
  2:{ rewrite Hsim. reflexivity. }
  destruct Hsafe as (Hi & Hql & Hq'). destruct Hcount as (Hc1 & Hc2).
  cbn [sumw snd length] in Hc1, Hc2, Hql. replace (H - 1 + 1) with H in Hc1 by lia.
  destruct (skip_safe bf H i' q' Hbf ltac:(lia) Hq' ltac:(lia) ltac:(destruct Hc2; [left; assumption | right; lia])) as (Hn1 & Hn2).
  destruct Hsim as (S' & Hmem & Ez). rewrite Ez. clear Ez.
  assert (En : Z.of_nat (length q') mod U32 = Z.of_nat (length q')) by (apply Z.mod_small; lia).
  rewrite En.
  destruct (skip_consumed bf i' (Z.of_nat (length q')) Hbf ltac:(lia) Hn2) as (s2 & Es & Ec).
  rewrite Es, Ec. clear Es Ec.
  pose proof (all_nodes_len bf tree Hbf) as HLe.
  replace (i' - 0)%nat with i' by lia.
  set (c := Z.to_nat (((Z.of_nat i' + Z.of_nat (length q')) * bf + 7) / 8)).
  assert (Hiff : (S c <=? length (h :: tree))%nat = (length q' <=? length (all_nodes bf tree) - i')%nat).
  { cbn [length]. unfold c. destruct (bf_cases _ Hbf) as [-> | [-> | [-> | ->]]];
      destruct (Nat.leb_spec (length q') (length (all_nodes 2 tree) - i'))
      || destruct (Nat.leb_spec (length q') (length (all_nodes 4 tree) - i'))
      || destruct (Nat.leb_spec (length q') (length (all_nodes 8 tree) - i'))
      || destruct (Nat.leb_spec (length q') (length (all_nodes 32 tree) - i'));
      match goal with |- (?a <=? ?b)%nat = _ => destruct (Nat.leb_spec a b) end; try reflexivity; lia. }
  rewrite Hiff. destruct (length q' <=? length (all_nodes bf tree) - i')%nat; [|reflexivity].
  exists (rev out'). split.
  - f_equal; try (cbn [skipn]; f_equal; unfold c; f_equal; f_equal; lia).
  - intros x. rewrite in_ranges_rev. apply Hmem.
Qed.
