(* C14 (set half) — RangeSet, UNBOUNDED: after any insert sequence the ranges are sorted, disjoint and
   non-adjacent and cover exactly the union of the (well-formed) inserted ranges; intersection of two
   canonical sets is canonical and covers exactly the pointwise meet. *)
From Coq Require Import ZArith NArith List Bool Lia Sorting.Sorted.
From FV Require Import C14.Model.
Import ListNotations.
Open Scope N_scope.

Definition far (r1 r2 : N * N) : Prop := snd r1 + 1 < fst r2.
Definition okr (r : N * N) : Prop := fst r <= snd r.
(* sorted by start, disjoint, non-adjacent (every later range starts beyond end+1), no empty range *)
Definition canon (l : list (N * N)) : Prop := StronglySorted far l /\ Forall okr l.
Definition inr (r : N * N) (v : N) : bool := (fst r <=? v) && (v <=? snd r).
Definition cov (l : list (N * N)) (v : N) : bool := existsb (fun r => inr r v) l.

Lemma cov_app l1 l2 v : cov (l1 ++ l2) v = cov l1 v || cov l2 v.
Proof. apply existsb_app. Qed.
Lemma cov_cons r l v : cov (r :: l) v = inr r v || cov l v.
Proof. reflexivity. Qed.

Lemma ss_app_iff {A} (R : A -> A -> Prop) l1 l2 :
  StronglySorted R (l1 ++ l2) <->
  StronglySorted R l1 /\ StronglySorted R l2 /\ (forall a b, In a l1 -> In b l2 -> R a b).
Proof.
  induction l1 as [|x t IH]; cbn [app].
  - split; [intros H; repeat split; [constructor|exact H|intros a b []]|tauto].
  - split.
    + intros H. inversion H; subst. apply IH in H2 as (S1 & S2 & C). rewrite Forall_forall in H3.
      split; [|split; [exact S2|]].
      * constructor; [exact S1|]. apply Forall_forall. intros y Hy. apply H3, in_app_iff. left. exact Hy.
      * intros a b [<-|Ha] Hb; [apply H3, in_app_iff; right; exact Hb|apply C; assumption].
    + intros (S1 & S2 & C). inversion S1; subst. constructor.
      * apply IH. split; [assumption|]. split; [assumption|]. intros a b Ha Hb. apply C; [right; exact Ha|exact Hb].
      * apply Forall_forall. intros y Hy. apply in_app_iff in Hy as [Hy|Hy].
        -- rewrite Forall_forall in H2. apply H2, Hy.
        -- apply C; [left; reflexivity|exact Hy].
Qed.

Lemma canon_app_iff l1 l2 : canon (l1 ++ l2) <->
  canon l1 /\ canon l2 /\ (forall a b, In a l1 -> In b l2 -> far a b).
Proof.
  unfold canon. rewrite ss_app_iff, Forall_app. tauto.
Qed.
Lemma canon_cons_iff r l : canon (r :: l) <-> okr r /\ canon l /\ (forall b, In b l -> far r b).
Proof.
  unfold canon. split.
  - intros [H1 H2]. inversion H1; subst. inversion H2; subst. rewrite Forall_forall in H4. tauto.
  - intros (H1 & [H2 H3] & H4). split; constructor; try assumption. apply Forall_forall, H4.
Qed.
Lemma canon_nil : canon [].
Proof. split; constructor. Qed.

(* ---- BTreeMap primitives on the key-sorted list ---- *)
Lemma next_range_none l start : next_range l start = None -> Forall (fun r => fst r < start) l.
Proof.
  induction l as [|[s e] t IH]; cbn [next_range]; intros H; [constructor|].
  destruct (N.leb_spec start s); [discriminate|]. constructor; [exact H0|apply IH, H].
Qed.
Lemma next_range_some l start ns ne : next_range l start = Some (ns, ne) ->
  exists l1 l2, l = l1 ++ (ns, ne) :: l2 /\ Forall (fun r => fst r < start) l1 /\ start <= ns.
Proof.
  induction l as [|[s e] t IH]; cbn [next_range]; intros H; [discriminate|].
  destruct (N.leb_spec start s).
  - injection H as -> ->. exists [], t. repeat split; [constructor|assumption].
  - destruct (IH H) as (l1 & l2 & -> & F & L). exists ((s, e) :: l1), l2. repeat split; [constructor; assumption|exact L].
Qed.
Lemma prev_range_spec l start :
  match prev_range l start with
  | Some (ps, pe) => exists l1 l2, l = l1 ++ (ps, pe) :: l2 /\ Forall (fun r => fst r < start) l1 /\ ps < start /\
                                   match l2 with [] => True | r :: _ => start <= fst r end
  | None => match l with [] => True | r :: _ => start <= fst r end
  end.
Proof.
  induction l as [|[s e] t IH]; cbn [prev_range]; [exact I|].
  destruct (N.ltb_spec s start) as [C|C]; [|exact C].
  destruct (prev_range t start) as [[ps pe]|].
  - destruct IH as (l1 & l2 & -> & F & L & T). exists ((s, e) :: l1), l2. repeat split; try assumption. constructor; assumption.
  - exists [], t. repeat split; [constructor|exact C|exact IH].
Qed.

Lemma map_remove_mid l1 k v l2 : Forall (fun r => fst r < k) l1 -> map_remove (l1 ++ (k, v) :: l2) k = l1 ++ l2.
Proof.
  induction l1 as [|[s e] t IH]; intros H; cbn [app map_remove].
  - rewrite N.eqb_refl. reflexivity.
  - inversion H; subst. cbn [fst] in *. destruct (N.eqb_spec s k); [lia|]. rewrite IH by assumption. reflexivity.
Qed.
Lemma map_insert_end l k v : Forall (fun r => fst r < k) l -> map_insert l k v = l ++ [(k, v)].
Proof.
  induction l as [|[s e] t IH]; intros H; cbn [app map_insert]; [reflexivity|].
  inversion H; subst. cbn [fst] in *. destruct (N.ltb_spec k s); [lia|]. destruct (N.eqb_spec k s); [lia|].
  rewrite IH by assumption. reflexivity.
Qed.
Lemma map_insert_mid l1 k v ns ne l2 : Forall (fun r => fst r < k) l1 -> k < ns ->
  map_insert (l1 ++ (ns, ne) :: l2) k v = l1 ++ (k, v) :: (ns, ne) :: l2.
Proof.
  induction l1 as [|[s e] t IH]; intros H L; cbn [app map_insert].
  - destruct (N.ltb_spec k ns); [reflexivity|lia].
  - inversion H; subst. cbn [fst] in *. destruct (N.ltb_spec k s); [lia|]. destruct (N.eqb_spec k s); [lia|].
    rewrite IH by assumption. reflexivity.
Qed.

(* keys of a canonical list grow *)
Lemma canon_tail_keys r l : canon (r :: l) -> Forall (fun b => snd r + 1 < fst b) l.
Proof. intros H. apply canon_cons_iff in H as (_ & _ & H). apply Forall_forall. exact H. Qed.
Lemma canon_head_le_tail_keys r0 l x : canon (r0 :: l) -> x <= fst r0 -> Forall (fun b => x <= fst b) (r0 :: l).
Proof.
  intros H Hx. pose proof H as H'. apply canon_cons_iff in H as (Ho & _ & Hf). constructor; [exact Hx|].
  apply Forall_forall. intros b Hb. specialize (Hf b Hb). unfold far, okr in *. lia.
Qed.

(* ---- the loop of RangeSet::insert ---- *)
(* invariant: every existing range that starts before [start] ends before start - 1 *)
Definition inv (l : list (N * N)) (start : N) : Prop := Forall (fun r => fst r < start -> snd r + 1 < start) l.

Lemma merge_cond_next start end_ ns ne : start <= end_ -> start <= ns -> ns <= ne ->
  (ranges_overlap_or_adjacent start end_ ns ne = true -> ns <= end_ + 1) /\
  (ranges_overlap_or_adjacent start end_ ns ne = false -> end_ + 1 < ns).
Proof.
  intros H1 H2 H3. unfold ranges_overlap_or_adjacent, are_adjacent.
  destruct (N.leb_spec start ne), (N.leb_spec ns end_), (N.eqb_spec (end_ + 1) ns), (N.eqb_spec (ns + 1) end_),
    (N.eqb_spec (ne + 1) start), (N.eqb_spec (start + 1) ne); cbn [andb orb]; split; intros; try discriminate; lia.
Qed.
Lemma merge_cond_prev a b ps pe : a <= b -> ps < a -> ps <= pe ->
  (ranges_overlap_or_adjacent a b ps pe = true -> a <= pe + 1) /\
  (ranges_overlap_or_adjacent a b ps pe = false -> pe + 1 < a).
Proof.
  intros H1 H2 H3. unfold ranges_overlap_or_adjacent, are_adjacent.
  destruct (N.leb_spec a pe), (N.leb_spec ps b), (N.eqb_spec (b + 1) ps), (N.eqb_spec (ps + 1) b),
    (N.eqb_spec (pe + 1) a), (N.eqb_spec (a + 1) pe); cbn [andb orb]; split; intros; try discriminate; lia.
Qed.

Lemma inr_union start end_ ns ne v : start <= ns -> ns <= end_ + 1 -> ns <= ne -> start <= end_ ->
  inr (start, N.max end_ ne) v = inr (start, end_) v || inr (ns, ne) v.
Proof.
  intros. unfold inr. cbn [fst snd].
  destruct (N.leb_spec start v), (N.leb_spec v (N.max end_ ne)), (N.leb_spec v end_), (N.leb_spec ns v), (N.leb_spec v ne);
    cbn [andb orb]; try reflexivity; lia.
Qed.

Lemma rs_insert_loop_spec fuel : forall l start end_,
  (length l < fuel)%nat -> canon l -> start <= end_ -> inv l start ->
  canon (rs_insert_loop fuel l start end_) /\
  forall v, cov (rs_insert_loop fuel l start end_) v = cov l v || inr (start, end_) v.
Proof.
  induction fuel as [|fuel IH]; intros l start end_ Hf Hc Hse Hi; [lia|].
  cbn [rs_insert_loop]. destruct (next_range l start) as [[ns ne]|] eqn:En.
  - destruct (next_range_some _ _ _ _ En) as (l1 & l2 & -> & F1 & Lns).
    pose proof Hc as Hc0. apply canon_app_iff in Hc as (C1 & C2 & C12). apply canon_cons_iff in C2 as (Ok & C2 & C2f).
    unfold okr in Ok. cbn [fst snd] in Ok.
    assert (Far1 : forall a, In a l1 -> snd a + 1 < start).
    { intros a Ha. unfold inv in Hi. rewrite Forall_forall in Hi, F1. apply Hi; [apply in_app_iff; left; exact Ha|apply F1, Ha]. }
    unfold range_is_subset. destruct (N.leb_spec ns start) as [S1|S1]; [destruct (N.leb_spec end_ ne) as [S2|S2]|]; cbn [andb].
    + (* already contained *)
      split; [exact Hc0|]. intros v. rewrite cov_app, cov_cons. unfold inr. cbn [fst snd].
      destruct (N.leb_spec start v), (N.leb_spec v end_), (N.leb_spec ns v), (N.leb_spec v ne); cbn [andb orb];
        rewrite ?orb_true_r, ?orb_false_r; try reflexivity; lia.
    + (* ns = start but longer: falls through to the overlap test, which holds *)
      destruct (merge_cond_next start end_ ns ne Hse Lns Ok) as [M1 M2].
      destruct (ranges_overlap_or_adjacent start end_ ns ne) eqn:Em; [|specialize (M2 eq_refl); lia].
      specialize (M1 eq_refl). rewrite map_remove_mid by (eapply Forall_impl; [|exact F1]; cbn; intros; lia).
      replace (N.min start ns) with start by lia.
      destruct (IH (l1 ++ l2) start (N.max end_ ne)) as [R1 R2].
      * rewrite app_length in *. cbn [length] in Hf. lia.
      * apply canon_app_iff. split; [exact C1|]. split; [exact C2|]. intros a b Ha Hb. apply C12; [exact Ha|right; exact Hb].
      * lia.
      * unfold inv in *. rewrite Forall_app in *. destruct Hi as [Hi1 Hi2]. inversion Hi2; subst. split; assumption.
      * split; [exact R1|]. intros v. rewrite R2, !cov_app, cov_cons, (inr_union start end_ ns ne v) by lia.
        destruct (cov l1 v), (cov l2 v), (inr (ns, ne) v), (inr (start, end_) v); reflexivity.
    + destruct (merge_cond_next start end_ ns ne Hse Lns Ok) as [M1 M2].
      destruct (ranges_overlap_or_adjacent start end_ ns ne) eqn:Em.
      * specialize (M1 eq_refl). rewrite map_remove_mid by (eapply Forall_impl; [|exact F1]; cbn; intros; lia).
        replace (N.min start ns) with start by lia.
        destruct (IH (l1 ++ l2) start (N.max end_ ne)) as [R1 R2].
        -- rewrite app_length in *. cbn [length] in Hf. lia.
        -- apply canon_app_iff. split; [exact C1|]. split; [exact C2|]. intros a b Ha Hb. apply C12; [exact Ha|right; exact Hb].
        -- lia.
        -- unfold inv in *. rewrite Forall_app in *. destruct Hi as [Hi1 Hi2]. inversion Hi2; subst. split; assumption.
        -- split; [exact R1|]. intros v. rewrite R2, !cov_app, cov_cons, (inr_union start end_ ns ne v) by lia.
           destruct (cov l1 v), (cov l2 v), (inr (ns, ne) v), (inr (start, end_) v); reflexivity.
      * specialize (M2 eq_refl). rewrite map_insert_mid by (try assumption; lia).
        split.
        -- apply canon_app_iff. split; [exact C1|]. split.
           ++ apply canon_cons_iff. split; [exact Hse|]. split.
              ** apply canon_cons_iff. split; [exact Ok|split; [exact C2|exact C2f]].
              ** intros b [<-|Hb]; [exact M2|]. specialize (C2f b Hb). unfold far in *. cbn [fst snd] in *. lia.
           ++ intros a b Ha [<-|Hb]; [unfold far; cbn [fst snd]; apply Far1, Ha|apply C12; assumption].
        -- intros v. rewrite !cov_app, !cov_cons.
           destruct (cov l1 v), (cov l2 v), (inr (ns, ne) v), (inr (start, end_) v); reflexivity.
  - pose proof (next_range_none _ _ En) as F. rewrite map_insert_end by exact F. split.
    + apply canon_app_iff. split; [exact Hc|]. split.
      * apply canon_cons_iff. split; [exact Hse|]. split; [apply canon_nil|intros b []].
      * intros a b Ha [<-|[]]. unfold far. cbn [fst snd]. unfold inv in Hi. rewrite Forall_forall in Hi, F.
        apply Hi; [exact Ha|apply F, Ha].
    + intros v. rewrite cov_app, cov_cons. cbn [cov existsb]. rewrite orb_false_r. reflexivity.
Qed.

(* RangeSet::insert *)
Lemma rs_insert_spec l a b : canon l ->
  canon (rs_insert l a b) /\ forall v, cov (rs_insert l a b) v = cov l v || inr (a, b) v.
Proof.
  intros Hc. unfold rs_insert. destruct (N.ltb_spec b a) as [Hba|Hab].
  - split; [exact Hc|]. intros v. unfold inr. cbn [fst snd].
    destruct (N.leb_spec a v), (N.leb_spec v b); cbn [andb]; rewrite ?orb_false_r; try reflexivity; lia.
  - pose proof (prev_range_spec l a) as P. destruct (prev_range l a) as [[ps pe]|].
    + destruct P as (l1 & l2 & -> & F1 & Lps & T).
      pose proof Hc as Hc0. apply canon_app_iff in Hc as (C1 & C2 & C12).
      pose proof C2 as C2'. apply canon_cons_iff in C2 as (Ok & C2 & C2f). unfold okr in Ok. cbn [fst snd] in Ok.
      assert (K2 : Forall (fun r => a <= fst r) l2).
      { destruct l2 as [|r0 t]; [constructor|]. apply (canon_head_le_tail_keys r0 t a C2 T). }
      unfold range_is_subset. destruct (N.leb_spec ps a) as [S1|S1]; [|lia].
      destruct (N.leb_spec b pe) as [S2|S2]; cbn [andb].
      * split; [exact Hc0|]. intros v. rewrite cov_app, cov_cons. unfold inr. cbn [fst snd].
        destruct (N.leb_spec a v), (N.leb_spec v b), (N.leb_spec ps v), (N.leb_spec v pe); cbn [andb orb];
          rewrite ?orb_true_r, ?orb_false_r; try reflexivity; lia.
      * destruct (merge_cond_prev a b ps pe Hab Lps Ok) as [M1 M2].
        destruct (ranges_overlap_or_adjacent a b ps pe) eqn:Em.
        -- specialize (M1 eq_refl).
           assert (F1' : Forall (fun r => fst r < ps) l1).
           { apply Forall_forall. intros r Hr. specialize (C12 r (ps, pe) Hr (or_introl eq_refl)).
             apply canon_app_iff in Hc0 as ([_ O1] & _ & _). rewrite Forall_forall in O1. specialize (O1 r Hr).
             unfold far, okr in *. cbn [fst snd] in *. lia. }
           rewrite map_remove_mid by exact F1'. replace (N.min a ps) with ps by lia.
           destruct (rs_insert_loop_spec (S (length (l1 ++ l2))) (l1 ++ l2) ps (N.max b pe)) as [R1 R2].
           ++ lia.
           ++ apply canon_app_iff. split; [exact C1|]. split; [exact C2|]. intros x y Hx Hy. apply C12; [exact Hx|right; exact Hy].
           ++ lia.
           ++ unfold inv. apply Forall_app. split; apply Forall_forall; intros r Hr Hk.
              ** specialize (C12 r (ps, pe) Hr (or_introl eq_refl)). unfold far in C12. cbn [fst snd] in C12. exact C12.
              ** rewrite Forall_forall in K2. specialize (K2 r Hr). lia.
           ++ split; [exact R1|]. intros v. rewrite R2, !cov_app, cov_cons.
              assert (E : inr (ps, N.max b pe) v = inr (ps, pe) v || inr (a, b) v).
              { unfold inr. cbn [fst snd].
                destruct (N.leb_spec ps v), (N.leb_spec v (N.max b pe)), (N.leb_spec v pe), (N.leb_spec a v), (N.leb_spec v b);
                  cbn [andb orb]; try reflexivity; lia. }
              rewrite E. destruct (cov l1 v), (cov l2 v), (inr (ps, pe) v), (inr (a, b) v); reflexivity.
        -- specialize (M2 eq_refl). apply rs_insert_loop_spec; [lia|exact Hc0|exact Hab|].
           unfold inv. apply Forall_app. split; [|constructor]; try (apply Forall_forall; intros r Hr Hk).
           ++ specialize (C12 r (ps, pe) Hr (or_introl eq_refl)). unfold far in C12. cbn [fst snd] in *. lia.
           ++ cbn [fst snd]. intros _. exact M2.
           ++ rewrite Forall_forall in K2. specialize (K2 r Hr). lia.
    + apply rs_insert_loop_spec; [lia|exact Hc|exact Hab|].
      unfold inv. destruct l as [|r0 t]; [constructor|]. pose proof (canon_head_le_tail_keys r0 t a Hc P) as K.
      eapply Forall_impl; [|exact K]. cbn. intros; lia.
Qed.

(* Extend / FromIterator: any insert sequence *)
Lemma rs_extend_spec ins : forall l, canon l ->
  canon (rs_extend l ins) /\ forall v, cov (rs_extend l ins) v = cov l v || cov ins v.
Proof.
  unfold rs_extend. induction ins as [|[a b] t IH]; intros l Hc; cbn [fold_left].
  - split; [exact Hc|]. intros v. cbn. rewrite orb_false_r. reflexivity.
  - destruct (rs_insert_spec l a b Hc) as [C1 E1]. cbn [fst snd]. destruct (IH _ C1) as [C2 E2].
    split; [exact C2|]. intros v. rewrite E2, E1, cov_cons. destruct (cov l v), (inr (a, b) v), (cov t v); reflexivity.
Qed.

Lemma rangeset_canonical_all ins : canon (rs_extend [] ins) /\ forall v, cov (rs_extend [] ins) v = cov ins v.
Proof. destruct (rs_extend_spec ins [] canon_nil) as [H1 H2]. split; [exact H1|]. intros v. rewrite H2. reflexivity. Qed.

(* ---- intersection (IntersectionIter) ---- *)
Lemma rs_intersection_eq a b : rs_intersection a b =
  match a with
  | [] => []
  | (sa, ea) :: ta =>
      match b with
      | [] => []
      | (sb, eb) :: tb =>
          (if (sa <=? eb) && (sb <=? ea) then [(N.max sa sb, N.min ea eb)] else []) ++
          match ea ?= eb with
          | Lt => rs_intersection ta b
          | Eq => rs_intersection ta tb
          | Gt => rs_intersection a tb
          end
      end
  end.
Proof. destruct a as [|[sa ea] ta], b as [|[sb eb] tb]; reflexivity. Qed.

Lemma inter_lb_l x : forall a b, Forall (fun r => x < fst r) a -> Forall (fun r => x < fst r) (rs_intersection a b).
Proof.
  induction a as [|[sa ea] ta IHa]; intros b Ha; [rewrite rs_intersection_eq; constructor|].
  induction b as [|[sb eb] tb IHb]; rewrite rs_intersection_eq; [constructor|].
  inversion Ha; subst. cbn [fst] in *. apply Forall_app. split.
  - destruct ((sa <=? eb) && (sb <=? ea)); constructor; [cbn [fst]; lia|constructor].
  - destruct (ea ?= eb); [apply IHa; assumption|apply IHa; assumption|apply IHb].
Qed.
Lemma inter_lb_r x : forall a b, Forall (fun r => x < fst r) b -> Forall (fun r => x < fst r) (rs_intersection a b).
Proof.
  induction a as [|[sa ea] ta IHa]; intros b Hb; [rewrite rs_intersection_eq; constructor|].
  induction b as [|[sb eb] tb IHb]; rewrite rs_intersection_eq; [constructor|].
  inversion Hb; subst. cbn [fst] in *. apply Forall_app. split.
  - destruct ((sa <=? eb) && (sb <=? ea)); constructor; [cbn [fst]; lia|constructor].
  - destruct (ea ?= eb); [apply IHa; assumption|apply IHa; exact Hb|apply IHb; assumption].
Qed.

Lemma cov_tail_gt r l v : canon (r :: l) -> cov l v = true -> snd r + 1 < v.
Proof.
  intros H Hv. apply canon_cons_iff in H as (_ & _ & Hf). unfold cov in Hv. apply existsb_exists in Hv as [b [Hb Hi]].
  specialize (Hf b Hb). unfold far, inr in *. apply andb_prop in Hi as [Hi _]. apply N.leb_le in Hi. lia.
Qed.

Lemma rs_intersection_spec : forall a b, canon a -> canon b ->
  canon (rs_intersection a b) /\ forall v, cov (rs_intersection a b) v = cov a v && cov b v.
Proof.
  induction a as [|[sa ea] ta IHa]; intros b Ha Hb.
  - rewrite rs_intersection_eq. split; [apply canon_nil|reflexivity].
  - induction b as [|[sb eb] tb IHb].
    + rewrite rs_intersection_eq. split; [apply canon_nil|]. intros v. cbn [cov existsb]. symmetry. apply andb_false_r.
    + rewrite rs_intersection_eq.
      pose proof Ha as Ha0. pose proof Hb as Hb0.
      apply canon_cons_iff in Ha as (Oa & Cta & Fa). apply canon_cons_iff in Hb as (Ob & Ctb & Fb).
      unfold okr in Oa, Ob. cbn [fst snd] in Oa, Ob.
      assert (Ta : Forall (fun r => ea + 1 < fst r) ta) by (apply Forall_forall; intros r Hr; apply (Fa r Hr)).
      assert (Tb : Forall (fun r => eb + 1 < fst r) tb) by (apply Forall_forall; intros r Hr; apply (Fb r Hr)).
      set (hit := if (sa <=? eb) && (sb <=? ea) then [(N.max sa sb, N.min ea eb)] else []).
      assert (Hhit : forall v, cov hit v = inr (sa, ea) v && inr (sb, eb) v).
      { intros v. unfold hit.
        destruct (N.leb_spec sa eb), (N.leb_spec sb ea); cbn [andb]; unfold cov; cbn [existsb]; rewrite ?orb_false_r;
          unfold inr; cbn [fst snd];
          destruct (N.leb_spec sa v), (N.leb_spec v ea), (N.leb_spec sb v), (N.leb_spec v eb);
          try (destruct (N.leb_spec (N.max sa sb) v), (N.leb_spec v (N.min ea eb)));
          cbn [andb orb]; try reflexivity; lia. }
      assert (Chit : forall rest, canon rest -> Forall (fun r => N.min ea eb + 1 < fst r) rest -> canon (hit ++ rest)).
      { intros rest Cr Fr. unfold hit. destruct ((sa <=? eb) && (sb <=? ea)) eqn:E; [|exact Cr].
        apply andb_prop in E as [E1 E2]. apply N.leb_le in E1, E2. cbn [app]. apply canon_cons_iff.
        split; [unfold okr; cbn [fst snd]; lia|]. split; [exact Cr|]. rewrite Forall_forall in Fr. exact Fr. }
      destruct (N.compare_spec ea eb) as [E|E|E].
      * subst eb. destruct (IHa tb Cta Ctb) as [R1 R2]. split.
        -- apply Chit; [exact R1|]. apply inter_lb_l. eapply Forall_impl; [|exact Ta]. cbn. intros; lia.
        -- intros v. rewrite cov_app, Hhit, R2, !cov_cons.
           destruct (inr (sa, ea) v) eqn:I1, (inr (sb, ea) v) eqn:I2, (cov ta v) eqn:C1, (cov tb v) eqn:C2; try reflexivity; exfalso;
             try (pose proof (cov_tail_gt _ _ v Ha0 C1));
             try (pose proof (cov_tail_gt _ _ v Hb0 C2));
             unfold inr in *; cbn [fst snd] in *;
             repeat match goal with H : (_ && _) = true |- _ => apply andb_prop in H as [? ?] end;
             repeat match goal with H : (_ <=? _) = true |- _ => apply N.leb_le in H end; lia.
      * destruct (IHa ((sb, eb) :: tb) Cta Hb0) as [R1 R2]. split.
        -- apply Chit; [exact R1|]. apply inter_lb_l. eapply Forall_impl; [|exact Ta]. cbn. intros; lia.
        -- intros v. rewrite cov_app, Hhit, R2, !cov_cons.
           destruct (inr (sa, ea) v) eqn:I1, (inr (sb, eb) v) eqn:I2, (cov ta v) eqn:C1, (cov tb v) eqn:C2; try reflexivity; exfalso;
             try (pose proof (cov_tail_gt _ _ v Ha0 C1));
             try (pose proof (cov_tail_gt _ _ v Hb0 C2));
             unfold inr in *; cbn [fst snd] in *;
             repeat match goal with H : (_ && _) = true |- _ => apply andb_prop in H as [? ?] end;
             repeat match goal with H : (_ <=? _) = true |- _ => apply N.leb_le in H end; lia.
      * destruct (IHb Ctb) as [R1 R2]. split.
        -- apply Chit; [exact R1|]. apply inter_lb_r. eapply Forall_impl; [|exact Tb]. cbn. intros; lia.
        -- intros v. rewrite cov_app, Hhit, R2, !cov_cons.
           destruct (inr (sa, ea) v) eqn:I1, (inr (sb, eb) v) eqn:I2, (cov ta v) eqn:C1, (cov tb v) eqn:C2; try reflexivity; exfalso;
             try (pose proof (cov_tail_gt _ _ v Ha0 C1));
             try (pose proof (cov_tail_gt _ _ v Hb0 C2));
             unfold inr in *; cbn [fst snd] in *;
             repeat match goal with H : (_ && _) = true |- _ => apply andb_prop in H as [? ?] end;
             repeat match goal with H : (_ <=? _) = true |- _ => apply N.leb_le in H end; lia.
Qed.

(* the intersection of two sets built by arbitrary insert sequences *)
Lemma rangeset_intersection_all insa insb :
  canon (rs_intersection (rs_extend [] insa) (rs_extend [] insb)) /\
  forall v, cov (rs_intersection (rs_extend [] insa) (rs_extend [] insb)) v = cov insa v && cov insb v.
Proof.
  destruct (rangeset_canonical_all insa) as [Ca Ea]. destruct (rangeset_canonical_all insb) as [Cb Eb].
  destruct (rs_intersection_spec _ _ Ca Cb) as [C E]. split; [exact C|]. intros v. rewrite E, Ea, Eb. reflexivity.
Qed.
