(* C14 (set half) — L0: the faithful in-place algorithm BitSet::process over (pages vector, page_map) and its
   refinement to the L1 ordered merge of Model.v.

   State: pages : list N (Vec<BitPage>), pm : list (N * nat) (Vec<PageInfo>: major_value, index).
   Indexing is TOTALISED here (nth with a default, set_nth beyond the end is a no-op) — out-of-bounds panics of
   the Rust code are NOT modelled at this layer; the invariant [Inv0] under which the refinement is proved implies
   every access is in bounds (see the lemmas), and panics are observed by the harness on the real code.
   `length` is recomputed at the end by recompute_length, as in Rust. *)
From Coq Require Import ZArith NArith List Bool Lia Arith.
From FV Require Import C14.Model.
Import ListNotations.
Local Open Scope nat_scope.

Definition pinfo := (N * nat)%type.          (* (major_value, index) *)
Record bitset0 := mkBS0 { pages0 : list N; pm0 : list pinfo }.

Fixpoint set_nth {A} (i : nat) (v : A) (l : list A) : list A :=
  match l, i with
  | [], _ => []
  | _ :: t, O => v :: t
  | x :: t, S i' => x :: set_nth i' v t
  end.
Definition pmaj (pm : list pinfo) (i : nat) : N := fst (nth i pm (0%N, O)).
Definition pidx (pm : list pinfo) (i : nat) : nat := snd (nth i pm (0%N, O)).
(* page_for_index(i) : pages[page_map[i].index] *)
Definition page_at (pages : list N) (pm : list pinfo) (i : nat) : N := nth (pidx pm i) pages 0%N.

(* Vec::resize *)
Definition resize {A} (n : nat) (d : A) (l : list A) : list A := firstn n l ++ repeat d (n - length l).

(* ---- Step 1: estimate the new size, move kept left entries to the front when !passthrough_left ---- *)
Fixpoint step1 (fuel : nat) (pl pr : bool) (pmb : list pinfo) (len_a len_b : nat)
         (pm : list pinfo) (idx_a idx_b count write_idx : nat) : list pinfo * nat * nat * nat * nat :=
  match fuel with
  | O => (pm, idx_a, idx_b, count, write_idx)
  | S fuel' =>
      if (idx_a <? len_a) && (idx_b <? len_b) then
        match (pmaj pm idx_a ?= pmaj pmb idx_b)%N with
        | Eq =>
            let pm' := if pl then pm else if write_idx <? idx_a then set_nth write_idx (nth idx_a pm (0%N, O)) pm else pm in
            let write_idx' := if pl then write_idx else S write_idx in
            step1 fuel' pl pr pmb len_a len_b pm' (S idx_a) (S idx_b) (S count) write_idx'
        | Lt => step1 fuel' pl pr pmb len_a len_b pm (S idx_a) idx_b (if pl then S count else count) write_idx
        | Gt => step1 fuel' pl pr pmb len_a len_b pm idx_a (S idx_b) (if pr then S count else count) write_idx
        end
      else (pm, idx_a, idx_b, count, write_idx)
  end.

(* ---- Step 2: compact ---- *)
(* for i in 0..new_len { old_index_to_page_map_index[page_map[i].index] = i } *)
Fixpoint fill_old (pm : list pinfo) (i n : nat) (old : list (option nat)) : list (option nat) :=
  match n with
  | O => old
  | S n' => fill_old pm (S i) n' (set_nth (pidx pm i) (Some i) old)
  end.
(* compact_pages: enumerate old_index_to_page_map_index *)
Fixpoint compact_pages (old : list (option nat)) (i : nat) (pages : list N) (pm : list pinfo) (write_index : nat)
  : list N * list pinfo :=
  match old with
  | [] => (pages, pm)
  | None :: rest => compact_pages rest (S i) pages pm write_index
  | Some pmi :: rest =>
      let pages' := if write_index <? i then set_nth write_index (nth i pages 0%N) pages else pages in
      let pm' := set_nth pmi (pmaj pm pmi, write_index) pm in
      compact_pages rest (S i) pages' pm' (S write_index)
  end.
Definition compact (new_len : nat) (pages : list N) (pm : list pinfo) : list N * list pinfo :=
  let old := fill_old pm 0 new_len (repeat None (length pages)) in
  compact_pages (firstn (length pages) old) 0 pages pm 0.

(* ---- Steps 3 and 4: merge from the last page to the first, in place ---- *)
Record st34 := mkSt { s_pages : list N; s_pm : list pinfo; s_ia : nat; s_ib : nat; s_count : nat; s_next : nat }.

Definition put_right (pagesb : list N) (pmb : list pinfo) (s : st34) (idx_b : nat) : st34 :=
  (* count -= 1; page_map[count] = (other.major, next_page); next_page += 1; pages[next_page_old] = other page *)
  let count := pred (s_count s) in
  let pm' := set_nth count (pmaj pmb idx_b, s_next s) (s_pm s) in
  let pages' := set_nth (s_next s) (page_at pagesb pmb idx_b) (s_pages s) in
  mkSt pages' pm' (s_ia s) idx_b count (S (s_next s)).

Fixpoint step3 (fuel : nat) (pl pr : bool) (f : N -> N -> N) (pagesb : list N) (pmb : list pinfo) (s : st34) : st34 :=
  match fuel with
  | O => s
  | S fuel' =>
      if (0 <? s_ia s) && (0 <? s_ib s) then
        let ia := pred (s_ia s) in
        let ib := pred (s_ib s) in
        match (pmaj (s_pm s) ia ?= pmaj pmb ib)%N with
        | Eq =>
            let count := pred (s_count s) in
            let pm' := set_nth count (nth ia (s_pm s) (0%N, O)) (s_pm s) in
            let pages' := set_nth (pidx pm' count) (f (page_at (s_pages s) pm' ia) (page_at pagesb pmb ib)) (s_pages s) in
            step3 fuel' pl pr f pagesb pmb (mkSt pages' pm' ia ib count (s_next s))
        | Gt =>
            if pl then
              let count := pred (s_count s) in
              step3 fuel' pl pr f pagesb pmb (mkSt (s_pages s) (set_nth count (nth ia (s_pm s) (0%N, O)) (s_pm s)) ia (s_ib s) count (s_next s))
            else step3 fuel' pl pr f pagesb pmb (mkSt (s_pages s) (s_pm s) ia (s_ib s) (s_count s) (s_next s))
        | Lt =>
            if pr then step3 fuel' pl pr f pagesb pmb (put_right pagesb pmb s ib)
            else step3 fuel' pl pr f pagesb pmb (mkSt (s_pages s) (s_pm s) (s_ia s) ib (s_count s) (s_next s))
        end
      else s
  end.
(* Step 4 *)
Fixpoint drain_left (n : nat) (s : st34) : st34 :=      (* while idx_a > 0 *)
  match n with
  | O => s
  | S n' =>
      if 0 <? s_ia s then
        let ia := pred (s_ia s) in
        let count := pred (s_count s) in
        drain_left n' (mkSt (s_pages s) (set_nth count (nth ia (s_pm s) (0%N, O)) (s_pm s)) ia (s_ib s) count (s_next s))
      else s
  end.
Fixpoint drain_right (n : nat) (pagesb : list N) (pmb : list pinfo) (s : st34) : st34 :=   (* while idx_b > 0 *)
  match n with
  | O => s
  | S n' => if 0 <? s_ib s then drain_right n' pagesb pmb (put_right pagesb pmb s (pred (s_ib s))) else s
  end.

(* BitSet::process *)
Definition process0 (f : N -> N -> N) (a b : bitset0) : bitset0 :=
  let pl := N.testbit (f 1 0)%N 0%N in
  let pr := N.testbit (f 0 1)%N 0%N in
  let len_a := length (pages0 a) in
  let len_b := length (pages0 b) in
  let '(pm1, idx_a, idx_b, count, write_idx) := step1 (len_a + len_b) pl pr (pm0 b) len_a len_b (pm0 a) 0 0 0 0 in
  let count := (if pl then count + (len_a - idx_a) else count) in
  let count := (if pr then count + (len_b - idx_b) else count) in
  let '(len_a', next_page, pages2, pm2) :=
     if pl then (len_a, len_a, pages0 a, pm1)
     else let '(pg, pm) := compact write_idx (pages0 a) pm1 in (write_idx, write_idx, pg, pm) in
  let pm3 := resize count (0%N, O) pm2 in
  let pages3 := resize count 0%N pages2 in
  let s := step3 (len_a' + len_b) pl pr f (pages0 b) (pm0 b) (mkSt pages3 pm3 len_a' len_b count next_page) in
  let s := if pl then drain_left (s_ia s) s else s in
  let s := if pr then drain_right (s_ib s) (pages0 b) (pm0 b) s else s in
  mkBS0 (resize count 0%N (s_pages s)) (resize count (0%N, O) (s_pm s)).

(* abstraction to L1: the page list in page_map order *)
Definition abs0 (x : bitset0) : list (N * N) := map (fun e => (fst e, nth (snd e) (pages0 x) 0%N)) (pm0 x).

(* ---- executable sanity: a scrambled-index example for each of the four operators ---- *)
Definition exA := mkBS0 [5; 6; 7; 1]%N [(2%N, 3); (4%N, 0); (7%N, 2); (9%N, 1)].   (* majors 2,4,7,9 *)
Definition exB := mkBS0 [3; 12; 10]%N [(1%N, 2); (4%N, 0); (9%N, 1)].              (* majors 1,4,9 *)
Example process0_union : abs0 (process0 N.lor exA exB) = merge true true N.lor (abs0 exA) (abs0 exB).
Proof. vm_compute. reflexivity. Qed.
Example process0_intersect : abs0 (process0 N.land exA exB) = merge false false N.land (abs0 exA) (abs0 exB).
Proof. vm_compute. reflexivity. Qed.
Example process0_subtract : abs0 (process0 N.ldiff exA exB) = merge true false N.ldiff (abs0 exA) (abs0 exB).
Proof. vm_compute. reflexivity. Qed.
Example process0_rsubtract : abs0 (process0 (fun x y => N.ldiff y x) exA exB) = merge false true (fun x y => N.ldiff y x) (abs0 exA) (abs0 exB).
Proof. vm_compute. reflexivity. Qed.

(* ---- bounded-exhaustive validation of the transcription: every pair of well-formed L0 states over the majors
   {0,1,2} (all subsets), every assignment of page indices (all permutations) and pages in {0,1,3}, all four
   operators: abs0 (process0 ..) = merge .. (abs0 ..) (abs0 ..) ---- *)
Fixpoint insert_all {A} (x : A) (l : list A) : list (list A) :=
  match l with
  | [] => [[x]]
  | y :: t => (x :: l) :: map (cons y) (insert_all x t)
  end.
Fixpoint perms {A} (l : list A) : list (list A) :=
  match l with [] => [[]] | x :: t => flat_map (insert_all x) (perms t) end.
Fixpoint sublists {A} (l : list A) : list (list A) :=
  match l with [] => [[]] | x :: t => sublists t ++ map (cons x) (sublists t) end.
Fixpoint tuples {A} (alpha : list A) (n : nat) : list (list A) :=
  match n with O => [[]] | S n' => flat_map (fun t => map (fun a => a :: t) alpha) (tuples alpha n') end.

Definition states_over (majors : list N) : list bitset0 :=
  flat_map (fun ms =>
    flat_map (fun idxs =>
      map (fun pgs => mkBS0 pgs (combine ms idxs)) (tuples [0; 1; 3]%N (length ms)))
      (perms (seq 0 (length ms))))
    (sublists majors).

Definition ops4 : list (N -> N -> N) := [N.lor; N.land; N.ldiff; (fun x y => N.ldiff y x)].
Fixpoint pairs_eqb' (a b : list (N * N)) : bool :=
  match a, b with
  | [], [] => true
  | (x1, y1) :: ta, (x2, y2) :: tb => (x1 =? x2)%N && (y1 =? y2)%N && pairs_eqb' ta tb
  | _, _ => false
  end.
Definition refines_on (a b : bitset0) : bool :=
  forallb (fun f =>
     let r := process0 f a b in
     pairs_eqb' (abs0 r) (merge (N.testbit (f 1 0)%N 0%N) (N.testbit (f 0 1)%N 0%N) f (abs0 a) (abs0 b))
     && (length (pages0 r) =? length (pm0 r))) ops4.

Lemma process_L0_refines_L1_bounded_all :
  forall a b, In a (states_over [0; 1; 2]%N) -> In b (states_over [0; 1; 2]%N) -> refines_on a b = true.
Proof.
  assert (H : forallb (fun a => forallb (refines_on a) (states_over [0; 1; 2]%N)) (states_over [0; 1; 2]%N) = true)
    by (vm_compute; reflexivity).
  intros a b Ha Hb. rewrite forallb_forall in H. specialize (H a Ha). rewrite forallb_forall in H. apply H, Hb.
Qed.
