(* C14 (set half) — proofs about the model in Model.v.
   L2 (spec): a set is its membership function N -> bool ("mathematical set"). *)
From Coq Require Import ZArith NArith List Bool Lia Sorting.Sorted.
From FV Require Import C14.Model.
Import ListNotations.
Open Scope N_scope.
Ltac Zify.zify_post_hook ::= Z.to_euclidean_division_equations.

(* ------------------------------------------------------------------------------------------ *)
(* bits                                                                                        *)
(* ------------------------------------------------------------------------------------------ *)
Lemma testbit_bitmask v i : N.testbit (bitmask v) i = (v mod 512 =? i).
Proof.
  unfold bitmask. rewrite N.shiftl_1_l. apply N.pow2_bits_eqb.
Qed.

Lemma testbit_ones_shift n f i : N.testbit (N.shiftl (N.ones n) f) i = (f <=? i) && (i <? f + n).
Proof.
  destruct (N.leb_spec f i) as [H|H]; cbn [andb].
  - rewrite N.shiftl_spec_high' by exact H.
    destruct (N.ltb_spec i (f + n)) as [H1|H1].
    + apply N.ones_spec_low. lia.
    + apply N.ones_spec_high. lia.
  - apply N.shiftl_spec_low. exact H.
Qed.

Lemma testbit_range_mask a b i : a mod 512 <= b mod 512 ->
  N.testbit (range_mask a b) i = (a mod 512 <=? i) && (i <=? b mod 512).
Proof.
  intros H. unfold range_mask.
  destruct (N.ltb_spec (b mod 512) (a mod 512)); [lia|].
  rewrite testbit_ones_shift. f_equal.
  destruct (N.ltb_spec i (a mod 512 + (b mod 512 - a mod 512 + 1))), (N.leb_spec i (b mod 512)); lia.
Qed.

(* ------------------------------------------------------------------------------------------ *)
(* sorted association lists                                                                    *)
(* ------------------------------------------------------------------------------------------ *)
Definition klt (a b : N * N) : Prop := fst a < fst b.
Definition sorted (l : list (N * N)) : Prop := StronglySorted klt l.

Lemma sorted_inv k p t : sorted ((k, p) :: t) -> sorted t /\ Forall (fun kp => k < fst kp) t.
Proof. intros H. inversion H; subst. split; assumption. Qed.

Lemma sorted_cons k p t : sorted t -> Forall (fun kp => k < fst kp) t -> sorted ((k, p) :: t).
Proof. intros. constructor; assumption. Qed.

Lemma get_none_lt m l : Forall (fun kp => m < fst kp) l -> get m l = None.
Proof.
  induction l as [|[k p] t IH]; intros H; cbn; [reflexivity|].
  inversion H; subst. cbn in *. destruct (N.eqb_spec m k); [lia|]. auto.
Qed.

Lemma Forall_lt_trans m k (t : list (N * N)) : m < k -> Forall (fun kp => k < fst kp) t -> Forall (fun kp => m < fst kp) t.
Proof. intros H F. eapply Forall_impl; [|exact F]. cbn. intros; lia. Qed.

Lemma pget_cons k p t m : pget ((k, p) :: t) m = if m =? k then p else pget t m.
Proof. unfold pget. cbn. destruct (m =? k); reflexivity. Qed.

Lemma pget_nil m : pget [] m = 0.
Proof. reflexivity. Qed.

Lemma pget_lt m l : Forall (fun kp => m < fst kp) l -> pget l m = 0.
Proof. intros H. unfold pget. rewrite get_none_lt by exact H. reflexivity. Qed.

(* ensure *)
Lemma ensure_keys_lb m x l : x < m -> Forall (fun kp => x < fst kp) l -> Forall (fun kp => x < fst kp) (ensure m l).
Proof.
  induction l as [|[k p] t IH]; intros Hx H; cbn.
  - constructor; [cbn; lia|constructor].
  - inversion H; subst. destruct (N.ltb_spec m k).
    + constructor; [cbn; lia|]. constructor; assumption.
    + destruct (N.eqb_spec m k); [constructor; assumption|].
      constructor; [assumption|]. apply IH; assumption.
Qed.

Lemma sorted_ensure m l : sorted l -> sorted (ensure m l).
Proof.
  induction l as [|[k p] t IH]; intros H; cbn.
  - constructor; constructor.
  - apply sorted_inv in H as [Ht Hf]. destruct (N.ltb_spec m k).
    + apply sorted_cons; [apply sorted_cons; assumption|].
      constructor; [cbn; lia|]. eapply Forall_lt_trans; eassumption.
    + destruct (N.eqb_spec m k); [apply sorted_cons; assumption|].
      apply sorted_cons; [auto|]. apply ensure_keys_lb; [lia|assumption].
Qed.

Lemma pget_ensure m l m' : sorted l -> pget (ensure m l) m' = pget l m'.
Proof.
  induction l as [|[k p] t IH]; intros H; cbn.
  - rewrite pget_cons, pget_nil. destruct (m' =? m); reflexivity.
  - apply sorted_inv in H as [Ht Hf]. destruct (N.ltb_spec m k).
    + rewrite pget_cons. destruct (N.eqb_spec m' m); [|reflexivity].
      subst. symmetry. apply pget_lt. constructor; [cbn; lia|]. eapply Forall_lt_trans; eassumption.
    + destruct (N.eqb_spec m k); [reflexivity|].
      rewrite !pget_cons. destruct (m' =? k); [reflexivity|]. auto.
Qed.

Lemma get_ensure_some m l : exists p, get m (ensure m l) = Some p.
Proof.
  induction l as [|[k p] t IH]; cbn.
  - rewrite N.eqb_refl. eauto.
  - destruct (N.ltb_spec m k).
    + cbn. rewrite N.eqb_refl. eauto.
    + destruct (N.eqb_spec m k).
      * cbn. subst. rewrite N.eqb_refl. eauto.
      * cbn. destruct (N.eqb_spec m k); [lia|]. exact IH.
Qed.

(* upd *)
Lemma upd_keys_lb m f x l : Forall (fun kp => x < fst kp) l -> Forall (fun kp => x < fst kp) (upd m f l).
Proof.
  induction l as [|[k p] t IH]; intros H; cbn; [constructor|].
  inversion H; subst. destruct (m =? k); constructor; auto.
Qed.

Lemma sorted_upd m f l : sorted l -> sorted (upd m f l).
Proof.
  induction l as [|[k p] t IH]; intros H; cbn; [constructor|].
  apply sorted_inv in H as [Ht Hf]. destruct (m =? k).
  - apply sorted_cons; assumption.
  - apply sorted_cons; [auto|]. apply upd_keys_lb. assumption.
Qed.

Lemma pget_upd m f l m' :
  pget (upd m f l) m' = if m' =? m then match get m l with Some p => f p | None => 0 end else pget l m'.
Proof.
  induction l as [|[k p] t IH]; cbn [upd get].
  - rewrite pget_nil. destruct (m' =? m); reflexivity.
  - destruct (N.eqb_spec m k).
    + subst. rewrite !pget_cons. destruct (N.eqb_spec m' k); reflexivity.
    + rewrite !pget_cons, IH. destruct (N.eqb_spec m' k), (N.eqb_spec m' m); try reflexivity. lia.
Qed.

Lemma get_upd_same m f l : get m (upd m f l) = match get m l with Some p => Some (f p) | None => None end.
Proof.
  induction l as [|[k p] t IH]; cbn; [reflexivity|].
  destruct (N.eqb_spec m k).
  - subst. cbn. rewrite N.eqb_refl. reflexivity.
  - cbn. destruct (N.eqb_spec m k); [lia|]. exact IH.
Qed.

Lemma pget_get m l : pget l m = match get m l with Some p => p | None => 0 end.
Proof. reflexivity. Qed.

(* ------------------------------------------------------------------------------------------ *)
(* BitSet: membership of each operation                                                        *)
(* ------------------------------------------------------------------------------------------ *)
Lemma bs_contains_pget s v : bs_contains s v = N.testbit (pget (pgs s) (v / 512)) (v mod 512).
Proof.
  unfold bs_contains, pget, major, page_contains. destruct (get (v / 512) (pgs s)); [reflexivity|].
  symmetry. apply N.bits_0.
Qed.

Lemma same_value v w : (w / 512 =? v / 512) && (v mod 512 =? w mod 512) = (w =? v).
Proof.
  destruct (N.eqb_spec (w / 512) (v / 512)), (N.eqb_spec (v mod 512) (w mod 512)), (N.eqb_spec w v); cbn; try reflexivity; lia.
Qed.

Lemma bs_insert_contains s v w : sorted (pgs s) ->
  bs_contains (fst (bs_insert s v)) w = (w =? v) || bs_contains s w.
Proof.
  intros Hs. unfold bs_insert. cbn [fst]. rewrite !bs_contains_pget. cbn [pgs]. unfold major.
  rewrite pget_upd. destruct (get_ensure_some (v / 512) (pgs s)) as [p Hp]. rewrite Hp.
  assert (Hp' : pget (pgs s) (v / 512) = p).
  { rewrite <- (pget_ensure (v / 512) (pgs s) (v / 512) Hs). unfold pget. rewrite Hp. reflexivity. }
  rewrite <- (same_value v w).
  destruct (N.eqb_spec (w / 512) (v / 512)) as [E|E]; cbn [andb orb].
  - unfold page_insert. rewrite N.lor_spec, testbit_bitmask. rewrite E, Hp'. apply orb_comm.
  - rewrite pget_ensure by exact Hs. reflexivity.
Qed.

Lemma bs_insert_ret s v : sorted (pgs s) -> snd (bs_insert s v) = negb (bs_contains s v).
Proof.
  intros Hs. unfold bs_insert. cbn [snd]. rewrite bs_contains_pget. unfold page_contains, major.
  rewrite pget_ensure by exact Hs. reflexivity.
Qed.

Lemma sorted_bs_insert s v : sorted (pgs s) -> sorted (pgs (fst (bs_insert s v))).
Proof. intros. unfold bs_insert. cbn. apply sorted_upd, sorted_ensure. assumption. Qed.

Lemma bs_remove_contains s v w :
  bs_contains (fst (bs_remove s v)) w = negb (w =? v) && bs_contains s w.
Proof.
  unfold bs_remove. unfold major. destruct (get (v / 512) (pgs s)) as [p|] eqn:Hg; cbn [fst].
  - rewrite !bs_contains_pget. cbn [pgs]. rewrite pget_upd, Hg. rewrite <- (same_value v w).
    destruct (N.eqb_spec (w / 512) (v / 512)) as [E|E]; cbn [andb negb]; [|reflexivity].
    unfold page_remove. rewrite N.ldiff_spec, testbit_bitmask. rewrite E. unfold pget. rewrite Hg.
    apply andb_comm.
  - rewrite <- (same_value v w). destruct (N.eqb_spec (w / 512) (v / 512)) as [E|E]; cbn [andb negb]; [|reflexivity].
    rewrite bs_contains_pget. rewrite E. unfold pget. rewrite Hg. rewrite N.bits_0. symmetry. apply andb_false_r.
Qed.

Lemma bs_remove_ret s v : snd (bs_remove s v) = bs_contains s v.
Proof.
  unfold bs_remove, bs_contains. destruct (get (major v) (pgs s)); reflexivity.
Qed.

Lemma sorted_bs_remove s v : sorted (pgs s) -> sorted (pgs (fst (bs_remove s v))).
Proof.
  intros. unfold bs_remove. destruct (get (major v) (pgs s)); cbn; [apply sorted_upd|]; assumption.
Qed.

(* extend / remove_all *)
Lemma bs_extend_spec vs : forall s w, sorted (pgs s) ->
  sorted (pgs (bs_extend s vs)) /\ bs_contains (bs_extend s vs) w = existsb (N.eqb w) vs || bs_contains s w.
Proof.
  unfold bs_extend. induction vs as [|v t IH]; intros s w Hs; cbn [fold_left existsb orb]; [auto|].
  destruct (IH (fst (bs_insert s v)) w (sorted_bs_insert s v Hs)) as [H1 H2]. split; [exact H1|].
  rewrite H2, bs_insert_contains by exact Hs. destruct (w =? v), (existsb (N.eqb w) t); reflexivity.
Qed.

Lemma bs_remove_all_spec vs : forall s w, sorted (pgs s) ->
  sorted (pgs (bs_remove_all s vs)) /\ bs_contains (bs_remove_all s vs) w = negb (existsb (N.eqb w) vs) && bs_contains s w.
Proof.
  unfold bs_remove_all. induction vs as [|v t IH]; intros s w Hs; cbn [fold_left existsb negb andb]; [auto|].
  destruct (IH (fst (bs_remove s v)) w (sorted_bs_remove s v Hs)) as [H1 H2]. split; [exact H1|].
  rewrite H2, bs_remove_contains. destruct (w =? v), (existsb (N.eqb w) t); reflexivity.
Qed.

(* insert_range *)
Definition page_mask_for (st en m : N) : N := range_mask (N.max st (major_start m)) (N.min en (major_end m)).

Lemma ins_range_loop_spec n : forall mj st en l added m', sorted l ->
  sorted (fst (ins_range_loop n mj st en l added)) /\
  pget (fst (ins_range_loop n mj st en l added)) m' =
    if (mj <=? m') && (m' <? mj + N.of_nat n) then N.lor (pget l m') (page_mask_for st en m') else pget l m'.
Proof.
  induction n as [|n IH]; intros mj st en l added m' Hs.
  - cbn [ins_range_loop fst]. split; [exact Hs|].
    destruct (N.leb_spec mj m'), (N.ltb_spec m' (mj + N.of_nat 0)); cbn [andb]; try reflexivity; lia.
  - cbn [ins_range_loop].
    set (l2 := upd mj (fun p => page_insert_range p (N.max st (major_start mj)) (N.min en (major_end mj))) (ensure mj l)).
    assert (Hs2 : sorted l2) by (apply sorted_upd, sorted_ensure; exact Hs).
    destruct (IH (mj + 1) st en l2 (added + (popcount (pget l2 mj) - popcount (pget (ensure mj l) mj))) m' Hs2) as [H1 H2].
    split; [exact H1|]. rewrite H2. unfold l2. rewrite pget_upd.
    destruct (get_ensure_some mj l) as [p Hp]. rewrite Hp.
    assert (Hp' : pget l mj = p).
    { rewrite <- (pget_ensure mj l mj Hs). unfold pget. rewrite Hp. reflexivity. }
    rewrite pget_ensure by exact Hs.
    destruct (N.eqb_spec m' mj) as [E|E].
    + subst m'. destruct (N.leb_spec (mj + 1) mj); [lia|]. cbn [andb].
      destruct (N.leb_spec mj mj); [|lia]. destruct (N.ltb_spec mj (mj + N.of_nat (S n))); [|lia]. cbn [andb].
      unfold page_insert_range, page_mask_for. rewrite Hp'. reflexivity.
    + destruct (N.leb_spec (mj + 1) m'), (N.ltb_spec m' (mj + 1 + N.of_nat n)), (N.leb_spec mj m'),
        (N.ltb_spec m' (mj + N.of_nat (S n))); cbn [andb]; try reflexivity; lia.
Qed.

Lemma mask_bit_in_range st en v : st <= en -> st / 512 <= v / 512 <= en / 512 ->
  N.testbit (page_mask_for st en (v / 512)) (v mod 512) = (st <=? v) && (v <=? en).
Proof.
  intros H1 H2. unfold page_mask_for, major_start, major_end.
  rewrite testbit_range_mask.
  - destruct (N.leb_spec (N.max st (v / 512 * 512) mod 512) (v mod 512)),
      (N.leb_spec (v mod 512) (N.min en (v / 512 * 512 + 511) mod 512)),
      (N.leb_spec st v), (N.leb_spec v en); cbn [andb]; try reflexivity; lia.
  - lia.
Qed.

Lemma bs_insert_range_spec s st en v : sorted (pgs s) ->
  sorted (pgs (bs_insert_range s st en)) /\
  bs_contains (bs_insert_range s st en) v = ((st <=? v) && (v <=? en)) || bs_contains s v.
Proof.
  intros Hs. unfold bs_insert_range. destruct (N.ltb_spec en st) as [H|H].
  - split; [exact Hs|]. destruct (N.leb_spec st v), (N.leb_spec v en); cbn [andb orb]; try reflexivity; lia.
  - destruct (ins_range_loop_spec (N.to_nat (major en - major st + 1)) (major st) st en (pgs s) 0 (v / 512) Hs) as [H1 H2].
    destruct (ins_range_loop _ _ _ _ _ _) as [l added]. cbn [fst] in H1, H2. split; [exact H1|].
    rewrite !bs_contains_pget. cbn [pgs]. rewrite H2. unfold major.
    assert (Hdiv : st / 512 <= en / 512) by lia.
    rewrite N2Nat.id.
    destruct (N.leb_spec (st / 512) (v / 512)), (N.ltb_spec (v / 512) (st / 512 + (en / 512 - st / 512 + 1))); cbn [andb].
    + rewrite N.lor_spec, mask_bit_in_range by lia. apply orb_comm.
    + destruct (N.leb_spec st v), (N.leb_spec v en); cbn [andb orb]; try reflexivity; lia.
    + destruct (N.leb_spec st v), (N.leb_spec v en); cbn [andb orb]; try reflexivity; lia.
    + destruct (N.leb_spec st v), (N.leb_spec v en); cbn [andb orb]; try reflexivity; lia.
Qed.

(* remove_range *)
Lemma rm_walk_keys_lb l : forall st en sm em x, Forall (fun kp => x < fst kp) l ->
  Forall (fun kp => x < fst kp) (rm_range_walk l st en sm em).
Proof.
  induction l as [|[k p] t IH]; intros st en sm em x H; cbn [rm_range_walk]; [constructor|].
  inversion H; subst.
  destruct (k <? sm); [constructor; auto|].
  destruct (em <? k); [exact H|].
  destruct (k =? sm); [constructor; auto|].
  destruct (k =? em); constructor; auto.
Qed.

Lemma sorted_rm_walk l : forall st en sm em, sorted l -> sorted (rm_range_walk l st en sm em).
Proof.
  induction l as [|[k p] t IH]; intros st en sm em H; cbn [rm_range_walk]; [constructor|].
  pose proof H as H0. apply sorted_inv in H as [Ht Hf].
  destruct (k <? sm); [apply sorted_cons; [auto|apply rm_walk_keys_lb; auto]|].
  destruct (em <? k); [exact H0|].
  destruct (k =? sm); [apply sorted_cons; [auto|apply rm_walk_keys_lb; auto]|].
  destruct (k =? em); [apply sorted_cons; auto|].
  apply sorted_cons; [auto|apply rm_walk_keys_lb; auto].
Qed.

Lemma rm_walk_contains l : forall st en v, sorted l -> st <= en ->
  N.testbit (pget (rm_range_walk l st en (st / 512) (en / 512)) (v / 512)) (v mod 512) =
  N.testbit (pget l (v / 512)) (v mod 512) && negb ((st <=? v) && (v <=? en)).
Proof.
  induction l as [|[k p] t IH]; intros st en v Hs Hle; cbn [rm_range_walk].
  - rewrite pget_nil, N.bits_0. reflexivity.
  - apply sorted_inv in Hs as [Ht Hf].
    destruct (N.ltb_spec k (st / 512)) as [C1|C1].
    { rewrite !pget_cons. destruct (N.eqb_spec (v / 512) k) as [E|E]; [|apply IH; assumption].
      destruct (N.leb_spec st v); cbn [andb negb]; [lia|]. symmetry. apply andb_true_r. }
    destruct (N.ltb_spec (en / 512) k) as [C2|C2].
    { destruct (N.leb_spec st v), (N.leb_spec v en); cbn [andb negb]; try (symmetry; apply andb_true_r).
      rewrite (pget_lt (v / 512)); [rewrite N.bits_0; reflexivity|].
      constructor; [cbn; lia|]. eapply Forall_lt_trans; [|exact Hf]. lia. }
    destruct (N.eqb_spec k (st / 512)) as [C3|C3].
    { rewrite !pget_cons. destruct (N.eqb_spec (v / 512) k) as [E|E]; [|apply IH; assumption].
      unfold page_remove_range. rewrite N.ldiff_spec. f_equal. f_equal.
      unfold major_end. rewrite testbit_range_mask by lia.
      destruct (N.leb_spec (st mod 512) (v mod 512)), (N.leb_spec (v mod 512) (N.min (st / 512 * 512 + 511) en mod 512)),
        (N.leb_spec st v), (N.leb_spec v en); cbn [andb]; try reflexivity; lia. }
    destruct (N.eqb_spec k (en / 512)) as [C4|C4].
    { rewrite !pget_cons. destruct (N.eqb_spec (v / 512) k) as [E|E].
      - unfold page_remove_range. rewrite N.ldiff_spec. f_equal. f_equal.
        unfold major_start. rewrite testbit_range_mask by lia.
        destruct (N.leb_spec ((en / 512 * 512) mod 512) (v mod 512)), (N.leb_spec (v mod 512) (en mod 512)),
          (N.leb_spec st v), (N.leb_spec v en); cbn [andb]; try reflexivity; lia.
      - destruct (N.leb_spec st v), (N.leb_spec v en); cbn [andb negb]; try (symmetry; apply andb_true_r).
        rewrite (pget_lt (v / 512)); [rewrite N.bits_0; reflexivity|].
        eapply Forall_lt_trans; [|exact Hf]. lia. }
    rewrite !pget_cons. destruct (N.eqb_spec (v / 512) k) as [E|E]; [|apply IH; assumption].
    rewrite N.bits_0. destruct (N.leb_spec st v), (N.leb_spec v en); cbn [andb negb]; try lia;
      try (symmetry; apply andb_false_r).
Qed.

Lemma bs_remove_range_spec s st en v : sorted (pgs s) ->
  sorted (pgs (bs_remove_range s st en)) /\
  bs_contains (bs_remove_range s st en) v = negb ((st <=? v) && (v <=? en)) && bs_contains s v.
Proof.
  intros Hs. unfold bs_remove_range. destruct (N.ltb_spec en st) as [H|H].
  - split; [exact Hs|]. destruct (N.leb_spec st v), (N.leb_spec v en); cbn [andb negb]; try reflexivity; lia.
  - cbn [pgs]. split; [apply sorted_rm_walk; exact Hs|].
    rewrite !bs_contains_pget. cbn [pgs]. unfold major. rewrite rm_walk_contains by assumption. apply andb_comm.
Qed.

(* process = ordered merge *)
Lemma merge_eq pl pr f a b : merge pl pr f a b =
  match a with
  | [] => if pr then b else []
  | (ka, pa) :: ta =>
      match b with
      | [] => if pl then a else []
      | (kb, pb) :: tb =>
          match ka ?= kb with
          | Eq => (ka, f pa pb) :: merge pl pr f ta tb
          | Lt => if pl then (ka, pa) :: merge pl pr f ta b else merge pl pr f ta b
          | Gt => if pr then (kb, pb) :: merge pl pr f a tb else merge pl pr f a tb
          end
      end
  end.
Proof. destruct a as [|[ka pa] ta], b as [|[kb pb] tb]; reflexivity. Qed.

Lemma merge_keys_lb pl pr f x : forall a b, Forall (fun kp => x < fst kp) a -> Forall (fun kp => x < fst kp) b ->
  Forall (fun kp => x < fst kp) (merge pl pr f a b).
Proof.
  induction a as [|[ka pa] ta IHa]; intros b Ha Hb.
  - rewrite merge_eq. destruct pr; [exact Hb|constructor].
  - induction b as [|[kb pb] tb IHb].
    + rewrite merge_eq. destruct pl; [exact Ha|constructor].
    + rewrite merge_eq. inversion Ha; subst. inversion Hb; subst. cbn [fst] in *.
      destruct (ka ?= kb).
      * constructor; [exact H1|]. apply IHa; assumption.
      * destruct pl; [constructor; [exact H1|]|]; apply IHa; assumption.
      * destruct pr; [constructor; [exact H3|]|]; apply IHb; assumption.
Qed.

Lemma sorted_merge pl pr f : forall a b, sorted a -> sorted b -> sorted (merge pl pr f a b).
Proof.
  induction a as [|[ka pa] ta IHa]; intros b Ha Hb.
  - rewrite merge_eq. destruct pr; [exact Hb|constructor].
  - induction b as [|[kb pb] tb IHb].
    + rewrite merge_eq. destruct pl; [exact Ha|constructor].
    + rewrite merge_eq. pose proof Ha as Ha0. pose proof Hb as Hb0.
      apply sorted_inv in Ha as [Hta Hfa]. apply sorted_inv in Hb as [Htb Hfb].
      destruct (N.compare_spec ka kb) as [E|E|E].
      * subst. apply sorted_cons; [auto|]. apply merge_keys_lb; assumption.
      * assert (Forall (fun kp => ka < fst kp) ((kb, pb) :: tb)).
        { constructor; [exact E|]. eapply Forall_lt_trans; eassumption. }
        destruct pl; [apply sorted_cons; [auto|apply merge_keys_lb; assumption]|auto].
      * assert (Forall (fun kp => kb < fst kp) ((ka, pa) :: ta)).
        { constructor; [exact E|]. eapply Forall_lt_trans; eassumption. }
        destruct pr; [apply sorted_cons; [auto|apply merge_keys_lb; assumption]|auto].
Qed.

Section Merge.
  Variables (pl pr : bool) (f : N -> N -> N).
  Hypothesis f00 : f 0 0 = 0.
  Hypothesis fl : forall a, f a 0 = if pl then a else 0.
  Hypothesis fr : forall b, f 0 b = if pr then b else 0.

  Lemma merge_pget : forall a b m, sorted a -> sorted b ->
    pget (merge pl pr f a b) m = f (pget a m) (pget b m).
  Proof.
    induction a as [|[ka pa] ta IHa]; intros b m Ha Hb.
    - rewrite merge_eq, pget_nil, fr. destruct pr; reflexivity.
    - induction b as [|[kb pb] tb IHb].
      + rewrite merge_eq, pget_nil, fl. destruct pl; reflexivity.
      + rewrite merge_eq. pose proof Ha as Ha0. pose proof Hb as Hb0.
        apply sorted_inv in Ha as [Hta Hfa]. apply sorted_inv in Hb as [Htb Hfb].
        destruct (N.compare_spec ka kb) as [E|E|E].
        * subst. rewrite !pget_cons. destruct (m =? kb); [reflexivity|]. apply IHa; assumption.
        * assert (Hlb : Forall (fun kp => ka < fst kp) ((kb, pb) :: tb)).
          { constructor; [exact E|]. eapply Forall_lt_trans; eassumption. }
          rewrite (pget_cons ka pa ta m).
          destruct (N.eqb_spec m ka) as [Em|Em].
          -- subst m. rewrite (pget_lt ka ((kb, pb) :: tb)) by exact Hlb. rewrite fl.
             destruct pl.
             ++ rewrite pget_cons, N.eqb_refl. reflexivity.
             ++ apply pget_lt. apply merge_keys_lb; assumption.
          -- destruct pl; [rewrite pget_cons; destruct (N.eqb_spec m ka); [contradiction|]|]; apply IHa; assumption.
        * assert (Hlb : Forall (fun kp => kb < fst kp) ((ka, pa) :: ta)).
          { constructor; [exact E|]. eapply Forall_lt_trans; eassumption. }
          rewrite (pget_cons kb pb tb m).
          destruct (N.eqb_spec m kb) as [Em|Em].
          -- subst m. rewrite (pget_lt kb ((ka, pa) :: ta)) by exact Hlb. rewrite fr.
             destruct pr.
             ++ rewrite pget_cons, N.eqb_refl. reflexivity.
             ++ apply pget_lt. apply merge_keys_lb; assumption.
          -- destruct pr; [rewrite pget_cons; destruct (N.eqb_spec m kb); [contradiction|]|]; apply IHb; assumption.
  Qed.
End Merge.

Lemma process_spec (f : N -> N -> N) (g : bool -> bool -> bool) a b v :
  f 0 0 = 0 ->
  (forall x, f x 0 = if N.testbit (f 1 0) 0 then x else 0) ->
  (forall y, f 0 y = if N.testbit (f 0 1) 0 then y else 0) ->
  (forall x y i, N.testbit (f x y) i = g (N.testbit x i) (N.testbit y i)) ->
  sorted (pgs a) -> sorted (pgs b) ->
  sorted (pgs (process f a b)) /\
  bs_contains (process f a b) v = g (bs_contains a v) (bs_contains b v).
Proof.
  intros H0 Hl Hr Hg Ha Hb. unfold process. cbn [pgs]. split; [apply sorted_merge; assumption|].
  rewrite !bs_contains_pget. cbn [pgs]. rewrite merge_pget by assumption. apply Hg.
Qed.

Lemma bs_union_spec a b v : sorted (pgs a) -> sorted (pgs b) ->
  sorted (pgs (bs_union a b)) /\ bs_contains (bs_union a b) v = bs_contains a v || bs_contains b v.
Proof.
  apply (process_spec N.lor orb); [reflexivity| | |intros; apply N.lor_spec].
  - intros x. cbn. apply N.lor_0_r.
  - intros y. cbn. reflexivity.
Qed.
Lemma bs_intersect_spec a b v : sorted (pgs a) -> sorted (pgs b) ->
  sorted (pgs (bs_intersect a b)) /\ bs_contains (bs_intersect a b) v = bs_contains a v && bs_contains b v.
Proof.
  apply (process_spec N.land andb); [reflexivity| | |intros; apply N.land_spec].
  - intros x. cbn. apply N.land_0_r.
  - intros y. cbn. reflexivity.
Qed.
Lemma bs_subtract_spec a b v : sorted (pgs a) -> sorted (pgs b) ->
  sorted (pgs (bs_subtract a b)) /\ bs_contains (bs_subtract a b) v = bs_contains a v && negb (bs_contains b v).
Proof.
  apply (process_spec N.ldiff (fun x y => x && negb y)); [reflexivity| | |intros; apply N.ldiff_spec].
  - intros x. cbn. apply N.ldiff_0_r.
  - intros y. cbn. reflexivity.
Qed.
Lemma bs_reversed_subtract_spec a b v : sorted (pgs a) -> sorted (pgs b) ->
  sorted (pgs (bs_reversed_subtract a b)) /\
  bs_contains (bs_reversed_subtract a b) v = bs_contains b v && negb (bs_contains a v).
Proof.
  apply (process_spec (fun x y => N.ldiff y x) (fun x y => y && negb x)); [reflexivity| | |intros; apply N.ldiff_spec].
  - intros x. cbn. reflexivity.
  - intros y. cbn. apply N.ldiff_0_r.
Qed.

(* ------------------------------------------------------------------------------------------ *)
(* L2: the mathematical sets defined by an operation sequence                                  *)
(* ------------------------------------------------------------------------------------------ *)
Definition mset := N -> bool.
Definition in_range (a b w : N) : bool := (a <=? w) && (w <=? b).
Definition in_list (vs : list N) (w : N) : bool := existsb (N.eqb w) vs.

Definition spec_op (st : mset * mset) (o : op) : mset * mset :=
  match o with
  | OInsert t v => put t st (fun w => (w =? v) || sel t st w)
  | ORemove t v => put t st (fun w => negb (w =? v) && sel t st w)
  | OInsertRange t a b => put t st (fun w => in_range a b w || sel t st w)
  | ORemoveRange t a b => put t st (fun w => negb (in_range a b w) && sel t st w)
  | OExtend t vs => put t st (fun w => in_list vs w || sel t st w)
  | ORemoveAll t vs => put t st (fun w => negb (in_list vs w) && sel t st w)
  | OUnion t => put t st (fun w => sel t st w || sel (negb t) st w)
  | OIntersect t => put t st (fun w => sel t st w && sel (negb t) st w)
  | OSubtract t => put t st (fun w => sel t st w && negb (sel (negb t) st w))
  | OInvert t => put t st (fun w => negb (sel t st w))
  | OClear t => put t st (fun _ => false)
  | OAssign t => put t st (sel (negb t) st)
  end.
Definition run_spec (ops : list op) : mset * mset :=
  fold_left spec_op ops ((fun _ => false), (fun _ => false)).

(* well-formedness of the representation and the abstraction relation *)
Definition wf (x : intset) : Prop := sorted (pgs (storage x)).
Definition Rep (x : intset) (f : mset) : Prop := wf x /\ forall v, is_contains x v = f v.

Lemma Rep_insert x f v : Rep x f ->
  Rep (fst (is_insert x v)) (fun w => (w =? v) || f w) /\ snd (is_insert x v) = negb (f v).
Proof.
  intros [Hw Hc]. destruct x as [s|s]; unfold is_insert, wf in *; cbn [storage] in *.
  - destruct (bs_insert s v) as [s' r] eqn:E.
    assert (E1 : s' = fst (bs_insert s v)) by (rewrite E; reflexivity).
    assert (E2 : r = snd (bs_insert s v)) by (rewrite E; reflexivity).
    cbn [fst snd]. subst s' r. split; [split|].
    + cbn [storage]. apply sorted_bs_insert. exact Hw.
    + intros w. cbn [is_contains]. rewrite bs_insert_contains by exact Hw. rewrite <- Hc. reflexivity.
    + rewrite bs_insert_ret by exact Hw. rewrite <- Hc. reflexivity.
  - destruct (bs_remove s v) as [s' r] eqn:E.
    assert (E1 : s' = fst (bs_remove s v)) by (rewrite E; reflexivity).
    assert (E2 : r = snd (bs_remove s v)) by (rewrite E; reflexivity).
    cbn [fst snd]. subst s' r. split; [split|].
    + cbn [storage]. apply sorted_bs_remove. exact Hw.
    + intros w. cbn [is_contains]. rewrite bs_remove_contains. rewrite <- Hc. cbn [is_contains].
      destruct (w =? v), (bs_contains s w); reflexivity.
    + rewrite bs_remove_ret. rewrite <- Hc. cbn [is_contains]. symmetry. apply negb_involutive.
Qed.

Lemma Rep_remove x f v : Rep x f ->
  Rep (fst (is_remove x v)) (fun w => negb (w =? v) && f w) /\ snd (is_remove x v) = f v.
Proof.
  intros [Hw Hc]. destruct x as [s|s]; unfold is_remove, wf in *; cbn [storage] in *.
  - destruct (bs_remove s v) as [s' r] eqn:E.
    assert (E1 : s' = fst (bs_remove s v)) by (rewrite E; reflexivity).
    assert (E2 : r = snd (bs_remove s v)) by (rewrite E; reflexivity).
    cbn [fst snd]. subst s' r. split; [split|].
    + cbn [storage]. apply sorted_bs_remove. exact Hw.
    + intros w. cbn [is_contains]. rewrite bs_remove_contains. rewrite <- Hc. reflexivity.
    + rewrite bs_remove_ret. rewrite <- Hc. reflexivity.
  - destruct (bs_insert s v) as [s' r] eqn:E.
    assert (E1 : s' = fst (bs_insert s v)) by (rewrite E; reflexivity).
    assert (E2 : r = snd (bs_insert s v)) by (rewrite E; reflexivity).
    cbn [fst snd]. subst s' r. split; [split|].
    + cbn [storage]. apply sorted_bs_insert. exact Hw.
    + intros w. cbn [is_contains]. rewrite bs_insert_contains by exact Hw. rewrite <- Hc. cbn [is_contains].
      destruct (w =? v), (bs_contains s w); reflexivity.
    + rewrite bs_insert_ret by exact Hw. rewrite <- Hc. reflexivity.
Qed.

Lemma Rep_insert_range x f a b : Rep x f -> Rep (is_insert_range x a b) (fun w => in_range a b w || f w).
Proof.
  intros [Hw Hc]. destruct x as [s|s]; unfold wf, in_range in *; cbn [storage is_insert_range] in *; split.
  - apply (bs_insert_range_spec s a b 0 Hw).
  - intros w. cbn [is_contains]. rewrite (proj2 (bs_insert_range_spec s a b w Hw)), <- Hc. reflexivity.
  - apply (bs_remove_range_spec s a b 0 Hw).
  - intros w. cbn [is_contains]. rewrite (proj2 (bs_remove_range_spec s a b w Hw)), <- Hc. cbn [is_contains].
    destruct ((a <=? w) && (w <=? b)), (bs_contains s w); reflexivity.
Qed.

Lemma Rep_remove_range x f a b : Rep x f -> Rep (is_remove_range x a b) (fun w => negb (in_range a b w) && f w).
Proof.
  intros [Hw Hc]. destruct x as [s|s]; unfold wf, in_range in *; cbn [storage is_remove_range] in *; split.
  - apply (bs_remove_range_spec s a b 0 Hw).
  - intros w. cbn [is_contains]. rewrite (proj2 (bs_remove_range_spec s a b w Hw)), <- Hc. reflexivity.
  - apply (bs_insert_range_spec s a b 0 Hw).
  - intros w. cbn [is_contains]. rewrite (proj2 (bs_insert_range_spec s a b w Hw)), <- Hc. cbn [is_contains].
    destruct ((a <=? w) && (w <=? b)), (bs_contains s w); reflexivity.
Qed.

Lemma Rep_extend x f vs : Rep x f -> Rep (is_extend x vs) (fun w => in_list vs w || f w).
Proof.
  intros [Hw Hc]. destruct x as [s|s]; unfold wf, in_list in *; cbn [storage is_extend] in *; split.
  - apply (bs_extend_spec vs s 0 Hw).
  - intros w. cbn [is_contains]. rewrite (proj2 (bs_extend_spec vs s w Hw)), <- Hc. reflexivity.
  - apply (bs_remove_all_spec vs s 0 Hw).
  - intros w. cbn [is_contains]. rewrite (proj2 (bs_remove_all_spec vs s w Hw)), <- Hc. cbn [is_contains].
    destruct (existsb (N.eqb w) vs), (bs_contains s w); reflexivity.
Qed.

Lemma Rep_remove_all x f vs : Rep x f -> Rep (is_remove_all x vs) (fun w => negb (in_list vs w) && f w).
Proof.
  intros [Hw Hc]. destruct x as [s|s]; unfold wf, in_list in *; cbn [storage is_remove_all] in *; split.
  - apply (bs_remove_all_spec vs s 0 Hw).
  - intros w. cbn [is_contains]. rewrite (proj2 (bs_remove_all_spec vs s w Hw)), <- Hc. reflexivity.
  - apply (bs_extend_spec vs s 0 Hw).
  - intros w. cbn [is_contains]. rewrite (proj2 (bs_extend_spec vs s w Hw)), <- Hc. cbn [is_contains].
    destruct (existsb (N.eqb w) vs), (bs_contains s w); reflexivity.
Qed.

Lemma Rep_invert x f : Rep x f -> Rep (is_invert x) (fun w => negb (f w)).
Proof.
  intros [Hw Hc]. destruct x as [s|s]; split; try exact Hw; intros w; rewrite <- Hc; cbn [is_contains is_invert];
    [reflexivity|symmetry; apply negb_involutive].
Qed.

Lemma Rep_clear x : Rep (is_clear x) (fun _ => false).
Proof. split; [constructor|]. intros v. reflexivity. Qed.

Ltac setop_tac lem a b Ha Hb Hca Hcb :=
  split; [apply (lem a b 0 Ha Hb)|];
  intros w; cbn [is_contains is_invert]; rewrite (proj2 (lem a b w Ha Hb)), <- Hca, <- Hcb; cbn [is_contains];
  destruct (bs_contains a w), (bs_contains b w); reflexivity.

Lemma Rep_union x y f g : Rep x f -> Rep y g -> Rep (is_union x y) (fun w => f w || g w).
Proof.
  intros [Ha Hca] [Hb Hcb]. destruct x as [a|a], y as [b|b]; unfold wf in *; cbn [storage is_union is_invert] in *.
  - setop_tac bs_union_spec a b Ha Hb Hca Hcb.
  - setop_tac bs_reversed_subtract_spec a b Ha Hb Hca Hcb.
  - setop_tac bs_subtract_spec a b Ha Hb Hca Hcb.
  - setop_tac bs_intersect_spec a b Ha Hb Hca Hcb.
Qed.

Lemma Rep_intersect x y f g : Rep x f -> Rep y g -> Rep (is_intersect x y) (fun w => f w && g w).
Proof.
  intros [Ha Hca] [Hb Hcb]. destruct x as [a|a], y as [b|b]; unfold wf in *; cbn [storage is_intersect is_invert] in *.
  - setop_tac bs_intersect_spec a b Ha Hb Hca Hcb.
  - setop_tac bs_subtract_spec a b Ha Hb Hca Hcb.
  - setop_tac bs_reversed_subtract_spec a b Ha Hb Hca Hcb.
  - setop_tac bs_union_spec a b Ha Hb Hca Hcb.
Qed.

Lemma Rep_subtract x y f g : Rep x f -> Rep y g -> Rep (is_subtract x y) (fun w => f w && negb (g w)).
Proof.
  intros [Ha Hca] [Hb Hcb]. destruct x as [a|a], y as [b|b]; unfold wf in *; cbn [storage is_subtract is_invert] in *.
  - setop_tac bs_subtract_spec a b Ha Hb Hca Hcb.
  - setop_tac bs_intersect_spec a b Ha Hb Hca Hcb.
  - setop_tac bs_union_spec a b Ha Hb Hca Hcb.
  - setop_tac bs_reversed_subtract_spec a b Ha Hb Hca Hcb.
Qed.

Definition Rep2 (st : intset * intset) (sp : mset * mset) : Prop := Rep (fst st) (fst sp) /\ Rep (snd st) (snd sp).

Lemma Rep2_sel t st sp : Rep2 st sp -> Rep (sel t st) (sel t sp).
Proof. intros [H1 H2]. destruct t; assumption. Qed.

Lemma Rep2_put t st sp x f : Rep2 st sp -> Rep x f -> Rep2 (put t st x) (put t sp f).
Proof. intros [H1 H2] H. destruct t; split; assumption. Qed.

Lemma apply_op_refines st sp o : Rep2 st sp -> Rep2 (fst (apply_op st o)) (spec_op sp o).
Proof.
  intros H. pose proof (Rep2_sel true st sp H) as Ht. pose proof (Rep2_sel false st sp H) as Hf.
  destruct o as [t v|t v|t a b|t a b|t vs|t vs|t|t|t|t|t|t]; cbn [apply_op spec_op].
  - destruct (is_insert (sel t st) v) as [x r] eqn:E. cbn [fst]. apply Rep2_put; [exact H|].
    replace x with (fst (is_insert (sel t st) v)) by (rewrite E; reflexivity).
    apply Rep_insert. apply Rep2_sel. exact H.
  - destruct (is_remove (sel t st) v) as [x r] eqn:E. cbn [fst]. apply Rep2_put; [exact H|].
    replace x with (fst (is_remove (sel t st) v)) by (rewrite E; reflexivity).
    apply Rep_remove. apply Rep2_sel. exact H.
  - cbn [fst]. apply Rep2_put; [exact H|]. apply Rep_insert_range, Rep2_sel, H.
  - cbn [fst]. apply Rep2_put; [exact H|]. apply Rep_remove_range, Rep2_sel, H.
  - cbn [fst]. apply Rep2_put; [exact H|]. apply Rep_extend, Rep2_sel, H.
  - cbn [fst]. apply Rep2_put; [exact H|]. apply Rep_remove_all, Rep2_sel, H.
  - cbn [fst]. apply Rep2_put; [exact H|]. apply Rep_union; apply Rep2_sel, H.
  - cbn [fst]. apply Rep2_put; [exact H|]. apply Rep_intersect; apply Rep2_sel, H.
  - cbn [fst]. apply Rep2_put; [exact H|]. apply Rep_subtract; apply Rep2_sel, H.
  - cbn [fst]. apply Rep2_put; [exact H|]. apply Rep_invert, Rep2_sel, H.
  - cbn [fst]. apply Rep2_put; [exact H|]. apply Rep_clear.
  - cbn [fst]. apply Rep2_put; [exact H|]. apply Rep2_sel, H.
Qed.

Lemma run_refines_from ops : forall st sp, Rep2 st sp ->
  Rep2 (fold_left (fun st o => fst (apply_op st o)) ops st) (fold_left spec_op ops sp).
Proof.
  induction ops as [|o t IH]; intros st sp H; cbn [fold_left]; [exact H|].
  apply IH. apply apply_op_refines. exact H.
Qed.

Lemma Rep_empty : Rep is_empty_set (fun _ => false).
Proof. split; [constructor|]. intros v. reflexivity. Qed.

(* intset_refines: for EVERY operation sequence on two evolving sets, both model sets are well
   formed and their membership functions are exactly the mathematical sets the operations define
   (inclusive and inverted mode alike; inversion = complement) *)
Lemma intset_refines_all ops :
  wf (fst (run ops)) /\ wf (snd (run ops)) /\
  forall v, is_contains (fst (run ops)) v = fst (run_spec ops) v /\
            is_contains (snd (run ops)) v = snd (run_spec ops) v.
Proof.
  destruct (run_refines_from ops (is_empty_set, is_empty_set) ((fun _ => false), (fun _ => false))) as [[W1 C1] [W2 C2]].
  { split; apply Rep_empty. }
  split; [exact W1|]. split; [exact W2|]. intros v. split; [apply C1|apply C2].
Qed.

(* the booleans returned by insert / remove *)
Lemma insert_returns_newly st sp t v : Rep2 st sp ->
  snd (apply_op st (OInsert t v)) = Some (negb (sel t sp v)).
Proof.
  intros H. cbn [apply_op]. destruct (is_insert (sel t st) v) as [x r] eqn:E. cbn [snd].
  replace r with (snd (is_insert (sel t st) v)) by (rewrite E; reflexivity).
  rewrite (proj2 (Rep_insert _ _ v (Rep2_sel t st sp H))). reflexivity.
Qed.
Lemma remove_returns_present st sp t v : Rep2 st sp ->
  snd (apply_op st (ORemove t v)) = Some (sel t sp v).
Proof.
  intros H. cbn [apply_op]. destruct (is_remove (sel t st) v) as [x r] eqn:E. cbn [snd].
  replace r with (snd (is_remove (sel t st) v)) by (rewrite E; reflexivity).
  rewrite (proj2 (Rep_remove _ _ v (Rep2_sel t st sp H))). reflexivity.
Qed.
