(* C14 (set half) — iter_after of inclusive sets = the members greater than the value, ascending *)
From Coq Require Import ZArith NArith List Bool Lia Sorting.Sorted.
From FV Require Import C14.Model C14.Proofs C14.SetObs.
Import ListNotations.
Open Scope N_scope.
Ltac Zify.zify_post_hook ::= Z.to_euclidean_division_equations.

Lemma filter_all {A} (P : A -> bool) l : (forall x, In x l -> P x = true) -> filter P l = l.
Proof.
  induction l as [|a t IH]; intros H; cbn [filter]; [reflexivity|].
  rewrite (H a (or_introl eq_refl)). f_equal. apply IH. intros x Hx. apply H. right. exact Hx.
Qed.
Lemma filter_none {A} (P : A -> bool) l : (forall x, In x l -> P x = false) -> filter P l = [].
Proof.
  induction l as [|a t IH]; intros H; cbn [filter]; [reflexivity|].
  rewrite (H a (or_introl eq_refl)). apply IH. intros x Hx. apply H. right. exact Hx.
Qed.
Lemma filter_map_add k (P Q : N -> bool) l : (forall x, In x l -> P (k + x) = Q x) ->
  filter P (map (N.add k) l) = map (N.add k) (filter Q l).
Proof.
  induction l as [|a t IH]; intros H; cbn [map filter]; [reflexivity|].
  rewrite (H a (or_introl eq_refl)). rewrite IH by (intros x Hx; apply H; right; exact Hx).
  destruct (Q a); reflexivity.
Qed.

Lemma iter_after_pages l v : pb l ->
  flat_map (fun kp =>
      if fst kp <? major v then []
      else if fst kp =? major v then map (N.add (major_start (fst kp))) (page_iter_after (snd kp) v)
      else map (N.add (major_start (fst kp))) (page_iter (snd kp))) l
  = filter (fun x => v <? x) (iter_pages l).
Proof.
  induction l as [|[k p] t IH]; intros Hb; [reflexivity|].
  inversion Hb; subst. cbn [flat_map iter_pages fst snd] in *. fold (iter_pages t).
  rewrite filter_app, IH by assumption. f_equal. unfold major, major_start.
  destruct (N.ltb_spec k (v / 512)) as [C1|C1].
  - symmetry. apply filter_none. intros x Hx. apply in_map_iff in Hx as [y [<- Hy]].
    pose proof (page_iter_lt512 p y H1 Hy). apply N.ltb_ge. lia.
  - destruct (N.eqb_spec k (v / 512)) as [C2|C2].
    + unfold page_iter_after. symmetry. apply filter_map_add. intros x Hx.
      pose proof (page_iter_lt512 p x H1 Hx).
      destruct (N.ltb_spec v (k * 512 + x)), (N.ltb_spec (v mod 512) x); try reflexivity; lia.
    + symmetry. apply filter_all. intros x Hx. apply in_map_iff in Hx as [y [<- Hy]]. apply N.ltb_lt. lia.
Qed.

Lemma incl_iter_after_spec dmax s f v k : Rep (Incl s) f -> wfi (Incl s) ->
  is_iter_after dmax (Incl s) v k = firstn k (filter (fun x => v <? x) (bs_iter s)) /\
  StronglySorted N.lt (bs_iter s) /\ (forall w, In w (bs_iter s) <-> f w = true).
Proof.
  intros HR Hw. destruct (stored_enumeration _ _ HR Hw) as (H1 & H2 & _). cbn [storage is_inverted negb] in *.
  split; [|split; assumption]. cbn [is_iter_after]. f_equal. unfold bs_iter_after.
  destruct Hw as (_ & Hb & _). apply (iter_after_pages (pgs s) v Hb).
Qed.
