(* C14 (set half) — executable model of read-fonts' integer sets and range sets
   (read-fonts/src/collections/int_set/{bitpage,bitset,mod}.rs, collections/range_set.rs).
   No proofs in this file.

   Layering (DESIGN §C14):
     L1  BitPage  = one integer < 2^512 (the eight u64 elements of `storage` concatenated, element 0
                    lowest); BitSet = association list  major |-> page  sorted by major (the order of
                    `page_map`; `pages[info.index]` is read through the map) + the cached `length`.
         Membership / IntSet = the two-constructor sum with every operation split by mode exactly
         as in mod.rs; element domain = the continuous domain [0, dmax] (u32: 2^32-1, u16: 65535,
         u8: 255, or a custom continuous Domain).
     L0  (pages vector + page_map indices, the in-place four-step `process`, BitSetBuilder's page
         cache, binary searches, the per-u64-element loops of BitPage) is NOT modelled separately:
         the real code is L0 and is tied to L1 by the correspondence check only.
     L2  (spec) lives in Proofs.v: a set is its membership function N -> bool.

   All values are unbounded N; every quantity below stays < 2^32 (values), < 2^23 (majors),
   < 2^512 (pages), so no u32/u64 wrap-around can occur in the modelled code paths (BitSet only
   calls BitPage::{insert,remove}_range with first <= last inside one page — the only way those two
   could overflow a shift). *)
From Coq Require Import NArith List Bool.
Import ListNotations.
Open Scope N_scope.

(* ------------------------------------------------------------------------------------------ *)
(* bitpage.rs                                                                                  *)
(* ------------------------------------------------------------------------------------------ *)

(* PAGE_BITS = 512, PAGE_MASK = 511: `value & PAGE_MASK` = value mod 512 *)
Definition bitmask (v : N) : N := N.shiftl 1 (v mod 512).          (* element_index + elem_index_bit_mask *)

(* BitPage::contains *)
Definition page_contains (p v : N) : bool := N.testbit p (v mod 512).
(* BitPage::insert (the returned is_new is computed by the caller from page_contains) *)
Definition page_insert (p v : N) : N := N.lor p (bitmask v).
(* BitPage::remove *)
Definition page_remove (p v : N) : N := N.ldiff p (bitmask v).

(* the per-element masks of insert_range/remove_range, concatenated: bits first..=last.
   (first > last after masking: the Rust loop is empty or overflows a shift; unreachable from
   BitSet, modelled as the empty mask) *)
Definition range_mask (first last : N) : N :=
  let f := first mod 512 in
  let l := last mod 512 in
  if l <? f then 0 else N.shiftl (N.ones (l - f + 1)) f.
(* BitPage::insert_range *)
Definition page_insert_range (p first last : N) : N := N.lor p (range_mask first last).
(* BitPage::remove_range *)
Definition page_remove_range (p first last : N) : N := N.ldiff p (range_mask first last).

(* BitPage::recompute_length / len: sum of count_ones *)
Fixpoint pos_popcount (p : positive) : N :=
  match p with
  | xH => 1
  | xO q => pos_popcount q
  | xI q => N.succ (pos_popcount q)
  end.
Definition popcount (n : N) : N := match n with 0 => 0 | Npos p => pos_popcount p end.

(* BitPage::iter : set bits in ascending order *)
Fixpoint pos_bits (p : positive) (base : N) : list N :=
  match p with
  | xH => [base]
  | xO q => pos_bits q (N.succ base)
  | xI q => base :: pos_bits q (N.succ base)
  end.
Definition page_iter (p : N) : list N := match p with 0 => [] | Npos q => pos_bits q 0 end.
(* BitPage::iter_after(value): members of the page greater than value & PAGE_MASK *)
Definition page_iter_after (p v : N) : list N := filter (fun x => v mod 512 <? x) (page_iter p).

(* ------------------------------------------------------------------------------------------ *)
(* bitset.rs                                                                                   *)
(* ------------------------------------------------------------------------------------------ *)
Record bitset := mkBS { pgs : list (N * N); blen : N }.

Definition major (v : N) : N := v / 512.             (* get_major_value: value >> 9 *)
Definition major_start (m : N) : N := m * 512.       (* major << 9 *)
Definition major_end (m : N) : N := m * 512 + 511.

(* BitSet::empty / clear *)
Definition bs_empty : bitset := mkBS [] 0.

(* page_index_for_major + pages.get : binary search over the sorted page_map *)
Fixpoint get (m : N) (l : list (N * N)) : option N :=
  match l with
  | [] => None
  | (k, p) :: t => if m =? k then Some p else get m t
  end.
Definition pget (l : list (N * N)) (m : N) : N := match get m l with Some p => p | None => 0 end.

(* ensure_page_index_for_major: insert an empty page at the sorted position if absent *)
Fixpoint ensure (m : N) (l : list (N * N)) : list (N * N) :=
  match l with
  | [] => [(m, 0)]
  | (k, p) :: t => if m <? k then (m, 0) :: l else if m =? k then l else (k, p) :: ensure m t
  end.

(* mutate the page with major m (if present) *)
Fixpoint upd (m : N) (f : N -> N) (l : list (N * N)) : list (N * N) :=
  match l with
  | [] => []
  | (k, p) :: t => if m =? k then (k, f p) :: t else (k, p) :: upd m f t
  end.

(* BitSet::contains *)
Definition bs_contains (s : bitset) (v : N) : bool :=
  match get (major v) (pgs s) with Some p => page_contains p v | None => false end.

(* BitSet::insert -> (set, newly inserted) *)
Definition bs_insert (s : bitset) (v : N) : bitset * bool :=
  let l := ensure (major v) (pgs s) in
  let is_new := negb (page_contains (pget l (major v)) v) in
  (mkBS (upd (major v) (fun p => page_insert p v) l) (blen s + (if is_new then 1 else 0)), is_new).

(* BitSet::remove -> (set, was present) *)
Definition bs_remove (s : bitset) (v : N) : bitset * bool :=
  match get (major v) (pgs s) with
  | Some p =>
      let ret := page_contains p v in
      (mkBS (upd (major v) (fun p => page_remove p v) (pgs s)) (blen s - (if ret then 1 else 0)), ret)
  | None => (s, false)
  end.

(* BitSet::insert_range: the loop  for major in major_start..=major_end  *)
Fixpoint ins_range_loop (n : nat) (mj st en : N) (l : list (N * N)) (added : N) : list (N * N) * N :=
  match n with
  | O => (l, added)
  | S n' =>
      let page_start := N.max st (major_start mj) in
      let page_end := N.min en (major_end mj) in
      let l1 := ensure mj l in
      let pre_len := popcount (pget l1 mj) in
      let l2 := upd mj (fun p => page_insert_range p page_start page_end) l1 in
      let delta := popcount (pget l2 mj) - pre_len in
      ins_range_loop n' (mj + 1) st en l2 (added + delta)
  end.
Definition bs_insert_range (s : bitset) (st en : N) : bitset :=
  if en <? st then s
  else
    let ms := major st in
    let me := major en in
    let '(l, added) := ins_range_loop (N.to_nat (me - ms + 1)) ms st en (pgs s) 0 in
    mkBS l (blen s + added).

(* BitSet::recompute_length *)
Definition sum_len (l : list (N * N)) : N := fold_right (fun kp acc => popcount (snd kp) + acc) 0 l.

(* BitSet::remove_range: walk the page_map from the first entry with major >= start_major *)
Fixpoint rm_range_walk (l : list (N * N)) (st en sm em : N) : list (N * N) :=
  match l with
  | [] => []
  | (k, p) :: t =>
      if k <? sm then (k, p) :: rm_range_walk t st en sm em       (* before the binary-search index *)
      else if em <? k then l                                        (* info.major_value > end_major: break *)
      else if k =? sm then (k, page_remove_range p st (N.min (major_end sm) en)) :: rm_range_walk t st en sm em
      else if k =? em then (k, page_remove_range p (major_start em) en) :: t   (* break *)
      else (k, 0) :: rm_range_walk t st en sm em                    (* page.clear() *)
  end.
Definition bs_remove_range (s : bitset) (st en : N) : bitset :=
  if en <? st then s
  else
    let l := rm_range_walk (pgs s) st en (major st) (major en) in
    mkBS l (sum_len l).

(* Extend::extend (BitSetBuilder; its last-page cache is an L0 detail) and extend_unsorted *)
Definition bs_extend (s : bitset) (vs : list N) : bitset := fold_left (fun s v => fst (bs_insert s v)) vs s.
(* BitSet::remove_all *)
Definition bs_remove_all (s : bitset) (vs : list N) : bitset := fold_left (fun s v => fst (bs_remove s v)) vs s.

(* BitSet::process(op, other) at L1: ordered merge of the two page maps; a page present on one side
   only is kept iff that side passes through; common majors get op(a, b) (even if that is empty) *)
Fixpoint merge (pl pr : bool) (f : N -> N -> N) (a : list (N * N)) : list (N * N) -> list (N * N) :=
  fix inner (b : list (N * N)) : list (N * N) :=
    match a with
    | [] => if pr then b else []
    | (ka, pa) :: ta =>
        match b with
        | [] => if pl then a else []
        | (kb, pb) :: tb =>
            match ka ?= kb with
            | Eq => (ka, f pa pb) :: merge pl pr f ta tb
            | Lt => if pl then (ka, pa) :: merge pl pr f ta b else merge pl pr f ta b
            | Gt => if pr then (kb, pb) :: inner tb else inner tb
            end
        end
    end.
(* passthrough_behavior: op(one, zero).contains(0), op(zero, one).contains(0) *)
Definition process (f : N -> N -> N) (a b : bitset) : bitset :=
  let pl := N.testbit (f 1 0) 0 in
  let pr := N.testbit (f 0 1) 0 in
  let l := merge pl pr f (pgs a) (pgs b) in
  mkBS l (sum_len l).
Definition bs_union := process N.lor.                               (* BitPage::union      a | b  *)
Definition bs_intersect := process N.land.                          (* BitPage::intersect  a & b  *)
Definition bs_subtract := process N.ldiff.                          (* BitPage::subtract   a & !b *)
Definition bs_reversed_subtract := process (fun a b => N.ldiff b a).

(* BitSet::iter (iter_non_empty_pages -> base + page.iter()) *)
Definition bs_iter (s : bitset) : list N :=
  flat_map (fun kp => map (N.add (major_start (fst kp))) (page_iter (snd kp))) (pgs s).
(* BitSet::iter_after *)
Definition bs_iter_after (s : bitset) (v : N) : list N :=
  flat_map (fun kp =>
      if fst kp <? major v then []
      else if fst kp =? major v then map (N.add (major_start (fst kp))) (page_iter_after (snd kp) v)
      else map (N.add (major_start (fst kp))) (page_iter (snd kp))) (pgs s).

(* BitSet::iter_ranges (BitPage RangeIter + BitSetRangeIter merging across element and page
   boundaries): the maximal runs of consecutive members *)
Fixpoint ranges_of (l : list N) (cur : option (N * N)) : list (N * N) :=
  match l with
  | [] => match cur with None => [] | Some r => [r] end
  | x :: t =>
      match cur with
      | None => ranges_of t (Some (x, x))
      | Some (s, e) => if x =? e + 1 then ranges_of t (Some (s, x)) else (s, e) :: ranges_of t (Some (x, x))
      end
  end.
Definition bs_iter_ranges (s : bitset) : list (N * N) := ranges_of (bs_iter s) None.

(* BitSet == (non-empty pages equal pairwise) *)
Definition nonempty_pages (s : bitset) : list (N * N) := filter (fun kp => negb (snd kp =? 0)) (pgs s).
Fixpoint pairs_eqb (a b : list (N * N)) : bool :=
  match a, b with
  | [], [] => true
  | (x1, y1) :: ta, (x2, y2) :: tb => (x1 =? x2) && (y1 =? y2) && pairs_eqb ta tb
  | _, _ => false
  end.
Definition bs_eqb (a b : bitset) : bool := pairs_eqb (nonempty_pages a) (nonempty_pages b).

(* BitSet::cmp : zip of the iterators, then the lengths *)
Fixpoint lex_cmp (a b : list N) : option comparison :=
  match a, b with
  | x :: ta, y :: tb => match x ?= y with Eq => lex_cmp ta tb | c => Some c end
  | _, _ => None
  end.
Definition bs_cmp (a b : bitset) : comparison :=
  match lex_cmp (bs_iter a) (bs_iter b) with Some c => c | None => blen a ?= blen b end.

(* ------------------------------------------------------------------------------------------ *)
(* mod.rs : Membership / IntSet<T>, T a continuous domain [0, dmax]                            *)
(* ------------------------------------------------------------------------------------------ *)
Inductive intset := Incl (s : bitset) | Excl (s : bitset).

Definition is_empty_set := Incl bs_empty.      (* IntSet::empty *)
Definition is_all := Excl bs_empty.            (* IntSet::all *)
Definition is_inverted (x : intset) : bool := match x with Incl _ => false | Excl _ => true end.
Definition storage (x : intset) : bitset := match x with Incl s | Excl s => s end.

(* IntSet::insert *)
Definition is_insert (x : intset) (v : N) : intset * bool :=
  match x with
  | Incl s => let '(s', r) := bs_insert s v in (Incl s', r)
  | Excl s => let '(s', r) := bs_remove s v in (Excl s', r)
  end.
(* IntSet::remove *)
Definition is_remove (x : intset) (v : N) : intset * bool :=
  match x with
  | Incl s => let '(s', r) := bs_remove s v in (Incl s', r)
  | Excl s => let '(s', r) := bs_insert s v in (Excl s', r)
  end.
(* IntSet::insert_range (is_continuous branch) *)
Definition is_insert_range (x : intset) (a b : N) : intset :=
  match x with
  | Incl s => Incl (bs_insert_range s a b)
  | Excl s => Excl (bs_remove_range s a b)
  end.
(* IntSet::remove_range (is_continuous branch) *)
Definition is_remove_range (x : intset) (a b : N) : intset :=
  match x with
  | Incl s => Incl (bs_remove_range s a b)
  | Excl s => Excl (bs_insert_range s a b)
  end.
(* Extend::extend and extend_unsorted *)
Definition is_extend (x : intset) (vs : list N) : intset :=
  match x with
  | Incl s => Incl (bs_extend s vs)
  | Excl s => Excl (bs_remove_all s vs)
  end.
(* IntSet::remove_all *)
Definition is_remove_all (x : intset) (vs : list N) : intset :=
  match x with
  | Incl s => Incl (bs_remove_all s vs)
  | Excl s => Excl (bs_extend s vs)
  end.
(* IntSet::invert *)
Definition is_invert (x : intset) : intset := match x with Incl s => Excl s | Excl s => Incl s end.
(* IntSet::clear *)
Definition is_clear (x : intset) : intset := Incl bs_empty.
(* IntSet::union *)
Definition is_union (x y : intset) : intset :=
  match x, y with
  | Incl a, Incl b => Incl (bs_union a b)
  | Incl a, Excl b => is_invert (Incl (bs_reversed_subtract a b))
  | Excl a, Incl b => Excl (bs_subtract a b)
  | Excl a, Excl b => Excl (bs_intersect a b)
  end.
(* IntSet::intersect *)
Definition is_intersect (x y : intset) : intset :=
  match x, y with
  | Incl a, Incl b => Incl (bs_intersect a b)
  | Incl a, Excl b => Incl (bs_subtract a b)
  | Excl a, Incl b => is_invert (Excl (bs_reversed_subtract a b))
  | Excl a, Excl b => Excl (bs_union a b)
  end.
(* IntSet::subtract *)
Definition is_subtract (x y : intset) : intset :=
  match x, y with
  | Incl a, Incl b => Incl (bs_subtract a b)
  | Incl a, Excl b => Incl (bs_intersect a b)
  | Excl a, Incl b => Excl (bs_union a b)
  | Excl a, Excl b => is_invert (Excl (bs_reversed_subtract a b))
  end.

(* IntSet::contains *)
Definition is_contains (x : intset) (v : N) : bool :=
  match x with Incl s => bs_contains s v | Excl s => negb (bs_contains s v) end.
(* IntSet::len : T::count() = dmax + 1 *)
Definition is_len (dmax : N) (x : intset) : N :=
  match x with Incl s => blen s | Excl s => (dmax + 1) - blen s end.
Definition is_is_empty (dmax : N) (x : intset) : bool := is_len dmax x =? 0.

(* struct Iter, forward: all_values = idx..=hi minus the ascending skip list; at most k items.
   Each step consumes an output slot or a skip, so fuel = k + |skips| suffices. *)
Fixpoint excl_fwd (fuel k : nat) (idx hi : N) (skips : list N) : list N :=
  match fuel with
  | O => []
  | S fuel' =>
      match k with
      | O => []
      | S k' =>
          if hi <? idx then []
          else
            match skips with
            | [] => idx :: excl_fwd fuel' k' (idx + 1) hi []
            | sk :: rest =>
                if idx <? sk then idx :: excl_fwd fuel' k' (idx + 1) hi skips
                else if sk <? idx then excl_fwd fuel' k idx hi rest
                else excl_fwd fuel' k (idx + 1) hi rest
            end
      end
  end.
(* struct Iter, backward (next_back): idx1 = index + 1, walking down to 0; skips descending *)
Fixpoint excl_bwd (fuel k : nat) (idx1 : N) (skips : list N) : list N :=
  match fuel with
  | O => []
  | S fuel' =>
      match k with
      | O => []
      | S k' =>
          if idx1 =? 0 then []
          else
            let idx := idx1 - 1 in
            match skips with
            | [] => idx :: excl_bwd fuel' k' idx []
            | sk :: rest =>
                if sk <? idx then idx :: excl_bwd fuel' k' idx skips
                else if idx <? sk then excl_bwd fuel' k idx1 rest
                else excl_bwd fuel' k idx rest
            end
      end
  end.

(* IntSet::iter().take(k) *)
Definition is_iter (dmax : N) (x : intset) (k : nat) : list N :=
  match x with
  | Incl s => firstn k (bs_iter s)
  | Excl s => let sk := bs_iter s in excl_fwd (k + length sk + 1) k 0 dmax sk
  end.
(* IntSet::iter().rev().take(k) *)
Definition is_iter_back (dmax : N) (x : intset) (k : nat) : list N :=
  match x with
  | Incl s => firstn k (rev (bs_iter s))
  | Excl s => let sk := rev (bs_iter s) in excl_bwd (k + length sk + 1) k (dmax + 1) sk
  end.
(* IntSet::first / last *)
Definition is_first (dmax : N) (x : intset) : option N := hd_error (is_iter dmax x 1).
Definition is_last (dmax : N) (x : intset) : option N := hd_error (is_iter_back dmax x 1).
(* IntSet::iter_after(v).take(k) *)
Definition is_iter_after (dmax : N) (x : intset) (v : N) (k : nat) : list N :=
  match x with
  | Incl s => firstn k (bs_iter_after s v)
  | Excl s =>
      (* min = second value of v..=max, exists iff v < max *)
      if v <? dmax then let sk := bs_iter_after s v in excl_fwd (k + length sk + 1) k (v + 1) dmax sk
      else []
  end.

(* RangeIter::next_exclusive over the stored ranges, state (min, max, done).
   `next_range.start() - 1` cannot underflow: the stored ranges are ascending and min <= start. *)
Fixpoint excl_ranges (ranges : list (N * N)) (mn mx : N) : list (N * N) :=
  match ranges with
  | [] => [(mn, mx)]
  | (s, e) :: rest =>
      if (s <=? mn) && (mn <=? e) then
        if mx <=? e then [] else excl_ranges rest (e + 1) mx
      else
        (mn, s - 1) :: (if e <? mx then excl_ranges rest (e + 1) mx else [])
  end.
(* IntSet::iter_ranges_invertible(inverted) *)
Definition is_iter_ranges_inv (dmax : N) (x : intset) (inverted : bool) : list (N * N) :=
  match x, inverted with
  | Incl s, false | Excl s, true => bs_iter_ranges s
  | Excl s, false | Incl s, true => excl_ranges (bs_iter_ranges s) 0 dmax
  end.
Definition is_iter_ranges dmax x := is_iter_ranges_inv dmax x false.
Definition is_iter_excluded_ranges dmax x := is_iter_ranges_inv dmax x true.

(* IntSet::intersects_range(a..=b): domain min = 0; before_start = a - 1 if a > 0 *)
Definition is_intersects_range (dmax : N) (x : intset) (a b : N) : bool :=
  let next := if a =? 0 then is_first dmax x else hd_error (is_iter_after dmax x (a - 1) 1) in
  match next with None => false | Some n => n <=? b end.
(* IntSet::intersects_set *)
Definition is_intersects_set (dmax : N) (x y : intset) : bool :=
  let '(a, b) := if N.of_nat (length (pgs (storage y))) <? N.of_nat (length (pgs (storage x)))
                 then (x, y) else (y, x) in
  existsb (fun r => is_intersects_range dmax a (fst r) (snd r)) (is_iter_ranges dmax b).

(* PartialEq for IntSet *)
Definition is_eqb (dmax : N) (x y : intset) : bool :=
  match x, y with
  | Incl a, Incl b | Excl a, Excl b => bs_eqb a b
  | _, _ => if is_len dmax x =? is_len dmax y
            then pairs_eqb (is_iter_ranges dmax x) (is_iter_ranges dmax y) else false
  end.
(* Ord for IntSet *)
Fixpoint ranges_cmp (a b : list (N * N)) : comparison :=
  match a, b with
  | [], [] => Eq
  | [], _ :: _ => Lt
  | _ :: _, [] => Gt
  | (s1, e1) :: ta, (s2, e2) :: tb =>
      match s1 ?= s2 with
      | Eq => match e1 ?= e2 with
              | Eq => ranges_cmp ta tb
              | Lt => match ta with [] => Lt | _ => Gt end
              | Gt => match tb with [] => Gt | _ => Lt end
              end
      | c => c
      end
  end.
Definition is_cmp (dmax : N) (x y : intset) : comparison :=
  match x, y with
  | Incl a, Incl b => bs_cmp a b
  | _, _ => ranges_cmp (is_iter_ranges dmax x) (is_iter_ranges dmax y)
  end.

(* ------------------------------------------------------------------------------------------ *)
(* operation sequences over two evolving sets (target t: false = set A, true = set B)          *)
(* ------------------------------------------------------------------------------------------ *)
Inductive op :=
| OInsert (t : bool) (v : N)
| ORemove (t : bool) (v : N)
| OInsertRange (t : bool) (a b : N)
| ORemoveRange (t : bool) (a b : N)
| OExtend (t : bool) (vs : list N)          (* extend / extend_unsorted / FromIterator *)
| ORemoveAll (t : bool) (vs : list N)
| OUnion (t : bool)                          (* target.union(&other) *)
| OIntersect (t : bool)
| OSubtract (t : bool)
| OInvert (t : bool)
| OClear (t : bool)
| OAssign (t : bool).                        (* target = other.clone() *)

Definition sel {A} (t : bool) (st : A * A) : A := if t then snd st else fst st.
Definition put {A} (t : bool) (st : A * A) (x : A) : A * A := if t then (fst st, x) else (x, snd st).

(* one step: new state and the bool returned by insert/remove (None for the other ops) *)
Definition apply_op (st : intset * intset) (o : op) : (intset * intset) * option bool :=
  match o with
  | OInsert t v => let '(x, r) := is_insert (sel t st) v in (put t st x, Some r)
  | ORemove t v => let '(x, r) := is_remove (sel t st) v in (put t st x, Some r)
  | OInsertRange t a b => (put t st (is_insert_range (sel t st) a b), None)
  | ORemoveRange t a b => (put t st (is_remove_range (sel t st) a b), None)
  | OExtend t vs => (put t st (is_extend (sel t st) vs), None)
  | ORemoveAll t vs => (put t st (is_remove_all (sel t st) vs), None)
  | OUnion t => (put t st (is_union (sel t st) (sel (negb t) st)), None)
  | OIntersect t => (put t st (is_intersect (sel t st) (sel (negb t) st)), None)
  | OSubtract t => (put t st (is_subtract (sel t st) (sel (negb t) st)), None)
  | OInvert t => (put t st (is_invert (sel t st)), None)
  | OClear t => (put t st (is_clear (sel t st)), None)
  | OAssign t => (put t st (sel (negb t) st), None)
  end.
Definition run (ops : list op) : intset * intset :=
  fold_left (fun st o => fst (apply_op st o)) ops (is_empty_set, is_empty_set).

(* ------------------------------------------------------------------------------------------ *)
(* range_set.rs : RangeSet<T> for T = u32 / u16 (OrdAdjacency = differ by exactly one)         *)
(* ------------------------------------------------------------------------------------------ *)
(* BTreeMap<T,T> as a key-sorted association list *)
Definition are_adjacent (a b : N) : bool := (a + 1 =? b) || (b + 1 =? a).
Definition ranges_overlap_or_adjacent (a_start a_end b_start b_end : N) : bool :=
  ((a_start <=? b_end) && (b_start <=? a_end)) || are_adjacent a_end b_start || are_adjacent b_end a_start.
Definition range_is_subset (a_start a_end b_start b_end : N) : bool := (b_start <=? a_start) && (a_end <=? b_end).

(* ranges.range(..start).next_back() *)
Fixpoint prev_range (l : list (N * N)) (start : N) : option (N * N) :=
  match l with
  | [] => None
  | (s, e) :: t => if s <? start then match prev_range t start with Some r => Some r | None => Some (s, e) end
                   else None
  end.
(* ranges.range(start..).next() *)
Fixpoint next_range (l : list (N * N)) (start : N) : option (N * N) :=
  match l with
  | [] => None
  | (s, e) :: t => if start <=? s then Some (s, e) else next_range t start
  end.
(* BTreeMap::remove / insert *)
Fixpoint map_remove (l : list (N * N)) (k : N) : list (N * N) :=
  match l with
  | [] => []
  | (s, e) :: t => if s =? k then t else (s, e) :: map_remove t k
  end.
Fixpoint map_insert (l : list (N * N)) (k v : N) : list (N * N) :=
  match l with
  | [] => [(k, v)]
  | (s, e) :: t => if k <? s then (k, v) :: l else if k =? s then (k, v) :: t else (s, e) :: map_insert t k v
  end.

(* the `loop` of RangeSet::insert (each iteration returns or removes one entry: fuel = |l| + 1) *)
Fixpoint rs_insert_loop (fuel : nat) (l : list (N * N)) (start end_ : N) : list (N * N) :=
  match fuel with
  | O => l
  | S fuel' =>
      match next_range l start with
      | None => map_insert l start end_
      | Some (ns, ne) =>
          if range_is_subset start end_ ns ne then l
          else if ranges_overlap_or_adjacent start end_ ns ne
          then rs_insert_loop fuel' (map_remove l ns) (N.min start ns) (N.max end_ ne)
          else map_insert l start end_
      end
  end.
(* RangeSet::insert *)
Definition rs_insert (l : list (N * N)) (start end_ : N) : list (N * N) :=
  if end_ <? start then l
  else
    match prev_range l start with
    | Some (ps, pe) =>
        if range_is_subset start end_ ps pe then l
        else if ranges_overlap_or_adjacent start end_ ps pe
        then let l' := map_remove l ps in
             rs_insert_loop (S (length l')) l' (N.min start ps) (N.max end_ pe)
        else rs_insert_loop (S (length l)) l start end_
    | None => rs_insert_loop (S (length l)) l start end_
    end.
(* Extend / FromIterator *)
Definition rs_extend (l : list (N * N)) (rs : list (N * N)) : list (N * N) :=
  fold_left (fun l r => rs_insert l (fst r) (snd r)) rs l.

(* IntersectionIter::next / step_iterators / range_intersection *)
Fixpoint rs_intersection (a : list (N * N)) : list (N * N) -> list (N * N) :=
  fix inner (b : list (N * N)) : list (N * N) :=
    match a with
    | [] => []
    | (sa, ea) :: ta =>
        match b with
        | [] => []
        | (sb, eb) :: tb =>
            let hit := if (sa <=? eb) && (sb <=? ea) then [(N.max sa sb, N.min ea eb)] else [] in
            hit ++ (match ea ?= eb with
                    | Lt => rs_intersection ta b
                    | Eq => rs_intersection ta tb
                    | Gt => inner tb
                    end)
        end
    end.

(* ------------------------------------------------------------------------------------------ *)
(* correspondence cases                                                                        *)
(* ------------------------------------------------------------------------------------------ *)
Inductive ob :=
| ObLen (t : bool) (n : N) (empty : bool)
| ObInverted (t : bool) (b : bool)
| ObContains (t : bool) (v : N) (b : bool)
| ObFirst (t : bool) (o : option N)
| ObLast (t : bool) (o : option N)
| ObIter (t : bool) (k : nat) (l : list N)
| ObIterBack (t : bool) (k : nat) (l : list N)
| ObIterAfter (t : bool) (v : N) (k : nat) (l : list N)
| ObRanges (t : bool) (k : nat) (l : list (N * N))
| ObExclRanges (t : bool) (k : nat) (l : list (N * N))
| ObIntersectsRange (t : bool) (a b : N) (r : bool)
| ObIntersectsSet (t : bool) (r : bool)              (* target.intersects_set(&other) *)
| ObEq (r : bool)                                    (* A == B *)
| ObCmp (c : comparison).                            (* A.cmp(&B) *)

Definition opt_eqb (a b : option N) : bool :=
  match a, b with Some x, Some y => x =? y | None, None => true | _, _ => false end.
Fixpoint list_eqb (a b : list N) : bool :=
  match a, b with [], [] => true | x :: ta, y :: tb => (x =? y) && list_eqb ta tb | _, _ => false end.
Definition cmp_eqb (a b : comparison) : bool :=
  match a, b with Eq, Eq | Lt, Lt | Gt, Gt => true | _, _ => false end.
Definition optb_eqb (a b : option bool) : bool :=
  match a, b with Some x, Some y => Bool.eqb x y | None, None => true | _, _ => false end.

Definition check_ob (dmax : N) (st : intset * intset) (o : ob) : bool :=
  match o with
  | ObLen t n e => (is_len dmax (sel t st) =? n) && Bool.eqb (is_is_empty dmax (sel t st)) e
  | ObInverted t b => Bool.eqb (is_inverted (sel t st)) b
  | ObContains t v b => Bool.eqb (is_contains (sel t st) v) b
  | ObFirst t o => opt_eqb (is_first dmax (sel t st)) o
  | ObLast t o => opt_eqb (is_last dmax (sel t st)) o
  | ObIter t k l => list_eqb (is_iter dmax (sel t st) k) l
  | ObIterBack t k l => list_eqb (is_iter_back dmax (sel t st) k) l
  | ObIterAfter t v k l => list_eqb (is_iter_after dmax (sel t st) v k) l
  | ObRanges t k l => pairs_eqb (firstn k (is_iter_ranges dmax (sel t st))) l
  | ObExclRanges t k l => pairs_eqb (firstn k (is_iter_excluded_ranges dmax (sel t st))) l
  | ObIntersectsRange t a b r => Bool.eqb (is_intersects_range dmax (sel t st) a b) r
  | ObIntersectsSet t r => Bool.eqb (is_intersects_set dmax (sel t st) (sel (negb t) st)) r
  | ObEq r => Bool.eqb (is_eqb dmax (fst st) (snd st)) r
  | ObCmp c => cmp_eqb (is_cmp dmax (fst st) (snd st)) c
  end.

(* a step = operation, the bool it returned (insert/remove), observations made after it *)
Fixpoint check_steps (dmax : N) (st : intset * intset) (steps : list (op * option bool * list ob)) : bool :=
  match steps with
  | [] => true
  | (o, ret, obs) :: rest =>
      let '(st', r) := apply_op st o in
      optb_eqb r ret && forallb (check_ob dmax st') obs && check_steps dmax st' rest
  end.

Inductive case :=
| CSet (dmax : N) (steps : list (op * option bool * list ob))
  (* RangeSet: ranges inserted into an empty set, its iter(); a second set's inserts, and
     first.intersection(&second) *)
| CRange (ins : list (N * N)) (result : list (N * N)) (ins2 : list (N * N)) (inter : list (N * N)).

Definition check_case (c : case) : bool :=
  match c with
  | CSet dmax steps => check_steps dmax (is_empty_set, is_empty_set) steps
  | CRange ins result ins2 inter =>
      let a := rs_extend [] ins in
      let b := rs_extend [] ins2 in
      pairs_eqb a result && pairs_eqb (rs_intersection a b) inter
  end.
