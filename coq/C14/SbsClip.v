(* C14 (codec half) — the filled-node clause with bias / maximum clipping, and the round trip under
   an arbitrary bias and maximum. *)
From Coq Require Import ZArith List Bool Lia Arith PeanoNat ZifyNat ZifyBool Sorting.Sorted.
From FV Require Import Lib.RustInt C14.SbsModel C14.SbsProofs C14.SbsSpec C14.SbsEnc C14.SbsDecInv C14.SbsChain
                       C14.SbsPack C14.SbsRoundtrip.
Import ListNotations.
Open Scope Z_scope.
Ltac Zify.zify_post_hook ::= Z.to_euclidean_division_equations.

(* ---- one filled node, anywhere in the tree ----
   When the decoder dequeues (start, depth) and the next node of the stream is all zeroes, it inserts
   exactly the values  start + bias .. start + BF^(H-depth+1) - 1 + bias  that are <= max  (nothing if
   there is none), consumes that one node and continues with the rest of the queue. *)
Theorem decode_filled_clipped bf H bias maxv data s s' start depth q out f :
  bf_valid bf = true -> 1 <= H <= max_height bf -> 0 <= bias -> 0 <= maxv < U32 ->
  qwf bf H (start, depth) ->
  ibs_next bf data s = Some (0, s') ->
  exists r,
    dec_loop (S f) bf data H bias maxv s ((start, depth) :: q) out =
    dec_loop f bf data H bias maxv s' q (r ++ out) /\
    (length r <= 1)%nat /\
    forall x, in_ranges x r =
              (start + bias <=? x) && (x <=? start + bf ^ (H - depth + 1) - 1 + bias) && (x <=? maxv).
Proof.
  intros Hbf HH Hbias Hmax Hq Hn. cbn [dec_loop]. rewrite Hn. cbn [Z.eqb].
  destruct (filled_range_spec bf H bias maxv Hbf HH Hbias Hmax start depth Hq) as (r & Er & Hm).
  rewrite Er. destruct r as [rg|].
  - exists [rg]. split; [reflexivity|]. split; [cbn; lia | exact Hm].
  - exists []. split; [reflexivity|]. split; [cbn; lia | exact Hm].
Qed.

(* ---- membership in clipped ranges ---- *)
Lemma in_clip_shift bias maxv rs x :
  in_ranges x (clip_ranges bias maxv rs) = in_ranges (x - bias) rs && (x <=? maxv).
Proof.
  induction rs as [|[lo hi] rs IH]; [reflexivity|].
  change ((lo, hi) :: rs) with ([(lo, hi)] ++ rs).
  rewrite clip_ranges_app, !in_ranges_app, IH, (in_clip_one 0).
  cbn [in_ranges existsb fst snd]. rewrite orb_false_r.
  destruct (in_ranges (x - bias) rs); lia.
Qed.

(* ---- the encoder's output consists of bytes ---- *)
Lemma lor_byte a b : is_byte a -> is_byte b -> is_byte (Z.lor a b).
Proof.
  unfold is_byte. intros Ha Hb. split; [apply Z.lor_nonneg; lia|].
  change 256 with (2 ^ 8). apply (bits_bound 0); [apply Z.lor_nonneg; lia | lia|].
  intros j Hj. rewrite Z.lor_spec. rewrite (testbit_small a 8 j), (testbit_small b 8 j) by (change (2 ^ 8) with 256; lia).
  reflexivity.
Qed.

Lemma obs_write_byte_bytes bf bits idx o : Forall is_byte (fst o) -> Forall is_byte (fst (obs_write_byte bf bits idx o)).
Proof.
  destruct o as [d sub]. unfold obs_write_byte. cbn [fst]. intros Hd.
  set (b := Z.shiftl (Z.land (Z.shiftr bits (idx * 8)) (byte_mask bf)) (sub * bf) mod 256).
  assert (Hb : is_byte b) by (unfold b, is_byte; apply Z.mod_pos_bound; lia).
  destruct ((nodes_per_byte bf =? 1) || (sub =? 0)).
  - constructor; [|assumption]. apply lor_byte; [unfold is_byte; lia | assumption].
  - destruct d as [|l r]; [constructor|]. inversion Hd; subst. constructor; [apply lor_byte|]; assumption.
Qed.

Lemma wr_bytes bf o v : Forall is_byte (fst o) -> Forall is_byte (fst (wr bf o v)).
Proof.
  intros Ho. unfold wr, obs_write_node. destruct (bf =? 32); repeat apply obs_write_byte_bytes; assumption.
Qed.

Lemma fold_wr_bytes bf ns : forall o, Forall is_byte (fst o) -> Forall is_byte (fst (fold_left (wr bf) ns o)).
Proof. induction ns as [|v ns IH]; intros o Ho; cbn [fold_left]; [assumption|]. apply IH. apply wr_bytes. assumption. Qed.

Lemma header_byte bf H : bf_valid bf = true -> 0 <= H <= 31 -> is_byte (Z.lor (Z.shiftl (Z.land H 31) 2) (bit_id bf)).
Proof.
  intros Hbf HH.
  assert (Hall : forallb (fun bf => forallb (fun H => is_byteb (Z.lor (Z.shiftl (Z.land H 31) 2) (bit_id bf))) (zseq 0 32)) [2; 4; 8; 32] = true)
    by (vm_compute; reflexivity).
  rewrite forallb_forall in Hall. specialize (Hall bf).
  rewrite forallb_forall in Hall.
  assert (Hin : In bf [2; 4; 8; 32]) by (destruct (bf_cases _ Hbf) as [-> | [-> | [-> | ->]]]; cbn; tauto).
  specialize (Hall Hin H ltac:(apply zseq_in; cbn; lia)). unfold is_byteb, is_byte in *. lia.
Qed.

Lemma encode_fixed_bytes bf S0 H bytes : bf_valid bf = true -> 0 <= H ->
  encode_fixed bf S0 H = Some bytes -> Forall is_byte bytes.
Proof.
  intros Hbf HH. unfold encode_fixed, obs_new. destruct (Z.ltb_spec 31 H); [discriminate|].
  destruct (layers (Z.to_nat H) bf S0 None []) as [nds|]; [|discriminate].
  intros E. inversion E; subst. unfold obs_into_bytes. apply Forall_rev.
  rewrite emit_fold. apply fold_wr_bytes. cbn [fst]. constructor; [|constructor]. apply header_byte; [assumption | lia].
Qed.

Lemma encode_bf_bytes bf S0 bytes : bf_valid bf = true -> encode_bf bf S0 = Some bytes -> Forall is_byte bytes.
Proof.
  intros Hbf. unfold encode_bf, obs_new. destruct S0 as [|a l].
  - cbn. intros E. inversion E; subst. constructor; [|constructor]. apply (header_byte bf 0 Hbf). lia.
  - set (m := last (a :: l) 0).
    assert (Hth : forall b, 0 <= tree_height_for b m).
    { intros b. unfold tree_height_for.
      assert (G : forall fuel lg h mm, 0 <= h -> 0 <= thf_loop fuel lg h mm).
      { induction fuel as [|fu IHf]; intros lg h mm Hh; cbn [thf_loop]; [assumption|].
        destruct (Z.shiftr mm lg =? 0); [lia | apply IHf; lia]. }
      apply G. lia. }
    destruct (max_height bf <? tree_height_for bf m).
    + destruct (bf =? 2); [|discriminate]. destruct (max_height 4 <? tree_height_for 4 m); [discriminate|].
      apply encode_fixed_bytes; [reflexivity | apply Hth].
    + apply encode_fixed_bytes; [assumption | apply Hth].
Qed.

(* ---- round trip under any bias and maximum ---- *)
Theorem roundtrip_bias_max bf S0 bias maxv : bf_valid bf = true ->
  StronglySorted Z.lt S0 -> Forall (fun v => 0 <= v < U32) S0 -> 0 <= bias -> 0 <= maxv < U32 ->
  exists bytes rs, encode_bf bf S0 = Some bytes /\ decode bytes bias maxv = Ok rs [] /\
                   forall x, in_ranges x rs = zmem (x - bias) S0 && (x <=? maxv).
Proof.
  intros Hbf Hs Hb Hbias Hmax.
  destruct (roundtrip bf S0 Hbf Hs Hb) as (bytes & rs0 & Eenc & Edec & Hm0).
  pose proof (encode_bf_bytes bf S0 bytes Hbf Eenc) as Hby.
  assert (Hsup : match bytes with
                 | h :: _ => Z.shiftr (Z.land h 124) 2 <= max_height (bf_of_bits (Z.land h 3))
                 | [] => True end).
  { destruct bytes as [|h t]; [exact I|]. unfold decode in Edec.
    destruct (Z.ltb_spec (max_height (bf_of_bits (Z.land h 3))) (Z.shiftr (Z.land h 124) 2)); [discriminate | assumption]. }
  pose proof (decode_matches_spec bytes 0 (U32 - 1) Hby ltac:(lia) ltac:(unfold U32; lia) Hsup) as M0.
  pose proof (decode_matches_spec bytes bias maxv Hby Hbias Hmax Hsup) as M1.
  destruct (spec_decode bytes) as [srs srest|]; [|congruence].
  destruct M0 as (rs0' & E0 & Hc0). rewrite Edec in E0. inversion E0; subst rs0' srest.
  destruct M1 as (rs & E1 & Hc1).
  exists bytes, rs. split; [assumption|]. split; [assumption|].
  intros x. rewrite Hc1, in_clip_shift.
  destruct (x <=? maxv) eqn:Ex; rewrite ?andb_false_r; [|reflexivity]. rewrite !andb_true_r.
  (* x - bias is below 2^32, where the unclipped specification result and S0 agree *)
  specialize (Hm0 (x - bias)). specialize (Hc0 (x - bias)). rewrite in_clip_shift in Hc0.
  rewrite Z.sub_0_r in Hc0. rewrite <- Hm0, Hc0.
  replace (x - bias <=? U32 - 1) with true by (unfold U32 in *; lia). rewrite andb_true_r. reflexivity.
Qed.

(* ---- a tree whose root node is all zeroes: the whole interval [0, BF^H), shifted and clipped ----
   (BF^H exceeds 2^32 for BF 8 / H 11 and BF 32 / H 7: the end saturates exactly as in the code) *)
Theorem decode_filled_root bf H bias maxv tail :
  bf_valid bf = true -> 1 <= H <= max_height bf -> 0 <= bias -> 0 <= maxv < U32 ->
  let hdr := Z.lor (Z.shiftl (Z.land H 31) 2) (bit_id bf) in
  let zero := if bf =? 32 then [0; 0; 0; 0] else [0] in
  exists rs, decode (hdr :: zero ++ tail) bias maxv = Ok rs tail /\
             forall x, in_ranges x rs = (bias <=? x) && (x <=? bf ^ H - 1 + bias) && (x <=? maxv).
Proof.
  intros Hbf HH Hbias Hmax. cbv zeta. pose proof (bf_ge2 bf Hbf) as Hb2.
  assert (Hmh : max_height bf <= 31) by (destruct (bf_cases _ Hbf) as [-> | [-> | [-> | ->]]]; unfold max_height; cbn; lia).
  set (hdr := Z.lor (Z.shiftl (Z.land H 31) 2) (bit_id bf)).
  set (zero := if bf =? 32 then [0; 0; 0; 0] else [0]).
  unfold decode. destruct (header_roundtrip bf H Hbf ltac:(lia)) as (Eb & Eh). fold hdr in Eb, Eh.
  rewrite Eb, Eh. destruct (Z.ltb_spec (max_height bf) H); [lia|].
  unfold decode_nodes. destruct (Z.eqb_spec H 0); [lia|].
  rewrite <- (st_of_index_0 bf).
  pose proof (all_nodes_length bf (zero ++ tail) Hbf) as HL.
  rewrite dec_loop_aloop by (try assumption; cbn [length]; nia).
  cbn [skipn].
  assert (Ean : exists restn, all_nodes bf (zero ++ tail) = 0 :: restn).
  { unfold zero. destruct (bf_cases _ Hbf) as [-> | [-> | [-> | ->]]]; eexists; reflexivity. }
  destruct Ean as (restn & ->). cbn [aloop Z.eqb].
  assert (Hq : qwf bf H (0, 1)).
  { unfold qwf. cbn [fst snd]. replace (H - 1 + 1) with H by lia. pose proof (bf_pow_max bf H Hbf ltac:(lia)). lia. }
  destruct (filled_range_spec bf H bias maxv Hbf HH Hbias Hmax 0 1 Hq) as (r & Er & Hm). rewrite Er.
  assert (Efin : forall out, lift bf (aloop bf H bias maxv restn 1 [] out) = LDone (st_of_index bf 1) [] out)
    by (intros out; destruct restn; reflexivity).
  assert (Hend : forall out, (forall x, in_ranges x out = (bias <=? x) && (x <=? bf ^ H - 1 + bias) && (x <=? maxv)) ->
     exists rs, match lift bf (aloop bf H bias maxv restn 1 [] out) with
                | LErr => Err | LPanic => Panic | LFuel => OutOfFuel
                | LDone s q out0 =>
                    match ibs_skip bf s (Z.of_nat (length q) mod U32) with
                    | Some s2 => if (bytes_consumed s2 <=? length (hdr :: zero ++ tail))%nat
                                 then Ok (rev out0) (skipn (bytes_consumed s2) (hdr :: zero ++ tail)) else Err
                    | None => Panic
                    end
                end = Ok rs tail /\
                forall x, in_ranges x rs = (bias <=? x) && (x <=? bf ^ H - 1 + bias) && (x <=? maxv)).
  { intros out Hout. rewrite Efin. cbn [length]. change (Z.of_nat 0 mod U32) with 0.
    exists (rev out). split; [|intros x; rewrite in_ranges_rev; apply Hout].
    unfold zero, ibs_skip, st_of_index, bytes_consumed.
    destruct (bf_cases _ Hbf) as [-> | [-> | [-> | ->]]]; reflexivity. }
  destruct r as [rg|]; apply Hend; intros x; rewrite <- (Z.add_0_l bias) at 1;
    replace (bf ^ H - 1 + bias) with (0 + bf ^ (H - 1 + 1) - 1 + bias) by (replace (H - 1 + 1) with H by lia; lia);
    rewrite <- Hm; cbn [in_ranges existsb]; rewrite ?orb_false_r; reflexivity.
Qed.

(* ---- the encoder side of the filled-node clause ---- *)
Section Full.
Variable bf : Z.
Hypothesis Hbf : bf_valid bf = true.
Variable S0 : list Z.
Hypothesis H0 : vals_ok S0.

Lemma fill_complete : forall k' p, 0 <= p ->
  (forall x, p * bf ^ Z.of_nat (S k') <= x < (p + 1) * bf ^ Z.of_nat (S k') -> In x S0) ->
  fillL bf S0 k' p = true.
Proof.
  pose proof (bf_ge2 bf Hbf) as Hb2.
  induction k' as [|k' IH]; intros p Hp Hall; apply (fillL_iff bf Hbf); intros j Hj.
  - change (Z.of_nat 1) with 1 in Hall. rewrite Z.pow_1_r in Hall. split; [cbn [Vk]; apply Hall; lia | reflexivity].
  - set (B := bf ^ Z.of_nat (S k')) in *.
    assert (HB : 0 < B) by (apply Z.pow_pos_nonneg; lia).
    assert (HB2 : bf ^ Z.of_nat (S (S k')) = bf * B).
    { unfold B. rewrite (Nat2Z.inj_succ (S k')), Z.pow_succ_r by lia. reflexivity. }
    rewrite HB2 in Hall.
    assert (Hc : In (p * bf + j) (Vk bf (S k') S0)).
    { apply (Vk_in bf Hbf S0 H0). exists ((p * bf + j) * B). split; [apply Hall; nia|]. apply Z.div_mul. lia. }
    split; [assumption|]. apply (isf_succ bf S0). split; [assumption|].
    apply IH; [lia|]. intros x Hx. apply Hall. fold B in Hx. nia.
Qed.

(* a node is encoded as "filled" exactly when every value of its interval is a member *)
Theorem filled_iff_full k' p : 0 <= p ->
  fillL bf S0 k' p = true <->
  (forall x, p * bf ^ Z.of_nat (S k') <= x < (p + 1) * bf ^ Z.of_nat (S k') -> In x S0).
Proof.
  intros Hp. pose proof (bf_ge2 bf Hbf) as Hb2. split.
  - intros Hf. apply (full_sem bf Hbf S0 k' p); [|assumption].
    pose proof (proj1 (fillL_iff bf Hbf S0 k' p) Hf 0 ltac:(lia)) as (Hin & _).
    cbn [Vk]. apply (par_in bf (Vk bf k' S0) p (Vk_ne bf Hbf S0 H0 k')). exists (p * bf + 0). split; [assumption|].
    rewrite Z.add_0_r. apply Z.div_mul. lia.
  - apply fill_complete. assumption.
Qed.

End Full.

(* the node stream written by the encoder: per level (top first), per non-skipped node in ascending
   order: an all-zero node when the node is filled ([fillL]), its child bits otherwise; nodes below a
   filled node are skipped ([skipL]) *)
Theorem encode_node_stream bf S0 H : bf_valid bf = true -> vals_ok S0 -> 1 <= H <= max_height bf ->
  (forall x, In x S0 -> x < bf ^ H) ->
  exists tree pad,
    encode_fixed bf S0 H = Some (Z.lor (Z.shiftl (Z.land H 31) 2) (bit_id bf) :: tree) /\
    all_nodes bf tree = streamk bf S0 (Z.to_nat H) (Z.to_nat H) ++ repeat 0 pad /\
    forall k', streamk bf S0 (Z.to_nat H) (S k') =
               flat_map (fun p => if skipL bf S0 (Z.to_nat H) k' p then []
                                  else if fillL bf S0 k' p then [0] else [bitsL bf S0 k' p])
                        (Vk bf (S k') S0) ++ streamk bf S0 (Z.to_nat H) k'.
Proof.
  intros Hbf Hok HH Hmax. pose proof (bf_ge2 bf Hbf) as Hb2.
  assert (Hmh : max_height bf <= 31) by (destruct (bf_cases _ Hbf) as [-> | [-> | [-> | ->]]]; unfold max_height; cbn; lia).
  set (top := Z.to_nat H). assert (Etop : Z.of_nat top = H) by (unfold top; lia).
  assert (Htop : (1 <= top)%nat) by lia.
  assert (Hmax' : forall x, In x S0 -> x < bf ^ Z.of_nat top) by (rewrite Etop; assumption).
  unfold encode_fixed, obs_new. destruct (Z.ltb_spec 31 H); [lia|].
  assert (Es : top = S (top - 1)) by lia.
  destruct (layers_bfs bf Hbf S0 (top - 1) Hok) as (nds & El & Er). rewrite <- Es in El, Er.
  fold top. rewrite El.
  set (hdr := Z.lor (Z.shiftl (Z.land H 31) 2) (bit_id bf)).
  destruct (pack_all bf (streamk bf S0 top top) [hdr] Hbf (streamk_bound bf S0 top Hbf Htop Hmax' top))
    as (tree & pad & Ef & Ean & Elen).
  exists tree, pad. split; [|split; [exact Ean|]].
  - f_equal. rewrite Er, emit_fold.
    change (flat_map nodeval' (bfs bf S0 top top)) with (streamk bf S0 top top).
    unfold obs_into_bytes. rewrite Ef, rev_app_distr, rev_involutive. reflexivity.
  - intros k'. rewrite (streamk_S bf S0 top Htop Hmax'). reflexivity.
Qed.
