(* C14 (codec half) — OutputBitStream packs nodes so that InputBitStream reads them back;
   header round trip; tree_height_for. *)
From Coq Require Import ZArith List Bool Lia Arith PeanoNat ZifyNat ZifyBool.
From FV Require Import Lib.RustInt C14.SbsModel C14.SbsProofs C14.SbsSpec.
Import ListNotations.
Open Scope Z_scope.
Ltac Zify.zify_post_hook ::= Z.to_euclidean_division_equations.

(* the byte after or-ing node v at sub-position sub into byte [last] *)
Definition wbyte (bf sub v last : Z) : Z :=
  Z.lor last ((Z.shiftl (Z.land (Z.shiftr v (0 * 8)) (byte_mask bf)) (sub * bf)) mod 256).

Definition wr (bf : Z) (o : obs) (v : Z) : obs := obs_write_node bf v o.

Lemma wr2_0 v d : wr 2 (d, 0) v = (wbyte 2 0 v 0 :: d, 1).
Proof. reflexivity. Qed.
Lemma wr2_1 v l d : wr 2 (l :: d, 1) v = (wbyte 2 1 v l :: d, 2).
Proof. reflexivity. Qed.
Lemma wr2_2 v l d : wr 2 (l :: d, 2) v = (wbyte 2 2 v l :: d, 3).
Proof. reflexivity. Qed.
Lemma wr2_3 v l d : wr 2 (l :: d, 3) v = (wbyte 2 3 v l :: d, 0).
Proof. reflexivity. Qed.
Lemma wr4_0 v d : wr 4 (d, 0) v = (wbyte 4 0 v 0 :: d, 1).
Proof. reflexivity. Qed.
Lemma wr4_1 v l d : wr 4 (l :: d, 1) v = (wbyte 4 1 v l :: d, 0).
Proof. reflexivity. Qed.
Lemma wr8_0 v d : wr 8 (d, 0) v = (wbyte 8 0 v 0 :: d, 0).
Proof. reflexivity. Qed.

Lemma enum2 : forallb (fun a => forallb (fun b => forallb (fun c => forallb (fun e =>
    let x1 := wbyte 2 0 a 0 in let x2 := wbyte 2 1 b x1 in let x3 := wbyte 2 2 c x2 in let x4 := wbyte 2 3 e x3 in
    eqb_zlist [n2 x1 0; n2 x1 2; n2 x1 4; n2 x1 6] [a; 0; 0; 0] &&
    eqb_zlist [n2 x2 0; n2 x2 2; n2 x2 4; n2 x2 6] [a; b; 0; 0] &&
    eqb_zlist [n2 x3 0; n2 x3 2; n2 x3 4; n2 x3 6] [a; b; c; 0] &&
    eqb_zlist [n2 x4 0; n2 x4 2; n2 x4 4; n2 x4 6] [a; b; c; e])
    (zseq 0 4)) (zseq 0 4)) (zseq 0 4)) (zseq 0 4) = true.
Proof. vm_compute. reflexivity. Qed.

Lemma enum4 : forallb (fun a => forallb (fun b =>
    let x1 := wbyte 4 0 a 0 in let x2 := wbyte 4 1 b x1 in
    eqb_zlist [n4 x1 0; n4 x1 4] [a; 0] && eqb_zlist [n4 x2 0; n4 x2 4] [a; b])
    (zseq 0 16)) (zseq 0 16) = true.
Proof. vm_compute. reflexivity. Qed.

Lemma enum8 : forallb (fun a => wbyte 8 0 a 0 =? a) (zseq 0 256) = true.
Proof. vm_compute. reflexivity. Qed.

Lemma eqb_zlist_eq a b : eqb_zlist a b = true -> a = b.
Proof.
  unfold eqb_zlist. revert b. induction a as [|x a IH]; intros [|y b] Hab; cbn in Hab; try discriminate; [reflexivity|].
  apply andb_true_iff in Hab. destruct Hab as (Hl & Hf). apply andb_true_iff in Hf. destruct Hf as (Hxy & Hf).
  cbn in Hxy. apply Z.eqb_eq in Hxy. subst y. f_equal. apply IH. cbn. rewrite Hl, Hf. reflexivity.
Qed.

Lemma in4 a : 0 <= a < 4 -> In a (zseq 0 4).
Proof. intros. apply zseq_in. cbn. lia. Qed.
Lemma in16 a : 0 <= a < 16 -> In a (zseq 0 16).
Proof. intros. apply zseq_in. cbn. lia. Qed.

Lemma nodes2_of a b c e : 0 <= a < 4 -> 0 <= b < 4 -> 0 <= c < 4 -> 0 <= e < 4 ->
  let x1 := wbyte 2 0 a 0 in let x2 := wbyte 2 1 b x1 in let x3 := wbyte 2 2 c x2 in let x4 := wbyte 2 3 e x3 in
  [n2 x1 0; n2 x1 2; n2 x1 4; n2 x1 6] = [a; 0; 0; 0] /\
  [n2 x2 0; n2 x2 2; n2 x2 4; n2 x2 6] = [a; b; 0; 0] /\
  [n2 x3 0; n2 x3 2; n2 x3 4; n2 x3 6] = [a; b; c; 0] /\
  [n2 x4 0; n2 x4 2; n2 x4 4; n2 x4 6] = [a; b; c; e].
Proof.
  intros Ha Hb Hc He. pose proof enum2 as Hall.
  rewrite forallb_forall in Hall. specialize (Hall a (in4 a Ha)).
  rewrite forallb_forall in Hall. specialize (Hall b (in4 b Hb)).
  rewrite forallb_forall in Hall. specialize (Hall c (in4 c Hc)).
  rewrite forallb_forall in Hall. specialize (Hall e (in4 e He)).
  cbv zeta in *. apply andb_true_iff in Hall. destruct Hall as (Hall & H4).
  apply andb_true_iff in Hall. destruct Hall as (Hall & H3).
  apply andb_true_iff in Hall. destruct Hall as (H1 & H2).
  repeat split; apply eqb_zlist_eq; assumption.
Qed.

Lemma nodes4_of a b : 0 <= a < 16 -> 0 <= b < 16 ->
  let x1 := wbyte 4 0 a 0 in let x2 := wbyte 4 1 b x1 in
  [n4 x1 0; n4 x1 4] = [a; 0] /\ [n4 x2 0; n4 x2 4] = [a; b].
Proof.
  intros Ha Hb. pose proof enum4 as Hall.
  rewrite forallb_forall in Hall. specialize (Hall a (in16 a Ha)).
  rewrite forallb_forall in Hall. specialize (Hall b (in16 b Hb)).
  cbv zeta in *. apply andb_true_iff in Hall. destruct Hall as (H1 & H2).
  split; apply eqb_zlist_eq; assumption.
Qed.

Lemma wbyte8 a : 0 <= a < 256 -> wbyte 8 0 a 0 = a.
Proof.
  intros Ha. pose proof enum8 as Hall. rewrite forallb_forall in Hall.
  apply Z.eqb_eq. apply Hall. apply zseq_in. cbn. lia.
Qed.

(* result of packing: bytes written after the initial content d *)
Definition packed (bf : Z) (ns : list Z) (d : list Z) (tree : list Z) (pad : nat) : Prop :=
  fst (fold_left (wr bf) ns (d, 0)) = rev tree ++ d /\
  all_nodes bf tree = ns ++ repeat 0 pad /\
  Z.of_nat (length tree) = (Z.of_nat (length ns) * bf + 7) / 8.

Lemma pack2 : forall n ns d, (length ns <= n)%nat -> Forall (fun v => 0 <= v < 2 ^ 2) ns ->
  exists tree pad, packed 2 ns d tree pad.
Proof.
  change (2 ^ 2) with 4. unfold packed.
  induction n as [|n IH]; intros ns d Hn Hf.
  - destruct ns; [|cbn in Hn; lia]. exists [], 0%nat. repeat split.
  - destruct ns as [|a [|b [|c [|e r]]]].
    + exists [], 0%nat. repeat split.
    + inversion Hf as [|? ? Ha _]; subst.
      destruct (nodes2_of a 0 0 0 Ha ltac:(lia) ltac:(lia) ltac:(lia)) as (E1 & _). cbv zeta in E1.
      exists [wbyte 2 0 a 0], 3%nat. cbn [fold_left]. rewrite wr2_0. repeat split.
      unfold all_nodes. cbn [Z.eqb Pos.eqb flat_map app]. rewrite E1. reflexivity.
    + inversion Hf as [|? ? Ha Hf1]; subst. inversion Hf1 as [|? ? Hb _]; subst.
      destruct (nodes2_of a b 0 0 Ha Hb ltac:(lia) ltac:(lia)) as (_ & E2 & _). cbv zeta in E2.
      eexists [_], 2%nat. cbn [fold_left]. rewrite wr2_0, wr2_1. repeat split.
      unfold all_nodes. cbn [Z.eqb Pos.eqb flat_map app]. rewrite E2. reflexivity.
    + inversion Hf as [|? ? Ha Hf1]; subst. inversion Hf1 as [|? ? Hb Hf2]; subst. inversion Hf2 as [|? ? Hc _]; subst.
      destruct (nodes2_of a b c 0 Ha Hb Hc ltac:(lia)) as (_ & _ & E3 & _). cbv zeta in E3.
      eexists [_], 1%nat. cbn [fold_left]. rewrite wr2_0, wr2_1, wr2_2. repeat split.
      unfold all_nodes. cbn [Z.eqb Pos.eqb flat_map app]. rewrite E3. reflexivity.
    + inversion Hf as [|? ? Ha Hf1]; subst. inversion Hf1 as [|? ? Hb Hf2]; subst.
      inversion Hf2 as [|? ? Hc Hf3]; subst. inversion Hf3 as [|? ? He Hf4]; subst.
      destruct (nodes2_of a b c e Ha Hb Hc He) as (_ & _ & _ & E4). cbv zeta in E4.
      cbn [fold_left]. rewrite wr2_0, wr2_1, wr2_2, wr2_3.
      set (X := wbyte 2 3 e (wbyte 2 2 c (wbyte 2 1 b (wbyte 2 0 a 0)))) in *.
      destruct (IH r (X :: d) ltac:(cbn [length] in Hn; lia) Hf4) as (tree & pad & E & Hn2 & Hl).
      exists (X :: tree), pad. split; [|split].
      * rewrite E. cbn [rev]. rewrite <- app_assoc. reflexivity.
      * unfold all_nodes in *. cbn [Z.eqb Pos.eqb flat_map] in *. rewrite E4, Hn2. reflexivity.
      * cbn [length]. lia.
Qed.

Lemma pack4 : forall n ns d, (length ns <= n)%nat -> Forall (fun v => 0 <= v < 2 ^ 4) ns ->
  exists tree pad, packed 4 ns d tree pad.
Proof.
  change (2 ^ 4) with 16. unfold packed.
  induction n as [|n IH]; intros ns d Hn Hf.
  - destruct ns; [|cbn in Hn; lia]. exists [], 0%nat. repeat split.
  - destruct ns as [|a [|b r]].
    + exists [], 0%nat. repeat split.
    + inversion Hf as [|? ? Ha _]; subst.
      destruct (nodes4_of a 0 Ha ltac:(lia)) as (E1 & _). cbv zeta in E1.
      exists [wbyte 4 0 a 0], 1%nat. cbn [fold_left]. rewrite wr4_0. repeat split.
      unfold all_nodes. cbn [Z.eqb Pos.eqb flat_map app]. rewrite E1. reflexivity.
    + inversion Hf as [|? ? Ha Hf1]; subst. inversion Hf1 as [|? ? Hb Hf2]; subst.
      destruct (nodes4_of a b Ha Hb) as (_ & E2). cbv zeta in E2.
      cbn [fold_left]. rewrite wr4_0, wr4_1.
      set (X := wbyte 4 1 b (wbyte 4 0 a 0)) in *.
      destruct (IH r (X :: d) ltac:(cbn [length] in Hn; lia) Hf2) as (tree & pad & E & Hn2 & Hl).
      exists (X :: tree), pad. split; [|split].
      * rewrite E. cbn [rev]. rewrite <- app_assoc. reflexivity.
      * unfold all_nodes in *. cbn [Z.eqb Pos.eqb flat_map] in *. rewrite E2, Hn2. reflexivity.
      * cbn [length]. lia.
Qed.

Lemma pack8 : forall ns d, Forall (fun v => 0 <= v < 2 ^ 8) ns -> exists tree pad, packed 8 ns d tree pad.
Proof.
  change (2 ^ 8) with 256. unfold packed. induction ns as [|a r IH]; intros d Hf.
  - exists [], 0%nat. repeat split.
  - inversion Hf as [|? ? Ha Hf1]; subst. cbn [fold_left]. rewrite wr8_0, (wbyte8 a Ha).
    destruct (IH (a :: d) Hf1) as (tree & pad & E & Hn2 & Hl).
    exists (a :: tree), pad. split; [|split].
    + rewrite E. cbn [rev]. rewrite <- app_assoc. reflexivity.
    + unfold all_nodes in *. cbn [Z.eqb Pos.eqb] in *. rewrite Hn2. reflexivity.
    + cbn [length]. lia.
Qed.

Definition wb32 (idx v : Z) : Z :=
  Z.lor 0 ((Z.shiftl (Z.land (Z.shiftr v (idx * 8)) (byte_mask 32)) (0 * 32)) mod 256).

Lemma wr32_0 v d : wr 32 (d, 0) v = (wb32 3 v :: wb32 2 v :: wb32 1 v :: wb32 0 v :: d, 0).
Proof. reflexivity. Qed.

Lemma wb32_eq idx v : 0 <= idx -> wb32 idx v = (Z.shiftr v (idx * 8)) mod 2 ^ 8.
Proof.
  intros Hi. unfold wb32. rewrite Z.lor_0_l. change (0 * 32) with 0. rewrite Z.shiftl_0_r.
  change (byte_mask 32) with (Z.ones 8). rewrite Z.land_ones by lia.
  change (2 ^ 8) with 256. apply Z.mod_mod. lia.
Qed.

Lemma wb32_byte idx v : 0 <= idx -> is_byte (wb32 idx v).
Proof. intros Hi. rewrite wb32_eq by assumption. unfold is_byte. change (2 ^ 8) with 256. apply Z.mod_pos_bound. lia. Qed.

Lemma wb32_bits idx v j : 0 <= idx -> 0 <= j < 8 -> Z.testbit (wb32 idx v) j = Z.testbit v (j + idx * 8).
Proof.
  intros Hi Hj. rewrite wb32_eq by assumption. rewrite Z.mod_pow2_bits_low by lia.
  rewrite Z.shiftr_spec by lia. reflexivity.
Qed.

Lemma join32 v : 0 <= v < 2 ^ 32 ->
  Z.lor (Z.lor (Z.lor (wb32 0 v) (Z.shiftl (wb32 1 v) 8)) (Z.shiftl (wb32 2 v) 16)) (Z.shiftl (wb32 3 v) 24) = v.
Proof.
  intros Hv. apply Z.bits_inj'. intros n Hn.
  rewrite lor4_bits by (try apply wb32_byte; lia).
  destruct (Z.ltb_spec n 8). { rewrite wb32_bits by lia. f_equal. lia. }
  destruct (Z.ltb_spec n 16). { rewrite wb32_bits by lia. f_equal. lia. }
  destruct (Z.ltb_spec n 24). { rewrite wb32_bits by lia. f_equal. lia. }
  destruct (Z_lt_le_dec n 32).
  - rewrite wb32_bits by lia. f_equal. lia.
  - rewrite (testbit_small v 32 n) by lia.
    rewrite wb32_eq by lia. apply Z.mod_pow2_bits_high. lia.
Qed.

Lemma pack32 : forall ns d, Forall (fun v => 0 <= v < 2 ^ 32) ns -> exists tree pad, packed 32 ns d tree pad.
Proof.
  unfold packed. induction ns as [|a r IH]; intros d Hf.
  - exists [], 0%nat. repeat split.
  - inversion Hf as [|? ? Ha Hf1]; subst. cbn [fold_left]. rewrite wr32_0.
    destruct (IH (wb32 3 a :: wb32 2 a :: wb32 1 a :: wb32 0 a :: d) Hf1) as (tree & pad & E & Hn2 & Hl).
    exists (wb32 0 a :: wb32 1 a :: wb32 2 a :: wb32 3 a :: tree), pad. split; [|split].
    + rewrite E. cbn [rev]. rewrite <- !app_assoc. reflexivity.
    + unfold all_nodes in *. cbn [Z.eqb Pos.eqb nodes32] in *. rewrite join32 by assumption. rewrite Hn2. reflexivity.
    + cbn [length]. lia.
Qed.

Lemma pack_all bf ns d : bf_valid bf = true -> Forall (fun v => 0 <= v < 2 ^ bf) ns ->
  exists tree pad, packed bf ns d tree pad.
Proof.
  intros Hbf Hf. destruct (bf_cases _ Hbf) as [-> | [-> | [-> | ->]]].
  - apply (pack2 (length ns)); [lia | assumption].
  - apply (pack4 (length ns)); [lia | assumption].
  - apply pack8; assumption.
  - apply pack32; assumption.
Qed.

(* header *)
Lemma header_roundtrip bf H : bf_valid bf = true -> 0 <= H <= 31 ->
  let hdr := Z.lor (Z.shiftl (Z.land H 31) 2) (bit_id bf) in
  bf_of_bits (Z.land hdr 3) = bf /\ Z.shiftr (Z.land hdr 124) 2 = H.
Proof.
  intros Hbf HH.
  assert (Hall : forallb (fun bf => forallb (fun H =>
            let hdr := Z.lor (Z.shiftl (Z.land H 31) 2) (bit_id bf) in
            (bf_of_bits (Z.land hdr 3) =? bf) && (Z.shiftr (Z.land hdr 124) 2 =? H)) (zseq 0 32)) [2; 4; 8; 32] = true)
    by (vm_compute; reflexivity).
  rewrite forallb_forall in Hall. specialize (Hall bf).
  rewrite forallb_forall in Hall.
  assert (Hin : In bf [2; 4; 8; 32]) by (destruct (bf_cases _ Hbf) as [-> | [-> | [-> | ->]]]; cbn; tauto).
  specialize (Hall Hin H ltac:(apply zseq_in; cbn; lia)). cbv zeta in *.
  apply andb_true_iff in Hall. destruct Hall as (E1 & E2). split; apply Z.eqb_eq; assumption.
Qed.

(* emit writes the node values of the non-skipped nodes *)
Definition nodeval' (n : node) : list Z :=
  let '(b, _, ty) := n in if ty =? 0 then [b] else if ty =? 1 then [0] else [].

Lemma emit_fold bf : forall l o, emit bf l o = fold_left (wr bf) (flat_map nodeval' l) o.
Proof.
  induction l as [|[[b p] ty] l IH]; intros o; cbn [emit flat_map]; [reflexivity|].
  rewrite fold_left_app, IH. unfold nodeval'. destruct (ty =? 0); [reflexivity|]. destruct (ty =? 1); reflexivity.
Qed.

(* tree_height_for *)
Lemma thf_loop_spec lg : 0 < lg -> forall fuel h m, 0 <= m < 2 ^ (Z.of_nat fuel - 1) ->
  let Hh := thf_loop fuel lg h m in
  h < Hh /\ m < 2 ^ (lg * (Hh - h)) /\ (Hh = h + 1 \/ 2 ^ (lg * (Hh - h - 1)) <= m).
Proof.
  intros Hlg. induction fuel as [|f IH]; intros h m Hm; cbv zeta.
  - exfalso. change (Z.of_nat 0 - 1) with (-1) in Hm. rewrite Z.pow_neg_r in Hm; lia.
  - cbn [thf_loop]. rewrite Z.shiftr_div_pow2 by lia.
    assert (Hp : 0 < 2 ^ lg) by (apply Z.pow_pos_nonneg; lia).
    assert (Hp2 : 2 <= 2 ^ lg) by (change 2 with (2 ^ 1) at 1; apply Z.pow_le_mono_r; lia).
    destruct (Z.eqb_spec (m / 2 ^ lg) 0) as [E|NE].
    + split; [lia|]. replace (h + 1 - h) with 1 by lia. rewrite Z.mul_1_r. split; [|left; reflexivity].
      apply Z.div_small_iff in E; lia.
    + assert (Hm' : 0 <= m / 2 ^ lg < 2 ^ (Z.of_nat f - 1)).
      { split; [apply Z.div_pos; lia|]. apply Z.div_lt_upper_bound; [lia|].
        destruct f as [|f'].
        - change (Z.of_nat 1 - 1) with 0 in Hm. rewrite Z.pow_0_r in Hm. assert (m = 0) by lia. subst m.
          rewrite Z.div_0_l in NE by lia. contradiction.
        - replace (Z.of_nat (S (S f')) - 1) with (Z.of_nat (S f') - 1 + 1) in Hm by lia.
          rewrite Z.pow_add_r in Hm by lia. change (2 ^ 1) with 2 in Hm. nia. }
      specialize (IH (h + 1) (m / 2 ^ lg) Hm'). cbv zeta in IH.
      set (Hh := thf_loop f lg (h + 1) (m / 2 ^ lg)) in *. destruct IH as (I1 & I2 & I3).
      split; [lia|].
      replace (lg * (Hh - h)) with (lg + lg * (Hh - (h + 1))) by lia.
      rewrite Z.pow_add_r by nia.
      assert (0 < 2 ^ (lg * (Hh - (h + 1)))) by (apply Z.pow_pos_nonneg; nia).
      split; [nia|]. right.
      destruct I3 as [E|I3].
      * replace (Hh - h - 1) with 1 by lia. rewrite Z.mul_1_r. nia.
      * replace (lg * (Hh - h - 1)) with (lg + lg * (Hh - (h + 1) - 1)) by lia. rewrite Z.pow_add_r by nia. nia.
Qed.

Lemma bf_pow_lg bf e : bf_valid bf = true -> 0 <= e -> bf ^ e = 2 ^ (node_size_log2 bf * e).
Proof.
  intros Hbf He. destruct (bf_cases _ Hbf) as [-> | [-> | [-> | ->]]]; unfold node_size_log2; cbn [Z.eqb Pos.eqb].
  - f_equal. lia.
  - change 4 with (2 ^ 2). rewrite <- Z.pow_mul_r by lia. reflexivity.
  - change 8 with (2 ^ 3). rewrite <- Z.pow_mul_r by lia. reflexivity.
  - change 32 with (2 ^ 5). rewrite <- Z.pow_mul_r by lia. reflexivity.
Qed.

Lemma tree_height_spec bf m : bf_valid bf = true -> 0 <= m < U32 ->
  let H := tree_height_for bf m in
  1 <= H /\ m < bf ^ H /\ (H = 1 \/ bf ^ (H - 1) <= m).
Proof.
  intros Hbf Hm. cbv zeta. unfold tree_height_for.
  assert (Hlg : 0 < node_size_log2 bf) by (destruct (bf_cases _ Hbf) as [-> | [-> | [-> | ->]]]; reflexivity).
  pose proof (thf_loop_spec (node_size_log2 bf) Hlg 33 0 m) as Hs.
  change (Z.of_nat 33 - 1) with 32 in Hs. specialize (Hs Hm). cbv zeta in Hs.
  set (H := thf_loop 33 (node_size_log2 bf) 0 m) in *. destruct Hs as (I1 & I2 & I3).
  replace (H - 0) with H in * by lia. replace (H - 0 - 1) with (H - 1) in * by lia.
  rewrite (bf_pow_lg bf H Hbf) by lia. rewrite (bf_pow_lg bf (H - 1) Hbf) by lia.
  split; [lia|]. split; [assumption|]. destruct I3; [left; lia | right; assumption].
Qed.

Lemma tree_height_max bf m : bf_valid bf = true -> 0 <= m < U32 ->
  bf = 2 \/ tree_height_for bf m <= max_height bf.
Proof.
  intros Hbf Hm. destruct (tree_height_spec bf m Hbf Hm) as (H1 & H2 & H3).
  set (H := tree_height_for bf m) in *.
  destruct (bf_cases _ Hbf) as [E | [E | [E | E]]]; [left; assumption | right | right | right];
    rewrite E in *; unfold max_height; cbn [Z.eqb Pos.eqb]; (destruct H3 as [H3|H3]; [lia|]).
  - destruct (Z_le_gt_dec H 16) as [Hle|Hgt]; [exact Hle | exfalso].
    assert (4 ^ 16 <= 4 ^ (H - 1)) by (apply Z.pow_le_mono_r; lia). change (4 ^ 16) with U32 in *. lia.
  - destruct (Z_le_gt_dec H 11) as [Hle|Hgt]; [exact Hle | exfalso].
    assert (8 ^ 11 <= 8 ^ (H - 1)) by (apply Z.pow_le_mono_r; lia). change (8 ^ 11) with 8589934592 in *. unfold U32 in *. lia.
  - destruct (Z_le_gt_dec H 7) as [Hle|Hgt]; [exact Hle | exfalso].
    assert (32 ^ 7 <= 32 ^ (H - 1)) by (apply Z.pow_le_mono_r; lia). change (32 ^ 7) with 34359738368 in *. unfold U32 in *. lia.
Qed.
