From Coq Require Import ZArith List Bool Lia.
From FV Require Import Lib.RustInt C14.SbsModel.
Import ListNotations.
Open Scope Z_scope.
Lemma placeholder : True. Proof. exact I. Qed.
