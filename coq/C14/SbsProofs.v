(* C14 (codec half) — proofs about coq/C14/SbsModel.v.
   Part 1: the input bit stream as a list of nodes; abstract decoder loop; no panic, fuel sufficient.
   Part 2: agreement with the specification's algorithm (SbsSpec.v).
   Part 3: round trip (SbsRoundtrip.v). *)
From Coq Require Import ZArith List Bool Lia Arith PeanoNat ZifyNat.
From FV Require Import Lib.RustInt C14.SbsModel.
Import ListNotations.
Open Scope Z_scope.
Ltac Zify.zify_post_hook ::= Z.to_euclidean_division_equations.

(* ------------------------------------------------------------------------------------------ *)
(* branch factors *)
Lemma bf_cases bf : bf_valid bf = true -> bf = 2 \/ bf = 4 \/ bf = 8 \/ bf = 32.
Proof. unfold bf_valid. lia. Qed.

Lemma bf_of_bits_valid c : bf_valid (bf_of_bits c) = true.
Proof. unfold bf_of_bits. repeat (destruct (_ =? _)); reflexivity. Qed.

(* ------------------------------------------------------------------------------------------ *)
(* the stream of nodes of a tree-data byte list, by recursion on the bytes *)
Definition n2 (b si : Z) : Z := Z.shiftr (Z.land b (Z.shiftl 3 si)) si.
Definition n4 (b si : Z) : Z := Z.shiftr (Z.land b (Z.shiftl 15 si)) si.
Fixpoint nodes32 (l : list Z) : list Z :=
  match l with
  | b1 :: b2 :: b3 :: b4 :: r =>
      Z.lor (Z.lor (Z.lor b1 (Z.shiftl b2 8)) (Z.shiftl b3 16)) (Z.shiftl b4 24) :: nodes32 r
  | _ => []
  end.
Definition all_nodes (bf : Z) (tree : list Z) : list Z :=
  if bf =? 2 then flat_map (fun b => [n2 b 0; n2 b 2; n2 b 4; n2 b 6]) tree
  else if bf =? 4 then flat_map (fun b => [n4 b 0; n4 b 4]) tree
  else if bf =? 8 then tree
  else nodes32 tree.

(* stream state after reading i nodes *)
Definition st_of_index (bf : Z) (i : nat) : ibs :=
  if bf =? 2 then (S (i / 4), Z.of_nat (2 * (i mod 4)))
  else if bf =? 4 then (S (i / 2), Z.of_nat (4 * (i mod 2)))
  else if bf =? 8 then (S i, 0)
  else (S (4 * i), 0).

Lemma st_of_index_0 bf : st_of_index bf 0 = ibs_init.
Proof. unfold st_of_index, ibs_init. repeat (destruct (_ =? _)); reflexivity. Qed.

Lemma nth_error_nil' {A} n : @nth_error A [] n = None.
Proof. destruct n; reflexivity. Qed.

Lemma nth_flat_map4 {A B} (f0 f1 f2 f3 : A -> B) l : forall i,
  nth_error (flat_map (fun b => [f0 b; f1 b; f2 b; f3 b]) l) i =
  match nth_error l (i / 4) with
  | Some b => Some (match (i mod 4)%nat with 0%nat => f0 b | 1%nat => f1 b | 2%nat => f2 b | _ => f3 b end)
  | None => None
  end.
Proof.
  induction l as [|b r IH]; intros i.
  - cbn [flat_map]. rewrite !nth_error_nil'. reflexivity.
  - destruct i as [|[|[|[|i]]]]; try reflexivity.
    cbn [flat_map app nth_error]. rewrite IH.
    replace (S (S (S (S i))) / 4)%nat with (S (i / 4)) by lia.
    replace (S (S (S (S i))) mod 4)%nat with (i mod 4)%nat by lia.
    reflexivity.
Qed.

Lemma nth_flat_map2 {A B} (f0 f1 : A -> B) l : forall i,
  nth_error (flat_map (fun b => [f0 b; f1 b]) l) i =
  match nth_error l (i / 2) with
  | Some b => Some (match (i mod 2)%nat with 0%nat => f0 b | _ => f1 b end)
  | None => None
  end.
Proof.
  induction l as [|b r IH]; intros i.
  - cbn [flat_map]. rewrite !nth_error_nil'. reflexivity.
  - destruct i as [|[|i]]; try reflexivity.
    cbn [flat_map app nth_error]. rewrite IH.
    replace (S (S i) / 2)%nat with (S (i / 2)) by lia.
    replace (S (S i) mod 2)%nat with (i mod 2)%nat by lia.
    reflexivity.
Qed.

Lemma nth_nodes32 l : forall i,
  nth_error (nodes32 l) i =
  match nth_error l (4 * i), nth_error l (4 * i + 1), nth_error l (4 * i + 2), nth_error l (4 * i + 3) with
  | Some b1, Some b2, Some b3, Some b4 =>
      Some (Z.lor (Z.lor (Z.lor b1 (Z.shiftl b2 8)) (Z.shiftl b3 16)) (Z.shiftl b4 24))
  | _, _, _, _ => None
  end.
Proof.
  intros i. revert l. induction i as [|i IH]; intros l.
  - destruct l as [|b1 [|b2 [|b3 [|b4 r]]]]; reflexivity.
  - destruct l as [|b1 [|b2 [|b3 [|b4 r]]]].
    + cbn. reflexivity.
    + cbn [nodes32]. replace (4 * S i)%nat with (S (S (S (S (4 * i))))) by lia. cbn. destruct (4 * i)%nat; reflexivity.
    + cbn [nodes32]. replace (4 * S i)%nat with (S (S (S (S (4 * i))))) by lia. cbn. destruct (4 * i)%nat; reflexivity.
    + cbn [nodes32]. replace (4 * S i)%nat with (S (S (S (S (4 * i))))) by lia. cbn. destruct (4 * i)%nat; reflexivity.
    + cbn [nodes32 nth_error]. rewrite IH.
      replace (4 * S i)%nat with (S (S (S (S (4 * i))))) by lia. reflexivity.
Qed.

Lemma succ_div_mod4 i :
  ((i mod 4 = 3 /\ S i / 4 = S (i / 4) /\ S i mod 4 = 0) \/
   (i mod 4 < 3 /\ S i / 4 = i / 4 /\ S i mod 4 = S (i mod 4)))%nat.
Proof. lia. Qed.

Lemma succ_div_mod2 i :
  ((i mod 2 = 1 /\ S i / 2 = S (i / 2) /\ S i mod 2 = 0) \/
   (i mod 2 = 0 /\ S i / 2 = i / 2 /\ S i mod 2 = 1))%nat.
Proof. lia. Qed.

(* reading the (i+1)-th node *)
Lemma ibs_next_index bf h tree i : bf_valid bf = true ->
  ibs_next bf (h :: tree) (st_of_index bf i) =
  match nth_error (all_nodes bf tree) i with
  | Some v => Some (v, st_of_index bf (S i))
  | None => None
  end.
Proof.
  intros Hbf. destruct (bf_cases _ Hbf) as [-> | [-> | [-> | ->]]]; unfold st_of_index, all_nodes, ibs_next;
    cbn [Z.eqb Pos.eqb orb nth_error].
  - rewrite nth_flat_map4. destruct (nth_error tree (i / 4)) as [b|]; [|reflexivity].
    pose proof (Nat.mod_upper_bound i 4 ltac:(lia)) as Hm.
    destruct (succ_div_mod4 i) as [(E & E1 & E2) | (E & E1 & E2)]; rewrite E1, E2.
    + rewrite E. reflexivity.
    + destruct (i mod 4)%nat as [|[|[|k]]]; try lia; reflexivity.
  - rewrite nth_flat_map2. destruct (nth_error tree (i / 2)) as [b|]; [|reflexivity].
    destruct (succ_div_mod2 i) as [(E & E1 & E2) | (E & E1 & E2)]; rewrite E1, E2, E; reflexivity.
  - destruct (nth_error tree i); reflexivity.
  - rewrite nth_nodes32.
    replace (S (4 * i) + 1)%nat with (S (4 * i + 1)) by lia.
    replace (S (4 * i) + 2)%nat with (S (4 * i + 2)) by lia.
    replace (S (4 * i) + 3)%nat with (S (4 * i + 3)) by lia.
    cbn [nth_error].
    destruct (nth_error tree (4 * i)); [|reflexivity].
    destruct (nth_error tree (4 * i + 1)); [|reflexivity].
    destruct (nth_error tree (4 * i + 2)); [|reflexivity].
    destruct (nth_error tree (4 * i + 3)); [|reflexivity].
    do 3 f_equal. lia.
Qed.

(* ------------------------------------------------------------------------------------------ *)
(* abstract decoder loop over the node list; i = absolute index of the next node *)
Inductive ares := ADone (i : nat) (q out : list (Z * Z)) | AErr | APanic.

Fixpoint aloop (bf H bias maxv : Z) (ns : list Z) (i : nat) (q out : list (Z * Z)) : ares :=
  match q with
  | [] => ADone i [] out
  | (start, depth) :: q' =>
      match ns with
      | [] => AErr
      | bits :: ns' =>
          if bits =? 0 then
            match filled_range bf H bias maxv start depth with
            | None => APanic
            | Some None => aloop bf H bias maxv ns' (S i) q' out
            | Some (Some r) => aloop bf H bias maxv ns' (S i) q' (r :: out)
            end
          else if H <? depth then APanic else
          match pow_u64 bf (H - depth) with
          | None => APanic
          | Some nns =>
              match bits_loop (set_bits bits) H bias maxv start depth nns q' out with
              | None => APanic
              | Some (true, q2, out2) => ADone (S i) q2 out2
              | Some (false, q2, out2) => aloop bf H bias maxv ns' (S i) q2 out2
              end
          end
      end
  end.

Definition lift (bf : Z) (r : ares) : lres :=
  match r with
  | ADone i q out => LDone (st_of_index bf i) q out
  | AErr => LErr
  | APanic => LPanic
  end.

Lemma dec_loop_aloop bf h tree H bias maxv : bf_valid bf = true ->
  forall i fuel q out,
  (length (all_nodes bf tree) - i < fuel)%nat ->
  dec_loop fuel bf (h :: tree) H bias maxv (st_of_index bf i) q out =
  lift bf (aloop bf H bias maxv (skipn i (all_nodes bf tree)) i q out).
Proof.
  intros Hbf i fuel. revert i. induction fuel as [|f IH]; intros i q out Hf; [lia|].
  destruct q as [|[start depth] q'].
  - cbn. destruct (skipn i _); reflexivity.
  - cbn [dec_loop]. rewrite ibs_next_index by assumption.
    destruct (nth_error (all_nodes bf tree) i) as [v|] eqn:En.
    + assert (Hs : skipn i (all_nodes bf tree) = v :: skipn (S i) (all_nodes bf tree)).
      { clear - En. revert i En. induction (all_nodes bf tree) as [|a l IHl]; intros [|i] En; cbn in *; try discriminate.
        - congruence. - apply IHl; assumption. }
      rewrite Hs. cbn [aloop].
      assert (Hi : (i < length (all_nodes bf tree))%nat) by (apply nth_error_Some; congruence).
      assert (Hf' : (length (all_nodes bf tree) - S i < f)%nat) by lia.
      destruct (v =? 0).
      * destruct (filled_range bf H bias maxv start depth) as [[r|]|]; cbn [lift]; try reflexivity; apply IH; assumption.
      * destruct (H <? depth); [reflexivity|].
        destruct (pow_u64 bf (H - depth)) as [nns|]; [|reflexivity].
        destruct (bits_loop _ _ _ _ _ _ _ _ _) as [[[[|] q2] out2]|]; try reflexivity.
        apply IH; assumption.
    + assert (Hs : skipn i (all_nodes bf tree) = []).
      { apply nth_error_None in En. apply skipn_all2. assumption. }
      rewrite Hs. reflexivity.
Qed.

Lemma all_nodes_length bf tree : bf_valid bf = true ->
  (Z.of_nat (length (all_nodes bf tree)) * bf <= 8 * Z.of_nat (length tree)).
Proof.
  intros Hbf. destruct (bf_cases _ Hbf) as [-> | [-> | [-> | ->]]]; unfold all_nodes; cbn [Z.eqb Pos.eqb].
  - induction tree; cbn [flat_map length app] in *; lia.
  - induction tree; cbn [flat_map length app] in *; lia.
  - lia.
  - assert (G : forall n l, (length l <= n)%nat -> Z.of_nat (length (nodes32 l)) * 32 <= 8 * Z.of_nat (length l)).
    { induction n; intros l Hl.
      - destruct l; cbn in *; lia.
      - destruct l as [|b1 [|b2 [|b3 [|b4 r]]]]; cbn [nodes32 length] in *; try lia.
        specialize (IHn r ltac:(lia)). lia. }
    apply (G (length tree)). lia.
Qed.

(* ------------------------------------------------------------------------------------------ *)
(* node values are below 2^bf when the data are bytes *)
Definition is_byteb (b : Z) : bool := (0 <=? b) && (b <? 256).

Lemma land_shr_eq b k si : 0 <= si -> 0 <= k ->
  Z.shiftr (Z.land b (Z.shiftl (Z.ones k) si)) si = (Z.shiftr b si) mod 2 ^ k.
Proof.
  intros Hsi Hk.
  rewrite Z.shiftr_land. rewrite Z.shiftr_shiftl_l by lia. rewrite Z.sub_diag, Z.shiftl_0_r.
  apply Z.land_ones. assumption.
Qed.

Lemma land_shr_bound b k si : 0 <= si -> 0 <= k ->
  0 <= Z.shiftr (Z.land b (Z.shiftl (Z.ones k) si)) si < 2 ^ k.
Proof.
  intros Hsi Hk. rewrite land_shr_eq by assumption. apply Z.mod_pos_bound. apply Z.pow_pos_nonneg; lia.
Qed.

Lemma all_nodes_bound bf tree : bf_valid bf = true -> Forall is_byte tree ->
  Forall (fun v => 0 <= v < 2 ^ bf) (all_nodes bf tree).
Proof.
  intros Hbf HF. destruct (bf_cases _ Hbf) as [-> | [-> | [-> | ->]]]; unfold all_nodes; cbn [Z.eqb Pos.eqb].
  - induction HF as [|b r Hb _ IH]; cbn [flat_map app]; [constructor|].
    unfold is_byte in Hb.
    repeat constructor; try assumption; unfold n2;
      match goal with |- context [Z.shiftl 3 ?s] => pose proof (land_shr_bound b 2 s ltac:(lia) ltac:(lia)) as Hx; change (Z.ones 2) with 3 in Hx; lia end.
  - induction HF as [|b r Hb _ IH]; cbn [flat_map app]; [constructor|].
    unfold is_byte in Hb.
    repeat constructor; try assumption; unfold n4;
      match goal with |- context [Z.shiftl 15 ?s] => pose proof (land_shr_bound b 4 s ltac:(lia) ltac:(lia)) as Hx; change (Z.ones 4) with 15 in Hx; lia end.
  - eapply Forall_impl; [|exact HF]. unfold is_byte. intros a Ha. change (2 ^ 8) with 256. lia.
  - assert (G : forall n l, (length l <= n)%nat -> Forall is_byte l -> Forall (fun v => 0 <= v < 2 ^ 32) (nodes32 l)).
    { induction n; intros l Hl Hby.
      - destruct l; cbn in *; [constructor | lia].
      - destruct l as [|b1 [|b2 [|b3 [|b4 r]]]]; cbn [nodes32 length] in *; try constructor.
        + inversion Hby as [|? ? H1 Hby1]; subst. inversion Hby1 as [|? ? H2 Hby2]; subst.
          inversion Hby2 as [|? ? H3 Hby3]; subst. inversion Hby3 as [|? ? H4 Hby4]; subst.
          unfold is_byte in *.
          rewrite !Z.shiftl_mul_pow2 by lia.
          assert (E : forall x y, 0 <= x -> 0 <= y -> 0 <= Z.lor x y < 2 ^ 32 <-> (0 <= x < 2 ^ 32 /\ 0 <= y < 2 ^ 32)).
          { intros x y Hx Hy. split.
            - intros [_ Hl2]. assert (0 <= Z.lor x y) by (apply Z.lor_nonneg; lia).
              destruct (Z.eq_dec (Z.lor x y) 0) as [E0|NE].
              + apply Z.lor_eq_0_iff in E0. lia.
              + apply Z.log2_lt_pow2 in Hl2; [|lia]. rewrite Z.log2_lor in Hl2 by lia.
                split; split; try lia.
                * destruct (Z.eq_dec x 0); [lia|]. apply Z.log2_lt_pow2; lia.
                * destruct (Z.eq_dec y 0); [lia|]. apply Z.log2_lt_pow2; lia.
            - intros [[_ Hx2] [_ Hy2]]. split; [apply Z.lor_nonneg; lia|].
              destruct (Z.eq_dec (Z.lor x y) 0) as [E0|NE]; [lia|].
              assert (0 <= Z.lor x y) by (apply Z.lor_nonneg; lia).
              apply Z.log2_lt_pow2; [lia|]. rewrite Z.log2_lor by lia.
              destruct (Z.eq_dec x 0) as [->|]; destruct (Z.eq_dec y 0) as [->|]; cbn [Z.log2]; try lia.
              * rewrite Z.max_r by (apply Z.log2_nonneg). apply Z.log2_lt_pow2; lia.
              * rewrite Z.max_l by (apply Z.log2_nonneg). apply Z.log2_lt_pow2; lia.
              * apply Z.max_lub_lt; apply Z.log2_lt_pow2; lia. }
          apply E; [apply Z.lor_nonneg; split; [apply Z.lor_nonneg|]; lia | lia |].
          split; [|lia].
          apply E; [apply Z.lor_nonneg; lia | lia |].
          split; [|lia].
          apply E; lia.
        + apply IHn; [lia|]. inversion Hby as [|? ? _ Hby1]; subst. inversion Hby1 as [|? ? _ Hby2]; subst.
          inversion Hby2 as [|? ? _ Hby3]; subst. inversion Hby3; subst. assumption. }
    apply (G (length tree)); [lia | assumption].
Qed.

(* ------------------------------------------------------------------------------------------ *)
(* set_bits *)
Lemma set_bits_unfold v : set_bits v = set_bits_from 32 0 v.
Proof. reflexivity. Qed.

Lemma set_bits_from_in n : forall i v j, In j (set_bits_from n i v) -> i <= j < i + Z.of_nat n /\ Z.testbit v j = true.
Proof.
  induction n as [|n IH]; intros i v j Hin; cbn [set_bits_from] in Hin; [contradiction|].
  destruct (Z.testbit v i) eqn:E.
  - destruct Hin as [<- | Hin]; [split; [lia | assumption]|]. apply IH in Hin. destruct Hin; split; [lia | assumption].
  - apply IH in Hin. destruct Hin; split; [lia | assumption].
Qed.

Lemma testbit_small v bf j : 0 <= v < 2 ^ bf -> bf <= j -> Z.testbit v j = false.
Proof.
  intros Hv Hj. destruct (Z.eq_dec v 0) as [->|]; [apply Z.bits_0|].
  apply Z.bits_above_log2; [lia|].
  assert (Z.log2 v < bf) by (apply Z.log2_lt_pow2; lia). lia.
Qed.

Lemma set_bits_in v bf j : 0 <= bf -> 0 <= v < 2 ^ bf -> In j (set_bits v) -> 0 <= j < bf /\ j < 32.
Proof.
  intros Hbf Hv Hin. rewrite set_bits_unfold in Hin. apply set_bits_from_in in Hin. destruct Hin as [Hr Ht].
  change (Z.of_nat 32) with 32 in Hr.
  split; [|lia]. split; [lia|].
  destruct (Z_lt_le_dec j bf); [assumption|].
  rewrite (testbit_small v bf j) in Ht by lia. discriminate.
Qed.

Lemma set_bits_from_app a : forall b i v,
  set_bits_from (a + b) i v = set_bits_from a i v ++ set_bits_from b (i + Z.of_nat a) v.
Proof.
  induction a as [|a IH]; intros b i v.
  - cbn. f_equal. lia.
  - cbn [Nat.add set_bits_from]. rewrite IH. replace (i + 1 + Z.of_nat a) with (i + Z.of_nat (S a)) by lia.
    destruct (Z.testbit v i); reflexivity.
Qed.

Lemma set_bits_from_nil n : forall i v, (forall j, i <= j -> Z.testbit v j = false) -> set_bits_from n i v = [].
Proof.
  induction n as [|n IH]; intros i v Hz; cbn [set_bits_from]; [reflexivity|].
  rewrite Hz by lia. apply IH. intros j Hj. apply Hz. lia.
Qed.

Lemma set_bits_from_length n : forall i v, (length (set_bits_from n i v) <= n)%nat.
Proof.
  induction n as [|n IH]; intros i v; cbn [set_bits_from length]; [lia|].
  specialize (IH (i + 1) v). destruct (Z.testbit v i); cbn [length]; lia.
Qed.

Lemma set_bits_trunc v bf : 0 <= bf <= 32 -> 0 <= v < 2 ^ bf -> set_bits v = set_bits_from (Z.to_nat bf) 0 v.
Proof.
  intros Hbf Hv. rewrite set_bits_unfold.
  replace 32%nat with (Z.to_nat bf + (32 - Z.to_nat bf))%nat by lia.
  rewrite set_bits_from_app. rewrite (set_bits_from_nil _ (0 + _)); [apply app_nil_r|].
  intros j Hj. apply (testbit_small v bf); lia.
Qed.

Lemma set_bits_length v bf : 0 <= bf <= 32 -> 0 <= v < 2 ^ bf -> Z.of_nat (length (set_bits v)) <= bf.
Proof.
  intros Hbf Hv. rewrite (set_bits_trunc v bf) by assumption.
  pose proof (set_bits_from_length (Z.to_nat bf) 0 v). lia.
Qed.

(* ------------------------------------------------------------------------------------------ *)
(* powers of the branch factor *)
Lemma bf_pow_max bf H : bf_valid bf = true -> 0 <= H <= max_height bf -> 0 < bf ^ H <= 2 ^ 35.
Proof.
  intros Hbf HH. split; [apply Z.pow_pos_nonneg; destruct (bf_cases _ Hbf) as [-> | [-> | [-> | ->]]]; lia|].
  destruct (bf_cases _ Hbf) as [-> | [-> | [-> | ->]]]; unfold max_height in HH; cbn [Z.eqb Pos.eqb] in HH.
  - transitivity (2 ^ 31); [apply Z.pow_le_mono_r; lia | apply Z.pow_le_mono_r; lia].
  - transitivity (4 ^ 16); [apply Z.pow_le_mono_r; lia | vm_compute; discriminate].
  - transitivity (8 ^ 11); [apply Z.pow_le_mono_r; lia | vm_compute; discriminate].
  - transitivity (32 ^ 7); [apply Z.pow_le_mono_r; lia | vm_compute; discriminate].
Qed.

Lemma bf_ge2 bf : bf_valid bf = true -> 2 <= bf <= 32.
Proof. intros Hbf. destruct (bf_cases _ Hbf) as [-> | [-> | [-> | ->]]]; lia. Qed.

Lemma pow_u64_some bf e : 0 <= bf ^ e < U64 -> pow_u64 bf e = Some (bf ^ e).
Proof. intros He. unfold pow_u64. cbv zeta. destruct (Z.ltb_spec (bf ^ e) U64); [reflexivity | lia]. Qed.

(* queue entries are sub-intervals of [0, bf^H) at depths 1..H *)
Definition qwf (bf H : Z) (e : Z * Z) : Prop :=
  1 <= snd e <= H /\ 0 <= fst e /\ fst e + bf ^ (H - snd e + 1) <= bf ^ H.

Lemma pow_split bf e : 2 <= bf -> 0 <= e -> bf ^ (e + 1) = bf * bf ^ e.
Proof. intros. rewrite Z.pow_add_r by lia. rewrite Z.pow_1_r. lia. Qed.

Lemma bits_loop_inner H bias maxv start depth nns : depth <> H ->
  forall idxs q out,
  (forall j, In j idxs -> 0 <= j /\ j * nns < U64 /\ start + j * nns < U64) ->
  bits_loop idxs H bias maxv start depth nns q out =
  Some (false, q ++ map (fun j => (start + j * nns, depth + 1)) idxs, out).
Proof.
  intros Hd. induction idxs as [|j r IH]; intros q out Hj; cbn [bits_loop map].
  - rewrite app_nil_r. reflexivity.
  - destruct (Z.eqb_spec depth H); [contradiction|].
    destruct (Hj j (or_introl eq_refl)) as (_ & H1 & H2).
    destruct (Z.leb_spec U64 (j * nns)); [lia|].
    destruct (Z.leb_spec U64 (start + j * nns)); [lia|].
    rewrite IH by (intros; apply Hj; right; assumption).
    rewrite <- app_assoc. reflexivity.
Qed.

Lemma bits_loop_leaf H bias maxv start nns : forall idxs q out,
  exists b out', bits_loop idxs H bias maxv start H nns q out = Some (b, q, out').
Proof.
  induction idxs as [|j r IH]; intros q out; cbn [bits_loop].
  - eauto.
  - rewrite Z.eqb_refl. destruct (clip_start start j bias maxv); [apply IH | eauto].
Qed.

Lemma filled_range_ok bf H bias maxv start depth : bf_valid bf = true -> 0 <= H <= max_height bf ->
  qwf bf H (start, depth) -> filled_range bf H bias maxv start depth <> None.
Proof.
  intros Hbf HH (Hd & Hs & He). cbn [fst snd] in *. unfold filled_range.
  destruct (Z.ltb_spec H depth); [lia|].
  pose proof (bf_pow_max bf H Hbf HH) as HP.
  assert (HP2 : 0 < bf ^ (H - depth + 1)) by (apply Z.pow_pos_nonneg; pose proof (bf_ge2 bf Hbf); lia).
  assert (2 ^ 35 < U64) by (vm_compute; reflexivity).
  rewrite pow_u64_some by lia.
  destruct (clip_start start 0 bias maxv); [|discriminate].
  destruct (Z.leb_spec U64 (start + bf ^ (H - depth + 1))); [lia | discriminate].
Qed.

Lemma aloop_safe bf H bias maxv : bf_valid bf = true -> 1 <= H <= max_height bf ->
  forall ns, Forall (fun v => 0 <= v < 2 ^ bf) ns ->
  forall i q out, Forall (qwf bf H) q ->
  match aloop bf H bias maxv ns i q out with
  | APanic => False
  | AErr => True
  | ADone i' q' _ => (i <= i' <= i + length ns)%nat /\
                     Z.of_nat (length q') + bf * Z.of_nat i <= Z.of_nat (length q) + bf * Z.of_nat i' /\
                     Forall (qwf bf H) q'
  end.
Proof.
  intros Hbf HH ns. pose proof (bf_ge2 bf Hbf) as Hb2.
  pose proof (bf_pow_max bf H Hbf ltac:(lia)) as HP.
  assert (HU : 2 ^ 35 < U64) by (vm_compute; reflexivity).
  induction ns as [|v ns IH]; intros Hns i q out Hq.
  - destruct q as [|[s d] q]; cbn; [repeat split; try lia; constructor | exact I].
  - inversion Hns as [|? ? Hv Hns']; subst.
    destruct q as [|[s d] q]; cbn [aloop]; [repeat split; try lia; constructor|].
    inversion Hq as [|? ? Hsd Hq']; subst.
    destruct (v =? 0).
    + pose proof (filled_range_ok bf H bias maxv s d Hbf ltac:(lia) Hsd) as Hfr.
      destruct (filled_range bf H bias maxv s d) as [[r|]|]; [| |congruence].
      * specialize (IH Hns' (S i) q (r :: out) Hq').
        destruct (aloop _ _ _ _ ns (S i) q (r :: out)); try assumption.
        cbn [length] in *. destruct IH as (? & ? & ?). repeat split; try assumption; lia.
      * specialize (IH Hns' (S i) q out Hq').
        destruct (aloop _ _ _ _ ns (S i) q out); try assumption.
        cbn [length] in *. destruct IH as (? & ? & ?). repeat split; try assumption; lia.
    + destruct Hsd as (Hd & Hs & He). cbn [fst snd] in *.
      destruct (Z.ltb_spec H d); [lia|].
      assert (HPd : 0 < bf ^ (H - d)) by (apply Z.pow_pos_nonneg; lia).
      assert (HPs : bf ^ (H - d + 1) = bf * bf ^ (H - d)) by (apply pow_split; lia).
      rewrite pow_u64_some by nia.
      destruct (Z.eq_dec d H) as [->|Hne].
      * destruct (bits_loop_leaf H bias maxv s (bf ^ (H - H)) (set_bits v) q out) as (b & out' & E).
        rewrite E. destruct b.
        -- cbn [length]. repeat split; try lia. assumption.
        -- specialize (IH Hns' (S i) q out' Hq').
           destruct (aloop _ _ _ _ ns (S i) q out'); try assumption.
           cbn [length] in *. destruct IH as (? & ? & ?). repeat split; try assumption; lia.
      * assert (Hj : forall j, In j (set_bits v) -> 0 <= j < bf).
        { intros j Hin. apply (set_bits_in v bf j) in Hin; lia. }
        rewrite bits_loop_inner; [|assumption|].
        2:{ intros j Hin. specialize (Hj j Hin). nia. }
        assert (Hq2 : Forall (qwf bf H) (q ++ map (fun j => (s + j * bf ^ (H - d), d + 1)) (set_bits v))).
        { apply Forall_app. split; [assumption|]. apply Forall_forall. intros e Hin.
          apply in_map_iff in Hin. destruct Hin as (j & <- & Hin). specialize (Hj j Hin).
          unfold qwf. cbn [fst snd]. replace (H - (d + 1) + 1) with (H - d) by lia. nia. }
        specialize (IH Hns' (S i) _ out Hq2).
        destruct (aloop _ _ _ _ ns (S i) _ out); try assumption.
        destruct IH as (? & Hl & ?). repeat split; try assumption; try (cbn [length]; lia).
        rewrite app_length, map_length in Hl. cbn [length].
        pose proof (set_bits_length v bf ltac:(lia) Hv). lia.
Qed.


(* ------------------------------------------------------------------------------------------ *)
(* counting: nodes read and queue length are bounded by the size of the full tree, and at an early
   break the queue is short relative to the nodes read.  Together they exclude the u32 overflow of
   [skip_nodes] without any bound on the input length. *)
Fixpoint sumw (bf H : Z) (q : list (Z * Z)) : Z :=
  match q with [] => 0 | e :: r => bf ^ (H - snd e + 1) - 1 + sumw bf H r end.

Lemma sumw_app bf H a b : sumw bf H (a ++ b) = sumw bf H a + sumw bf H b.
Proof. induction a as [|e a IH]; cbn [app sumw]; [reflexivity|]. rewrite IH. lia. Qed.

Lemma sumw_children bf H (f : Z -> Z) d l :
  sumw bf H (map (fun j => (f j, d)) l) = Z.of_nat (length l) * (bf ^ (H - d + 1) - 1).
Proof.
  induction l as [|j l IH]; cbn [map sumw length snd]; [reflexivity|].
  rewrite IH. lia.
Qed.

Lemma sumw_ge bf H q : bf_valid bf = true -> Forall (qwf bf H) q -> (bf - 1) * Z.of_nat (length q) <= sumw bf H q.
Proof.
  intros Hbf. pose proof (bf_ge2 bf Hbf). induction 1 as [|[s d] q (Hd & _) _ IH]; cbn [sumw length snd] in *; [lia|].
  assert (bf ^ 1 <= bf ^ (H - d + 1)) by (apply Z.pow_le_mono_r; lia). rewrite Z.pow_1_r in *. lia.
Qed.

Lemma aloop_count bf H bias maxv : bf_valid bf = true -> 1 <= H <= max_height bf ->
  forall ns, Forall (fun v => 0 <= v < 2 ^ bf) ns ->
  forall i q out, Forall (qwf bf H) q ->
  match aloop bf H bias maxv ns i q out with
  | ADone i' q' _ =>
      (bf - 1) * Z.of_nat i' + sumw bf H q' <= (bf - 1) * Z.of_nat i + sumw bf H q /\
      (q' = [] \/ Z.of_nat (length q') + bf + (bf - 1) * Z.of_nat i <= Z.of_nat (length q) + (bf - 1) * Z.of_nat i')
  | _ => True
  end.
Proof.
  intros Hbf HH ns. pose proof (bf_ge2 bf Hbf) as Hb2.
  pose proof (bf_pow_max bf H Hbf ltac:(lia)) as HP.
  assert (HU : 2 ^ 35 < U64) by (vm_compute; reflexivity).
  induction ns as [|v ns IH]; intros Hns i q out Hq.
  - destruct q as [|[s d] q]; cbn; [split; [lia | left; reflexivity] | exact I].
  - inversion Hns as [|? ? Hv Hns']; subst.
    destruct q as [|[s d] q]; cbn [aloop]; [split; [cbn; lia | left; reflexivity]|].
    inversion Hq as [|? ? Hsd Hq']; subst.
    assert (Hstep : forall out2,
      match aloop bf H bias maxv ns (S i) q out2 with
      | ADone i' q' _ =>
          (bf - 1) * Z.of_nat i' + sumw bf H q' <= (bf - 1) * Z.of_nat i + sumw bf H ((s, d) :: q) /\
          (q' = [] \/ Z.of_nat (length q') + bf + (bf - 1) * Z.of_nat i <= Z.of_nat (length ((s, d) :: q)) + (bf - 1) * Z.of_nat i')
      | _ => True
      end).
    { intros out2. specialize (IH Hns' (S i) q out2 Hq').
      destruct (aloop bf H bias maxv ns (S i) q out2); try exact I.
      destruct IH as (I1 & I2). destruct Hsd as (Hd & _). cbn [fst snd] in Hd.
      cbn [sumw length snd].
      assert (bf ^ 1 <= bf ^ (H - d + 1)) by (apply Z.pow_le_mono_r; lia). rewrite Z.pow_1_r in *.
      split; [lia|]. destruct I2 as [->|I2]; [left; reflexivity | right; lia]. }
    destruct (v =? 0).
    + destruct (filled_range bf H bias maxv s d) as [[r|]|]; [apply Hstep | apply Hstep | exact I].
    + destruct Hsd as (Hd & Hs & He). cbn [fst snd] in *.
      destruct (Z.ltb_spec H d); [lia|].
      assert (HPd : 0 < bf ^ (H - d)) by (apply Z.pow_pos_nonneg; lia).
      assert (HPs : bf ^ (H - d + 1) = bf * bf ^ (H - d)) by (apply pow_split; lia).
      rewrite pow_u64_some by nia.
      destruct (Z.eq_dec d H) as [->|Hne].
      * destruct (bits_loop_leaf H bias maxv s (bf ^ (H - H)) (set_bits v) q out) as (b & out' & E).
        rewrite E. destruct b; [|apply Hstep].
        cbn [sumw length snd].
        replace (H - H + 1) with 1 by lia. rewrite Z.pow_1_r. split; [lia | right; lia].
      * assert (Hj : forall j, In j (set_bits v) -> 0 <= j < bf).
        { intros j Hin. apply (set_bits_in v bf j) in Hin; lia. }
        rewrite bits_loop_inner; [|assumption|].
        2:{ intros j Hin. specialize (Hj j Hin). nia. }
        assert (Hq2 : Forall (qwf bf H) (q ++ map (fun j => (s + j * bf ^ (H - d), d + 1)) (set_bits v))).
        { apply Forall_app. split; [assumption|]. apply Forall_forall. intros e Hin.
          apply in_map_iff in Hin. destruct Hin as (j & <- & Hin). specialize (Hj j Hin).
          unfold qwf. cbn [fst snd]. replace (H - (d + 1) + 1) with (H - d) by lia. nia. }
        specialize (IH Hns' (S i) _ out Hq2).
        destruct (aloop _ _ _ _ ns (S i) _ out); try exact I.
        destruct IH as (I1 & I2).
        rewrite sumw_app, sumw_children in I1. rewrite app_length, map_length in I2.
        replace (H - (d + 1) + 1) with (H - d) in I1 by lia.
        pose proof (set_bits_length v bf ltac:(lia) Hv) as Hc.
        cbn [sumw length snd]. rewrite HPs.
        split; [nia|]. destruct I2 as [->|I2]; [left; reflexivity | right; lia].
Qed.

(* no u32 overflow in skip_nodes, whatever the input length *)
Lemma skip_safe bf H i' (q' : list (Z * Z)) : bf_valid bf = true -> 1 <= H <= max_height bf ->
  Forall (qwf bf H) q' ->
  (bf - 1) * Z.of_nat i' + sumw bf H q' <= bf ^ H - 1 ->
  (q' = [] \/ Z.of_nat (length q') + bf <= 1 + (bf - 1) * Z.of_nat i') ->
  Z.of_nat (length q') < U32 /\
  (bf <= 4 -> snd (st_of_index bf i') + Z.of_nat (length q') * bf < U32).
Proof.
  intros Hbf HH Hq Hc1 Hc2. pose proof (sumw_ge bf H q' Hbf Hq) as Hge.
  assert (Hl0 : q' = [] -> length q' = 0%nat) by (intros ->; reflexivity).
  unfold st_of_index, U32.
  destruct (bf_cases _ Hbf) as [E | [E | [E | E]]]; rewrite E in *; unfold max_height in HH; cbn [Z.eqb Pos.eqb snd] in *.
  - assert (2 ^ H <= 2 ^ 31) by (apply Z.pow_le_mono_r; lia). change (2 ^ 31) with 2147483648 in *.
    split; [lia|]. intros _. destruct Hc2 as [Hc2|Hc2]; [rewrite (Hl0 Hc2); lia | lia].
  - assert (4 ^ H <= 4 ^ 16) by (apply Z.pow_le_mono_r; lia). change (4 ^ 16) with 4294967296 in *.
    split; [lia|]. intros _. destruct Hc2 as [Hc2|Hc2]; [rewrite (Hl0 Hc2); lia | lia].
  - assert (8 ^ H <= 8 ^ 11) by (apply Z.pow_le_mono_r; lia). change (8 ^ 11) with 8589934592 in *.
    split; [lia | lia].
  - assert (32 ^ H <= 32 ^ 7) by (apply Z.pow_le_mono_r; lia). change (32 ^ 7) with 34359738368 in *.
    split; [lia | lia].
Qed.

(* ------------------------------------------------------------------------------------------ *)
(* header *)
Lemma header_height_eq h : Z.shiftr (Z.land h 124) 2 = (h / 4) mod 32.
Proof.
  rewrite Z.shiftr_land. change (Z.shiftr 124 2) with (Z.ones 5). rewrite Z.land_ones by lia.
  rewrite Z.shiftr_div_pow2 by lia. reflexivity.
Qed.

Lemma header_height_range h : 0 <= Z.shiftr (Z.land h 124) 2 <= 31.
Proof.
  rewrite header_height_eq. pose proof (Z.mod_pos_bound (h / 4) 32 ltac:(lia)). lia.
Qed.

Theorem decode_total data bias maxv : Forall is_byte data ->
  (exists rs rest, decode data bias maxv = Ok rs rest) \/ decode data bias maxv = Err.
Proof.
  intros Hby. destruct data as [|h tree]; [right; reflexivity|].
  unfold decode. set (bf := bf_of_bits (Z.land h 3)). set (H := Z.shiftr (Z.land h 124) 2).
  assert (Hbf : bf_valid bf = true) by apply bf_of_bits_valid.
  pose proof (header_height_range h) as HH. fold H in HH. clearbody bf H.
  destruct (Z.ltb_spec (max_height bf) H); [right; reflexivity|].
  unfold decode_nodes. destruct (Z.eqb_spec H 0) as [|HH0]; [left; eauto|].
  rewrite <- (st_of_index_0 bf).
  inversion Hby as [|? ? _ Htree]; subst.
  pose proof (all_nodes_length bf tree Hbf) as HL. pose proof (bf_ge2 bf Hbf) as Hb2.
  rewrite dec_loop_aloop by (try assumption; cbn [length]; nia).
  cbn [skipn].
  assert (Hq0 : Forall (qwf bf H) [(0, 1)]).
  { constructor; [|constructor]. unfold qwf. cbn [fst snd]. replace (H - 1 + 1) with H by lia.
    pose proof (bf_pow_max bf H Hbf ltac:(lia)). lia. }
  pose proof (aloop_safe bf H bias maxv Hbf ltac:(lia) (all_nodes bf tree) (all_nodes_bound bf tree Hbf Htree)
                         0%nat [(0, 1)] [] Hq0) as Hsafe.
  pose proof (aloop_count bf H bias maxv Hbf ltac:(lia) (all_nodes bf tree) (all_nodes_bound bf tree Hbf Htree)
                         0%nat [(0, 1)] [] Hq0) as Hcount.
  destruct (aloop bf H bias maxv (all_nodes bf tree) 0 [(0, 1)] []) as [i' q' out'| |]; cbn [lift]; [|right; reflexivity|contradiction].
  destruct Hsafe as (_ & _ & Hq'). destruct Hcount as (Hc1 & Hc2).
  cbn [sumw snd length] in Hc1, Hc2. replace (H - 1 + 1) with H in Hc1 by lia.
  destruct (skip_safe bf H i' q' Hbf ltac:(lia) Hq' ltac:(lia) ltac:(destruct Hc2; [left; assumption | right; lia])) as (Hn1 & Hn2).
  rewrite Z.mod_small by lia.
  assert (Hsk : exists s2, ibs_skip bf (st_of_index bf i') (Z.of_nat (length q')) = Some s2).
  { unfold ibs_skip. destruct (st_of_index bf i') as [bi si] eqn:Est. cbn [snd] in Hn2.
    assert (Hsi : bf <= 4 -> 0 <= si).
    { intros _. unfold st_of_index in Est. destruct (bf =? 2); [inversion Est; lia|]. destruct (bf =? 4); [inversion Est; lia|].
      destruct (bf =? 8); inversion Est; lia. }
    destruct (bf_cases _ Hbf) as [E | [E | [E | E]]]; rewrite E in *; cbn [Z.eqb Pos.eqb orb].
    - specialize (Hn2 ltac:(lia)). specialize (Hsi ltac:(lia)).
      destruct (Z.leb_spec U32 (Z.of_nat (length q') * 2)); [lia|].
      destruct (Z.leb_spec U32 (si + Z.of_nat (length q') * 2)); [lia | eauto].
    - specialize (Hn2 ltac:(lia)). specialize (Hsi ltac:(lia)).
      destruct (Z.leb_spec U32 (Z.of_nat (length q') * 4)); [lia|].
      destruct (Z.leb_spec U32 (si + Z.of_nat (length q') * 4)); [lia | eauto].
    - eauto.
    - eauto. }
  destruct Hsk as (s2 & ->).
  destruct (Nat.leb _ _); [left; eauto | right; reflexivity].
Qed.
