(* C14 (set half) — the domain invariant (stored values lie in [0,dmax]) over all operation sequences, and
   the observations of BOTH membership modes stated against the mathematical set restricted to the domain:
   [members dmax f] = the ascending list of the v <= dmax with f v = true. *)
From Coq Require Import ZArith NArith List Bool Lia Sorting.Sorted Sorting.Permutation.
From FV Require Import C14.Model C14.Proofs C14.SetObs C14.SetAfter.
Import ListNotations.
Open Scope N_scope.
Ltac Zify.zify_post_hook ::= Z.to_euclidean_division_equations.

(* ------------------------------------------------------------------------------------------ *)
(* stored values stay inside the domain                                                        *)
(* ------------------------------------------------------------------------------------------ *)
Definition indomb (dmax : N) (s : bitset) : Prop := forall v, bs_contains s v = true -> v <= dmax.
Definition indom (dmax : N) (x : intset) : Prop := indomb dmax (storage x).

Definition op_in_dom (dmax : N) (o : op) : Prop :=
  match o with
  | OInsert _ v | ORemove _ v => v <= dmax
  | OInsertRange _ a b | ORemoveRange _ a b => a <= dmax /\ b <= dmax
  | OExtend _ vs | ORemoveAll _ vs => Forall (fun v => v <= dmax) vs
  | _ => True
  end.

Lemma indomb_insert d s v : sorted (pgs s) -> v <= d -> indomb d s -> indomb d (fst (bs_insert s v)).
Proof.
  intros Hs Hv H w. rewrite bs_insert_contains by exact Hs. destruct (N.eqb_spec w v); [intros _; lia|apply H].
Qed.
Lemma indomb_remove d s v : indomb d s -> indomb d (fst (bs_remove s v)).
Proof. intros H w. rewrite bs_remove_contains. intros E. apply andb_prop in E as [_ E]. apply H, E. Qed.
Lemma indomb_insert_range d s a b : sorted (pgs s) -> b <= d -> indomb d s -> indomb d (bs_insert_range s a b).
Proof.
  intros Hs Hb H w. rewrite (proj2 (bs_insert_range_spec s a b w Hs)).
  destruct (N.leb_spec a w), (N.leb_spec w b); cbn [andb orb]; try apply H. intros _. lia.
Qed.
Lemma indomb_remove_range d s a b : sorted (pgs s) -> indomb d s -> indomb d (bs_remove_range s a b).
Proof.
  intros Hs H w. rewrite (proj2 (bs_remove_range_spec s a b w Hs)). intros E. apply andb_prop in E as [_ E]. apply H, E.
Qed.
Lemma existsb_eqb_in w vs : existsb (N.eqb w) vs = true <-> In w vs.
Proof.
  rewrite existsb_exists. split; [intros [x [Hx E]]; apply N.eqb_eq in E; subst; exact Hx|].
  intros H. exists w. split; [exact H|apply N.eqb_refl].
Qed.
Lemma indomb_extend d s vs : sorted (pgs s) -> Forall (fun v => v <= d) vs -> indomb d s -> indomb d (bs_extend s vs).
Proof.
  intros Hs Hv H w. rewrite (proj2 (bs_extend_spec vs s w Hs)). intros E. apply orb_prop in E as [E|E]; [|apply H, E].
  apply existsb_eqb_in in E. rewrite Forall_forall in Hv. apply Hv, E.
Qed.
Lemma indomb_remove_all d s vs : sorted (pgs s) -> indomb d s -> indomb d (bs_remove_all s vs).
Proof.
  intros Hs H w. rewrite (proj2 (bs_remove_all_spec vs s w Hs)). intros E. apply andb_prop in E as [_ E]. apply H, E.
Qed.
Lemma indomb_union d a b : sorted (pgs a) -> sorted (pgs b) -> indomb d a -> indomb d b -> indomb d (bs_union a b).
Proof. intros Sa Sb Ha Hb w. rewrite (proj2 (bs_union_spec a b w Sa Sb)). intros E. apply orb_prop in E as [E|E]; auto. Qed.
Lemma indomb_intersect d a b : sorted (pgs a) -> sorted (pgs b) -> indomb d a -> indomb d (bs_intersect a b).
Proof. intros Sa Sb Ha w. rewrite (proj2 (bs_intersect_spec a b w Sa Sb)). intros E. apply andb_prop in E as [E _]; auto. Qed.
Lemma indomb_subtract d a b : sorted (pgs a) -> sorted (pgs b) -> indomb d a -> indomb d (bs_subtract a b).
Proof. intros Sa Sb Ha w. rewrite (proj2 (bs_subtract_spec a b w Sa Sb)). intros E. apply andb_prop in E as [E _]; auto. Qed.
Lemma indomb_reversed_subtract d a b : sorted (pgs a) -> sorted (pgs b) -> indomb d b -> indomb d (bs_reversed_subtract a b).
Proof. intros Sa Sb Hb w. rewrite (proj2 (bs_reversed_subtract_spec a b w Sa Sb)). intros E. apply andb_prop in E as [E _]; auto. Qed.
Lemma indomb_empty d : indomb d bs_empty.
Proof. intros v. cbn. discriminate. Qed.

Lemma apply_op_indom d st o : wf (fst st) -> wf (snd st) -> indom d (fst st) -> indom d (snd st) -> op_in_dom d o ->
  indom d (fst (fst (apply_op st o))) /\ indom d (snd (fst (apply_op st o))).
Proof.
  intros W1 W2 H1 H2 Ho.
  assert (Wsel : forall t, wf (sel t st)) by (intros [|]; assumption).
  assert (Hsel : forall t, indom d (sel t st)) by (intros [|]; assumption).
  assert (Hput : forall t x, indom d x -> indom d (fst (put t st x)) /\ indom d (snd (put t st x))).
  { intros [|] x Hx; cbn; split; assumption. }
  unfold indom, wf in *.
  destruct o as [t v|t v|t a b|t a b|t vs|t vs|t|t|t|t|t|t]; cbn [apply_op op_in_dom] in *.
  - destruct (is_insert (sel t st) v) as [x r] eqn:E. cbn [fst]. apply Hput.
    replace x with (fst (is_insert (sel t st) v)) by (rewrite E; reflexivity).
    rewrite fst_is_insert. specialize (Hsel t). specialize (Wsel t).
    destruct (sel t st); cbn [storage] in *; [apply indomb_insert|apply indomb_remove]; assumption.
  - destruct (is_remove (sel t st) v) as [x r] eqn:E. cbn [fst]. apply Hput.
    replace x with (fst (is_remove (sel t st) v)) by (rewrite E; reflexivity).
    rewrite fst_is_remove. specialize (Hsel t). specialize (Wsel t).
    destruct (sel t st); cbn [storage] in *; [apply indomb_remove|apply indomb_insert]; assumption.
  - cbn [fst]. apply Hput. specialize (Hsel t). specialize (Wsel t). destruct Ho.
    destruct (sel t st); cbn [storage is_insert_range] in *; [apply indomb_insert_range|apply indomb_remove_range]; assumption.
  - cbn [fst]. apply Hput. specialize (Hsel t). specialize (Wsel t). destruct Ho.
    destruct (sel t st); cbn [storage is_remove_range] in *; [apply indomb_remove_range|apply indomb_insert_range]; assumption.
  - cbn [fst]. apply Hput. specialize (Hsel t). specialize (Wsel t).
    destruct (sel t st); cbn [storage is_extend] in *; [apply indomb_extend|apply indomb_remove_all]; assumption.
  - cbn [fst]. apply Hput. specialize (Hsel t). specialize (Wsel t).
    destruct (sel t st); cbn [storage is_remove_all] in *; [apply indomb_remove_all|apply indomb_extend]; assumption.
  - cbn [fst]. apply Hput. pose proof (Hsel t) as Ha. pose proof (Hsel (negb t)) as Hb.
    pose proof (Wsel t) as Sa. pose proof (Wsel (negb t)) as Sb.
    destruct (sel t st), (sel (negb t) st); cbn [storage is_union is_invert] in *;
      [apply indomb_union|apply indomb_reversed_subtract|apply indomb_subtract|apply indomb_intersect]; assumption.
  - cbn [fst]. apply Hput. pose proof (Hsel t) as Ha. pose proof (Hsel (negb t)) as Hb.
    pose proof (Wsel t) as Sa. pose proof (Wsel (negb t)) as Sb.
    destruct (sel t st), (sel (negb t) st); cbn [storage is_intersect is_invert] in *;
      [apply indomb_intersect|apply indomb_subtract|apply indomb_reversed_subtract|apply indomb_union]; assumption.
  - cbn [fst]. apply Hput. pose proof (Hsel t) as Ha. pose proof (Hsel (negb t)) as Hb.
    pose proof (Wsel t) as Sa. pose proof (Wsel (negb t)) as Sb.
    destruct (sel t st), (sel (negb t) st); cbn [storage is_subtract is_invert] in *;
      [apply indomb_subtract|apply indomb_intersect|apply indomb_union|apply indomb_reversed_subtract]; assumption.
  - cbn [fst]. apply Hput. specialize (Hsel t). destruct (sel t st); exact Hsel.
  - cbn [fst]. apply Hput. apply indomb_empty.
  - cbn [fst]. apply Hput. apply Hsel.
Qed.

Lemma run_indom_from d ops : forall st sp, Forall (op_in_dom d) ops -> Rep2 st sp -> indom d (fst st) -> indom d (snd st) ->
  indom d (fst (fold_left (fun st o => fst (apply_op st o)) ops st)) /\
  indom d (snd (fold_left (fun st o => fst (apply_op st o)) ops st)).
Proof.
  induction ops as [|o t IH]; intros st sp Ho HR H1 H2; cbn [fold_left]; [split; assumption|].
  inversion Ho; subst. destruct HR as [[W1 C1] [W2 C2]].
  destruct (apply_op_indom d st o W1 W2 H1 H2 H3) as [I1 I2].
  apply (IH _ (spec_op sp o)); try assumption. apply apply_op_refines. split; split; assumption.
Qed.
Lemma run_indom d ops : Forall (op_in_dom d) ops -> indom d (fst (run ops)) /\ indom d (snd (run ops)).
Proof.
  intros Ho. apply (run_indom_from d ops _ ((fun _ => false), (fun _ => false))); try assumption.
  - split; apply Rep_empty.
  - apply indomb_empty.
  - apply indomb_empty.
Qed.

(* ------------------------------------------------------------------------------------------ *)
(* the domain as a list, members of a mathematical set inside the domain                       *)
(* ------------------------------------------------------------------------------------------ *)
Fixpoint upto (idx : N) (n : nat) : list N :=
  match n with O => [] | S n' => idx :: upto (idx + 1) n' end.
Definition domain_list (dmax : N) : list N := upto 0 (S (N.to_nat dmax)).
Definition members (dmax : N) (f : mset) : list N := filter f (domain_list dmax).

Lemma upto_in n : forall idx v, In v (upto idx n) <-> idx <= v < idx + N.of_nat n.
Proof.
  induction n as [|n IH]; intros idx v; cbn [upto In]; [lia|]. rewrite IH. lia.
Qed.
Lemma upto_sorted n : forall idx, StronglySorted N.lt (upto idx n).
Proof.
  induction n as [|n IH]; intros idx; cbn [upto]; constructor; [apply IH|].
  apply Forall_forall. intros x Hx. apply upto_in in Hx. lia.
Qed.
Lemma upto_length n : forall idx, length (upto idx n) = n.
Proof. induction n as [|n IH]; intros idx; cbn [upto length]; [reflexivity|]. rewrite IH. reflexivity. Qed.
Lemma upto_snoc n : forall idx, upto idx (S n) = upto idx n ++ [idx + N.of_nat n].
Proof.
  induction n as [|n IH]; intros idx.
  - cbn. rewrite N.add_0_r. reflexivity.
  - change (upto idx (S (S n))) with (idx :: upto (idx + 1) (S n)). rewrite IH. cbn [upto app].
    do 3 f_equal. lia.
Qed.

Lemma domain_list_in d v : In v (domain_list d) <-> v <= d.
Proof. unfold domain_list. rewrite upto_in. lia. Qed.
Lemma domain_list_length d : N.of_nat (length (domain_list d)) = d + 1.
Proof. unfold domain_list. rewrite upto_length. lia. Qed.

Lemma filter_sorted (P : N -> bool) l : StronglySorted N.lt l -> StronglySorted N.lt (filter P l).
Proof.
  induction 1 as [|x l Hs IH Hf]; cbn [filter]; [constructor|].
  destruct (P x); [|exact IH]. constructor; [exact IH|].
  apply Forall_forall. intros y Hy. apply filter_In in Hy as [Hy _]. rewrite Forall_forall in Hf. apply Hf, Hy.
Qed.
Lemma members_sorted d f : StronglySorted N.lt (members d f).
Proof. apply filter_sorted, upto_sorted. Qed.
Lemma members_in d f v : In v (members d f) <-> v <= d /\ f v = true.
Proof. unfold members. rewrite filter_In, domain_list_in. tauto. Qed.

(* strictly ascending lists are determined by their elements *)
Lemma sorted_ext l1 : forall l2, StronglySorted N.lt l1 -> StronglySorted N.lt l2 ->
  (forall v, In v l1 <-> In v l2) -> l1 = l2.
Proof.
  induction l1 as [|a t IH]; intros l2 H1 H2 E.
  - destruct l2 as [|b u]; [reflexivity|]. destruct (proj2 (E b) (or_introl eq_refl)).
  - destruct l2 as [|b u]; [destruct (proj1 (E a) (or_introl eq_refl))|].
    inversion H1; subst. inversion H2; subst. rewrite Forall_forall in *.
    assert (a = b).
    { destruct (proj1 (E a) (or_introl eq_refl)) as [->|Ha]; [reflexivity|].
      destruct (proj2 (E b) (or_introl eq_refl)) as [->|Hb]; [reflexivity|].
      specialize (H4 b Hb). specialize (H6 a Ha). lia. }
    subst b. f_equal. apply IH; try assumption. intros v. split; intros Hv.
    + destruct (proj1 (E v) (or_intror Hv)) as [Ea|Hu]; [|exact Hu]. specialize (H4 v Hv). lia.
    + destruct (proj2 (E v) (or_intror Hv)) as [Ea|Hu]; [|exact Hu]. specialize (H6 v Hv). lia.
Qed.

Lemma filter_length_split {A} (P : A -> bool) l :
  (length (filter P l) + length (filter (fun x => negb (P x)) l) = length l)%nat.
Proof. induction l as [|a t IH]; cbn [filter length]; [reflexivity|]. destruct (P a); cbn [negb length]; lia. Qed.
Lemma filter_rev' {A} (P : A -> bool) l : filter P (rev l) = rev (filter P l).
Proof.
  induction l as [|a t IH]; cbn [rev filter]; [reflexivity|].
  rewrite filter_app, IH. cbn [filter]. destruct (P a); cbn [rev]; [reflexivity|apply app_nil_r].
Qed.

(* ------------------------------------------------------------------------------------------ *)
(* struct Iter (exclusive mode) = the remaining domain values not in the skip list             *)
(* ------------------------------------------------------------------------------------------ *)
Definition nin (skips : list N) (x : N) : bool := negb (existsb (N.eqb x) skips).

Lemma nin_cons_ne sk rest x : x <> sk -> nin (sk :: rest) x = nin rest x.
Proof. intros H. unfold nin. cbn [existsb]. destruct (N.eqb_spec x sk); [contradiction|reflexivity]. Qed.

Lemma excl_fwd_spec hi fuel : forall k idx n skips,
  (k + length skips < fuel)%nat -> hi + 1 = idx + N.of_nat n -> StronglySorted N.lt skips ->
  excl_fwd fuel k idx hi skips = firstn k (filter (nin skips) (upto idx n)).
Proof.
  induction fuel as [|fuel IH]; intros k idx n skips Hf Hn Hs; [lia|].
  cbn [excl_fwd]. destruct k as [|k]; [reflexivity|].
  destruct n as [|n].
  - destruct (N.ltb_spec hi idx); [reflexivity|lia].
  - destruct (N.ltb_spec hi idx); [lia|]. cbn [upto filter].
    destruct skips as [|sk rest].
    + cbn [nin existsb negb firstn]. f_equal. apply IH; [cbn in *; lia|lia|constructor].
    + inversion Hs; subst. rewrite Forall_forall in H3. cbn [length] in Hf.
      destruct (N.ltb_spec idx sk) as [C1|C1].
      * assert (E : nin (sk :: rest) idx = true).
        { unfold nin. apply negb_true_iff. apply not_true_iff_false. intros E. apply existsb_eqb_in in E.
          destruct E as [->|E]; [lia|]. specialize (H3 idx E). lia. }
        rewrite E. cbn [firstn]. f_equal. apply IH; [cbn [length]; lia|lia|exact Hs].
      * destruct (N.ltb_spec sk idx) as [C2|C2].
        -- rewrite (IH (S k) idx (S n) rest) by (try assumption; lia). cbn [upto filter]. f_equal.
           rewrite (nin_cons_ne sk rest idx) by lia. destruct (nin rest idx); [f_equal|];
             apply filter_ext_in; intros x Hx; apply upto_in in Hx; (apply nin_cons_ne || (symmetry; apply nin_cons_ne)); lia.
        -- assert (sk = idx) by lia. subst sk.
           assert (E : nin (idx :: rest) idx = false).
           { unfold nin. cbn [existsb]. rewrite N.eqb_refl. reflexivity. }
           rewrite E. rewrite (IH (S k) (idx + 1) n rest) by (try assumption; lia). f_equal.
           apply filter_ext_in. intros x Hx. apply upto_in in Hx. (apply nin_cons_ne || (symmetry; apply nin_cons_ne)); lia.
Qed.

Fixpoint downto (idx1 : N) (n : nat) : list N :=
  match n with O => [] | S n' => (idx1 - 1) :: downto (idx1 - 1) n' end.
Lemma downto_in n : forall v, In v (downto (N.of_nat n) n) <-> v < N.of_nat n.
Proof.
  induction n as [|n IH]; intros v; cbn [downto In]; [lia|].
  replace (N.of_nat (S n) - 1) with (N.of_nat n) by lia. rewrite IH. lia.
Qed.
Lemma downto_rev_upto n : downto (N.of_nat n) n = rev (upto 0 n).
Proof.
  induction n as [|n IH]; [reflexivity|].
  rewrite upto_snoc, rev_app_distr. cbn [downto rev app].
  replace (N.of_nat (S n) - 1) with (N.of_nat n) by lia. rewrite IH. f_equal.
Qed.

Definition gtN (a b : N) : Prop := b < a.
Lemma excl_bwd_spec fuel : forall k n skips,
  (k + length skips < fuel)%nat -> StronglySorted gtN skips ->
  excl_bwd fuel k (N.of_nat n) skips = firstn k (filter (nin skips) (downto (N.of_nat n) n)).
Proof.
  induction fuel as [|fuel IH]; intros k n skips Hf Hs; [lia|].
  cbn [excl_bwd]. destruct k as [|k]; [reflexivity|].
  destruct n as [|n]; [reflexivity|].
  destruct (N.eqb_spec (N.of_nat (S n)) 0); [lia|]. cbn [downto filter].
  replace (N.of_nat (S n) - 1) with (N.of_nat n) by lia.
  destruct skips as [|sk rest].
  - cbn [nin existsb negb firstn]. f_equal. apply IH; [cbn in *; lia|constructor].
  - inversion Hs; subst. rewrite Forall_forall in H2. unfold gtN in H2. cbn [length] in Hf.
    destruct (N.ltb_spec sk (N.of_nat n)) as [C1|C1].
    + assert (E : nin (sk :: rest) (N.of_nat n) = true).
      { unfold nin. apply negb_true_iff. apply not_true_iff_false. intros E. apply existsb_eqb_in in E.
        destruct E as [E|E]; [lia|]. specialize (H2 _ E). lia. }
      rewrite E. cbn [firstn]. f_equal. apply IH; [cbn [length]; lia|exact Hs].
    + destruct (N.ltb_spec (N.of_nat n) sk) as [C2|C2].
      * rewrite (IH (S k) (S n) rest) by (try assumption; lia). cbn [downto filter].
        replace (N.of_nat (S n) - 1) with (N.of_nat n) by lia. f_equal.
        rewrite (nin_cons_ne sk rest (N.of_nat n)) by lia. destruct (nin rest (N.of_nat n)); [f_equal|];
          apply filter_ext_in; intros x Hx; apply downto_in in Hx; (apply nin_cons_ne || (symmetry; apply nin_cons_ne)); lia.
      * assert (sk = N.of_nat n) by lia. subst sk.
        assert (E : nin (N.of_nat n :: rest) (N.of_nat n) = false).
        { unfold nin. cbn [existsb]. rewrite N.eqb_refl. reflexivity. }
        rewrite E. rewrite (IH (S k) n rest) by (try assumption; lia). f_equal.
        apply filter_ext_in. intros x Hx. apply downto_in in Hx. (apply nin_cons_ne || (symmetry; apply nin_cons_ne)); lia.
Qed.

Lemma sorted_rev_gt l : StronglySorted N.lt l -> StronglySorted gtN (rev l).
Proof.
  induction 1 as [|a t Hs IH Hf]; cbn [rev]; [constructor|].
  rewrite Forall_forall in Hf. revert IH. generalize (rev t) (fun x (H : In x (rev t)) => Hf x (proj2 (in_rev t x) H)).
  intros r. induction r as [|b u IHu]; intros Hlt Hr; cbn [app].
  - constructor; constructor.
  - inversion Hr; subst. constructor.
    + apply IHu; [intros x Hx; apply Hlt; right; exact Hx|assumption].
    + apply Forall_forall. intros x Hx. apply in_app_iff in Hx as [Hx|[<-|[]]].
      * rewrite Forall_forall in H2. apply H2, Hx.
      * unfold gtN. apply Hlt. left. reflexivity.
Qed.

(* ------------------------------------------------------------------------------------------ *)
(* observations of both modes against [members dmax f]                                         *)
(* ------------------------------------------------------------------------------------------ *)
  Lemma nin_stored x (HW : wfi x) v : nin (bs_iter (storage x)) v = negb (bs_contains (storage x) v).
  Proof.
    unfold nin. f_equal. destruct (bs_iter_spec _ HW) as (_ & H2 & _).
    destruct (bs_contains (storage x) v) eqn:E.
    - apply existsb_eqb_in, H2, E.
    - apply not_true_iff_false. intros H. apply existsb_eqb_in, H2 in H. congruence.
  Qed.

  (* inclusive: the stored enumeration IS the member list *)
  Lemma incl_stored_members d x f (HR : Rep x f) (HW : wfi x) (HD : indom d x) s : x = Incl s -> bs_iter s = members d f.
  Proof.
    intros ->. destruct (stored_enumeration _ _ HR HW) as (H1 & H2 & _). cbn [storage is_inverted negb] in *.
    apply sorted_ext; [exact H1|apply members_sorted|]. intros v. rewrite members_in, H2. split; [|tauto].
    intros Hv. split; [|exact Hv]. apply HD. cbn [storage]. destruct HR as [_ Hc]. rewrite <- Hc in Hv. exact Hv.
  Qed.
  (* inverted: the member predicate is "not stored" *)
  Lemma excl_pred x f (HR : Rep x f) (HW : wfi x) s v : x = Excl s -> nin (bs_iter s) v = f v.
  Proof.
    intros E. subst x. pose proof (nin_stored _ HW v) as H. cbn [storage] in H. rewrite H.
    destruct HR as [_ Hc]. rewrite <- Hc. reflexivity.
  Qed.

  (* iter().take(k) = the first k members of the domain, ascending *)
  Lemma iter_spec d x f (HR : Rep x f) (HW : wfi x) (HD : indom d x) k : is_iter d x k = firstn k (members d f).
  Proof.
    destruct x as [s|s] eqn:Ex; cbn [is_iter].
    - rewrite (incl_stored_members d _ f HR HW HD s eq_refl). reflexivity.
    - destruct (bs_iter_spec _ HW) as (H1 & _ & _). cbn [storage] in H1.
      rewrite (excl_fwd_spec d _ k 0 (S (N.to_nat d)) (bs_iter s)) by (try assumption; lia).
      unfold members, domain_list. f_equal. apply filter_ext. intros v. apply (excl_pred _ f HR HW s v eq_refl).
  Qed.

  (* iter().rev().take(k) = the last k members, descending *)
  Lemma iter_back_spec d x f (HR : Rep x f) (HW : wfi x) (HD : indom d x) k : is_iter_back d x k = firstn k (rev (members d f)).
  Proof.
    destruct x as [s|s] eqn:Ex; cbn [is_iter_back].
    - rewrite (incl_stored_members d _ f HR HW HD s eq_refl). reflexivity.
    - destruct (bs_iter_spec _ HW) as (H1 & _ & _). cbn [storage] in H1.
      replace (d + 1) with (N.of_nat (S (N.to_nat d))) by lia.
      rewrite excl_bwd_spec by (try (apply sorted_rev_gt; assumption); rewrite rev_length; lia).
      rewrite downto_rev_upto. unfold members, domain_list. rewrite <- filter_rev'. f_equal.
      apply filter_ext. intros v. rewrite <- (excl_pred _ f HR HW s v eq_refl). unfold nin. f_equal.
      destruct (existsb (N.eqb v) (bs_iter s)) eqn:E.
      + apply existsb_eqb_in. apply in_rev. rewrite rev_involutive. apply existsb_eqb_in, E.
      + apply not_true_iff_false. intros H. apply existsb_eqb_in in H. apply in_rev in H.
        apply existsb_eqb_in in H. congruence.
  Qed.

  (* first / last *)
  Lemma first_spec d x f (HR : Rep x f) (HW : wfi x) (HD : indom d x)  : is_first d x = hd_error (members d f).
  Proof. unfold is_first. rewrite (iter_spec d x f) by assumption. apply hd_firstn1. Qed.
  Lemma last_spec d x f (HR : Rep x f) (HW : wfi x) (HD : indom d x)  : is_last d x = hd_error (rev (members d f)).
  Proof. unfold is_last. rewrite (iter_back_spec d x f) by assumption. apply hd_firstn1. Qed.

  Lemma first_is_min d x f (HR : Rep x f) (HW : wfi x) (HD : indom d x)  :
    match is_first d x with
    | Some m => m <= d /\ f m = true /\ forall v, v <= d -> f v = true -> m <= v
    | None => forall v, v <= d -> f v = false
    end.
  Proof.
    rewrite (first_spec d x f) by assumption. destruct (hd_error (members d f)) as [m|] eqn:E.
    - destruct (sorted_hd_min _ _ (members_sorted d f) E) as [Hin Hmin]. apply members_in in Hin as [H1 H2].
      repeat split; try assumption. intros v Hv Hf. apply Hmin, members_in. tauto.
    - destruct (members d f) as [|a t] eqn:El; [|discriminate]. intros v Hv. destruct (f v) eqn:Ef; [|reflexivity].
      assert (In v (members d f)) by (apply members_in; tauto). rewrite El in H. destruct H.
  Qed.
  Lemma last_is_max d x f (HR : Rep x f) (HW : wfi x) (HD : indom d x)  :
    match is_last d x with
    | Some m => m <= d /\ f m = true /\ forall v, v <= d -> f v = true -> v <= m
    | None => forall v, v <= d -> f v = false
    end.
  Proof.
    rewrite (last_spec d x f) by assumption. destruct (hd_error (rev (members d f))) as [m|] eqn:E.
    - destruct (sorted_rev_hd_max _ _ (members_sorted d f) E) as [Hin Hmax]. apply members_in in Hin as [H1 H2].
      repeat split; try assumption. intros v Hv Hf. apply Hmax, members_in. tauto.
    - assert (El : members d f = []).
      { destruct (rev (members d f)) eqn:Er; [|discriminate]. apply (f_equal (@rev N)) in Er. rewrite rev_involutive in Er. exact Er. }
      intros v Hv. destruct (f v) eqn:Ef; [|reflexivity].
      assert (In v (members d f)) by (apply members_in; tauto). rewrite El in H. destruct H.
  Qed.

  (* len = number of members of the domain; is_empty *)
  Lemma len_full d x f (HR : Rep x f) (HW : wfi x) (HD : indom d x)  : is_len d x = N.of_nat (length (members d f)).
  Proof.
    destruct x as [s|s] eqn:Ex; cbn [is_len].
    - destruct (bs_iter_spec _ HW) as (_ & _ & H3). cbn [storage] in H3. rewrite H3.
      rewrite (incl_stored_members d _ f HR HW HD s eq_refl). reflexivity.
    - destruct (bs_iter_spec _ HW) as (H1 & H2 & H3). cbn [storage] in *.
      pose proof (filter_length_split (bs_contains s) (domain_list d)) as P.
      assert (E1 : filter (bs_contains s) (domain_list d) = bs_iter s).
      { apply sorted_ext; [apply filter_sorted, upto_sorted|exact H1|]. intros v.
        rewrite filter_In, domain_list_in, H2. split; [tauto|]. intros Hv. split; [apply HD, Hv|exact Hv]. }
      assert (E2 : filter (fun v => negb (bs_contains s v)) (domain_list d) = members d f).
      { unfold members. apply filter_ext. intros v. destruct HR as [_ Hc]. rewrite <- Hc. reflexivity. }
      rewrite E1, E2 in P. pose proof (domain_list_length d). rewrite H3. lia.
  Qed.
  Lemma is_empty_full d x f (HR : Rep x f) (HW : wfi x) (HD : indom d x)  : is_is_empty d x = true <-> forall v, v <= d -> f v = false.
  Proof.
    unfold is_is_empty. rewrite (len_full d x f) by assumption. rewrite N.eqb_eq. split.
    - intros E v Hv. destruct (members d f) as [|a t] eqn:El; [|cbn in E; lia].
      destruct (f v) eqn:Ef; [|reflexivity]. assert (In v (members d f)) by (apply members_in; tauto).
      rewrite El in H. destruct H.
    - intros H. destruct (members d f) as [|a t] eqn:El; [reflexivity|].
      assert (Ha : In a (members d f)) by (rewrite El; left; reflexivity). apply members_in in Ha as [Ha1 Ha2].
      rewrite H in Ha2 by exact Ha1. discriminate.
  Qed.

  (* iter_after(v).take(k) = the first k members greater than v *)
  Lemma iter_after_spec d x f (HR : Rep x f) (HW : wfi x) (HD : indom d x) v k : is_iter_after d x v k = firstn k (filter (fun w => v <? w) (members d f)).
  Proof.
    destruct x as [s|s] eqn:Ex.
    - rewrite (proj1 (incl_iter_after_spec d s f v k HR HW)). rewrite (incl_stored_members d _ f HR HW HD s eq_refl). reflexivity.
    - cbn [is_iter_after]. destruct (bs_iter_spec _ HW) as (H1 & H2 & _). cbn [storage] in *.
      pose proof (proj1 (proj2 HW)) as Hb. cbn [storage] in Hb.
      assert (Ea : bs_iter_after s v = filter (fun w => v <? w) (bs_iter s)) by (apply (iter_after_pages (pgs s) v Hb)).
      destruct (N.ltb_spec v d) as [C|C].
      + rewrite (excl_fwd_spec d _ k (v + 1) (N.to_nat (d - v)) (bs_iter_after s v)).
        * f_equal. apply sorted_ext.
          -- apply filter_sorted, upto_sorted.
          -- apply filter_sorted, members_sorted.
          -- intros w. rewrite !filter_In, members_in, upto_in.
             assert (Hn : v < w -> nin (bs_iter_after s v) w = f w).
             { intros Hw. rewrite <- (excl_pred _ f HR HW s w eq_refl). unfold nin. f_equal. rewrite Ea.
               destruct (existsb (N.eqb w) (bs_iter s)) eqn:E.
               - apply existsb_eqb_in. apply filter_In. split; [apply existsb_eqb_in, E|apply N.ltb_lt, Hw].
               - apply not_true_iff_false. intros H. apply existsb_eqb_in in H. apply filter_In in H as [H _].
                 apply existsb_eqb_in in H. congruence. }
             split.
             ++ intros [Hr Hp]. rewrite Hn in Hp by lia. split; [split; [lia|exact Hp]|apply N.ltb_lt; lia].
             ++ intros [[Hr Hp] Hl]. apply N.ltb_lt in Hl. split; [lia|]. rewrite Hn by lia. exact Hp.
        * rewrite Ea. pose proof (filter_length_split (fun w => v <? w) (bs_iter s)). lia.
        * lia.
        * rewrite Ea. apply filter_sorted, H1.
      + symmetry. replace (filter (fun w => v <? w) (members d f)) with (@nil N); [destruct k; reflexivity|].
        symmetry. apply filter_none. intros w Hw. apply members_in in Hw. apply N.ltb_ge. lia.
  Qed.
