(* C19 — executable model of IFT patch selection
   (incremental-font-transfer/src/patchmap.rs: Entry::intersects, EntryIntersectionCache,
   add_intersecting_format2_patches, IntersectionInfo + Ord, SubsetDefinition::intersection;
   incremental-font-transfer/src/patch_group.rs: GroupingByInvalidation::group_patches,
   select_invalidating_candidate, select_next_patches_from_candidates, select_next_patches, uris,
   apply_next_patches_with_decoder bookkeeping).
   Hand-written from the source, statement by statement.  No proofs in this file.

   The model starts from the *decoded* mapping (what decode_format2_entries produces): an entry's
   own subset definition is therefore a finite codepoint list, a finite feature list and a finite
   tag -> ranges list (the decoder never produces FeatureSet::All / DesignSpace::All / inverted sets
   on the entry side); the queried definition has all the All / inverted cases.
   URIs are abstract integers whose order is the order of the expanded URI strings (BTreeMap<String,_>).
   [option] results: None = Err(..) of the Rust function. *)
From Coq Require Import ZArith List Bool.
From FV Require Import Lib.RustInt.
Import ListNotations.
Open Scope Z_scope.

Definition zmem (x : Z) (l : list Z) : bool := existsb (Z.eqb x) l.

(* ---- SubsetDefinition (queried) and the entry's decoded definition ---- *)
Inductive cpset := CpIncl (l : list Z) | CpExcl (l : list Z).       (* IntSet<u32>, CpExcl = inverted *)
Inductive featset := FAll | FSet (l : list Z).                      (* FeatureSet; tags as big-endian u32 *)
Definition ranges := list (Z * Z).                                  (* RangeSet<Fixed>, raw 16.16 bits, inclusive *)
Inductive dspace := DAll | DRanges (m : list (Z * ranges)).         (* DesignSpace *)
Record sdef := mkD { sd_cp : cpset; sd_feat : featset; sd_ds : dspace }.
Record edef := mkED { ed_cp : list Z; ed_feat : list Z; ed_ds : list (Z * ranges) }.

Inductive pformat := FullInv | PartInv | GlyphKeyed.                (* PatchFormat *)

(* struct Entry (+ the fields of its PatchUri that matter) *)
Record entry := mkE {
  e_def : edef; e_children : list nat; e_conj : bool; e_ignored : bool;
  e_uri : Z; e_fmt : pformat; e_bit : Z }.

(* SubsetDefinition::all() *)
Definition sdef_all : sdef := mkD (CpExcl []) FAll DAll.

Definition cp_mem (s : cpset) (x : Z) : bool :=
  match s with CpIncl l => zmem x l | CpExcl l => negb (zmem x l) end.

(* ---- Entry::intersects ---- *)
(* codepoints.is_empty() || codepoints.intersects_set(def.codepoints) *)
Definition cp_intersects (e : list Z) (d : cpset) : bool :=
  match e with [] => true | _ => existsb (cp_mem d) e end.

(* FeatureSet::Set(set) vs def: All => true; Set(other) => set.is_empty() || set ∩ other ≠ ∅ *)
Definition feat_intersects (e : list Z) (d : featset) : bool :=
  match d with
  | FAll => true
  | FSet o => match e with [] => true | _ => existsb (fun t => zmem t o) e end
  end.

(* range_intersection(a, b).is_some() for stored (valid) ranges; written so that an invalid
   (start > end) range is empty *)
Definition range_overlap (a b : Z * Z) : bool := Z.max (fst a) (fst b) <=? Z.min (snd a) (snd b).
Definition ranges_overlap (a b : ranges) : bool := existsb (fun ra => existsb (range_overlap ra) b) a.

(* DesignSpace::Ranges(entry_ranges) vs def: All => true;
   Ranges(other) => entry_ranges.is_empty() || design_space_intersects(entry_ranges, other) *)
Definition ds_intersects (e : list (Z * ranges)) (d : dspace) : bool :=
  match d with
  | DAll => true
  | DRanges o =>
      match e with
      | [] => true
      | _ => existsb (fun ta => existsb (fun tb => (fst ta =? fst tb) && ranges_overlap (snd ta) (snd tb)) o) e
      end
  end.

Definition entry_intersects (e : edef) (d : sdef) : bool :=
  cp_intersects (ed_cp e) (sd_cp d) && feat_intersects (ed_feat e) (sd_feat d)
  && ds_intersects (ed_ds e) (sd_ds d).

(* ---- EntryIntersectionCache::{intersects, compute_intersection, all_/some_children_intersect} ----
   as a left-to-right pass: [acc] holds the results of the entries before [e] *)
Definition entry_hit (d : sdef) (acc : list bool) (e : entry) : bool :=
  if negb (entry_intersects (e_def e) d) then false
  else match e_children e with
       | [] => true
       | cs => if e_conj e then forallb (fun c => nth c acc false) cs
               else existsb (fun c => nth c acc false) cs
       end.

Definition hits (d : sdef) (m : list entry) : list bool :=
  fold_left (fun acc e => acc ++ [entry_hit d acc e]) m [].

(* decode_format2_entry's semantic checks: child index must refer to a prior entry; segment start <= end *)
Definition range_valid (r : Z * Z) : bool := fst r <=? snd r.
Fixpoint entries_decodable (i : nat) (m : list entry) : bool :=
  match m with
  | [] => true
  | e :: r => forallb (fun c => Nat.ltb c i) (e_children e)
              && forallb (fun ts => forallb range_valid (snd ts)) (ed_ds (e_def e))
              && entries_decodable (S i) r
  end.

(* ---- RangeSet<Fixed> canonical form (insert merges overlapping and adjacent ranges) ---- *)
Fixpoint ins_range (r : Z * Z) (l : ranges) : ranges :=
  match l with
  | [] => [r]
  | x :: t => if fst r <=? fst x then r :: l else x :: ins_range r t
  end.
Definition sort_ranges (l : ranges) : ranges := fold_right ins_range [] l.
Fixpoint merge_sorted (cur : Z * Z) (l : ranges) : ranges :=
  match l with
  | [] => [cur]
  | r :: t => if fst r <=? snd cur + 1 then merge_sorted (fst cur, Z.max (snd cur) (snd r)) t
              else cur :: merge_sorted r t
  end.
Definition rs_norm (l : ranges) : ranges :=
  match sort_ranges (filter range_valid l) with [] => [] | r :: t => merge_sorted r t end.
(* a.intersection(b).collect::<RangeSet>() *)
Definition rs_inter (a b : ranges) : ranges :=
  rs_norm (flat_map (fun ra => flat_map (fun rb =>
     if range_overlap ra rb then [(Z.max (fst ra) (fst rb), Z.min (snd ra) (snd rb))] else []) b) a).
(* IntersectionInfo::design_space_size: fold(Fixed::ZERO, acc + (end - start)), wrapping i32 *)
Definition rs_size (l : ranges) : Z :=
  fold_left (fun acc r => wrap_s 32 (acc + wrap_s 32 (snd r - fst r))) l 0.

(* ---- SubsetDefinition::intersection (entry side = self), only what IntersectionInfo reads ---- *)
Definition cp_inter_count (e : list Z) (d : cpset) : Z := Z.of_nat (length (filter (cp_mem d) e)).
Definition feat_inter_count (e : list Z) (d : featset) : Z :=
  match d with
  | FAll => Z.of_nat (length e)
  | FSet o => Z.of_nat (length (filter (fun t => zmem t o) e))
  end.
(* design_space_intersection *)
Definition ds_intersection (e : list (Z * ranges)) (d : dspace) : list (Z * ranges) :=
  match d with
  | DAll => map (fun ts => (fst ts, rs_norm (snd ts))) e
  | DRanges o =>
      flat_map (fun tb =>
        match find (fun ta => fst ta =? fst tb) e with
        | Some ta => match rs_inter (snd ta) (snd tb) with [] => [] | r => [(fst tb, r)] end
        | None => []
        end) o
  end.
Fixpoint ins_tag (p : Z * Z) (l : list (Z * Z)) : list (Z * Z) :=
  match l with
  | [] => [p]
  | x :: t => if fst p <=? fst x then p :: l else x :: ins_tag p t
  end.
(* BTreeMap<Tag, Fixed> : sorted by tag *)
Definition ds_sizes (m : list (Z * ranges)) : list (Z * Z) :=
  fold_right ins_tag [] (map (fun ts => (fst ts, rs_size (snd ts))) m).

(* struct IntersectionInfo *)
Record info := mkI { i_cp : Z; i_tags : Z; i_ds : list (Z * Z); i_order : Z }.
Definition info_default : info := mkI 0 0 [] 0.
(* IntersectionInfo::from_subset(e.subset_definition.intersection(def), order) *)
Definition info_of (e : edef) (d : sdef) (order : nat) : info :=
  mkI (cp_inter_count (ed_cp e) (sd_cp d)) (feat_inter_count (ed_feat e) (sd_feat d))
      (ds_sizes (ds_intersection (ed_ds e) (sd_ds d))) (Z.of_nat order).

(* lexicographic comparison of integer sequences (prefix is smaller) *)
Fixpoint lcmp (a b : list Z) : comparison :=
  match a, b with
  | [], [] => Eq
  | [], _ :: _ => Lt
  | _ :: _, [] => Gt
  | x :: a', y :: b' => match x ?= y with Eq => lcmp a' b' | c => c end
  end.
Definition flat_ds (l : list (Z * Z)) : list Z := flat_map (fun p => [fst p; snd p]) l.
(* impl Ord for IntersectionInfo: codepoints, layout tags, design space (BTreeMap order), then
   entry_order REVERSED *)
Definition info_cmp (a b : info) : comparison :=
  match lcmp [i_cp a; i_tags a] [i_cp b; i_tags b] with
  | Eq => match lcmp (flat_ds (i_ds a)) (flat_ds (i_ds b)) with
          | Eq => CompOpp (i_order a ?= i_order b)
          | c => c
          end
  | c => c
  end.

(* ---- mapping tables and candidates (PatchUri) ---- *)
(* t_tag: 0 = "IFT ", 1 = "IFTX"; t_applied: bit indices whose (ignored) bit has been set by
   patch application since the table was encoded *)
Record table := mkT { t_tag : Z; t_cid : Z; t_tmpl_ok : bool; t_entries : list entry; t_applied : list Z }.
Record cand := mkC { c_table : Z; c_cid : Z; c_tmpl_ok : bool; c_order : nat; c_uri : Z;
                     c_fmt : pformat; c_bit : Z; c_info : info }.

Definition eff_ignored (applied : list Z) (e : entry) : bool := e_ignored e || zmem (e_bit e) applied.
Definition indexed (m : list entry) : list (nat * entry) := combine (seq 0 (length m)) m.

(* add_intersecting_format2_patches: for (order, e) in entries: skip ignored; skip non-intersecting *)
Definition offered_idx (t : table) (d : sdef) : list (nat * entry) :=
  filter (fun ie => negb (eff_ignored (t_applied t) (snd ie)) && nth (fst ie) (hits d (t_entries t)) false)
         (indexed (t_entries t)).
Definition is_invalidating (f : pformat) : bool := match f with GlyphKeyed => false | _ => true end.
Definition mk_cand (t : table) (d : sdef) (ie : nat * entry) : cand :=
  let e := snd ie in
  mkC (t_tag t) (t_cid t) (t_tmpl_ok t) (fst ie) (e_uri e) (e_fmt e) (e_bit e)
      (if is_invalidating (e_fmt e) then info_of (e_def e) d (fst ie) else info_default).
Definition table_offered (t : table) (d : sdef) : option (list cand) :=
  if entries_decodable 0 (t_entries t) then Some (map (mk_cand t d) (offered_idx t d)) else None.

(* intersecting_patches: IFT then IFTX, `?` on each *)
Fixpoint offered (f : list table) (d : sdef) : option (list cand) :=
  match f with
  | [] => Some []
  | t :: r => match table_offered t d, offered r d with
              | Some a, Some b => Some (a ++ b)
              | _, _ => None
              end
  end.

(* ---- patch_group.rs ---- *)
(* BTreeMap<String, NoInvalidationPatch>: sorted by URI, insert replaces the value *)
Fixpoint map_insert (k : Z) (v : cand) (m : list (Z * cand)) : list (Z * cand) :=
  match m with
  | [] => [(k, v)]
  | kv :: r => if k <? fst kv then (k, v) :: m
               else if k =? fst kv then (k, v) :: r
               else kv :: map_insert k v r
  end.
Definition map_remove (k : Z) (m : list (Z * cand)) : list (Z * cand) :=
  filter (fun kv => negb (fst kv =? k)) m.

Record grouping := mkG { g_full : list cand; g_pift : list cand; g_piftx : list cand;
                         g_nift : list (Z * cand); g_niftx : list (Z * cand) }.
Definition opt_eqb (a : Z) (b : option Z) : bool := match b with Some x => a =? x | None => false end.

(* GroupingByInvalidation::group_patches, one loop iteration; None = Err(UriTemplateError) *)
Definition group_step (ift iftx : option Z) (og : option grouping) (c : cand) : option grouping :=
  match og with
  | None => None
  | Some g =>
    match c_fmt c with
    | FullInv => if c_tmpl_ok c then Some (mkG (g_full g ++ [c]) (g_pift g) (g_piftx g) (g_nift g) (g_niftx g)) else None
    | PartInv =>
        if opt_eqb (c_cid c) ift then
          (if c_tmpl_ok c then Some (mkG (g_full g) (g_pift g ++ [c]) (g_piftx g) (g_nift g) (g_niftx g)) else None)
        else if opt_eqb (c_cid c) iftx then
          (if c_tmpl_ok c then Some (mkG (g_full g) (g_pift g) (g_piftx g ++ [c]) (g_nift g) (g_niftx g)) else None)
        else Some g
    | GlyphKeyed =>
        if opt_eqb (c_cid c) ift then
          (if c_tmpl_ok c then Some (mkG (g_full g) (g_pift g) (g_piftx g) (map_insert (c_uri c) c (g_nift g)) (g_niftx g)) else None)
        else if opt_eqb (c_cid c) iftx then
          (if c_tmpl_ok c then Some (mkG (g_full g) (g_pift g) (g_piftx g) (g_nift g) (map_insert (c_uri c) c (g_niftx g))) else None)
        else Some g
    end
  end.
Definition group_patches (cands : list cand) (ift iftx : option Z) : option grouping :=
  fold_left (group_step ift iftx) cands (Some (mkG [] [] [] [] [])).

(* select_invalidating_candidate: Iterator::max_by_key = fold keeping the accumulator only when it
   is strictly greater, i.e. the LAST maximum *)
Definition max_step (best : option cand) (x : cand) : option cand :=
  match best with
  | None => Some x
  | Some b => match info_cmp (c_info b) (c_info x) with Gt => Some b | _ => Some x end
  end.
Definition max_by_info (l : list cand) : option cand := fold_left max_step l None.

Inductive scoped := SPartial (c : cand) | SNoInv (m : list (Z * cand)).     (* ScopedGroup *)
Inductive group := GFull (c : cand) | GMixed (a b : scoped).                (* CompatibleGroup *)

Definition uri_differs (sel : option cand) (p : cand) : bool :=
  match sel with None => true | Some s => negb (c_uri s =? c_uri p) end.

(* select_next_patches_from_candidates *)
Definition select_from_candidates (cands : list cand) (ift iftx : option Z) : option group :=
  match group_patches cands ift iftx with
  | None => None
  | Some g =>
    match max_by_info (g_full g) with
    | Some c => Some (GFull c)
    | None =>
      let ift_sel := max_by_info (g_pift g) in
      let iftx_sel := max_by_info (filter (uri_differs ift_sel) (g_piftx g)) in
      let niftx := match ift_sel, iftx_sel with
                   | Some s, None => map_remove (c_uri s) (g_niftx g) | _, _ => g_niftx g end in
      let nift := match ift_sel, iftx_sel with
                  | None, Some s => map_remove (c_uri s) (g_nift g) | _, _ => g_nift g end in
      match ift_sel, iftx_sel with
      | Some a, Some b => Some (GMixed (SPartial a) (SPartial b))
      | Some a, None => Some (GMixed (SPartial a) (SNoInv niftx))
      | None, Some b => Some (GMixed (SNoInv nift) (SPartial b))
      | None, None =>
          Some (GMixed (SNoInv nift)
                       (SNoInv (fold_left (fun m kv => map_remove (fst kv) m) nift niftx)))
      end
    end
  end.

Definition scoped_partial (s : scoped) : list cand := match s with SPartial c => [c] | SNoInv _ => [] end.
Definition scoped_noinv (s : scoped) : list (Z * cand) := match s with SPartial _ => [] | SNoInv m => m end.
(* the PatchInfos of a group in the order of PatchGroup::uris():
   invalidating_patch_iter (full, ift partial, iftx partial) then non_invalidating_patch_iter *)
Definition inv_members (g : group) : list cand :=
  match g with GFull c => [c] | GMixed a b => scoped_partial a ++ scoped_partial b end.
Definition noinv_members (g : group) : list (Z * cand) :=
  match g with GFull _ => [] | GMixed a b => scoped_noinv a ++ scoped_noinv b end.
Definition members (g : group) : list cand := inv_members g ++ map snd (noinv_members g).
Definition uris (g : group) : list Z := map c_uri (inv_members g) ++ map fst (noinv_members g).

Definition cid_of (tag : Z) (f : list table) : option Z :=
  option_map t_cid (find (fun t => t_tag t =? tag) f).
Definition optz_eqb (a b : option Z) : bool :=
  match a, b with Some x, Some y => x =? y | None, None => true | _, _ => false end.

(* PatchGroup::select_next_patches: None = Err, Some None = group without patches *)
Definition select_next (f : list table) (d : sdef) : option (option group) :=
  match offered f d with
  | None => None
  | Some [] => Some None
  | Some cands =>
      let ift := cid_of 0 f in
      let iftx := cid_of 1 f in
      if optz_eqb ift iftx then None
      else option_map Some (select_from_candidates cands ift iftx)
  end.
Definition group_uris (og : option group) : list Z := match og with None => [] | Some g => uris g end.

(* ---- apply_next_patches_with_decoder: bookkeeping over patch_data : HashMap<String, UriStatus> ----
   [patch_ok] abstracts whether the actual patch application (C18) returns Ok *)
Inductive status := Pending | Applied.
Definition pdata := list (Z * status).
Fixpoint pd_get (u : Z) (pd : pdata) : option status :=
  match pd with [] => None | kv :: r => if fst kv =? u then Some (snd kv) else pd_get u r end.
Definition pd_apply (u : Z) (pd : pdata) : pdata :=
  map (fun kv => if fst kv =? u then (fst kv, Applied) else kv) pd.
Definition pending_count (pd : pdata) : nat :=
  length (filter (fun kv => match snd kv with Pending => true | Applied => false end) pd).

(* the non-invalidating pass: None = MissingPatches, Some l = accumulated pending uris *)
Fixpoint accumulate (us : list Z) (pd : pdata) : option (list Z) :=
  match us with
  | [] => Some []
  | u :: r => match pd_get u pd with
              | None => None
              | Some Pending => option_map (cons u) (accumulate r pd)
              | Some Applied => accumulate r pd
              end
  end.
Definition apply_noinv (g : group) (pd : pdata) (patch_ok : bool) : option pdata :=
  let us := map fst (noinv_members g) in
  match accumulate us pd with
  | None => None                                  (* MissingPatches *)
  | Some [] => None                               (* EmptyPatchList *)
  | Some _ => if patch_ok then Some (fold_left (fun p u => pd_apply u p) us pd) else None
  end.
Definition apply_next (g : group) (pd : pdata) (patch_ok : bool) : option pdata :=
  match inv_members g with
  | c :: _ =>
      match pd_get (c_uri c) pd with
      | None => None                              (* MissingPatches *)
      | Some Pending => if patch_ok then Some (pd_apply (c_uri c) pd) else None
      | Some Applied => apply_noinv g pd patch_ok
      end
  | [] => apply_noinv g pd patch_ok
  end.

(* an extension run: each round uses the group selected from whatever mapping the font has by then
   (arbitrary: a table-keyed patch may replace the mapping) *)
Fixpoint run_rounds (rounds : list (group * bool)) (pd : pdata) : option pdata :=
  match rounds with
  | [] => Some pd
  | (g, ok) :: r => match apply_next g pd ok with Some pd' => run_rounds r pd' | None => None end
  end.

(* ---- correspondence case format (written by harness/src/bin/c19.rs) ----
   observed candidate: (table tag, bit index, format code 1/2/3, uri, (cp, tags, ds sizes, order)) *)
Definition obs_cand := (Z * Z * Z * Z * (Z * Z * list (Z * Z) * Z))%type.
Definition fmt_code (f : pformat) : Z := match f with FullInv => 1 | PartInv => 2 | GlyphKeyed => 3 end.
Definition cand_obs (c : cand) : obs_cand :=
  (c_table c, c_bit c, fmt_code (c_fmt c), (if c_tmpl_ok c then c_uri c else -1),
   (i_cp (c_info c), i_tags (c_info c), i_ds (c_info c), i_order (c_info c))).

Definition zlist_eqb (a b : list Z) : bool :=
  (Nat.eqb (length a) (length b)) && forallb (fun p => Z.eqb (fst p) (snd p)) (combine a b).
Definition zzlist_eqb (a b : list (Z * Z)) : bool :=
  zlist_eqb (map fst a) (map fst b) && zlist_eqb (map snd a) (map snd b).
Definition obs_eqb (a b : obs_cand) : bool :=
  let '(t1, b1, f1, u1, (c1, g1, d1, o1)) := a in
  let '(t2, b2, f2, u2, (c2, g2, d2, o2)) := b in
  (t1 =? t2) && (b1 =? b2) && (f1 =? f2) && (u1 =? u2) && (c1 =? c2) && (g1 =? g2)
  && zzlist_eqb d1 d2 && (o1 =? o2).
Fixpoint list_eqb {A} (eqb : A -> A -> bool) (a b : list A) : bool :=
  match a, b with
  | [], [] => true
  | x :: a', y :: b' => eqb x y && list_eqb eqb a' b'
  | _, _ => false
  end.
Definition opt_eqb_with {A} (eqb : A -> A -> bool) (a b : option A) : bool :=
  match a, b with Some x, Some y => eqb x y | None, None => true | _, _ => false end.

(* apply_next_patches on a PatchGroup whose `patches` is None: nothing to apply = EmptyPatchList *)
Definition apply_round (og : option group) (pd : pdata) (patch_ok : bool) : option pdata :=
  match og with None => None | Some g => apply_next g pd patch_ok end.

(* observed patch_data: (uri, is_pending) sorted by uri *)
Definition pd_of (l : list (Z * bool)) : pdata :=
  map (fun kv => (fst kv, if snd kv : bool then Pending else Applied)) l.
Definition status_eqb (a b : status) : bool :=
  match a, b with Pending, Pending => true | Applied, Applied => true | _, _ => false end.
Definition pd_eqb (a b : pdata) : bool :=
  list_eqb (fun x y => (fst x =? fst y) && status_eqb (snd x) (snd y)) a b.
(* one round of the real extension loop run with no-op table-keyed patches (patch application itself
   succeeds): patch_data before, patch_data after / None = apply_next_patches returned Err *)
Definition round_obs := (list (Z * bool) * option (list (Z * bool)))%type.
Definition check_round (sel : option (option group)) (r : round_obs) : bool :=
  match sel with
  | None => false
  | Some og => opt_eqb_with pd_eqb (apply_round og (pd_of (fst r)) true) (option_map pd_of (snd r))
  end.

(* (font, definition, what intersecting_patches returned, what select_next_patches(..).uris() returned,
    rounds of apply_next_patches on that selection) *)
Definition case_ty := (list table * sdef * option (list obs_cand) * option (list Z) * list round_obs)%type.
Definition check_case (c : case_ty) : bool :=
  let '(f, d, o_off, o_sel, rounds) := c in
  opt_eqb_with (list_eqb obs_eqb) (option_map (map cand_obs) (offered f d)) o_off
  && opt_eqb_with zlist_eqb (option_map group_uris (select_next f d)) o_sel
  && forallb (check_round (select_next f d)) rounds.
