(* C19 — proofs *)
From Coq Require Import ZArith List Bool Lia Arith.
From FV Require Import Lib.RustInt C19.Model C19.Spec.
Import ListNotations.
Open Scope Z_scope.

(* ------------------------------------------------------------------ basic reflection *)
Lemma zmem_In x l : zmem x l = true <-> In x l.
Proof.
  unfold zmem. rewrite existsb_exists. split.
  - intros [y [Hy He]]. apply Z.eqb_eq in He. subst. exact Hy.
  - intros H. exists x. split; [exact H | apply Z.eqb_refl].
Qed.

Lemma zmem_false x l : zmem x l = false <-> ~ In x l.
Proof.
  rewrite <- zmem_In. destruct (zmem x l); split; intros H; congruence || reflexivity.
Qed.

Lemma cp_mem_in s x : cp_mem s x = true <-> cp_in s x.
Proof.
  destruct s as [l|l]; cbn [cp_mem cp_in].
  - apply zmem_In.
  - rewrite negb_true_iff. apply zmem_false.
Qed.

Lemma range_overlap_spec a b :
  range_overlap a b = true <-> exists x, (fst a <= x <= snd a) /\ (fst b <= x <= snd b).
Proof.
  unfold range_overlap. rewrite Z.leb_le. split.
  - intros H. exists (Z.max (fst a) (fst b)). lia.
  - intros [x Hx]. lia.
Qed.

Lemma ranges_overlap_spec a b :
  ranges_overlap a b = true <-> exists x, ranges_in a x /\ ranges_in b x.
Proof.
  unfold ranges_overlap. rewrite existsb_exists. split.
  - intros [ra [Ha H]]. rewrite existsb_exists in H. destruct H as [rb [Hb H]].
    apply range_overlap_spec in H. destruct H as [x [H1 H2]].
    exists x. split.
    + exists (fst ra), (snd ra). rewrite <- surjective_pairing. auto.
    + exists (fst rb), (snd rb). rewrite <- surjective_pairing. auto.
  - intros [x [[la [ha [Ha Hxa]]] [lb [hb [Hb Hxb]]]]].
    exists (la, ha). split; [exact Ha|]. rewrite existsb_exists.
    exists (lb, hb). split; [exact Hb|]. apply range_overlap_spec. exists x. cbn. auto.
Qed.

(* ------------------------------------------------------------------ Entry::intersects vs spec *)
Lemma cp_intersects_spec e d :
  cp_intersects e d = true <-> (e = [] \/ exists x, In x e /\ cp_in d x).
Proof.
  destruct e as [|a r].
  - cbn. split; auto.
  - unfold cp_intersects. rewrite existsb_exists. split.
    + intros [x [Hx H]]. right. exists x. split; [exact Hx|]. apply cp_mem_in. exact H.
    + intros [H|[x [Hx H]]]; [discriminate|]. exists x. split; [exact Hx|]. apply cp_mem_in. exact H.
Qed.

Lemma feat_intersects_spec e d :
  feat_intersects e d = true <-> (e = [] \/ exists t, In t e /\ feat_in d t).
Proof.
  destruct d as [|o]; cbn [feat_intersects feat_in].
  - split; [|reflexivity]. intros _. destruct e as [|a r]; [left; reflexivity|].
    right. exists a. split; [left; reflexivity | exact I].
  - destruct e as [|a r].
    + split; auto.
    + rewrite existsb_exists. split.
      * intros [t [Ht H]]. right. exists t. split; [exact Ht|]. apply zmem_In. exact H.
      * intros [H|[t [Ht H]]]; [discriminate|]. exists t. split; [exact Ht|]. apply zmem_In. exact H.
Qed.

Definition dsmap_wf (e : list (Z * ranges)) : Prop :=
  Forall (fun ts => snd ts <> [] /\ Forall (fun r => fst r <= snd r) (snd ts)) e.

Lemma ds_intersects_spec e d : dsmap_wf e ->
  ds_intersects e d = true <-> (e = [] \/ exists t x, dsmap_in e t x /\ ds_in d t x).
Proof.
  intros Hwf. destruct d as [|o]; cbn [ds_intersects ds_in].
  - split; [|reflexivity]. intros _. destruct e as [|[t rs] r]; [left; reflexivity|].
    right. inversion Hwf as [|? ? [Hne Hv] _]; subst. cbn in Hne, Hv.
    destruct rs as [|[lo hi] rs']; [congruence|].
    inversion Hv as [|? ? Hlh _]; subst. cbn in Hlh.
    exists t, lo. split; [|exact I].
    exists ((lo, hi) :: rs'). split; [left; reflexivity|].
    exists lo, hi. split; [left; reflexivity | lia].
  - destruct e as [|a r].
    + split; auto.
    + rewrite existsb_exists. split.
      * intros [ta [Hta H]]. rewrite existsb_exists in H. destruct H as [tb [Htb H]].
        apply andb_true_iff in H. destruct H as [Heq Hov]. apply Z.eqb_eq in Heq.
        apply ranges_overlap_spec in Hov. destruct Hov as [x [Hxa Hxb]].
        right. exists (fst ta), x. split.
        -- exists (snd ta). rewrite <- surjective_pairing. auto.
        -- exists (snd tb). rewrite Heq. rewrite <- surjective_pairing. auto.
      * intros [H|[t [x [[ra [Hra Hxa]] [rb [Hrb Hxb]]]]]]; [discriminate|].
        exists (t, ra). split; [exact Hra|]. rewrite existsb_exists.
        exists (t, rb). split; [exact Hrb|]. cbn [fst snd]. rewrite Z.eqb_refl. cbn.
        apply ranges_overlap_spec. exists x. auto.
Qed.

Lemma entry_intersects_spec e d : dsmap_wf (ed_ds e) ->
  entry_intersects e d = true <-> spec_dims e d.
Proof.
  intros Hwf. unfold entry_intersects, spec_dims.
  rewrite !andb_true_iff, cp_intersects_spec, feat_intersects_spec, (ds_intersects_spec _ _ Hwf).
  tauto.
Qed.

(* ------------------------------------------------------------------ the left-to-right pass *)
Lemma hits_app d m e : hits d (m ++ [e]) = hits d m ++ [entry_hit d (hits d m) e].
Proof. unfold hits. rewrite fold_left_app. reflexivity. Qed.

Lemma hits_length d m : length (hits d m) = length m.
Proof.
  induction m as [|e m IH] using rev_ind; [reflexivity|].
  rewrite hits_app, !app_length, IH. reflexivity.
Qed.

Lemma hits_prefix d m1 m2 i : (i < length m1)%nat ->
  nth i (hits d (m1 ++ m2)) false = nth i (hits d m1) false.
Proof.
  intros Hi. induction m2 as [|e m2 IH] using rev_ind.
  - rewrite app_nil_r. reflexivity.
  - rewrite app_assoc, hits_app, app_nth1; [exact IH|].
    rewrite hits_length, app_length. lia.
Qed.

Lemma hits_nth d m i e : nth_error m i = Some e ->
  nth i (hits d m) false = entry_hit d (hits d (firstn i m)) e.
Proof.
  intros H. destruct (nth_error_split _ _ H) as [l1 [l2 [Hm Hl]]]. subst m i.
  rewrite firstn_app, firstn_all, Nat.sub_diag, firstn_O, app_nil_r.
  replace (l1 ++ e :: l2) with ((l1 ++ [e]) ++ l2) by (rewrite <- app_assoc; reflexivity).
  rewrite hits_prefix by (rewrite app_length; cbn; lia).
  rewrite hits_app, app_nth2 by (rewrite hits_length; lia).
  rewrite hits_length, Nat.sub_diag. reflexivity.
Qed.

Lemma hits_firstn d m i c : (c < i)%nat -> (i <= length m)%nat ->
  nth c (hits d (firstn i m)) false = nth c (hits d m) false.
Proof.
  intros Hc Hi. rewrite <- (firstn_skipn i m) at 2.
  symmetry. apply hits_prefix. rewrite firstn_length. lia.
Qed.

Lemma hits_spec m d : mapping_wf m ->
  forall i, (i < length m)%nat -> (nth i (hits d m) false = true <-> spec_intersects m d i).
Proof.
  intros Hwf i. induction i as [i IH] using lt_wf_ind. intros Hi.
  destruct (nth_error m i) as [e|] eqn:He; [|apply nth_error_None in He; lia].
  destruct (Hwf i e He) as [Hch Hds].
  rewrite (hits_nth d m i e He). unfold entry_hit.
  assert (Hchild : forall c, In c (e_children e) ->
            (nth c (hits d (firstn i m)) false = true <-> spec_intersects m d c)).
  { intros c Hc. rewrite Forall_forall in Hch. specialize (Hch c Hc).
    rewrite hits_firstn by lia. apply IH; lia. }
  split.
  - intros H. destruct (entry_intersects (e_def e) d) eqn:Hint; cbn [negb] in H; [|discriminate].
    apply (entry_intersects_spec _ _ Hds) in Hint.
    apply (SI m d i e He Hint).
    destruct (e_children e) as [|c0 cs] eqn:Hcs; [left; reflexivity|]. right.
    destruct (e_conj e).
    + left. split; [reflexivity|]. rewrite forallb_forall in H.
      apply Forall_forall. intros c Hc. apply Hchild; [exact Hc|]. apply H. exact Hc.
    + right. split; [reflexivity|]. rewrite existsb_exists in H. destruct H as [c [Hc H]].
      apply Exists_exists. exists c. split; [exact Hc|]. apply Hchild; assumption.
  - intros H. inversion H as [i' e' He' Hdims Hkids]; subst i'.
    rewrite He in He'. inversion He'; subst e'. clear He'.
    apply (entry_intersects_spec _ _ Hds) in Hdims. rewrite Hdims. cbn [negb].
    destruct (e_children e) as [|c0 cs] eqn:Hcs; [reflexivity|].
    destruct Hkids as [Hk|[[Hc Hk]|[Hc Hk]]]; [discriminate| |]; rewrite Hc.
    + apply forallb_forall. intros c Hin. rewrite Forall_forall in Hk. apply Hchild; [exact Hin|].
      apply Hk. exact Hin.
    + apply existsb_exists. apply Exists_exists in Hk. destruct Hk as [c [Hin Hk]].
      exists c. split; [exact Hin|]. apply Hchild; assumption.
Qed.

(* entries_decodable gives the child-order and segment-validity parts of mapping_wf *)
Lemma entries_decodable_children m : forall k, entries_decodable k m = true ->
  forall i e, nth_error m i = Some e -> Forall (fun c => (c < k + i)%nat) (e_children e).
Proof.
  induction m as [|e0 m IH]; intros k H i e He.
  - destruct i; discriminate.
  - cbn in H. apply andb_true_iff in H. destruct H as [H Hr]. apply andb_true_iff in H. destruct H as [Hc _].
    destruct i as [|i].
    + cbn in He. inversion He; subst. apply Forall_forall. intros c Hin.
      rewrite forallb_forall in Hc. specialize (Hc c Hin). apply Nat.ltb_lt in Hc. lia.
    + cbn in He. specialize (IH (S k) Hr i e He).
      eapply Forall_impl; [|exact IH]. cbn. intros; lia.
Qed.
