(* C19 — proofs *)
From Coq Require Import ZArith List Bool Lia Arith.
From FV Require Import Lib.RustInt C19.Model C19.Spec.
Import ListNotations.
Open Scope Z_scope.

(* ------------------------------------------------------------------ basic reflection *)
Lemma zmem_In x l : zmem x l = true <-> In x l.
Proof.
  unfold zmem. rewrite existsb_exists. split.
  - intros [y [Hy He]]. apply Z.eqb_eq in He. subst. exact Hy.
  - intros H. exists x. split; [exact H | apply Z.eqb_refl].
Qed.

Lemma zmem_false x l : zmem x l = false <-> ~ In x l.
Proof.
  rewrite <- zmem_In. destruct (zmem x l); split; intros H; congruence || reflexivity.
Qed.

Lemma cp_mem_in s x : cp_mem s x = true <-> cp_in s x.
Proof.
  destruct s as [l|l]; cbn [cp_mem cp_in].
  - apply zmem_In.
  - rewrite negb_true_iff. apply zmem_false.
Qed.

Lemma range_overlap_spec a b :
  range_overlap a b = true <-> exists x, (fst a <= x <= snd a) /\ (fst b <= x <= snd b).
Proof.
  unfold range_overlap. rewrite Z.leb_le. split.
  - intros H. exists (Z.max (fst a) (fst b)). lia.
  - intros [x Hx]. lia.
Qed.

Lemma ranges_overlap_spec a b :
  ranges_overlap a b = true <-> exists x, ranges_in a x /\ ranges_in b x.
Proof.
  unfold ranges_overlap. rewrite existsb_exists. split.
  - intros [ra [Ha H]]. rewrite existsb_exists in H. destruct H as [rb [Hb H]].
    apply range_overlap_spec in H. destruct H as [x [H1 H2]].
    exists x. split.
    + exists (fst ra), (snd ra). rewrite <- surjective_pairing. auto.
    + exists (fst rb), (snd rb). rewrite <- surjective_pairing. auto.
  - intros [x [[la [ha [Ha Hxa]]] [lb [hb [Hb Hxb]]]]].
    exists (la, ha). split; [exact Ha|]. rewrite existsb_exists.
    exists (lb, hb). split; [exact Hb|]. apply range_overlap_spec. exists x. cbn. auto.
Qed.

(* ------------------------------------------------------------------ Entry::intersects vs spec *)
Lemma cp_intersects_spec e d :
  cp_intersects e d = true <-> (e = [] \/ exists x, In x e /\ cp_in d x).
Proof.
  destruct e as [|a r].
  - cbn. split; auto.
  - unfold cp_intersects. rewrite existsb_exists. split.
    + intros [x [Hx H]]. right. exists x. split; [exact Hx|]. apply cp_mem_in. exact H.
    + intros [H|[x [Hx H]]]; [discriminate|]. exists x. split; [exact Hx|]. apply cp_mem_in. exact H.
Qed.

Lemma feat_intersects_spec e d :
  feat_intersects e d = true <-> (e = [] \/ exists t, In t e /\ feat_in d t).
Proof.
  destruct d as [|o]; cbn [feat_intersects feat_in].
  - split; [|reflexivity]. intros _. destruct e as [|a r]; [left; reflexivity|].
    right. exists a. split; [left; reflexivity | exact I].
  - destruct e as [|a r].
    + split; auto.
    + rewrite existsb_exists. split.
      * intros [t [Ht H]]. right. exists t. split; [exact Ht|]. apply zmem_In. exact H.
      * intros [H|[t [Ht H]]]; [discriminate|]. exists t. split; [exact Ht|]. apply zmem_In. exact H.
Qed.

Definition dsmap_wf (e : list (Z * ranges)) : Prop :=
  Forall (fun ts => snd ts <> [] /\ Forall (fun r => fst r <= snd r) (snd ts)) e.

Lemma ds_intersects_spec e d : dsmap_wf e ->
  ds_intersects e d = true <-> (e = [] \/ exists t x, dsmap_in e t x /\ ds_in d t x).
Proof.
  intros Hwf. destruct d as [|o]; cbn [ds_intersects ds_in].
  - split; [|reflexivity]. intros _. destruct e as [|[t rs] r]; [left; reflexivity|].
    right. inversion Hwf as [|? ? [Hne Hv] _]; subst. cbn in Hne, Hv.
    destruct rs as [|[lo hi] rs']; [congruence|].
    inversion Hv as [|? ? Hlh _]; subst. cbn in Hlh.
    exists t, lo. split; [|exact I].
    exists ((lo, hi) :: rs'). split; [left; reflexivity|].
    exists lo, hi. split; [left; reflexivity | lia].
  - destruct e as [|a r].
    + split; auto.
    + rewrite existsb_exists. split.
      * intros [ta [Hta H]]. rewrite existsb_exists in H. destruct H as [tb [Htb H]].
        apply andb_true_iff in H. destruct H as [Heq Hov]. apply Z.eqb_eq in Heq.
        apply ranges_overlap_spec in Hov. destruct Hov as [x [Hxa Hxb]].
        right. exists (fst ta), x. split.
        -- exists (snd ta). rewrite <- surjective_pairing. auto.
        -- exists (snd tb). rewrite Heq. rewrite <- surjective_pairing. auto.
      * intros [H|[t [x [[ra [Hra Hxa]] [rb [Hrb Hxb]]]]]]; [discriminate|].
        exists (t, ra). split; [exact Hra|]. rewrite existsb_exists.
        exists (t, rb). split; [exact Hrb|]. cbn [fst snd]. rewrite Z.eqb_refl. cbn.
        apply ranges_overlap_spec. exists x. auto.
Qed.

Lemma entry_intersects_spec e d : dsmap_wf (ed_ds e) ->
  entry_intersects e d = true <-> spec_dims e d.
Proof.
  intros Hwf. unfold entry_intersects, spec_dims.
  rewrite !andb_true_iff, cp_intersects_spec, feat_intersects_spec, (ds_intersects_spec _ _ Hwf).
  tauto.
Qed.

(* ------------------------------------------------------------------ the left-to-right pass *)
Lemma hits_app d m e : hits d (m ++ [e]) = hits d m ++ [entry_hit d (hits d m) e].
Proof. unfold hits. rewrite fold_left_app. reflexivity. Qed.

Lemma hits_length d m : length (hits d m) = length m.
Proof.
  induction m as [|e m IH] using rev_ind; [reflexivity|].
  rewrite hits_app, !app_length, IH. reflexivity.
Qed.

Lemma hits_prefix d m1 m2 i : (i < length m1)%nat ->
  nth i (hits d (m1 ++ m2)) false = nth i (hits d m1) false.
Proof.
  intros Hi. induction m2 as [|e m2 IH] using rev_ind.
  - rewrite app_nil_r. reflexivity.
  - rewrite app_assoc, hits_app, app_nth1; [exact IH|].
    rewrite hits_length, app_length. lia.
Qed.

Lemma hits_nth d m i e : nth_error m i = Some e ->
  nth i (hits d m) false = entry_hit d (hits d (firstn i m)) e.
Proof.
  intros H. destruct (nth_error_split _ _ H) as [l1 [l2 [Hm Hl]]]. subst m i.
  rewrite firstn_app, firstn_all, Nat.sub_diag, firstn_O, app_nil_r.
  replace (l1 ++ e :: l2) with ((l1 ++ [e]) ++ l2) by (rewrite <- app_assoc; reflexivity).
  rewrite hits_prefix by (rewrite app_length; cbn; lia).
  rewrite hits_app, app_nth2 by (rewrite hits_length; lia).
  rewrite hits_length, Nat.sub_diag. reflexivity.
Qed.

Lemma hits_firstn d m i c : (c < i)%nat -> (i <= length m)%nat ->
  nth c (hits d (firstn i m)) false = nth c (hits d m) false.
Proof.
  intros Hc Hi. rewrite <- (firstn_skipn i m) at 2.
  symmetry. apply hits_prefix. rewrite firstn_length. lia.
Qed.

Lemma hits_spec m d : mapping_wf m ->
  forall i, (i < length m)%nat -> (nth i (hits d m) false = true <-> spec_intersects m d i).
Proof.
  intros Hwf i. induction i as [i IH] using lt_wf_ind. intros Hi.
  destruct (nth_error m i) as [e|] eqn:He; [|apply nth_error_None in He; lia].
  destruct (Hwf i e He) as [Hch Hds].
  rewrite (hits_nth d m i e He). unfold entry_hit.
  assert (Hchild : forall c, In c (e_children e) ->
            (nth c (hits d (firstn i m)) false = true <-> spec_intersects m d c)).
  { intros c Hc. rewrite Forall_forall in Hch. specialize (Hch c Hc).
    rewrite hits_firstn by lia. apply IH; lia. }
  split.
  - intros H. destruct (entry_intersects (e_def e) d) eqn:Hint; cbn [negb] in H; [|discriminate].
    apply (entry_intersects_spec _ _ Hds) in Hint.
    apply (SI m d i e He Hint).
    destruct (e_children e) as [|c0 cs] eqn:Hcs; [left; reflexivity|]. right.
    destruct (e_conj e).
    + left. split; [reflexivity|]. rewrite forallb_forall in H.
      apply Forall_forall. intros c Hc. apply Hchild; [exact Hc|]. apply H. exact Hc.
    + right. split; [reflexivity|]. rewrite existsb_exists in H. destruct H as [c [Hc H]].
      apply Exists_exists. exists c. split; [exact Hc|]. apply Hchild; assumption.
  - intros H. inversion H as [i' e' He' Hdims Hkids]; subst i'.
    rewrite He in He'. inversion He'; subst e'. clear He'.
    apply (entry_intersects_spec _ _ Hds) in Hdims. rewrite Hdims. cbn [negb].
    destruct (e_children e) as [|c0 cs] eqn:Hcs; [reflexivity|].
    destruct Hkids as [Hk|[[Hc Hk]|[Hc Hk]]]; [discriminate| |]; rewrite Hc.
    + apply forallb_forall. intros c Hin. rewrite Forall_forall in Hk. apply Hchild; [exact Hin|].
      apply Hk. exact Hin.
    + apply existsb_exists. apply Exists_exists in Hk. destruct Hk as [c [Hin Hk]].
      exists c. split; [exact Hin|]. apply Hchild; assumption.
Qed.

(* entries_decodable gives the child-order and segment-validity parts of mapping_wf *)
Lemma entries_decodable_children m : forall k, entries_decodable k m = true ->
  forall i e, nth_error m i = Some e -> Forall (fun c => (c < k + i)%nat) (e_children e).
Proof.
  induction m as [|e0 m IH]; intros k H i e He.
  - destruct i; discriminate.
  - cbn in H. apply andb_true_iff in H. destruct H as [H Hr]. apply andb_true_iff in H. destruct H as [Hc _].
    destruct i as [|i].
    + cbn in He. inversion He; subst. apply Forall_forall. intros c Hin.
      rewrite forallb_forall in Hc. specialize (Hc c Hin). apply Nat.ltb_lt in Hc. lia.
    + cbn in He. specialize (IH (S k) Hr i e He).
      eapply Forall_impl; [|exact IH]. cbn. intros; lia.
Qed.

(* ------------------------------------------------------------------ offered = exactly the spec's set *)
Lemma indexed_In_from (m : list entry) : forall k i e,
  In (i, e) (combine (seq k (length m)) m) <-> (k <= i)%nat /\ nth_error m (i - k) = Some e.
Proof.
  induction m as [|a m IH]; intros k i e; cbn [length seq combine].
  - split; [intros []|]. intros [_ H]. destruct (i - k)%nat; discriminate.
  - cbn [In]. rewrite IH. split.
    + intros [H|[Hk H]].
      * inversion H; subst. rewrite Nat.sub_diag. split; [lia|reflexivity].
      * split; [lia|]. replace (i - k)%nat with (S (i - S k)) by lia. exact H.
    + intros [Hk H]. destruct (i - k)%nat as [|j] eqn:Hj.
      * left. cbn in H. inversion H. f_equal. lia.
      * right. split; [lia|]. cbn in H. replace (i - S k)%nat with j by lia. exact H.
Qed.

Lemma indexed_In m i e : In (i, e) (indexed m) <-> nth_error m i = Some e.
Proof.
  unfold indexed. rewrite indexed_In_from. rewrite Nat.sub_0_r. split; [tauto|]. intros; split; [lia|assumption].
Qed.

Lemma eff_ignored_false applied e :
  eff_ignored applied e = false <-> e_ignored e = false /\ ~ In (e_bit e) applied.
Proof. unfold eff_ignored. rewrite orb_false_iff, zmem_false. tauto. Qed.

Lemma offered_idx_In t d i e :
  In (i, e) (offered_idx t d) <->
  nth_error (t_entries t) i = Some e /\ eff_ignored (t_applied t) e = false /\
  nth i (hits d (t_entries t)) false = true.
Proof.
  unfold offered_idx. rewrite filter_In, indexed_In. cbn [fst snd].
  rewrite andb_true_iff, negb_true_iff. tauto.
Qed.

Lemma table_offered_exact t d cs : mapping_wf (t_entries t) -> table_offered t d = Some cs ->
  forall c, In c cs <->
    exists i e, nth_error (t_entries t) i = Some e /\ c = mk_cand t d (i, e) /\
                e_ignored e = false /\ ~ In (e_bit e) (t_applied t) /\
                spec_intersects (t_entries t) d i.
Proof.
  intros Hwf H c. unfold table_offered in H.
  destruct (entries_decodable 0 (t_entries t)); [|discriminate]. inversion H; subst cs. clear H.
  rewrite in_map_iff. split.
  - intros [[i e] [Hc Hin]]. apply offered_idx_In in Hin. destruct Hin as [He [Hig Hh]].
    exists i, e. apply eff_ignored_false in Hig.
    assert (Hi : (i < length (t_entries t))%nat) by (apply nth_error_Some; congruence).
    apply (hits_spec _ d Hwf i Hi) in Hh. intuition.
  - intros [i [e [He [Hc [Hig [Hap Hs]]]]]]. exists (i, e). split; [symmetry; exact Hc|].
    apply offered_idx_In. split; [exact He|]. split; [apply eff_ignored_false; auto|].
    assert (Hi : (i < length (t_entries t))%nat) by (apply nth_error_Some; congruence).
    apply (hits_spec _ d Hwf i Hi). exact Hs.
Qed.

Lemma offered_In f : forall d cs, offered f d = Some cs ->
  forall c, In c cs <-> exists t ct, In t f /\ table_offered t d = Some ct /\ In c ct.
Proof.
  induction f as [|t f IH]; intros d cs H c; cbn [offered] in H.
  - inversion H; subst. split; [intros []|]. intros [t [ct [[] _]]].
  - destruct (table_offered t d) as [a|] eqn:Ha; [|discriminate].
    destruct (offered f d) as [b|] eqn:Hb; [|discriminate]. inversion H; subst cs. clear H.
    rewrite in_app_iff, (IH d b Hb c). split.
    + intros [Hc|[t' [ct [Hin [Ht Hc]]]]].
      * exists t, a. split; [left; reflexivity|]. auto.
      * exists t', ct. split; [right; exact Hin|]. auto.
    + intros [t' [ct [[Heq|Hin] [Ht Hc]]]].
      * subst t'. rewrite Ha in Ht. inversion Ht; subst. left. exact Hc.
      * right. exists t', ct. auto.
Qed.

Definition font_wf (f : list table) : Prop := forall t, In t f -> mapping_wf (t_entries t).

Lemma offered_exact f d cs : font_wf f -> offered f d = Some cs ->
  forall c, In c cs <->
    exists t i e, In t f /\ nth_error (t_entries t) i = Some e /\ c = mk_cand t d (i, e) /\
                  e_ignored e = false /\ ~ In (e_bit e) (t_applied t) /\
                  spec_intersects (t_entries t) d i.
Proof.
  intros Hwf H c. rewrite (offered_In f d cs H c). split.
  - intros [t [ct [Hin [Ht Hc]]]]. apply (table_offered_exact t d ct (Hwf t Hin) Ht) in Hc.
    destruct Hc as [i [e Hc]]. exists t, i, e. tauto.
  - intros [t [i [e [Hin Hc]]]].
    pose proof (table_offered_exact t d) as Hx. unfold table_offered in Hx.
    destruct (entries_decodable 0 (t_entries t)) eqn:Hd.
    + exists t, (map (mk_cand t d) (offered_idx t d)). split; [exact Hin|]. split; [unfold table_offered; rewrite Hd; reflexivity|].
      apply (Hx _ (Hwf t Hin) eq_refl). exists i, e. exact Hc.
    + exfalso. clear Hx Hc. revert H Hin Hd. clear. revert cs.
      induction f as [|t0 f IH]; intros cs H Hin Hd; [destruct Hin|].
      cbn [offered] in H. unfold table_offered in H at 1.
      destruct Hin as [Heq|Hin].
      * subst t0. rewrite Hd in H. discriminate.
      * destruct (entries_decodable 0 (t_entries t0)); [|discriminate].
        destruct (offered f d) as [b|] eqn:Hb; [|discriminate]. apply (IH b eq_refl Hin Hd).
Qed.

(* ------------------------------------------------------------------ monotonicity *)
Lemma cp_intersects_mono e a b : (forall x, cp_in a x -> cp_in b x) ->
  cp_intersects e a = true -> cp_intersects e b = true.
Proof.
  intros Hs. rewrite !cp_intersects_spec. intros [H|[x [Hx H]]]; [left; exact H|].
  right. exists x. auto.
Qed.

Lemma feat_intersects_mono e a b :
  match a, b with _, FAll => True | FAll, FSet _ => False | FSet x, FSet y => incl x y end ->
  feat_intersects e a = true -> feat_intersects e b = true.
Proof.
  intros Hs. rewrite !feat_intersects_spec. intros [H|[t [Ht H]]]; [left; exact H|].
  right. exists t. split; [exact Ht|].
  destruct a, b; cbn [feat_in] in *; auto. contradiction.
Qed.

Lemma ds_intersects_mono e a b :
  match a, b with _, DAll => True | DAll, DRanges _ => False
                | DRanges x, DRanges y => forall t v, dsmap_in x t v -> dsmap_in y t v end ->
  ds_intersects e a = true -> ds_intersects e b = true.
Proof.
  intros Hs H. destruct b as [|y]; [reflexivity|]. destruct a as [|x]; [contradiction|].
  cbn [ds_intersects] in *. destruct e as [|p r]; [reflexivity|].
  rewrite existsb_exists in *. destruct H as [ta [Hta H]]. exists ta. split; [exact Hta|].
  rewrite existsb_exists in *. destruct H as [tb [Htb H]].
  apply andb_true_iff in H. destruct H as [Heq Hov]. apply Z.eqb_eq in Heq.
  apply ranges_overlap_spec in Hov. destruct Hov as [v [Hva Hvb]].
  assert (Hx : dsmap_in x (fst tb) v).
  { exists (snd tb). rewrite <- surjective_pairing. auto. }
  apply Hs in Hx. destruct Hx as [rs [Hrs Hv]].
  exists (fst tb, rs). split; [exact Hrs|]. cbn [fst snd]. rewrite Heq, Z.eqb_refl. cbn.
  apply ranges_overlap_spec. exists v. auto.
Qed.

Lemma entry_intersects_mono e a b : sdef_subset a b ->
  entry_intersects e a = true -> entry_intersects e b = true.
Proof.
  intros [Hc [Hf Hd]]. unfold entry_intersects. rewrite !andb_true_iff. intros [[H1 H2] H3].
  split; [split|].
  - eapply cp_intersects_mono; eauto.
  - eapply feat_intersects_mono; eauto.
  - eapply ds_intersects_mono; eauto.
Qed.

Lemma entry_hit_mono a b acc acc' e : sdef_subset a b ->
  (forall c, nth c acc false = true -> nth c acc' false = true) ->
  entry_hit a acc e = true -> entry_hit b acc' e = true.
Proof.
  intros Hs Hacc. unfold entry_hit.
  destruct (entry_intersects (e_def e) a) eqn:Ha; cbn [negb]; [|discriminate].
  rewrite (entry_intersects_mono _ _ _ Hs Ha). cbn [negb].
  destruct (e_children e) as [|c0 cs]; [auto|]. destruct (e_conj e).
  - rewrite !forallb_forall. intros H c Hc. apply Hacc. apply H. exact Hc.
  - rewrite !existsb_exists. intros [c [Hc H]]. exists c. split; [exact Hc|]. apply Hacc. exact H.
Qed.

Lemma hits_mono a b m : sdef_subset a b ->
  forall i, nth i (hits a m) false = true -> nth i (hits b m) false = true.
Proof.
  intros Hs. induction m as [|e m IH] using rev_ind; intros i.
  - cbn. destruct i; discriminate.
  - rewrite !hits_app.
    destruct (Nat.lt_ge_cases i (length m)) as [Hi|Hi].
    + rewrite !app_nth1 by (rewrite hits_length; exact Hi). apply IH.
    + rewrite !app_nth2 by (rewrite hits_length; exact Hi). rewrite !hits_length.
      destruct (i - length m)%nat as [|j]; cbn [nth].
      * apply entry_hit_mono; assumption.
      * destruct j; discriminate.
Qed.

Lemma cand_entry_mk t a b ie : cand_entry (mk_cand t a ie) = cand_entry (mk_cand t b ie).
Proof. reflexivity. Qed.

Lemma table_offered_mono t a b ca : sdef_subset a b -> table_offered t a = Some ca ->
  exists cb, table_offered t b = Some cb /\ incl (map cand_entry ca) (map cand_entry cb).
Proof.
  intros Hs H. unfold table_offered in *. destruct (entries_decodable 0 (t_entries t)); [|discriminate].
  inversion H; subst ca. eexists. split; [reflexivity|].
  intros x Hx. rewrite map_map in *. rewrite in_map_iff in *. destruct Hx as [[i e] [Hx Hin]].
  exists (i, e). split; [rewrite <- Hx; reflexivity|].
  rewrite offered_idx_In in *. destruct Hin as [He [Hig Hh]]. split; [exact He|]. split; [exact Hig|].
  eapply hits_mono; eauto.
Qed.

Lemma offered_mono f a b : sdef_subset a b -> forall ca, offered f a = Some ca ->
  exists cb, offered f b = Some cb /\ incl (map cand_entry ca) (map cand_entry cb).
Proof.
  intros Hs. induction f as [|t f IH]; intros ca H; cbn [offered] in *.
  - inversion H; subst. exists []. split; [reflexivity|]. intros x [].
  - destruct (table_offered t a) as [x|] eqn:Hx; [|discriminate].
    destruct (offered f a) as [y|] eqn:Hy; [|discriminate]. inversion H; subst ca. clear H.
    destruct (table_offered_mono t a b x Hs Hx) as [x' [Hx' Hi1]].
    destruct (IH y eq_refl) as [y' [Hy' Hi2]]. rewrite Hx', Hy'.
    exists (x' ++ y'). split; [reflexivity|]. rewrite !map_app.
    apply incl_app; [apply incl_appl | apply incl_appr]; assumption.
Qed.

Lemma sdef_subset_all d : sdef_subset d sdef_all.
Proof.
  unfold sdef_subset, sdef_all. cbn. split; [intros x _ []|].
  split; [destruct (sd_feat d); exact I | destruct (sd_ds d); exact I].
Qed.

Lemma offered_subset_all_lemma f d cs : offered f d = Some cs ->
  exists call, offered f sdef_all = Some call /\ incl (map cand_entry cs) (map cand_entry call).
Proof. apply offered_mono. apply sdef_subset_all. Qed.

(* ------------------------------------------------------------------ IntersectionInfo ordering *)
Lemma lcmp_refl a : lcmp a a = Eq.
Proof. induction a as [|x a IH]; cbn; [reflexivity|]. rewrite Z.compare_refl. exact IH. Qed.

Lemma lcmp_eq a : forall b, lcmp a b = Eq -> a = b.
Proof.
  induction a as [|x a IH]; intros [|y b]; cbn; try discriminate; [reflexivity|].
  destruct (x ?= y) eqn:E; try discriminate. intros H. apply Z.compare_eq in E. subst.
  f_equal. apply IH. exact H.
Qed.

Lemma lcmp_antisym a : forall b, lcmp a b = CompOpp (lcmp b a).
Proof.
  induction a as [|x a IH]; intros [|y b]; cbn; try reflexivity.
  rewrite (Z.compare_antisym x y). destruct (x ?= y); cbn; auto.
Qed.

Lemma lcmp_lt_trans a : forall b c, lcmp a b = Lt -> lcmp b c = Lt -> lcmp a c = Lt.
Proof.
  induction a as [|x a IH]; intros [|y b] [|z c]; cbn; try discriminate; auto.
  intros H1 H2.
  destruct (x ?= y) eqn:E1; try discriminate; destruct (y ?= z) eqn:E2; try discriminate.
  - apply Z.compare_eq in E1, E2. subst. rewrite Z.compare_refl. eapply IH; eauto.
  - apply Z.compare_eq in E1. subst. rewrite E2. reflexivity.
  - apply Z.compare_eq in E2. subst. rewrite E1. reflexivity.
  - rewrite Z.compare_lt_iff in E1, E2. assert (Hxz : x < z) by lia.
    apply Z.compare_lt_iff in Hxz. rewrite Hxz. reflexivity.
Qed.

Definition ikey (a : info) : list Z := i_cp a :: i_tags a :: flat_ds (i_ds a).

Lemma info3_cmp_key a b : info3_cmp a b = lcmp (ikey a) (ikey b).
Proof.
  unfold info3_cmp, ikey. cbn [lcmp].
  destruct (i_cp a ?= i_cp b); try reflexivity. destruct (i_tags a ?= i_tags b); reflexivity.
Qed.

Lemma info_cmp_key a b :
  info_cmp a b = match lcmp (ikey a) (ikey b) with Eq => (i_order b ?= i_order a) | c => c end.
Proof.
  rewrite <- info3_cmp_key. unfold info_cmp, info3_cmp.
  rewrite (Z.compare_antisym (i_order a) (i_order b)).
  destruct (lcmp [i_cp a; i_tags a] [i_cp b; i_tags b]); reflexivity.
Qed.

Lemma info_cmp_antisym a b : info_cmp a b = CompOpp (info_cmp b a).
Proof.
  rewrite !info_cmp_key, (lcmp_antisym (ikey a) (ikey b)), (Z.compare_antisym (i_order a) (i_order b)).
  destruct (lcmp (ikey b) (ikey a)); reflexivity.
Qed.

Lemma zcmp_le_trans a b c : (b ?= a) <> Gt -> (c ?= b) <> Gt -> (c ?= a) <> Gt.
Proof.
  intros H1 H2. destruct (Z.compare_spec b a), (Z.compare_spec c b), (Z.compare_spec c a);
    try congruence; lia.
Qed.

Lemma info_le_trans a b c : info_cmp a b <> Gt -> info_cmp b c <> Gt -> info_cmp a c <> Gt.
Proof.
  rewrite !info_cmp_key. intros H1 H2.
  destruct (lcmp (ikey a) (ikey b)) eqn:E1; [| |congruence].
  - apply lcmp_eq in E1. rewrite E1. destruct (lcmp (ikey b) (ikey c)) eqn:E2; [| congruence | congruence].
    apply (zcmp_le_trans _ (i_order b)); assumption.
  - destruct (lcmp (ikey b) (ikey c)) eqn:E2; [| |congruence].
    + apply lcmp_eq in E2. rewrite <- E2, E1. congruence.
    + rewrite (lcmp_lt_trans _ _ _ E1 E2). congruence.
Qed.

Lemma info_le_best x c : info_cmp (c_info x) (c_info c) <> Gt ->
  info3_cmp (c_info x) (c_info c) <> Gt /\
  (info3_cmp (c_info x) (c_info c) = Eq -> i_order (c_info c) <= i_order (c_info x)).
Proof.
  rewrite info_cmp_key, info3_cmp_key. destruct (lcmp (ikey (c_info x)) (ikey (c_info c))).
  - intros H. split; [congruence|]. intros _.
    destruct (Z.compare_spec (i_order (c_info c)) (i_order (c_info x))); [lia|lia|congruence].
  - intros _. split; congruence.
  - congruence.
Qed.

(* ------------------------------------------------------------------ max_by_key *)
Lemma max_fold_spec l : forall b,
  exists c, fold_left max_step l (Some b) = Some c /\ In c (b :: l) /\
            forall x, In x (b :: l) -> info_cmp (c_info x) (c_info c) <> Gt.
Proof.
  induction l as [|x l IH]; intros b.
  - exists b. cbn. split; [reflexivity|]. split; [auto|]. intros y [Hy|[]]. subst.
    rewrite info_cmp_key, lcmp_refl, Z.compare_refl. congruence.
  - cbn [fold_left max_step].
    destruct (info_cmp (c_info b) (c_info x)) eqn:E.
    + destruct (IH x) as [c [Hc [Hin Hmax]]]. exists c. split; [exact Hc|]. split.
      * destruct Hin as [H|H]; [subst; right; left; reflexivity | right; right; exact H].
      * intros y [Hy|[Hy|Hy]].
        -- subst y. eapply info_le_trans; [|apply Hmax; left; reflexivity]. congruence.
        -- subst y. apply Hmax. left. reflexivity.
        -- apply Hmax. right. exact Hy.
    + destruct (IH x) as [c [Hc [Hin Hmax]]]. exists c. split; [exact Hc|]. split.
      * destruct Hin as [H|H]; [subst; right; left; reflexivity | right; right; exact H].
      * intros y [Hy|[Hy|Hy]].
        -- subst y. eapply info_le_trans; [|apply Hmax; left; reflexivity]. congruence.
        -- subst y. apply Hmax. left. reflexivity.
        -- apply Hmax. right. exact Hy.
    + destruct (IH b) as [c [Hc [Hin Hmax]]]. exists c. split; [exact Hc|]. split.
      * destruct Hin as [H|H]; [subst; left; reflexivity | right; right; exact H].
      * intros y [Hy|[Hy|Hy]].
        -- subst y. apply Hmax. left. reflexivity.
        -- subst y. eapply info_le_trans; [|apply Hmax; left; reflexivity].
           rewrite info_cmp_antisym, E. cbn. congruence.
        -- apply Hmax. right. exact Hy.
Qed.

Lemma max_by_info_none l : max_by_info l = None -> l = [].
Proof.
  destruct l as [|x l]; [reflexivity|]. unfold max_by_info. cbn [fold_left max_step].
  destruct (max_fold_spec l x) as [c [Hc _]]. rewrite Hc. discriminate.
Qed.

Lemma max_by_info_best l c : max_by_info l = Some c -> best_in c l.
Proof.
  destruct l as [|x l]; [discriminate|]. unfold max_by_info. cbn [fold_left max_step].
  destruct (max_fold_spec l x) as [c' [Hc [Hin Hmax]]]. rewrite Hc. intros H. inversion H; subst c'.
  split; [exact Hin|]. intros y Hy. apply info_le_best. apply Hmax. exact Hy.
Qed.

(* ------------------------------------------------------------------ BTreeMap model *)
Fixpoint ksorted (m : list (Z * cand)) : Prop :=
  match m with
  | [] => True
  | kv :: r => (forall kv', In kv' r -> fst kv < fst kv') /\ ksorted r
  end.

Lemma map_insert_In k v m kv : In kv (map_insert k v m) -> kv = (k, v) \/ In kv m.
Proof.
  induction m as [|a m IH]; cbn [map_insert].
  - intros [H|[]]. left. auto.
  - destruct (k <? fst a).
    + intros [H|H]; [left; auto | right; exact H].
    + destruct (k =? fst a).
      * intros [H|H]; [left; auto | right; right; exact H].
      * intros [H|H]; [right; left; exact H|]. destruct (IH H); [left | right; right]; assumption.
Qed.

Lemma map_insert_sorted k v m : ksorted m -> ksorted (map_insert k v m).
Proof.
  induction m as [|a m IH]; cbn [map_insert ksorted].
  - intros _. split; [intros ? []|exact I].
  - intros [Ha Hm]. destruct (k <? fst a) eqn:E1.
    + apply Z.ltb_lt in E1. cbn [ksorted]. split; [|split; assumption].
      intros kv' [H|H]; [subst; exact E1|]. cbn [fst]. specialize (Ha kv' H). lia.
    + destruct (k =? fst a) eqn:E2.
      * apply Z.eqb_eq in E2. cbn [ksorted]. split; [|exact Hm]. cbn [fst]. rewrite E2. exact Ha.
      * apply Z.ltb_ge in E1. apply Z.eqb_neq in E2. cbn [ksorted]. split; [|apply IH; exact Hm].
        intros kv' H. apply map_insert_In in H. destruct H as [H|H]; [subst; cbn; lia|]. apply Ha. exact H.
Qed.

Lemma ksorted_filter P m : ksorted m -> ksorted (filter P m).
Proof.
  induction m as [|a m IH]; cbn [filter ksorted]; [auto|]. intros [Ha Hm].
  destruct (P a); cbn [ksorted]; [|apply IH; exact Hm].
  split; [|apply IH; exact Hm]. intros kv' H. apply filter_In in H. apply Ha. tauto.
Qed.

Lemma ksorted_NoDup m : ksorted m -> NoDup (map fst m).
Proof.
  induction m as [|a m IH]; cbn [map ksorted]; [constructor|]. intros [Ha Hm].
  constructor; [|apply IH; exact Hm]. intros H. apply in_map_iff in H. destruct H as [kv [He Hin]].
  specialize (Ha kv Hin). lia.
Qed.

(* ------------------------------------------------------------------ group_patches *)

Definition nmap_ok (P : cand -> bool) (cands : list cand) (m : list (Z * cand)) : Prop :=
  ksorted m /\
  forall kv, In kv m -> fst kv = c_uri (snd kv) /\ In (snd kv) cands /\ P (snd kv) = true.

Lemma nmap_ok_weaken P l l' m : incl l l' -> nmap_ok P l m -> nmap_ok P l' m.
Proof. intros Hi [Hs H]. split; [exact Hs|]. intros kv Hkv. destruct (H kv Hkv) as [A [B C]]. auto. Qed.

Lemma nmap_ok_insert P l m c : nmap_ok P l m -> In c l -> P c = true ->
  nmap_ok P l (map_insert (c_uri c) c m).
Proof.
  intros [Hs H] Hc HP. split; [apply map_insert_sorted; exact Hs|].
  intros kv Hkv. apply map_insert_In in Hkv. destruct Hkv as [Hkv|Hkv]; [subst; cbn; auto | apply H; exact Hkv].
Qed.

Lemma nmap_ok_remove P l m k : nmap_ok P l m ->
  nmap_ok P l (map_remove k m) /\ ~ In k (map fst (map_remove k m)).
Proof.
  intros [Hs H]. split; [split|].
  - apply ksorted_filter. exact Hs.
  - intros kv Hkv. apply filter_In in Hkv. apply H. tauto.
  - intros Hin. apply in_map_iff in Hin. destruct Hin as [kv [He Hkv]]. apply filter_In in Hkv.
    destruct Hkv as [_ Hn]. rewrite He, Z.eqb_refl in Hn. discriminate.
Qed.

Lemma filter_snoc {A} (P : A -> bool) l c : filter P (l ++ [c]) = filter P l ++ (if P c then [c] else []).
Proof. rewrite filter_app. cbn. destruct (P c); reflexivity. Qed.

Definition grouping_ok (cands : list cand) (ift iftx : option Z) (g : grouping) : Prop :=
  g_full g = filter is_full cands /\
  g_pift g = filter (pred_pift ift) cands /\
  g_piftx g = filter (pred_piftx ift iftx) cands /\
  nmap_ok (pred_nift ift) cands (g_nift g) /\
  nmap_ok (pred_niftx ift iftx) cands (g_niftx g).

Lemma group_patches_snoc l c ift iftx :
  group_patches (l ++ [c]) ift iftx = group_step ift iftx (group_patches l ift iftx) c.
Proof. unfold group_patches. rewrite fold_left_app. reflexivity. Qed.

Lemma group_patches_ok cands ift iftx : forall g,
  group_patches cands ift iftx = Some g -> grouping_ok cands ift iftx g.
Proof.
  induction cands as [|c l IH] using rev_ind; intros g H.
  - cbn in H. inversion H; subst. unfold grouping_ok, nmap_ok. cbn.
    repeat split; auto; try (intros ? []); try contradiction.
  - rewrite group_patches_snoc in H.
    destruct (group_patches l ift iftx) as [g0|]; [|discriminate].
    destruct (IH g0 eq_refl) as [H1 [H2 [H3 [H4 H5]]]].
    assert (Hincl : incl l (l ++ [c])) by (apply incl_appl, incl_refl).
    assert (Hc : In c (l ++ [c])) by (apply in_or_app; right; left; reflexivity).
    apply (nmap_ok_weaken _ _ _ _ Hincl) in H4. apply (nmap_ok_weaken _ _ _ _ Hincl) in H5.
    unfold grouping_ok. rewrite !filter_snoc.
    unfold pred_pift, pred_piftx, pred_nift, pred_niftx, is_full, is_part, is_glyph in *.
    cbn [group_step] in H. destruct (c_fmt c) eqn:Hf.
    + destruct (c_tmpl_ok c); [|discriminate]. inversion H; subst g. cbn [g_full g_pift g_piftx g_nift g_niftx andb].
      rewrite H1, H2, H3, !app_nil_r. auto.
    + destruct (opt_eqb (c_cid c) ift) eqn:E1.
      * destruct (c_tmpl_ok c); [|discriminate]. inversion H; subst g. cbn [g_full g_pift g_piftx g_nift g_niftx andb negb].
        rewrite H1, H2, H3, !app_nil_r. auto.
      * destruct (opt_eqb (c_cid c) iftx) eqn:E2.
        -- destruct (c_tmpl_ok c); [|discriminate]. inversion H; subst g. cbn [g_full g_pift g_piftx g_nift g_niftx andb negb].
           rewrite H1, H2, H3, !app_nil_r. auto.
        -- inversion H; subst g. cbn [andb negb]. rewrite H1, H2, H3, !app_nil_r. auto.
    + destruct (opt_eqb (c_cid c) ift) eqn:E1.
      * destruct (c_tmpl_ok c); [|discriminate]. inversion H; subst g. cbn [g_full g_pift g_piftx g_nift g_niftx andb negb].
        rewrite H1, H2, H3, !app_nil_r. split; [auto|]. split; [auto|]. split; [auto|]. split; [|assumption].
        apply nmap_ok_insert; [assumption|assumption|cbn beta; rewrite Hf, E1; reflexivity].
      * destruct (opt_eqb (c_cid c) iftx) eqn:E2.
        -- destruct (c_tmpl_ok c); [|discriminate]. inversion H; subst g. cbn [g_full g_pift g_piftx g_nift g_niftx andb negb].
           rewrite H1, H2, H3, !app_nil_r. split; [auto|]. split; [auto|]. split; [auto|]. split; [assumption|].
           apply nmap_ok_insert; [assumption|assumption|cbn beta; rewrite Hf, E1, E2; reflexivity].
        -- inversion H; subst g. cbn [andb negb]. rewrite H1, H2, H3, !app_nil_r. auto.
Qed.

(* ------------------------------------------------------------------ select_next_patches_from_candidates *)

Definition group_shape (cands : list cand) (ift iftx : option Z) (g : group) : Prop :=
  match g with
  | GFull c => best_in c (filter is_full cands)
  | GMixed a b =>
      filter is_full cands = [] /\
      scope_ok (filter (pred_pift ift) cands) a /\
      scope_ok (filter (uri_differs (sel_of a)) (filter (pred_piftx ift iftx) cands)) b /\
      nmap_ok (pred_nift ift) cands (scoped_noinv a) /\
      nmap_ok (pred_niftx ift iftx) cands (scoped_noinv b) /\
      (forall c, In c (scoped_partial a ++ scoped_partial b) ->
                 ~ In (c_uri c) (map fst (scoped_noinv a ++ scoped_noinv b))) /\
      (forall k, In k (map fst (scoped_noinv a)) -> ~ In k (map fst (scoped_noinv b)))
  end.

Lemma nmap_ok_nil P cands : nmap_ok P cands [].
Proof. split; [exact I|]. intros ? []. Qed.

Lemma fold_remove_spec P cands (l : list (Z * cand)) : forall m, nmap_ok P cands m ->
  let r := fold_left (fun m kv => map_remove (fst kv) m) l m in
  nmap_ok P cands r /\ incl r m /\ forall k, In k (map fst l) -> ~ In k (map fst r).
Proof.
  induction l as [|kv l IH]; intros m Hm; cbn [fold_left map].
  - split; [exact Hm|]. split; [apply incl_refl|]. intros k [].
  - destruct (nmap_ok_remove P cands m (fst kv) Hm) as [Hm1 Hk0].
    destruct (IH _ Hm1) as [Hr [Hincl Hks]]. cbv zeta. split; [exact Hr|]. split.
    + intros x Hx. apply Hincl in Hx. apply filter_In in Hx. tauto.
    + intros k [Hk|Hk].
      * subst k. intros Hin. apply Hk0. apply in_map_iff in Hin. destruct Hin as [x [Hx Hin]].
        apply in_map_iff. exists x. split; [exact Hx|]. apply Hincl. exact Hin.
      * apply Hks. exact Hk.
Qed.

Lemma select_shape cands ift iftx g :
  select_from_candidates cands ift iftx = Some g -> group_shape cands ift iftx g.
Proof.
  unfold select_from_candidates. destruct (group_patches cands ift iftx) as [gr|] eqn:Hg; [|discriminate].
  destruct (group_patches_ok _ _ _ _ Hg) as [H1 [H2 [H3 [H4 H5]]]]. rewrite H1, H2, H3.
  destruct (max_by_info (filter is_full cands)) as [c|] eqn:Hfull.
  { intros H. inversion H; subst g. cbn. apply max_by_info_best. exact Hfull. }
  apply max_by_info_none in Hfull.
  destruct (max_by_info (filter (pred_pift ift) cands)) as [a|] eqn:Ha.
  - apply max_by_info_best in Ha.
    destruct (max_by_info (filter (uri_differs (Some a)) (filter (pred_piftx ift iftx) cands))) as [b|] eqn:Hb.
    + apply max_by_info_best in Hb. intros H. inversion H; subst g. cbn [group_shape sel_of scope_ok scoped_noinv scoped_partial].
      split; [exact Hfull|]. split; [exact Ha|]. split; [exact Hb|].
      split; [apply nmap_ok_nil|]. split; [apply nmap_ok_nil|]. split; [intros ? _ []|intros ? []].
    + apply max_by_info_none in Hb. intros H. inversion H; subst g. cbn [group_shape sel_of scope_ok scoped_noinv scoped_partial].
      destruct (nmap_ok_remove _ _ _ (c_uri a) H5) as [H5' Hk].
      split; [exact Hfull|]. split; [exact Ha|]. split; [exact Hb|].
      split; [apply nmap_ok_nil|]. split; [exact H5'|]. split; [|intros ? []].
      intros c [Hc|[]]. subst c. cbn [app]. exact Hk.
  - apply max_by_info_none in Ha.
    destruct (max_by_info (filter (uri_differs None) (filter (pred_piftx ift iftx) cands))) as [b|] eqn:Hb.
    + apply max_by_info_best in Hb. intros H. inversion H; subst g. cbn [group_shape sel_of scope_ok scoped_noinv scoped_partial].
      destruct (nmap_ok_remove _ _ _ (c_uri b) H4) as [H4' Hk].
      split; [exact Hfull|]. split; [exact Ha|]. split; [exact Hb|].
      split; [exact H4'|]. split; [apply nmap_ok_nil|]. split; [|intros ? _ []].
      intros c [Hc|[]]. subst c. rewrite app_nil_r. exact Hk.
    + apply max_by_info_none in Hb. intros H. inversion H; subst g. cbn [group_shape sel_of scope_ok scoped_noinv scoped_partial].
      destruct (fold_remove_spec _ _ (g_nift gr) _ H5) as [Hr [_ Hks]].
      split; [exact Hfull|]. split; [exact Ha|]. split; [exact Hb|].
      split; [exact H4|]. split; [exact Hr|]. split; [intros ? []|]. exact Hks.
Qed.

(* --- consequences of the shape --- *)
Lemma best_in_In c l : best_in c l -> In c l.
Proof. intros [H _]. exact H. Qed.

Lemma members_offered cands ift iftx g : select_from_candidates cands ift iftx = Some g ->
  incl (members g) cands.
Proof.
  intros H. apply select_shape in H. destruct g as [c|a b]; cbn in H.
  - intros x [Hx|[]]. subst. apply best_in_In in H. apply filter_In in H. tauto.
  - destruct H as [_ [Ha [Hb [Hna [Hnb _]]]]]. unfold members. cbn [inv_members noinv_members].
    intros x Hx. apply in_app_or in Hx. destruct Hx as [Hx|Hx].
    + apply in_app_or in Hx. destruct Hx as [Hx|Hx].
      * destruct a as [ca|]; [|destruct Hx]. destruct Hx as [Hx|[]]. subst. cbn in Ha.
        apply best_in_In in Ha. apply filter_In in Ha. tauto.
      * destruct b as [cb|]; [|destruct Hx]. destruct Hx as [Hx|[]]. subst. cbn in Hb.
        apply best_in_In in Hb. apply filter_In in Hb. destruct Hb as [Hb _]. apply filter_In in Hb. tauto.
    + rewrite map_app in Hx. apply in_app_or in Hx. destruct Hx as [Hx|Hx];
        apply in_map_iff in Hx; destruct Hx as [kv [He Hin]]; subst x.
      * apply Hna in Hin. tauto.
      * apply Hnb in Hin. tauto.
Qed.

Lemma group_uris_nodup cands ift iftx g : select_from_candidates cands ift iftx = Some g ->
  NoDup (uris g).
Proof.
  intros H. apply select_shape in H. destruct g as [c|a b]; cbn in H.
  - cbn. constructor; [intros []|constructor].
  - destruct H as [_ [Ha [Hb [Hna [Hnb [Hdis Hdis2]]]]]]. unfold uris. cbn [inv_members noinv_members].
    assert (Hkeys : NoDup (map fst (scoped_noinv a ++ scoped_noinv b))).
    { rewrite map_app. destruct Hna as [Hsa _], Hnb as [Hsb _].
      apply ksorted_NoDup in Hsa, Hsb. revert Hsa Hsb Hdis2. generalize (map fst (scoped_noinv a)) (map fst (scoped_noinv b)).
      intros l1 l2 N1 N2 Hd. induction l1 as [|x l1 IH]; [exact N2|]. cbn. inversion N1; subst.
      constructor.
      - intros Hin. apply in_app_or in Hin. destruct Hin as [Hin|Hin]; [contradiction|].
        apply (Hd x); [left; reflexivity | exact Hin].
      - apply IH; [assumption|]. intros k Hk. apply Hd. right. exact Hk. }
    assert (Hpart : NoDup (map c_uri (scoped_partial a ++ scoped_partial b))).
    { destruct a as [ca|ma], b as [cb|mb]; cbn [scoped_partial app map].
      - constructor; [|constructor; [intros []|constructor]]. intros [Hx|[]].
        cbn in Hb. apply best_in_In in Hb. apply filter_In in Hb. destruct Hb as [_ Hb].
        cbn in Hb. apply negb_true_iff, Z.eqb_neq in Hb. congruence.
      - constructor; [intros []|constructor].
      - constructor; [intros []|constructor].
      - constructor. }
    revert Hpart Hkeys Hdis. generalize (scoped_partial a ++ scoped_partial b) (map fst (scoped_noinv a ++ scoped_noinv b)).
    intros l1 l2 N1 N2 Hd. induction l1 as [|x l1 IH]; [exact N2|]. cbn in *. inversion N1; subst.
    constructor.
    + intros Hin. apply in_app_or in Hin. destruct Hin as [Hin|Hin]; [contradiction|].
      apply (Hd x); [left; reflexivity | exact Hin].
    + apply IH; [assumption|]. intros c Hc. apply Hd. right. exact Hc.
Qed.

Lemma noinv_members_glyph cands ift iftx a b : group_shape cands ift iftx (GMixed a b) ->
  forall x, In x (map snd (scoped_noinv a ++ scoped_noinv b)) -> c_fmt x = GlyphKeyed.
Proof.
  intros [_ [_ [_ [Hna [Hnb _]]]]] x Hx. apply in_map_iff in Hx. destruct Hx as [kv [He Hin]]. subst x.
  assert (Hg : is_glyph (snd kv) = true).
  { apply in_app_or in Hin. destruct Hin as [Hin|Hin].
    - apply Hna in Hin. destruct Hin as [_ [_ HP]]. unfold pred_nift in HP. apply andb_true_iff in HP. tauto.
    - apply Hnb in Hin. destruct Hin as [_ [_ HP]]. unfold pred_niftx in HP. rewrite !andb_true_iff in HP. tauto. }
  unfold is_glyph in Hg. destruct (c_fmt (snd kv)); congruence.
Qed.

Lemma full_alone cands ift iftx g : select_from_candidates cands ift iftx = Some g ->
  forall c, In c (members g) -> c_fmt c = FullInv -> members g = [c].
Proof.
  intros H c Hc Hf. apply select_shape in H. destruct g as [c0|a b].
  - destruct Hc as [Hc|[]]. subst. reflexivity.
  - exfalso. pose proof (noinv_members_glyph _ _ _ _ _ H) as Hgl.
    cbn in H. destruct H as [_ [Ha [Hb _]]]. unfold members in Hc. cbn [inv_members noinv_members] in Hc.
    apply in_app_or in Hc. destruct Hc as [Hc|Hc].
    + apply in_app_or in Hc. destruct Hc as [Hc|Hc].
      * destruct a as [ca|]; [|destruct Hc]. destruct Hc as [Hc|[]]. subst. cbn in Ha.
        apply best_in_In in Ha. apply filter_In in Ha. destruct Ha as [_ Ha].
        unfold pred_pift, is_part in Ha. rewrite Hf in Ha. discriminate.
      * destruct b as [cb|]; [|destruct Hc]. destruct Hc as [Hc|[]]. subst. cbn in Hb.
        apply best_in_In in Hb. apply filter_In in Hb. destruct Hb as [Hb _]. apply filter_In in Hb.
        destruct Hb as [_ Hb]. unfold pred_piftx, is_part in Hb. rewrite Hf in Hb. discriminate.
    + apply Hgl in Hc. congruence.
Qed.

Lemma full_priority cands ift iftx g : select_from_candidates cands ift iftx = Some g ->
  (exists x, In x cands /\ c_fmt x = FullInv) -> exists c, g = GFull c /\ c_fmt c = FullInv.
Proof.
  intros H [x [Hx Hf]]. apply select_shape in H. destruct g as [c|a b].
  - exists c. split; [reflexivity|]. cbn in H. apply best_in_In in H. apply filter_In in H.
    destruct H as [_ H]. unfold is_full in H. destruct (c_fmt c); congruence.
  - exfalso. destruct H as [H _]. assert (Hin : In x (filter is_full cands)).
    { apply filter_In. split; [exact Hx|]. unfold is_full. rewrite Hf. reflexivity. }
    rewrite H in Hin. destruct Hin.
Qed.

Lemma one_invalidating_per_table cands ift iftx g : select_from_candidates cands ift iftx = Some g ->
  forall c1 c2, In c1 (members g) -> In c2 (members g) ->
    is_invalidating (c_fmt c1) = true -> is_invalidating (c_fmt c2) = true ->
    c_cid c1 = c_cid c2 -> c1 = c2.
Proof.
  intros H c1 c2 H1 H2 I1 I2 Hcid. apply select_shape in H. destruct g as [c|a b].
  - destruct H1 as [H1|[]], H2 as [H2|[]]. congruence.
  - pose proof (noinv_members_glyph _ _ _ _ _ H) as Hgl.
    assert (Hinv : forall c, In c (members (GMixed a b)) -> is_invalidating (c_fmt c) = true ->
                     In c (scoped_partial a ++ scoped_partial b)).
    { intros c Hc Hi. unfold members in Hc. cbn [inv_members noinv_members] in Hc.
      apply in_app_or in Hc. destruct Hc as [Hc|Hc]; [exact Hc|]. apply Hgl in Hc. rewrite Hc in Hi. discriminate. }
    apply Hinv in H1; [|exact I1]. apply Hinv in H2; [|exact I2].
    cbn in H. destruct H as [_ [Ha [Hb _]]].
    assert (Hcida : forall ca, a = SPartial ca -> opt_eqb (c_cid ca) ift = true).
    { intros ca ->. cbn in Ha. apply best_in_In in Ha. apply filter_In in Ha. destruct Ha as [_ Ha].
      unfold pred_pift in Ha. apply andb_true_iff in Ha. tauto. }
    assert (Hcidb : forall cb, b = SPartial cb -> opt_eqb (c_cid cb) ift = false).
    { intros cb ->. cbn in Hb. apply best_in_In in Hb. apply filter_In in Hb. destruct Hb as [Hb _].
      apply filter_In in Hb. destruct Hb as [_ Hb]. unfold pred_piftx in Hb. rewrite !andb_true_iff, negb_true_iff in Hb. tauto. }
    destruct a as [ca|ma], b as [cb|mb]; cbn in H1, H2;
      repeat match goal with
             | H : _ \/ _ |- _ => destruct H
             | H : False |- _ => destruct H
             end; subst; try reflexivity;
      specialize (Hcida _ eq_refl); specialize (Hcidb _ eq_refl); congruence.
Qed.

(* ------------------------------------------------------------------ select_next_patches *)
Lemma select_next_inv f d g : select_next f d = Some (Some g) ->
  exists cands, offered f d = Some cands /\ cands <> [] /\
    optz_eqb (cid_of 0 f) (cid_of 1 f) = false /\
    select_from_candidates cands (cid_of 0 f) (cid_of 1 f) = Some g.
Proof.
  unfold select_next. destruct (offered f d) as [cands|] eqn:Ho; [|discriminate].
  destruct cands as [|c cands]; [discriminate|].
  destruct (optz_eqb (cid_of 0 f) (cid_of 1 f)) eqn:Hc; [discriminate|].
  destruct (select_from_candidates (c :: cands) (cid_of 0 f) (cid_of 1 f)) as [g'|] eqn:Hs; [|discriminate].
  cbn. intros H. inversion H; subst. exists (c :: cands).
  split; [reflexivity|]. split; [discriminate|]. split; [reflexivity | exact Hs].
Qed.

Lemma select_next_nodup f d g : select_next f d = Some (Some g) -> NoDup (uris g).
Proof. intros H. destruct (select_next_inv _ _ _ H) as [cs [_ [_ [_ Hs]]]]. eapply group_uris_nodup; eauto. Qed.

Lemma select_next_members_offered f d g : select_next f d = Some (Some g) ->
  exists cands, offered f d = Some cands /\ incl (members g) cands.
Proof.
  intros H. destruct (select_next_inv _ _ _ H) as [cs [Ho [_ [_ Hs]]]]. exists cs. split; [exact Ho|].
  eapply members_offered; eauto.
Qed.

Lemma select_next_one_invalidating f d g : select_next f d = Some (Some g) ->
  forall c1 c2, In c1 (members g) -> In c2 (members g) ->
    is_invalidating (c_fmt c1) = true -> is_invalidating (c_fmt c2) = true ->
    c_cid c1 = c_cid c2 -> c1 = c2.
Proof. intros H. destruct (select_next_inv _ _ _ H) as [cs [_ [_ [_ Hs]]]]. eapply one_invalidating_per_table; eauto. Qed.

Lemma select_next_full_alone f d g : select_next f d = Some (Some g) ->
  forall c, In c (members g) -> c_fmt c = FullInv -> members g = [c].
Proof. intros H. destruct (select_next_inv _ _ _ H) as [cs [_ [_ [_ Hs]]]]. eapply full_alone; eauto. Qed.

Lemma select_next_full_priority f d g cands : select_next f d = Some (Some g) -> offered f d = Some cands ->
  (exists x, In x cands /\ c_fmt x = FullInv) -> exists c, g = GFull c /\ c_fmt c = FullInv.
Proof.
  intros H Ho. destruct (select_next_inv _ _ _ H) as [cs [Ho' [_ [_ Hs]]]].
  rewrite Ho in Ho'. inversion Ho'; subst cs. eapply full_priority; eauto.
Qed.

Lemma select_next_choice f d g cands : select_next f d = Some (Some g) -> offered f d = Some cands ->
  group_shape cands (cid_of 0 f) (cid_of 1 f) g.
Proof.
  intros H Ho. destruct (select_next_inv _ _ _ H) as [cs [Ho' [_ [_ Hs]]]].
  rewrite Ho in Ho'. inversion Ho'; subst cs. apply select_shape. exact Hs.
Qed.

(* the uris are exactly the uris of the members *)
Lemma uris_members cands ift iftx g : select_from_candidates cands ift iftx = Some g ->
  uris g = map c_uri (members g).
Proof.
  intros H. apply select_shape in H. unfold uris, members. rewrite map_app. f_equal.
  destruct g as [c|a b]; [reflexivity|]. cbn [noinv_members]. cbn in H.
  destruct H as [_ [_ [_ [[_ Hna] [[_ Hnb] _]]]]].
  rewrite map_map. apply map_ext_in. intros kv Hin. apply in_app_or in Hin.
  destruct Hin as [Hin|Hin]; [apply Hna in Hin | apply Hnb in Hin]; tauto.
Qed.

(* ------------------------------------------------------------------ apply bookkeeping *)
Definition is_pending (kv : Z * status) : bool := match snd kv with Pending => true | Applied => false end.

Lemma pending_count_apply_le u pd : (pending_count (pd_apply u pd) <= pending_count pd)%nat.
Proof.
  unfold pending_count, pd_apply. induction pd as [|kv pd IH]; cbn; [lia|].
  destruct (fst kv =? u); cbn; destruct (snd kv); cbn; lia.
Qed.

Lemma pending_count_apply_lt u pd : pd_get u pd = Some Pending ->
  (pending_count (pd_apply u pd) < pending_count pd)%nat.
Proof.
  unfold pending_count, pd_apply. induction pd as [|kv pd IH]; cbn; [discriminate|].
  destruct (fst kv =? u) eqn:E.
  - intros H. inversion H as [Hs]. cbn. rewrite Hs. cbn.
    pose proof (pending_count_apply_le u pd) as Hle. unfold pending_count, pd_apply in Hle. lia.
  - intros H. specialize (IH H). destruct (snd kv); cbn; lia.
Qed.

Lemma pd_get_apply u v pd : pd_get v (pd_apply u pd) =
  if v =? u then option_map (fun _ => Applied) (pd_get v pd) else pd_get v pd.
Proof.
  induction pd as [|kv pd IH]; cbn; [destruct (v =? u); reflexivity|].
  destruct (fst kv =? u) eqn:E1; cbn [fst snd].
  - destruct (fst kv =? v) eqn:E2.
    + apply Z.eqb_eq in E1, E2. subst. rewrite Z.eqb_refl. reflexivity.
    + exact IH.
  - destruct (fst kv =? v) eqn:E2.
    + apply Z.eqb_eq in E2. subst. rewrite E1. reflexivity.
    + exact IH.
Qed.

Lemma pd_get_apply_applied u v pd : pd_get v pd = Some Applied -> pd_get v (pd_apply u pd) = Some Applied.
Proof. intros H. rewrite pd_get_apply, H. destruct (v =? u); reflexivity. Qed.

Lemma fold_apply_le us : forall pd,
  (pending_count (fold_left (fun p u => pd_apply u p) us pd) <= pending_count pd)%nat.
Proof.
  induction us as [|u us IH]; intros pd; cbn [fold_left]; [lia|].
  specialize (IH (pd_apply u pd)). pose proof (pending_count_apply_le u pd). lia.
Qed.

Lemma fold_apply_lt us u0 : forall pd, In u0 us -> pd_get u0 pd = Some Pending ->
  (pending_count (fold_left (fun p u => pd_apply u p) us pd) < pending_count pd)%nat.
Proof.
  induction us as [|u us IH]; intros pd Hin Hp; [destruct Hin|]. cbn [fold_left].
  destruct (Z.eq_dec u u0) as [->|Hne].
  - pose proof (pending_count_apply_lt u0 pd Hp). pose proof (fold_apply_le us (pd_apply u0 pd)). lia.
  - destruct Hin as [Hin|Hin]; [congruence|].
    assert (Hp' : pd_get u0 (pd_apply u pd) = Some Pending).
    { rewrite pd_get_apply. destruct (u0 =? u) eqn:E; [apply Z.eqb_eq in E; congruence | exact Hp]. }
    specialize (IH _ Hin Hp'). pose proof (pending_count_apply_le u pd). lia.
Qed.

Lemma fold_apply_applied us v : forall pd, pd_get v pd = Some Applied ->
  pd_get v (fold_left (fun p u => pd_apply u p) us pd) = Some Applied.
Proof.
  induction us as [|u us IH]; intros pd H; cbn [fold_left]; [exact H|]. apply IH. apply pd_get_apply_applied. exact H.
Qed.

Lemma fold_apply_in us v : forall pd, In v us -> pd_get v pd <> None ->
  pd_get v (fold_left (fun p u => pd_apply u p) us pd) = Some Applied.
Proof.
  induction us as [|u us IH]; intros pd Hin Hn; [destruct Hin|]. cbn [fold_left].
  destruct (Z.eq_dec u v) as [->|Hne].
  - apply fold_apply_applied. rewrite pd_get_apply, Z.eqb_refl. destruct (pd_get v pd); [reflexivity|congruence].
  - destruct Hin as [Hin|Hin]; [congruence|]. apply IH; [exact Hin|].
    rewrite pd_get_apply. destruct (v =? u) eqn:E; [apply Z.eqb_eq in E; congruence | exact Hn].
Qed.

Lemma accumulate_first us pd u l : accumulate us pd = Some (u :: l) ->
  In u us /\ pd_get u pd = Some Pending.
Proof.
  induction us as [|a us IH]; cbn; [discriminate|].
  destruct (pd_get a pd) as [[|]|] eqn:E; [| |discriminate].
  - destruct (accumulate us pd); cbn; [|discriminate]. intros H. inversion H; subst. auto.
  - intros H. destruct (IH H). auto.
Qed.

Definition round_progress_stmt (g : group) (pd pd' : pdata) : Prop :=
  (pending_count pd' < pending_count pd)%nat /\
  (exists u, In u (uris g) /\ pd_get u pd = Some Pending /\ pd_get u pd' = Some Applied) /\
  (forall v, pd_get v pd = Some Applied -> pd_get v pd' = Some Applied).

Lemma apply_noinv_progress g pd ok pd' : apply_noinv g pd ok = Some pd' -> round_progress_stmt g pd pd'.
Proof.
  unfold apply_noinv. destruct (accumulate (map fst (noinv_members g)) pd) as [[|u l]|] eqn:Ha; try discriminate.
  destruct ok; [|discriminate]. intros H. inversion H; subst pd'. clear H.
  destruct (accumulate_first _ _ _ _ Ha) as [Hin Hp]. split; [|split].
  - eapply fold_apply_lt; eauto.
  - exists u. split; [unfold uris; apply in_or_app; right; exact Hin|]. split; [exact Hp|].
    apply fold_apply_in; [exact Hin | congruence].
  - intros v Hv. apply fold_apply_applied. exact Hv.
Qed.

Lemma apply_next_progress g pd ok pd' : apply_next g pd ok = Some pd' -> round_progress_stmt g pd pd'.
Proof.
  unfold apply_next. destruct (inv_members g) as [|c r] eqn:Hinv; [apply apply_noinv_progress|].
  destruct (pd_get (c_uri c) pd) as [[|]|] eqn:Hg; [| apply apply_noinv_progress | discriminate].
  destruct ok; [|discriminate]. intros H. inversion H; subst pd'. clear H. split; [|split].
  - apply pending_count_apply_lt. exact Hg.
  - exists (c_uri c). split; [unfold uris; rewrite Hinv; left; reflexivity|]. split; [exact Hg|].
    rewrite pd_get_apply, Z.eqb_refl, Hg. reflexivity.
  - intros v Hv. apply pd_get_apply_applied. exact Hv.
Qed.

Lemma run_rounds_measure rounds : forall pd pd', run_rounds rounds pd = Some pd' ->
  (length rounds + pending_count pd' <= pending_count pd)%nat.
Proof.
  induction rounds as [|[g ok] r IH]; intros pd pd' H; cbn in H.
  - inversion H; subst. cbn. lia.
  - destruct (apply_next g pd ok) as [pd1|] eqn:Ha; [|discriminate].
    apply apply_next_progress in Ha. destruct Ha as [Hlt _]. specialize (IH _ _ H). cbn [length]. lia.
Qed.

Lemma extension_terminates_lemma rounds pd pd' : run_rounds rounds pd = Some pd' ->
  (length rounds <= pending_count pd)%nat.
Proof. intros H. apply run_rounds_measure in H. lia. Qed.

Lemma select_next_choice_maximal f d g cands : select_next f d = Some (Some g) -> offered f d = Some cands ->
  match g with
  | GFull c => best_in c (filter is_full cands)
  | GMixed a b =>
      filter is_full cands = [] /\
      scope_ok (filter (pred_pift (cid_of 0 f)) cands) a /\
      scope_ok (filter (uri_differs (sel_of a)) (filter (pred_piftx (cid_of 0 f) (cid_of 1 f)) cands)) b
  end.
Proof.
  intros H Ho. pose proof (select_next_choice _ _ _ _ H Ho) as Hs. destruct g as [c|a b]; [exact Hs|].
  cbn in Hs. tauto.
Qed.

Lemma entries_decodable_ranges m : forall k, entries_decodable k m = true ->
  forall i e, nth_error m i = Some e ->
    Forall (fun ts => Forall (fun r => fst r <= snd r) (snd ts)) (ed_ds (e_def e)).
Proof.
  induction m as [|e0 m IH]; intros k H i e He.
  - destruct i; discriminate.
  - cbn in H. apply andb_true_iff in H. destruct H as [H Hr]. apply andb_true_iff in H. destruct H as [_ Hv].
    destruct i as [|i].
    + cbn in He. inversion He; subst. apply Forall_forall. intros ts Hts.
      rewrite forallb_forall in Hv. specialize (Hv ts Hts). apply Forall_forall. intros r Hin.
      rewrite forallb_forall in Hv. specialize (Hv r Hin). unfold range_valid in Hv. apply Z.leb_le. exact Hv.
    + cbn in He. apply (IH (S k) Hr i e He).
Qed.

Lemma entries_decodable_wf m : entries_decodable 0 m = true ->
  (forall i e, nth_error m i = Some e -> Forall (fun ts => snd ts <> []) (ed_ds (e_def e))) ->
  mapping_wf m.
Proof.
  intros Hd Hne i e He. split.
  - apply (entries_decodable_children m 0 Hd i e He).
  - pose proof (entries_decodable_ranges m 0 Hd i e He) as Hr. specialize (Hne i e He).
    rewrite Forall_forall in *. intros ts Hts. split; [apply Hne | apply Hr]; exact Hts.
Qed.
