(* C19 — correspondence case format for the byte-level decoders and the format-1 model
   (written by harness/src/bin/c19.rs).  No proofs in this file. *)
From Coq Require Import ZArith List Bool.
From FV Require C14.SbsModel.
From FV Require Import Lib.RustInt C19.Model C19.Dec2 C19.Fmt1.
Import ListNotations.
Open Scope Z_scope.

(* IntSet::<u32>::from_sparse_bit_set_bounded(data, bias, 0x10FFFF) — the C14 model of the decoder *)
Definition sbs14 (data : list Z) (bias : Z) : dres (list Z * list Z) :=
  match SbsModel.decode data bias 1114111 with
  | SbsModel.Ok rs rest => ROk (members rs, rest)
  | SbsModel.Err => RErr
  | _ => RPanic
  end.

Definition fmt_eqb (a b : pformat) : bool := fmt_code a =? fmt_code b.
Definition ranges_eqb (a b : ranges) : bool := zzlist_eqb a b.
Definition dsmap_eqb (a b : list (Z * ranges)) : bool :=
  list_eqb (fun x y => (fst x =? fst y) && ranges_eqb (snd x) (snd y)) a b.
Definition entry_eqb (a b : entry) : bool :=
  zlist_eqb (ed_cp (e_def a)) (ed_cp (e_def b)) && zlist_eqb (ed_feat (e_def a)) (ed_feat (e_def b))
  && dsmap_eqb (ed_ds (e_def a)) (ed_ds (e_def b))
  && list_eqb Nat.eqb (e_children a) (e_children b) && Bool.eqb (e_conj a) (e_conj b)
  && Bool.eqb (e_ignored a) (e_ignored b) && (e_uri a =? e_uri b) && fmt_eqb (e_fmt a) (e_fmt b)
  && (e_bit a =? e_bit b).

(* the model decodes the real table bytes; the result must be the entries the harness intended
   (which are the entries every other comparison of the case is computed from) *)
Definition check_decode (t : table) (dec : list Z * list (pid * Z)) : bool :=
  match dec_table sbs14 (fst dec) with
  | Some (ROk des) => entries_decodable 0 (t_entries t)
                      && list_eqb entry_eqb (map (entry_of (snd dec)) des) (t_entries t)
  | Some RErr => negb (entries_decodable 0 (t_entries t))
  | _ => false
  end.

(* format-1 / mixed fonts: (tables, maxp.num_glyphs, cmap, definition, offered, uris) *)
Definition case1_ty := (list anytable * Z * list (Z * Z) * sdef * option (list obs_cand) * option (list Z))%type.
Definition dres_opt {A} (r : dres A) : option (option A) :=      (* None = panic *)
  match r with ROk a => Some (Some a) | RErr => Some None | RPanic => None end.
Definition check_case1 (c : case1_ty) : bool :=
  let '(f, ng, cmap, d, o_off, o_sel) := c in
  match dres_opt (offered_any ng cmap f d), dres_opt (select_next_any ng cmap f d) with
  | Some off, Some sel =>
      opt_eqb_with (list_eqb obs_eqb) (option_map (map cand_obs) off) o_off
      && opt_eqb_with zlist_eqb (option_map group_uris sel) o_sel
  | _, _ => false
  end.

Inductive ccase :=
| Case2 (c : case_ty) (dec : list (list Z * list (pid * Z)))
| Case1 (c : case1_ty).
Definition check_ccase (c : ccase) : bool :=
  match c with
  | Case2 c2 dec =>
      check_case c2
      && (let '(f, _, _, _, _) := c2 in
          match dec with
          | [] => true
          | _ => (Nat.eqb (length dec) (length f)) && forallb (fun p => check_decode (fst p) (snd p)) (combine f dec)
          end)
  | Case1 c1 => check_case1 c1
  end.
