(* C19 — property theorems.  Only statements, [exact lemma] and Print Assumptions. *)
From Coq Require Import ZArith List Bool.
From FV Require Import C19.Model C19.Spec C19.Proofs.
Import ListNotations.
Open Scope Z_scope.

(* Entry::intersects = step 1 of the specification's "check entry intersection" *)
Theorem c19_entry_intersects_matches_spec : forall e d,
  Forall (fun ts => snd ts <> [] /\ Forall (fun r => fst r <= snd r) (snd ts)) (ed_ds e) ->
  (entry_intersects e d = true <-> spec_dims e d).
Proof. exact entry_intersects_spec. Qed.

(* the intersection cache (left-to-right pass) = the whole "check entry intersection", including
   conjunctive / disjunctive child entries, for every decoded mapping and every definition *)
Theorem c19_intersect_matches_spec : forall m d, mapping_wf m ->
  forall i, (i < length m)%nat -> (nth i (hits d m) false = true <-> spec_intersects m d i).
Proof. exact hits_spec. Qed.

(* what the decoder checks implies the well-formedness used above *)
Theorem c19_decodable_wf : forall m, entries_decodable 0 m = true ->
  (forall i e, nth_error m i = Some e -> Forall (fun ts => snd ts <> []) (ed_ds (e_def e))) ->
  mapping_wf m.
Proof. exact entries_decodable_wf. Qed.

(* offered = { e | not applied, not ignored, spec_intersects e def }, over both tables *)
Theorem c19_selection_exact : forall f d cs, font_wf f -> offered f d = Some cs ->
  forall c, In c cs <->
    exists t i e, In t f /\ nth_error (t_entries t) i = Some e /\ c = mk_cand t d (i, e) /\
                  e_ignored e = false /\ ~ In (e_bit e) (t_applied t) /\
                  spec_intersects (t_entries t) d i.
Proof. exact offered_exact. Qed.

(* def <= def'  ->  offered def <= offered def' *)
Theorem c19_offered_monotone : forall f a b, sdef_subset a b -> forall ca, offered f a = Some ca ->
  exists cb, offered f b = Some cb /\ incl (map cand_entry ca) (map cand_entry cb).
Proof. exact offered_mono. Qed.

(* offered def <= offered SubsetDefinition::all() *)
Theorem c19_offered_subset_all : forall f d cs, offered f d = Some cs ->
  exists call, offered f sdef_all = Some call /\ incl (map cand_entry cs) (map cand_entry call).
Proof. exact offered_subset_all_lemma. Qed.

(* a selected group never contains the same URI twice *)
Theorem c19_group_no_duplicate_uri : forall f d g, select_next f d = Some (Some g) -> NoDup (uris g).
Proof. exact select_next_nodup. Qed.

(* every patch of the group is an offered candidate *)
Theorem c19_group_members_offered : forall f d g, select_next f d = Some (Some g) ->
  exists cands, offered f d = Some cands /\ incl (members g) cands.
Proof. exact select_next_members_offered. Qed.

(* at most one invalidating patch per mapping table (tables identified by compatibility id) *)
Theorem c19_group_at_most_one_invalidating_per_table : forall f d g, select_next f d = Some (Some g) ->
  forall c1 c2, In c1 (members g) -> In c2 (members g) ->
    is_invalidating (c_fmt c1) = true -> is_invalidating (c_fmt c2) = true ->
    c_cid c1 = c_cid c2 -> c1 = c2.
Proof. exact select_next_one_invalidating. Qed.

(* nothing else alongside a fully invalidating patch, and one is chosen whenever one is offered *)
Theorem c19_full_invalidation_alone : forall f d g, select_next f d = Some (Some g) ->
  forall c, In c (members g) -> c_fmt c = FullInv -> members g = [c].
Proof. exact select_next_full_alone. Qed.
Theorem c19_full_invalidation_priority : forall f d g cands,
  select_next f d = Some (Some g) -> offered f d = Some cands ->
  (exists x, In x cands /\ c_fmt x = FullInv) -> exists c, g = GFull c /\ c_fmt c = FullInv.
Proof. exact select_next_full_priority. Qed.

(* the invalidating patch of each scope has a maximal intersection and, among equals, the
   earliest entry order (best_in); a scope has no invalidating patch only if it has no candidate *)
Theorem c19_invalidating_choice_maximal : forall f d g cands,
  select_next f d = Some (Some g) -> offered f d = Some cands ->
  match g with
  | GFull c => best_in c (filter is_full cands)
  | GMixed a b =>
      filter is_full cands = [] /\
      scope_ok (filter (pred_pift (cid_of 0 f)) cands) a /\
      scope_ok (filter (uri_differs (sel_of a)) (filter (pred_piftx (cid_of 0 f) (cid_of 1 f)) cands)) b
  end.
Proof. exact select_next_choice_maximal. Qed.
Theorem c19_max_by_key_is_best : forall l c, max_by_info l = Some c -> best_in c l.
Proof. exact max_by_info_best. Qed.

(* a successful apply round moves at least one URI of the group from Pending to Applied, never
   back, so the number of pending URIs strictly decreases *)
Theorem c19_round_progress : forall g pd ok pd', apply_next g pd ok = Some pd' ->
  (pending_count pd' < pending_count pd)%nat /\
  (exists u, In u (uris g) /\ pd_get u pd = Some Pending /\ pd_get u pd' = Some Applied) /\
  (forall v, pd_get v pd = Some Applied -> pd_get v pd' = Some Applied).
Proof. exact apply_next_progress. Qed.

(* whatever groups later rounds select (the mapping may be replaced by a patch), an extension run
   has at most as many successful rounds as there were pending URIs *)
Theorem c19_extension_terminates : forall rounds pd pd', run_rounds rounds pd = Some pd' ->
  (length rounds <= pending_count pd)%nat.
Proof. exact extension_terminates_lemma. Qed.

Print Assumptions c19_entry_intersects_matches_spec.
Print Assumptions c19_intersect_matches_spec.
Print Assumptions c19_decodable_wf.
Print Assumptions c19_selection_exact.
Print Assumptions c19_offered_monotone.
Print Assumptions c19_offered_subset_all.
Print Assumptions c19_group_no_duplicate_uri.
Print Assumptions c19_group_members_offered.
Print Assumptions c19_group_at_most_one_invalidating_per_table.
Print Assumptions c19_full_invalidation_alone.
Print Assumptions c19_full_invalidation_priority.
Print Assumptions c19_invalidating_choice_maximal.
Print Assumptions c19_max_by_key_is_best.
Print Assumptions c19_round_progress.
Print Assumptions c19_extension_terminates.
