(* C19 — byte-level decoder of format-2 patch maps
   (incremental-font-transfer/src/patchmap.rs: decode_format2_entries, decode_format2_entry,
    format2_new_entry_id, compute_format2_new_entry_index, decode_format2_codepoints,
    PatchFormat::from_format_number; read-fonts generated PatchMapFormat2 / EntryData readers).
   Bytes are Z in [0,256).  No proofs in this file.
   Result: [ROk v], [RErr] = Err(ReadError::..), [RPanic] = a Rust panic site of the sparse-bit-set
   decoder (C14 model) — proved unreachable there, kept explicit here.
   The sparse bit set decoder itself is a parameter ([sbs]) so that the same definitions are used
   with C14's model (correspondence) and with an abstract codec (decode_encode). *)
From Coq Require Import ZArith List Bool.
From FV Require Import Lib.RustInt C19.Model.
Import ListNotations.
Open Scope Z_scope.

Inductive dres (A : Type) := ROk (a : A) | RErr | RPanic.
Arguments ROk {A} a. Arguments RErr {A}. Arguments RPanic {A}.
Definition rbind {A B} (r : dres A) (f : A -> dres B) : dres B :=
  match r with ROk a => f a | RErr => RErr | RPanic => RPanic end.
Notation "'let*' x ':=' r 'in' k" := (rbind r (fun x => k)) (at level 200, x binder, r at level 100, k at level 200).

(* FontData cursor reads: OutOfBounds = RErr *)
Definition take (n : nat) (l : list Z) : dres (list Z * list Z) :=
  if (length l <? n)%nat then RErr else ROk (firstn n l, skipn n l).
Definition rd_be (n : nat) (l : list Z) : dres (Z * list Z) :=
  let* '(h, r) := take n l in ROk (from_be h, r).
(* Int24 -> i32 *)
Definition rd_i24 (l : list Z) : dres (Z * list Z) :=
  let* '(v, r) := rd_be 3 l in ROk ((if v <? 8388608 then v else v - 16777216), r).
(* Fixed (i32) *)
Definition rd_i32 (l : list Z) : dres (Z * list Z) :=
  let* '(v, r) := rd_be 4 l in ROk (wrap_s 32 v, r).
Fixpoint rd_many {A} (rd : list Z -> dres (A * list Z)) (n : nat) (l : list Z) : dres (list A * list Z) :=
  match n with
  | O => ROk ([], l)
  | S m => let* '(x, r) := rd l in let* '(xs, r2) := rd_many rd m r in ROk (x :: xs, r2)
  end.

(* PatchFormat::from_format_number *)
Definition format_of (n : Z) : dres pformat :=
  if n =? 1 then ROk FullInv else if n =? 2 then ROk PartInv else if n =? 3 then ROk GlyphKeyed else RErr.

(* PatchId *)
Inductive pid := IdNum (n : Z) | IdStr (s : list Z).

(* a decoded Entry: design-space segments in file order (the HashMap<Tag, RangeSet> is their grouping) *)
Record dentry := mkDE {
  de_cps : list Z; de_feats : list Z; de_segs : list (Z * (Z * Z));
  de_children : list nat; de_conj : bool; de_ignored : bool;
  de_id : pid; de_fmt : pformat; de_bit : Z }.

Definition bit (flags : Z) (k : Z) : bool := Z.testbit flags k.

(* sorted duplicate-free list of the members of a list of inclusive ranges (IntSet contents) *)
Fixpoint ins_z (x : Z) (l : list Z) : list Z :=
  match l with
  | [] => [x]
  | y :: t => if x <? y then x :: l else if x =? y then l else y :: ins_z x t
  end.
Definition zrange (lo hi : Z) : list Z := map (fun k => lo + Z.of_nat k) (seq 0 (Z.to_nat (hi - lo + 1))).
Definition members (rs : list (Z * Z)) : list Z :=
  fold_left (fun acc r => fold_left (fun a x => ins_z x a) (zrange (fst r) (snd r)) acc) rs [].

Section Decoder.
(* IntSet::<u32>::from_sparse_bit_set_bounded(data, bias, 0x10FFFF): members and remaining data *)
Variable sbs : list Z -> Z -> dres (list Z * list Z).

(* decode_format2_codepoints; [cpdata] = EntryData::codepoint_data (everything after the fixed fields) *)
Definition dec_codepoints (flags : Z) (cpdata : list Z) : dres (list Z * list Z) :=
  let b1 := bit flags 4 in
  let b2 := bit flags 5 in
  if negb b1 && negb b2 then ROk ([], cpdata)
  else
    let* '(bias, _) := (if b2 && negb b1 then rd_be 2 cpdata
                        else if b1 && b2 then rd_be 3 cpdata else ROk (0, cpdata)) in
    let skipped := if b2 && negb b1 then 2%nat else if b1 && b2 then 3%nat else 0%nat in
    let* '(_, rest) := take skipped cpdata in                       (* split_off(skipped) *)
    sbs rest bias.

(* format2_new_entry_id / compute_format2_new_entry_index; [strs] = Cursor over the id string data *)
Definition new_id (has_strings : bool) (delta : option Z) (last : option pid) (strs : list Z)
  : dres (pid * list Z) :=
  if negb has_strings then
    let last_idx := match last with Some (IdNum n) => n | _ => 0 end in
    let ni := last_idx + 1 + match delta with Some d => d | None => 0 end in
    if ni <? 0 then RErr else if 4294967295 <? ni then RErr else ROk (IdNum ni, strs)
  else
    match delta with
    | None => ROk (IdStr (match last with Some (IdStr s) => s | _ => [] end), strs)
    | Some len => let* '(s, r) := take (Z.to_nat len) strs in ROk (IdStr s, r)   (* read_exact *)
    end.

(* EntryData::read + decode_format2_entry; returns the entry, the remaining entry data, the remaining
   id-string cursor *)
Definition dec_entry (data : list Z) (start_byte : Z) (index : nat) (has_strings : bool)
           (default_fmt : pformat) (last : option pid) (strs : list Z)
  : dres (dentry * list Z * list Z) :=
  let* '(flags, r0) := rd_be 1 data in
  let* '(feats, segs, r1) :=
     (if bit flags 0 then
        let* '(fc, a) := rd_be 1 r0 in
        let* '(tags, b) := rd_many (rd_be 4) (Z.to_nat fc) a in
        let* '(dc, c) := rd_be 2 b in
        let* '(sg, d) := rd_many (fun l => let* '(t, x) := rd_be 4 l in
                                            let* '(s, y) := rd_i32 x in
                                            let* '(e, z) := rd_i32 y in ROk ((t, (s, e)), z))
                                 (Z.to_nat dc) c in
        ROk (tags, sg, d)
      else ROk ([], [], r0)) in
  let* '(children, cj, r2) :=
     (if bit flags 1 then
        let* '(mc, a) := rd_be 1 r1 in
        let* '(cs, b) := rd_many (rd_be 3) (Z.to_nat (Z.land mc 127)) a in
        ROk (map Z.to_nat cs, Z.testbit mc 7, b)
      else ROk ([], false, r1)) in
  let* '(delta, r3) :=
     (if bit flags 2 then
        (if has_strings then let* '(v, a) := rd_be 2 r2 in ROk (Some v, a)
         else let* '(v, a) := rd_i24 r2 in ROk (Some v, a))
      else ROk (None, r2)) in
  let* '(fmt, r4) :=
     (if bit flags 3 then let* '(v, a) := rd_be 1 r3 in let* f := format_of v in ROk (f, a)
      else ROk (default_fmt, r3)) in
  (* "Child index must refer to only prior entries." *)
  if negb (forallb (fun c => Nat.ltb c index) children) then RErr else
  (* "Design space segment start > end." *)
  if negb (forallb (fun s => fst (snd s) <=? snd (snd s)) segs) then RErr else
  let* '(id, strs') := new_id has_strings delta last strs in
  let* '(cps, rest) := dec_codepoints flags r4 in
  ROk (mkDE cps feats segs children cj (bit flags 6) id fmt (start_byte * 8 + 6), rest, strs').

(* while entry_count > 0: fuel = an upper bound of the number of iterations (each entry consumes at
   least its flags byte); [None] in the fuel-exhausted branch is shown unreachable (decode_total) *)
Fixpoint dec_entries (fuel : nat) (count : Z) (data : list Z) (start_byte : Z) (has_strings : bool)
         (default_fmt : pformat) (strs : list Z) (acc : list dentry) : option (dres (list dentry)) :=
  if count <=? 0 then Some (ROk (rev acc)) else
  match fuel with
  | O => None
  | S f =>
      match dec_entry data start_byte (length acc) has_strings default_fmt
                      (match acc with e :: _ => Some (de_id e) | [] => None end) strs with
      | ROk (e, rest, strs') =>
          dec_entries f (count - 1) rest (start_byte + Z.of_nat (length data - length rest))
                      has_strings default_fmt strs' (e :: acc)
      | RErr => Some RErr
      | RPanic => Some RPanic
      end
  end.

(* PatchMapFormat2::read + decode_format2_entries on the whole table *)
Definition dec_table_fuel (fuel : nat) (bytes : list Z) : option (dres (list dentry)) :=
  match
    (let* '(fmt, _) := rd_be 1 bytes in
     if negb (fmt =? 2) then RErr else
     let* '(_, r) := take 4 bytes in
     let* '(fflags, r) := rd_be 1 r in
     let* '(_, r) := take 16 r in
     let* '(dfmt, r) := rd_be 1 r in
     let* '(count, r) := rd_be 3 r in
     let* '(eoff, r) := rd_be 4 r in
     let* '(soff, r) := rd_be 4 r in
     let* '(tlen, r) := rd_be 2 r in
     let* '(_, r) := take (Z.to_nat tlen) r in
     let* '(_, r) := take (if Z.testbit fflags 0 then 4 else 0)%nat r in
     let* '(_, r) := take (if Z.testbit fflags 1 then 4 else 0)%nat r in
     (* entries(): non-nullable offset *)
     if eoff =? 0 then RErr else
     let* '(_, edata) := take (Z.to_nat eoff) bytes in
     let* default := format_of dfmt in
     let* strs := (if soff =? 0 then ROk None
                   else let* '(_, s) := take (Z.to_nat soff) bytes in ROk (Some s)) in
     ROk (count, eoff, edata, default, strs))
  with
  | ROk (count, eoff, edata, default, strs) =>
      dec_entries fuel count edata eoff
                  (match strs with Some _ => true | None => false end) default
                  (match strs with Some s => s | None => [] end) []
  | RErr => Some RErr
  | RPanic => Some RPanic
  end.
Definition dec_table (bytes : list Z) : option (dres (list dentry)) :=
  dec_table_fuel (S (length bytes)) bytes.

End Decoder.

(* ---- from decoded entries to the entries of Model.v ---- *)
(* HashMap<Tag, RangeSet<Fixed>>: group the segments by axis, axes in order of first appearance *)
Fixpoint group_add (t : Z) (r : Z * Z) (m : list (Z * ranges)) : list (Z * ranges) :=
  match m with
  | [] => [(t, [r])]
  | (t', rs) :: rest => if t =? t' then (t', rs ++ [r]) :: rest else (t', rs) :: group_add t r rest
  end.
Definition group_segs (segs : list (Z * (Z * Z))) : list (Z * ranges) :=
  fold_left (fun m s => group_add (fst s) (snd s) m) segs [].
Definition pid_eqb (a b : pid) : bool :=
  match a, b with
  | IdNum x, IdNum y => x =? y
  | IdStr x, IdStr y => zlist_eqb x y
  | _, _ => false
  end.
(* [uri_of]: the expanded uri (rank) of an id, supplied by the harness *)
Definition entry_of (uri_of : list (pid * Z)) (e : dentry) : entry :=
  mkE (mkED (de_cps e) (de_feats e) (group_segs (de_segs e))) (de_children e) (de_conj e) (de_ignored e)
      (match find (fun p => pid_eqb (fst p) (de_id e)) uri_of with Some p => snd p | None => -1 end)
      (de_fmt e) (de_bit e).

(* a small encoder for the decode_encode theorem: numeric ids, id delta always present,
   patch format always present, codepoints with a 3-byte bias *)
Definition enc_i24 (v : Z) : list Z := to_be 3 (if v <? 0 then v + 16777216 else v).
Definition enc_i32 (v : Z) : list Z := to_be 4 (if v <? 0 then v + 4294967296 else v).
Definition fmt_num (f : pformat) : Z := match f with FullInv => 1 | PartInv => 2 | GlyphKeyed => 3 end.
Section Encoder.
Variable sbs_enc : list Z -> Z -> list Z.       (* members, bias -> sparse bit set bytes *)
Definition enc_entry (last_id : Z) (bias : Z) (e : dentry) : list Z :=
  let flags := 1 + 2 + 4 + 8 + 16 + 32 + (if de_ignored e then 64 else 0) in
  [flags]
  ++ [Z.of_nat (length (de_feats e))] ++ flat_map (to_be 4) (de_feats e)
  ++ to_be 2 (Z.of_nat (length (de_segs e)))
  ++ flat_map (fun s => to_be 4 (fst s) ++ enc_i32 (fst (snd s)) ++ enc_i32 (snd (snd s))) (de_segs e)
  ++ [(if de_conj e then 128 else 0) + Z.of_nat (length (de_children e))]
  ++ flat_map (fun c => to_be 3 (Z.of_nat c)) (de_children e)
  ++ enc_i24 (match de_id e with IdNum n => n - last_id - 1 | IdStr _ => 0 end)
  ++ [fmt_num (de_fmt e)]
  ++ to_be 3 bias ++ sbs_enc (de_cps e) bias.
End Encoder.
