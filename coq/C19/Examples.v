From Coq Require Import ZArith List.
From FV Require Import C19.Model C19.Proofs.
