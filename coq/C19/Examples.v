(* C19 — non-vacuity examples for the hypotheses of Props.v, and witnesses for the places where a
   naive reading of the property is false of the faithful model *)
From Coq Require Import ZArith List Bool Lia.
From FV Require Import C19.Model C19.Spec C19.Proofs.
Import ListNotations.
Open Scope Z_scope.

Definition liga := 1818846049.
Definition wght := 2003265652.

(* IFT: 0 glyph-keyed {1,2}; 1 glyph-keyed liga + wght[100,200]; 2 partial, conjunctive children 0,1;
        3 partial wildcard, disjunctive children 0,1.   IFTX: 0 glyph-keyed {2}, same uri as IFT 0 *)
Definition ex_ift : table := mkT 0 1 true
  [ mkE (mkED [1; 2] [] []) [] false false 10 GlyphKeyed 100;
    mkE (mkED [] [liga] [(wght, [(6553600, 13107200)])]) [] false false 11 GlyphKeyed 200;
    mkE (mkED [2; 3] [] []) [0%nat; 1%nat] true false 12 PartInv 300;
    mkE (mkED [] [] []) [0%nat; 1%nat] false false 13 PartInv 400 ] [].
Definition ex_iftx : table := mkT 1 2 true
  [ mkE (mkED [2] [] []) [] false false 10 GlyphKeyed 100 ] [].
Definition ex_font := [ex_ift; ex_iftx].
Definition ex_d1 : sdef := mkD (CpIncl [2]) (FSet []) (DRanges []).
Definition ex_d2 : sdef := mkD (CpIncl [2; 3]) (FSet [liga]) (DRanges [(wght, [(9830400, 9830400)])]).

Example ex_font_wf : font_wf ex_font.
Proof.
  intros t [<-|[<-|[]]]; apply entries_decodable_wf; try reflexivity; intros i e H.
  - do 4 (destruct i as [|i]; [inversion H; subst; cbn; repeat constructor; discriminate|]).
    destruct i; discriminate.
  - do 1 (destruct i as [|i]; [inversion H; subst; cbn; repeat constructor; discriminate|]).
    destruct i; discriminate.
Qed.

Example ex_subset : sdef_subset ex_d1 ex_d2.
Proof.
  split; [|split]; cbn.
  - intros x [<-|[]]. left. reflexivity.
  - intros x [].
  - intros t v [rs [[] _]].
Qed.

(* d1 offers the two entries with codepoint 2 and the disjunctive parent; d2 additionally the
   feature/design-space entry and the conjunctive parent: strict growth, hypotheses satisfiable *)
Example ex_offered_d1 : option_map (map cand_entry) (offered ex_font ex_d1)
  = Some [(0, 1, 0%nat, 10, GlyphKeyed, 100); (0, 1, 3%nat, 13, PartInv, 400); (1, 2, 0%nat, 10, GlyphKeyed, 100)].
Proof. vm_compute. reflexivity. Qed.
Example ex_offered_d2 : option_map (map cand_entry) (offered ex_font ex_d2)
  = Some [(0, 1, 0%nat, 10, GlyphKeyed, 100); (0, 1, 1%nat, 11, GlyphKeyed, 200); (0, 1, 2%nat, 12, PartInv, 300);
          (0, 1, 3%nat, 13, PartInv, 400); (1, 2, 0%nat, 10, GlyphKeyed, 100)].
Proof. vm_compute. reflexivity. Qed.

(* selection under d2: the IFT scope takes the partial patch with the larger intersection (entry 2:
   two codepoints), the IFTX scope its glyph-keyed patch; no duplicate uri *)
Example ex_select_d2 : option_map group_uris (select_next ex_font ex_d2) = Some [12; 10].
Proof. vm_compute. reflexivity. Qed.
(* with only glyph-keyed candidates the shared uri 10 appears once *)
Example ex_select_dedup :
  option_map group_uris (select_next ex_font (mkD (CpIncl [1; 2]) (FSet []) (DRanges []))) = Some [13; 10]
  /\ option_map group_uris
       (select_next [mkT 0 1 true (firstn 2 (t_entries ex_ift)) []; ex_iftx] (mkD (CpIncl [2]) (FSet [liga]) DAll))
     = Some [10; 11].
Proof. vm_compute. split; reflexivity. Qed.

(* a round that makes progress, and a second round with the same group that reports an error *)
Example ex_round :
  exists g, select_next ex_font ex_d2 = Some (Some g) /\
    apply_next g [(10, Pending); (12, Pending)] true = Some [(10, Pending); (12, Applied)] /\
    apply_next g [(10, Pending); (12, Applied)] true = Some [(10, Applied); (12, Applied)] /\
    apply_next g [(10, Applied); (12, Applied)] true = None.
Proof. eexists. split; [vm_compute; reflexivity|]. vm_compute. repeat split; reflexivity. Qed.

(* ---- witnesses ---- *)
(* the well-formedness hypothesis of c19_entry_intersects_matches_spec is needed: an axis listed
   without any segment (never produced by the decoder) matches DesignSpace::All in the code but
   has no point in common with anything *)
Example wf_needed_refuted : exists e d, entry_intersects e d = true /\ ~ spec_dims e d.
Proof.
  exists (mkED [] [] [(wght, [])]), (mkD (CpIncl []) (FSet []) DAll). split; [reflexivity|].
  intros [_ [_ [H|[t [x [[rs [Hin Hr]] _]]]]]]; [discriminate|].
  destruct Hin as [Hin|[]]. inversion Hin; subst. destruct Hr as [lo [hi [[] _]]].
Qed.

(* "prefers the candidate with the largest intersection" holds for the IFTX scope only among the
   candidates whose uri differs from the IFT scope's choice: here IFTX entry 0 (uri 5, three
   codepoints) loses to entry 1 (uri 6, one codepoint) because IFT already selected uri 5 *)
Example iftx_choice_excludes_ift_uri_refuted :
  exists f d g cands b, select_next f d = Some (Some g) /\ offered f d = Some cands /\
    g = GMixed (SPartial (nth 0 cands b)) (SPartial (nth 2 cands b)) /\
    ~ best_in (nth 2 cands b) (filter (pred_piftx (cid_of 0 f) (cid_of 1 f)) cands).
Proof.
  exists [mkT 0 1 true [mkE (mkED [1] [] []) [] false false 5 PartInv 100] [];
          mkT 1 2 true [mkE (mkED [1; 2; 3] [] []) [] false false 5 PartInv 100;
                        mkE (mkED [1] [] []) [] false false 6 PartInv 200] []],
         (mkD (CpIncl [1; 2; 3]) (FSet []) (DRanges [])).
  eexists. eexists. exists (mkC 0 0 true 0%nat 0 GlyphKeyed 0 info_default).
  split; [vm_compute; reflexivity|]. split; [vm_compute; reflexivity|]. split; [reflexivity|].
  intros [_ H]. specialize (H (mkC 1 2 true 0%nat 5 PartInv 100 (mkI 3 0 [] 0))).
  destruct H as [H _]; [vm_compute; auto|]. apply H. vm_compute. reflexivity.
Qed.

(* entry order is per table: among fully invalidating candidates of equal intersection the IFTX
   entry with the smaller order wins although the IFT table is listed first *)
Example full_choice_order_is_per_table :
  option_map group_uris (select_next
    [mkT 0 1 true [mkE (mkED [] [] []) [] false false 1 GlyphKeyed 100; mkE (mkED [7] [] []) [] false false 2 FullInv 200] [];
     mkT 1 2 true [mkE (mkED [7] [] []) [] false false 3 FullInv 100] []]
    (mkD (CpIncl [7]) (FSet []) (DRanges []))) = Some [3].
Proof. vm_compute. reflexivity. Qed.
