(* C19 — proofs about the byte-level format-2 decoder of Dec2.v:
   A. the C14 sparse-bit-set decoder never returns more bytes than it was given;
   B. every successfully decoded entry consumes at least one byte;
   C. totality: the fuel of the `while entry_count > 0` loop is never exhausted;
   D. decode (encode e) = e for one entry (and for lists of entries). *)
From Coq Require Import ZArith List Bool Lia.
From FV Require C14.SbsModel.
From FV Require Import Lib.RustInt C19.Model C19.Dec2 C19.Cases.
Import ListNotations.
Open Scope Z_scope.

(* ------------------------------------------------------------------ *)
(* A *)
Lemma sbs14_shrinks : forall data bias v rest,
  sbs14 data bias = ROk (v, rest) -> (length rest <= length data)%nat.
Proof.
  intros data bias v rest H. unfold sbs14 in H.
  destruct (SbsModel.decode data bias 1114111) as [rs rest'| | |] eqn:E; try discriminate H.
  injection H as _ Hr. subst rest'.
  unfold SbsModel.decode in E.
  destruct data as [|first tl]; [discriminate E|].
  destruct (_ <? _) in E; [discriminate E|].
  unfold SbsModel.decode_nodes in E.
  destruct (_ =? 0) in E.
  - injection E as _ Hr. subst rest. cbn [length]. lia.
  - destruct (SbsModel.dec_loop _ _ _ _ _ _ _ _ _) in E; try discriminate E.
    destruct (SbsModel.ibs_skip _ _ _) in E; try discriminate E.
    destruct (_ <=? _)%nat in E; try discriminate E.
    injection E as _ Hr. subst rest. rewrite skipn_length. lia.
Qed.

(* ------------------------------------------------------------------ *)
(* generic inversion of the reader monad *)
Ltac destruct_pairs := repeat match goal with p : (_ * _)%type |- _ => destruct p end.
Ltac binv1 :=
  match goal with
  | H : RErr = ROk _ |- _ => discriminate H
  | H : RPanic = ROk _ |- _ => discriminate H
  | H : ROk _ = ROk _ |- _ => injection H; clear H; intros; subst
  | H : rbind ?r _ = ROk _ |- _ =>
      let E := fresh "E" in
      destruct r eqn:E; cbn [rbind] in H; [destruct_pairs|discriminate H|discriminate H]
  | H : (if ?b then _ else _) = ROk _ |- _ => destruct b eqn:?
  end.
Ltac binv := repeat binv1.

Lemma take_len n l h r : take n l = ROk (h, r) -> (length r + n = length l)%nat.
Proof.
  unfold take. destruct (length l <? n)%nat eqn:E; [discriminate|].
  intros H. injection H as _ Hr. subst r. rewrite skipn_length.
  apply Nat.ltb_ge in E. lia.
Qed.
Lemma rd_be_len n l v r : rd_be n l = ROk (v, r) -> (length r + n = length l)%nat.
Proof. unfold rd_be. intros H. binv. eapply take_len; eauto. Qed.
Lemma rd_i24_len l v r : rd_i24 l = ROk (v, r) -> (length r + 3 = length l)%nat.
Proof. unfold rd_i24. intros H. binv; eapply rd_be_len; eauto. Qed.
Lemma rd_i32_len l v r : rd_i32 l = ROk (v, r) -> (length r + 4 = length l)%nat.
Proof. unfold rd_i32. intros H. binv. eapply rd_be_len; eauto. Qed.

Definition shrinks {A} (rd : list Z -> dres (A * list Z)) : Prop :=
  forall l x r, rd l = ROk (x, r) -> (length r <= length l)%nat.
Lemma rd_many_len {A} (rd : list Z -> dres (A * list Z)) : shrinks rd ->
  forall n l xs r, rd_many rd n l = ROk (xs, r) -> (length r <= length l)%nat.
Proof.
  intros Hs. induction n as [|m IH]; intros l xs r H; cbn [rd_many] in H.
  - binv. lia.
  - binv. apply Hs in E. apply IH in E0. lia.
Qed.
Lemma rd_be_shrinks n : shrinks (rd_be n).
Proof. intros l x r H. apply rd_be_len in H. lia. Qed.

Definition rd_seg (l : list Z) : dres ((Z * (Z * Z)) * list Z) :=
  let* '(t, x) := rd_be 4 l in
  let* '(s, y) := rd_i32 x in
  let* '(e, z) := rd_i32 y in ROk ((t, (s, e)), z).
Lemma rd_seg_shrinks : shrinks rd_seg.
Proof.
  intros l x r H. unfold rd_seg in H. binv.
  apply rd_be_len in E. apply rd_i32_len in E0. apply rd_i32_len in E1. lia.
Qed.

Ltac lens :=
  repeat match goal with
  | H : rd_be _ _ = ROk _ |- _ => apply rd_be_len in H
  | H : rd_i24 _ = ROk _ |- _ => apply rd_i24_len in H
  | H : rd_i32 _ = ROk _ |- _ => apply rd_i32_len in H
  | H : take _ _ = ROk _ |- _ => apply take_len in H
  | H : rd_many (rd_be _) _ _ = ROk _ |- _ => apply (rd_many_len _ (rd_be_shrinks _)) in H
  | H : rd_many _ _ _ = ROk _ |- _ => apply (rd_many_len rd_seg rd_seg_shrinks) in H
  end.

(* ------------------------------------------------------------------ *)
Section Total.
Variable sbs : list Z -> Z -> dres (list Z * list Z).
Hypothesis sbs_shrinks : forall data bias v rest,
  sbs data bias = ROk (v, rest) -> (length rest <= length data)%nat.

Lemma dec_codepoints_len flags d cps rest :
  dec_codepoints sbs flags d = ROk (cps, rest) -> (length rest <= length d)%nat.
Proof.
  unfold dec_codepoints. intros H. cbv zeta in H.
  destruct (negb (bit flags 4) && negb (bit flags 5)).
  - binv. lia.
  - binv; lens; match goal with H : sbs _ _ = ROk _ |- _ => apply sbs_shrinks in H end; lia.
Qed.

(* B *)
Lemma dec_entry_consumes : forall data sb idx hs df last strs e rest strs',
  dec_entry sbs data sb idx hs df last strs = ROk (e, rest, strs') ->
  (length rest < length data)%nat.
Proof.
  intros data sb idx hs df last strs e rest strs' H. unfold dec_entry in H.
  binv;
  repeat match goal with H : dec_codepoints _ _ _ = ROk _ |- _ => apply dec_codepoints_len in H end;
  lens; lia.
Qed.

(* C *)
Lemma decode_total_lemma : forall fuel count data sb hs df strs acc,
  (length data < fuel)%nat -> dec_entries sbs fuel count data sb hs df strs acc <> None.
Proof.
  induction fuel as [|f IH]; intros count data sb hs df strs acc Hl; [lia|].
  cbn [dec_entries]. destruct (count <=? 0); [discriminate|].
  destruct (dec_entry _ _ _ _ _ _ _ _) as [[[e rest] strs']| |] eqn:E; try discriminate.
  apply IH. apply dec_entry_consumes in E. lia.
Qed.

Lemma dec_entries_O : forall count data sb hs df strs acc,
  dec_entries sbs O count data sb hs df strs acc
  = if count <=? 0 then Some (ROk (rev acc)) else None.
Proof. reflexivity. Qed.

Lemma dec_table_total : forall bytes, dec_table sbs bytes <> None.
Proof.
  intros bytes. unfold dec_table, dec_table_fuel.
  match goal with |- match ?r with _ => _ end <> None =>
    destruct r as [[[[[count eoff] edata] default] strs]| |] eqn:E end; try discriminate.
  apply decode_total_lemma.
  binv; lens; lia.
Qed.

Lemma dec_entries_count : forall fuel count data sb hs df strs acc es,
  dec_entries sbs fuel count data sb hs df strs acc = Some (ROk es) ->
  (length es <= length acc + length data)%nat.
Proof.
  induction fuel as [|f IH]; intros count data sb hs df strs acc es H.
  - rewrite dec_entries_O in H. destruct (count <=? 0); [|discriminate H].
    injection H as <-. rewrite rev_length. lia.
  - cbn [dec_entries] in H. destruct (count <=? 0).
    + injection H as <-. rewrite rev_length. lia.
    + destruct (dec_entry _ _ _ _ _ _ _ _) as [[[e rest] strs']| |] eqn:E; try discriminate H.
      apply IH in H. apply dec_entry_consumes in E. cbn [length] in H. lia.
Qed.
End Total.

Theorem dec_table_sbs14_total : forall bytes, dec_table sbs14 bytes <> None.
Proof. apply dec_table_total. exact sbs14_shrinks. Qed.

(* ------------------------------------------------------------------ *)
(* D: decode (encode e) = e *)
Lemma take_app n a r : length a = n -> take n (a ++ r) = ROk (a, r).
Proof.
  intros <-. unfold take. rewrite app_length.
  replace (length a + length r <? length a)%nat with false by (symmetry; apply Nat.ltb_ge; lia).
  rewrite firstn_app, skipn_app, Nat.sub_diag, firstn_all, skipn_all.
  cbn [firstn skipn app]. rewrite app_nil_r. reflexivity.
Qed.

Lemma rd_be_to_be n v r : 0 <= v < 256 ^ Z.of_nat n -> rd_be n (to_be n v ++ r) = ROk (v, r).
Proof.
  intros Hv. unfold rd_be. rewrite take_app by apply to_be_length. cbn [rbind].
  rewrite from_to_be by exact Hv. reflexivity.
Qed.
Lemma rd_be1_cons b r : rd_be 1 (b :: r) = ROk (b, r).
Proof.
  unfold rd_be, take. cbn [length Nat.ltb Nat.leb firstn skipn rbind]. unfold from_be.
  cbn [from_be_acc]. repeat f_equal. all: try lia.
Qed.
Lemma rd_be2 v r : 0 <= v < 65536 -> rd_be 2 (to_be 2 v ++ r) = ROk (v, r).
Proof. intros. apply rd_be_to_be. change (256 ^ Z.of_nat 2) with 65536. lia. Qed.
Lemma rd_be3 v r : 0 <= v < 16777216 -> rd_be 3 (to_be 3 v ++ r) = ROk (v, r).
Proof. intros. apply rd_be_to_be. change (256 ^ Z.of_nat 3) with 16777216. lia. Qed.
Lemma rd_be4 v r : 0 <= v < 4294967296 -> rd_be 4 (to_be 4 v ++ r) = ROk (v, r).
Proof. intros. apply rd_be_to_be. change (256 ^ Z.of_nat 4) with 4294967296. lia. Qed.

Lemma rd_i24_enc d r : -8388608 <= d <= 8388607 -> rd_i24 (enc_i24 d ++ r) = ROk (d, r).
Proof.
  intros Hd. unfold rd_i24, enc_i24.
  rewrite rd_be3 by (destruct (Z.ltb_spec d 0); lia). cbn [rbind]. do 2 f_equal.
  destruct (Z.ltb_spec d 0); match goal with |- (if ?a <? ?b then _ else _) = _ => destruct (Z.ltb_spec a b) end; lia.
Qed.
Lemma rd_i32_enc d r : -2147483648 <= d < 2147483648 -> rd_i32 (enc_i32 d ++ r) = ROk (d, r).
Proof.
  intros Hd. unfold rd_i32, enc_i32.
  rewrite rd_be4 by (destruct (Z.ltb_spec d 0); lia). cbn [rbind]. do 2 f_equal.
  destruct (Z.ltb_spec d 0).
  - unfold wrap_s. change (2 ^ (32 - 1)) with 2147483648. change (2 ^ 32) with 4294967296.
    replace (d + 4294967296 + 2147483648) with ((d + 2147483648) + 1 * 4294967296) by lia.
    rewrite Z.mod_add by lia. rewrite Z.mod_small by lia. lia.
  - apply wrap_s_id; [lia|]. change (2 ^ (32 - 1)) with 2147483648. lia.
Qed.

Lemma rd_many_flat_map {A B} (rd : list Z -> dres (B * list Z)) (enc : A -> list Z) (g : A -> B)
      (P : A -> Prop) :
  (forall x r, P x -> rd (enc x ++ r) = ROk (g x, r)) ->
  forall xs r, Forall P xs -> rd_many rd (length xs) (flat_map enc xs ++ r) = ROk (map g xs, r).
Proof.
  intros Hrd. induction xs as [|x xs IH]; intros r HF; cbn [length flat_map rd_many map].
  - reflexivity.
  - inversion HF as [|? ? Hx Hxs]; subst. rewrite <- app_assoc, Hrd by exact Hx. cbn [rbind].
    rewrite IH by exact Hxs. reflexivity.
Qed.

Definition eflags (ign : bool) : Z := 1 + 2 + 4 + 8 + 16 + 32 + (if ign then 64 else 0).
Lemma eflags_bit0 i : bit (eflags i) 0 = true. Proof. destruct i; reflexivity. Qed.
Lemma eflags_bit1 i : bit (eflags i) 1 = true. Proof. destruct i; reflexivity. Qed.
Lemma eflags_bit2 i : bit (eflags i) 2 = true. Proof. destruct i; reflexivity. Qed.
Lemma eflags_bit3 i : bit (eflags i) 3 = true. Proof. destruct i; reflexivity. Qed.
Lemma eflags_bit4 i : bit (eflags i) 4 = true. Proof. destruct i; reflexivity. Qed.
Lemma eflags_bit5 i : bit (eflags i) 5 = true. Proof. destruct i; reflexivity. Qed.
Lemma eflags_bit6 i : bit (eflags i) 6 = i. Proof. destruct i; reflexivity. Qed.

Lemma mc_land cj n : 0 <= n < 128 -> Z.land ((if cj : bool then 128 else 0) + n) 127 = n.
Proof.
  intros Hn. change 127 with (Z.ones 7). rewrite Z.land_ones by lia. change (2 ^ 7) with 128.
  destruct cj.
  - replace (128 + n) with (n + 1 * 128) by lia. rewrite Z.mod_add by lia. apply Z.mod_small; lia.
  - apply Z.mod_small; lia.
Qed.
Lemma mc_bit7 cj n : 0 <= n < 128 -> Z.testbit ((if cj : bool then 128 else 0) + n) 7 = cj.
Proof.
  intros Hn. rewrite Z.testbit_odd, Z.shiftr_div_pow2 by lia. change (2 ^ 7) with 128.
  destruct cj.
  - replace (128 + n) with (n + 1 * 128) by lia. rewrite Z.div_add by lia.
    rewrite Z.div_small by lia. reflexivity.
  - rewrite Z.add_0_l, Z.div_small by lia. reflexivity.
Qed.

Lemma format_of_fmt_num f : format_of (fmt_num f) = ROk f.
Proof. destruct f; reflexivity. Qed.

Definition seg_ok (s : Z * (Z * Z)) : Prop :=
  0 <= fst s < 4294967296 /\ -2147483648 <= fst (snd s) < 2147483648 /\
  -2147483648 <= snd (snd s) < 2147483648 /\ fst (snd s) <= snd (snd s).

Definition dentry_encodable (index : nat) (last_id : Z) (bias : Z) (e : dentry) : Prop :=
  (exists n, de_id e = IdNum n /\ 0 <= n <= 4294967295 /\ -8388608 <= n - last_id - 1 <= 8388607) /\
  Forall (fun t => 0 <= t < 4294967296) (de_feats e) /\
  (length (de_feats e) < 256)%nat /\
  Z.of_nat (length (de_segs e)) < 65536 /\
  Forall seg_ok (de_segs e) /\
  (length (de_children e) < 128)%nat /\
  Forall (fun c => (c < index)%nat /\ Z.of_nat c < 16777216) (de_children e) /\
  0 <= bias < 16777216.

Section RoundTrip.
Variable sbs : list Z -> Z -> dres (list Z * list Z).
Variable sbs_enc : list Z -> Z -> list Z.
Hypothesis sbs_roundtrip : forall S bias rest, sbs (sbs_enc S bias ++ rest) bias = ROk (S, rest).

Theorem dec_entry_enc_entry : forall index last_id bias e rest sb df last strs,
  dentry_encodable index last_id bias e ->
  match last with Some (IdNum n) => n | _ => 0 end = last_id ->
  dec_entry sbs (enc_entry sbs_enc last_id bias e ++ rest) sb index false df last strs
  = ROk (mkDE (de_cps e) (de_feats e) (de_segs e) (de_children e) (de_conj e) (de_ignored e)
              (de_id e) (de_fmt e) (sb * 8 + 6), rest, strs).
Proof.
  intros index last_id bias e rest sb df last strs
         ((n & Hid & Hn & Hd) & Hf & Hfl & Hsl & Hs & Hcl & Hc & Hb) Hlast.
  unfold enc_entry. cbv zeta. rewrite <- !app_assoc. cbn [app].
  change (1 + 2 + 4 + 8 + 16 + 32 + (if de_ignored e then 64 else 0)) with (eflags (de_ignored e)).
  unfold dec_entry. rewrite rd_be1_cons. cbn [rbind].
  rewrite eflags_bit0, eflags_bit1, eflags_bit2, eflags_bit3, eflags_bit6.
  rewrite rd_be1_cons. cbn [rbind]. rewrite Nat2Z.id.
  rewrite (rd_many_flat_map (rd_be 4) (to_be 4) (fun x => x) (fun t => 0 <= t < 4294967296))
    by (try exact Hf; intros; apply rd_be4; assumption).
  cbn [rbind]. rewrite map_id.
  rewrite rd_be2 by lia. cbn [rbind]. rewrite Nat2Z.id.
  rewrite (rd_many_flat_map _ _ (fun s => (fst s, (fst (snd s), snd (snd s)))) seg_ok)
    by (try exact Hs; intros x r (H1 & H2 & H3 & H4); rewrite <- !app_assoc;
        rewrite rd_be4 by exact H1; cbn [rbind]; rewrite rd_i32_enc by exact H2; cbn [rbind];
        rewrite rd_i32_enc by exact H3; reflexivity).
  cbn [rbind].
  assert (Hmap : map (fun s : Z * (Z * Z) => (fst s, (fst (snd s), snd (snd s)))) (de_segs e)
                 = de_segs e).
  { erewrite map_ext; [apply map_id|]. intros [t [a b]]; reflexivity. }
  rewrite Hmap.
  rewrite rd_be1_cons. cbn [rbind].
  rewrite mc_land, mc_bit7 by lia. rewrite Nat2Z.id.
  rewrite (rd_many_flat_map (rd_be 3) (fun c => to_be 3 (Z.of_nat c)) Z.of_nat
             (fun c => (c < index)%nat /\ Z.of_nat c < 16777216))
    by (try exact Hc; intros x r (H1 & H2); apply rd_be3; lia).
  cbn [rbind]. rewrite map_map.
  assert (Hmap2 : map (fun x => Z.to_nat (Z.of_nat x)) (de_children e) = de_children e).
  { erewrite map_ext; [apply map_id|]. intros; apply Nat2Z.id. }
  rewrite Hmap2.
  rewrite Hid. rewrite rd_i24_enc by lia. cbn [rbind].
  rewrite rd_be1_cons. cbn [rbind]. rewrite format_of_fmt_num. cbn [rbind].
  assert (Hfb1 : forallb (fun c : nat => (c <? index)%nat) (de_children e) = true).
  { apply forallb_forall. intros c Hin. rewrite Forall_forall in Hc. apply Nat.ltb_lt, Hc, Hin. }
  assert (Hfb2 : forallb (fun s : Z * (Z * Z) => fst (snd s) <=? snd (snd s)) (de_segs e) = true).
  { apply forallb_forall. intros c Hin. rewrite Forall_forall in Hs. apply Z.leb_le, (Hs c Hin). }
  rewrite Hfb1, Hfb2. cbn [negb].
  unfold new_id. cbn [negb]. rewrite Hlast.
  replace (last_id + 1 + (n - last_id - 1)) with n by lia.
  destruct (Z.ltb_spec n 0); [lia|]. destruct (Z.ltb_spec 4294967295 n); [lia|]. cbn [rbind].
  unfold dec_codepoints. rewrite eflags_bit4, eflags_bit5. cbn [negb andb].
  rewrite rd_be3 by lia. cbn [rbind].
  rewrite take_app by apply to_be_length. cbn [rbind].
  rewrite sbs_roundtrip. cbn [rbind]. reflexivity.
Qed.

(* ---- lists of entries: each entry with its own bias; ids are deltas from the previous entry ---- *)
Definition id_num (e : dentry) : Z := match de_id e with IdNum n => n | IdStr _ => 0 end.
Definition with_bit (e : dentry) (b : Z) : dentry :=
  mkDE (de_cps e) (de_feats e) (de_segs e) (de_children e) (de_conj e) (de_ignored e)
       (de_id e) (de_fmt e) b.

Fixpoint enc_entries (last_id : Z) (bes : list (Z * dentry)) : list Z :=
  match bes with
  | [] => []
  | (b, e) :: t => enc_entry sbs_enc last_id b e ++ enc_entries (id_num e) t
  end.
Fixpoint entries_encodable (index : nat) (last_id : Z) (bes : list (Z * dentry)) : Prop :=
  match bes with
  | [] => True
  | (b, e) :: t => dentry_encodable index last_id b e /\ entries_encodable (S index) (id_num e) t
  end.
(* the decoded entries: the same entries, [de_bit] = 8 * (byte offset of the entry) + 6 *)
Fixpoint decoded (sb : Z) (last_id : Z) (bes : list (Z * dentry)) : list dentry :=
  match bes with
  | [] => []
  | (b, e) :: t =>
      with_bit e (sb * 8 + 6)
      :: decoded (sb + Z.of_nat (length (enc_entry sbs_enc last_id b e))) (id_num e) t
  end.

Lemma dec_entries_enc_entries_gen : forall bes fuel rest sb df strs acc last_id,
  entries_encodable (length acc) last_id bes ->
  match acc with e :: _ => id_num e | [] => 0 end = last_id ->
  (length bes <= fuel)%nat ->
  dec_entries sbs fuel (Z.of_nat (length bes)) (enc_entries last_id bes ++ rest) sb false df strs acc
  = Some (ROk (rev acc ++ decoded sb last_id bes)).
Proof.
  induction bes as [|[b e] t IH]; intros fuel rest sb df strs acc last_id Henc Hlast Hfuel.
  - cbn [length decoded]. rewrite app_nil_r. destruct fuel; reflexivity.
  - destruct fuel as [|f]; [cbn [length] in Hfuel; lia|].
    cbn [enc_entries decoded entries_encodable] in *. destruct Henc as [He Ht].
    cbn [dec_entries]. rewrite <- app_assoc.
    replace (Z.of_nat (length ((b, e) :: t)) <=? 0) with false
      by (symmetry; apply Z.leb_gt; cbn [length]; lia).
    rewrite (dec_entry_enc_entry (length acc) last_id b e) by
      (first [exact He | destruct acc as [|a acc']; [exact Hlast|unfold id_num in Hlast; exact Hlast]]).
    fold (with_bit e (sb * 8 + 6)).
    replace (Z.of_nat (length ((b, e) :: t)) - 1) with (Z.of_nat (length t))
      by (cbn [length]; lia).
    replace (length (enc_entry sbs_enc last_id b e ++ enc_entries (id_num e) t ++ rest)
             - length (enc_entries (id_num e) t ++ rest))%nat
      with (length (enc_entry sbs_enc last_id b e))
      by (rewrite (app_length (enc_entry sbs_enc last_id b e)); lia).
    rewrite IH.
    + cbn [rev]. rewrite <- app_assoc. reflexivity.
    + exact Ht.
    + reflexivity.
    + cbn [length] in Hfuel. lia.
Qed.

Theorem dec_entries_enc_entries : forall bes fuel rest sb df strs,
  entries_encodable 0 0 bes -> (length bes <= fuel)%nat ->
  dec_entries sbs fuel (Z.of_nat (length bes)) (enc_entries 0 bes ++ rest) sb false df strs []
  = Some (ROk (decoded sb 0 bes)).
Proof.
  intros. apply (dec_entries_enc_entries_gen bes fuel rest sb df strs [] 0); auto.
Qed.

(* the decoded list is the encoded list up to [de_bit] *)
Lemma decoded_forget_bit : forall bes sb last_id,
  map (fun e => with_bit e 0) (decoded sb last_id bes) = map (fun be => with_bit (snd be) 0) bes.
Proof.
  induction bes as [|[b e] t IH]; intros; cbn [decoded map snd]; [reflexivity|].
  rewrite IH. reflexivity.
Qed.
End RoundTrip.

(* non-vacuity of the well-formedness predicate: negative id delta, child reference, both flag bytes *)
Example entries_encodable_ex :
  entries_encodable 0 0
    [(10, mkDE [65] [1] [(2, (-5, 7))] [] true false (IdNum 3) PartInv 0);
     (0, mkDE [] [] [] [0%nat] false true (IdNum 1) GlyphKeyed 0)].
Proof.
  cbn [entries_encodable]. unfold dentry_encodable, seg_ok, id_num.
  cbn [de_id de_feats de_segs de_children length fst snd].
  split; [|split; [|exact I]].
  - split; [exists 3; repeat split; lia|].
    repeat split; try lia; repeat constructor; cbn [fst snd]; lia.
  - split; [exists 1; repeat split; lia|].
    repeat split; try lia; repeat constructor; cbn [fst snd]; lia.
Qed.
