(* C19 — proofs about the format-1 patch map decoder of Fmt1.v run on the byte encoding of a
   well-formed abstract table (Fmt1Spec.v): it neither errs nor panics, and the key set of the
   entries map is exactly the specification's set of intersecting entries. *)
From Coq Require Import ZArith List Bool Lia Arith.
From FV Require Import Lib.RustInt C19.Model C19.Spec C19.Dec2 C19.Fmt1 C19.Fmt1Spec C19.Proofs.
Import ListNotations.
Open Scope Z_scope.

(* ------------------------------------------------------------------ 1. stride lemmas *)
Lemma fw_cases me : fw me = 1%nat \/ fw me = 2%nat.
Proof. unfold fw. destruct (me <? 256); auto. Qed.

Lemma fw_bound me v : 0 <= v <= me -> me < 65536 -> 0 <= v < 256 ^ Z.of_nat (fw me).
Proof.
  intros Hv Hm. unfold fw. destruct (me <? 256) eqn:E.
  - apply Z.ltb_lt in E. change (256 ^ Z.of_nat 1) with 256. lia.
  - change (256 ^ Z.of_nat 2) with 65536. lia.
Qed.

Lemma take_app (x r : list Z) : take (length x) (x ++ r) = ROk (x, r).
Proof.
  unfold take. rewrite app_length.
  replace (length x + length r <? length x)%nat with false
    by (symmetry; apply Nat.ltb_ge; lia).
  rewrite firstn_app, Nat.sub_diag, firstn_all, firstn_O, app_nil_r.
  rewrite skipn_app, Nat.sub_diag, skipn_all, skipn_O. reflexivity.
Qed.

Lemma rd_be_app n v r : 0 <= v < 256 ^ Z.of_nat n -> rd_be n (to_be n v ++ r) = ROk (v, r).
Proof.
  intros Hv. unfold rd_be.
  pose proof (take_app (to_be n v) r) as H. rewrite to_be_length in H. rewrite H.
  cbn [rbind]. rewrite from_to_be by exact Hv. reflexivity.
Qed.

Lemma rd_idx_app me v r : 0 <= v <= me -> me < 65536 ->
  rd_idx me (enc_idx me v ++ r) = ROk (v, r).
Proof. intros. unfold rd_idx, enc_idx. apply rd_be_app. apply fw_bound; assumption. Qed.

Lemma enc_idx_length me v : length (enc_idx me v) = fw me.
Proof. unfold enc_idx. apply to_be_length. Qed.

Lemma skipn_flat_map_const {A} (f : A -> list Z) (w : nat) :
  (forall x, length (f x) = w) ->
  forall k l, skipn (k * w) (flat_map f l) = flat_map f (skipn k l).
Proof.
  intros Hw. induction k as [|k IH]; intros l.
  - reflexivity.
  - destruct l as [|x l].
    + cbn [flat_map]. rewrite !skipn_nil. reflexivity.
    + cbn [flat_map skipn]. replace (S k * w)%nat with (length (f x) + k * w)%nat by (rewrite Hw; lia).
      rewrite skipn_app. rewrite Nat.add_comm at 2. rewrite Nat.add_sub.
      rewrite (skipn_all2 (f x)) by lia. cbn [app]. rewrite <- IH.
      reflexivity.
Qed.

Lemma flat_map_const_length {A} (f : A -> list Z) (w : nat) :
  (forall x, length (f x) = w) -> forall l, length (flat_map f l) = (length l * w)%nat.
Proof.
  intros Hw. induction l as [|x l IH]; [reflexivity|].
  cbn [flat_map length]. rewrite app_length, Hw, IH. lia.
Qed.

Lemma skipn_nth_error {A} (l : list A) : forall k x, nth_error l k = Some x ->
  exists r, skipn k l = x :: r.
Proof.
  induction l as [|y l IH]; intros [|k] x H; try discriminate.
  - cbn in H. injection H as ->. exists l. reflexivity.
  - cbn in H. cbn [skipn]. apply IH. exact H.
Qed.

(* reading the k-th item of an encoded index array *)
Lemma rd_idx_stride me l k v :
  me < 65536 -> Forall (fun v => 0 <= v <= me) l -> nth_error l k = Some v ->
  exists r, rd_idx me (skipn (k * fw me) (flat_map (enc_idx me) l)) = ROk (v, r).
Proof.
  intros Hme HF Hn.
  rewrite (skipn_flat_map_const (enc_idx me) (fw me) (enc_idx_length me)).
  destruct (skipn_nth_error l k v Hn) as [r Hr]. rewrite Hr. cbn [flat_map].
  eexists. apply rd_idx_app; [|exact Hme].
  rewrite Forall_forall in HF. apply HF. eapply nth_error_In; eauto.
Qed.

Lemma gm_get_enc me l i v :
  me < 65536 -> Forall (fun v => 0 <= v <= me) l -> 0 <= i ->
  nth_error l (Z.to_nat i) = Some v ->
  gm_get me (Z.of_nat (length l)) (flat_map (enc_idx me) l) i = ROk v.
Proof.
  intros Hme HF Hi Hn. unfold gm_get.
  assert (Hlt : (Z.to_nat i < length l)%nat) by (apply nth_error_Some; congruence).
  replace ((i <? 0) || (Z.of_nat (length l) <=? i)) with false
    by (symmetry; apply orb_false_iff; split; [apply Z.ltb_ge | apply Z.leb_gt]; lia).
  destruct (rd_idx_stride me l (Z.to_nat i) v Hme HF Hn) as [r Hr]. rewrite Hr. reflexivity.
Qed.

(* entry-map records: pairs (first, last) *)
Definition enc_pair (me : Z) (fl : Z * Z) : list Z := enc_idx me (fst fl) ++ enc_idx me (snd fl).

Lemma enc_pair_length me fl : length (enc_pair me fl) = (fw me + fw me)%nat.
Proof. unfold enc_pair. rewrite app_length, !enc_idx_length. reflexivity. Qed.

Lemma rd_pair_stride me (l : list (Z * Z)) k f la :
  me < 65536 -> Forall (fun fl => 0 <= fst fl <= me /\ 0 <= snd fl <= me) l ->
  nth_error l k = Some (f, la) ->
  exists r r', rd_idx me (skipn (k * (fw me + fw me)) (flat_map (enc_pair me) l)) = ROk (f, r) /\
               rd_idx me r = ROk (la, r').
Proof.
  intros Hme HF Hn.
  rewrite (skipn_flat_map_const (enc_pair me) (fw me + fw me) (enc_pair_length me)).
  destruct (skipn_nth_error l k _ Hn) as [r Hr]. rewrite Hr. cbn [flat_map].
  rewrite Forall_forall in HF. pose proof (HF _ (nth_error_In _ _ Hn)) as [Hf Hl]. cbn [fst snd] in Hf, Hl.
  unfold enc_pair at 1. cbn [fst snd]. rewrite <- app_assoc.
  eexists. eexists. split.
  - apply rd_idx_app; assumption.
  - apply rd_idx_app; assumption.
Qed.

Lemma enc_emd_flat a :
  enc_emd a = flat_map (enc_pair (a_max_entry a)) (flat_map snd (a_recs a)).
Proof.
  unfold enc_emd. induction (a_recs a) as [|r l IH]; [reflexivity|].
  cbn [flat_map]. rewrite flat_map_app, IH. reflexivity.
Qed.

(* ------------------------------------------------------------------ 2. em_update *)
Definition keys (m : emap) : list Z := map fst m.

Lemma em_update_keys k f m k' :
  In k' (keys (em_update k f m)) <-> k' = k \/ In k' (keys m).
Proof.
  unfold keys. induction m as [|kv r IH]; cbn [em_update].
  - cbn. intuition.
  - destruct (k <? fst kv) eqn:E1.
    + cbn [map fst In]. intuition.
    + destruct (k =? fst kv) eqn:E2.
      * apply Z.eqb_eq in E2. cbn [map fst In]. rewrite <- E2. intuition.
      * cbn [map In]. rewrite IH. intuition.
Qed.

Fixpoint ksorted1 (l : list Z) : Prop :=
  match l with
  | [] => True
  | x :: r => (forall y, In y r -> x < y) /\ ksorted1 r
  end.

Lemma em_update_sorted k f m : ksorted1 (keys m) -> ksorted1 (keys (em_update k f m)).
Proof.
  induction m as [|kv r IH]; cbn [em_update]; intros Hs.
  - cbn. intuition.
  - cbn [keys map ksorted1] in Hs. destruct Hs as [Hlt Hs].
    destruct (k <? fst kv) eqn:E1.
    + apply Z.ltb_lt in E1. cbn [keys map ksorted1 fst]. repeat split; auto.
      intros y [<-|Hy]; [exact E1|]. specialize (Hlt y Hy). lia.
    + destruct (k =? fst kv) eqn:E2.
      * apply Z.eqb_eq in E2. cbn [keys map ksorted1 fst]. rewrite E2. split; auto.
      * apply Z.ltb_ge in E1. apply Z.eqb_neq in E2.
        cbn [keys map ksorted1]. split; [|apply IH; exact Hs].
        intros y Hy. apply em_update_keys in Hy. destruct Hy as [->|Hy]; [lia|auto].
Qed.

(* ------------------------------------------------------------------ 3. glyph-map phase *)
Section GlyphPhase.
Variables (record : bool) (a : f1abs).
Hypothesis Hme : a_max_entry a < 65536.
Hypothesis Hgm : Forall (fun v => 0 <= v <= a_max_entry a) (a_gm a).

Definition pair_hit (pairs : list (Z * Z)) (i : Z) : Prop :=
  exists cp gid, In (cp, gid) pairs /\ gid_entry a gid = Some i /\ i <= a_max_gm a.

Lemma gm_phase_keys : forall pairs m,
  Forall (fun p => 0 <= snd p /\ snd p - a_first a < Z.of_nat (length (a_gm a))) pairs ->
  exists m', gm_phase record (a_max_entry a) (a_max_gm a) (a_first a) (Z.of_nat (length (a_gm a)))
               (enc_gm a) pairs m = ROk m' /\
             forall i, In i (keys m') <-> In i (keys m) \/ pair_hit pairs i.
Proof.
  induction pairs as [|[cp gid] r IH]; intros m HF.
  - exists m. split; [reflexivity|]. intros i. unfold pair_hit. split; [auto|].
    intros [H|(cp & gid & [] & _)]. exact H.
  - inversion HF as [|? ? [Hg0 Hg1] HF']; subst. cbn [snd] in Hg0, Hg1.
    cbn [gm_phase].
    assert (He : exists e, (if gid <? a_first a then ROk 0
                 else gm_get (a_max_entry a) (Z.of_nat (length (a_gm a))) (enc_gm a) (gid - a_first a)) = ROk e
               /\ gid_entry a gid = Some e).
    { unfold gid_entry. destruct (gid <? a_first a) eqn:E.
      - exists 0. auto.
      - apply Z.ltb_ge in E.
        destruct (nth_error (a_gm a) (Z.to_nat (gid - a_first a))) as [v|] eqn:En.
        + exists v. split; [|reflexivity]. unfold enc_gm. apply gm_get_enc; auto. lia.
        + apply nth_error_None in En. lia. }
    destruct He as (e & He & Hge). rewrite He. cbn [rbind].
    destruct (a_max_gm a <? e) eqn:Emg.
    + apply Z.ltb_lt in Emg. destruct (IH m HF') as (m' & Hm' & Hk). exists m'. split; [exact Hm'|].
      intros i. rewrite Hk. unfold pair_hit. split.
      * intros [H|(cp' & gid' & Hin & H1 & H2)]; [auto|]. right. exists cp', gid'. cbn [In]. auto.
      * intros [H|(cp' & gid' & [Heq|Hin] & H1 & H2)]; [auto| |].
        -- injection Heq as <- <-. rewrite Hge in H1. injection H1 as <-. lia.
        -- right. exists cp', gid'. auto.
    + apply Z.ltb_ge in Emg.
      match goal with |- context [em_update e ?f m] => destruct (IH (em_update e f m) HF') as (m' & Hm' & Hk) end.
      exists m'. split; [exact Hm'|].
      intros i. rewrite Hk, em_update_keys. unfold pair_hit. split.
      * intros [[->|H]|(cp' & gid' & Hin & H1 & H2)]; [|auto|].
        -- right. exists cp, gid. cbn [In]. auto.
        -- right. exists cp', gid'. cbn [In]. auto.
      * intros [H|(cp' & gid' & [Heq|Hin] & H1 & H2)]; [auto| |].
        -- injection Heq as <- <-. rewrite Hge in H1. injection H1 as <-. auto.
        -- right. exists cp', gid'. auto.
Qed.
End GlyphPhase.

Lemma pair_hit_filter a cmap d i :
  pair_hit a (filter (fun p => cp_mem (sd_cp d) (fst p)) cmap) i <-> glyph_hit a cmap d i.
Proof.
  unfold pair_hit, glyph_hit. split.
  - intros (cp & gid & Hin & H1 & H2). apply filter_In in Hin. destruct Hin as [Hin Hc]. cbn [fst] in Hc.
    apply cp_mem_in in Hc. exists cp, gid. auto.
  - intros (cp & gid & Hin & Hc & H1 & H2). exists cp, gid. repeat split; auto.
    apply filter_In. split; [exact Hin|]. cbn [fst]. apply cp_mem_in. exact Hc.
Qed.

(* ------------------------------------------------------------------ 4. feature-map phase *)
Lemma merge_entries_keys record f l mapped tag m k :
  In k (keys (merge_entries record f l mapped tag m)) <->
  In k (keys m) \/ (k = mapped /\ exists k0, In k0 (keys m) /\ f <= k0 <= l).
Proof.
  unfold merge_entries.
  destruct (filter (fun kv => (f <=? fst kv) && (fst kv <=? l)) m) as [|p rng] eqn:E.
  - split; [auto|]. intros [H|(_ & k0 & Hin & Hr)]; [exact H|]. exfalso.
    unfold keys in Hin. apply in_map_iff in Hin. destruct Hin as (kv & <- & Hin).
    assert (Hf : In kv (filter (fun kv => (f <=? fst kv) && (fst kv <=? l)) m)).
    { apply filter_In. split; [exact Hin|]. apply andb_true_iff. split; apply Z.leb_le; lia. }
    rewrite E in Hf. exact Hf.
  - assert (Hp : In p (filter (fun kv => (f <=? fst kv) && (fst kv <=? l)) m)) by (rewrite E; left; reflexivity).
    apply filter_In in Hp. destruct Hp as [Hpm Hpc]. apply andb_true_iff in Hpc.
    destruct Hpc as [H1 H2]. apply Z.leb_le in H1, H2.
    rewrite em_update_keys. split.
    + intros [->|H]; [|auto]. right. split; [reflexivity|]. exists (fst p). split; [|lia].
      unfold keys. apply in_map. exact Hpm.
    + intros [H|[-> _]]; auto.
Qed.

Lemma Forall_flat_map' {A B} (P : B -> Prop) (f : A -> list B) l :
  Forall (fun x => Forall P (f x)) l -> Forall P (flat_map f l).
Proof.
  induction 1 as [|x l Hx Hl IH]; cbn [flat_map]; [constructor|]. apply Forall_app. auto.
Qed.

Lemma strictly_increasing_cons x l :
  strictly_increasing (x :: l) -> (forall y, In y l -> x < y) /\ strictly_increasing l.
Proof.
  revert x. induction l as [|z l IH]; intros x [H1 H2].
  - split; [intros y []|exact H2].
  - split; [|exact H2]. intros y [<-|Hy]; [exact H1|].
    destruct (IH z H2) as [Hz _]. specialize (Hz y Hy). lia.
Qed.

Definition rtag (r : Z * Z * list (Z * Z)) : Z := fst (fst r).
Definition absrec (r : Z * Z * list (Z * Z)) : Z * Z * Z :=
  (fst (fst r), snd (fst r), Z.of_nat (length (snd r))).
Definition cumof (pre : list (Z * Z * list (Z * Z))) : Z := Z.of_nat (length (flat_map snd pre)).

Lemma cumof_snoc pre r : cumof (pre ++ [r]) = cumof pre + Z.of_nat (length (snd r)).
Proof.
  unfold cumof. rewrite flat_map_app, app_length. cbn [flat_map]. rewrite app_nil_r. lia.
Qed.

Section FeaturePhase.
Variables (record : bool) (me mg : Z) (recs : list (Z * Z * list (Z * Z))) (G : Z -> Prop).
Definition all_emrs : list (Z * Z) := flat_map snd recs.
Definition emd_of : list Z := flat_map (enc_pair me) all_emrs.
Hypothesis Hme : me < 65536.
Hypothesis Hrecs :
  Forall (fun r => 0 <= snd (fst r) /\ snd (fst r) + Z.of_nat (length (snd r)) < 65536 /\
                   Forall (fun fl => 0 <= fst fl <= me /\ 0 <= snd fl <= me) (snd r)) recs.

(* the keys of the glyph-map phase (<= max_glyph_map_entry_index) are never touched again *)
Definition Inv (m : emap) : Prop := forall k, k <= mg -> (In k (keys m) <-> G k).

Definition emr_cond (f l k : Z) : Prop :=
  f <= l /\ l <= mg /\ mg < k /\ k <= me /\ exists i0, f <= i0 <= l /\ G i0.
Definition emr_hit (base : Z) (todo : list (Z * Z)) (k : Z) : Prop :=
  exists j f l, nth_error todo j = Some (f, l) /\ k = base + Z.of_nat j /\ emr_cond f l k.
Definition rec_hit (r : Z * Z * list (Z * Z)) (k : Z) : Prop := emr_hit (snd (fst r)) (snd r) k.

Lemma emr_hit_nil base k : ~ emr_hit base [] k.
Proof. intros (j & f & l & H & _). destruct j; discriminate. Qed.

Lemma emr_hit_cons base f l todo k :
  emr_hit base ((f, l) :: todo) k <-> (k = base /\ emr_cond f l k) \/ emr_hit (base + 1) todo k.
Proof.
  unfold emr_hit. split.
  - intros (j & f' & l' & Hn & Hk & Hc). destruct j as [|j].
    + cbn in Hn. injection Hn as <- <-. left. split; [lia|exact Hc].
    + cbn [nth_error] in Hn. right. exists j, f', l'. split; [exact Hn|]. split; [lia|exact Hc].
  - intros [[Hk Hc]|(j & f' & l' & Hn & Hk & Hc)].
    + exists 0%nat, f, l. split; [reflexivity|]. split; [cbn; lia|exact Hc].
    + exists (S j), f', l'. split; [exact Hn|]. split; [lia|exact Hc].
Qed.

Lemma all_bytes_ok : Forall (fun fl => 0 <= fst fl <= me /\ 0 <= snd fl <= me) all_emrs.
Proof.
  unfold all_emrs. apply Forall_flat_map'. eapply Forall_impl; [|exact Hrecs].
  intros r (_ & _ & H). exact H.
Qed.

Lemma emd_length : length emd_of = (length all_emrs * (fw me + fw me))%nat.
Proof. unfold emd_of. apply flat_map_const_length. apply enc_pair_length. Qed.

(* one iteration of the entry-map-record loop *)
Lemma step_keys f l mapped tag m :
  Inv m ->
  let m1 := if (l <? f) || (mg <? f) || (mg <? l) || (mapped <=? mg) || (me <? mapped)
            then m else merge_entries record f l mapped tag m in
  Inv m1 /\ forall k, In k (keys m1) <-> In k (keys m) \/ (k = mapped /\ emr_cond f l k).
Proof.
  intros HI. cbv zeta.
  destruct ((l <? f) || (mg <? f) || (mg <? l) || (mapped <=? mg) || (me <? mapped)) eqn:E.
  - split; [exact HI|]. intros k. split; [auto|]. intros [H|[-> Hc]]; [exact H|]. exfalso.
    unfold emr_cond in Hc.
    rewrite !orb_true_iff, !Z.ltb_lt, Z.leb_le in E. lia.
  - rewrite !orb_false_iff, !Z.ltb_ge, Z.leb_gt in E.
    destruct E as [[[[E1 E2] E3] E4] E5].
    assert (Hk : forall k, In k (keys (merge_entries record f l mapped tag m)) <->
                           In k (keys m) \/ (k = mapped /\ emr_cond f l k)).
    { intros k. rewrite merge_entries_keys. unfold emr_cond. split.
      - intros [H|(-> & k0 & Hin & Hr)]; [auto|]. right. split; [reflexivity|].
        repeat split; try lia. exists k0. split; [exact Hr|]. apply HI; [lia|exact Hin].
      - intros [H|(-> & _ & _ & _ & _ & i0 & Hr & Hg)]; [auto|]. right. split; [reflexivity|].
        exists i0. split; [|exact Hr]. apply HI; [lia|exact Hg]. }
    split; [|exact Hk].
    intros k Hle. rewrite Hk. split.
    + intros [H|[-> _]]; [apply HI; auto|lia].
    + intros H. left. apply HI; auto.
Qed.

Lemma rec_loop_ok tag fn : forall todo i cum m,
  0 <= i -> 0 <= cum -> 0 <= fn ->
  (forall j fl, nth_error todo j = Some fl -> nth_error all_emrs (Z.to_nat (i + cum) + j) = Some fl) ->
  fn + i + Z.of_nat (length todo) <= 65536 ->
  Inv m ->
  exists m', rec_loop (length todo) i cum record me mg emd_of tag fn m = ROk m' /\ Inv m' /\
             forall k, In k (keys m') <-> In k (keys m) \/ emr_hit (fn + i) todo k.
Proof.
  induction todo as [|[f l] todo IH]; intros i cum m Hi Hcum Hfn Hnth Hb HI.
  - exists m. split; [reflexivity|]. split; [exact HI|]. intros k. split; [auto|].
    intros [H|H]; [exact H|]. exfalso. eapply emr_hit_nil; eauto.
  - cbn [length rec_loop]. cbn [length] in Hb. rewrite Nat2Z.inj_succ in Hb.
    pose proof (Hnth 0%nat (f, l) eq_refl) as Hn0. rewrite Nat.add_0_r in Hn0.
    assert (Hlt : (Z.to_nat (i + cum) < length all_emrs)%nat) by (apply nth_error_Some; congruence).
    pose proof emd_length as Hlen.
    assert (Hbx : Z.to_nat ((i + cum) * Z.of_nat (fw me) * 2) = (Z.to_nat (i + cum) * (fw me + fw me))%nat /\
                  (i + cum) * Z.of_nat (fw me) * 2 <= Z.of_nat (length emd_of)).
    { revert Hlen. destruct (fw_cases me) as [Hw|Hw]; rewrite Hw; intros; lia. }
    destruct Hbx as (Hb3 & Hb4).
    cbv zeta.
    replace (Z.of_nat (length emd_of) <? (i + cum) * Z.of_nat (fw me) * 2) with false
      by (symmetry; apply Z.ltb_ge; lia).
    replace (65535 <? fn + i) with false by (symmetry; apply Z.ltb_ge; lia).
    rewrite Hb3.
    destruct (rd_pair_stride me all_emrs (Z.to_nat (i + cum)) f l Hme all_bytes_ok Hn0)
      as (r & r' & Hr1 & Hr2).
    fold emd_of in Hr1. rewrite Hr1. cbn [rbind]. rewrite Hr2. cbn [rbind].
    pose proof (step_keys f l (fn + i) tag m HI) as Hstep. cbv zeta in Hstep.
    destruct Hstep as [HI1 Hk1].
    match goal with |- context [rec_loop _ _ _ _ _ _ _ _ _ ?m1] =>
      destruct (IH (i + 1) cum m1) as (m' & Hm' & HI' & Hk'); try lia; auto end.
    + intros j fl Hj. replace (Z.to_nat (i + 1 + cum) + j)%nat with (Z.to_nat (i + cum) + S j)%nat by lia.
      apply Hnth. exact Hj.
    + exists m'. split; [exact Hm'|]. split; [exact HI'|].
      intros k. rewrite Hk', Hk1, emr_hit_cons.
      replace (fn + (i + 1)) with (fn + i + 1) by lia. tauto.
Qed.

Lemma all_split pre r suf : recs = pre ++ r :: suf ->
  all_emrs = flat_map snd pre ++ snd r ++ flat_map snd suf.
Proof. intros H. unfold all_emrs. rewrite H, flat_map_app. reflexivity. Qed.

Lemma rec_in_ok pre r suf : recs = pre ++ r :: suf ->
  0 <= snd (fst r) /\ snd (fst r) + Z.of_nat (length (snd r)) < 65536.
Proof.
  intros H. pose proof Hrecs as HF. rewrite Forall_forall in HF.
  destruct (HF r) as (H1 & H2 & _); [|auto]. rewrite H. apply in_or_app. right. left. reflexivity.
Qed.

Lemma cumof_nonneg pre : 0 <= cumof pre.
Proof. unfold cumof. lia. Qed.

Lemma process_ok pre r suf lg m : recs = pre ++ r :: suf -> Inv m ->
  exists m', process record me mg emd_of (absrec r) (cumof pre, lg, m)
             = ROk (cumof (pre ++ [r]), Some (rtag r), m') /\ Inv m' /\
             forall k, In k (keys m') <-> In k (keys m) \/ rec_hit r k.
Proof.
  intros Hsplit HI. destruct (rec_in_ok _ _ _ Hsplit) as [Hfn Hfb].
  pose proof (cumof_nonneg pre) as Hc0.
  rewrite cumof_snoc. unfold rec_hit, rtag, absrec, process.
  destruct r as [[tag fn] emrs]. cbn [fst snd] in *.
  rewrite Nat2Z.id.
  destruct (rec_loop_ok tag fn emrs 0 (cumof pre) m) as (m' & Hm' & HI' & Hk'); try lia; auto.
  - intros j fl Hj. rewrite (all_split _ _ _ Hsplit). cbn [snd].
    replace (Z.to_nat (0 + cumof pre)) with (length (flat_map snd pre)) by (unfold cumof; lia).
    rewrite nth_error_app2 by lia.
    replace (length (flat_map snd pre) + j - length (flat_map snd pre))%nat with j by lia.
    rewrite nth_error_app1 by (apply nth_error_Some; congruence). exact Hj.
  - exists m'. rewrite Hm'. cbn [rbind].
    split; [reflexivity|]. split; [exact HI'|].
    intros k. rewrite Hk'. replace (fn + 0) with fn by lia. tauto.
Qed.

(* ------------------------------------------------------------------ 5. the record loops *)
Definition lg_lt (lg : option Z) (suf : list (Z * Z * list (Z * Z))) : Prop :=
  match lg with None => True | Some l => forall r, In r suf -> l < rtag r end.

Lemma tag_le_largest_false t lg suf r : lg_lt lg suf -> In r suf -> rtag r = t -> tag_le_largest t lg = false.
Proof.
  intros H Hin <-. destruct lg as [l|]; [|reflexivity]. cbn. apply Z.leb_gt. apply H. exact Hin.
Qed.

Lemma fm_all_cons rt fn count rest cum lg m :
  fm_all record me mg emd_of ((rt, fn, count) :: rest) (cum, lg, m) =
  if tag_le_largest rt lg then fm_all record me mg emd_of rest (cum + count, lg, m)
  else let* st' := process record me mg emd_of (rt, fn, count) (cum, Some rt, m) in
       fm_all record me mg emd_of rest st'.
Proof. reflexivity. Qed.

Lemma fm_all_ok : forall suf pre lg m,
  recs = pre ++ suf -> Inv m -> strictly_increasing (map rtag suf) -> lg_lt lg suf ->
  exists cum' lg' m', fm_all record me mg emd_of (map absrec suf) (cumof pre, lg, m) = ROk (cum', lg', m') /\
    Inv m' /\ forall k, In k (keys m') <-> In k (keys m) \/ exists r, In r suf /\ rec_hit r k.
Proof.
  induction suf as [|r suf IH]; intros pre lg m Hsplit HI Hsi Hlg.
  - exists (cumof pre), lg, m. split; [reflexivity|]. split; [exact HI|].
    intros k. split; [auto|]. intros [H|(r & [] & _)]. exact H.
  - cbn [map] in Hsi. apply strictly_increasing_cons in Hsi. destruct Hsi as [Hlt Hsi].
    cbn [map].
    assert (Hu : absrec r = (rtag r, snd (fst r), Z.of_nat (length (snd r)))) by reflexivity.
    rewrite Hu, fm_all_cons, <- Hu.
    rewrite (tag_le_largest_false (rtag r) lg (r :: suf) r Hlg (or_introl eq_refl) eq_refl).
    destruct (process_ok pre r suf (Some (rtag r)) m Hsplit HI) as (m1 & Hp & HI1 & Hk1).
    rewrite Hp. cbn [rbind].
    destruct (IH (pre ++ [r]) (Some (rtag r)) m1) as (cum' & lg' & m' & Hf & HI' & Hk'); auto.
    + rewrite <- app_assoc. exact Hsplit.
    + cbn [lg_lt]. intros r' Hr'. apply Hlt. apply in_map. exact Hr'.
    + exists cum', lg', m'. split; [exact Hf|]. split; [exact HI'|].
      intros k. rewrite Hk', Hk1. split.
      * intros [[H|H]|(r' & Hin & Hh)]; [auto| |].
        -- right. exists r. split; [left; reflexivity|exact H].
        -- right. exists r'. split; [right; exact Hin|exact Hh].
      * intros [H|(r' & [<-|Hin] & Hh)]; [auto|auto|]. right. exists r'. auto.
Qed.

Lemma fm_set_nil_l tags st : fm_set record me mg emd_of [] tags st = ROk st.
Proof. destruct tags; reflexivity. Qed.

Lemma fm_set_nil_r rs st : fm_set record me mg emd_of rs [] st = ROk st.
Proof. destruct rs; reflexivity. Qed.

Lemma fm_set_cons rt fn count rest t tags' cum lg m :
  fm_set record me mg emd_of ((rt, fn, count) :: rest) (t :: tags') (cum, lg, m) =
  if rt <? t then fm_set record me mg emd_of rest (t :: tags') (cum + count, lg, m)
  else if tag_le_largest t lg then fm_set record me mg emd_of ((rt, fn, count) :: rest) tags' (cum, lg, m)
  else if t <? rt then fm_set record me mg emd_of ((rt, fn, count) :: rest) tags' (cum, Some t, m)
  else let* st' := process record me mg emd_of (rt, fn, count) (cum, Some t, m) in
       fm_set record me mg emd_of rest (t :: tags') st'.
Proof. reflexivity. Qed.

Definition lg_set (lg : option Z) (tags : list Z) (suf : list (Z * Z * list (Z * Z))) : Prop :=
  match lg with
  | None => True
  | Some l => (forall t, In t tags -> l <= t) /\ (forall r, In r suf -> l < rtag r)
  end.

Lemma fm_set_ok : forall suf pre tags lg m,
  recs = pre ++ suf -> Inv m -> strictly_increasing (map rtag suf) -> strictly_increasing tags ->
  lg_set lg tags suf ->
  exists cum' lg' m', fm_set record me mg emd_of (map absrec suf) tags (cumof pre, lg, m) = ROk (cum', lg', m') /\
    Inv m' /\
    forall k, In k (keys m') <-> In k (keys m) \/ exists r, In r suf /\ In (rtag r) tags /\ rec_hit r k.
Proof.
  induction suf as [|r suf IH]; intros pre tags lg m Hsplit HI Hsi Hst Hlg.
  - exists (cumof pre), lg, m. cbn [map]. rewrite fm_set_nil_l. split; [reflexivity|]. split; [exact HI|].
    intros k. split; [auto|]. intros [H|(r & [] & _)]. exact H.
  - cbn [map] in Hsi. apply strictly_increasing_cons in Hsi. destruct Hsi as [Hlt Hsi].
    assert (Hlt' : forall r', In r' suf -> rtag r < rtag r') by (intros r' Hr'; apply Hlt, in_map, Hr').
    clear Hlt.
    revert lg m HI Hlg. induction tags as [|t tags IHt]; intros lg m HI Hlg.
    + exists (cumof pre), lg, m. rewrite fm_set_nil_r. split; [reflexivity|]. split; [exact HI|].
      intros k. split; [auto|]. intros [H|(r' & _ & [] & _)]. exact H.
    + apply strictly_increasing_cons in Hst. destruct Hst as [Htl Hst].
      cbn [map].
      assert (Hu : absrec r = (rtag r, snd (fst r), Z.of_nat (length (snd r)))) by reflexivity.
      rewrite Hu, fm_set_cons. rewrite <- Hu.
      destruct (rtag r <? t) eqn:E1.
      * (* the record's tag is not requested: skipped, its entry map records are counted *)
        apply Z.ltb_lt in E1.
        rewrite <- cumof_snoc.
        destruct (IH (pre ++ [r]) (t :: tags) lg m) as (cum' & lg' & m' & Hf & HI' & Hk'); auto.
        -- rewrite <- app_assoc. exact Hsplit.
        -- cbn [strictly_increasing]. split; [|exact Hst]. destruct tags as [|t2 tags]; [exact I|].
           apply Htl. left. reflexivity.
        -- destruct lg as [l|]; [|exact I]. destruct Hlg as [Hl1 Hl2]. split; [exact Hl1|].
           intros r' Hr'. apply Hl2. right. exact Hr'.
        -- exists cum', lg', m'. split; [exact Hf|]. split; [exact HI'|].
           intros k. rewrite Hk'. split.
           ++ intros [H|(r' & Hin & Ht & Hh)]; [auto|]. right. exists r'. split; [right; exact Hin|auto].
           ++ intros [H|(r' & [<-|Hin] & Ht & Hh)]; [auto| |].
              ** exfalso. destruct Ht as [Ht|Ht]; [lia|]. specialize (Htl _ Ht). lia.
              ** right. exists r'. auto.
      * apply Z.ltb_ge in E1.
        destruct (tag_le_largest t lg) eqn:E2.
        -- (* t was the tag of the record processed last *)
           destruct lg as [l|]; [|discriminate]. cbn [tag_le_largest] in E2. apply Z.leb_le in E2.
           destruct Hlg as [Hl1 Hl2]. assert (l = t) by (specialize (Hl1 t (or_introl eq_refl)); lia). subst l.
           destruct (IHt Hst (Some t) m HI) as (cum' & lg' & m' & Hf & HI' & Hk').
           { split; [|exact Hl2]. intros t' Ht'. specialize (Htl _ Ht'). lia. }
           exists cum', lg', m'. split; [exact Hf|]. split; [exact HI'|].
           intros k. rewrite Hk'. split.
           ++ intros [H|(r' & Hin & Ht & Hh)]; [auto|]. right. exists r'. split; [exact Hin|]. split; [right; exact Ht|exact Hh].
           ++ intros [H|(r' & Hin & [Ht|Ht] & Hh)]; [auto| |].
              ** exfalso. specialize (Hl2 _ Hin). lia.
              ** right. exists r'. auto.
        -- destruct (t <? rtag r) eqn:E3.
           ++ (* no record with tag t *)
              apply Z.ltb_lt in E3.
              destruct (IHt Hst (Some t) m HI) as (cum' & lg' & m' & Hf & HI' & Hk').
              { split; [intros t' Ht'; specialize (Htl _ Ht'); lia|].
                intros r' [<-|Hr']; [exact E3|]. specialize (Hlt' _ Hr'). lia. }
              exists cum', lg', m'. split; [exact Hf|]. split; [exact HI'|].
              intros k. rewrite Hk'. split.
              ** intros [H|(r' & Hin & Ht & Hh)]; [auto|]. right. exists r'. split; [exact Hin|]. split; [right; exact Ht|exact Hh].
              ** intros [H|(r' & Hin & [Ht|Ht] & Hh)]; [auto| |].
                 --- exfalso. destruct Hin as [<-|Hin]; [lia|]. specialize (Hlt' _ Hin). lia.
                 --- right. exists r'. auto.
           ++ (* requested tag = record tag: processed *)
              apply Z.ltb_ge in E3. assert (Heq : rtag r = t) by lia.
              destruct (process_ok pre r suf (Some t) m Hsplit HI) as (m1 & Hp & HI1 & Hk1).
              rewrite Hp. cbn [rbind].
              destruct (IH (pre ++ [r]) (t :: tags) (Some (rtag r)) m1) as (cum' & lg' & m' & Hf & HI' & Hk'); auto.
              ** rewrite <- app_assoc. exact Hsplit.
              ** cbn [strictly_increasing]. split; [|exact Hst]. destruct tags as [|t2 tags]; [exact I|].
                 apply Htl. left. reflexivity.
              ** split; [|exact Hlt']. intros t' [<-|Ht']; [lia|]. specialize (Htl _ Ht'). lia.
              ** exists cum', lg', m'. split; [exact Hf|]. split; [exact HI'|].
                 intros k. rewrite Hk', Hk1. split.
                 --- intros [[H|H]|(r' & Hin & Ht & Hh)]; [auto| |].
                     +++ right. exists r. split; [left; reflexivity|]. split; [left; auto|exact H].
                     +++ right. exists r'. split; [right; exact Hin|auto].
                 --- intros [H|(r' & [<-|Hin] & Ht & Hh)]; [auto|auto|]. right. exists r'. auto.
Qed.
End FeaturePhase.

(* ------------------------------------------------------------------ 6. assembly *)
Lemma fold_len (l : list (Z * Z * list (Z * Z))) : forall acc,
  fold_left (fun acc r => acc + Z.of_nat (length (snd r))) l acc
  = acc + Z.of_nat (length (flat_map snd l)).
Proof.
  induction l as [|r l IH]; intros acc; cbn [fold_left flat_map length].
  - lia.
  - rewrite IH, app_length. lia.
Qed.

Lemma feature_hit_iff a cmap d i :
  feature_hit a cmap d i <->
  exists r, In r (a_recs a) /\ feat_in (sd_feat d) (rtag r) /\
            rec_hit (a_max_entry a) (a_max_gm a) (glyph_hit a cmap d) r i.
Proof.
  unfold feature_hit, rec_hit, emr_hit, emr_cond, rtag. split.
  - intros (tag & fn & emrs & j & f & l & Hin & Hf & Hn & Hi & H1 & H2 & H3 & H4 & H5).
    exists (tag, fn, emrs). cbn [fst snd]. split; [exact Hin|]. split; [exact Hf|].
    exists j, f, l. auto 10.
  - intros ([[tag fn] emrs] & Hin & Hf & j & f & l & Hn & Hi & H1 & H2 & H3 & H4 & H5).
    cbn [fst snd] in *. exists tag, fn, emrs, j, f, l. auto 10.
Qed.

(* the feature-map phase on the encoded table, for either kind of requested feature set *)
Lemma feature_phase_ok record a cmap d m0 :
  f1abs_wf a cmap d ->
  (forall i, In i (keys m0) <-> glyph_hit a cmap d i) ->
  exists cum' lg' m',
    match sd_feat d with
    | FAll => fm_all record (a_max_entry a) (a_max_gm a) (enc_emd a) (abs_recs a) (0, None, m0)
    | FSet tags => fm_set record (a_max_entry a) (a_max_gm a) (enc_emd a) (abs_recs a) tags (0, None, m0)
    end = ROk (cum', lg', m') /\
    forall i, In i (keys m') <-> spec_f1_hit a cmap d i.
Proof.
  intros (H1 & H2 & H3 & H4 & H5 & H6 & H7 & H8) Hk0.
  assert (HI : Inv (a_max_gm a) (glyph_hit a cmap d) m0) by (intros k _; apply Hk0).
  rewrite enc_emd_flat. change (abs_recs a) with (map absrec (a_recs a)).
  change (flat_map (enc_pair (a_max_entry a)) (flat_map snd (a_recs a)))
    with (emd_of (a_max_entry a) (a_recs a)).
  change 0 with (cumof []) at 1 2.
  destruct (sd_feat d) as [|tags] eqn:Ef.
  - destruct (fm_all_ok record (a_max_entry a) (a_max_gm a) (a_recs a) (glyph_hit a cmap d) H2 H5
                (a_recs a) [] None m0 eq_refl HI H6 I) as (cum' & lg' & m' & Hf & _ & Hk).
    exists cum', lg', m'. split; [exact Hf|].
    intros i. rewrite Hk, Hk0. unfold spec_f1_hit. rewrite feature_hit_iff, Ef. cbn [feat_in].
    split; (intros [H|(r & Hin & Hh)]; [auto|right; exists r; auto]).
    destruct Hh as [_ Hh]. auto.
  - destruct (fm_set_ok record (a_max_entry a) (a_max_gm a) (a_recs a) (glyph_hit a cmap d) H2 H5
                (a_recs a) [] tags None m0 eq_refl HI H6 H7 I) as (cum' & lg' & m' & Hf & _ & Hk).
    exists cum', lg', m'. split; [exact Hf|].
    intros i. rewrite Hk, Hk0. unfold spec_f1_hit. rewrite feature_hit_iff, Ef. cbn [feat_in]. tauto.
Qed.

Theorem format1_entries_match_spec_lemma :
  forall record a cmap d, f1abs_wf a cmap d ->
    exists m, f1_entries_abs record a cmap d = ROk m /\
              forall i, In i (map fst m) <-> spec_f1_hit a cmap d i.
Proof.
  intros record a cmap d Hwf. pose proof Hwf as (H1 & H2 & H3 & H4 & H5 & H6 & H7 & H8).
  unfold f1_entries_abs.
  destruct (gm_phase_keys record a H2 H4 (filter (fun p => cp_mem (sd_cp d) (fst p)) cmap) [])
    as (m0 & Hm0 & Hk0).
  { rewrite Forall_forall in *. intros p Hp. apply filter_In in Hp. apply H8. apply Hp. }
  rewrite Hm0. cbn [rbind].
  assert (Hk0' : forall i, In i (keys m0) <-> glyph_hit a cmap d i).
  { intros i. rewrite Hk0, pair_hit_filter. cbn. tauto. }
  destruct (feature_phase_ok record a cmap d m0 Hwf Hk0') as (cum' & lg' & m' & Hf & Hk).
  exists m'. split; [|exact Hk].
  rewrite Hf. reflexivity.
Qed.

Print Assumptions format1_entries_match_spec_lemma.
