(* C19 — property theorems, second part: format-1 tables in the model, byte-level decoding of
   format-2 entries, independence of the per-table results.  Only statements closed by [exact]. *)
From Coq Require Import ZArith List Bool.
From FV Require Import Lib.RustInt C19.Model C19.Spec C19.Dec2 C19.Fmt1 C19.Fmt1Spec C19.Cases.
From FV Require C19.Proofs C19.Proofs2 C19.Fmt1Proofs C19.Dec2Proofs.
Import ListNotations.
Open Scope Z_scope.

(* ---- format 1 ---- *)
(* on the byte encoding of any well-formed abstract format-1 table (glyph-map array and entry-map
   records with their field width and stride) the decoder + intersection neither errs nor panics and
   the entries it produces are exactly the specification's intersecting entries *)
Theorem c19_format1_entries_match_spec : forall record a cmap d, f1abs_wf a cmap d ->
  exists m, f1_entries_abs record a cmap d = ROk m /\
            forall i, In i (map fst m) <-> spec_f1_hit a cmap d i.
Proof. exact Fmt1Proofs.format1_entries_match_spec_lemma. Qed.

(* the specification's format-1 intersection, hence the offered format-1 entries, only grow with the
   definition *)
Theorem c19_format1_spec_monotone : forall a cmap d d' i, sdef_subset d d' ->
  spec_f1_hit a cmap d i -> spec_f1_hit a cmap d' i.
Proof. exact Proofs2.spec_f1_hit_mono. Qed.
Theorem c19_format1_entries_monotone : forall record a cmap d d' m m',
  f1abs_wf a cmap d -> f1abs_wf a cmap d' -> sdef_subset d d' ->
  f1_entries_abs record a cmap d = ROk m -> f1_entries_abs record a cmap d' = ROk m' ->
  incl (map fst m) (map fst m').
Proof. exact Proofs2.format1_entries_monotone. Qed.

(* the grouping rules hold unchanged for fonts whose tables are of either format *)
Theorem c19_mixed_fonts_group_rules : forall ng cmap f d g, select_next_any ng cmap f d = ROk (Some g) ->
  exists cands, offered_any ng cmap f d = ROk cands /\
    NoDup (uris g) /\ incl (Model.members g) cands /\
    (forall c1 c2, In c1 (Model.members g) -> In c2 (Model.members g) ->
       is_invalidating (c_fmt c1) = true -> is_invalidating (c_fmt c2) = true -> c_cid c1 = c_cid c2 -> c1 = c2) /\
    (forall c, In c (Model.members g) -> c_fmt c = FullInv -> Model.members g = [c]) /\
    match g with
    | GFull c => best_in c (filter is_full cands)
    | GMixed a b =>
        filter is_full cands = [] /\
        scope_ok (filter (pred_pift (cid_of_any 0 f)) cands) a /\
        scope_ok (filter (uri_differs (sel_of a)) (filter (pred_piftx (cid_of_any 0 f) (cid_of_any 1 f)) cands)) b
    end.
Proof. exact Proofs2.select_next_any_rules. Qed.

(* ---- byte-level decoding of format-2 entries ---- *)
(* the entry loop never runs out of fuel: on every byte list the decoder terminates with entries,
   Err or (a sparse-bit-set) panic; with the C14 sparse-bit-set decoder and with any decoder that
   does not lengthen its input *)
Theorem c19_decode_total : forall bytes, dec_table sbs14 bytes <> None.
Proof. exact Dec2Proofs.dec_table_sbs14_total. Qed.
Theorem c19_decode_total_generic : forall sbs : list Z -> Z -> dres (list Z * list Z),
  (forall data bias v rest, sbs data bias = ROk (v, rest) -> (length rest <= length data)%nat) ->
  forall bytes, dec_table sbs bytes <> None.
Proof. exact Dec2Proofs.dec_table_total. Qed.
(* every decoded entry consumes at least one byte, so there are never more entries than bytes *)
Theorem c19_decode_entry_consumes : forall sbs : list Z -> Z -> dres (list Z * list Z),
  (forall data bias v rest, sbs data bias = ROk (v, rest) -> (length rest <= length data)%nat) ->
  forall data sb idx hs df last strs e rest strs',
  dec_entry sbs data sb idx hs df last strs = ROk (e, rest, strs') -> (length rest < length data)%nat.
Proof. exact Dec2Proofs.dec_entry_consumes. Qed.
Theorem c19_decode_entries_count : forall sbs : list Z -> Z -> dres (list Z * list Z),
  (forall data bias v rest, sbs data bias = ROk (v, rest) -> (length rest <= length data)%nat) ->
  forall fuel count data sb hs df strs acc es,
  dec_entries sbs fuel count data sb hs df strs acc = Some (ROk es) ->
  (length es <= length acc + length data)%nat.
Proof. exact Dec2Proofs.dec_entries_count. Qed.

(* decode . encode = id for the small encoder (numeric ids with signed deltas, ignored bit, per-entry
   format, features, design-space segments, children with match mode, 3-byte codepoint bias), for
   every sparse-bit-set codec that round-trips in front of arbitrary following data *)
Theorem c19_decode_encode_entry : forall (sbs : list Z -> Z -> dres (list Z * list Z)) (sbs_enc : list Z -> Z -> list Z),
  (forall S bias rest, sbs (sbs_enc S bias ++ rest) bias = ROk (S, rest)) ->
  forall index last_id bias e rest sb df last strs,
  Dec2Proofs.dentry_encodable index last_id bias e ->
  match last with Some (IdNum n) => n | _ => 0 end = last_id ->
  dec_entry sbs (enc_entry sbs_enc last_id bias e ++ rest) sb index false df last strs
  = ROk (mkDE (de_cps e) (de_feats e) (de_segs e) (de_children e) (de_conj e) (de_ignored e)
              (de_id e) (de_fmt e) (sb * 8 + 6), rest, strs).
Proof. exact Dec2Proofs.dec_entry_enc_entry. Qed.
Theorem c19_decode_encode : forall (sbs : list Z -> Z -> dres (list Z * list Z)) (sbs_enc : list Z -> Z -> list Z),
  (forall S bias rest, sbs (sbs_enc S bias ++ rest) bias = ROk (S, rest)) ->
  forall bes fuel rest sb df strs,
  Dec2Proofs.entries_encodable 0 0 bes -> (length bes <= fuel)%nat ->
  dec_entries sbs fuel (Z.of_nat (length bes)) (Dec2Proofs.enc_entries sbs_enc 0 bes ++ rest) sb false df strs []
  = Some (ROk (Dec2Proofs.decoded sbs_enc sb 0 bes)).
Proof. exact Dec2Proofs.dec_entries_enc_entries. Qed.

(* ---- no history between mapping tables ---- *)
(* the candidates contributed by a table are those it yields alone, whichever table was processed
   before it and in whichever slot order *)
Theorem c19_table_results_independent : forall a b d cs, offered [a; b] d = Some cs ->
  exists ca cb, offered [a] d = Some ca /\ offered [b] d = Some cb /\ cs = ca ++ cb /\
                offered [b; a] d = Some (cb ++ ca).
Proof. exact Proofs2.table_results_independent_lemma. Qed.
Theorem c19_table_results_independent_any : forall ng cmap a b d cs, offered_any ng cmap [a; b] d = ROk cs ->
  exists ca cb, any_offered ng cmap d a = ROk ca /\ any_offered ng cmap d b = ROk cb /\ cs = ca ++ cb /\
                offered_any ng cmap [b; a] d = ROk (cb ++ ca).
Proof. exact Proofs2.any_results_independent_lemma. Qed.

Print Assumptions c19_format1_entries_match_spec.
Print Assumptions c19_format1_spec_monotone.
Print Assumptions c19_format1_entries_monotone.
Print Assumptions c19_mixed_fonts_group_rules.
Print Assumptions c19_decode_total.
Print Assumptions c19_decode_total_generic.
Print Assumptions c19_decode_entry_consumes.
Print Assumptions c19_decode_entries_count.
Print Assumptions c19_decode_encode_entry.
Print Assumptions c19_decode_encode.
Print Assumptions c19_table_results_independent.
Print Assumptions c19_table_results_independent_any.
