(* C19 — specification-side definitions, written independently of the executable model:
   set membership, the IFT specification's "check entry intersection", inclusion of subset
   definitions, and the ordering used by "invalidating patch selection". *)
From Coq Require Import ZArith List Bool.
From FV Require Import C19.Model.
Import ListNotations.
Open Scope Z_scope.

(* ---- membership in the three dimensions of a subset definition ---- *)
Definition cp_in (s : cpset) (x : Z) : Prop :=
  match s with CpIncl l => In x l | CpExcl l => ~ In x l end.
Definition feat_in (s : featset) (t : Z) : Prop :=
  match s with FAll => True | FSet l => In t l end.
Definition ranges_in (rs : ranges) (x : Z) : Prop :=
  exists lo hi, In (lo, hi) rs /\ lo <= x <= hi.
Definition dsmap_in (m : list (Z * ranges)) (t x : Z) : Prop :=
  exists rs, In (t, rs) m /\ ranges_in rs x.
Definition ds_in (d : dspace) (t x : Z) : Prop :=
  match d with DAll => True | DRanges m => dsmap_in m t x end.

(* ---- IFT "check entry intersection", step 1: every dimension of the entry is either empty
   (matches everything) or shares an element with the definition; for design space an element is
   a point of an axis (a pair of intersecting segments with the same axis tag) ---- *)
Definition spec_dims (e : edef) (d : sdef) : Prop :=
  (ed_cp e = [] \/ exists x, In x (ed_cp e) /\ cp_in (sd_cp d) x) /\
  (ed_feat e = [] \/ exists t, In t (ed_feat e) /\ feat_in (sd_feat d) t) /\
  (ed_ds e = [] \/ exists t x, dsmap_in (ed_ds e) t x /\ ds_in (sd_ds d) t x).

(* step 2: child entries; conjunctive = all children intersect, disjunctive = at least one *)
Inductive spec_intersects (m : list entry) (d : sdef) : nat -> Prop :=
| SI : forall i e,
    nth_error m i = Some e ->
    spec_dims (e_def e) d ->
    (e_children e = [] \/
     (e_conj e = true /\ Forall (spec_intersects m d) (e_children e)) \/
     (e_conj e = false /\ Exists (spec_intersects m d) (e_children e))) ->
    spec_intersects m d i.

(* what decoding guarantees about a mapping: children refer to earlier entries, every
   design-space segment has start <= end, and an axis is listed only with at least one segment *)
Definition entry_wf (i : nat) (e : entry) : Prop :=
  Forall (fun c => (c < i)%nat) (e_children e) /\
  Forall (fun ts => snd ts <> [] /\ Forall (fun r => fst r <= snd r) (snd ts)) (ed_ds (e_def e)).
Definition mapping_wf (m : list entry) : Prop :=
  forall i e, nth_error m i = Some e -> entry_wf i e.

(* ---- inclusion of subset definitions ---- *)
Definition sdef_subset (a b : sdef) : Prop :=
  (forall x, cp_in (sd_cp a) x -> cp_in (sd_cp b) x) /\
  (match sd_feat a, sd_feat b with
   | _, FAll => True
   | FAll, FSet _ => False
   | FSet x, FSet y => incl x y
   end) /\
  (match sd_ds a, sd_ds b with
   | _, DAll => True
   | DAll, DRanges _ => False
   | DRanges x, DRanges y => forall t v, dsmap_in x t v -> dsmap_in y t v
   end).

(* identity of the entry behind a candidate (everything except the intersection info, which
   depends on the definition) *)
Definition cand_entry (c : cand) : Z * Z * nat * Z * pformat * Z :=
  (c_table c, c_cid c, c_order c, c_uri c, c_fmt c, c_bit c).

(* ---- invalidating patch selection: intersection size first, then entry order ---- *)
Definition info3_cmp (a b : info) : comparison :=
  match lcmp [i_cp a; i_tags a] [i_cp b; i_tags b] with
  | Eq => lcmp (flat_ds (i_ds a)) (flat_ds (i_ds b))
  | c => c
  end.
(* [c] has a maximal intersection among [l] and, among those of equal intersection, the smallest
   entry order *)
Definition best_in (c : cand) (l : list cand) : Prop :=
  In c l /\
  forall x, In x l ->
    info3_cmp (c_info x) (c_info c) <> Gt /\
    (info3_cmp (c_info x) (c_info c) = Eq -> i_order (c_info c) <= i_order (c_info x)).

Definition is_full (c : cand) : bool := match c_fmt c with FullInv => true | _ => false end.
Definition is_part (c : cand) : bool := match c_fmt c with PartInv => true | _ => false end.
Definition is_glyph (c : cand) : bool := match c_fmt c with GlyphKeyed => true | _ => false end.

(* the candidate lists of GroupingByInvalidation as filters of the offered candidates
   ([ift]/[iftx] = compatibility ids of the "IFT " / "IFTX" tables, if present) *)
Definition pred_pift (ift : option Z) (c : cand) : bool := is_part c && opt_eqb (c_cid c) ift.
Definition pred_piftx (ift iftx : option Z) (c : cand) : bool :=
  is_part c && negb (opt_eqb (c_cid c) ift) && opt_eqb (c_cid c) iftx.
Definition pred_nift (ift : option Z) (c : cand) : bool := is_glyph c && opt_eqb (c_cid c) ift.
Definition pred_niftx (ift iftx : option Z) (c : cand) : bool :=
  is_glyph c && negb (opt_eqb (c_cid c) ift) && opt_eqb (c_cid c) iftx.

(* what a scope of the selected group must be relative to its invalidating candidates [l]:
   the best candidate, or no invalidating patch only if there is no candidate *)
Definition sel_of (s : scoped) : option cand := match s with SPartial c => Some c | SNoInv _ => None end.
Definition scope_ok (l : list cand) (s : scoped) : Prop :=
  match s with SPartial c => best_in c l | SNoInv _ => l = [] end.
