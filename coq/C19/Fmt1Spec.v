(* C19 — specification side of format-1 patch maps: the abstract table, the IFT specification's
   "Interpret Format 1 Patch Map" + entry intersection as set-level predicates, and the decoder of
   Fmt1.v run on the encoding of an abstract table (glyph-map array bytes, entry-map-record bytes). *)
From Coq Require Import ZArith List Bool.
From FV Require Import Lib.RustInt C19.Model C19.Spec C19.Dec2 C19.Fmt1.
Import ListNotations.
Open Scope Z_scope.

(* abstract format-1 table: entry index of every gid >= first mapped glyph; feature records
   (tag, first new entry index, entry map records (first, last)) *)
Record f1abs := mkA {
  a_max_entry : Z; a_max_gm : Z; a_first : Z; a_gm : list Z;
  a_recs : list (Z * Z * list (Z * Z)) }.

(* glyph -> entry index (glyphs below the first mapped glyph belong to entry 0) *)
Definition gid_entry (a : f1abs) (gid : Z) : option Z :=
  if gid <? a_first a then Some 0 else nth_error (a_gm a) (Z.to_nat (gid - a_first a)).

(* entry i of the glyph map intersects: some requested codepoint maps to a glyph of entry i *)
Definition glyph_hit (a : f1abs) (cmap : list (Z * Z)) (d : sdef) (i : Z) : Prop :=
  exists cp gid, In (cp, gid) cmap /\ cp_in (sd_cp d) cp /\ gid_entry a gid = Some i /\ i <= a_max_gm a.

(* entry i added by the feature map intersects: its feature is requested and one of the glyph-map
   entries of its range intersects; invalid records are ignored *)
Definition feature_hit (a : f1abs) (cmap : list (Z * Z)) (d : sdef) (i : Z) : Prop :=
  exists tag fn emrs j first last,
    In (tag, fn, emrs) (a_recs a) /\ feat_in (sd_feat d) tag /\
    nth_error emrs j = Some (first, last) /\ i = fn + Z.of_nat j /\
    first <= last /\ last <= a_max_gm a /\ a_max_gm a < i /\ i <= a_max_entry a /\
    exists i0, first <= i0 <= last /\ glyph_hit a cmap d i0.

Definition spec_f1_hit (a : f1abs) (cmap : list (Z * Z)) (d : sdef) (i : Z) : Prop :=
  glyph_hit a cmap d i \/ feature_hit a cmap d i.

(* encodings of the variable-width arrays *)
Definition enc_idx (max_entry v : Z) : list Z := to_be (fw max_entry) v.
Definition enc_gm (a : f1abs) : list Z := flat_map (enc_idx (a_max_entry a)) (a_gm a).
Definition enc_emd (a : f1abs) : list Z :=
  flat_map (fun r => flat_map (fun fl => enc_idx (a_max_entry a) (fst fl) ++ enc_idx (a_max_entry a) (snd fl)) (snd r))
           (a_recs a).
Definition abs_recs (a : f1abs) : list (Z * Z * Z) :=
  map (fun r => (fst (fst r), snd (fst r), Z.of_nat (length (snd r)))) (a_recs a).

(* intersect_format1_glyph_and_feature_map of Fmt1.v on the encoded arrays of [a] *)
Definition f1_entries_abs (record : bool) (a : f1abs) (cmap : list (Z * Z)) (d : sdef) : dres emap :=
  let pairs := filter (fun p => cp_mem (sd_cp d) (fst p)) cmap in
  let* m := gm_phase record (a_max_entry a) (a_max_gm a) (a_first a) (Z.of_nat (length (a_gm a))) (enc_gm a) pairs [] in
  let* '(_, _, m') :=
     match sd_feat d with
     | FAll => fm_all record (a_max_entry a) (a_max_gm a) (enc_emd a) (abs_recs a) (0, None, m)
     | FSet tags => fm_set record (a_max_entry a) (a_max_gm a) (enc_emd a) (abs_recs a) tags (0, None, m)
     end in
  ROk m'.

Fixpoint strictly_increasing (l : list Z) : Prop :=
  match l with
  | [] => True
  | x :: r => (match r with [] => True | y :: _ => x < y end) /\ strictly_increasing r
  end.

(* well-formed abstract table and request: values fit their fields, feature records sorted by tag
   without duplicates (the specification ignores the others), requested tags sorted (BTreeSet),
   every requested glyph is inside the glyph map *)
Definition f1abs_wf (a : f1abs) (cmap : list (Z * Z)) (d : sdef) : Prop :=
  0 <= a_max_gm a <= a_max_entry a /\ a_max_entry a < 65536 /\ 0 <= a_first a /\
  Forall (fun v => 0 <= v <= a_max_entry a) (a_gm a) /\
  Forall (fun r => 0 <= snd (fst r) /\ snd (fst r) + Z.of_nat (length (snd r)) < 65536 /\
                   Forall (fun fl => 0 <= fst fl <= a_max_entry a /\ 0 <= snd fl <= a_max_entry a) (snd r))
         (a_recs a) /\
  strictly_increasing (map (fun r => fst (fst r)) (a_recs a)) /\
  (match sd_feat d with FAll => True | FSet tags => strictly_increasing tags end) /\
  Forall (fun p => 0 <= snd p /\ snd p - a_first a < Z.of_nat (length (a_gm a))) cmap.
