(* C19 — proofs, second part: independence of the per-table results, fonts with format-1 tables *)
From Coq Require Import ZArith List Bool Lia.
From FV Require Import Lib.RustInt C19.Model C19.Spec C19.Proofs C19.Dec2 C19.Fmt1 C19.Fmt1Spec.
From FV Require C19.Fmt1Proofs.
Import ListNotations.
Open Scope Z_scope.

(* ---- the candidates of a mapping table do not depend on the tables processed before it ---- *)
Lemma offered_app f1 : forall f2 d,
  offered (f1 ++ f2) d =
  match offered f1 d, offered f2 d with Some a, Some b => Some (a ++ b) | _, _ => None end.
Proof.
  induction f1 as [|t f1 IH]; intros f2 d; cbn [app offered].
  - destruct (offered f2 d); reflexivity.
  - rewrite IH. destruct (table_offered t d); [|reflexivity].
    destruct (offered f1 d); [|reflexivity]. destruct (offered f2 d); [|reflexivity].
    rewrite app_assoc. reflexivity.
Qed.

Lemma offered_single t d : offered [t] d = table_offered t d.
Proof. cbn. destruct (table_offered t d); [rewrite app_nil_r|]; reflexivity. Qed.

Lemma table_results_independent_lemma a b d cs : offered [a; b] d = Some cs ->
  exists ca cb, offered [a] d = Some ca /\ offered [b] d = Some cb /\ cs = ca ++ cb /\
                offered [b; a] d = Some (cb ++ ca).
Proof.
  change [a; b] with ([a] ++ [b]). change [b; a] with ([b] ++ [a]). rewrite !offered_app.
  destruct (offered [a] d) as [ca|]; [|discriminate]. destruct (offered [b] d) as [cb|]; [|discriminate].
  intros H. inversion H. exists ca, cb. auto.
Qed.

Lemma offered_any_app ng cmap f1 : forall f2 d,
  offered_any ng cmap (f1 ++ f2) d =
  rbind (offered_any ng cmap f1 d) (fun a => rbind (offered_any ng cmap f2 d) (fun b => ROk (a ++ b))).
Proof.
  induction f1 as [|t f1 IH]; intros f2 d; cbn [app offered_any rbind].
  - destruct (offered_any ng cmap f2 d); reflexivity.
  - destruct (any_offered ng cmap d t); cbn [rbind]; [|reflexivity|reflexivity].
    rewrite IH. destruct (offered_any ng cmap f1 d); cbn [rbind]; [|reflexivity|reflexivity].
    destruct (offered_any ng cmap f2 d); cbn [rbind]; [|reflexivity|reflexivity].
    rewrite app_assoc. reflexivity.
Qed.

Lemma any_results_independent_lemma ng cmap a b d cs : offered_any ng cmap [a; b] d = ROk cs ->
  exists ca cb, any_offered ng cmap d a = ROk ca /\ any_offered ng cmap d b = ROk cb /\ cs = ca ++ cb /\
                offered_any ng cmap [b; a] d = ROk (cb ++ ca).
Proof.
  cbn [offered_any]. destruct (any_offered ng cmap d a) as [ca| |]; cbn [rbind]; try discriminate.
  destruct (any_offered ng cmap d b) as [cb| |]; cbn [rbind]; try discriminate.
  rewrite !app_nil_r. intros H. inversion H. exists ca, cb. auto.
Qed.

(* ---- selection on fonts with format-1 tables: same grouping rules ---- *)
Lemma select_next_any_inv ng cmap f d g : select_next_any ng cmap f d = ROk (Some g) ->
  exists cands, offered_any ng cmap f d = ROk cands /\
    select_from_candidates cands (cid_of_any 0 f) (cid_of_any 1 f) = Some g.
Proof.
  unfold select_next_any. destruct (offered_any ng cmap f d) as [cands| |] eqn:Ho; cbn [rbind]; try discriminate.
  destruct cands as [|c cands]; [discriminate|].
  destruct (optz_eqb (cid_of_any 0 f) (cid_of_any 1 f)); [discriminate|].
  destruct (select_from_candidates (c :: cands) (cid_of_any 0 f) (cid_of_any 1 f)) as [g'|] eqn:Hs; [|discriminate].
  intros H. inversion H; subst. exists (c :: cands). auto.
Qed.

Lemma select_next_any_rules ng cmap f d g : select_next_any ng cmap f d = ROk (Some g) ->
  exists cands, offered_any ng cmap f d = ROk cands /\
    NoDup (uris g) /\ incl (Model.members g) cands /\
    (forall c1 c2, In c1 (Model.members g) -> In c2 (Model.members g) ->
       is_invalidating (c_fmt c1) = true -> is_invalidating (c_fmt c2) = true -> c_cid c1 = c_cid c2 -> c1 = c2) /\
    (forall c, In c (Model.members g) -> c_fmt c = FullInv -> Model.members g = [c]) /\
    match g with
    | GFull c => best_in c (filter is_full cands)
    | GMixed a b =>
        filter is_full cands = [] /\
        scope_ok (filter (pred_pift (cid_of_any 0 f)) cands) a /\
        scope_ok (filter (uri_differs (sel_of a)) (filter (pred_piftx (cid_of_any 0 f) (cid_of_any 1 f)) cands)) b
    end.
Proof.
  intros H. destruct (select_next_any_inv _ _ _ _ _ H) as [cands [Ho Hs]]. exists cands.
  split; [exact Ho|]. split; [eapply group_uris_nodup; eauto|]. split; [eapply members_offered; eauto|].
  split; [eapply one_invalidating_per_table; eauto|]. split; [eapply full_alone; eauto|].
  pose proof (select_shape _ _ _ _ Hs) as Sh. destruct g as [c|a b]; [exact Sh|]. cbn in Sh. tauto.
Qed.

(* ---- the specification's format-1 intersection only grows with the definition ---- *)
Lemma glyph_hit_mono a cmap d d' i : sdef_subset d d' -> glyph_hit a cmap d i -> glyph_hit a cmap d' i.
Proof.
  intros [Hc _] [cp [gid [H1 [H2 H3]]]]. exists cp, gid. split; [exact H1|]. split; [apply Hc; exact H2 | exact H3].
Qed.

Lemma feat_in_mono d d' t : sdef_subset d d' -> feat_in (sd_feat d) t -> feat_in (sd_feat d') t.
Proof.
  intros [_ [Hf _]]. destruct (sd_feat d), (sd_feat d'); cbn in *; auto; try contradiction.
Qed.

Lemma spec_f1_hit_mono a cmap d d' i : sdef_subset d d' -> spec_f1_hit a cmap d i -> spec_f1_hit a cmap d' i.
Proof.
  intros Hs [H|H]; [left; eapply glyph_hit_mono; eauto|]. right.
  destruct H as (tag & fn & emrs & j & first & last & H1 & H2 & H3 & H4 & H5 & H6 & H7 & H8 & i0 & H9 & H10).
  exists tag, fn, emrs, j, first, last.
  split; [exact H1|]. split; [eapply feat_in_mono; eauto|].
  split; [exact H3|]. split; [exact H4|]. split; [exact H5|]. split; [exact H6|]. split; [exact H7|].
  split; [exact H8|]. exists i0. split; [exact H9 | eapply glyph_hit_mono; eauto].
Qed.

(* format-1 offered entries (keys of the entries map) are monotone in the definition *)
Lemma format1_entries_monotone record a cmap d d' m m' :
  f1abs_wf a cmap d -> f1abs_wf a cmap d' -> sdef_subset d d' ->
  f1_entries_abs record a cmap d = ROk m -> f1_entries_abs record a cmap d' = ROk m' ->
  incl (map fst m) (map fst m').
Proof.
  intros W W' Hs E E' i Hi.
  destruct (FV.C19.Fmt1Proofs.format1_entries_match_spec_lemma record a cmap d W) as [m0 [E0 H0]].
  destruct (FV.C19.Fmt1Proofs.format1_entries_match_spec_lemma record a cmap d' W') as [m1 [E1 H1]].
  rewrite E in E0. inversion E0; subst m0. rewrite E' in E1. inversion E1; subst m1.
  apply H1. eapply spec_f1_hit_mono; eauto. apply H0. exact Hi.
Qed.
