(* C19 — executable model of format-1 patch maps, from the table bytes
   (incremental-font-transfer/src/patchmap.rs: add_intersecting_format1_patches,
    intersect_format1_glyph_and_feature_map, intersect_format1_glyph_map(_inner),
    intersect_format1_feature_map, merge_intersecting_entries, PatchFormat::is_invalidating_format;
    read-fonts: PatchMapFormat1 / GlyphMap / FeatureMap / FeatureRecord / EntryMapRecord readers,
    U8Or16, PatchMapFormat1::is_entry_applied, FeatureMap::entry_records_size).
   No proofs in this file.  [RPanic] = a slice out of range; [RErr] = Err(ReadError).
   (The u16 stride arithmetic of earlier revisions was moved to usize / checked_add upstream: commit 9bc6adf.) *)
From Coq Require Import ZArith List Bool.
From FV Require Import Lib.RustInt C19.Model C19.Dec2.
Import ListNotations.
Open Scope Z_scope.

(* U8Or16: one byte if max_entry_index < 256, else two *)
Definition fw (max_entry : Z) : nat := if max_entry <? 256 then 1%nat else 2%nat.
Definition rd_idx (max_entry : Z) (l : list Z) : dres (Z * list Z) := rd_be (fw max_entry) l.

(* BTreeMap<u16, SubsetDefinition>: sorted by entry index; value = (codepoints, feature tags) as sorted sets *)
Definition emap := list (Z * (list Z * list Z)).
Definition set_union (a b : list Z) : list Z := fold_left (fun acc x => ins_z x acc) b a.
(* entries.entry(k).or_default() followed by an update of the value *)
Fixpoint em_update (k : Z) (f : list Z * list Z -> list Z * list Z) (m : emap) : emap :=
  match m with
  | [] => [(k, f ([], []))]
  | kv :: r => if k <? fst kv then (k, f ([], [])) :: m
               else if k =? fst kv then (k, f (snd kv)) :: r
               else kv :: em_update k f r
  end.

Record f1hdr := mkH {
  h_max_entry : Z; h_max_gm : Z; h_glyph_count : Z; h_gm_off : Z; h_fm_off : Z;
  h_bitmap : list Z; h_fmt : Z }.

(* PatchMapFormat1::read *)
Definition f1_header (bytes : list Z) : dres f1hdr :=
  let* '(fmt, _) := rd_be 1 bytes in
  if negb (fmt =? 1) then RErr else
  let* '(_, r) := take 4 bytes in
  let* '(fflags, r) := rd_be 1 r in
  let* '(_, r) := take 16 r in
  let* '(max_entry, r) := rd_be 2 r in
  let* '(max_gm, r) := rd_be 2 r in
  let* '(gc, r) := rd_be 3 r in
  let* '(gmo, r) := rd_be 4 r in
  let* '(fmo, r) := rd_be 4 r in
  let* '(bitmap, r) := take (Z.to_nat ((max_entry + 1 + 7) / 8)) r in     (* max_value_bitmap_len *)
  let* '(tlen, r) := rd_be 2 r in
  let* '(_, r) := take (Z.to_nat tlen) r in
  let* '(pf, r) := rd_be 1 r in
  let* '(_, r) := take (if Z.testbit fflags 0 then 4 else 0)%nat r in
  let* '(_, r) := take (if Z.testbit fflags 1 then 4 else 0)%nat r in
  ROk (mkH max_entry max_gm gc gmo fmo bitmap pf).

(* GlyphMap::read_with_args(data, (glyph_count, max_entry_index)): first mapped glyph and the array
   bytes; the array holds subtract(glyph_count, first_mapped_glyph) items *)
Definition f1_glyph_map (bytes : list Z) (h : f1hdr) : dres (Z * Z * list Z) :=
  if h_gm_off h =? 0 then RErr else
  let* '(_, d) := take (Z.to_nat (h_gm_off h)) bytes in
  let* '(first, r) := rd_be 2 d in
  let count := Z.max 0 (h_glyph_count h - first) in
  let* '(arr, _) := take (Z.to_nat count * fw (h_max_entry h))%nat r in
  ROk (first, count, arr).

(* glyph_map.entry_index().get(i) *)
Definition gm_get (max_entry : Z) (count : Z) (arr : list Z) (i : Z) : dres Z :=
  if (i <? 0) || (count <=? i) then RErr
  else let* '(v, _) := rd_idx max_entry (skipn (Z.to_nat i * fw max_entry)%nat arr) in ROk v.

(* intersect_format1_glyph_map_inner over the (codepoint, gid) pairs of the request *)
Fixpoint gm_phase (record : bool) (max_entry max_gm first count : Z) (arr : list Z)
         (pairs : list (Z * Z)) (m : emap) : dres emap :=
  match pairs with
  | [] => ROk m
  | (cp, gid) :: r =>
      let* e := (if gid <? first then ROk 0 else gm_get max_entry count arr (gid - first)) in
      if max_gm <? e then gm_phase record max_entry max_gm first count arr r m
      else gm_phase record max_entry max_gm first count arr r
             (em_update e (fun v => if record then (ins_z cp (fst v), snd v) else v) m)
  end.

(* FeatureMap::read_with_args: records (tag, first_new_entry_index, entry_map_count), entry_map_data *)
Definition f1_feature_map (bytes : list Z) (h : f1hdr) : dres (option (list (Z * Z * Z) * list Z)) :=
  if h_fm_off h =? 0 then ROk None else
  let* '(_, d) := take (Z.to_nat (h_fm_off h)) bytes in
  let* '(fc, r) := rd_be 2 d in
  let* '(recs, emd) := rd_many (fun l => let* '(t, a) := rd_be 4 l in
                                         let* '(fn, b) := rd_idx (h_max_entry h) a in
                                         let* '(c, z) := rd_idx (h_max_entry h) b in ROk ((t, fn, c), z))
                               (Z.to_nat fc) r in
  ROk (Some (recs, emd)).

(* merge_intersecting_entries *)
Definition merge_entries (record : bool) (first last mapped tag : Z) (m : emap) : emap :=
  let rng := filter (fun kv => (first <=? fst kv) && (fst kv <=? last)) m in
  match rng with
  | [] => m
  | _ =>
      let merged := if record
                    then (fold_left (fun acc kv => set_union acc (fst (snd kv))) rng [],
                          ins_z tag (fold_left (fun acc kv => set_union acc (snd (snd kv))) rng []))
                    else ([], []) in
      em_update mapped (fun v => (set_union (fst v) (fst merged), set_union (snd v) (snd merged))) m
  end.

(* for i in 0..entry_count { ... } of one feature record; index arithmetic is in usize *)
Fixpoint rec_loop (n : nat) (i cum : Z) (record : bool) (max_entry max_gm : Z) (emd : list Z)
         (tag first_new : Z) (m : emap) : dres emap :=
  match n with
  | O => ROk m
  | S n' =>
      let index := i + cum in
      let byte_index := index * Z.of_nat (fw max_entry) * 2 in
      if Z.of_nat (length emd) <? byte_index then RPanic else          (* &entry_map_data[byte_index..] *)
      (* first_new_entry_index.checked_add(i): None => continue *)
      if 65535 <? first_new + i then rec_loop n' (i + 1) cum record max_entry max_gm emd tag first_new m else
      let mapped := first_new + i in
      let* '(first, r) := rd_idx max_entry (skipn (Z.to_nat byte_index) emd) in
      let* '(last, _) := rd_idx max_entry r in
      let m' := if (last <? first) || (max_gm <? first) || (max_gm <? last)
                   || (mapped <=? max_gm) || (max_entry <? mapped)
                then m else merge_entries record first last mapped tag m in
      rec_loop n' (i + 1) cum record max_entry max_gm emd tag first_new m'
  end.

(* loop state: cumulative_entry_map_count, largest_tag, entries *)
Definition fstate := (Z * option Z * emap)%type.
Definition tag_le_largest (t : Z) (largest : option Z) : bool :=
  match largest with Some l => t <=? l | None => false end.

Section FeatureLoop.
Variables (record : bool) (max_entry max_gm : Z) (emd : list Z).

Definition process (r : Z * Z * Z) (st : fstate) : dres fstate :=
  let '(tag, first_new, count) := r in
  let '(cum, _, m) := st in
  let* m' := rec_loop (Z.to_nat count) 0 cum record max_entry max_gm emd tag first_new m in
  ROk (cum + count, Some tag, m').

(* features = FeatureSet::All: every record, skipping out-of-order / duplicate tags *)
Fixpoint fm_all (recs : list (Z * Z * Z)) (st : fstate) : dres fstate :=
  match recs with
  | [] => ROk st
  | r :: rest =>
      let '(tag, _, count) := r in
      let '(cum, largest, m) := st in
      if tag_le_largest tag largest then fm_all rest (cum + count, largest, m)
      else let* st' := process r (cum, Some tag, m) in fm_all rest st'
  end.

(* features = FeatureSet::Set(tags): the two-iterator merge (tags and records both peekable) *)
Fixpoint fm_set (recs : list (Z * Z * Z)) : list Z -> fstate -> dres fstate :=
  fix go (tags : list Z) (st : fstate) : dres fstate :=
    match recs with
    | [] => ROk st
    | r :: rest =>
        match tags with
        | [] => ROk st
        | t :: tags' =>
            let '(rtag, _, count) := r in
            let '(cum, largest, m) := st in
            if rtag <? t then fm_set rest tags (cum + count, largest, m)
            else if tag_le_largest t largest then go tags' st
            else if t <? rtag then go tags' (cum, Some t, m)
            else let* st' := process r (cum, Some t, m) in fm_set rest tags st'
        end
    end.
End FeatureLoop.

(* PatchFormat::is_invalidating_format *)
Definition is_invalidating_format (f : Z) : bool := (f =? 1) || (f =? 2).

(* PatchMapFormat1::is_entry_applied *)
Definition is_entry_applied (bitmap : list Z) (idx : Z) : bool :=
  match nth_error bitmap (Z.to_nat (idx / 8)) with
  | Some b => negb (Z.land b (Z.shiftl 1 (idx mod 8)) =? 0)
  | None => false
  end.

(* a format-1 table as the font holds it; [f1_uris]: entry index -> expanded uri (rank) *)
Record f1table := mkF1 { f1_tag : Z; f1_cid : Z; f1_tmpl_ok : bool; f1_bytes : list Z; f1_uris : list (Z * Z) }.

(* intersect_format1_glyph_and_feature_map: the entries map *)
Definition f1_entries (bytes : list Z) (h : f1hdr) (cmap : list (Z * Z)) (d : sdef) : dres emap :=
  let record := is_invalidating_format (h_fmt h) in
  let* '(first, count, arr) := f1_glyph_map bytes h in
  let pairs := filter (fun p => cp_mem (sd_cp d) (fst p)) cmap in
  let* m := gm_phase record (h_max_entry h) (h_max_gm h) first count arr pairs [] in
  let* fm := f1_feature_map bytes h in
  match fm with
  | None => ROk m
  | Some (recs, emd) =>
      let w := Z.of_nat (fw (h_max_entry h)) in
      let size := fold_left (fun acc r => acc + snd r * w * 2) recs 0 in          (* entry_records_size *)
      if Z.of_nat (length emd) <? size then RErr else
      let* '(_, _, m') :=
         match sd_feat d with
         | FAll => fm_all record (h_max_entry h) (h_max_gm h) emd recs (0, None, m)
         | FSet tags => fm_set record (h_max_entry h) (h_max_gm h) emd recs tags (0, None, m)
         end in
      ROk m'
  end.

(* add_intersecting_format1_patches; [num_glyphs] = maxp.num_glyphs *)
Definition f1_offered (t : f1table) (num_glyphs : Z) (cmap : list (Z * Z)) (d : sdef) : dres (list cand) :=
  let bytes := f1_bytes t in
  let* h := f1_header bytes in
  if negb (h_glyph_count h =? num_glyphs) then RErr else
  if h_max_entry h <? h_max_gm h then RErr else
  let* fmt := format_of (h_fmt h) in
  let* m := f1_entries bytes h cmap d in
  ROk (map (fun kv =>
             let idx := fst kv in
             mkC (f1_tag t) (f1_cid t) (f1_tmpl_ok t) (Z.to_nat idx)
                 (match find (fun p => fst p =? idx) (f1_uris t) with Some p => snd p | None => -1 end)
                 fmt (36 * 8 + idx)
                 (if is_invalidating_format (h_fmt h)
                  then mkI (Z.of_nat (length (fst (snd kv)))) (Z.of_nat (length (snd (snd kv)))) [] idx
                  else info_default))
           (filter (fun kv => (0 <? fst kv) && negb (is_entry_applied (h_bitmap h) (fst kv))) m)).

(* ---- fonts whose "IFT " / "IFTX" tables are of either format ---- *)
Inductive anytable := T1 (t : f1table) | T2 (t : table).
Definition any_tag (t : anytable) : Z := match t with T1 a => f1_tag a | T2 a => t_tag a end.
Definition any_cid (t : anytable) : Z := match t with T1 a => f1_cid a | T2 a => t_cid a end.
Definition any_offered (num_glyphs : Z) (cmap : list (Z * Z)) (d : sdef) (t : anytable) : dres (list cand) :=
  match t with
  | T1 a => f1_offered a num_glyphs cmap d
  | T2 a => match table_offered a d with Some c => ROk c | None => RErr end
  end.
(* intersecting_patches *)
Fixpoint offered_any (num_glyphs : Z) (cmap : list (Z * Z)) (f : list anytable) (d : sdef) : dres (list cand) :=
  match f with
  | [] => ROk []
  | t :: r => let* a := any_offered num_glyphs cmap d t in
              let* b := offered_any num_glyphs cmap r d in ROk (a ++ b)
  end.
Definition cid_of_any (tag : Z) (f : list anytable) : option Z :=
  option_map any_cid (find (fun t => any_tag t =? tag) f).
(* PatchGroup::select_next_patches *)
Definition select_next_any (num_glyphs : Z) (cmap : list (Z * Z)) (f : list anytable) (d : sdef)
  : dres (option group) :=
  let* cands := offered_any num_glyphs cmap f d in
  match cands with
  | [] => ROk None
  | _ =>
      let ift := cid_of_any 0 f in
      let iftx := cid_of_any 1 f in
      if optz_eqb ift iftx then RErr
      else match select_from_candidates cands ift iftx with Some g => ROk (Some g) | None => RErr end
  end.
