(* C08 — format 4: create_format_4 rows, Cmap4 binary search and glyph-id arithmetic *)
From Coq Require Import ZArith List Bool Lia.
From FV Require Import Lib.RustInt C08.Model C08.Basics C08.Segs.
Import ListNotations.
Open Scope Z_scope.
Ltac Zify.zify_post_hook ::= Z.div_mod_to_equations.

Notation d0 := ((0, 0) : Z * Z) (only parsing).

Lemma nth_error_skipn {A} (l : list A) k j : nth_error (skipn k l) j = nth_error l (k + j).
Proof.
  revert l. induction k as [|k IH]; intros l; [reflexivity|].
  destruct l as [|a l]; [destruct j; reflexivity|]. cbn. apply IH.
Qed.
Lemma skipn_add {A} (l : list A) a b : skipn (a + b) l = skipn b (skipn a l).
Proof.
  revert l. induction a as [|a IH]; intros l; [reflexivity|].
  destruct l as [|x l]; [cbn; rewrite skipn_nil; reflexivity|]. cbn. apply IH.
Qed.
Lemma nth_error_hd (chunk r : list (Z * Z)) : chunk <> [] -> nth_error (chunk ++ r) 0 = Some (hd d0 chunk).
Proof. destruct chunk; [congruence | reflexivity]. Qed.
Lemma nth_error_last (chunk r : list (Z * Z)) : chunk <> [] ->
  nth_error (chunk ++ r) (length chunk - 1) = Some (last chunk d0).
Proof.
  intros H. rewrite nth_error_app1 by (destruct chunk; [congruence | cbn; lia]).
  rewrite last_nth by auto. apply nth_error_nth'. destruct chunk; [congruence | cbn; lia].
Qed.

Lemma delta_i16_spec d : -32768 <= delta_i16 d < 32768 /\ (delta_i16 d - d) mod 65536 = 0.
Proof.
  unfold delta_i16, wrap_s. change (2 ^ (16 - 1)) with 32768. change (2 ^ 16) with 65536. lia.
Qed.

(* ---------- what create_format_4's loop produces ---------- *)
Definition cp16 (p : Z * Z) : Prop := 0 <= fst p <= 65535.

Inductive rows_ok (nseg : nat) : nat -> nat -> list Row -> list Z -> list (Z * Z) -> Prop :=
| ro_nil i n : rows_ok nseg i n [] [] []
| ro_delta i n chunk rest d rows gids :
    chunk <> [] -> cp_run chunk -> gid_run chunk ->
    -32768 <= d < 32768 -> (d - (snd (hd d0 chunk) - fst (hd d0 chunk))) mod 65536 = 0 ->
    rows_ok nseg (S i) n rows gids rest ->
    rows_ok nseg i n ((fst (hd d0 chunk), fst (last chunk d0), d, 0) :: rows) gids (chunk ++ rest)
| ro_range i n chunk rest ro rows gids :
    chunk <> [] -> cp_run chunk ->
    ro = Z.of_nat (nseg - i + n) * 2 -> (i < nseg)%nat -> ro <= 65535 ->
    rows_ok nseg (S i) (n + length chunk) rows gids rest ->
    rows_ok nseg i n ((fst (hd d0 chunk), fst (last chunk d0), 0, ro) :: rows) (map snd chunk ++ gids) (chunk ++ rest).

Lemma wrap16_id x : 0 <= x <= 65535 -> wrap_u 16 x = x.
Proof. intros. unfold wrap_u. change (2 ^ 16) with 65536. apply Z.mod_small. lia. Qed.

Lemma f4_loop_rows ms nseg segs k l : segs_cover segs k l ->
  forall post i cur_n rows gids, skipn k ms = l ++ post -> Forall cp16 l -> (i + length segs < nseg)%nat ->
  f4_loop ms nseg i cur_n segs = Some (rows, gids) -> rows_ok nseg i cur_n rows gids l.
Proof.
  induction 1 as [k | s segs k chunk rest Hne Hs He Hsc Hec Hcp Hd Hcov IH];
    intros post i cur_n rows gids Hsk HF Hi E.
  - cbn in E. inversion E; subst. constructor.
  - cbn [f4_loop] in E.
    assert (E1 : nth_error ms (start_ix s) = Some (hd d0 chunk)).
    { rewrite Hs. replace k with (k + 0)%nat at 1 by lia. rewrite <- nth_error_skipn, Hsk, <- app_assoc.
      apply nth_error_hd; auto. }
    assert (E2 : nth_error ms (end_ix s) = Some (last chunk d0)).
    { rewrite He. replace (k + length chunk - 1)%nat with (k + (length chunk - 1))%nat
        by (destruct chunk; [congruence | cbn; lia]).
      rewrite <- nth_error_skipn, Hsk, <- app_assoc. apply nth_error_last; auto. }
    rewrite E1, E2 in E. cbn [obind] in E.
    assert (HFc : Forall cp16 chunk /\ Forall cp16 rest) by (apply Forall_app; auto).
    destruct HFc as [HFc HFr].
    assert (Hhd : cp16 (hd d0 chunk)).
    { destruct chunk; [congruence|]. inversion HFc; auto. }
    assert (Hla : cp16 (last chunk d0)).
    { rewrite Forall_forall in HFc. apply HFc. destruct chunk; [congruence|]. apply (@exists_last _ (p :: chunk)) in Hne.
      destruct Hne as [l' [a ->]]. rewrite last_last. apply in_or_app. right. left. reflexivity. }
    unfold cp16 in Hhd, Hla. rewrite !wrap16_id in E by lia.
    assert (Hsk' : skipn (k + length chunk) ms = rest ++ post).
    { rewrite skipn_add, Hsk, <- app_assoc. rewrite skipn_app, skipn_all, Nat.sub_diag. reflexivity. }
    cbn [length] in Hi.
    destruct (id_delta s) as [d|] eqn:Ed.
    + destruct (Hd d eq_refl) as [Hdv Hgr].
      cbn zeta in E.
      destruct (f4_loop ms nseg (S i) cur_n segs) as [[rows' gids']|] eqn:Er; [|discriminate].
      cbn [obind fst snd] in E. inversion E; subst rows gids; clear E.
      destruct (delta_i16_spec d) as [Hr Hm]. subst d.
      apply ro_delta; auto. eapply IH; eauto. lia.
    + destruct (Nat.ltb nseg i) eqn:Eni; [discriminate|]. apply Nat.ltb_ge in Eni.
      destruct (chk_u 16 (Z.of_nat (nseg - i + cur_n) * 2)) as [ro|] eqn:Ero; [|discriminate].
      cbn [obind] in E.
      destruct (Nat.ltb (end_ix s) (start_ix s)); [discriminate|].
      destruct (Nat.leb (length ms) (end_ix s)); [discriminate|].
      assert (Hsl : slice ms (start_ix s) (end_ix s - start_ix s + 1) = chunk).
      { unfold slice. rewrite Hs, He, Hsk.
        replace (k + length chunk - 1 - k + 1)%nat with (length chunk)
          by (destruct chunk; [congruence | cbn; lia]).
        rewrite <- app_assoc. apply firstn_exact. }
      rewrite Hsl in E.
      destruct (negb (forallb (in_u 16) (map snd chunk))); [discriminate|].
      rewrite map_length in E.
      destruct (f4_loop ms nseg (S i) (cur_n + length chunk) segs) as [[rows' gids']|] eqn:Er; [|discriminate].
      cbn [obind fst snd] in E. inversion E; subst rows gids; clear E.
      unfold chk_u, in_u in Ero. change (2 ^ 16) with 65536 in Ero.
      destruct ((0 <=? Z.of_nat (nseg - i + cur_n) * 2) && (Z.of_nat (nseg - i + cur_n) * 2 <? 65536)) eqn:Eb;
        [|discriminate]. inversion Ero; subst ro.
      apply ro_range; auto; try lia. eapply IH; eauto. lia.
Qed.

(* ---------- monotone rows ---------- *)
Fixpoint rmono (lo : Z) (rows : list Row) : Prop :=
  match rows with
  | [] => True
  | r :: t => lo <= row_start r /\ row_start r <= row_end r /\ rmono (row_end r) t
  end.

Lemma rmono_nth rows : forall lo, rmono lo rows ->
  (forall i r, nth_error rows i = Some r -> lo <= row_start r /\ row_start r <= row_end r) /\
  (forall i j a b, (i < j)%nat -> nth_error rows i = Some a -> nth_error rows j = Some b -> row_end a <= row_start b).
Proof.
  induction rows as [|x t IH]; intros lo H.
  - split; intros; destruct i; try destruct j; discriminate.
  - cbn [rmono] in H. destruct H as (H1 & H2 & H3). destruct (IH _ H3) as [IHa IHb]. split.
    + intros [|i] r Hr; cbn in Hr.
      * inversion Hr; subst. auto.
      * destruct (IHa _ _ Hr). split; lia.
    + intros i [|j] a b Hij Ha Hb; [lia|]. cbn in Hb. destruct i as [|i]; cbn in Ha.
      * inversion Ha; subst. destruct (IHa _ _ Hb). lia.
      * apply (IHb i j a b); [lia | exact Ha | exact Hb].
Qed.

Lemma rmono_snoc rows s : forall lo, rmono lo rows -> (forall r, In r rows -> row_end r <= row_start s) ->
  lo <= row_start s -> row_start s <= row_end s -> rmono lo (rows ++ [s]).
Proof.
  induction rows as [|x t IH]; intros lo H Hall Hlo Hs.
  - cbn. auto.
  - cbn [rmono app] in *. destruct H as (H1 & H2 & H3). repeat split; auto.
    apply IH; auto. intros; apply Hall; right; auto. apply Hall. left. auto.
Qed.

Lemma rows_ok_mono nseg i n rows gids l : rows_ok nseg i n rows gids l -> asc l ->
  forall lo, (forall p, In p l -> lo <= fst p) ->
  rmono lo rows /\ (forall r, In r rows -> exists p, In p l /\ row_end r = fst p).
Proof.
  assert (Hchunk : forall chunk rest lo, chunk <> [] -> cp_run chunk -> asc (chunk ++ rest) ->
            (forall p, In p (chunk ++ rest) -> lo <= fst p) ->
            lo <= fst (hd d0 chunk) /\ fst (hd d0 chunk) <= fst (last chunk d0) /\
            In (last chunk d0) (chunk ++ rest) /\
            (forall p, In p rest -> fst (last chunk d0) <= fst p)).
  { intros chunk rest lo Hne Hcp Ha Hlo.
    assert (Hin : In (last chunk d0) chunk).
    { destruct (exists_last Hne) as [l' [a ->]]. rewrite last_last. apply in_or_app. right. left. auto. }
    split; [apply Hlo; destruct chunk; [congruence | left; reflexivity]|].
    assert (Hlen : (0 < length chunk)%nat) by (destruct chunk; [congruence | cbn; lia]).
    split; [rewrite cp_run_last by auto; lia|].
    split; [apply in_or_app; auto|].
    intros p Hp. destruct (exists_last Hne) as [l' [a E]]. rewrite E in *. rewrite last_last.
    rewrite <- app_assoc in Ha. apply adj_app_r in Ha. cbn [app] in Ha.
    pose proof (asc_head_lt _ _ Ha p Hp). lia. }
  induction 1 as [i n | i n chunk rest d rows gids Hne Hcp Hg Hd Hm Hr IH
                      | i n chunk rest ro rows gids Hne Hcp Hro Hi Hle Hr IH]; intros Ha lo Hlo.
  - split; [cbn; auto | intros r []].
  - destruct (Hchunk _ _ _ Hne Hcp Ha Hlo) as (H1 & H2 & H3 & H4).
    destruct (IH (adj_app_r _ _ _ Ha) _ H4) as [IH1 IH2]. split.
    + cbn [rmono]. unfold row_start, row_end. cbn [fst snd]. auto.
    + intros r [<-|Hr']; [eexists; split; [exact H3 | reflexivity]|].
      destruct (IH2 _ Hr') as [p [Hp Ep]]. exists p. split; [apply in_or_app; auto | auto].
  - destruct (Hchunk _ _ _ Hne Hcp Ha Hlo) as (H1 & H2 & H3 & H4).
    destruct (IH (adj_app_r _ _ _ Ha) _ H4) as [IH1 IH2]. split.
    + cbn [rmono]. unfold row_start, row_end. cbn [fst snd]. auto.
    + intros r [<-|Hr']; [eexists; split; [exact H3 | reflexivity]|].
      destruct (IH2 _ Hr') as [p [Hp Ep]]. exists p. split; [apply in_or_app; auto | auto].
Qed.

(* ---------- lookup arithmetic per row ---------- *)
Definition valid (p : Z * Z) : Prop := 0 <= fst p <= 1114111 /\ 0 < snd p < 65536.

Lemma nth_error_map_some {A B} (f : A -> B) l i x : nth_error l i = Some x -> nth_error (map f l) i = Some (f x).
Proof. intros H. rewrite nth_error_map, H. reflexivity. Qed.

Lemma in_run_nth (chunk : list (Z * Z)) c : cp_run chunk -> chunk <> [] ->
  fst (hd d0 chunk) <= c <= fst (last chunk d0) ->
  exists k, (k < length chunk)%nat /\ Z.of_nat k = c - fst (hd d0 chunk) /\ fst (nth k chunk d0) = c.
Proof.
  intros Hcp Hne Hc. rewrite cp_run_last in Hc by auto.
  exists (Z.to_nat (c - fst (hd d0 chunk))). split; [lia|]. split; [lia|].
  rewrite cp_run_nth by (auto; lia). lia.
Qed.

Lemma rows_ok_lookup nseg i n rows gids l : rows_ok nseg i n rows gids l ->
  forall preR postR preG T, length preR = i -> length preG = n ->
  deltas T = map row_delta (preR ++ rows ++ postR) -> roffs T = map row_roff (preR ++ rows ++ postR) ->
  gida T = preG ++ gids -> length (preR ++ rows ++ postR) = nseg -> Forall valid l ->
  (forall j r, nth_error rows j = Some r -> forall c, row_start r <= c <= row_end r ->
     exists g, In (c, g) l /\ cmap4_lookup_glyph_id T c (i + j) (row_start r) = Some g) /\
  (forall p, In p l -> exists j r, nth_error rows j = Some r /\ row_start r <= fst p <= row_end r).
Proof.
  induction 1 as [i n | i n chunk rest d rows gids Hne Hcp Hg Hd Hm Hr IH
                      | i n chunk rest ro rows gids Hne Hcp Hro Hi Hle Hr IH];
    intros preR postR preG T HpR HpG HD HR HG Hlen HV.
  - split; [intros j r Hj; destruct j; discriminate | intros p []].
  - assert (HVc : Forall valid chunk /\ Forall valid rest) by (apply Forall_app; auto).
    destruct HVc as [HVc HVr].
    destruct (IH (preR ++ [(fst (hd d0 chunk), fst (last chunk d0), d, 0)]) postR preG T) as [IH1 IH2];
      [rewrite app_length; cbn [length]; lia | exact HpG | rewrite <- app_assoc; exact HD
       | rewrite <- app_assoc; exact HR | exact HG | rewrite <- app_assoc; exact Hlen | exact HVr |].
    clear IH. split.
    + intros [|j] r Hj c Hc.
      * cbn in Hj. inversion Hj; subst r; clear Hj. unfold row_start, row_end in *. cbn [fst snd] in *.
        destruct (in_run_nth _ _ Hcp Hne Hc) as (k & Hk & Hkc & Hnk).
        exists (snd (nth k chunk d0)). split.
        -- apply in_or_app. left. rewrite <- Hnk at 1. rewrite <- surjective_pairing. apply nth_In; auto.
        -- unfold cmap4_lookup_glyph_id, nthz. rewrite HD, HR. rewrite Nat.add_0_r.
           rewrite (nth_error_map_some row_delta _ i (fst (hd d0 chunk), fst (last chunk d0), d, 0))
             by (rewrite nth_error_app2 by lia; rewrite HpR, Nat.sub_diag; reflexivity).
           rewrite (nth_error_map_some row_roff _ i (fst (hd d0 chunk), fst (last chunk d0), d, 0))
             by (rewrite nth_error_app2 by lia; rewrite HpR, Nat.sub_diag; reflexivity).
           cbn [obind row_delta row_roff fst snd]. rewrite Z.eqb_refl.
           rewrite gid_run_nth by auto.
           assert (Hv : valid (nth k chunk d0)) by (rewrite Forall_forall in HVc; apply HVc, nth_In; auto).
           unfold valid in Hv. rewrite gid_run_nth in Hv by auto.
           f_equal. unfold wrap_u. change (2 ^ 16) with 65536. lia.
      * cbn in Hj. destruct (IH1 _ _ Hj c Hc) as [g [Hin Hl]]. exists g. split; [apply in_or_app; auto|].
        rewrite <- Hl. f_equal. lia.
    + intros p Hp. apply in_app_or in Hp. destruct Hp as [Hp|Hp].
      * exists O. eexists. split; [reflexivity|]. unfold row_start, row_end. cbn [fst snd].
        apply In_nth with (d := d0) in Hp. destruct Hp as [k [Hk <-]].
        rewrite cp_run_nth by auto. rewrite cp_run_last by auto. lia.
      * destruct (IH2 _ Hp) as (j & r & Hj & Hr'). exists (S j), r. split; auto.
  - assert (HVc : Forall valid chunk /\ Forall valid rest) by (apply Forall_app; auto).
    destruct HVc as [HVc HVr].
    destruct (IH (preR ++ [(fst (hd d0 chunk), fst (last chunk d0), 0, ro)]) postR (preG ++ map snd chunk) T)
      as [IH1 IH2];
      [rewrite app_length; cbn [length]; lia | rewrite app_length, map_length; lia | rewrite <- app_assoc; exact HD
       | rewrite <- app_assoc; exact HR | rewrite <- app_assoc; exact HG | rewrite <- app_assoc; exact Hlen | exact HVr |].
    clear IH. split.
    + intros [|j] r Hj c Hc.
      * cbn in Hj. inversion Hj; subst r; clear Hj. unfold row_start, row_end in *. cbn [fst snd] in *.
        destruct (in_run_nth _ _ Hcp Hne Hc) as (k & Hk & Hkc & Hnk).
        exists (snd (nth k chunk d0)). split.
        -- apply in_or_app. left. rewrite <- Hnk at 1. rewrite <- surjective_pairing. apply nth_In; auto.
        -- unfold cmap4_lookup_glyph_id, nthz. rewrite HD, HR. rewrite Nat.add_0_r.
           rewrite (nth_error_map_some row_delta _ i (fst (hd d0 chunk), fst (last chunk d0), 0, ro))
             by (rewrite nth_error_app2 by lia; rewrite HpR, Nat.sub_diag; reflexivity).
           rewrite (nth_error_map_some row_roff _ i (fst (hd d0 chunk), fst (last chunk d0), 0, ro))
             by (rewrite nth_error_app2 by lia; rewrite HpR, Nat.sub_diag; reflexivity).
           cbn [obind row_delta row_roff fst snd].
           destruct (Z.eqb_spec ro 0) as [E0|E0]; [lia|].
           rewrite map_length, Hlen.
           assert (Hoff : Z.to_nat (Z.max 0 (ro / 2 + (c - fst (hd d0 chunk)) - (Z.of_nat nseg - Z.of_nat i)))
                          = (n + k)%nat) by lia.
           rewrite Hoff, HG, <- HpG. rewrite nth_error_app2 by lia.
           replace (length preG + k - length preG)%nat with k by lia.
           rewrite nth_error_app1 by (rewrite map_length; lia).
           rewrite (nth_error_map_some snd chunk k (nth k chunk d0)) by (apply nth_error_nth'; auto).
           cbn [obind].
           assert (Hv : valid (nth k chunk d0)) by (rewrite Forall_forall in HVc; apply HVc, nth_In; auto).
           unfold valid in Hv. destruct (Z.eqb_spec (snd (nth k chunk d0)) 0); [lia|].
           f_equal. rewrite Z.add_0_r. apply wrap16_id. lia.
      * cbn in Hj. destruct (IH1 _ _ Hj c Hc) as [g [Hin Hl]]. exists g. split; [apply in_or_app; auto|].
        rewrite <- Hl. f_equal. lia.
    + intros p Hp. apply in_app_or in Hp. destruct Hp as [Hp|Hp].
      * exists O. eexists. split; [reflexivity|]. unfold row_start, row_end. cbn [fst snd].
        apply In_nth with (d := d0) in Hp. destruct Hp as [k [Hk <-]].
        rewrite cp_run_nth by auto. rewrite cp_run_last by auto. lia.
      * destruct (IH2 _ Hp) as (j & r & Hj & Hr'). exists (S j), r. split; auto.
Qed.

(* ---------- Cmap4::map_codepoint's binary search ---------- *)
Section Search4.
  Variable T : T4.
  Variable allrows : list Row.
  Variable c : Z.
  Hypothesis HS : startc T = map row_start allrows.
  Hypothesis HE : endc T = map row_end allrows.
  Hypothesis Hle : forall i a, nth_error allrows i = Some a -> row_start a <= row_end a.
  Hypothesis Hmono : forall i j a b, (i < j)%nat -> nth_error allrows i = Some a -> nth_error allrows j = Some b ->
                                     row_end a <= row_start b.

  Lemma cmap4_search_spec fuel : forall lo hi,
    (hi <= length allrows)%nat -> (hi - lo < fuel)%nat ->
    (forall j a, (j < lo)%nat -> nth_error allrows j = Some a -> row_end a < c) ->
    (forall j a, (hi <= j)%nat -> nth_error allrows j = Some a -> c < row_start a) ->
    (exists i a, nth_error allrows i = Some a /\ row_start a <= c <= row_end a /\
                 cmap4_search fuel T c lo hi = cmap4_lookup_glyph_id T c i (row_start a))
    \/ (cmap4_search fuel T c lo hi = None /\
        forall i a, nth_error allrows i = Some a -> ~ (row_start a <= c <= row_end a)).
  Proof.
    induction fuel as [|f IH]; intros lo hi Hhi Hf Hlo Hhi2; [lia|].
    cbn [cmap4_search]. destruct (Nat.ltb_spec lo hi) as [Hlt|Hge].
    - assert (Hi : (lo <= Nat.div2 (lo + hi) < hi)%nat).
      { rewrite Nat.div2_div. split.
        - apply Nat.div_le_lower_bound; lia.
        - apply Nat.div_lt_upper_bound; lia. }
      remember (Nat.div2 (lo + hi)) as i eqn:Heqi. clear Heqi.
      destruct (nth_error allrows i) as [r|] eqn:En.
      2:{ apply nth_error_None in En. lia. }
      unfold nthz. rewrite HS, HE.
      rewrite (nth_error_map_some row_start _ _ _ En), (nth_error_map_some row_end _ _ _ En).
      pose proof (Hle _ _ En) as Hler.
      destruct (Z.ltb_spec c (row_start r)) as [Hcs|Hcs].
      + apply IH; auto; try lia. intros j a Hj Ha.
        destruct (Nat.eq_dec j i) as [->|Hne].
        * rewrite En in Ha. inversion Ha; subst. lia.
        * destruct (Nat.lt_ge_cases j hi); [|eauto].
          pose proof (Hmono i j _ _ ltac:(lia) En Ha). lia.
      + destruct (Z.ltb_spec (row_end r) c) as [Hec|Hec].
        * apply IH; auto; try lia. intros j a Hj Ha.
          destruct (Nat.eq_dec j i) as [->|Hne].
          -- rewrite En in Ha. inversion Ha; subst. lia.
          -- destruct (Nat.lt_ge_cases j lo); [eauto|].
             pose proof (Hmono j i _ _ ltac:(lia) Ha En). pose proof (Hle _ _ Ha). lia.
        * left. exists i, r. repeat split; auto; lia.
    - right. split; [reflexivity|]. intros i a Ha [H1 H2].
      destruct (Nat.lt_ge_cases i lo) as [Hl|Hl].
      + specialize (Hlo _ _ Hl Ha). lia.
      + specialize (Hhi2 i a ltac:(lia) Ha). lia.
  Qed.
End Search4.
