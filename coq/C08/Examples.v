(* C08 — non-vacuity examples for the hypotheses of Props.v, and refutation witnesses *)
From Coq Require Import ZArith List Lia.
From FV Require Import Lib.RustInt C08.Model C08.Proofs C08.Iter4 C08.Fits4 C08.Var14 C08.Reader C08.Iter14.
Import ListNotations.
Open Scope Z_scope.

(* a mapping with an ordered run, a reversed run (range-offset segment), a wrapped negative delta,
   a segment ending at 0xFFFE, and supplementary characters: the hypotheses of cmap4_answers /
   cmap12_answers / subtable_choice hold of it and both subtables exist *)
Definition ex_input : list (Z * Z) :=
  [(65, 3); (66, 4); (67, 5); (97, 30); (98, 29); (99, 28); (65533, 7); (65534, 8); (40000, 2);
   (65536, 100); (65537, 101); (128512, 9); (1114111, 10); (66, 4)].

Example ex_valid : valid_input ex_input.
Proof. unfold ex_input, valid_input. repeat constructor; cbn; lia. Qed.

Example ex_built : exists t4 gs, from_mappings ex_input = Built (Some t4) (Some gs)
  /\ startc t4 = [65; 97; 40000; 65533; 65535] /\ endc t4 = [67; 99; 40000; 65534; 65535]
  /\ deltas t4 = [-62; 0; 25538; 10; 1] /\ roffs t4 = [0; 8; 0; 0; 0] /\ gida t4 = [30; 29; 28]
  /\ gs = [(65, 67, 3); (97, 97, 30); (98, 98, 29); (99, 99, 28); (40000, 40000, 2); (65533, 65534, 7);
           (65536, 65537, 100); (128512, 128512, 9); (1114111, 1114111, 10)].
Proof. eexists. eexists. split; [vm_compute; reflexivity|]. vm_compute. repeat split; reflexivity. Qed.

Example ex_lookup : forall t4 gs, from_mappings ex_input = Built (Some t4) (Some gs) ->
  cmap4_map t4 98 = Some 29 /\ cmap4_map t4 100 = None /\ cmap12_map gs 1114111 = Some 10.
Proof. intros t4 gs H. vm_compute in H. inversion H; subst. vm_compute. auto. Qed.

(* the former F-2 witness (gid - cp = 39935 in [32768, 65535]) now builds and answers *)
Example f2_witness_builds : exists t4, from_mappings [(65, 40000)] = Built (Some t4) None
  /\ deltas t4 = [-25601; 1] /\ cmap4_map t4 65 = Some 40000 /\ cmap4_map t4 66 = None
  /\ charmap_map (records_of (Some t4) None) 65 = Some 40000.
Proof. eexists. split; [vm_compute; reflexivity|]. vm_compute. repeat split; reflexivity. Qed.
Example f2_boundary : delta_i16 32767 = 32767 /\ delta_i16 32768 = -32768 /\ delta_i16 65535 = -1
                      /\ delta_i16 (-32768) = -32768 /\ delta_i16 (-32769) = 32767.
Proof. vm_compute. auto. Qed.

(* a conflict is reported with the smaller glyph id first *)
Example ex_conflict : from_mappings [(65, 9); (66, 1); (65, 4)] = Conflict 65 4 9.
Proof. vm_compute. reflexivity. Qed.

(* Charmap::mappings keeps U+10FFFF (the former finding: max_char was used as an exclusive bound) *)
Example charmap_mappings_keeps_10FFFF :
  charmap_mappings (records_of None (Some [(1114110, 1114111, 5)])) 10 = [(1114110, 5); (1114111, 6)]
  /\ charmap_map (records_of None (Some [(1114110, 1114111, 5)])) 1114111 = Some 6.
Proof. vm_compute. auto. Qed.

(* the example mapping is within fits4, and its format-4 iteration ends with the sentinel pair *)
Example ex_fits4 : fits4 (canon ex_input) = true.
Proof. vm_compute. reflexivity. Qed.
Example ex_iter4 : forall t4 gs, from_mappings ex_input = Built (Some t4) (Some gs) ->
  cmap4_iter t4 = [(65, 3); (66, 4); (67, 5); (97, 30); (98, 29); (99, 28); (40000, 2); (65533, 7); (65534, 8); (65535, 0)].
Proof. intros t4 gs H. vm_compute in H. inversion H; subst. vm_compute. reflexivity. Qed.
(* with U+FFFF mapped the sentinel contributes nothing and the pair itself is enumerated *)
Example ex_iter4_ffff : exists t4, from_mappings [(65535, 9); (65534, 8)] = Built (Some t4) None
  /\ cmap4_iter t4 = [(65534, 8); (65535, 9)] /\ sentinel_pairs (canon [(65535, 9); (65534, 8)]) = [].
Proof. eexists. split; [vm_compute; reflexivity|]. vm_compute. repeat split; reflexivity. Qed.

(* a well-formed variation-selector table meets wf14; all three answers occur *)
Definition ex_sels : list Sel :=
  [(65024, Some [(48, 9); (100, 0)], Some [(65, 7); (300, 8)]); (917760, None, Some [(66, 11)]); (917761, Some [(0, 255)], None)].
Example ex_wf14 : wf14 ex_sels.
Proof. unfold wf14, ex_sels, wf_sel, sel_of. split; [cbn; lia|]. repeat constructor; cbn; intros x E; inversion E; subst; cbn; lia. Qed.
Example ex_var14 : cmap14_map_variant ex_sels 50 65024 = Some None /\ cmap14_map_variant ex_sels 300 65024 = Some (Some 8)
  /\ cmap14_map_variant ex_sels 58 65024 = None /\ cmap14_map_variant ex_sels 66 65025 = None
  /\ cmap14_map_variant ex_sels 255 917761 = Some None.
Proof. vm_compute. auto. Qed.

(* a sorted reader-side table (not produced by the writer) meets sorted4 / u16_codes *)
Definition ex_t4 : T4 := mkT4 6 [20; 40; 65535] [10; 30; 65535] [5; 0; 1] [0; 4; 0] [7; 0; 9].
Example ex_sorted4 : sorted4 ex_t4 /\ u16_codes ex_t4.
Proof. unfold sorted4, u16_codes, ex_t4, rows_of, u16, row_start, row_end. cbn. repeat split; try lia; repeat constructor; lia. Qed.
Example ex_t4_answers : cmap4_map ex_t4 15 = Some 20 /\ cmap4_map ex_t4 30 = Some 7 /\ cmap4_map ex_t4 31 = None
  /\ cmap4_map ex_t4 33 = None /\ cmap4_map ex_t4 25 = None.        (* delta; array; gid 0; outside the array; no segment *)
Proof. vm_compute. auto. Qed.
(* malformed: overlapping range-offset segments.  map_codepoint is sound (answers by the containing segment's own
   start), while the iterator indexes the second segment from its CLAMPED start: it yields a different glyph for the
   same code point.  (Observation on malformed input; built tables never overlap.) *)
Definition ex_overlap : T4 := mkT4 4 [20; 25] [10; 15] [0; 0] [4; 24] [1; 2; 3; 4; 5; 6; 7; 8; 9; 10; 11; 12; 13; 14; 15; 16; 17; 18; 19; 20; 21; 22].
Example ex_overlap_disagree : cmap4_map ex_overlap 21 = Some 18 /\ In (21, 12) (cmap4_iter ex_overlap).
Proof. vm_compute. intuition. Qed.

(* the example selector table is disjoint; its enumeration expands a range with additionalCount 255 to 256 entries *)
Example ex_dn14 : Forall dn_disjoint ex_sels.
Proof. apply dn14b_sound. vm_compute. reflexivity. Qed.
Example ex_iter14 : length (cmap14_iter ex_sels) = (10 + 1 + 2 + 1 + 256)%nat
  /\ In (57, 65024, None) (cmap14_iter ex_sels) /\ In (255, 917761, None) (cmap14_iter ex_sels) /\ In (300, 65024, Some 8) (cmap14_iter ex_sels).
Proof. vm_compute. intuition. Qed.
Example ex_default_255_at_10FFFF : default_uvs_iter [(1113856, 255)] = zrange 1113856 1114112.
Proof. vm_compute. reflexivity. Qed.
