From Coq Require Import ZArith List.
From FV Require Import Lib.RustInt C08.Model C08.Proofs.
