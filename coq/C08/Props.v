(* C08 — property theorems.  Only statements, [exact lemma] and Print Assumptions.
   valid_input = every pair has a char in U+0000..U+10FFFF and a glyph id in 1..65535;
   canon input = the input sorted and de-duplicated (what from_mappings works with). *)
From Coq Require Import ZArith List.
From FV Require Import Lib.RustInt C08.Model C08.Proofs.
Import ListNotations.
Open Scope Z_scope.

(* Format 4: for every mapping that from_mappings turns into a table (i.e. conflict-free and
   within the format-4 size limits: no F-9 panic), the compiled segment arrays answer every BMP
   code point other than U+FFFF with exactly the input mapping. *)
Theorem cmap4_answers : forall input t4 o12, valid_input input -> from_mappings input = Built (Some t4) o12 ->
  forall c, 0 <= c <= 65535 -> c <> 65535 -> cmap4_map t4 c = assoc c (canon input).
Proof. exact cmap4_answers_assoc_lemma. Qed.
Theorem cmap4_answers_in : forall input t4 o12, valid_input input -> from_mappings input = Built (Some t4) o12 ->
  forall c g, 0 <= c <= 65535 -> c <> 65535 -> (cmap4_map t4 c = Some g <-> In (c, g) input).
Proof. exact cmap4_answers_lemma. Qed.

(* The segment computer never trips its assertion and its segments partition the BMP part of the
   sorted mapping into runs of consecutive code points (delta segments: consecutive glyph ids too). *)
Theorem segments_partition : forall sorted,
  exists segs, compute_segments sorted = Some segs /\ segs_cover segs 0 (bmp_prefix sorted).
Proof. exact segments_partition_lemma. Qed.

(* idDelta: the conversion never panics (F-2 fixed) and the stored i16 reproduces gid - cp modulo 2^16 *)
Theorem delta_mod_65536 : forall d, -32768 <= delta_i16 d < 32768 /\ (delta_i16 d - d) mod 65536 = 0.
Proof. exact delta_mod_65536_lemma. Qed.

(* Format 12: lookup = the mapping, for every code point; iteration = exactly the input pairs in
   ascending order; groups non-empty, ascending, disjoint, maximal. *)
Theorem cmap12_answers : forall input o4 gs, valid_input input -> from_mappings input = Built o4 (Some gs) ->
  forall c g, 0 <= c -> (cmap12_map gs c = Some g <-> In (c, g) input).
Proof. exact cmap12_answers_lemma. Qed.
Theorem cmap12_iter_exact : forall input o4 gs, valid_input input -> from_mappings input = Built o4 (Some gs) ->
  cmap12_iter None gs = canon input /\ asc (canon input) /\ (forall p, In p (canon input) <-> In p input) /\
  (forall i a, nth_error gs i = Some a -> g_start a <= g_end a) /\
  (forall i a b, nth_error gs i = Some a -> nth_error gs (S i) = Some b ->
     g_end a < g_start b /\ ~ (g_start b = g_end a + 1 /\ g_gid b = g_gid a + (g_end a - g_start a) + 1)).
Proof. exact cmap12_iter_exact_lemma. Qed.

(* Which subtables exist: format 12 iff some char is beyond the BMP; format 4 iff some char is in it. *)
Theorem subtable_choice : forall input o4 o12, valid_input input -> from_mappings input = Built o4 o12 ->
  (o12 <> None <-> exists p, In p input /\ 65535 < fst p) /\
  (o4 <> None <-> exists p, In p input /\ fst p <= 65535).
Proof. exact subtable_choice_lemma. Qed.

(* The table-level Cmap::map_codepoint over the four emitted encoding records. *)
Theorem cmap_answers : forall input o4 o12, valid_input input -> from_mappings input = Built o4 o12 ->
  forall c, 0 <= c -> c <> 65535 -> cmap_map (records_of o4 o12) c = assoc c (canon input).
Proof. exact cmap_answers_assoc_lemma. Qed.

(* Conflicts: reported only when real, and never for a conflict-free input. *)
Theorem conflict_sound : forall input ch g1 g2, from_mappings input = Conflict ch g1 g2 ->
  g1 < g2 /\ In (ch, g1) input /\ In (ch, g2) input.
Proof. exact conflict_reported. Qed.
Theorem conflict_free_never_rejected : forall input, conflict_free input ->
  forall ch g1 g2, from_mappings input <> Conflict ch g1 g2.
Proof. exact conflict_free_accepted. Qed.

(* skrifa Charmap::map through subtable selection and the .notdef filter. *)
Theorem charmap_map_answers : forall input o4 o12, valid_input input -> from_mappings input = Built o4 o12 ->
  forall c, 0 <= c -> c <> 65535 -> charmap_map (records_of o4 o12) c = assoc c (canon input).
Proof. exact charmap_map_answers_lemma. Qed.
(* skrifa Charmap::mappings when a format-12 subtable exists: exactly the sorted input pairs (U+10FFFF
   included since the fix of the iterator limit), provided glyph ids are below the glyph count.
   PARTIAL: the format-4-selected case (BMP-only fonts) has no theorem (model + correspondence + oracle). *)
Theorem charmap_mappings_exact_f12_partial : forall input o4 gs ng, valid_input input -> from_mappings input = Built o4 (Some gs) ->
  (forall c g, In (c, g) input -> g < ng) ->
  charmap_mappings (records_of o4 (Some gs)) ng = canon input.
Proof. exact charmap_mappings_exact_f12_lemma. Qed.

Print Assumptions cmap4_answers.
Print Assumptions cmap4_answers_in.
Print Assumptions segments_partition.
Print Assumptions delta_mod_65536.
Print Assumptions cmap12_answers.
Print Assumptions cmap12_iter_exact.
Print Assumptions subtable_choice.
Print Assumptions cmap_answers.
Print Assumptions conflict_sound.
Print Assumptions conflict_free_never_rejected.
Print Assumptions charmap_map_answers.
Print Assumptions charmap_mappings_exact_f12_partial.
