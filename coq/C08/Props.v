(* C08 — property theorems.  Only statements, [exact lemma] and Print Assumptions.
   valid_input = every pair has a char in U+0000..U+10FFFF and a glyph id in 1..65535;
   canon input = the input sorted and de-duplicated (what from_mappings works with). *)
From Coq Require Import ZArith List.
From FV Require Import Lib.RustInt C08.Model C08.Proofs C08.Iter4 C08.Fits4 C08.Var14 C08.Reader C08.Iter14.
Import ListNotations.
Open Scope Z_scope.

(* Format 4: for every mapping that from_mappings turns into a table (i.e. conflict-free and
   within the format-4 size limits: no F-9 panic), the compiled segment arrays answer every BMP
   code point other than U+FFFF with exactly the input mapping. *)
Theorem cmap4_answers : forall input t4 o12, valid_input input -> from_mappings input = Built (Some t4) o12 ->
  forall c, 0 <= c <= 65535 -> c <> 65535 -> cmap4_map t4 c = assoc c (canon input).
Proof. exact cmap4_answers_assoc_lemma. Qed.
Theorem cmap4_answers_in : forall input t4 o12, valid_input input -> from_mappings input = Built (Some t4) o12 ->
  forall c g, 0 <= c <= 65535 -> c <> 65535 -> (cmap4_map t4 c = Some g <-> In (c, g) input).
Proof. exact cmap4_answers_lemma. Qed.

(* The segment computer never trips its assertion and its segments partition the BMP part of the
   sorted mapping into runs of consecutive code points (delta segments: consecutive glyph ids too). *)
Theorem segments_partition : forall sorted,
  exists segs, compute_segments sorted = Some segs /\ segs_cover segs 0 (bmp_prefix sorted).
Proof. exact segments_partition_lemma. Qed.

(* idDelta: the conversion never panics (F-2 fixed) and the stored i16 reproduces gid - cp modulo 2^16 *)
Theorem delta_mod_65536 : forall d, -32768 <= delta_i16 d < 32768 /\ (delta_i16 d - d) mod 65536 = 0.
Proof. exact delta_mod_65536_lemma. Qed.

(* Format 12: lookup = the mapping, for every code point; iteration = exactly the input pairs in
   ascending order; groups non-empty, ascending, disjoint, maximal. *)
Theorem cmap12_answers : forall input o4 gs, valid_input input -> from_mappings input = Built o4 (Some gs) ->
  forall c g, 0 <= c -> (cmap12_map gs c = Some g <-> In (c, g) input).
Proof. exact cmap12_answers_lemma. Qed.
Theorem cmap12_iter_exact : forall input o4 gs, valid_input input -> from_mappings input = Built o4 (Some gs) ->
  cmap12_iter None gs = canon input /\ asc (canon input) /\ (forall p, In p (canon input) <-> In p input) /\
  (forall i a, nth_error gs i = Some a -> g_start a <= g_end a) /\
  (forall i a b, nth_error gs i = Some a -> nth_error gs (S i) = Some b ->
     g_end a < g_start b /\ ~ (g_start b = g_end a + 1 /\ g_gid b = g_gid a + (g_end a - g_start a) + 1)).
Proof. exact cmap12_iter_exact_lemma. Qed.

(* Which subtables exist: format 12 iff some char is beyond the BMP; format 4 iff some char is in it. *)
Theorem subtable_choice : forall input o4 o12, valid_input input -> from_mappings input = Built o4 o12 ->
  (o12 <> None <-> exists p, In p input /\ 65535 < fst p) /\
  (o4 <> None <-> exists p, In p input /\ fst p <= 65535).
Proof. exact subtable_choice_lemma. Qed.

(* The table-level Cmap::map_codepoint over the four emitted encoding records. *)
Theorem cmap_answers : forall input o4 o12, valid_input input -> from_mappings input = Built o4 o12 ->
  forall c, 0 <= c -> c <> 65535 -> cmap_map (records_of o4 o12) c = assoc c (canon input).
Proof. exact cmap_answers_assoc_lemma. Qed.

(* Conflicts: reported only when real, and never for a conflict-free input. *)
Theorem conflict_sound : forall input ch g1 g2, from_mappings input = Conflict ch g1 g2 ->
  g1 < g2 /\ In (ch, g1) input /\ In (ch, g2) input.
Proof. exact conflict_reported. Qed.
Theorem conflict_free_never_rejected : forall input, conflict_free input ->
  forall ch g1 g2, from_mappings input <> Conflict ch g1 g2.
Proof. exact conflict_free_accepted. Qed.

(* skrifa Charmap::map through subtable selection and the .notdef filter. *)
Theorem charmap_map_answers : forall input o4 o12, valid_input input -> from_mappings input = Built o4 o12 ->
  forall c, 0 <= c -> c <> 65535 -> charmap_map (records_of o4 o12) c = assoc c (canon input).
Proof. exact charmap_map_answers_lemma. Qed.
(* Cmap4Iter over the built segment arrays: exactly the BMP part of the sorted input, in ascending
   order, followed - iff U+FFFF itself is not mapped - by the one pair (0xFFFF, 0) that the format's
   sentinel segment stands for (sentinel_pairs ms = [] if assoc 0xFFFF ms is Some, else [(65535, 0)]). *)
Theorem cmap4_iter_exact : forall input t4 o12, valid_input input -> from_mappings input = Built (Some t4) o12 ->
  cmap4_iter t4 = bmp_prefix (canon input) ++ sentinel_pairs (canon input).
Proof. exact cmap4_iter_exact_lemma. Qed.

(* skrifa Charmap::mappings (selection, Cmap12 iterator limits = (char::MAX, numGlyphs), .notdef filter),
   every case: exactly the input pairs in ascending order, for glyph ids below the glyph count. *)
Theorem charmap_mappings_exact : forall input o4 o12 ng, valid_input input -> from_mappings input = Built o4 o12 ->
  (forall c g, In (c, g) input -> g < ng) ->
  charmap_mappings (records_of o4 o12) ng = canon input.
Proof. exact charmap_mappings_exact_lemma. Qed.

(* fits4 (Fits4.v): every id_range_offset and the subtable length fit 16 bits, computed from the segments the
   segment computer chooses.  It is EXACTLY the set of sorted valid mappings on which neither create_format_4
   nor Cmap4::compute_length panics ... *)
Theorem fits4_exact : forall ms, asc ms -> Forall valid ms -> f4_ok ms = fits4 ms.
Proof. exact Fits4.fits4_exact. Qed.
(* ... so within it building and compiling succeed for every valid conflict-free input ... *)
Theorem format4_build_total : forall input, valid_input input -> conflict_free input -> fits4 (canon input) = true ->
  exists o4 o12, from_mappings input = Built o4 o12 /\ dump_panics o4 = false.
Proof. exact format4_build_total_lemma. Qed.
(* ... and beyond it the code panics instead of returning an error (finding F-9); the limit is sharp:
   8188 isolated code points fit (Fits4.fits4_8188), 8189 do not. *)
Theorem format4_build_panics_beyond_fits4 : forall input, valid_input input -> conflict_free input -> fits4 (canon input) = false ->
  from_mappings input = Panic \/ exists o4 o12, from_mappings input = Built o4 o12 /\ dump_panics o4 = true.
Proof. exact format4_build_panics_beyond_lemma. Qed.
Theorem format4_build_refuted_beyond_fits4 :
  exists input, valid_input input /\ conflict_free input /\ fits4 (canon input) = false /\
    (from_mappings input = Panic \/ exists o4 o12, from_mappings input = Built o4 o12 /\ dump_panics o4 = true).
Proof. exact format4_build_refuted_beyond_fits4_lemma. Qed.

(* Cmap14::map_variant on every well-formed selector table (selectors strictly ascending, default ranges
   ascending and disjoint, non-default mappings strictly ascending): UseDefault inside a default range, the
   encoded variant glyph for a non-default mapping, nothing otherwise / for an absent selector. *)
Theorem cmap14_answers : forall sels, wf14 sels -> forall c sel, cmap14_map_variant sels c sel = cmap14_spec sels c sel.
Proof. exact cmap14_answers_lemma. Qed.

(* ---- round 4 ---- *)
(* The format-4 iterator enumerates exactly the pairs the lookup answers, each once, in ascending order
   (built tables; U+FFFF, the sentinel, excepted as everywhere). *)
Theorem cmap4_iter_is_lookup : forall input t4 o12, valid_input input -> from_mappings input = Built (Some t4) o12 ->
  asc (cmap4_iter t4) /\
  forall c g, 0 <= c -> c <> 65535 -> (In (c, g) (cmap4_iter t4) <-> cmap4_map t4 c = Some g).
Proof. exact cmap4_iter_is_lookup_lemma. Qed.

(* ARBITRARY decoded segment arrays (unsorted end codes, overlapping segments, offsets outside the glyph
   array, arrays of different lengths ...): *)
(* the reader never panics: its two arithmetic panic sites (u16 `codepoint - start_code`, usize `len - index`)
   are unreachable in map_codepoint and in the iterator, for every table whose code arrays hold 16-bit values *)
Theorem cmap4_reader_total : forall t, u16_codes t ->
  (forall c, cmap4_map_chk t c = Some (cmap4_map t c)) /\ cmap4_iter_chk t = Some (cmap4_iter t).
Proof. exact cmap4_reader_total_lemma. Qed.
(* whatever map_codepoint answers is the value, by the format's formula, of a segment that contains c *)
Theorem cmap4_map_sound_any : forall t c g, cmap4_map t c = Some g ->
  c <= 65535 /\ exists i sc ec, nth_error (startc t) i = Some sc /\ nth_error (endc t) i = Some ec /\
                                sc <= c <= ec /\ cmap4_lookup_glyph_id t c i sc = Some g.
Proof. exact cmap4_map_sound_any_lemma. Qed.
(* that value: delta arithmetic modulo 65536, or glyphIdArray[idRangeOffset/2 + (c-start) - (segCount-i)] with
   0 = missing; an id_range_offset pointing outside the glyph array answers None *)
Theorem cmap4_lookup_value : forall t c i sc d ro, nth_error (deltas t) i = Some d -> nth_error (roffs t) i = Some ro ->
  cmap4_lookup_glyph_id t c i sc =
    if ro =? 0 then Some ((c + d) mod 65536)
    else match nth_error (gida t) (seg_glyph_index t c i sc ro) with
         | None => None
         | Some gid => if gid =? 0 then None else Some ((gid + d) mod 65536)
         end.
Proof. exact cmap4_lookup_value_lemma. Qed.
Theorem cmap4_lookup_out_of_array : forall t c i sc d ro, nth_error (deltas t) i = Some d -> nth_error (roffs t) i = Some ro ->
  ro <> 0 -> (length (gida t) <= seg_glyph_index t c i sc ro)%nat -> cmap4_lookup_glyph_id t c i sc = None.
Proof. exact cmap4_lookup_out_of_array_lemma. Qed.
(* on sorted arrays (any, not only the writer's) the search is complete: the answer is the value of a
   containing segment, or None when no segment contains c *)
Theorem cmap4_map_sorted_any : forall t c, sorted4 t -> c <= 65535 ->
  (exists i sc ec, nth_error (startc t) i = Some sc /\ nth_error (endc t) i = Some ec /\ sc <= c <= ec /\
                   cmap4_map t c = cmap4_lookup_glyph_id t c i sc)
  \/ (cmap4_map t c = None /\
      forall i sc ec, nth_error (startc t) i = Some sc -> nth_error (endc t) i = Some ec -> ~ (sc <= c <= ec)).
Proof. exact cmap4_map_sorted_any_lemma. Qed.
(* the iterator yields strictly ascending code points on every table (no repeats, no backwards slide) *)
Theorem cmap4_iter_asc_any : forall t, asc (cmap4_iter t).
Proof. exact cmap4_iter_asc_any_lemma. Qed.
(* the boolean the shards evaluate on every format-14 table (generated and the test font's) implies wf14,
   the hypothesis of cmap14_answers *)
Theorem wf14b_reflects : forall sels, wf14b sels = true -> wf14 sels.
Proof. exact wf14b_sound. Qed.

(* ---- round 5 ---- *)
(* Cmap14Iter / Charmap::variant_mappings (Model.cmap14_iter: per selector record, the default ranges expanded
   to start ..= start + additionalCount as UseDefault, then the non-default mappings as Variant gid).  On well-formed
   tables whose default and non-default entries do not overlap, it lists exactly the triples map_variant answers,
   and each (code point, selector) occurs once. *)
Theorem cmap14_iter_exact : forall sels, wf14 sels -> Forall dn_disjoint sels ->
  (forall c sel v, In (c, sel, v) (cmap14_iter sels) <-> cmap14_map_variant sels c sel = Some v) /\
  NoDup (map key (cmap14_iter sels)).
Proof. exact cmap14_iter_exact_lemma. Qed.
Theorem default_uvs_expansion : forall c rs, In c (default_uvs_iter rs) <-> existsb (in_range c) rs = true.
Proof. exact in_default_uvs_iter. Qed.
Theorem dn14b_reflects : forall sels, dn14b sels = true -> Forall dn_disjoint sels.
Proof. exact dn14b_sound. Qed.

Print Assumptions cmap4_answers.
Print Assumptions cmap4_answers_in.
Print Assumptions segments_partition.
Print Assumptions delta_mod_65536.
Print Assumptions cmap12_answers.
Print Assumptions cmap12_iter_exact.
Print Assumptions subtable_choice.
Print Assumptions cmap_answers.
Print Assumptions conflict_sound.
Print Assumptions conflict_free_never_rejected.
Print Assumptions charmap_map_answers.
Print Assumptions cmap4_iter_exact.
Print Assumptions charmap_mappings_exact.
Print Assumptions fits4_exact.
Print Assumptions format4_build_total.
Print Assumptions format4_build_panics_beyond_fits4.
Print Assumptions format4_build_refuted_beyond_fits4.
Print Assumptions cmap14_answers.
Print Assumptions cmap4_iter_is_lookup.
Print Assumptions cmap4_reader_total.
Print Assumptions cmap4_map_sound_any.
Print Assumptions cmap4_lookup_value.
Print Assumptions cmap4_lookup_out_of_array.
Print Assumptions cmap4_map_sorted_any.
Print Assumptions cmap4_iter_asc_any.
Print Assumptions wf14b_reflects.
Print Assumptions cmap14_iter_exact.
Print Assumptions default_uvs_expansion.
Print Assumptions dn14b_reflects.
