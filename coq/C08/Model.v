(* C08 — executable model of the cmap builder (write-fonts/src/tables/cmap.rs) and of the cmap
   readers (read-fonts/src/tables/cmap.rs, skrifa/src/charmap.rs), hand-written from the source,
   statement by statement, at the level of decoded arrays (the byte codec is C04's business).
   No proofs in this file.  Code points, glyph ids and array values are Z; indices are nat.
   [Panic] / [None]-of-the-outer-option = the Rust code panics. *)
From Coq Require Import ZArith List Bool.
From FV Require Import Lib.RustInt.
Import ListNotations.
Open Scope Z_scope.

Notation pair := (Z * Z)%type (only parsing).          (* (char as u32, GlyphId as u32) *)

(* ================================================================================ *)
(*                                   WRITER                                         *)
(* ================================================================================ *)

(* Ord / Eq of (char, GlyphId): lexicographic *)
Definition pair_leb (a b : pair) : bool :=
  (fst a <? fst b) || ((fst a =? fst b) && (snd a <=? snd b)).
Definition pair_eqb (a b : pair) : bool := (fst a =? fst b) && (snd a =? snd b).

(* mappings.sort(): the order is total and equal elements are identical, so the sorted vector is
   unique; insertion sort computes it *)
Fixpoint insert_sorted (x : pair) (l : list pair) : list pair :=
  match l with
  | [] => [x]
  | y :: t => if pair_leb x y then x :: l else y :: insert_sorted x t
  end.
Fixpoint sort_pairs (l : list pair) : list pair :=
  match l with [] => [] | x :: t => insert_sorted x (sort_pairs t) end.

(* mappings.dedup(): one representative of each run of equal elements *)
Fixpoint dedup (l : list pair) : list pair :=
  match l with
  | [] => []
  | x :: t => match t with
              | [] => [x]
              | y :: _ => if pair_eqb x y then dedup t else x :: dedup t
              end
  end.

(* mappings.iter().zip(mappings.iter().skip(1)).find_map(..) *)
Fixpoint find_conflict (l : list pair) : option (Z * Z * Z) :=
  match l with
  | [] => None
  | (c1, g1) :: t =>
      match t with
      | [] => None
      | (c2, g2) :: _ =>
          if (c1 =? c2) && negb (g1 =? g2) then Some (c1, Z.min g1 g2, Z.max g1 g2)
          else find_conflict t
      end
  end.

(* ---- Format4Segment ---- *)
Record Seg := mkSeg { start_ix : nat; end_ix : nat; start_char : Z; end_char : Z; id_delta : option Z }.

(* Format4Segment::len — end_ix >= start_ix for every segment make_segment/combine produce
   (proved: Proofs.segs_cover), so the usize subtraction cannot underflow *)
Definition seg_len (s : Seg) : Z := Z.of_nat (end_ix s) - Z.of_nat (start_ix s) + 1.
(* Format4Segment::cost *)
Definition seg_cost (s : Seg) : Z :=
  match id_delta s with Some _ => 8 | None => 8 + seg_len s * 2 end.
(* Format4Segment::can_combine *)
Definition can_combine (a next : Seg) : bool := end_char a + 1 =? start_char next.
(* Format4Segment::combine; None = assert_eq!(next.start_ix, self.end_ix + 1) fails *)
Definition seg_combine (a next : Seg) : option Seg :=
  if Nat.eqb (start_ix next) (S (end_ix a))
  then Some (mkSeg (start_ix a) (end_ix next) (start_char a) (end_char next) None)
  else None.
(* Format4Segment::should_combine(&self=cur, prev, next) *)
Definition should_combine (cur prev : Seg) (next : option Seg) : option bool :=
  if negb (can_combine prev cur) then Some false else
  do pc <- seg_combine prev cur ;;
  let combined_cost := seg_cost pc in
  let separate_cost := seg_cost prev + seg_cost cur in
  if combined_cost <? separate_cost then Some true else
  match next with
  | Some nx =>
      if can_combine cur nx then
        do pcn <- seg_combine pc nx ;;
        Some (seg_cost pcn <? separate_cost + seg_cost nx)
      else Some false
  | None => Some false
  end.

(* ---- Format4SegmentComputer ---- *)
(* ::new — keep the prefix before the first char that does not fit u16 *)
Fixpoint bmp_prefix (l : list pair) : list pair :=
  match l with
  | [] => []
  | (c, g) :: t => if 65535 <? c then [] else (c, g) :: bmp_prefix t
  end.

(* the `for (i, (cp, gid)) in rest.iter().enumerate()` loop of next_possible_segment;
   result = (seg_len passed to make_segment, self.gids_in_order at that moment).
   (prev_gid + 1 is u32 arithmetic: it overflows only for gid = u32::MAX, in which case
   create_format_4's assert on 16-bit gids panics anyway — same observable outcome.) *)
Fixpoint nps_loop (i : nat) (gio : bool) (prev_cp prev_gid : Z) (rest : list pair) : nat * bool :=
  match rest with
  | [] => (i, gio)                                    (* last_idx - seg_start *)
  | (cp, gid) :: tl =>
      if negb (cp =? prev_cp + 1) then (i, gio)
      else if negb (prev_gid + 1 =? gid) then
        (if gio then (i, gio) else nps_loop (S i) gio cp gid tl)
      else if negb gio then
        (if Nat.eqb i 0 then nps_loop (S i) true cp gid tl else (pred i, gio))
      else nps_loop (S i) gio cp gid tl
  end.

(* make_segment: the segment for mappings[seg_start ..= seg_start + n] *)
Definition make_segment (seg_start : nat) (l : list pair) (n : nat) (gio : bool) : Seg :=
  let use_delta := gio || Nat.eqb n 0 in
  let first := nth 0 l (0, 0) in
  let last := nth n l (0, 0) in
  mkSeg seg_start (seg_start + n) (fst first) (fst last)
        (if use_delta then Some (snd first - fst first) else None).

(* repeated next_possible_segment(): [l] = self.mappings[seg_start..]; gids_in_order is false at
   every entry (initially, and reset by make_segment).  fuel >= length l. *)
Fixpoint raw_segments (fuel : nat) (seg_start : nat) (l : list pair) : list Seg :=
  match fuel with
  | O => []
  | S f =>
      match l with
      | [] => []
      | (pcp, pgid) :: rest =>
          let '(n, gio) := nps_loop 0 false pcp pgid rest in
          make_segment seg_start l n gio :: raw_segments f (seg_start + n + 1)%nat (skipn (S n) l)
      end
  end.

(* compute(): `prev` = *result.last_mut(); the raw segments still to come are [raws] *)
Fixpoint merge_loop (prev : Seg) (raws : list Seg) : option (list Seg) :=
  match raws with
  | [] => Some [prev]
  | cur :: tl =>
      do sc <- should_combine cur prev (hd_error tl) ;;
      if sc then (do p <- seg_combine prev cur ;; merge_loop p tl)
      else (do r <- merge_loop cur tl ;; Some (prev :: r))
  end.
Definition compute_segments (sorted : list pair) : option (list Seg) :=
  let l := bmp_prefix sorted in
  match raw_segments (length l) 0 l with
  | [] => Some []
  | first :: raws => merge_loop first raws
  end.

(* ---- decoded format-4 table ---- *)
Record T4 := mkT4 { segx2 : Z; endc : list Z; startc : list Z; deltas : list Z; roffs : list Z; gida : list Z }.

(* let delta = delta.rem_euclid(0x10000) as u16 as i16;   ("The idDelta arithmetic is modulo 65536") *)
Definition delta_i16 (d : Z) : Z := wrap_s 16 (d mod 65536).

Definition slice (l : list pair) (a n : nat) : list pair := firstn n (skipn a l).

(* one row per segment: (start_code, end_code, id_delta, id_range_offset) — the Rust code pushes to
   four vectors in lock step; the model keeps the rows together and projects at the end *)
Definition Row := (Z * Z * Z * Z)%type.
Definition row_start (r : Row) : Z := fst (fst (fst r)).
Definition row_end (r : Row) : Z := snd (fst (fst r)).
Definition row_delta (r : Row) : Z := snd (fst r).
Definition row_roff (r : Row) : Z := snd r.

(* the `for (i, segment) in segments.into_iter().enumerate()` loop of create_format_4;
   cur_n = glyph_ids.len(); result = (rows, glyph ids appended from here on) *)
Fixpoint f4_loop (ms : list pair) (n_segments i cur_n : nat) (segs : list Seg) : option (list Row * list Z) :=
  match segs with
  | [] => Some ([], [])
  | s :: tl =>
      do st <- nth_error ms (start_ix s) ;;                   (* mappings[segment.start_ix] *)
      do en <- nth_error ms (end_ix s) ;;
      let sc := wrap_u 16 (fst st) in
      let ec := wrap_u 16 (fst en) in
      match id_delta s with
      | Some d =>
          let d16 := delta_i16 d in
          do r <- f4_loop ms n_segments (S i) cur_n tl ;;
          Some ((sc, ec, d16, 0) :: fst r, snd r)
      | None =>
          if Nat.ltb n_segments i then None else                (* usize subtraction *)
          let n_following := (n_segments - i)%nat in
          do ro <- chk_u 16 (Z.of_nat (n_following + cur_n) * 2) ;;
          if Nat.ltb (end_ix s) (start_ix s) then None          (* slice index panic *)
          else if Nat.leb (length ms) (end_ix s) then None
          else
          let ids := map snd (slice ms (start_ix s) (end_ix s - start_ix s + 1)) in
          if negb (forallb (in_u 16) ids) then None else        (* expect("checked before now") *)
          do r <- f4_loop ms n_segments (S i) (cur_n + length ids) tl ;;
          Some ((sc, ec, 0, ro) :: fst r, ids ++ snd r)
      end
  end.

(* create_format_4: outer None = panic; Some None = no chars in the BMP *)
Definition create_format_4 (sorted : list pair) : option (option T4) :=
  do segs <- compute_segments sorted ;;
  if negb (forallb (fun p => snd p <=? 65535) sorted) then None else      (* assert! *)
  match segs with
  | [] => Some None
  | _ =>
      let n_segments := S (length segs) in
      do r <- f4_loop sorted n_segments 0 0 segs ;;
      let rows := fst r ++ [(65535, 65535, 1, 0)] in              (* the final segment *)
      Some (Some (mkT4 (Z.of_nat n_segments * 2)
                       (map row_end rows) (map row_start rows)
                       (map row_delta rows) (map row_roff rows) (snd r)))
  end.

(* create_format_12 (called with strictly ascending char codes — from_mappings has removed
   duplicates and rejected conflicts — so the HashMap indirection and char_codes.dedup() are the
   identity); groups are (start_char_code, end_char_code, start_glyph_id) *)
Fixpoint f12_loop (sc sg lg lc : Z) (l : list pair) : list (Z * Z * Z) :=
  match l with
  | [] => [(sc, lc, sg)]
  | (c, g) :: t =>
      if negb (g =? wrap_u 32 (lg + 1)) || negb (c =? wrap_u 32 (lc + 1))
      then (sc, lc, sg) :: f12_loop c g g c t
      else f12_loop sc sg g c t
  end.
Definition create_format_12 (sorted : list pair) : option (list (Z * Z * Z)) :=
  match sorted with
  | [] => None                                       (* char_codes.first().unwrap() *)
  | (c0, g0) :: _ => Some (f12_loop c0 g0 (wrap_u 32 (g0 - 1)) (wrap_u 32 (c0 - 1)) sorted)
  end.

Inductive Outcome :=
| Panic
| Conflict (ch g1 g2 : Z)
| Built (f4 : option T4) (f12 : option (list (Z * Z * Z))).

(* Cmap::from_mappings *)
Definition from_mappings (input : list pair) : Outcome :=
  let ms := dedup (sort_pairs input) in
  match find_conflict ms with
  | Some (ch, g1, g2) => Conflict ch g1 g2
  | None =>
      match create_format_4 ms with
      | None => Panic
      | Some f4 =>
          if existsb (fun p => 65535 <? fst p) ms then
            match create_format_12 ms with
            | None => Panic
            | Some g => Built f4 (Some g)
            end
          else Built f4 None
      end
  end.

(* Cmap4::compute_length at compile time (dump_table): None = "cmap4 overflow" panic *)
Definition cmap4_compute_length (t : T4) : option Z :=
  chk_u 16 (16 + Z.of_nat (length (endc t)) * 8 + Z.of_nat (length (gida t)) * 2).

(* a decoded format-14 selector record: (var_selector, default ranges (start, additional_count), non-default (unicode, gid)) *)
Definition Sel := (Z * option (list (Z * Z)) * option (list (Z * Z)))%type.
Inductive Subtable := F4 (t : T4) | F12 (g : list (Z * Z * Z)) | F14 (sels : list Sel) | FOther.
(* encoding records in the order from_mappings emits them: (platform id, encoding id, subtable) *)
Definition records_of (f4 : option T4) (f12 : option (list (Z * Z * Z))) : list (Z * Z * Subtable) :=
  let r4 p e := match f4 with Some t => [(p, e, F4 t)] | None => [] end in
  let r12 p e := match f12 with Some g => [(p, e, F12 g)] | None => [] end in
  r4 0 3 ++ r12 0 4 ++ r4 3 1 ++ r12 3 10.

(* ================================================================================ *)
(*                                   READER                                         *)
(* ================================================================================ *)

Definition nthz (l : list Z) (i : nat) : option Z := nth_error l i.

(* Cmap4::lookup_glyph_id (callers guarantee codepoint >= start_code) *)
Definition cmap4_lookup_glyph_id (t : T4) (codepoint : Z) (index : nat) (start_code : Z) : option Z :=
  do delta <- nthz (deltas t) index ;;
  do range_offset <- nthz (roffs t) index ;;
  if range_offset =? 0 then Some (wrap_u 16 (codepoint + delta)) else
  let offset := range_offset / 2 + (codepoint - start_code) in
  let offset := Z.max 0 (offset - (Z.of_nat (length (roffs t)) - Z.of_nat index)) in   (* saturating_sub *)
  do gid <- nthz (gida t) (Z.to_nat offset) ;;
  if gid =? 0 then None else Some (wrap_u 16 (gid + delta)).

(* the `while lo < hi` loop of Cmap4::map_codepoint; fuel >= hi - lo *)
Fixpoint cmap4_search (fuel : nat) (t : T4) (c : Z) (lo hi : nat) : option Z :=
  match fuel with
  | O => None
  | S f =>
      if Nat.ltb lo hi then
        let i := Nat.div2 (lo + hi) in
        match nthz (startc t) i with
        | None => None
        | Some start_code =>
            if c <? start_code then cmap4_search f t c lo i
            else match nthz (endc t) i with
                 | None => None
                 | Some end_code =>
                     if end_code <? c then cmap4_search f t c (S i) hi
                     else cmap4_lookup_glyph_id t c i start_code
                 end
        end
      else None
  end.
Definition cmap4_map (t : T4) (c : Z) : option Z :=
  if 65535 <? c then None else
  let hi := Z.to_nat (segx2 t / 2) in
  cmap4_search (S hi) t c 0 hi.

Fixpoint zrange_n (a : Z) (n : nat) : list Z :=
  match n with O => [] | S m => a :: zrange_n (a + 1) m end.
Definition zrange (a b : Z) : list Z := zrange_n a (Z.to_nat (b - a)).      (* a .. b (exclusive) *)

Fixpoint filter_map {A B} (f : A -> option B) (l : list A) : list B :=
  match l with
  | [] => []
  | x :: t => match f x with Some y => y :: filter_map f t | None => filter_map f t end
  end.

(* Cmap4Iter: the pairs produced while cur_range_ix = ix, then the following ranges; [cur_end] =
   self.cur_range.end of the previous range (0 before the first: code_range(0) is used unclamped
   and all values are >= 0) *)
Fixpoint cmap4_iter_from (t : T4) (ix : nat) (cur_end : Z) (ranges : list (Z * Z)) : list pair :=
  match ranges with
  | [] => []
  | (s, e) :: tl =>
      let ns := Z.max s cur_end in
      let ne := Z.max (e + 1) cur_end in
      let cur_start_code := wrap_u 16 ns in
      filter_map (fun cp => match cmap4_lookup_glyph_id t (wrap_u 16 cp) ix cur_start_code with
                            | Some g => Some (cp, g) | None => None end) (zrange ns ne)
      ++ cmap4_iter_from t (S ix) ne tl
  end.
Definition cmap4_iter (t : T4) : list pair := cmap4_iter_from t 0 0 (combine (startc t) (endc t)).

(* ---- the same format-4 reader with its arithmetic panic sites explicit (outer None = panic under
   overflow checks): the u16 subtraction `codepoint - start_code` and the usize subtraction
   `range_offsets.len() - index`.  Proofs.cmap4_reader_total: they are unreachable for every table. ---- *)
Definition cmap4_lookup_glyph_id_chk (t : T4) (codepoint : Z) (index : nat) (start_code : Z) : option (option Z) :=
  match nthz (deltas t) index with
  | None => Some None
  | Some delta =>
      match nthz (roffs t) index with
      | None => Some None
      | Some range_offset =>
          if range_offset =? 0 then Some (Some (wrap_u 16 (codepoint + delta))) else
          do diff <- chk_u 16 (codepoint - start_code) ;;
          do back <- (if Nat.ltb (length (roffs t)) index then None else Some (Z.of_nat (length (roffs t)) - Z.of_nat index)) ;;
          let offset := Z.max 0 (range_offset / 2 + diff - back) in
          Some (match nthz (gida t) (Z.to_nat offset) with
                | None => None
                | Some gid => if gid =? 0 then None else Some (wrap_u 16 (gid + delta))
                end)
      end
  end.
Fixpoint cmap4_search_chk (fuel : nat) (t : T4) (c : Z) (lo hi : nat) : option (option Z) :=
  match fuel with
  | O => Some None
  | S f =>
      if Nat.ltb lo hi then
        let i := Nat.div2 (lo + hi) in
        match nthz (startc t) i with
        | None => Some None
        | Some start_code =>
            if c <? start_code then cmap4_search_chk f t c lo i
            else match nthz (endc t) i with
                 | None => Some None
                 | Some end_code =>
                     if end_code <? c then cmap4_search_chk f t c (S i) hi
                     else cmap4_lookup_glyph_id_chk t c i start_code
                 end
        end
      else Some None
  end.
Definition cmap4_map_chk (t : T4) (c : Z) : option (option Z) :=
  if 65535 <? c then Some None else
  let hi := Z.to_nat (segx2 t / 2) in
  cmap4_search_chk (S hi) t c 0 hi.
Fixpoint emit_chk (f : Z -> option (option Z)) (l : list Z) : option (list pair) :=
  match l with
  | [] => Some []
  | cp :: tl =>
      do r <- f cp ;;
      do rest <- emit_chk f tl ;;
      Some (match r with Some g => (cp, g) :: rest | None => rest end)
  end.
Fixpoint cmap4_iter_from_chk (t : T4) (ix : nat) (cur_end : Z) (ranges : list (Z * Z)) : option (list pair) :=
  match ranges with
  | [] => Some []
  | (s, e) :: tl =>
      let ns := Z.max s cur_end in
      let ne := Z.max (e + 1) cur_end in
      let cur_start_code := wrap_u 16 ns in
      do here <- emit_chk (fun cp => cmap4_lookup_glyph_id_chk t (wrap_u 16 cp) ix cur_start_code) (zrange ns ne) ;;
      do rest <- cmap4_iter_from_chk t (S ix) ne tl ;;
      Some (here ++ rest)
  end.
Definition cmap4_iter_chk (t : T4) : option (list pair) := cmap4_iter_from_chk t 0 0 (combine (startc t) (endc t)).

(* Cmap12::lookup_glyph_id *)
Definition cmap12_lookup_glyph_id (c sc sg : Z) : Z := wrap_u 32 (sg + wrap_u 32 (c - sc)).
Definition nthg (l : list (Z * Z * Z)) (i : nat) := nth_error l i.
(* Cmap12::map_codepoint *)
Fixpoint cmap12_search (fuel : nat) (groups : list (Z * Z * Z)) (c : Z) (lo hi : nat) : option Z :=
  match fuel with
  | O => None
  | S f =>
      if Nat.ltb lo hi then
        let i := Nat.div2 (lo + hi) in
        match nthg groups i with
        | None => None
        | Some (s, e, g) =>
            if c <? s then cmap12_search f groups c lo i
            else if e <? c then cmap12_search f groups c (S i) hi
            else Some (cmap12_lookup_glyph_id c s g)
        end
      else None
  end.
Definition cmap12_map (groups : list (Z * Z * Z)) (c : Z) : option Z :=
  cmap12_search (S (length groups)) groups c 0 (length groups).

(* Cmap12::group: exclusive range end under optional limits (max_char, glyph_count) *)
Definition cmap12_group_end (limits : option (Z * Z)) (s e g : Z) : Z :=
  let end_code := e + 1 in
  match limits with
  | Some (max_char, glyph_count) =>
      Z.min (Z.max 0 (glyph_count - g) + s) (Z.min end_code (max_char + 1))   (* max_char is inclusive *)
  | None => end_code
  end.
(* Cmap12Iter; cur_end = group.range.end of the current group (0 before the first) *)
Fixpoint cmap12_iter_from (limits : option (Z * Z)) (cur_end : Z) (groups : list (Z * Z * Z)) : list pair :=
  match groups with
  | [] => []
  | (s, e, g) :: tl =>
      let ne := cmap12_group_end limits s e g in
      let ns := if s <? cur_end then cur_end else s in
      map (fun cp => (cp, cmap12_lookup_glyph_id cp s g)) (zrange ns ne)
      ++ cmap12_iter_from limits ne tl
  end.
Definition cmap12_iter (limits : option (Z * Z)) (groups : list (Z * Z * Z)) : list pair :=
  cmap12_iter_from limits 0 groups.

(* Cmap::map_codepoint: first subtable (format 4 or 12) that answers *)
Fixpoint cmap_map (records : list (Z * Z * Subtable)) (c : Z) : option Z :=
  match records with
  | [] => None
  | (_, _, st) :: tl =>
      match (match st with F4 t => cmap4_map t c | F12 g => cmap12_map g c | _ => None end) with
      | Some g => Some g
      | None => cmap_map tl c
      end
  end.

(* ---- skrifa Charmap ---- *)
(* MappingKind: 0 none, 1 BMP, 2 full, 3 symbol.  MappingSelection::new walks the records in
   reverse; a record replaces the choice only if its kind is strictly greater. *)
Definition record_kind (p e : Z) (st : Subtable) : Z :=
  let supported := match st with F4 _ | F12 _ => true | _ => false end in
  if negb supported then 0 else
  if (p =? 0) && (e =? 5) then 0               (* variation selector record: format 14 only *)
  else if (p =? 3) && (e =? 0) then 3
  else if ((p =? 3) && (e =? 10)) || ((p =? 0) && (e =? 4)) then 2
  else if (p =? 2) || (p =? 0) || ((p =? 3) && (e =? 1)) then 1
  else 0.
Fixpoint select_rev (recs_rev : list (Z * Z * Subtable)) (kind : Z) (cur : option Subtable) : Z * option Subtable :=
  match recs_rev with
  | [] => (kind, cur)
  | (p, e, st) :: tl =>
      let k := record_kind p e st in
      if kind <? k then select_rev tl k (Some st) else select_rev tl kind cur
  end.
Definition charmap_select (records : list (Z * Z * Subtable)) : Z * option Subtable :=
  select_rev (rev records) 0 None.

Definition subtable_map (st : Subtable) (c : Z) : option Z :=
  match (match st with F4 t => cmap4_map t c | F12 g => cmap12_map g c | _ => None end) with
  | Some g => if g =? 0 then None else Some g       (* (gid != NOTDEF).then_some(gid) *)
  | None => None
  end.
(* Charmap::map *)
Definition charmap_map (records : list (Z * Z * Subtable)) (c : Z) : option Z :=
  match charmap_select records with
  | (kind, Some st) =>
      match subtable_map st c with
      | Some g => Some g
      | None => if (kind =? 3) && (c <=? 255) then subtable_map st (c + 61440) else None
      end
  | _ => None
  end.
(* Charmap::mappings; limits = (char::MAX, maxp.numGlyphs) *)
Definition charmap_mappings (records : list (Z * Z * Subtable)) (num_glyphs : Z) : list pair :=
  match charmap_select records with
  | (_, Some (F4 t)) => filter (fun p => negb (snd p =? 0)) (cmap4_iter t)
  | (_, Some (F12 g)) => filter (fun p => negb (snd p =? 0)) (cmap12_iter (Some (1114111, num_glyphs)) g)
  | _ => []
  end.

(* ---- Cmap14::map_variant over decoded selector records ----
   record = (var_selector, default ranges (start, additional_count) if present,
             non-default mappings (unicode_value, glyph id) if present).
   The three `binary_search_by` calls are modelled by the textbook binary search; on tables sorted
   as the format requires every correct binary search returns the same answer (the harness builds
   only such tables). Result: None | Some None = UseDefault | Some (Some g) = Variant g *)
Section BSearch.
  Context {A : Type} (cmp : A -> comparison).   (* Ordering of the probe relative to the target *)
  Fixpoint bsearch (fuel : nat) (l : list A) (lo hi : nat) : option A :=
    match fuel with
    | O => None
    | S f =>
        if Nat.ltb lo hi then
          let i := Nat.div2 (lo + hi) in
          match nth_error l i with
          | None => None
          | Some x => match cmp x with
                      | Eq => Some x
                      | Lt => bsearch f l (S i) hi
                      | Gt => bsearch f l lo i
                      end
          end
        else None
    end.
End BSearch.
Definition bfind {A} (cmp : A -> comparison) (l : list A) : option A :=
  bsearch cmp (S (length l)) l 0 (length l).

Definition cmap14_map_variant (sels : list Sel) (c sel : Z) : option (option Z) :=
  do rec <- bfind (fun r : Sel => Z.compare (fst (fst r)) sel) sels ;;
  let '(_, dflt, nondflt) := rec in
  let found_default :=
    match dflt with
    | Some ranges =>
        match bfind (fun r : Z * Z => if c <? fst r then Gt else if fst r + snd r <? c then Lt else Eq) ranges with
        | Some _ => true | None => false end
    | None => false
    end in
  if found_default then Some None else
  do maps <- nondflt ;;
  do m <- bfind (fun m : Z * Z => Z.compare (fst m) c) maps ;;
  Some (Some (snd m)).

(* ================================================================================ *)
(*                         specification-side helpers                               *)
(* ================================================================================ *)
Fixpoint assoc (c : Z) (l : list pair) : option Z :=
  match l with [] => None | (k, v) :: t => if k =? c then Some v else assoc c t end.

(* DefaultUvsIter: each range record expands to start ..= start + additional_count (u32 arithmetic on a
   24-bit start: no overflow); Cmap14Iter: per selector record, the default code points (UseDefault) and then
   the non-default mappings (Variant gid); records without tables contribute nothing *)
Definition default_uvs_iter (ranges : list (Z * Z)) : list Z :=
  flat_map (fun r => zrange (fst r) (fst r + snd r + 1)) ranges.
Definition sel_iter (r : Sel) : list (Z * Z * option Z) :=
  let '(sel, d, n) := r in
  map (fun c => (c, sel, None)) (match d with Some rs => default_uvs_iter rs | None => [] end)
  ++ map (fun m : Z * Z => (fst m, sel, Some (snd m))) (match n with Some ms => ms | None => [] end).
Definition cmap14_iter (sels : list Sel) : list (Z * Z * option Z) := flat_map sel_iter sels.

(* what a variation-selector table encodes, by linear inspection (specification side) *)
Definition sel_of (r : Sel) : Z := fst (fst r).
Definition in_range (c : Z) (r : Z * Z) : bool := (fst r <=? c) && (c <=? fst r + snd r).
Definition cmap14_spec (sels : list Sel) (c sel : Z) : option (option Z) :=
  match find (fun r => sel_of r =? sel) sels with
  | None => None                                             (* no record for this selector *)
  | Some (_, dflt, nondflt) =>
      if (match dflt with Some ranges => existsb (in_range c) ranges | None => false end)
      then Some None                                         (* use the default glyph *)
      else match nondflt with
           | None => None
           | Some maps => match assoc c maps with Some g => Some (Some g) | None => None end
           end
  end.

(* MappingSelection::new, variant part: walking the records in reverse, the first (Unicode, 5) record whose subtable is format 14 *)
Fixpoint variant_rev (recs_rev : list (Z * Z * Subtable)) : option (list Sel) :=
  match recs_rev with
  | [] => None
  | (p, e, st) :: tl =>
      match st with
      | F14 sels => if (p =? 0) && (e =? 5) then Some sels else variant_rev tl
      | _ => variant_rev tl
      end
  end.
Definition charmap_variant (records : list (Z * Z * Subtable)) : option (list Sel) := variant_rev (rev records).
(* Charmap::map_variant / has_map / is_symbol / has_variant_map *)
Definition charmap_map_variant (records : list (Z * Z * Subtable)) (c sel : Z) : option (option Z) :=
  match charmap_variant records with Some sels => cmap14_map_variant sels c sel | None => None end.
Definition charmap_has_map (records : list (Z * Z * Subtable)) : bool :=
  match charmap_select records with (_, Some _) => true | _ => false end.
Definition charmap_is_symbol (records : list (Z * Z * Subtable)) : bool :=
  match charmap_select records with (k, Some _) => k =? 3 | _ => false end.
Definition charmap_has_variant_map (records : list (Z * Z * Subtable)) : bool :=
  match charmap_variant records with Some _ => true | None => false end.

(* boolean well-formedness of a selector table (reflected by Var14.wf14b_sound) *)
Fixpoint isortedb {A} (lo hi : A -> Z) (b : Z) (l : list A) : bool :=
  match l with [] => true | x :: t => (b <? lo x) && (lo x <=? hi x) && isortedb lo hi (hi x) t end.
Definition wf_selb (r : Sel) : bool :=
  (match snd (fst r) with Some ranges => isortedb fst (fun x : Z * Z => fst x + snd x) (-1) ranges | None => true end)
  && (match snd r with Some maps => isortedb fst fst (-1) maps | None => true end).
Definition wf14b (sels : list Sel) : bool := isortedb sel_of sel_of (-1) sels && forallb wf_selb sels.
(* no code point with both a default and a non-default entry under one selector (reflected by Iter14.dn14b_sound) *)
Definition dn14b (sels : list Sel) : bool :=
  forallb (fun r : Sel => match snd (fst r), snd r with
                          | Some rs, Some ms => forallb (fun m : Z * Z => negb (existsb (in_range (fst m)) rs)) ms
                          | _, _ => true end) sels.

(* ================================================================================ *)
(*              correspondence case format (harness/src/bin/c08.rs)                 *)
(* ================================================================================ *)
Definition zlist_eqb (a b : list Z) : bool :=
  Nat.eqb (length a) (length b) && forallb (fun p => Z.eqb (fst p) (snd p)) (combine a b).
Definition oz_eqb (a b : option Z) : bool :=
  match a, b with Some x, Some y => x =? y | None, None => true | _, _ => false end.
Definition plist_eqb (a b : list pair) : bool :=
  zlist_eqb (map fst a) (map fst b) && zlist_eqb (map snd a) (map snd b).
Definition glist_eqb (a b : list (Z * Z * Z)) : bool :=
  zlist_eqb (map (fun x => fst (fst x)) a) (map (fun x => fst (fst x)) b)
  && zlist_eqb (map (fun x => snd (fst x)) a) (map (fun x => snd (fst x)) b)
  && zlist_eqb (map snd a) (map snd b).
Definition t4_eqb (a b : T4) : bool :=
  (segx2 a =? segx2 b) && zlist_eqb (endc a) (endc b) && zlist_eqb (startc a) (startc b)
  && zlist_eqb (deltas a) (deltas b) && zlist_eqb (roffs a) (roffs b) && zlist_eqb (gida a) (gida b).
Definition ot4_eqb (a b : option T4) : bool :=
  match a, b with Some x, Some y => t4_eqb x y | None, None => true | _, _ => false end.
Definition oglist_eqb (a b : option (list (Z * Z * Z))) : bool :=
  match a, b with Some x, Some y => glist_eqb x y | None, None => true | _, _ => false end.
Definition lookups_ok (f : Z -> option Z) (l : list (Z * option Z)) : bool :=
  forallb (fun p => oz_eqb (f (fst p)) (snd p)) l.

(* what the implementation did on one input of from_mappings *)
Inductive ImplOutcome :=
| IPanic                                                (* from_mappings panicked *)
| IConflict (ch g1 g2 : Z)
| IDumpPanic                                            (* from_mappings Ok, dump_table panicked *)
| IBuilt (f4 : option T4) (f12 : option (list (Z * Z * Z)))
         (table_lookups : list (Z * option Z))          (* read Cmap::map_codepoint *)
         (iter4 : list pair) (iter12 : list pair)       (* Cmap4::iter, Cmap12::iter of the first such subtables *)
         (num_glyphs : Z)
         (charmap_lookups : list (Z * option Z))        (* skrifa Charmap::map *)
         (charmap_iter : list pair).                    (* skrifa Charmap::mappings *)

Inductive Case :=
| CBuild (input : list pair) (out : ImplOutcome)
| CBuildGen (pieces : list (nat * Z * Z * Z * Z)) (panic_in_from_mappings : bool)   (* a build that panicked *)
| CRead4 (t : T4) (lookups : list (Z * option Z)) (iter : list pair)
| CRead12 (g : list (Z * Z * Z)) (lookups : list (Z * option Z)) (limits : option (Z * Z)) (iter : list pair)
(* a hand-built list of encoding records (any order, duplicates, unsupported formats): every Charmap observation,
   taken through Charmap::new and through MappingIndex::new(..).charmap(..) (the harness requires both to agree) *)
| CSelect (records : list (Z * Z * Subtable)) (num_glyphs : Z) (lookups : list (Z * option Z)) (mappings : list pair)
          (has_map is_symbol has_variant : bool) (var_lookups : list (Z * Z * option (option Z)))
| CVar14 (sels : list Sel) (lookups : list (Z * Z * option (option Z))) (iter : list (Z * Z * option Z))
| CVar14wf (sels : list Sel) (lookups : list (Z * Z * option (option Z))) (iter : list (Z * Z * option Z)).    (* as CVar14, and the table must satisfy wf14b *)

(* large inputs are described by generator pieces (count, first char, char step, first gid, gid step)
   instead of a literal list (a literal of tens of thousands of pairs overflows coqc's stack) *)
Definition gen_piece (p : nat * Z * Z * Z * Z) : list pair :=
  let '(n, c0, cs, g0, gs) := p in
  map (fun i => (c0 + cs * Z.of_nat i, g0 + gs * Z.of_nat i)) (seq 0 n).
Definition gen_input (pieces : list (nat * Z * Z * Z * Z)) : list pair := flat_map gen_piece pieces.

Definition dump_panics (f4 : option T4) : bool :=
  match f4 with Some t => match cmap4_compute_length t with None => true | Some _ => false end | None => false end.

Definition triples_eqb (a b : list (Z * Z * option Z)) : bool :=
  Nat.eqb (length a) (length b)
  && forallb (fun p => let '((c1, s1, v1), (c2, s2, v2)) := p in (c1 =? c2) && (s1 =? s2) && oz_eqb v1 v2) (combine a b).
Definition var14_ok (sels : list Sel) (lookups : list (Z * Z * option (option Z))) (iter : list (Z * Z * option Z)) : bool :=
  let same (x y : option (option Z)) := match x, y with
                    | None, None => true
                    | Some a, Some b => oz_eqb a b
                    | _, _ => false end in
  forallb (fun q => same (cmap14_map_variant sels (fst (fst q)) (snd (fst q))) (snd q)
                    && same (cmap14_spec sels (fst (fst q)) (snd (fst q))) (snd q)) lookups
  && triples_eqb (cmap14_iter sels) iter.

Definition check_case (c : Case) : bool :=
  match c with
  | CBuild input out =>
      match from_mappings input, out with
      | Panic, IPanic => true
      | Conflict c g1 g2, IConflict c' g1' g2' => (c =? c') && (g1 =? g1') && (g2 =? g2')
      | Built f4 f12, IDumpPanic => dump_panics f4
      | Built f4 f12, IBuilt f4' f12' tl i4 i12 ng cl ci =>
          negb (dump_panics f4) && ot4_eqb f4 f4' && oglist_eqb f12 f12'
          && lookups_ok (cmap_map (records_of f4 f12)) tl
          && plist_eqb (match f4 with Some t => cmap4_iter t | None => [] end) i4
          && plist_eqb (match f12 with Some g => cmap12_iter None g | None => [] end) i12
          && lookups_ok (charmap_map (records_of f4 f12)) cl
          && plist_eqb (charmap_mappings (records_of f4 f12) ng) ci
      | _, _ => false
      end
  | CBuildGen pieces in_fm =>
      match from_mappings (gen_input pieces) with
      | Panic => in_fm
      | Built f4 _ => negb in_fm && dump_panics f4
      | Conflict _ _ _ => false
      end
  | CRead4 t lookups iter =>
      lookups_ok (cmap4_map t) lookups && plist_eqb (cmap4_iter t) iter
      (* the implementation did not panic (the harness reports reader panics): neither does the checked model *)
      && forallb (fun p => match cmap4_map_chk t (fst p) with Some r => oz_eqb r (snd p) | None => false end) lookups
      && match cmap4_iter_chk t with Some l => plist_eqb l iter | None => false end
  | CRead12 g lookups limits iter => lookups_ok (cmap12_map g) lookups && plist_eqb (cmap12_iter limits g) iter
  | CSelect records ng lookups mappings hm sy hv vl =>
      lookups_ok (charmap_map records) lookups && plist_eqb (charmap_mappings records ng) mappings
      && Bool.eqb (charmap_has_map records) hm && Bool.eqb (charmap_is_symbol records) sy
      && Bool.eqb (charmap_has_variant_map records) hv
      && forallb (fun q => match charmap_map_variant records (fst (fst q)) (snd (fst q)), snd q with
                           | None, None => true | Some a, Some b => oz_eqb a b | _, _ => false end) vl
  | CVar14 sels lookups iter => var14_ok sels lookups iter
  | CVar14wf sels lookups iter => wf14b sels && dn14b sels && var14_ok sels lookups iter
  end.
