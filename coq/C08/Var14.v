(* C08 — Cmap14::map_variant over decoded, well-formed variation-selector tables *)
From Coq Require Import ZArith List Bool Lia.
From FV Require Import Lib.RustInt C08.Model.
Import ListNotations.
Open Scope Z_scope.

Section Interval.
  Context {A : Type} (lo hi : A -> Z) (c : Z) (cmp : A -> comparison).
  Hypothesis Hcmp : forall x, cmp x = if c <? lo x then Gt else if hi x <? c then Lt else Eq.

  (* ascending, disjoint, non-empty intervals, all above [b] *)
  Fixpoint isorted (b : Z) (l : list A) : Prop :=
    match l with [] => True | x :: t => b < lo x /\ lo x <= hi x /\ isorted (hi x) t end.

  Lemma isorted_nth l : forall b, isorted b l ->
    (forall i x, nth_error l i = Some x -> b < lo x /\ lo x <= hi x) /\
    (forall i j x y, (i < j)%nat -> nth_error l i = Some x -> nth_error l j = Some y -> hi x < lo y).
  Proof.
    induction l as [|a t IH]; intros b H.
    - split; intros; destruct i; try destruct j; discriminate.
    - cbn [isorted] in H. destruct H as (H1 & H2 & H3). destruct (IH _ H3) as [IHa IHb]. split.
      + intros [|i] x Hx; cbn in Hx.
        * inversion Hx; subst. auto.
        * destruct (IHa _ _ Hx). split; lia.
      + intros i [|j] x y Hij Hx Hy; [lia|]. cbn in Hy. destruct i as [|i]; cbn in Hx.
        * inversion Hx; subst. destruct (IHa _ _ Hy). lia.
        * apply (IHb i j x y); [lia | exact Hx | exact Hy].
  Qed.

  Definition inb (x : A) : bool := (lo x <=? c) && (c <=? hi x).

  Variable l : list A.
  Hypothesis Hle : forall i x, nth_error l i = Some x -> lo x <= hi x.
  Hypothesis Hmono : forall i j x y, (i < j)%nat -> nth_error l i = Some x -> nth_error l j = Some y -> hi x < lo y.

  Lemma bsearch_spec fuel : forall lo' hi',
    (hi' <= length l)%nat -> (hi' - lo' < fuel)%nat ->
    (forall j x, (j < lo')%nat -> nth_error l j = Some x -> hi x < c) ->
    (forall j x, (hi' <= j)%nat -> nth_error l j = Some x -> c < lo x) ->
    match bsearch cmp fuel l lo' hi' with
    | Some x => exists i, nth_error l i = Some x /\ lo x <= c <= hi x
    | None => forall i x, nth_error l i = Some x -> ~ (lo x <= c <= hi x)
    end.
  Proof.
    induction fuel as [|f IH]; intros lo' hi' Hhi Hf Hlo Hhi2; [lia|].
    cbn [bsearch]. destruct (Nat.ltb_spec lo' hi') as [Hlt|Hge].
    - assert (Hi : (lo' <= Nat.div2 (lo' + hi') < hi')%nat).
      { rewrite Nat.div2_div. split.
        - apply Nat.div_le_lower_bound; lia.
        - apply Nat.div_lt_upper_bound; lia. }
      remember (Nat.div2 (lo' + hi')) as i eqn:Heqi. clear Heqi.
      destruct (nth_error l i) as [r|] eqn:En.
      2:{ apply nth_error_None in En. lia. }
      rewrite Hcmp. pose proof (Hle _ _ En) as Hler.
      destruct (Z.ltb_spec c (lo r)) as [Hcs|Hcs].
      + apply IH; [lia | lia | exact Hlo |]. intros j a Hj Ha.
        destruct (Nat.eq_dec j i) as [->|Hne].
        * rewrite En in Ha. inversion Ha; subst. lia.
        * destruct (Nat.lt_ge_cases j hi'); [|eauto].
          pose proof (Hmono i j _ _ ltac:(lia) En Ha). lia.
      + destruct (Z.ltb_spec (hi r) c) as [Hec|Hec].
        * apply IH; [lia | lia | | exact Hhi2]. intros j a Hj Ha.
          destruct (Nat.eq_dec j i) as [->|Hne].
          -- rewrite En in Ha. inversion Ha; subst. lia.
          -- destruct (Nat.lt_ge_cases j lo'); [eauto|].
             pose proof (Hmono j i _ _ ltac:(lia) Ha En). pose proof (Hle _ _ Ha). lia.
        * exists i. split; [exact En | lia].
    - intros i a Ha [H1 H2].
      destruct (Nat.lt_ge_cases i lo') as [Hl|Hl].
      + specialize (Hlo _ _ Hl Ha). lia.
      + specialize (Hhi2 i a ltac:(lia) Ha). lia.
  Qed.

  Lemma find_none_all (f : A -> bool) (k : list A) : (forall x, In x k -> f x = false) -> find f k = None.
  Proof.
    induction k as [|a k IH]; intros H; [reflexivity|]. cbn. rewrite (H a (or_introl eq_refl)).
    apply IH. intros x Hx. apply H. right. exact Hx.
  Qed.

  Lemma find_at (f : A -> bool) (k : list A) : forall i x, nth_error k i = Some x -> f x = true ->
    (forall j y, (j < i)%nat -> nth_error k j = Some y -> f y = false) -> find f k = Some x.
  Proof.
    induction k as [|a k IH]; intros i x Hi Hf Hb; [destruct i; discriminate|].
    destruct i as [|i].
    - cbn in Hi. inversion Hi; subst. cbn. rewrite Hf. reflexivity.
    - cbn in Hi. cbn [find]. rewrite (Hb O a ltac:(lia) eq_refl).
      apply (IH i x Hi Hf). intros j y Hj Hy. apply (Hb (S j) y ltac:(lia)). exact Hy.
  Qed.

  (* on sorted disjoint intervals the binary search is the linear search *)
  Lemma bfind_find : bfind cmp l = find inb l.
  Proof.
    pose proof (bsearch_spec (S (length l)) 0 (length l) (Nat.le_refl _) ltac:(lia) ltac:(intros; lia)
                  ltac:(intros j x Hj Hx; apply nth_error_None in Hj; congruence)) as HS.
    unfold bfind. destruct (bsearch cmp (S (length l)) l 0 (length l)) as [x|].
    - destruct HS as [i [Hi Hr]]. symmetry. apply (find_at inb l i x Hi).
      + unfold inb. apply andb_true_iff. split; apply Z.leb_le; lia.
      + intros j y Hj Hy. pose proof (Hmono j i y x Hj Hy Hi). unfold inb.
        apply andb_false_iff. right. apply Z.leb_gt. lia.
    - symmetry. apply find_none_all. intros x Hx. apply In_nth_error in Hx. destruct Hx as [i Hi].
      specialize (HS i x Hi). unfold inb. destruct (Z.leb_spec (lo x) c), (Z.leb_spec c (hi x)); cbn; auto. lia.
  Qed.
End Interval.

Lemma compare_as_if k c : Z.compare k c = if c <? k then Gt else if k <? c then Lt else Eq.
Proof.
  destruct (Z.ltb_spec c k); [apply Z.compare_gt_iff; lia|].
  destruct (Z.ltb_spec k c); [apply Z.compare_lt_iff; lia|]. apply Z.compare_eq_iff. lia.
Qed.

Lemma bfind_sorted {A} (lo hi : A -> Z) c cmp (l : list A) b :
  (forall x, cmp x = if c <? lo x then Gt else if hi x <? c then Lt else Eq) ->
  isorted lo hi b l -> bfind cmp l = find (inb lo hi c) l.
Proof.
  intros Hc Hs. destruct (isorted_nth lo hi l b Hs) as [N1 N2].
  apply bfind_find; auto. intros i x Hx. apply (N1 i x Hx).
Qed.

Lemma find_ext {A} (f g : A -> bool) l : (forall x, f x = g x) -> find f l = find g l.
Proof. intros H. induction l as [|a l IH]; [reflexivity|]. cbn. rewrite H, IH. reflexivity. Qed.

(* well-formed: selectors strictly ascending; default ranges ascending and disjoint; non-default
   mappings strictly ascending by code point — as the OpenType specification requires *)
Definition wf_sel (r : Sel) : Prop :=
  (forall ranges, snd (fst r) = Some ranges -> isorted fst (fun x => fst x + snd x) (-1) ranges) /\
  (forall maps, snd r = Some maps -> isorted fst fst (-1) maps).
Definition wf14 (sels : list Sel) : Prop := isorted sel_of sel_of (-1) sels /\ Forall wf_sel sels.

Lemma existsb_find {A} (f : A -> bool) l : existsb f l = match find f l with Some _ => true | None => false end.
Proof. induction l as [|a l IH]; [reflexivity|]. cbn. destruct (f a); auto. Qed.

Lemma assoc_find c (l : list (Z * Z)) : assoc c l = match find (fun p => fst p =? c) l with Some p => Some (snd p) | None => None end.
Proof. induction l as [|[k v] l IH]; [reflexivity|]. cbn. destruct (k =? c); auto. Qed.

Lemma inb_point {A} (key : A -> Z) c x : inb key key c x = (key x =? c).
Proof. unfold inb. destruct (Z.leb_spec (key x) c), (Z.leb_spec c (key x)), (Z.eqb_spec (key x) c); cbn; auto; lia. Qed.

Theorem cmap14_answers_lemma sels : wf14 sels -> forall c sel, cmap14_map_variant sels c sel = cmap14_spec sels c sel.
Proof.
  intros [Hs Hw] c sel. unfold cmap14_map_variant, cmap14_spec.
  rewrite (bfind_sorted sel_of sel_of sel (fun r : Sel => Z.compare (fst (fst r)) sel) sels (-1) (fun r => compare_as_if (sel_of r) sel) Hs).
  rewrite (find_ext _ (fun r => sel_of r =? sel)) by (intros; apply inb_point).
  destruct (find (fun r => sel_of r =? sel) sels) as [[[s dflt] nondflt]|] eqn:Ef; [|reflexivity].
  cbn [obind].
  apply find_some in Ef. destruct Ef as [Hin _]. rewrite Forall_forall in Hw.
  destruct (Hw _ Hin) as [Wd Wn]. cbn [fst snd] in Wd, Wn.
  assert (Ed : (match dflt with
                | Some ranges => match bfind (fun r : Z * Z => if c <? fst r then Gt else if fst r + snd r <? c then Lt else Eq) ranges with
                                 | Some _ => true | None => false end
                | None => false end)
               = (match dflt with Some ranges => existsb (in_range c) ranges | None => false end)).
  { destruct dflt as [ranges|]; [|reflexivity].
    rewrite (bfind_sorted fst (fun x => fst x + snd x) c (fun r : Z * Z => if c <? fst r then Gt else if fst r + snd r <? c then Lt else Eq) ranges (-1) (fun r => eq_refl) (Wd _ eq_refl)).
    rewrite existsb_find. reflexivity. }
  rewrite Ed. destruct (match dflt with Some ranges => existsb (in_range c) ranges | None => false end); [reflexivity|].
  destruct nondflt as [maps|]; [|reflexivity]. cbn [obind].
  rewrite (bfind_sorted fst fst c (fun m : Z * Z => Z.compare (fst m) c) maps (-1) (fun m => compare_as_if (fst m) c) (Wn _ eq_refl)).
  rewrite (find_ext _ (fun p => fst p =? c)) by (intros; apply inb_point).
  rewrite assoc_find. destruct (find (fun p => fst p =? c) maps); reflexivity.
Qed.
