(* C08 — Cmap4Iter over the built segment arrays; Charmap::mappings in full *)
From Coq Require Import ZArith List Bool Lia.
From FV Require Import Lib.RustInt C08.Model C08.Proofs.
Import ListNotations.
Open Scope Z_scope.
Ltac Zify.zify_post_hook ::= Z.div_mod_to_equations.

Notation d0 := ((0, 0) : Z * Z) (only parsing).
Definition se (r : Row) : Z * Z := (row_start r, row_end r).

Lemma combine_map {A B C} (f : A -> B) (g : A -> C) l : combine (map f l) (map g l) = map (fun x => (f x, g x)) l.
Proof. induction l; cbn; congruence. Qed.

Lemma filter_map_map_id {A B} (f : B -> option A) (g : A -> B) l :
  (forall p, In p l -> f (g p) = Some p) -> filter_map f (map g l) = l.
Proof.
  induction l as [|a l IH]; intros H; [reflexivity|]. cbn [map filter_map].
  rewrite (H a (or_introl eq_refl)). f_equal. apply IH. intros p Hp. apply H. right. exact Hp.
Qed.

Lemma filter_map_ext_in {A B} (f g : A -> option B) l : (forall x, In x l -> f x = g x) -> filter_map f l = filter_map g l.
Proof.
  induction l as [|a l IH]; intros H; [reflexivity|]. cbn [filter_map].
  rewrite (H a (or_introl eq_refl)). rewrite IH; auto. intros x Hx. apply H. right. exact Hx.
Qed.

Lemma cp_run_fsts chunk : cp_run chunk -> chunk <> [] ->
  map fst chunk = zrange (fst (hd d0 chunk)) (fst (last chunk d0) + 1).
Proof.
  induction chunk as [|a chunk IH]; intros Hcp Hne; [congruence|].
  destruct chunk as [|b chunk].
  - cbn. rewrite zrange_cons by lia. rewrite zrange_empty by lia. reflexivity.
  - apply adj_cons2_inv in Hcp. destruct Hcp as [Hab Hcp].
    change (last (a :: b :: chunk) d0) with (last (b :: chunk) d0).
    change (map fst (a :: b :: chunk)) with (fst a :: map fst (b :: chunk)). cbn [hd]. rewrite zrange_cons.
    + f_equal. rewrite IH by (auto; discriminate). cbn [hd]. rewrite Hab. reflexivity.
    + pose proof (cp_run_last (b :: chunk) Hcp ltac:(discriminate)) as HL. cbn [hd length] in HL. lia.
Qed.

Definition end_of (l : list (Z * Z)) (cur_end : Z) : Z :=
  match l with [] => cur_end | _ => fst (last l d0) + 1 end.

Lemma asc_le_last l : asc l -> forall p, In p l -> fst p <= fst (last l d0).
Proof.
  induction l as [|a l IH]; intros Ha p Hp; [destruct Hp|].
  destruct l as [|b l].
  - destruct Hp as [<-|[]]. cbn. lia.
  - change (last (a :: b :: l) d0) with (last (b :: l) d0).
    destruct Hp as [<-|Hp].
    + apply adj_cons2_inv in Ha. destruct Ha as [Hab Ha]. specialize (IH Ha b (or_introl eq_refl)). lia.
    + apply IH; auto. eapply adj_cons; eauto.
Qed.

Lemma iter_step : forall T L0 i cur_end chunk rest d ro (rows : list Row) tailR,
            chunk <> [] -> cp_run chunk -> asc L0 -> incl (chunk ++ rest) L0 ->
            (forall p, In p (chunk ++ rest) -> 0 <= fst p <= 65535) ->
            (forall c, fst (hd d0 chunk) <= c <= fst (last chunk d0) ->
               exists g, In (c, g) L0 /\ cmap4_lookup_glyph_id T c i (fst (hd d0 chunk)) = Some g) ->
            (forall p, In p (chunk ++ rest) -> cur_end <= fst p) -> 0 <= cur_end ->
            cmap4_iter_from T i cur_end (map se ((fst (hd d0 chunk), fst (last chunk d0), d, ro) :: rows) ++ tailR)
            = chunk ++ cmap4_iter_from T (S i) (fst (last chunk d0) + 1) (map se rows ++ tailR).
Proof.
    intros T L0 i cur_end chunk rest d ro rows tailR Hne Hcp HaL Hincl H16 HL Hce Hce0.
    cbn [map app cmap4_iter_from se]. unfold se at 1, row_start, row_end. cbn [fst snd].
    assert (Hhd : In (hd d0 chunk) (chunk ++ rest)) by (apply in_or_app; left; destruct chunk; [congruence | left; reflexivity]).
    assert (Hs : cur_end <= fst (hd d0 chunk) <= 65535) by (split; [apply Hce | apply H16]; auto).
    assert (Hlen : (0 < length chunk)%nat) by (destruct chunk; [congruence | cbn; lia]).
    assert (Hse : fst (hd d0 chunk) <= fst (last chunk d0)) by (rewrite cp_run_last by auto; lia).
    rewrite (Z.max_l _ cur_end) by lia. rewrite (Z.max_l _ cur_end) by lia.
    rewrite wrap16_id by lia. f_equal.
    rewrite <- cp_run_fsts by auto. apply filter_map_map_id.
    intros p Hp.
    assert (Hpr : fst (hd d0 chunk) <= fst p <= fst (last chunk d0)).
    { split; [|apply asc_le_last; [apply cp_run_asc|]; auto].
      apply In_nth with (d := d0) in Hp. destruct Hp as [k [Hk <-]]. rewrite cp_run_nth by auto. lia. }
    assert (H16p : 0 <= fst p <= 65535) by (apply H16; apply in_or_app; auto).
    rewrite wrap16_id by lia.
    destruct (HL _ Hpr) as [g [Hin Hl]]. rewrite Hl.
    assert (g = snd p).
    { eapply asc_unique; [exact HaL | exact Hin |]. rewrite <- surjective_pairing. apply Hincl. apply in_or_app. auto. }
    subst g. rewrite <- surjective_pairing. reflexivity. 
Qed.

Lemma iter_rest : forall chunk rest, chunk <> [] -> asc (chunk ++ rest) ->
            (forall p, In p rest -> fst (last chunk d0) + 1 <= fst p) /\
            end_of (chunk ++ rest) 0 = end_of rest (fst (last chunk d0) + 1).
Proof.
    intros chunk rest Hne Ha. split.
    - intros p Hp. destruct (exists_last Hne) as [l' [a E]]. rewrite E in *. rewrite last_last.
      rewrite <- app_assoc in Ha. apply adj_app_r in Ha. cbn [app] in Ha.
      pose proof (asc_head_lt _ _ Ha p Hp). lia.
    - destruct rest as [|r rest].
      + rewrite app_nil_r. unfold end_of. destruct chunk; [congruence | reflexivity].
      + unfold end_of. rewrite last_app by discriminate. destruct chunk; [congruence|]. reflexivity. 
Qed.

Lemma iter_rows nseg i n rows gids l : rows_ok nseg i n rows gids l ->
  forall T L0 tailR cur_end, asc L0 -> incl l L0 -> (forall p, In p l -> 0 <= fst p <= 65535) -> asc l ->
  (forall j r, nth_error rows j = Some r -> forall c, row_start r <= c <= row_end r ->
     exists g, In (c, g) L0 /\ cmap4_lookup_glyph_id T c (i + j) (row_start r) = Some g) ->
  (forall p, In p l -> cur_end <= fst p) -> 0 <= cur_end ->
  cmap4_iter_from T i cur_end (map se rows ++ tailR)
  = l ++ cmap4_iter_from T (i + length rows) (end_of l cur_end) tailR.
Proof.
  induction 1 as [i n | i n chunk rest d rows gids Hne Hcp Hg Hd Hm Hr IH
                      | i n chunk rest ro rows gids Hne Hcp Hro Hi Hle Hr IH];
    intros T L0 tailR cur_end HaL Hincl H16 Hal HL Hce Hce0.
  - cbn. rewrite Nat.add_0_r. reflexivity.
  - rewrite (iter_step T L0 i cur_end chunk rest d 0 rows tailR); auto.
    2:{ intros c Hc. specialize (HL O _ eq_refl c Hc). rewrite Nat.add_0_r in HL. exact HL. }
    destruct (iter_rest chunk rest Hne Hal) as [R1 R2].
    rewrite IH with (L0 := L0); auto.
    + rewrite <- app_assoc. cbn [length].
      assert (E0 : end_of (chunk ++ rest) cur_end = end_of (chunk ++ rest) 0).
      { unfold end_of. destruct (chunk ++ rest) eqn:E; [|reflexivity]. destruct chunk; [congruence | discriminate]. }
      rewrite E0, R2. replace (i + S (length rows))%nat with (S i + length rows)%nat by lia. reflexivity.
    + intros p Hp. apply Hincl. apply in_or_app. auto.
    + intros p Hp. apply H16. apply in_or_app. auto.
    + eapply adj_app_r; eauto.
    + intros j r Hj c Hc. specialize (HL (S j) r Hj c Hc). replace (S i + j)%nat with (i + S j)%nat by lia. exact HL.
    + assert (In (last chunk d0) (chunk ++ rest)).
      { apply in_or_app. left. destruct (exists_last Hne) as [l' [a ->]]. rewrite last_last. apply in_or_app. right. left. auto. }
      specialize (H16 _ H). lia.
  - rewrite (iter_step T L0 i cur_end chunk rest 0 ro rows tailR); auto.
    2:{ intros c Hc. specialize (HL O _ eq_refl c Hc). rewrite Nat.add_0_r in HL. exact HL. }
    destruct (iter_rest chunk rest Hne Hal) as [R1 R2].
    rewrite IH with (L0 := L0); auto.
    + rewrite <- app_assoc. cbn [length].
      assert (E0 : end_of (chunk ++ rest) cur_end = end_of (chunk ++ rest) 0).
      { unfold end_of. destruct (chunk ++ rest) eqn:E; [|reflexivity]. destruct chunk; [congruence | discriminate]. }
      rewrite E0, R2. replace (i + S (length rows))%nat with (S i + length rows)%nat by lia. reflexivity.
    + intros p Hp. apply Hincl. apply in_or_app. auto.
    + intros p Hp. apply H16. apply in_or_app. auto.
    + eapply adj_app_r; eauto.
    + intros j r Hj c Hc. specialize (HL (S j) r Hj c Hc). replace (S i + j)%nat with (i + S j)%nat by lia. exact HL.
    + assert (In (last chunk d0) (chunk ++ rest)).
      { apply in_or_app. left. destruct (exists_last Hne) as [l' [a ->]]. rewrite last_last. apply in_or_app. right. left. auto. }
      specialize (H16 _ H). lia.
Qed.

Lemma rows_ok_nonempty nseg i n rows gids l : rows_ok nseg i n rows gids l -> rows <> [] -> l <> [].
Proof.
  intros H Hne. inversion H; subst; try congruence; intros E; apply app_eq_nil in E; tauto.
Qed.

Definition sentinel_pairs (ms : list (Z * Z)) : list (Z * Z) :=
  match assoc 65535 ms with Some _ => [] | None => [(65535, 0)] end.

Lemma cmap4_iter_table ms t4 : asc ms -> Forall valid ms -> create_format_4 ms = Some (Some t4) ->
  cmap4_iter t4 = bmp_prefix ms ++ sentinel_pairs ms.
Proof.
  intros Ha HV E.
  destruct (create_format_4_table _ _ Ha HV E) as (rows & gids & Ht & Hrows & Hne). cbn zeta in *.
  set (allrows := rows ++ [sentinel]) in *.
  set (l := bmp_prefix ms) in *.
  assert (Hal : asc l).
  { destruct (bmp_prefix_split ms) as (post & Hsplit & _). rewrite Hsplit in Ha. eapply adj_app_l; eauto. }
  assert (HVl : Forall valid l).
  { destruct (bmp_prefix_split ms) as (post & Hsplit & _). rewrite Hsplit in HV. apply Forall_app in HV. tauto. }
  assert (Hl65 : forall p, In p l -> 0 <= fst p <= 65535).
  { intros p Hp. destruct (bmp_prefix_split ms) as (post & Hsplit & Hle & _). split; [|apply Hle; auto].
    rewrite Forall_forall in HVl. destruct (HVl p Hp) as [[? ?] _]. lia. }
  destruct (rows_ok_lookup _ _ _ _ _ _ Hrows [] [sentinel] [] t4 eq_refl eq_refl
              ltac:(subst t4; reflexivity) ltac:(subst t4; reflexivity) ltac:(subst t4; reflexivity)
              eq_refl HVl) as [L1 _].
  assert (Hcomb : combine (startc t4) (endc t4) = map se rows ++ [se sentinel]).
  { subst t4. cbn [startc endc]. rewrite combine_map. unfold allrows. rewrite map_app. reflexivity. }
  unfold cmap4_iter. rewrite Hcomb.
  rewrite (iter_rows _ _ _ _ _ _ Hrows t4 l [se sentinel] 0 Hal (incl_refl _) Hl65 Hal L1
             ltac:(intros p Hp; apply Hl65; auto) ltac:(lia)).
  f_equal. cbn [Nat.add].
  pose proof (rows_ok_nonempty _ _ _ _ _ _ Hrows Hne) as Hlne.
  assert (Hlast : In (last l d0) l).
  { destruct (exists_last Hlne) as [l' [a ->]]. rewrite last_last. apply in_or_app. right. left. auto. }
  assert (HE : end_of l 0 = fst (last l d0) + 1) by (unfold end_of; destruct l; [congruence | reflexivity]).
  rewrite HE. pose proof (Hl65 _ Hlast) as Hb.
  cbn [cmap4_iter_from se]. unfold se, sentinel, row_start, row_end. cbn [fst snd].
  rewrite app_nil_r. unfold sentinel_pairs.
  destruct (assoc 65535 ms) as [g|] eqn:Ea.
  - (* U+FFFF is mapped: it is the last pair; the sentinel range is empty after the clamp *)
    apply assoc_in in Ea. apply (bmp_prefix_in ms 65535 g Ha ltac:(lia)) in Ea. fold l in Ea.
    pose proof (asc_le_last l Hal _ Ea) as Hle. cbn [fst] in Hle.
    rewrite zrange_empty by lia. reflexivity.
  - assert (Hlt : fst (last l d0) < 65535).
    { destruct (Z.eq_dec (fst (last l d0)) 65535) as [E65|]; [|lia]. exfalso.
      assert (Hin : In (last l d0) ms) by (destruct (bmp_prefix_split ms) as (post & Hsplit & _); rewrite Hsplit; apply in_or_app; auto).
      rewrite (surjective_pairing (last l d0)), E65 in Hin. eapply assoc_none; eauto. }
    rewrite (Z.max_l 65535) by lia. rewrite (Z.max_l (65535 + 1)) by lia.
    rewrite zrange_cons by lia. rewrite zrange_empty by lia. cbn [filter_map].
    rewrite wrap16_id by lia.
    assert (Hlk : cmap4_lookup_glyph_id t4 65535 (length rows) 65535 = Some 0).
    { unfold cmap4_lookup_glyph_id, nthz. subst t4. cbn [deltas roffs]. unfold allrows.
      rewrite !map_app, !nth_error_app2 by (rewrite map_length; lia). rewrite !map_length, Nat.sub_diag.
      cbn. reflexivity. }
    rewrite Hlk. reflexivity.
Qed.

(* Cmap4Iter over the table built from [input]: exactly the BMP part of the (sorted) input, then —
   iff U+FFFF itself is not mapped — the pair (0xFFFF, 0) the sentinel segment stands for *)
Theorem cmap4_iter_exact_lemma input t4 o12 : valid_input input -> from_mappings input = Built (Some t4) o12 ->
  cmap4_iter t4 = bmp_prefix (canon input) ++ sentinel_pairs (canon input).
Proof.
  intros HV HB. apply from_mappings_built in HB. destruct HB as (Hcf & E4 & _).
  apply cmap4_iter_table; auto. apply canon_asc; auto. apply valid_canon; auto.
Qed.

Lemma filter_nz_valid l : Forall valid l -> filter (fun p : Z * Z => negb (snd p =? 0)) l = l.
Proof.
  intros H. apply filter_all. intros p Hp. rewrite Forall_forall in H. destruct (H p Hp) as [_ Hg].
  apply negb_true_iff. apply Z.eqb_neq. lia.
Qed.

(* skrifa Charmap::mappings, every case of subtable selection *)
Theorem charmap_mappings_exact_lemma input o4 o12 ng : valid_input input -> from_mappings input = Built o4 o12 ->
  (forall c g, In (c, g) input -> g < ng) ->
  charmap_mappings (records_of o4 o12) ng = canon input.
Proof.
  intros HV HB Hng. destruct o12 as [gs|]; [eapply charmap_mappings_exact_f12_lemma; eauto|].
  pose proof (from_mappings_built _ _ _ HB) as (Hcf & E4 & _).
  pose proof (canon_asc _ Hcf) as Ha. pose proof (valid_canon _ HV) as HVc.
  destruct (subtable_choice_lemma _ _ _ HV HB) as [S12 S4].
  (* no supplementary char: the BMP prefix is everything *)
  assert (Hall : bmp_prefix (canon input) = canon input).
  { destruct (bmp_prefix_split (canon input)) as (post & Hsplit & _ & Hgt).
    destruct post as [|p post]; [rewrite app_nil_r in Hsplit; congruence|]. exfalso.
    apply (proj2 S12); [|reflexivity]. exists p. split.
    - apply canon_in. rewrite Hsplit. apply in_or_app. right. left. reflexivity.
    - apply (Hgt Ha). left. reflexivity. }
  destruct o4 as [t|].
  - assert (Hsel : charmap_select (records_of (Some t) None) = (1, Some (F4 t))) by reflexivity.
    unfold charmap_mappings. rewrite Hsel.
    rewrite (cmap4_iter_table _ _ Ha HVc E4), Hall. rewrite filter_app, filter_nz_valid by auto.
    unfold sentinel_pairs. destruct (assoc 65535 (canon input)); cbn; rewrite app_nil_r; reflexivity.
  - unfold charmap_mappings. cbn. destruct (canon input) as [|p l] eqn:Ec; [reflexivity|]. exfalso.
    assert (Hp : In p input) by (apply canon_in; rewrite Ec; left; reflexivity).
    destruct (Z.le_gt_cases (fst p) 65535).
    + apply (proj2 S4); [exists p; auto | reflexivity].
    + apply (proj2 S12); [exists p; auto | reflexivity].
Qed.
