(* C08 — proofs (placeholder, filled in below) *)
From Coq Require Import ZArith List Bool Lia.
From FV Require Import Lib.RustInt C08.Model.
