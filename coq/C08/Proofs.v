(* C08 — assembly of the property-level lemmas (see Basics, F12, Segs, F4 for the parts) *)
From Coq Require Import ZArith List Bool Lia.
From FV Require Import Lib.RustInt C08.Model.
From FV Require Export C08.Basics C08.F12 C08.Segs C08.F4.
Import ListNotations.
Open Scope Z_scope.
Ltac Zify.zify_post_hook ::= Z.div_mod_to_equations.

(* the property's domain: chars U+0000..U+10FFFF, glyph ids non-zero and 16-bit *)
Definition valid_input (input : list (Z * Z)) : Prop := Forall valid input.

Lemma valid_canon input : valid_input input -> Forall valid (canon input).
Proof.
  unfold valid_input. rewrite !Forall_forall. intros H p Hp. apply H. apply canon_in. exact Hp.
Qed.

(* ---------- from_mappings: outcome analysis ---------- *)
Lemma from_mappings_built input o4 o12 : from_mappings input = Built o4 o12 ->
  find_conflict (canon input) = None /\ create_format_4 (canon input) = Some o4 /\
  (o12 = None /\ existsb (fun p => 65535 <? fst p) (canon input) = false \/
   exists gs, o12 = Some gs /\ existsb (fun p => 65535 <? fst p) (canon input) = true /\
              create_format_12 (canon input) = Some gs).
Proof.
  unfold from_mappings. fold (canon input).
  destruct (find_conflict (canon input)) as [[[ch g1] g2]|]; [discriminate|].
  destruct (create_format_4 (canon input)) as [f4|]; [|discriminate].
  destruct (existsb (fun p => 65535 <? fst p) (canon input)) eqn:Ex.
  - destruct (create_format_12 (canon input)) as [gs|]; [|discriminate].
    intros H. inversion H; subst. split; auto. split; auto. right. exists gs. auto.
  - intros H. inversion H; subst. auto.
Qed.

Theorem conflict_reported input ch g1 g2 : from_mappings input = Conflict ch g1 g2 ->
  g1 < g2 /\ In (ch, g1) input /\ In (ch, g2) input.
Proof.
  unfold from_mappings. fold (canon input).
  destruct (find_conflict (canon input)) as [[[c a] b]|] eqn:E.
  - intros H. inversion H; subst. apply find_conflict_some in E. destruct E as (H1 & H2 & H3).
    split; auto. split; apply canon_in; auto.
  - destruct (create_format_4 (canon input)); [|discriminate].
    destruct (existsb _ _); [destruct (create_format_12 _)|]; discriminate.
Qed.

Theorem conflict_free_accepted input : conflict_free input -> forall ch g1 g2, from_mappings input <> Conflict ch g1 g2.
Proof.
  intros H ch g1 g2 E. apply conflict_reported in E. destruct E as (Hlt & H1 & H2).
  specialize (H _ _ _ H1 H2). lia.
Qed.

(* ---------- format 12 ---------- *)
Lemma valid_okp l : Forall valid l -> Forall okp l.
Proof. apply Forall_impl. intros [c g] [H1 H2]. unfold okp, B32. cbn in *. lia. Qed.

Lemma built_f12 input o4 gs : valid_input input -> from_mappings input = Built o4 (Some gs) ->
  asc (canon input) /\ expand gs = canon input /\ gwf (-1) (-2) gs.
Proof.
  intros HV HB. apply from_mappings_built in HB. destruct HB as (Hc & _ & [[E _]|[gs' (E & Ex & E12)]]); [discriminate|].
  inversion E; subst gs'; clear E. pose proof (canon_asc _ Hc) as Ha. split; auto.
  apply create_format_12_spec; auto.
  - intros En. rewrite En in Ex. discriminate.
  - apply valid_okp, valid_canon; auto.
Qed.

Theorem cmap12_answers_lemma input o4 gs : valid_input input -> from_mappings input = Built o4 (Some gs) ->
  forall c g, 0 <= c -> (cmap12_map gs c = Some g <-> In (c, g) input).
Proof.
  intros HV HB c g Hc. destruct (built_f12 _ _ _ HV HB) as (Ha & He & Hw).
  rewrite (cmap12_map_spec gs _ He Hw Ha c g Hc). apply canon_in.
Qed.

(* exactly the input pairs, ascending; the groups are non-empty, ascending, disjoint and maximal *)
Theorem cmap12_iter_exact_lemma input o4 gs : valid_input input -> from_mappings input = Built o4 (Some gs) ->
  cmap12_iter None gs = canon input /\ asc (canon input) /\ (forall p, In p (canon input) <-> In p input) /\
  (forall i a, nth_error gs i = Some a -> g_start a <= g_end a) /\
  (forall i a b, nth_error gs i = Some a -> nth_error gs (S i) = Some b ->
     g_end a < g_start b /\ ~ (g_start b = g_end a + 1 /\ g_gid b = g_gid a + (g_end a - g_start a) + 1)).
Proof.
  intros HV HB. destruct (built_f12 _ _ _ HV HB) as (Ha & He & Hw).
  split; [rewrite cmap12_iter_exact_gs by auto; exact He|]. split; auto.
  split; [intros; apply canon_in|]. split.
  - intros i a Hi. destruct (gwf_nth _ _ _ Hw) as [Hn _]. apply (Hn i a Hi).
  - intros i a b. apply (gwf_maximal _ _ _ Hw).
Qed.

(* ---------- format 4 ---------- *)
Lemma f4_loop_length ms nseg segs : forall i n rows gids,
  f4_loop ms nseg i n segs = Some (rows, gids) -> length rows = length segs.
Proof.
  induction segs as [|s tl IH]; intros i n rows gids E.
  - cbn in E. inversion E. reflexivity.
  - cbn [f4_loop] in E.
    destruct (nth_error ms (start_ix s)); [|discriminate]. destruct (nth_error ms (end_ix s)); [|discriminate].
    cbn [obind] in E. destruct (id_delta s).
    + cbn zeta in E.
      destruct (f4_loop ms nseg (S i) n tl) as [[r g]|] eqn:Er; [|discriminate].
      cbn [obind fst snd] in E. inversion E; subst. cbn [length]. f_equal. eapply IH; eauto.
    + destruct (Nat.ltb nseg i); [discriminate|].
      destruct (chk_u 16 _); [|discriminate]. cbn [obind] in E.
      destruct (Nat.ltb _ _); [discriminate|]. destruct (Nat.leb _ _); [discriminate|].
      destruct (negb _); [discriminate|].
      match type of E with context [f4_loop ms nseg (S i) ?m tl] =>
        destruct (f4_loop ms nseg (S i) m tl) as [[r g]|] eqn:Er; [|discriminate] end.
      cbn [obind fst snd] in E. inversion E; subst. cbn [length]. f_equal. eapply IH; eauto.
Qed.

Definition sentinel : Row := (65535, 65535, 1, 0).

(* everything the reader needs to know about a table create_format_4 has produced *)
Lemma create_format_4_table ms t4 : asc ms -> Forall valid ms -> create_format_4 ms = Some (Some t4) ->
  exists rows gids,
    let allrows := rows ++ [sentinel] in
    t4 = mkT4 (Z.of_nat (length allrows) * 2) (map row_end allrows) (map row_start allrows)
              (map row_delta allrows) (map row_roff allrows) gids /\
    rows_ok (length allrows) 0 0 rows gids (bmp_prefix ms) /\ rows <> [].
Proof.
  intros Ha HV E. unfold create_format_4 in E.
  destruct (compute_segments_cover ms) as (segs & Es & Hcov & Hnil). rewrite Es in E. cbn [obind] in E.
  destruct (negb (forallb (fun p => snd p <=? 65535) ms)); [discriminate|].
  destruct segs as [|s0 segs']; [discriminate|]. set (segs := s0 :: segs') in *.
  destruct (f4_loop ms (S (length segs)) 0 0 segs) as [[rows gids]|] eqn:Er; [|discriminate].
  cbn [obind fst snd] in E. inversion E; subst t4; clear E.
  pose proof (f4_loop_length _ _ _ _ _ _ _ Er) as Hlen.
  destruct (bmp_prefix_split ms) as (post & Hsplit & Hle & _).
  exists rows, gids. cbn zeta. rewrite app_length. cbn [length]. rewrite Hlen.
  replace (length segs + 1)%nat with (S (length segs)) by lia.
  split; [reflexivity|]. split.
  - apply (f4_loop_rows ms _ segs O (bmp_prefix ms) Hcov post O O rows gids); [exact Hsplit | | lia | exact Er].
    rewrite Forall_forall in *. intros p Hp. unfold cp16. split; [|apply Hle; auto].
    assert (In p ms) by (rewrite Hsplit; apply in_or_app; auto). destruct (HV p H) as [[? ?] _]. lia.
  - intros ->. cbn in Hlen. subst segs. discriminate.
Qed.

Lemma bmp_prefix_in ms c g : asc ms -> c <= 65535 -> (In (c, g) (bmp_prefix ms) <-> In (c, g) ms).
Proof.
  intros Ha Hc. destruct (bmp_prefix_split ms) as (post & Hsplit & Hle & Hgt). split.
  - intros H. rewrite Hsplit. apply in_or_app. auto.
  - intros H. rewrite Hsplit in H. apply in_app_or in H. destruct H as [H|H]; auto.
    specialize (Hgt Ha _ H). cbn in Hgt. lia.
Qed.

Lemma cmap4_map_table ms t4 : asc ms -> Forall valid ms -> create_format_4 ms = Some (Some t4) ->
  forall c g, 0 <= c <= 65535 -> c <> 65535 -> (cmap4_map t4 c = Some g <-> In (c, g) ms).
Proof.
  intros Ha HV E c g Hc Hns.
  destruct (create_format_4_table _ _ Ha HV E) as (rows & gids & Ht & Hrows & Hne). cbn zeta in *.
  set (allrows := rows ++ [sentinel]) in *.
  set (l := bmp_prefix ms) in *.
  assert (Hal : asc l).
  { destruct (bmp_prefix_split ms) as (post & Hsplit & _). rewrite Hsplit in Ha. eapply adj_app_l; eauto. }
  assert (HVl : Forall valid l).
  { destruct (bmp_prefix_split ms) as (post & Hsplit & _). rewrite Hsplit in HV. apply Forall_app in HV. tauto. }
  assert (Hl65 : forall p, In p l -> 0 <= fst p <= 65535).
  { intros p Hp. destruct (bmp_prefix_split ms) as (post & Hsplit & Hle & _). split; [|apply Hle; auto].
    rewrite Forall_forall in HVl. destruct (HVl p Hp) as [[? ?] _]. lia. }
  (* lookup facts *)
  destruct (rows_ok_lookup _ _ _ _ _ _ Hrows [] [sentinel] [] t4 eq_refl eq_refl
              ltac:(subst t4; reflexivity) ltac:(subst t4; reflexivity) ltac:(subst t4; reflexivity)
              eq_refl HVl) as [L1 L2].
  (* monotone rows *)
  destruct (rows_ok_mono _ _ _ _ _ _ Hrows Hal 0 ltac:(intros p Hp; apply Hl65; auto)) as [M1 M2].
  assert (Mall : rmono 0 allrows).
  { apply rmono_snoc; auto.
    - intros r Hr. destruct (M2 _ Hr) as [p [Hp ->]]. change (row_start sentinel) with 65535. apply Hl65; auto.
    - change (row_start sentinel) with 65535. lia.
    - change (row_start sentinel) with 65535. change (row_end sentinel) with 65535. lia. }
  destruct (rmono_nth _ _ Mall) as [N1 N2].
  (* the search *)
  unfold cmap4_map. destruct (Z.ltb_spec 65535 c) as [|_]; [lia|].
  assert (Hhi : Z.to_nat (segx2 t4 / 2) = length allrows).
  { subst t4. cbn [segx2]. rewrite Z.div_mul by lia. lia. }
  rewrite Hhi.
  pose proof (cmap4_search_spec t4 allrows c ltac:(subst t4; reflexivity) ltac:(subst t4; reflexivity)
                (fun i a H => proj2 (N1 i a H)) N2 (S (length allrows)) 0 (length allrows)
                (Nat.le_refl _) ltac:(lia) ltac:(intros; lia)
                ltac:(intros j a Hj Ha'; apply nth_error_None in Hj; congruence)) as HS.
  rewrite <- (bmp_prefix_in ms c g Ha) by lia. fold l.
  destruct HS as [(i & a & Hi & Hr & Es)|[Es Hnone]].
  - rewrite Es. assert (Hil : (i < length rows)%nat).
    { destruct (Nat.lt_ge_cases i (length rows)) as [|Hge]; auto. exfalso.
      unfold allrows in Hi. rewrite nth_error_app2 in Hi by lia.
      destruct (i - length rows)%nat as [|[|k]]; cbn in Hi; try discriminate.
      inversion Hi; subst a. unfold sentinel, row_start, row_end in Hr. cbn in Hr. lia. }
    unfold allrows in Hi. rewrite nth_error_app1 in Hi by lia.
    destruct (L1 _ _ Hi c Hr) as [g' [Hin Hl]]. cbn [Nat.add] in Hl. rewrite Hl. split.
    + intros H. inversion H; subst; auto.
    + intros H. f_equal. eapply asc_unique; eauto.
  - rewrite Es. split; [discriminate|]. intros Hin. exfalso.
    destruct (L2 _ Hin) as (j & r & Hj & Hr). cbn [fst] in Hr.
    apply (Hnone j r); auto. unfold allrows. rewrite nth_error_app1; auto.
    apply nth_error_Some. congruence.
Qed.

Theorem cmap4_answers_lemma input t4 o12 : valid_input input -> from_mappings input = Built (Some t4) o12 ->
  forall c g, 0 <= c <= 65535 -> c <> 65535 -> (cmap4_map t4 c = Some g <-> In (c, g) input).
Proof.
  intros HV HB c g Hc Hns. apply from_mappings_built in HB. destruct HB as (Hcf & E4 & _).
  rewrite (cmap4_map_table _ _ (canon_asc _ Hcf) (valid_canon _ HV) E4 c g Hc Hns). apply canon_in.
Qed.

Lemma option_iff_eq (a b : option Z) : (forall g, a = Some g <-> b = Some g) -> a = b.
Proof.
  intros H. destruct a as [x|], b as [y|]; auto.
  - apply H. reflexivity.
  - discriminate (proj1 (H x) eq_refl).
  - discriminate (proj2 (H y) eq_refl).
Qed.

(* the same, in the "answers with assoc" form of the property text *)
Theorem cmap4_answers_assoc_lemma input t4 o12 : valid_input input -> from_mappings input = Built (Some t4) o12 ->
  forall c, 0 <= c <= 65535 -> c <> 65535 -> cmap4_map t4 c = assoc c (canon input).
Proof.
  intros HV HB c Hc Hns. apply option_iff_eq. intros g.
  rewrite (cmap4_answers_lemma _ _ _ HV HB c g Hc Hns).
  apply from_mappings_built in HB. destruct HB as (Hcf & _).
  rewrite (asc_assoc _ (canon_asc _ Hcf)). symmetry. apply canon_in.
Qed.

Lemma cmap4_map_above t c : 65535 < c -> cmap4_map t c = None.
Proof. intros. unfold cmap4_map. destruct (Z.ltb_spec 65535 c); [reflexivity | lia]. Qed.

(* ---------- segments ---------- *)
Theorem segments_partition_lemma sorted :
  exists segs, compute_segments sorted = Some segs /\ segs_cover segs 0 (bmp_prefix sorted).
Proof. destruct (compute_segments_cover sorted) as (segs & H1 & H2 & _). eauto. Qed.

(* total since the fix of F-2: never panics, always the i16 congruent to gid - cp *)
Theorem delta_mod_65536_lemma d : -32768 <= delta_i16 d < 32768 /\ (delta_i16 d - d) mod 65536 = 0.
Proof. apply delta_i16_spec. Qed.

(* ---------- which subtables are emitted ---------- *)
Theorem subtable_choice_lemma input o4 o12 : valid_input input -> from_mappings input = Built o4 o12 ->
  (o12 <> None <-> exists p, In p input /\ 65535 < fst p) /\
  (o4 <> None <-> exists p, In p input /\ fst p <= 65535).
Proof.
  intros HV HB. apply from_mappings_built in HB. destruct HB as (Hcf & E4 & H12). split.
  - destruct H12 as [[-> Ex]|[gs (-> & Ex & _)]].
    + split; [congruence|]. intros [p [Hp Hlt]]. exfalso.
      assert (existsb (fun p => 65535 <? fst p) (canon input) = true).
      { apply existsb_exists. exists p. split; [apply canon_in; auto | lia]. }
      congruence.
    + split; [|discriminate]. intros _. apply existsb_exists in Ex. destruct Ex as [p [Hp Hlt]].
      exists p. split; [apply canon_in; auto | lia].
  - pose proof (canon_asc _ Hcf) as Ha.
    unfold create_format_4 in E4.
    destruct (compute_segments_cover (canon input)) as (segs & Es & Hcov & Hnil). rewrite Es in E4. cbn [obind] in E4.
    destruct (negb (forallb (fun p => snd p <=? 65535) (canon input))); [discriminate|].
    destruct (bmp_prefix_split (canon input)) as (post & Hsplit & Hle & Hgt).
    destruct segs as [|s0 segs'].
    + inversion E4; subst o4. split; [congruence|]. intros [p [Hp Hlt]]. exfalso.
      assert (Hb : bmp_prefix (canon input) = []) by (apply Hnil; reflexivity).
      apply canon_in in Hp. rewrite Hsplit, Hb in Hp. cbn [app] in Hp. specialize (Hgt Ha _ Hp). lia.
    + destruct (f4_loop _ _ _ _ _); [|discriminate]. cbn [obind] in E4. inversion E4; subst o4.
      split; [|discriminate]. intros _.
      destruct (bmp_prefix (canon input)) as [|p0 l0] eqn:Eb.
      * exfalso. assert (s0 :: segs' = []) by (apply Hnil; reflexivity). discriminate.
      * exists p0. split; [apply canon_in; rewrite Hsplit; left; reflexivity | apply Hle; left; reflexivity].
Qed.

(* ---------- Cmap::map_codepoint over the emitted records ---------- *)
Definition sub_ans (st : Subtable) (c : Z) : option Z :=
  match st with F4 t => cmap4_map t c | F12 g => cmap12_map g c | _ => None end.

Lemma cmap_map_first records c a :
  (forall p e st, In (p, e, st) records -> sub_ans st c = a \/ sub_ans st c = None) ->
  (a <> None -> exists p e st, In (p, e, st) records /\ sub_ans st c = a) ->
  cmap_map records c = a.
Proof.
  induction records as [|[[p e] st] tl IH]; intros H1 H2.
  - cbn. destruct a as [v|]; [|reflexivity]. destruct (H2 ltac:(discriminate)) as (? & ? & ? & [] & _).
  - cbn [cmap_map]. fold (sub_ans st c). destruct (sub_ans st c) as [v|] eqn:E.
    + destruct (H1 p e st (or_introl eq_refl)) as [Ha|Ha]; congruence.
    + apply IH.
      * intros p' e' st' Hin. apply (H1 p' e' st'). right. exact Hin.
      * intros Hne. destruct (H2 Hne) as (p' & e' & st' & [Hin|Hin] & Hans).
        -- inversion Hin; subst. congruence.
        -- eauto.
Qed.

Lemma cmap12_answers_assoc input o4 gs : valid_input input -> from_mappings input = Built o4 (Some gs) ->
  forall c, 0 <= c -> cmap12_map gs c = assoc c (canon input).
Proof.
  intros HV HB c Hc. apply option_iff_eq. intros g.
  rewrite (cmap12_answers_lemma _ _ _ HV HB c g Hc).
  apply from_mappings_built in HB. destruct HB as (Hcf & _).
  rewrite (asc_assoc _ (canon_asc _ Hcf)). symmetry. apply canon_in.
Qed.

Theorem cmap_answers_assoc_lemma input o4 o12 : valid_input input -> from_mappings input = Built o4 o12 ->
  forall c, 0 <= c -> c <> 65535 -> cmap_map (records_of o4 o12) c = assoc c (canon input).
Proof.
  intros HV HB c Hc Hns.
  pose proof (from_mappings_built _ _ _ HB) as (Hcf & _).
  pose proof (canon_asc _ Hcf) as Ha.
  apply cmap_map_first.
  - intros p e st Hin. unfold records_of in Hin.
    assert (Hst : (exists t, o4 = Some t /\ st = F4 t) \/ (exists gs, o12 = Some gs /\ st = F12 gs)).
    { destruct o4 as [t|], o12 as [gs|]; cbn in Hin;
        repeat (destruct Hin as [Hin|Hin]; [inversion Hin; subst; eauto|]); destruct Hin. }
    destruct Hst as [(t & -> & ->)|(gs & -> & ->)]; cbn [sub_ans].
    + destruct (Z.le_gt_cases c 65535).
      * left. eapply cmap4_answers_assoc_lemma; eauto; lia.
      * right. apply cmap4_map_above. auto.
    + left. eapply cmap12_answers_assoc; eauto.
  - intros Hne. destruct (assoc c (canon input)) as [g|] eqn:Eg; [|congruence].
    apply assoc_in in Eg. apply (proj1 (canon_in _ _)) in Eg.
    destruct (subtable_choice_lemma _ _ _ HV HB) as [S12 S4].
    destruct (Z.le_gt_cases c 65535).
    + destruct o4 as [t|]; [|exfalso; apply (proj2 S4); [exists (c, g); auto | reflexivity]].
      exists 0, 3, (F4 t). split; [unfold records_of; left; reflexivity|]. cbn [sub_ans].
      rewrite (cmap4_answers_assoc_lemma _ _ _ HV HB c) by lia.
      apply (proj2 (asc_assoc _ Ha c g)). apply (proj2 (canon_in _ _)). exact Eg.
    + destruct o12 as [gs|]; [|exfalso; apply (proj2 S12); [exists (c, g); auto | reflexivity]].
      exists 0, 4, (F12 gs). split.
      * unfold records_of. destruct o4; cbn; auto.
      * cbn [sub_ans]. rewrite (cmap12_answers_assoc _ _ _ HV HB c Hc).
        apply (proj2 (asc_assoc _ Ha c g)). apply (proj2 (canon_in _ _)). exact Eg.
Qed.

(* ---------- skrifa Charmap over the emitted records ---------- *)

Lemma assoc_valid_nonzero input c g : valid_input input -> assoc c (canon input) = Some g -> (g =? 0) = false.
Proof.
  intros HV E. apply assoc_in in E. apply (proj1 (canon_in _ _)) in E.
  unfold valid_input in HV. rewrite Forall_forall in HV. destruct (HV _ E) as [_ Hg]. cbn in Hg.
  apply Z.eqb_neq. lia.
Qed.

Lemma assoc_none_of_no_subtable input o4 o12 c : valid_input input -> from_mappings input = Built o4 o12 ->
  (c <= 65535 -> o4 = None) -> (65535 < c -> o12 = None) -> assoc c (canon input) = None.
Proof.
  intros HV HB H4 H12. destruct (assoc c (canon input)) as [g|] eqn:E; [|reflexivity]. exfalso.
  apply assoc_in in E. apply (proj1 (canon_in _ _)) in E.
  destruct (subtable_choice_lemma _ _ _ HV HB) as [S12 S4].
  destruct (Z.le_gt_cases c 65535) as [Hle|Hgt].
  - apply (proj2 S4); [exists (c, g); auto | auto].
  - apply (proj2 S12); [exists (c, g); auto | auto].
Qed.

Theorem charmap_map_answers_lemma input o4 o12 : valid_input input -> from_mappings input = Built o4 o12 ->
  forall c, 0 <= c -> c <> 65535 -> charmap_map (records_of o4 o12) c = assoc c (canon input).
Proof.
  intros HV HB c Hc Hns. destruct o12 as [gs|].
  - assert (Hsel : charmap_select (records_of o4 (Some gs)) = (2, Some (F12 gs))) by (destruct o4; reflexivity).
    unfold charmap_map. rewrite Hsel. unfold subtable_map.
    rewrite (cmap12_answers_assoc _ _ _ HV HB c Hc).
    destruct (assoc c (canon input)) as [g|] eqn:E; [|reflexivity].
    rewrite (assoc_valid_nonzero _ _ _ HV E). reflexivity.
  - destruct o4 as [t|].
    + assert (Hsel : charmap_select (records_of (Some t) None) = (1, Some (F4 t))) by reflexivity.
      unfold charmap_map. rewrite Hsel. unfold subtable_map.
      destruct (Z.le_gt_cases c 65535) as [Hle|Hgt].
      * rewrite (cmap4_answers_assoc_lemma _ _ _ HV HB c) by lia.
        destruct (assoc c (canon input)) as [g|] eqn:E; [|reflexivity].
        rewrite (assoc_valid_nonzero _ _ _ HV E). reflexivity.
      * rewrite cmap4_map_above by lia. cbn.
        symmetry. eapply assoc_none_of_no_subtable; eauto. lia.
    + unfold charmap_map. cbn. symmetry. eapply assoc_none_of_no_subtable; eauto.
Qed.


Lemma cmap12_iter_from_limits gs ng : forall pe pg, gwf pe pg gs ->
  (forall a, In a gs -> g_end a <= 1114111 /\ g_gid a + (g_end a - g_start a) < ng) ->
  forall cur_end, cur_end <= pe + 1 -> cmap12_iter_from (Some (1114111, ng)) cur_end gs = expand gs.
Proof.
  induction gs as [|[[s e] g] t IH]; intros pe pg H Hb cur_end Hce; [reflexivity|].
  cbn [gwf] in H. unfold g_start, g_end, g_gid in H. cbn [fst snd] in H.
  destruct H as (H1 & H2 & H3 & H4 & H5 & H6 & H7). unfold B32 in *.
  destruct (Hb (s, e, g) (or_introl eq_refl)) as [Hb1 Hb2]. unfold g_start, g_end, g_gid in Hb1, Hb2. cbn [fst snd] in Hb1, Hb2.
  cbn [cmap12_iter_from]. unfold cmap12_group_end.
  destruct (Z.ltb_spec s cur_end); [lia|].
  replace (Z.min (Z.max 0 (ng - g) + s) (Z.min (e + 1) (1114111 + 1))) with (e + 1) by lia.
  change (expand ((s, e, g) :: t)) with (run s e g ++ expand t).
  f_equal.
  - unfold run. apply map_ext_in. intros x Hx. apply zrange_in in Hx.
    unfold cmap12_lookup_glyph_id. rewrite (wrap32_id (x - s)) by lia. rewrite wrap32_id by lia. reflexivity.
  - eapply IH; eauto. intros a Ha. apply Hb. right. exact Ha. lia.
Qed.

Lemma filter_all {A} (f : A -> bool) l : (forall x, In x l -> f x = true) -> filter f l = l.
Proof.
  induction l as [|a l IH]; intros H; [reflexivity|]. cbn. rewrite (H a (or_introl eq_refl)). f_equal.
  apply IH. intros x Hx. apply H. right. exact Hx.
Qed.

(* Charmap::mappings when a format-12 subtable is selected: exactly the sorted input pairs,
   provided all glyph ids are below the glyph count *)
Theorem charmap_mappings_exact_f12_lemma input o4 gs ng : valid_input input -> from_mappings input = Built o4 (Some gs) ->
  (forall c g, In (c, g) input -> g < ng) ->
  charmap_mappings (records_of o4 (Some gs)) ng = canon input.
Proof.
  intros HV HB Hlim. destruct (built_f12 _ _ _ HV HB) as (Ha & He & Hw).
  assert (Hsel : charmap_select (records_of o4 (Some gs)) = (2, Some (F12 gs))) by (destruct o4; reflexivity).
  unfold charmap_mappings. rewrite Hsel. unfold cmap12_iter.
  rewrite (cmap12_iter_from_limits gs ng _ _ Hw); [| |lia].
  - rewrite He. apply filter_all. intros [c g] Hin. apply (proj1 (canon_in _ _)) in Hin.
    unfold valid_input in HV. rewrite Forall_forall in HV. destruct (HV _ Hin) as [_ Hg]. cbn in *.
    apply negb_true_iff. apply Z.eqb_neq. lia.
  - intros a Hin. destruct (gwf_nth _ _ _ Hw) as [Hn _].
    destruct (In_nth_error _ _ Hin) as [i Hi]. destruct (Hn _ _ Hi) as (_ & Hse & _).
    assert (Hl : In (g_end a, g_gid a + (g_end a - g_start a)) (expand gs)).
    { apply in_expand. exists a. split; auto. split; [lia | reflexivity]. }
    rewrite He in Hl. apply (proj1 (canon_in _ _)) in Hl. split; [|eapply Hlim; eauto].
    unfold valid_input in HV. rewrite Forall_forall in HV. destruct (HV _ Hl) as [[_ Hc] _]. exact Hc.
Qed.
