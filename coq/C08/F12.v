(* C08 — format 12: create_format_12 groups expand to exactly the mapping; Cmap12 lookup and iteration *)
From Coq Require Import ZArith List Bool Lia.
From FV Require Import Lib.RustInt C08.Model C08.Basics.
Import ListNotations.
Open Scope Z_scope.
Ltac Zify.zify_post_hook ::= Z.div_mod_to_equations.

Notation Group := (Z * Z * Z)%type (only parsing).
Definition g_start (x : Group) := fst (fst x).
Definition g_end (x : Group) := snd (fst x).
Definition g_gid (x : Group) := snd x.

(* the pairs a group stands for *)
Definition run (sc lc sg : Z) : list pair := map (fun c => (c, sg + (c - sc))) (zrange sc (lc + 1)).
Definition expand (gs : list Group) : list pair := flat_map (fun x => run (g_start x) (g_end x) (g_gid x)) gs.

Definition B32 := 4294967295.
Definition okp (p : pair) : Prop := 0 <= fst p < B32 /\ 0 <= snd p < B32.

Lemma wrap32_id x : 0 <= x < 4294967296 -> wrap_u 32 x = x.
Proof. intros. unfold wrap_u. change (2 ^ 32) with 4294967296. apply Z.mod_small. lia. Qed.

Lemma run_snoc sc lc sg : sc <= lc + 1 -> run sc (lc + 1) sg = run sc lc sg ++ [(lc + 1, sg + (lc + 1 - sc))].
Proof. intros. unfold run. rewrite zrange_snoc by lia. rewrite map_app. reflexivity. Qed.
Lemma run_single c g : run c c g = [(c, g)].
Proof. unfold run. rewrite zrange_cons by lia. rewrite zrange_empty by lia. cbn. do 2 f_equal. lia. Qed.

Lemma f12_loop_expand l : forall sc sg lg lc,
  Forall okp l -> 0 <= sc -> sc <= lc -> lc < B32 -> lg = sg + (lc - sc) -> 0 <= sg -> lg < B32 ->
  asc ((lc, lg) :: l) ->
  expand (f12_loop sc sg lg lc l) = run sc lc sg ++ l.
Proof.
  unfold B32. induction l as [|[c g] l IH]; intros sc sg lg lc HF Hsc Hsl Hlc Hlg Hsg Hlgb Ha.
  - cbn. rewrite app_nil_r. reflexivity.
  - inversion HF as [|? ? [Hc Hg] HF']; subst. cbn [fst snd] in *. unfold B32 in *.
    apply adj_cons2_inv in Ha. destruct Ha as [Hlt Ha]. cbn [fst] in Hlt.
    cbn [f12_loop]. rewrite !wrap32_id by lia.
    destruct (negb (g =? sg + (lc - sc) + 1) || negb (c =? lc + 1)) eqn:E.
    + change (expand ((sc, lc, sg) :: ?r)) with (run sc lc sg ++ expand r).
      rewrite IH; auto; try lia. rewrite run_single. reflexivity.
    + apply orb_false_iff in E. destruct E as [E1 E2].
      apply negb_false_iff in E1, E2. apply Z.eqb_eq in E1, E2. subst c g.
      rewrite IH; auto; try lia.
      rewrite run_snoc by lia. rewrite <- app_assoc. cbn [app]. do 3 f_equal. lia.
Qed.

(* well-formed groups: ascending, disjoint, non-empty, in 32-bit range, and maximal (no group
   continues its predecessor in both code point and glyph id) *)
Fixpoint gwf (pe pg : Z) (gs : list Group) : Prop :=
  match gs with
  | [] => True
  | x :: t =>
      pe < g_start x /\ ~ (g_start x = pe + 1 /\ g_gid x = pg + 1) /\ g_start x <= g_end x /\
      g_end x < B32 /\ 0 <= g_gid x /\ g_gid x + (g_end x - g_start x) < B32 /\
      gwf (g_end x) (g_gid x + (g_end x - g_start x)) t
  end.

Lemma f12_loop_gwf l : forall sc sg lg lc pe pg,
  Forall okp l -> 0 <= sc -> sc <= lc -> lc < B32 -> lg = sg + (lc - sc) -> 0 <= sg -> lg < B32 ->
  asc ((lc, lg) :: l) -> pe < sc -> ~ (sc = pe + 1 /\ sg = pg + 1) ->
  gwf pe pg (f12_loop sc sg lg lc l).
Proof.
  unfold B32. induction l as [|[c g] l IH]; intros sc sg lg lc pe pg HF Hsc Hsl Hlc Hlg Hsg Hlgb Ha Hpe Hmax.
  - cbn. unfold B32, g_start, g_end, g_gid. cbn. repeat split; auto; lia.
  - inversion HF as [|? ? [Hc Hg] HF']; subst. cbn [fst snd] in *. unfold B32 in *.
    apply adj_cons2_inv in Ha. destruct Ha as [Hlt Ha]. cbn [fst] in Hlt.
    cbn [f12_loop]. rewrite !wrap32_id by lia.
    destruct (negb (g =? sg + (lc - sc) + 1) || negb (c =? lc + 1)) eqn:E.
    + cbn [gwf]. unfold B32, g_start, g_end, g_gid. cbn [fst snd].
      assert (Hnm : ~ (c = lc + 1 /\ g = sg + (lc - sc) + 1)).
      { apply orb_true_iff in E. intros [E1 E2]. subst.
        destruct E as [E|E]; apply negb_true_iff in E; apply Z.eqb_neq in E; lia. }
      repeat split; auto; try lia.
      apply IH; auto; try lia.
    + apply orb_false_iff in E. destruct E as [E1 E2].
      apply negb_false_iff in E1, E2. apply Z.eqb_eq in E1, E2. subst c g.
      apply IH; auto; try lia.
Qed.

Lemma create_format_12_spec l gs : l <> [] -> Forall okp l -> asc l ->
  create_format_12 l = Some gs -> expand gs = l /\ gwf (-1) (-2) gs.
Proof.
  intros Hn HF Ha E. destruct l as [|[c0 g0] l]; [congruence|]. clear Hn.
  cbn [create_format_12] in E. inversion E; subst gs; clear E.
  inversion HF as [|? ? [Hc Hg] HF']; subst. cbn [fst snd] in *. unfold B32 in *.
  assert (W : forall x, 0 <= x < 4294967295 -> wrap_u 32 (wrap_u 32 (x - 1) + 1) = x).
  { intros x Hx. unfold wrap_u. change (2 ^ 32) with 4294967296. lia. }
  cbn [f12_loop]. rewrite !W by lia. rewrite !Z.eqb_refl. cbn [negb orb].
  split.
  - rewrite f12_loop_expand; auto; unfold B32; try lia. rewrite run_single. reflexivity.
  - apply f12_loop_gwf; auto; unfold B32; try lia.
Qed.

(* facts about well-formed groups by index *)
Lemma gwf_nth gs : forall pe pg, gwf pe pg gs ->
  (forall j b, nth_error gs j = Some b -> pe < g_start b /\ g_start b <= g_end b /\ g_end b < B32 /\
                                           0 <= g_gid b /\ g_gid b + (g_end b - g_start b) < B32) /\
  (forall i j a b, (i < j)%nat -> nth_error gs i = Some a -> nth_error gs j = Some b -> g_end a < g_start b).
Proof.
  induction gs as [|x t IH]; intros pe pg H.
  - split; intros; destruct j; discriminate.
  - cbn [gwf] in H. destruct H as (H1 & H2 & H3 & H4 & H5 & H6 & H7).
    destruct (IH _ _ H7) as [IHa IHb]. split.
    + intros [|j] b Hb; cbn in Hb.
      * inversion Hb; subst. repeat split; auto.
      * destruct (IHa _ _ Hb) as (? & ? & ? & ? & ?). repeat split; auto; lia.
    + intros i [|j] a b Hij Ha Hb; [lia|]. cbn in Hb.
      destruct i as [|i]; cbn in Ha.
      * inversion Ha; subst. destruct (IHa _ _ Hb). lia.
      * apply (IHb i j a b); [lia | exact Ha | exact Hb].
Qed.

(* ---------- Cmap12::map_codepoint ---------- *)
Section Search12.
  Variable gs : list Group.
  Variable c : Z.
  Hypothesis Hle : forall i a, nth_error gs i = Some a -> g_start a <= g_end a.
  Hypothesis Hmono : forall i j a b, (i < j)%nat -> nth_error gs i = Some a -> nth_error gs j = Some b ->
                                     g_end a < g_start b.

  Lemma cmap12_search_spec fuel : forall lo hi,
    (hi <= length gs)%nat -> (hi - lo < fuel)%nat ->
    (forall j a, (j < lo)%nat -> nth_error gs j = Some a -> g_end a < c) ->
    (forall j a, (hi <= j)%nat -> nth_error gs j = Some a -> c < g_start a) ->
    match cmap12_search fuel gs c lo hi with
    | Some v => exists i a, nth_error gs i = Some a /\ g_start a <= c <= g_end a /\
                            v = cmap12_lookup_glyph_id c (g_start a) (g_gid a)
    | None => forall i a, nth_error gs i = Some a -> ~ (g_start a <= c <= g_end a)
    end.
  Proof.
    induction fuel as [|f IH]; intros lo hi Hhi Hf Hlo Hhi2; [lia|].
    cbn [cmap12_search]. destruct (Nat.ltb_spec lo hi) as [Hlt|Hge].
    - assert (Hi : (lo <= Nat.div2 (lo + hi) < hi)%nat).
      { rewrite Nat.div2_div. split.
        - apply Nat.div_le_lower_bound; lia.
        - apply Nat.div_lt_upper_bound; lia. }
      remember (Nat.div2 (lo + hi)) as i eqn:Heqi. clear Heqi.
      unfold nthg. destruct (@nth_error (Z * Z * Z) gs i) as [[[s e] g]|] eqn:En.
      2:{ apply nth_error_None in En. lia. }
      destruct (Z.ltb_spec c s) as [Hcs|Hcs].
      + cbv iota. apply IH; auto; try lia. intros j a Hj Ha.
        destruct (Nat.eq_dec j i) as [->|Hne].
        * rewrite En in Ha. inversion Ha; subst. cbn. lia.
        * destruct (Nat.lt_ge_cases j hi); [|eauto].
          pose proof (Hmono i j _ _ ltac:(lia) En Ha). unfold g_end, g_start in *. cbn in *.
          pose proof (Hle _ _ En). unfold g_end, g_start in *. cbn in *. lia.
      + destruct (Z.ltb_spec e c) as [Hec|Hec].
        * cbv iota. apply IH; auto; try lia. intros j a Hj Ha.
          destruct (Nat.eq_dec j i) as [->|Hne].
          -- rewrite En in Ha. inversion Ha; subst. cbn. lia.
          -- destruct (Nat.lt_ge_cases j lo); [eauto|].
             pose proof (Hmono j i _ _ ltac:(lia) Ha En). unfold g_end, g_start in *. cbn in *.
             pose proof (Hle _ _ Ha). unfold g_end, g_start in *. cbn in *. lia.
        * cbv iota. exists i, (s, e, g). unfold g_start, g_end, g_gid. cbn. repeat split; auto; lia.
    - intros i a Ha [H1 H2].
      destruct (Nat.lt_ge_cases i lo) as [Hl|Hl].
      + specialize (Hlo _ _ Hl Ha). lia.
      + specialize (Hhi2 i a ltac:(lia) Ha). lia.
  Qed.
End Search12.

Lemma in_expand gs c g : In (c, g) (expand gs) <->
  exists a, In a gs /\ g_start a <= c <= g_end a /\ g = g_gid a + (c - g_start a).
Proof.
  unfold expand. rewrite in_flat_map. split.
  - intros [a [Ha Hin]]. exists a. split; auto. unfold run in Hin. apply in_map_iff in Hin.
    destruct Hin as [x [Hx Hr]]. inversion Hx; subst. apply zrange_in in Hr. split; [lia|reflexivity].
  - intros [a [Ha [Hr ->]]]. exists a. split; auto. unfold run. apply in_map_iff.
    exists c. split; auto. apply zrange_in. lia.
Qed.

Lemma cmap12_map_spec gs l : expand gs = l -> gwf (-1) (-2) gs -> asc l ->
  forall c g, 0 <= c -> (cmap12_map gs c = Some g <-> In (c, g) l).
Proof.
  intros He Hw Ha c g Hc. destruct (gwf_nth _ _ _ Hw) as [Hn Hm].
  pose proof (cmap12_search_spec gs c (fun i a H => proj1 (proj2 (Hn i a H))) Hm
                (S (length gs)) 0 (length gs) (Nat.le_refl _) ltac:(lia)
                ltac:(intros; lia)
                ltac:(intros j a Hj Ha'; apply nth_error_None in Hj; congruence)) as HS.
  unfold cmap12_map. destruct (cmap12_search (S (length gs)) gs c 0 (length gs)) as [v|].
  - destruct HS as (i & a & Hi & Hr & Hv).
    assert (Hva : v = g_gid a + (c - g_start a)).
    { destruct (Hn _ _ Hi) as (? & ? & ? & ? & ?). unfold B32 in *.
      subst v. unfold cmap12_lookup_glyph_id. rewrite (wrap32_id (c - g_start a)) by lia.
      rewrite wrap32_id by lia. reflexivity. }
    assert (Hin : In (c, v) l).
    { rewrite <- He. apply in_expand. exists a. split; [eapply nth_error_In; eauto|]. split; auto. }
    split.
    + intros E. inversion E; subst; auto.
    + intros Hg. f_equal. eapply asc_unique; eauto.
  - split; [discriminate|]. intros Hin. rewrite <- He in Hin. apply in_expand in Hin.
    destruct Hin as (a & Ha' & Hr & _). apply In_nth_error in Ha'. destruct Ha' as [i Hi].
    exfalso. eapply HS; eauto.
Qed.

(* ---------- Cmap12Iter without limits ---------- *)
Lemma cmap12_iter_from_expand gs : forall pe pg, gwf pe pg gs ->
  forall cur_end, cur_end <= pe + 1 -> cmap12_iter_from None cur_end gs = expand gs.
Proof.
  induction gs as [|[[s e] g] t IH]; intros pe pg H cur_end Hce; [reflexivity|].
  cbn [gwf] in H. unfold g_start, g_end, g_gid in H. cbn [fst snd] in H.
  destruct H as (H1 & H2 & H3 & H4 & H5 & H6 & H7). unfold B32 in *.
  cbn [cmap12_iter_from]. unfold cmap12_group_end.
  destruct (Z.ltb_spec s cur_end); [lia|].
  change (expand ((s, e, g) :: t)) with (run s e g ++ expand t).
  f_equal.
  - unfold run. apply map_ext_in. intros x Hx. apply zrange_in in Hx.
    unfold cmap12_lookup_glyph_id. rewrite (wrap32_id (x - s)) by lia. rewrite wrap32_id by lia. reflexivity.
  - eapply IH; eauto. lia.
Qed.

Lemma cmap12_iter_exact_gs gs : gwf (-1) (-2) gs -> cmap12_iter None gs = expand gs.
Proof. intros. unfold cmap12_iter. eapply cmap12_iter_from_expand; eauto. lia. Qed.

(* maximality, stated on adjacent groups *)
Lemma gwf_maximal gs : forall pe pg, gwf pe pg gs -> forall i a b,
  nth_error gs i = Some a -> nth_error gs (S i) = Some b ->
  g_end a < g_start b /\ ~ (g_start b = g_end a + 1 /\ g_gid b = g_gid a + (g_end a - g_start a) + 1).
Proof.
  induction gs as [|x t IH]; intros pe pg H i a b Ha Hb; [destruct i; discriminate|].
  cbn [gwf] in H. destruct H as (H1 & H2 & H3 & H4 & H5 & H6 & H7).
  destruct i as [|i].
  - cbn in Ha. inversion Ha; subst a. destruct t as [|y t]; [discriminate|]. cbn in Hb. inversion Hb; subst b.
    cbn [gwf] in H7. tauto.
  - cbn in Ha, Hb. eapply IH; eauto.
Qed.
