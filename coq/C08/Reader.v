(* C08 — the format-4 reader on ARBITRARY decoded arrays (malformed tables included): it never
   panics, whatever it answers comes from a segment that contains the code point (by the format's
   formula), out-of-array offsets answer None, the iterator is strictly ascending; on sorted arrays the
   search is complete.  Plus: iterator = lookup on built tables; wf14b reflects wf14. *)
From Coq Require Import ZArith List Bool Lia.
From FV Require Import Lib.RustInt C08.Model C08.Proofs C08.Iter4 C08.Var14.
Import ListNotations.
Open Scope Z_scope.
Ltac Zify.zify_post_hook ::= Z.div_mod_to_equations.

Definition u16 (x : Z) : Prop := 0 <= x <= 65535.
(* what decoding guarantees about the code arrays: their entries are 16-bit *)
Definition u16_codes (t : T4) : Prop := Forall u16 (startc t) /\ Forall u16 (endc t).

(* ---------- no panic ---------- *)
Lemma lookup_chk_ok t c i sc : 0 <= c - sc <= 65535 ->
  cmap4_lookup_glyph_id_chk t c i sc = Some (cmap4_lookup_glyph_id t c i sc).
Proof.
  intros H. unfold cmap4_lookup_glyph_id_chk, cmap4_lookup_glyph_id, nthz.
  destruct (nth_error (deltas t) i) as [d|]; [|reflexivity]. cbn [obind].
  destruct (nth_error (roffs t) i) as [ro|] eqn:Er; [|reflexivity]. cbn [obind].
  destruct (ro =? 0); [reflexivity|].
  unfold chk_u, in_u. change (2 ^ 16) with 65536.
  assert (E : (0 <=? c - sc) && (c - sc <? 65536) = true) by (apply andb_true_iff; split; [apply Z.leb_le | apply Z.ltb_lt]; lia).
  rewrite E. cbn [obind].
  assert (Hi : (i < length (roffs t))%nat) by (apply nth_error_Some; congruence).
  assert (E2 : Nat.ltb (length (roffs t)) i = false) by (apply Nat.ltb_ge; lia). rewrite E2. cbn [obind].
  destruct (nth_error (gida t) _); reflexivity.
Qed.

Lemma search_chk_ok t c : Forall u16 (startc t) -> c <= 65535 -> forall fuel lo hi,
  cmap4_search_chk fuel t c lo hi = Some (cmap4_search fuel t c lo hi).
Proof.
  intros HS Hc. induction fuel as [|f IH]; intros lo hi; [reflexivity|].
  cbn [cmap4_search_chk cmap4_search]. destruct (Nat.ltb lo hi); [|reflexivity].
  unfold nthz. destruct (nth_error (startc t) (Nat.div2 (lo + hi))) as [sc|] eqn:Es; [|reflexivity].
  destruct (Z.ltb_spec c sc); [apply IH|].
  destruct (nth_error (endc t) (Nat.div2 (lo + hi))) as [ec|]; [|reflexivity].
  destruct (ec <? c); [apply IH|].
  apply lookup_chk_ok. rewrite Forall_forall in HS. specialize (HS sc (nth_error_In _ _ Es)). unfold u16 in HS. lia.
Qed.

Lemma emit_chk_ok (f : Z -> option (option Z)) (g : Z -> option Z) l : (forall cp, In cp l -> f cp = Some (g cp)) ->
  emit_chk f l = Some (filter_map (fun cp => match g cp with Some v => Some (cp, v) | None => None end) l).
Proof.
  induction l as [|a l IH]; intros H; [reflexivity|]. cbn [emit_chk filter_map].
  rewrite (H a (or_introl eq_refl)). cbn [obind]. rewrite IH by (intros; apply H; right; auto). cbn [obind].
  destruct (g a); reflexivity.
Qed.

Lemma iter_from_chk_ok t : forall ranges ix cur_end, Forall (fun r => u16 (fst r) /\ u16 (snd r)) ranges ->
  0 <= cur_end <= 65536 ->
  cmap4_iter_from_chk t ix cur_end ranges = Some (cmap4_iter_from t ix cur_end ranges).
Proof.
  induction ranges as [|[s e] tl IH]; intros ix cur_end HF Hce; [reflexivity|].
  inversion HF as [|? ? [Hs He] HF']; subst. cbn [fst snd] in Hs, He. unfold u16 in Hs, He.
  cbn [cmap4_iter_from_chk cmap4_iter_from].
  rewrite (emit_chk_ok _ (fun cp => cmap4_lookup_glyph_id t (wrap_u 16 cp) ix (wrap_u 16 (Z.max s cur_end)))).
  - cbn [obind]. rewrite IH by (auto; lia). reflexivity.
  - intros cp Hcp. apply zrange_in in Hcp. apply lookup_chk_ok.
    rewrite (wrap16_id cp) by lia. rewrite wrap16_id by lia. lia.
Qed.

Theorem cmap4_reader_total_lemma t : u16_codes t ->
  (forall c, cmap4_map_chk t c = Some (cmap4_map t c)) /\ cmap4_iter_chk t = Some (cmap4_iter t).
Proof.
  intros [HS HE]. split.
  - intros c. unfold cmap4_map_chk, cmap4_map. destruct (Z.ltb_spec 65535 c); [reflexivity|].
    apply search_chk_ok; auto.
  - unfold cmap4_iter_chk, cmap4_iter. apply iter_from_chk_ok; [|lia].
    apply Forall_forall. intros [s e] Hin. cbn [fst snd].
    rewrite Forall_forall in HS, HE. split; [apply HS; eapply in_combine_l | apply HE; eapply in_combine_r]; eauto.
Qed.

(* ---------- whatever the lookup answers comes from a containing segment ---------- *)
Lemma cmap4_search_sound t c : forall fuel lo hi g, cmap4_search fuel t c lo hi = Some g ->
  exists i sc ec, (lo <= i < hi)%nat /\ nth_error (startc t) i = Some sc /\ nth_error (endc t) i = Some ec /\
                  sc <= c <= ec /\ cmap4_lookup_glyph_id t c i sc = Some g.
Proof.
  induction fuel as [|f IH]; intros lo hi g E; [discriminate|].
  cbn [cmap4_search] in E. destruct (Nat.ltb_spec lo hi) as [Hlt|]; [|discriminate].
  assert (Hi : (lo <= Nat.div2 (lo + hi) < hi)%nat).
  { rewrite Nat.div2_div. split; [apply Nat.div_le_lower_bound | apply Nat.div_lt_upper_bound]; lia. }
  remember (Nat.div2 (lo + hi)) as i eqn:Heqi. clear Heqi. unfold nthz in E.
  destruct (nth_error (startc t) i) as [sc|] eqn:Es; [|discriminate].
  destruct (Z.ltb_spec c sc).
  - destruct (IH _ _ _ E) as (j & a & b & Hj & R). exists j, a, b. split; [lia | exact R].
  - destruct (nth_error (endc t) i) as [ec|] eqn:Ee; [|discriminate].
    destruct (Z.ltb_spec ec c).
    + destruct (IH _ _ _ E) as (j & a & b & Hj & R). exists j, a, b. split; [lia | exact R].
    + exists i, sc, ec. repeat split; auto; lia.
Qed.

Theorem cmap4_map_sound_any_lemma t c g : cmap4_map t c = Some g ->
  c <= 65535 /\ exists i sc ec, nth_error (startc t) i = Some sc /\ nth_error (endc t) i = Some ec /\
                                sc <= c <= ec /\ cmap4_lookup_glyph_id t c i sc = Some g.
Proof.
  unfold cmap4_map. destruct (Z.ltb_spec 65535 c); [discriminate|]. intros E. split; [lia|].
  destruct (cmap4_search_sound _ _ _ _ _ _ E) as (i & sc & ec & _ & R). eauto.
Qed.

(* the value of a segment, in the format's terms: idDelta arithmetic modulo 65536 for idRangeOffset = 0;
   otherwise glyphIdArray[idRangeOffset/2 + (c - startCode) - (segCount - i)] (the address arithmetic of the
   specification; an address before the array saturates to entry 0), 0 meaning "missing glyph";
   an index outside the glyph array answers None *)
Definition seg_glyph_index (t : T4) (c : Z) (i : nat) (sc ro : Z) : nat :=
  Z.to_nat (Z.max 0 (ro / 2 + (c - sc) - (Z.of_nat (length (roffs t)) - Z.of_nat i))).
Theorem cmap4_lookup_value_lemma t c i sc d ro : nth_error (deltas t) i = Some d -> nth_error (roffs t) i = Some ro ->
  cmap4_lookup_glyph_id t c i sc =
    if ro =? 0 then Some ((c + d) mod 65536)
    else match nth_error (gida t) (seg_glyph_index t c i sc ro) with
         | None => None
         | Some gid => if gid =? 0 then None else Some ((gid + d) mod 65536)
         end.
Proof.
  intros Hd Hr. unfold cmap4_lookup_glyph_id, nthz, seg_glyph_index, wrap_u. rewrite Hd, Hr. cbn [obind].
  change (2 ^ 16) with 65536. destruct (ro =? 0); [reflexivity|].
  destruct (nth_error (gida t) _); reflexivity.
Qed.
Theorem cmap4_lookup_out_of_array_lemma t c i sc d ro : nth_error (deltas t) i = Some d -> nth_error (roffs t) i = Some ro ->
  ro <> 0 -> (length (gida t) <= seg_glyph_index t c i sc ro)%nat -> cmap4_lookup_glyph_id t c i sc = None.
Proof.
  intros Hd Hr Hne Hlen. rewrite (cmap4_lookup_value_lemma _ _ _ _ _ _ Hd Hr).
  destruct (Z.eqb_spec ro 0); [congruence|]. apply nth_error_None in Hlen. rewrite Hlen. reflexivity.
Qed.

(* ---------- sorted arrays (not necessarily built by the writer): the search is complete ---------- *)
Definition rows_of (t : T4) : list Row := map (fun p => (fst p, snd p, 0, 0)) (combine (startc t) (endc t)).
Definition sorted4 (t : T4) : Prop :=
  length (startc t) = length (endc t) /\ Z.to_nat (segx2 t / 2) = length (startc t) /\ rmono 0 (rows_of t).

Lemma map_fst_combine {A B} (a : list A) (b : list B) : length a = length b -> map fst (combine a b) = a.
Proof. revert b. induction a as [|x a IH]; intros [|y b] H; try discriminate; [reflexivity|]. cbn. f_equal. apply IH. cbn in H. lia. Qed.
Lemma map_snd_combine {A B} (a : list A) (b : list B) : length a = length b -> map snd (combine a b) = b.
Proof. revert b. induction a as [|x a IH]; intros [|y b] H; try discriminate; [reflexivity|]. cbn. f_equal. apply IH. cbn in H. lia. Qed.

Theorem cmap4_map_sorted_any_lemma t c : sorted4 t -> c <= 65535 ->
  (exists i sc ec, nth_error (startc t) i = Some sc /\ nth_error (endc t) i = Some ec /\ sc <= c <= ec /\
                   cmap4_map t c = cmap4_lookup_glyph_id t c i sc)
  \/ (cmap4_map t c = None /\
      forall i sc ec, nth_error (startc t) i = Some sc -> nth_error (endc t) i = Some ec -> ~ (sc <= c <= ec)).
Proof.
  intros (Hlen & Hseg & Hm) Hc.
  assert (HS : startc t = map row_start (rows_of t)).
  { transitivity (map fst (combine (startc t) (endc t))); [symmetry; apply map_fst_combine; auto|].
    unfold rows_of. rewrite map_map. apply map_ext. intros []. reflexivity. }
  assert (HE : endc t = map row_end (rows_of t)).
  { transitivity (map snd (combine (startc t) (endc t))); [symmetry; apply map_snd_combine; auto|].
    unfold rows_of. rewrite map_map. apply map_ext. intros []. reflexivity. }
  assert (Hrl : length (rows_of t) = length (startc t)).
  { unfold rows_of. rewrite map_length, combine_length. lia. }
  destruct (rmono_nth _ _ Hm) as [N1 N2].
  unfold cmap4_map. destruct (Z.ltb_spec 65535 c); [lia|]. rewrite Hseg, <- Hrl.
  pose proof (cmap4_search_spec t (rows_of t) c HS HE (fun i a H => proj2 (N1 i a H)) N2 (S (length (rows_of t))) 0
                (length (rows_of t)) (Nat.le_refl _) ltac:(lia) ltac:(intros; lia)
                ltac:(intros j a Hj Ha'; apply nth_error_None in Hj; congruence)) as [(i & a & Hi & Hr & Es)|[Es Hn]].
  - left. exists i, (row_start a), (row_end a). rewrite HS, HE.
    rewrite (nth_error_map_some row_start _ _ _ Hi), (nth_error_map_some row_end _ _ _ Hi). auto.
  - right. split; auto. intros i sc ec H1 H2.
    rewrite HS in H1. rewrite HE in H2. rewrite nth_error_map in H1, H2.
    destruct (nth_error (rows_of t) i) as [a|] eqn:Ea; [|discriminate]. cbn in H1, H2. inversion H1; inversion H2; subst.
    apply (Hn i a Ea).
Qed.

(* ---------- the iterator is strictly ascending on every table ---------- *)
Fixpoint asc_from (lo : Z) (l : list (Z * Z)) : Prop :=
  match l with [] => True | p :: t => lo <= fst p /\ asc_from (fst p + 1) t end.
Lemma asc_from_weaken l : forall a b, b <= a -> asc_from a l -> asc_from b l.
Proof. destruct l; cbn; intros; [auto|]. split; [lia | tauto]. Qed.
Lemma asc_from_asc l : forall lo, asc_from lo l -> asc l.
Proof.
  induction l as [|p l IH]; intros lo H; [cbn; auto|]. destruct l as [|q l]; [cbn; auto|].
  cbn [asc_from] in H. destruct H as (H1 & H2 & H3). apply adj_cons2_intro. split; [lia|].
  apply (IH (fst p + 1)). cbn [asc_from]. auto.
Qed.
Lemma asc_from_app l1 : forall lo mid l2, asc_from lo l1 -> (forall p, In p l1 -> fst p < mid) -> lo <= mid ->
  asc_from mid l2 -> asc_from lo (l1 ++ l2).
Proof.
  induction l1 as [|p l1 IH]; intros lo mid l2 H1 Hb Hlm H2.
  - cbn. eapply asc_from_weaken; eauto.
  - cbn [app asc_from] in *. destruct H1 as [Ha Hr]. split; auto.
    apply (IH _ mid); auto. intros q Hq. apply Hb. right. auto. specialize (Hb p (or_introl eq_refl)). lia.
Qed.
Lemma filter_map_zrange_asc (f : Z -> option (Z * Z)) n : (forall cp p, f cp = Some p -> fst p = cp) -> forall a,
  asc_from a (filter_map f (zrange_n a n)) /\ forall p, In p (filter_map f (zrange_n a n)) -> a <= fst p < a + Z.of_nat n.
Proof.
  intros Hf. induction n as [|n IH]; intros a; [cbn; split; [auto | intros p []]|].
  cbn [zrange_n filter_map]. destruct (IH (a + 1)) as [I1 I2]. destruct (f a) as [p|] eqn:E.
  - pose proof (Hf _ _ E) as Hp. split.
    + cbn [asc_from]. rewrite Hp. split; [lia | exact I1].
    + intros q [<-|Hq]; [lia|]. specialize (I2 q Hq). lia.
  - split; [eapply asc_from_weaken; [|exact I1]; lia|]. intros q Hq. specialize (I2 q Hq). lia.
Qed.

Lemma iter_from_asc t : forall ranges ix cur_end, asc_from cur_end (cmap4_iter_from t ix cur_end ranges).
Proof.
  induction ranges as [|[s e] tl IH]; intros ix cur_end; [cbn; auto|].
  cbn [cmap4_iter_from].
  set (ns := Z.max s cur_end). set (ne := Z.max (e + 1) cur_end).
  set (F := fun cp => match cmap4_lookup_glyph_id t (wrap_u 16 cp) ix (wrap_u 16 ns) with Some g => Some (cp, g) | None => None end).
  assert (HF : forall cp p, F cp = Some p -> fst p = cp).
  { intros cp p. unfold F. destruct (cmap4_lookup_glyph_id _ _ _ _); intros H; inversion H; reflexivity. }
  unfold zrange. destruct (filter_map_zrange_asc F (Z.to_nat (ne - ns)) HF ns) as [A1 A2].
  destruct (Z.le_gt_cases ns ne) as [Hle|Hgt].
  - apply (asc_from_app _ cur_end ne).
    + eapply asc_from_weaken; [|exact A1]. unfold ns. lia.
    + intros p Hp. specialize (A2 p Hp). lia.
    + unfold ne. lia.
    + apply IH.
  - replace (Z.to_nat (ne - ns)) with O by lia. cbn [zrange_n filter_map app].
    eapply asc_from_weaken; [|apply IH]. unfold ne. lia.
Qed.

Theorem cmap4_iter_asc_any_lemma t : asc (cmap4_iter t).
Proof. unfold cmap4_iter. eapply asc_from_asc. apply iter_from_asc. Qed.

(* ---------- built tables: the iterator enumerates exactly what the lookup answers ---------- *)
Theorem cmap4_iter_is_lookup_lemma input t4 o12 : valid_input input -> from_mappings input = Built (Some t4) o12 ->
  asc (cmap4_iter t4) /\
  forall c g, 0 <= c -> c <> 65535 -> (In (c, g) (cmap4_iter t4) <-> cmap4_map t4 c = Some g).
Proof.
  intros HV HB. split; [apply cmap4_iter_asc_any_lemma|]. intros c g Hc Hns.
  rewrite (cmap4_iter_exact_lemma _ _ _ HV HB).
  pose proof (from_mappings_built _ _ _ HB) as (Hcf & _). pose proof (canon_asc _ Hcf) as Ha.
  assert (Hs : In (c, g) (bmp_prefix (canon input) ++ sentinel_pairs (canon input)) <-> In (c, g) (bmp_prefix (canon input))).
  { split; [|intros; apply in_or_app; auto]. intros H. apply in_app_or in H. destruct H as [H|H]; auto.
    unfold sentinel_pairs in H. destruct (assoc 65535 (canon input)); [destruct H|].
    destruct H as [H|[]]. inversion H. lia. }
  rewrite Hs. destruct (Z.le_gt_cases c 65535) as [Hle|Hgt].
  - rewrite (bmp_prefix_in _ c g Ha Hle), canon_in.
    symmetry. apply (cmap4_answers_lemma _ _ _ HV HB c g); lia.
  - rewrite cmap4_map_above by lia. split; [|discriminate]. intros H.
    destruct (bmp_prefix_split (canon input)) as (post & _ & Hle & _). specialize (Hle _ H). cbn in Hle. lia.
Qed.

(* ---------- wf14b reflects wf14 ---------- *)
Lemma isortedb_sound {A} (lo hi : A -> Z) l : forall b, isortedb lo hi b l = true -> isorted lo hi b l.
Proof.
  induction l as [|x l IH]; intros b H; [cbn; auto|]. cbn [isortedb] in H.
  apply andb_true_iff in H. destruct H as [H H3]. apply andb_true_iff in H. destruct H as [H1 H2].
  cbn [isorted]. split; [apply Z.ltb_lt; auto|]. split; [apply Z.leb_le; auto | apply IH; auto].
Qed.
Theorem wf14b_sound sels : wf14b sels = true -> wf14 sels.
Proof.
  unfold wf14b, wf14. intros H. apply andb_true_iff in H. destruct H as [H1 H2].
  split; [apply isortedb_sound; auto|]. apply Forall_forall. intros r Hr.
  rewrite forallb_forall in H2. specialize (H2 r Hr). unfold wf_selb in H2. apply andb_true_iff in H2. destruct H2 as [Hd Hn].
  split.
  - intros ranges E. rewrite E in Hd. apply isortedb_sound; auto.
  - intros maps E. rewrite E in Hn. apply isortedb_sound; auto.
Qed.
