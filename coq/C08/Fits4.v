(* C08 — fits4: exactly when the format-4 builder (create_format_4) and its compile-time length
   computation (Cmap4::compute_length) do not panic *)
From Coq Require Import ZArith List Bool Lia.
From FV Require Import Lib.RustInt C08.Model C08.Proofs.
Import ListNotations.
Open Scope Z_scope.
Ltac Zify.zify_post_hook ::= Z.div_mod_to_equations.

Notation d0 := ((0, 0) : Z * Z) (only parsing).

(* glyph_id_array entries a segment contributes *)
Definition seg_ids (s : Seg) : nat :=
  match id_delta s with Some _ => O | None => (end_ix s - start_ix s + 1)%nat end.
Fixpoint total_ids (segs : list Seg) : nat :=
  match segs with [] => O | s :: tl => (seg_ids s + total_ids tl)%nat end.
(* every id_range_offset fits u16 *)
Fixpoint fits_loop (nseg i cur_n : nat) (segs : list Seg) : bool :=
  match segs with
  | [] => true
  | s :: tl =>
      match id_delta s with
      | Some _ => fits_loop nseg (S i) cur_n tl
      | None => (Z.of_nat (nseg - i + cur_n) * 2 <=? 65535) && fits_loop nseg (S i) (cur_n + seg_ids s) tl
      end
  end.
(* the format-4 limits of a sorted mapping: all range offsets and the subtable length fit 16 bits *)
Definition fits4 (ms : list (Z * Z)) : bool :=
  match compute_segments ms with
  | None => false
  | Some [] => true
  | Some segs =>
      let nseg := S (length segs) in
      fits_loop nseg 0 0 segs && (16 + Z.of_nat nseg * 8 + Z.of_nat (total_ids segs) * 2 <=? 65535)
  end.

Definition gid16 (p : Z * Z) : Prop := 0 <= snd p <= 65535.

Lemma f4_loop_fits ms nseg segs k l : segs_cover segs k l ->
  forall post i cur_n, skipn k ms = l ++ post -> Forall gid16 l -> (i + length segs <= nseg)%nat ->
  (fits_loop nseg i cur_n segs = true ->
     exists rows gids, f4_loop ms nseg i cur_n segs = Some (rows, gids) /\ length gids = total_ids segs) /\
  (fits_loop nseg i cur_n segs = false -> f4_loop ms nseg i cur_n segs = None).
Proof.
  induction 1 as [k | s segs k chunk rest Hne Hs He Hsc Hec Hcp Hd Hcov IH];
    intros post i cur_n Hsk HF Hi.
  - cbn. split; [intros _; exists [], []; auto | discriminate].
  - cbn [f4_loop fits_loop total_ids].
    assert (E1 : nth_error ms (start_ix s) = Some (hd d0 chunk)).
    { rewrite Hs. replace k with (k + 0)%nat at 1 by lia. rewrite <- nth_error_skipn, Hsk, <- app_assoc.
      apply nth_error_hd; auto. }
    assert (E2 : nth_error ms (end_ix s) = Some (last chunk d0)).
    { rewrite He. replace (k + length chunk - 1)%nat with (k + (length chunk - 1))%nat
        by (destruct chunk; [congruence | cbn; lia]).
      rewrite <- nth_error_skipn, Hsk, <- app_assoc. apply nth_error_last; auto. }
    rewrite E1, E2. cbn [obind].
    assert (HFc : Forall gid16 chunk /\ Forall gid16 rest) by (apply Forall_app; auto).
    destruct HFc as [HFc HFr].
    assert (Hsk' : skipn (k + length chunk) ms = rest ++ post).
    { rewrite skipn_add, Hsk, <- app_assoc. rewrite skipn_app, skipn_all, Nat.sub_diag. reflexivity. }
    assert (Hlen : (0 < length chunk)%nat) by (destruct chunk; [congruence | cbn; lia]).
    cbn [length] in Hi.
    unfold seg_ids. destruct (id_delta s) as [d|] eqn:Ed.
    + cbn zeta. destruct (IH post (S i) cur_n Hsk' HFr ltac:(lia)) as [IHt IHf]. split.
      * intros Hf. destruct (IHt Hf) as (rows & gids & Er & Hl). rewrite Er. cbn [obind fst snd].
        eexists _, _. split; [reflexivity|]. cbn. exact Hl.
      * intros Hf. rewrite (IHf Hf). reflexivity.
    + assert (Eni : Nat.ltb nseg i = false) by (apply Nat.ltb_ge; lia). rewrite Eni.
      assert (Hids : (end_ix s - start_ix s + 1)%nat = length chunk) by (rewrite Hs, He; lia).
      rewrite Hids.
      assert (Hsl : slice ms (start_ix s) (length chunk) = chunk).
      { unfold slice. rewrite Hs, Hsk, <- app_assoc. apply firstn_exact. }
      set (chkids := forallb (in_u 16)).
      unfold chk_u, in_u. change (2 ^ 16) with 65536.
      destruct (Z.leb_spec (Z.of_nat (nseg - i + cur_n) * 2) 65535) as [Hro|Hro]; cbn [andb].
      * assert (Eb : (0 <=? Z.of_nat (nseg - i + cur_n) * 2) && (Z.of_nat (nseg - i + cur_n) * 2 <? 65536) = true)
          by (apply andb_true_iff; split; [apply Z.leb_le | apply Z.ltb_lt]; lia).
        rewrite Eb. cbn [obind].
        assert (E3 : Nat.ltb (end_ix s) (start_ix s) = false) by (apply Nat.ltb_ge; lia). rewrite E3.
        assert (E4 : Nat.leb (length ms) (end_ix s) = false).
        { apply Nat.leb_gt. apply nth_error_Some. congruence. }
        rewrite E4, Hsl.
        assert (E5 : chkids (map snd chunk) = true).
        { unfold chkids. apply forallb_forall. intros x Hx. apply in_map_iff in Hx. destruct Hx as [p [<- Hp]].
          rewrite Forall_forall in HFc. specialize (HFc p Hp). unfold gid16 in HFc. unfold in_u. change (2 ^ 16) with 65536. lia. }
        rewrite E5. cbn [negb]. rewrite map_length.
        destruct (IH post (S i) (cur_n + length chunk)%nat Hsk' HFr ltac:(lia)) as [IHt IHf]. split.
        -- intros Hf. destruct (IHt Hf) as (rows & gids & Er & Hl). rewrite Er. cbn [obind fst snd].
           eexists _, _. split; [reflexivity|]. rewrite app_length, map_length, Hl. reflexivity.
        -- intros Hf. rewrite (IHf Hf). reflexivity.
      * split; [discriminate|]. intros _.
        assert (Eb : (0 <=? Z.of_nat (nseg - i + cur_n) * 2) && (Z.of_nat (nseg - i + cur_n) * 2 <? 65536) = false)
          by (apply andb_false_iff; right; apply Z.ltb_ge; lia).
        rewrite Eb. reflexivity.
Qed.

(* outcome of building + compiling the format-4 subtable *)
Definition f4_ok (ms : list (Z * Z)) : bool :=
  match create_format_4 ms with
  | None => false
  | Some o4 => negb (dump_panics o4)
  end.

Lemma valid_gid16 l : Forall valid l -> Forall gid16 l.
Proof. apply Forall_impl. intros p [_ H]. unfold gid16. lia. Qed.

Theorem fits4_exact ms : asc ms -> Forall valid ms -> f4_ok ms = fits4 ms.
Proof.
  intros Ha HV. unfold f4_ok, fits4, create_format_4.
  destruct (compute_segments_cover ms) as (segs & Es & Hcov & Hnil). rewrite Es. cbn [obind].
  assert (Hg : forallb (fun p => snd p <=? 65535) ms = true).
  { apply forallb_forall. intros p Hp. rewrite Forall_forall in HV. destruct (HV p Hp) as [_ H]. lia. }
  rewrite Hg. cbn [negb].
  destruct segs as [|s0 segs']; [reflexivity|]. set (segs := s0 :: segs') in *.
  destruct (bmp_prefix_split ms) as (post & Hsplit & _).
  assert (HVl : Forall gid16 (bmp_prefix ms)).
  { apply valid_gid16. rewrite Hsplit in HV. apply Forall_app in HV. tauto. }
  destruct (f4_loop_fits ms (S (length segs)) segs O (bmp_prefix ms) Hcov post O O Hsplit HVl ltac:(lia)) as [Ft Ff].
  destruct (fits_loop (S (length segs)) 0 0 segs) eqn:Efl.
  - destruct (Ft eq_refl) as (rows & gids & Er & Hl). rewrite Er. cbn [obind fst snd andb].
    pose proof (f4_loop_length _ _ _ _ _ _ _ Er) as Hlen.
    unfold dump_panics, cmap4_compute_length. cbn [endc gida]. rewrite map_length, app_length. cbn [length].
    rewrite Hl, Hlen. unfold chk_u, in_u. change (2 ^ 16) with 65536.
    replace (length segs + 1)%nat with (S (length segs)) by lia.
    destruct (Z.leb_spec (16 + Z.of_nat (S (length segs)) * 8 + Z.of_nat (total_ids segs) * 2) 65535) as [Hc|Hc].
    + assert (Eb : (0 <=? 16 + Z.of_nat (S (length segs)) * 8 + Z.of_nat (total_ids segs) * 2)
                   && (16 + Z.of_nat (S (length segs)) * 8 + Z.of_nat (total_ids segs) * 2 <? 65536) = true)
        by (apply andb_true_iff; split; [apply Z.leb_le | apply Z.ltb_lt]; lia).
      rewrite Eb. reflexivity.
    + assert (Eb : (0 <=? 16 + Z.of_nat (S (length segs)) * 8 + Z.of_nat (total_ids segs) * 2)
                   && (16 + Z.of_nat (S (length segs)) * 8 + Z.of_nat (total_ids segs) * 2 <? 65536) = false)
        by (apply andb_false_iff; right; apply Z.ltb_ge; lia).
      rewrite Eb. reflexivity.
  - rewrite (Ff eq_refl). reflexivity.
Qed.

(* whole builder: within fits4 a valid conflict-free mapping builds and compiles *)
Theorem format4_build_total_lemma input : valid_input input -> conflict_free input -> fits4 (canon input) = true ->
  exists o4 o12, from_mappings input = Built o4 o12 /\ dump_panics o4 = false.
Proof.
  intros HV Hcf Hfit. pose proof (conflict_free_no_conflict _ Hcf) as Hnc.
  pose proof (fits4_exact _ (canon_asc _ Hnc) (valid_canon _ HV)) as Hex. rewrite Hfit in Hex.
  unfold f4_ok in Hex. unfold from_mappings. fold (canon input). rewrite Hnc.
  destruct (create_format_4 (canon input)) as [o4|]; [|discriminate].
  apply negb_true_iff in Hex.
  destruct (existsb (fun p => 65535 <? fst p) (canon input)) eqn:Ex.
  - destruct (canon input) as [|[c0 g0] l] eqn:Ec; [discriminate|]. cbn [create_format_12].
    eexists _, _. split; [reflexivity | exact Hex].
  - eexists _, _. split; [reflexivity | exact Hex].
Qed.

(* ... and beyond fits4 it panics: in from_mappings (range offset) or when the table is compiled (length) *)
Theorem format4_build_panics_beyond_lemma input : valid_input input -> conflict_free input -> fits4 (canon input) = false ->
  from_mappings input = Panic \/ exists o4 o12, from_mappings input = Built o4 o12 /\ dump_panics o4 = true.
Proof.
  intros HV Hcf Hfit. pose proof (conflict_free_no_conflict _ Hcf) as Hnc.
  pose proof (fits4_exact _ (canon_asc _ Hnc) (valid_canon _ HV)) as Hex. rewrite Hfit in Hex.
  unfold f4_ok in Hex. unfold from_mappings. fold (canon input). rewrite Hnc.
  destruct (create_format_4 (canon input)) as [o4|]; [|left; reflexivity].
  apply negb_false_iff in Hex. right.
  destruct (existsb (fun p => 65535 <? fst p) (canon input)) eqn:Ex.
  - destruct (canon input) as [|[c0 g0] l] eqn:Ec; [discriminate|]. cbn [create_format_12].
    eexists _, _. split; [reflexivity | exact Hex].
  - eexists _, _. split; [reflexivity | exact Hex].
Qed.

(* n isolated BMP code points 0x100+3i -> glyph 1+i *)
Definition isolated (n : nat) : list (Z * Z) := map (fun i => (256 + 3 * Z.of_nat i, 1 + Z.of_nat i)) (seq 0 n).

Lemma isolated_valid n : Z.of_nat n <= 9000 -> valid_input (isolated n).
Proof.
  intros Hn. unfold valid_input, isolated. apply Forall_forall. intros p Hp.
  apply in_map_iff in Hp. destruct Hp as [i [<- Hi]]. apply in_seq in Hi. unfold valid. cbn [fst snd]. lia.
Qed.
Lemma isolated_conflict_free n : conflict_free (isolated n).
Proof.
  intros c g1 g2 H1 H2. unfold isolated in *. apply in_map_iff in H1, H2.
  destruct H1 as [i [E1 _]], H2 as [j [E2 _]]. pose proof (f_equal fst E1) as A1. pose proof (f_equal snd E1) as B1.
  pose proof (f_equal fst E2) as A2. pose proof (f_equal snd E2) as B2. cbn [fst snd] in A1, B1, A2, B2. lia.
Qed.

(* the limit is sharp: 8188 isolated points (8189 segments, 65 528 bytes) fit, 8189 do not *)
Lemma fits4_8188 : fits4 (canon (isolated 8188)) = true.
Proof. vm_compute. reflexivity. Qed.
Lemma fits4_8189 : fits4 (canon (isolated 8189)) = false.
Proof. vm_compute. reflexivity. Qed.

Theorem format4_build_refuted_beyond_fits4_lemma :
  exists input, valid_input input /\ conflict_free input /\ fits4 (canon input) = false /\
    (from_mappings input = Panic \/ exists o4 o12, from_mappings input = Built o4 o12 /\ dump_panics o4 = true).
Proof.
  exists (isolated 8189).
  assert (Hv : valid_input (isolated 8189)) by (apply isolated_valid; vm_compute; discriminate).
  assert (Hc := isolated_conflict_free 8189).
  split; [exact Hv|]. split; [exact Hc|]. split; [exact fits4_8189|].
  apply format4_build_panics_beyond_lemma; [exact Hv | exact Hc | exact fits4_8189].
Qed.
