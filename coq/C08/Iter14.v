(* C08 — Cmap14Iter / Charmap::variant_mappings: the enumeration is the expansion of the default and
   non-default tables; on well-formed tables it lists exactly what map_variant answers, each
   (code point, selector) once *)
From Coq Require Import ZArith List Bool Lia.
From FV Require Import Lib.RustInt C08.Model C08.Basics C08.Var14.
Import ListNotations.
Open Scope Z_scope.

(* default ranges expand to start ..= start + additional_count *)
Lemma in_default_uvs_iter c rs : In c (default_uvs_iter rs) <-> existsb (in_range c) rs = true.
Proof.
  unfold default_uvs_iter. rewrite in_flat_map, existsb_exists. split.
  - intros [r [Hr Hc]]. exists r. split; auto. apply zrange_in in Hc. unfold in_range. lia.
  - intros [r [Hr Hc]]. exists r. split; auto. apply zrange_in. unfold in_range in Hc. lia.
Qed.

(* no code point has both a default and a non-default entry under the same selector (the format's rule) *)
Definition dn_disjoint (r : Sel) : Prop :=
  forall ranges maps, snd (fst r) = Some ranges -> snd r = Some maps ->
  forall m, In m maps -> existsb (in_range (fst m)) ranges = false.

(* strictly ascending integer lists *)
Fixpoint zasc (lo : Z) (l : list Z) : Prop := match l with [] => True | x :: t => lo <= x /\ zasc (x + 1) t end.
Lemma zasc_weaken l : forall a b, b <= a -> zasc a l -> zasc b l.
Proof. destruct l; cbn; intros; [auto|]. split; [lia | tauto]. Qed.
Lemma zasc_in l : forall lo x, zasc lo l -> In x l -> lo <= x.
Proof.
  induction l as [|a l IH]; intros lo x H Hx; [destruct Hx|]. cbn in H. destruct H as [H1 H2].
  destruct Hx as [<-|Hx]; [lia|]. specialize (IH _ _ H2 Hx). lia.
Qed.
Lemma zasc_nodup l : forall lo, zasc lo l -> NoDup l.
Proof.
  induction l as [|a l IH]; intros lo H; [constructor|]. cbn in H. destruct H as [H1 H2]. constructor; [|eapply IH; eauto].
  intros Hin. pose proof (zasc_in _ _ _ H2 Hin). lia.
Qed.
Lemma zasc_app l1 : forall lo mid l2, zasc lo l1 -> (forall x, In x l1 -> x < mid) -> lo <= mid -> zasc mid l2 -> zasc lo (l1 ++ l2).
Proof.
  induction l1 as [|a l1 IH]; intros lo mid l2 H1 Hb Hlm H2.
  - cbn. eapply zasc_weaken; eauto.
  - cbn [app zasc] in *. destruct H1 as [Ha Hr]. split; auto.
    apply (IH _ mid); auto. intros q Hq. apply Hb. right. auto. specialize (Hb a (or_introl eq_refl)). lia.
Qed.
Lemma zasc_zrange_n n : forall a, zasc a (zrange_n a n).
Proof. induction n as [|n IH]; intros a; cbn; auto. split; [lia | apply IH]. Qed.

Lemma default_zasc (rs : list (Z * Z)) : forall b, isorted fst (fun x : Z * Z => fst x + snd x) b rs -> zasc (b + 1) (default_uvs_iter rs).
Proof.
  induction rs as [|r t IH]; intros b H; [cbn; auto|]. cbn [isorted] in H. destruct H as (H1 & H2 & H3).
  unfold default_uvs_iter. cbn [flat_map]. fold (default_uvs_iter t).
  apply (zasc_app _ _ (fst r + snd r + 1)).
  - eapply zasc_weaken; [|apply zasc_zrange_n]. lia.
  - intros x Hx. apply zrange_in in Hx. lia.
  - lia.
  - apply IH. exact H3.
Qed.
Lemma maps_zasc (ms : list (Z * Z)) : forall b, isorted fst fst b ms -> zasc (b + 1) (map fst ms).
Proof.
  induction ms as [|m t IH]; intros b H; [cbn; auto|]. cbn [isorted] in H. destruct H as (H1 & H2 & H3).
  cbn [map zasc]. split; [lia | apply IH; auto].
Qed.
Lemma isorted_asc (ms : list (Z * Z)) : forall b, isorted fst fst b ms -> asc ms.
Proof.
  induction ms as [|m t IH]; intros b H; [cbn; auto|]. cbn [isorted] in H. destruct H as (H1 & H2 & H3).
  destruct t as [|m2 t]; [cbn; auto|]. apply adj_cons2_intro. split; [|eapply IH; eauto].
  cbn [isorted] in H3. lia.
Qed.

Lemma isorted_head_lt {A} (lo hi : A -> Z) t : forall b, isorted lo hi b t -> forall y, In y t -> b < lo y.
Proof.
  induction t as [|x t IH]; intros b H y Hy; [destruct Hy|]. cbn [isorted] in H. destruct H as (H1 & H2 & H3).
  destruct Hy as [<-|Hy]; [auto|]. specialize (IH _ H3 y Hy). lia.
Qed.

Lemma find_by_selector sels : forall b, isorted sel_of sel_of b sels -> forall r, In r sels ->
  find (fun x => sel_of x =? sel_of r) sels = Some r.
Proof.
  induction sels as [|x t IH]; intros b H r Hr; [destruct Hr|]. cbn [isorted] in H. destruct H as (H1 & H2 & H3).
  cbn [find]. destruct Hr as [<-|Hr]; [rewrite Z.eqb_refl; reflexivity|].
  pose proof (isorted_head_lt _ _ _ _ H3 r Hr).
  destruct (Z.eqb_spec (sel_of x) (sel_of r)); [lia|]. eapply IH; eauto.
Qed.

Lemma NoDup_app' {A} (l1 l2 : list A) : NoDup l1 -> NoDup l2 -> (forall x, In x l1 -> ~ In x l2) -> NoDup (l1 ++ l2).
Proof.
  induction l1 as [|a l1 IH]; intros H1 H2 Hd; [exact H2|]. inversion H1; subst. cbn. constructor.
  - intros Hin. apply in_app_or in Hin. destruct Hin; [contradiction|]. apply (Hd a); [left; auto | auto].
  - apply IH; auto. intros x Hx. apply Hd. right. auto.
Qed.

Lemma NoDup_map_pair (s : Z) (l : list Z) : NoDup l -> NoDup (map (fun c => (c, s)) l).
Proof.
  induction 1 as [|a l Hn Hd IH]; cbn; constructor; auto.
  intros Hin. apply in_map_iff in Hin. destruct Hin as [x [E Hx]]. inversion E; subst. contradiction.
Qed.

Definition key (t : Z * Z * option Z) : Z * Z := (fst (fst t), snd (fst t)).

Lemma sel_iter_in r c sel v : In (c, sel, v) (sel_iter r) <->
  sel = sel_of r /\
  ((v = None /\ exists rs, snd (fst r) = Some rs /\ existsb (in_range c) rs = true) \/
   (exists g ms, v = Some g /\ snd r = Some ms /\ In (c, g) ms)).
Proof.
  destruct r as [[s d] n]. unfold sel_iter, sel_of. cbn [fst snd]. rewrite in_app_iff, !in_map_iff. split.
  - intros [[x [E Hx]]|[m [E Hm]]]; inversion E; subst; split; auto.
    + left. split; auto. destruct d as [rs|]; [|destruct Hx]. exists rs. split; auto. apply in_default_uvs_iter; auto.
    + right. destruct n as [ms|]; [|destruct Hm]. exists (snd m), ms. rewrite <- surjective_pairing. auto.
  - intros [-> [[-> [rs [-> Hc]]]|[g [ms [-> [-> Hm]]]]]].
    + left. exists c. split; auto. apply in_default_uvs_iter; auto.
    + right. exists (c, g). auto.
Qed.

Lemma sel_iter_keys_nodup r : wf_sel r -> dn_disjoint r -> NoDup (map key (sel_iter r)) /\
  forall k, In k (map key (sel_iter r)) -> snd k = sel_of r.
Proof.
  intros [Wd Wn] Hdn. destruct r as [[s d] n]. unfold sel_iter, sel_of, dn_disjoint in *. cbn [fst snd] in *.
  rewrite map_app, !map_map. unfold key. cbn [fst snd]. split.
  - apply NoDup_app'.
    + destruct d as [rs|]; [|constructor]. apply NoDup_map_pair.
      eapply zasc_nodup. apply default_zasc. apply Wd. reflexivity.
    + destruct n as [ms|]; [|constructor].
      rewrite <- (map_map fst (fun c => (c, s))). apply NoDup_map_pair.
      eapply zasc_nodup. apply maps_zasc. apply Wn. reflexivity.
    + intros k H1 H2. apply in_map_iff in H1, H2. destruct H1 as [c [<- Hc]], H2 as [m [E Hm]]. inversion E; subst.
      destruct d as [rs|]; [|destruct Hc]. destruct n as [ms|]; [|destruct Hm].
      apply in_default_uvs_iter in Hc. rewrite (Hdn rs ms eq_refl eq_refl m Hm) in Hc. discriminate.
  - intros k Hk. apply in_app_or in Hk. destruct Hk as [Hk|Hk]; apply in_map_iff in Hk; destruct Hk as [x [<- _]]; reflexivity.
Qed.

Theorem cmap14_iter_exact_lemma sels : wf14 sels -> Forall dn_disjoint sels ->
  (forall c sel v, In (c, sel, v) (cmap14_iter sels) <-> cmap14_map_variant sels c sel = Some v) /\
  NoDup (map key (cmap14_iter sels)).
Proof.
  intros Hwf Hdn. pose proof Hwf as [Hs Hw]. split.
  - intros c sel v. rewrite (cmap14_answers_lemma _ Hwf). unfold cmap14_iter, cmap14_spec. rewrite in_flat_map. split.
    + intros [r [Hr Hin]]. apply sel_iter_in in Hin. destruct Hin as [-> Hcase].
      rewrite (find_by_selector _ _ Hs r Hr). destruct r as [[s d] n]. cbn [fst snd] in Hcase.
      rewrite Forall_forall in Hw, Hdn. destruct (Hw _ Hr) as [Wd Wn]. pose proof (Hdn _ Hr) as Hd. unfold dn_disjoint in Hd.
      cbn [fst snd] in Wd, Wn, Hd.
      destruct Hcase as [[-> [rs [-> Hc]]]|[g [ms [-> [-> Hm]]]]].
      * rewrite Hc. reflexivity.
      * assert (Hnd : (match d with Some ranges => existsb (in_range c) ranges | None => false end) = false).
        { destruct d as [rs|]; [|reflexivity]. apply (Hd rs ms eq_refl eq_refl (c, g) Hm). }
        rewrite Hnd. assert (Ea : assoc c ms = Some g) by (apply (asc_assoc _ (isorted_asc _ _ (Wn _ eq_refl))); auto).
        rewrite Ea. reflexivity.
    + destruct (find (fun r => sel_of r =? sel) sels) as [[[s d] n]|] eqn:Ef; [|discriminate].
      apply find_some in Ef. destruct Ef as [Hr Es]. apply Z.eqb_eq in Es. unfold sel_of in Es. cbn in Es. subst s.
      intros Hv. exists (sel, d, n). split; auto. apply sel_iter_in. unfold sel_of. cbn [fst snd]. split; auto.
      destruct (match d with Some ranges => existsb (in_range c) ranges | None => false end) eqn:Ed.
      * inversion Hv; subst. left. split; auto. destruct d as [rs|]; [|discriminate]. eauto.
      * destruct n as [ms|]; [|discriminate]. destruct (assoc c ms) as [g|] eqn:Ea; [|discriminate].
        inversion Hv; subst. right. exists g, ms. repeat split; auto. apply assoc_in; auto.
  - clear Hwf. revert Hs Hw Hdn. generalize (-1). induction sels as [|r t IH]; intros b Hs Hw Hdn; [constructor|].
    cbn [isorted] in Hs. destruct Hs as (H1 & H2 & H3). inversion Hw; subst. inversion Hdn; subst.
    unfold cmap14_iter. cbn [flat_map]. fold (cmap14_iter t). rewrite map_app.
    destruct (sel_iter_keys_nodup r H4 H6) as [N1 N2].
    apply NoDup_app'; auto.
    + eapply IH; eauto.
    + intros k Hk1 Hk2. pose proof (N2 k Hk1) as E1.
      unfold cmap14_iter in Hk2. apply in_map_iff in Hk2. destruct Hk2 as [x [<- Hx]]. apply in_flat_map in Hx.
      destruct Hx as [r' [Hr' Hx']]. rewrite Forall_forall in H5, H7.
      destruct (sel_iter_keys_nodup r' (H5 _ Hr') (H7 _ Hr')) as [_ N2'].
      pose proof (N2' (key x) (in_map key _ _ Hx')) as E2.
      pose proof (isorted_head_lt _ _ _ _ H3 r' Hr'). lia.
Qed.

Theorem dn14b_sound sels : dn14b sels = true -> Forall dn_disjoint sels.
Proof.
  unfold dn14b. rewrite forallb_forall. intros H. apply Forall_forall. intros r Hr. specialize (H r Hr).
  intros rs ms E1 E2 m Hm. rewrite E1, E2 in H. rewrite forallb_forall in H. specialize (H m Hm).
  apply negb_true_iff in H. exact H.
Qed.
