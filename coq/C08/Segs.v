(* C08 — Format4SegmentComputer: its output partitions the BMP prefix of the sorted mapping into
   runs of consecutive code points; delta segments are runs of consecutive glyph ids too.  No
   assertion of the Rust code (combine's assert_eq!) can fail. *)
From Coq Require Import ZArith List Bool Lia.
From FV Require Import Lib.RustInt C08.Model C08.Basics.
Import ListNotations.
Open Scope Z_scope.

Notation d0 := ((0, 0) : pair) (only parsing).

Lemma firstn_exact {A} (l1 l2 : list A) : firstn (length l1) (l1 ++ l2) = l1.
Proof. rewrite firstn_app, Nat.sub_diag, firstn_all. cbn. apply app_nil_r. Qed.

Lemma last_snoc (l : list pair) x d : last (l ++ [x]) d = x.
Proof. apply last_last. Qed.

Lemma last_app (l1 l2 : list pair) d : l2 <> [] -> last (l1 ++ l2) d = last l2 d.
Proof.
  intros H. induction l1 as [|a l1 IH]; [reflexivity|].
  cbn [app]. destruct (l1 ++ l2) eqn:E.
  - destruct l1; [cbn in E; congruence | discriminate].
  - rewrite <- IH. reflexivity.
Qed.

Lemma hd_app (l1 l2 : list pair) d : l1 <> [] -> hd d (l1 ++ l2) = hd d l1.
Proof. destruct l1; [congruence | reflexivity]. Qed.

Lemma nth_firstn_lt {A} (l : list A) n m d : (n < m)%nat -> nth n (firstn m l) d = nth n l d.
Proof.
  revert n m. induction l as [|a l IH]; intros n m H.
  - rewrite firstn_nil. reflexivity.
  - destruct m; [lia|]. destruct n; [reflexivity|]. cbn. apply IH. lia.
Qed.

Lemma adj_firstn R (l : list pair) n : adj R l -> adj R (firstn n l).
Proof. intros H. rewrite <- (firstn_skipn n l) in H. eapply adj_app_l; eauto. Qed.

(* ---------- next_possible_segment ---------- *)
Lemma nps_loop_spec rest : forall i gio pcp pgid seen n g,
  length seen = S i -> last seen d0 = (pcp, pgid) -> cp_run seen -> (gio = true -> gid_run seen) ->
  nps_loop i gio pcp pgid rest = (n, g) ->
  (n < length seen + length rest)%nat /\ cp_run (firstn (S n) (seen ++ rest)) /\
  (g = true -> gid_run (firstn (S n) (seen ++ rest))).
Proof.
  induction rest as [|[cp gid] tl IH]; intros i gio pcp pgid seen n g Hlen Hlast Hcp Hgid E.
  - cbn in E. inversion E; subst n g. rewrite app_nil_r, <- Hlen, firstn_all. split; [cbn; lia|]. auto.
  - assert (Hstop : (i < length seen + length ((cp, gid) :: tl))%nat /\
                    cp_run (firstn (S i) (seen ++ (cp, gid) :: tl)) /\
                    (gio = true -> gid_run (firstn (S i) (seen ++ (cp, gid) :: tl)))).
    { rewrite <- Hlen, firstn_exact. split; [cbn; lia|]. auto. }
    assert (Hseen : seen <> []) by (destruct seen; [discriminate | congruence]).
    assert (Hnext : forall gio', cp = pcp + 1 -> (gio' = true -> gid_run (seen ++ [(cp, gid)])) ->
                     nps_loop (S i) gio' cp gid tl = (n, g) ->
                     (n < length seen + length ((cp, gid) :: tl))%nat /\
                     cp_run (firstn (S n) (seen ++ (cp, gid) :: tl)) /\
                     (g = true -> gid_run (firstn (S n) (seen ++ (cp, gid) :: tl)))).
    { intros gio' Hc Hg' E'.
      specialize (IH (S i) gio' cp gid (seen ++ [(cp, gid)]) n g).
      rewrite app_length, last_snoc, <- app_assoc in IH. cbn [length app] in IH.
      replace (length seen + 1 + length tl)%nat with (length seen + S (length tl))%nat in IH by lia.
      apply IH; auto; try lia.
      apply adj_app; [exact Hcp | cbn; auto |].
      intros a b _ _ Ea Eb; subst a b. rewrite Hlast. cbn. lia. }
    cbn [nps_loop] in E.
    destruct (Z.eqb_spec cp (pcp + 1)) as [Hc|Hc]; cbn [negb] in E.
    2:{ inversion E; subst; auto. }
    destruct (Z.eqb_spec (pgid + 1) gid) as [Hg|Hg]; cbn [negb] in E.
    + destruct gio; cbn [negb] in E.
      * apply (Hnext true); auto. intros _. apply adj_app; [apply Hgid; reflexivity | cbn; auto |].
        intros a b _ _ Ea Eb; subst a b. rewrite Hlast. cbn. lia.
      * destruct (Nat.eqb_spec i 0) as [Hi|Hi].
        -- apply (Hnext true); auto. intros _. subst i.
           destruct seen as [|x [|y seen]]; cbn in Hlen; try lia. cbn in Hlast. subst x. cbn. lia.
        -- inversion E; subst n g. replace (S (pred i)) with i by lia. split; [cbn; lia|].
           split; [|discriminate]. rewrite firstn_app. replace (i - length seen)%nat with O by lia.
           cbn [firstn]. rewrite app_nil_r. apply adj_firstn; auto.
    + destruct gio.
      * inversion E; subst; auto.
      * apply (Hnext false); auto. discriminate.
Qed.

(* ---------- the covering invariant ---------- *)
Inductive segs_cover : list Seg -> nat -> list pair -> Prop :=
| sc_nil k : segs_cover [] k []
| sc_cons s segs k chunk rest :
    chunk <> [] -> start_ix s = k -> end_ix s = (k + length chunk - 1)%nat ->
    start_char s = fst (hd d0 chunk) -> end_char s = fst (last chunk d0) ->
    cp_run chunk ->
    (forall d, id_delta s = Some d -> d = snd (hd d0 chunk) - fst (hd d0 chunk) /\ gid_run chunk) ->
    segs_cover segs (k + length chunk) rest ->
    segs_cover (s :: segs) k (chunk ++ rest).

Lemma sc_cons' s segs k l chunk rest : l = chunk ++ rest ->
    chunk <> [] -> start_ix s = k -> end_ix s = (k + length chunk - 1)%nat ->
    start_char s = fst (hd d0 chunk) -> end_char s = fst (last chunk d0) ->
    cp_run chunk ->
    (forall d, id_delta s = Some d -> d = snd (hd d0 chunk) - fst (hd d0 chunk) /\ gid_run chunk) ->
    segs_cover segs (k + length chunk) rest ->
    segs_cover (s :: segs) k l.
Proof. intros ->. apply sc_cons. Qed.

Lemma raw_segments_cover fuel : forall l k, (length l <= fuel)%nat -> segs_cover (raw_segments fuel k l) k l.
Proof.
  induction fuel as [|f IH]; intros l k Hl.
  - destruct l; [constructor | cbn in Hl; lia].
  - destruct l as [|[pcp pgid] rest]; [constructor|].
    cbn [raw_segments]. destruct (nps_loop 0 false pcp pgid rest) as [n gio] eqn:E.
    pose proof (nps_loop_spec rest 0 false pcp pgid [(pcp, pgid)] n gio eq_refl eq_refl I ltac:(discriminate) E)
      as (Hn & Hcp & Hg).
    cbn [length app] in Hn, Hcp, Hg. cbn [length] in Hl.
    assert (Hlen : length (firstn (S n) ((pcp, pgid) :: rest)) = S n)
      by (apply firstn_length_le; cbn [length]; lia).
    apply (sc_cons' _ _ _ _ (firstn (S n) ((pcp, pgid) :: rest)) (skipn (S n) ((pcp, pgid) :: rest))).
    + symmetry. apply firstn_skipn.
    + cbn. discriminate.
    + reflexivity.
    + cbn [make_segment end_ix]. rewrite Hlen. lia.
    + reflexivity.
    + cbn [make_segment end_char]. rewrite last_nth by (cbn; discriminate). rewrite Hlen.
      replace (S n - 1)%nat with n by lia. rewrite nth_firstn_lt by lia. reflexivity.
    + exact Hcp.
    + intros d Hd. cbn [make_segment id_delta] in Hd.
      destruct (gio || Nat.eqb n 0) eqn:Eg; [|discriminate]. inversion Hd; subst d. split; [reflexivity|].
      apply orb_true_iff in Eg. destruct Eg as [->|Eg]; [auto|].
      apply Nat.eqb_eq in Eg. subst n. cbn. auto.
    + rewrite Hlen. replace (k + S n)%nat with (k + n + 1)%nat by lia. apply IH.
      rewrite skipn_length. cbn [length]. lia.
Qed.

Lemma cover_next_ix a b t k l : segs_cover (a :: b :: t) k l -> start_ix b = S (end_ix a).
Proof.
  intros H. inversion H as [|? ? ? c1 r1 Hn1 Hs1 He1 Hsc1 Hec1 Hcp1 Hd1 H1]; subst.
  inversion H1 as [|? ? ? c2 r2 Hn2 Hs2 He2 Hsc2 Hec2 Hcp2 Hd2 H2]; subst.
  destruct c1; [congruence|]. cbn [length] in *. lia.
Qed.

Lemma cover_combine prev cur tl k l pc :
  segs_cover (prev :: cur :: tl) k l -> can_combine prev cur = true -> seg_combine prev cur = Some pc ->
  segs_cover (pc :: tl) k l.
Proof.
  intros H Hc Hp. inversion H as [|? ? ? c1 r1 Hn1 Hs1 He1 Hsc1 Hec1 Hcp1 Hd1 H1]; subst.
  inversion H1 as [|? ? ? c2 r2 Hn2 Hs2 He2 Hsc2 Hec2 Hcp2 Hd2 H2]; subst.
  unfold seg_combine in Hp. destruct (Nat.eqb (start_ix cur) (S (end_ix prev))); [|discriminate].
  inversion Hp; subst pc; clear Hp.
  unfold can_combine in Hc. apply Z.eqb_eq in Hc.
  rewrite app_assoc. apply sc_cons; cbn [start_ix end_ix start_char end_char id_delta]; auto.
  - destruct c1; [congruence | discriminate].
  - rewrite He2, app_length. destruct c1; [congruence|]. cbn [length]. lia.
  - rewrite hd_app; auto.
  - rewrite last_app; auto.
  - apply adj_app; [exact Hcp1 | exact Hcp2 |]. intros a b _ _ Ea Eb; subst a b. lia.
  - discriminate.
  - rewrite app_length. rewrite Nat.add_assoc. exact H2.
Qed.

Lemma should_combine_spec prev cur tl k l : segs_cover (prev :: cur :: tl) k l ->
  exists b, should_combine cur prev (hd_error tl) = Some b /\ (b = true -> can_combine prev cur = true).
Proof.
  intros H. unfold should_combine.
  destruct (can_combine prev cur) eqn:Ec; cbn [negb]; [|exists false; split; [auto | discriminate]].
  pose proof (cover_next_ix _ _ _ _ _ H) as Hix.
  unfold seg_combine at 1. rewrite Hix, Nat.eqb_refl. cbn [obind].
  match goal with |- context [if ?c then _ else _] => destruct c end; [exists true; auto|].
  destruct tl as [|nx tl]; cbn [hd_error]; [exists false; split; [auto|discriminate]|].
  destruct (can_combine cur nx); [|exists false; split; [auto|discriminate]].
  assert (Hix2 : start_ix nx = S (end_ix cur)).
  { inversion H; subst. eapply cover_next_ix; eauto. }
  unfold seg_combine. cbn [start_ix end_ix]. rewrite Hix2, Nat.eqb_refl. cbn [obind].
  eexists. split; [reflexivity | auto].
Qed.

Lemma merge_loop_cover raws : forall prev k l, segs_cover (prev :: raws) k l ->
  exists out, merge_loop prev raws = Some out /\ segs_cover out k l /\ out <> [].
Proof.
  induction raws as [|cur tl IH]; intros prev k l H.
  - exists [prev]. cbn. split; auto. split; [auto | discriminate].
  - cbn [merge_loop]. destruct (should_combine_spec _ _ _ _ _ H) as [b [Eb Hb]].
    rewrite Eb. cbn [obind]. destruct b.
    + pose proof (cover_next_ix _ _ _ _ _ H) as Hix.
      assert (Hp : seg_combine prev cur = Some (mkSeg (start_ix prev) (end_ix cur) (start_char prev) (end_char cur) None)).
      { unfold seg_combine. rewrite Hix, Nat.eqb_refl. reflexivity. }
      rewrite Hp. cbn [obind]. apply IH. eapply cover_combine; eauto.
    + inversion H as [|? ? ? c1 r1 Hn1 Hs1 He1 Hsc1 Hec1 Hcp1 Hd1 H1]; subst.
      destruct (IH _ _ _ H1) as [r [Er [Hr _]]]. rewrite Er. cbn [obind].
      exists (prev :: r). split; auto. split; [|discriminate]. apply sc_cons; auto.
Qed.

Theorem compute_segments_cover sorted :
  exists segs, compute_segments sorted = Some segs /\ segs_cover segs 0 (bmp_prefix sorted) /\
               (segs = [] <-> bmp_prefix sorted = []).
Proof.
  unfold compute_segments.
  pose proof (raw_segments_cover (length (bmp_prefix sorted)) (bmp_prefix sorted) 0 (Nat.le_refl _)) as H.
  destruct (raw_segments (length (bmp_prefix sorted)) 0 (bmp_prefix sorted)) as [|first raws] eqn:E.
  - exists []. split; auto. split; auto. inversion H. tauto.
  - destruct (merge_loop_cover _ _ _ _ H) as [out [Eo [Ho Hne]]]. exists out. split; auto. split; auto.
    split; [congruence|]. intros Hb. rewrite Hb in H. inversion H.
    destruct chunk; [congruence | discriminate].
Qed.
