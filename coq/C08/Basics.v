(* C08 — basic lemmas: adjacency predicates, zrange, sort/dedup/find_conflict *)
From Coq Require Import ZArith List Bool Lia.
From FV Require Import Lib.RustInt C08.Model.
Import ListNotations.
Open Scope Z_scope.
Ltac Zify.zify_post_hook ::= Z.div_mod_to_equations.

(* ---------- adjacency ---------- *)
Fixpoint adj (R : pair -> pair -> Prop) (l : list pair) : Prop :=
  match l with
  | [] => True
  | a :: t => match t with [] => True | b :: _ => R a b /\ adj R t end
  end.

Lemma adj_cons R a l : adj R (a :: l) -> adj R l.
Proof. destruct l; cbn; tauto. Qed.

Lemma adj_cons2_inv R a b l : adj R (a :: b :: l) -> R a b /\ adj R (b :: l).
Proof. cbn. tauto. Qed.
Lemma adj_cons2_intro R a b l : R a b /\ adj R (b :: l) -> adj R (a :: b :: l).
Proof. cbn. tauto. Qed.

Lemma adj_app R l1 l2 : adj R l1 -> adj R l2 ->
  (forall a b, l1 <> [] -> l2 <> [] -> a = last l1 (0,0) -> b = hd (0,0) l2 -> R a b) -> adj R (l1 ++ l2).
Proof.
  induction l1 as [|x l1 IH]; intros H1 H2 H; cbn [app]; auto.
  destruct l1 as [|y l1].
  - cbn [app]. destruct l2 as [|b l2]; [cbn; auto|].
    apply adj_cons2_intro. split; auto. apply H; try discriminate; reflexivity.
  - cbn [app]. apply adj_cons2_intro. apply adj_cons2_inv in H1. destruct H1 as [Hxy H1]. split; auto.
    apply IH; auto. intros a b _ Hn Ha Hb. apply H; auto; try discriminate.
Qed.

Lemma adj_app_l R l1 l2 : adj R (l1 ++ l2) -> adj R l1.
Proof.
  induction l1 as [|x l1 IH]; intros H; [cbn; auto|].
  destruct l1 as [|y l1]; [cbn; auto|].
  cbn [app] in H. apply adj_cons2_inv in H. apply adj_cons2_intro. split; [tauto|]. apply IH. cbn [app]. tauto.
Qed.

Lemma adj_app_r R l1 l2 : adj R (l1 ++ l2) -> adj R l2.
Proof.
  induction l1 as [|x l1 IH]; intros H; [exact H|]. apply IH. cbn [app] in H. eapply adj_cons; eauto.
Qed.

Lemma adj_impl (R S : pair -> pair -> Prop) l : (forall a b, R a b -> S a b) -> adj R l -> adj S l.
Proof.
  intros HI. induction l as [|a l IH]; [auto|]. destruct l as [|b l]; [cbn; auto|].
  intros H. apply adj_cons2_inv in H. apply adj_cons2_intro. split; [apply HI; tauto | apply IH; tauto].
Qed.

(* strictly ascending code points *)
Definition asc (l : list pair) : Prop := adj (fun a b => fst a < fst b) l.
Definition cp_run (l : list pair) : Prop := adj (fun a b => fst b = fst a + 1) l.
Definition gid_run (l : list pair) : Prop := adj (fun a b => snd b = snd a + 1) l.

Lemma asc_head_lt a l : asc (a :: l) -> forall x, In x l -> fst a < fst x.
Proof.
  revert a. induction l as [|b l IH]; intros a H x Hx; [destruct Hx|].
  apply adj_cons2_inv in H. destruct H as [Hab H]. destruct Hx as [<-|Hx]; [auto|].
  specialize (IH b H x Hx). lia.
Qed.

Lemma asc_unique l : asc l -> forall c g1 g2, In (c, g1) l -> In (c, g2) l -> g1 = g2.
Proof.
  induction l as [|a l IH]; intros H c g1 g2 H1 H2; [destruct H1|].
  pose proof (asc_head_lt a l H) as Hlt.
  destruct H1 as [->|H1], H2 as [E|H2].
  - congruence.
  - specialize (Hlt _ H2). cbn in Hlt. lia.
  - subst a. specialize (Hlt _ H1). cbn in Hlt. lia.
  - eapply IH; eauto. eapply adj_cons; eauto.
Qed.

Lemma assoc_in l c g : assoc c l = Some g -> In (c, g) l.
Proof.
  induction l as [|[k v] l IH]; cbn; [discriminate|].
  destruct (Z.eqb_spec k c); intros H; [inversion H; subst; auto | auto].
Qed.

Lemma assoc_none l c : assoc c l = None -> forall g, ~ In (c, g) l.
Proof.
  induction l as [|[k v] l IH]; cbn; intros H g; [tauto|].
  destruct (Z.eqb_spec k c); [discriminate|]. intros [E|E]; [inversion E; lia | eapply IH; eauto].
Qed.

Lemma asc_assoc l : asc l -> forall c g, assoc c l = Some g <-> In (c, g) l.
Proof.
  intros H c g. split; [apply assoc_in|]. intros Hin.
  destruct (assoc c l) as [g'|] eqn:E.
  - f_equal. eapply asc_unique; eauto. apply assoc_in; auto.
  - exfalso. eapply assoc_none; eauto.
Qed.

(* ---------- runs ---------- *)
Lemma cp_run_nth l : cp_run l -> forall k, (k < length l)%nat ->
  fst (nth k l (0,0)) = fst (hd (0,0) l) + Z.of_nat k.
Proof.
  induction l as [|a l IH]; intros H k Hk; [cbn in Hk; lia|].
  destruct k as [|k]; [cbn; lia|].
  cbn [nth hd]. destruct l as [|b l]; [cbn in Hk; lia|].
  apply adj_cons2_inv in H. destruct H as [Hab H].
  rewrite (IH H k) by (cbn in *; lia). cbn [hd]. lia.
Qed.

Lemma gid_run_nth l : gid_run l -> forall k, (k < length l)%nat ->
  snd (nth k l (0,0)) = snd (hd (0,0) l) + Z.of_nat k.
Proof.
  induction l as [|a l IH]; intros H k Hk; [cbn in Hk; lia|].
  destruct k as [|k]; [cbn; lia|].
  cbn [nth hd]. destruct l as [|b l]; [cbn in Hk; lia|].
  apply adj_cons2_inv in H. destruct H as [Hab H].
  rewrite (IH H k) by (cbn in *; lia). cbn [hd]. lia.
Qed.

Lemma last_nth (l : list pair) d : l <> [] -> last l d = nth (length l - 1) l d.
Proof.
  induction l as [|a l IH]; [congruence|]. intros _. destruct l as [|b l]; [reflexivity|].
  change (last (a :: b :: l) d) with (last (b :: l) d). rewrite IH by discriminate.
  cbn [length]. replace (S (S (length l)) - 1)%nat with (S (S (length l) - 1))%nat by lia.
  reflexivity.
Qed.

Lemma cp_run_last l : cp_run l -> l <> [] -> fst (last l (0,0)) = fst (hd (0,0) l) + Z.of_nat (length l) - 1.
Proof.
  intros H Hn. rewrite last_nth by auto. rewrite cp_run_nth; auto.
  - destruct l; [congruence|]. cbn [length]. lia.
  - destruct l; [congruence|]. cbn [length]. lia.
Qed.

Lemma cp_run_asc l : cp_run l -> asc l.
Proof. apply adj_impl. intros; lia. Qed.

(* ---------- zrange ---------- *)
Lemma zrange_n_in a n x : In x (zrange_n a n) <-> a <= x < a + Z.of_nat n.
Proof.
  revert a. induction n as [|n IH]; intros a; cbn [zrange_n In].
  - lia.
  - rewrite IH. lia.
Qed.
Lemma zrange_in a b x : In x (zrange a b) <-> a <= x < b.
Proof. unfold zrange. rewrite zrange_n_in. lia. Qed.

Lemma zrange_n_snoc a n : zrange_n a (S n) = zrange_n a n ++ [a + Z.of_nat n].
Proof.
  revert a. induction n as [|n IH]; intros a.
  - cbn. f_equal. lia.
  - change (zrange_n a (S (S n))) with (a :: zrange_n (a + 1) (S n)). rewrite IH.
    cbn [zrange_n app]. do 2 f_equal. f_equal. lia.
Qed.
Lemma zrange_snoc a b : a <= b -> zrange a (b + 1) = zrange a b ++ [b].
Proof.
  intros H. unfold zrange. replace (Z.to_nat (b + 1 - a)) with (S (Z.to_nat (b - a))) by lia.
  rewrite zrange_n_snoc. do 2 f_equal. lia.
Qed.
Lemma zrange_empty a b : b <= a -> zrange a b = [].
Proof. intros. unfold zrange. replace (Z.to_nat (b - a)) with O by lia. reflexivity. Qed.
Lemma zrange_cons a b : a < b -> zrange a b = a :: zrange (a + 1) b.
Proof.
  intros. unfold zrange. replace (Z.to_nat (b - a)) with (S (Z.to_nat (b - (a + 1)))) by lia. reflexivity.
Qed.
Lemma zrange_n_length a n : length (zrange_n a n) = n.
Proof. revert a; induction n; intros; cbn; auto. Qed.
Lemma zrange_n_app a n m : zrange_n a (n + m) = zrange_n a n ++ zrange_n (a + Z.of_nat n) m.
Proof.
  revert a. induction n as [|n IH]; intros a.
  - cbn [Nat.add zrange_n app]. f_equal. lia.
  - cbn [Nat.add zrange_n app]. f_equal. rewrite IH. do 2 f_equal. lia.
Qed.
Lemma zrange_split a b c : a <= b <= c -> zrange a c = zrange a b ++ zrange b c.
Proof.
  intros. unfold zrange. replace (Z.to_nat (c - a)) with (Z.to_nat (b - a) + Z.to_nat (c - b))%nat by lia.
  rewrite zrange_n_app. do 2 f_equal. lia.
Qed.

(* ---------- sort / dedup / find_conflict ---------- *)
Definition lex_le (a b : pair) : Prop := fst a < fst b \/ (fst a = fst b /\ snd a <= snd b).
Definition sorted (l : list pair) : Prop := adj lex_le l.

Lemma pair_leb_spec a b : pair_leb a b = true <-> lex_le a b.
Proof. unfold pair_leb, lex_le. lia. Qed.
Lemma pair_leb_total a b : pair_leb a b = false -> lex_le b a.
Proof. unfold pair_leb, lex_le. lia. Qed.
Lemma pair_eqb_spec a b : pair_eqb a b = true <-> a = b.
Proof.
  unfold pair_eqb. destruct a, b; cbn. split.
  - intros H. f_equal; lia.
  - intros H. inversion H. lia.
Qed.

Lemma insert_in x l p : In p (insert_sorted x l) <-> p = x \/ In p l.
Proof.
  induction l as [|y l IH]; cbn; [intuition|].
  destruct (pair_leb x y); cbn; [intuition|]. rewrite IH. intuition.
Qed.
Lemma sort_in l p : In p (sort_pairs l) <-> In p l.
Proof. induction l as [|x l IH]; cbn; [tauto|]. rewrite insert_in, IH. intuition. Qed.

Lemma insert_sorted_sorted x l : sorted l -> sorted (insert_sorted x l).
Proof.
  induction l as [|y l IH]; intros H; [cbn; auto|].
  cbn [insert_sorted]. destruct (pair_leb x y) eqn:E.
  - apply adj_cons2_intro. split; [apply pair_leb_spec; auto | auto].
  - apply pair_leb_total in E. specialize (IH (adj_cons _ _ _ H)).
    destruct l as [|z l].
    + cbn [insert_sorted]. apply adj_cons2_intro. split; [auto | cbn; auto].
    + cbn [insert_sorted] in *. destruct (pair_leb x z) eqn:E2.
      * apply adj_cons2_intro. split; auto.
      * apply adj_cons2_intro. apply adj_cons2_inv in H. split; [tauto | auto].
Qed.
Lemma sort_sorted l : sorted (sort_pairs l).
Proof. induction l; cbn; [auto | apply insert_sorted_sorted; auto]. Qed.

Lemma dedup_in l p : In p (dedup l) <-> In p l.
Proof.
  induction l as [|x l IH]; [cbn; tauto|].
  cbn [dedup]. destruct l as [|y l]; [cbn; tauto|].
  destruct (pair_eqb x y) eqn:E.
  - apply pair_eqb_spec in E. subst y. rewrite IH. cbn. intuition.
  - cbn [In]. rewrite IH. cbn. tauto.
Qed.

Lemma dedup_hd x l : exists t, dedup (x :: l) = x :: t.
Proof.
  revert x. induction l as [|y l IH]; intros x.
  - exists []. reflexivity.
  - cbn [dedup]. destruct (pair_eqb x y) eqn:E.
    + apply pair_eqb_spec in E. subst y. apply IH.
    + eexists. reflexivity.
Qed.

Definition strict_lex (a b : pair) : Prop := lex_le a b /\ a <> b.
Lemma dedup_strict l : sorted l -> adj strict_lex (dedup l).
Proof.
  induction l as [|x l IH]; intros H; [cbn; auto|].
  cbn [dedup]. destruct l as [|y l]; [cbn; auto|].
  apply adj_cons2_inv in H. destruct H as [Hxy H]. specialize (IH H).
  destruct (pair_eqb x y) eqn:E; [auto|].
  destruct (dedup_hd y l) as [t E1]. rewrite E1 in *.
  apply adj_cons2_intro. split; [|auto]. split; auto. intros ->.
  assert (pair_eqb y y = true) by (apply pair_eqb_spec; auto). congruence.
Qed.

Lemma find_conflict_none l : adj strict_lex l -> find_conflict l = None -> asc l.
Proof.
  induction l as [|[c1 g1] l IH]; intros H E; [cbn; auto|].
  destruct l as [|[c2 g2] l]; [cbn; auto|].
  apply adj_cons2_inv in H. destruct H as [[Hle Hne] H].
  cbn [find_conflict] in E.
  destruct ((c1 =? c2) && negb (g1 =? g2)) eqn:Ec; [discriminate|].
  apply adj_cons2_intro. split; [|apply IH; auto].
  unfold lex_le in Hle. cbn [fst snd] in *.
  destruct Hle as [Hlt|[Heq Hle]]; [auto|]. exfalso. subst c2.
  rewrite Z.eqb_refl in Ec. cbn in Ec. apply negb_false_iff in Ec. apply Z.eqb_eq in Ec. subst. congruence.
Qed.

Lemma find_conflict_some l ch g1 g2 : find_conflict l = Some (ch, g1, g2) ->
  g1 < g2 /\ In (ch, g1) l /\ In (ch, g2) l.
Proof.
  induction l as [|[c1 a] l IH]; [cbn; discriminate|].
  destruct l as [|[c2 b] l]; [cbn; discriminate|].
  cbn [find_conflict]. destruct ((c1 =? c2) && negb (a =? b)) eqn:Ec.
  - intros E. inversion E; subst. apply andb_true_iff in Ec. destruct Ec as [Ec1 Ec2].
    apply Z.eqb_eq in Ec1. subst c2. apply negb_true_iff in Ec2. apply Z.eqb_neq in Ec2.
    split; [lia|]. destruct (Z.le_ge_cases a b).
    + rewrite Z.min_l, Z.max_r by lia. cbn. auto.
    + rewrite Z.min_r, Z.max_l by lia. cbn. auto.
  - intros E. specialize (IH E). cbn [In] in *. intuition.
Qed.

(* the mapping from_mappings works with: strictly ascending, same pairs as the input *)
Definition canon (input : list pair) : list pair := dedup (sort_pairs input).
Lemma canon_in input p : In p (canon input) <-> In p input.
Proof. unfold canon. rewrite dedup_in, sort_in. tauto. Qed.
Lemma canon_asc input : find_conflict (canon input) = None -> asc (canon input).
Proof. intros. apply find_conflict_none; auto. apply dedup_strict, sort_sorted. Qed.

Definition conflict_free (input : list pair) : Prop :=
  forall c g1 g2, In (c, g1) input -> In (c, g2) input -> g1 = g2.
Lemma conflict_free_no_conflict input : conflict_free input -> find_conflict (canon input) = None.
Proof.
  intros H. destruct (find_conflict (canon input)) as [[[ch g1] g2]|] eqn:E; [|auto].
  apply find_conflict_some in E. destruct E as [Hlt [H1 H2]].
  apply (proj1 (canon_in _ _)) in H1. apply (proj1 (canon_in _ _)) in H2. specialize (H _ _ _ H1 H2). lia.
Qed.

(* bmp_prefix *)
Lemma bmp_prefix_split l : exists post, l = bmp_prefix l ++ post /\
  (forall p, In p (bmp_prefix l) -> fst p <= 65535) /\
  (asc l -> forall p, In p post -> 65535 < fst p).
Proof.
  induction l as [|[c g] l IH].
  - exists []. cbn. intuition.
  - cbn [bmp_prefix]. destruct (65535 <? c) eqn:E.
    + exists ((c, g) :: l). cbn [app]. split; [auto|]. split; [intros p []|].
      intros Ha p [<-|Hp]; [cbn; lia|]. pose proof (asc_head_lt _ _ Ha p Hp). cbn in *. lia.
    + destruct IH as [post [E1 [E2 E3]]]. exists post. split; [cbn [app]; congruence|].
      split.
      * intros p [<-|Hp]; [cbn; lia | auto].
      * intros Ha. apply E3. eapply adj_cons; eauto.
Qed.
