(* C04 — property theorems, round 7: the merge lemmas and the round trip stated on the two EXTRACTED halves.
   Only statements, [exact lemma] and Print Assumptions. *)
From Coq Require Import ZArith List Bool String.
From FV Require Import Lib.RustInt C04.Model C04.Gen C04.Proofs C04.Reflect C04.Merge C04.MergeAll C04.Union C04.UnionProofs C04.UnionAll.
Import ListNotations.
Open Scope Z_scope.

(* The reader of the merged schema IS the extracted reader: [decode] never looks at the write-side annotations. *)
Theorem c04_decode_merge : forall R W S, merge R W = Some S -> forall o, decode S o = decode R o.
Proof. exact decode_merge. Qed.

(* The writer of the merged schema IS the extracted writer, when the merged schema is well formed and every name
   the write half refers to (gate fields, `array_len(&self.arr)` arrays) is a NAMED field of the write half, at
   every nesting level ([wref W]; literals / computed counts are anonymous in `write_into` and take the reader's
   name in the merge, so a reference to one of them could not be resolved in the writer's own context). *)
Theorem c04_encode_merge : forall R W S, merge R W = Some S -> wf_schema S = true -> wref W = true ->
  forall v, encode S v = encode W v.
Proof. exact encode_merge. Qed.
Theorem c04_normalize_merge : forall R W S, merge R W = Some S -> wf_schema S = true -> wref W = true ->
  forall v, normalize S v = normalize W v.
Proof. exact normalize_merge. Qed.

(* The round trip on the extracted halves: what the extracted WRITER schema compiles, the extracted READER schema
   reads back as the (normalized) value.  W_T / R_T are the very definitions the correspondence shards evaluate
   against the real `dump_table` bytes and the real getters. *)
Theorem c04_extracted_roundtrip : forall (R W S : schema) (v : list value) (o : obj),
  compat R W = true -> wref W = true -> merge R W = Some S ->
  valid S v = true -> encode W v = Some o ->
  decode R o = Some (normalize S v).
Proof. exact extracted_roundtrip. Qed.

(* shape agreement suffices (count agreement is then part of [valid]): covers the stored-count pairs too *)
Theorem c04_extracted_roundtrip_shape : forall (R W S : schema) (v : list value) (o : obj),
  compat_shape R W = true -> wref W = true -> merge R W = Some S ->
  valid S v = true -> encode W v = Some o ->
  decode R o = Some (normalize S v) /\ normalize S v = normalize W v.
Proof. exact extracted_roundtrip_shape. Qed.

Theorem c04_extracted_reread_recompiles : forall (R W S : schema) v o v',
  compat_shape R W = true -> wref W = true -> merge R W = Some S ->
  valid S v = true -> encode W v = Some o -> decode R o = Some v' -> encode W v' = Some o.
Proof. exact extracted_reread_recompiles. Qed.

(* [wref] holds for the writer of every extracted pair (vm_compute over Gen.all_pairs, regenerated on every run) *)
Theorem c04_all_pairs_wref : forallb pair_wref all_pairs = true.
Proof. exact all_pairs_wref_lemma. Qed.

(* Instantiation on ALL extracted pairs (no exception): for each (T, R_T, W_T) the merge exists and
   decode R_T (encode W_T v) = normalize v for every valid v, and the re-read value recompiles to the same object. *)
Theorem c04_all_pairs_extracted_roundtrip : Forall pair_roundtrip all_pairs.
Proof. exact all_pairs_extracted_roundtrip. Qed.

(* ... and every pair not enumerated in Reflect.stored_count_pairs is [compat] (strict counts) with the round trip
   in the assigned form *)
Theorem c04_all_compat_pairs_extracted_roundtrip : Forall pair_compat_roundtrip all_pairs.
Proof. exact all_compat_pairs_extracted_roundtrip. Qed.

(* Format enums (tagged unions keyed by the leading format field).  Writing variant V of an enum through the
   write side's `match self` and reading the bytes through the read side's `match format` selects the SAME
   variant and yields the normalized value — for every union whose two halves pass the decidable [union_ok]
   (each writer variant starts with a literal of the tag's width that selects the read arm of the same name,
   whose (R, W) pair has one shape). *)
Theorem c04_union_roundtrip : forall (ur : union_r) (uw : union_w) variant W,
  union_ok ur uw = true -> find_w uw variant = Some W ->
  exists k R S, find_fmt (snd ur) k = Some (variant, R) /\ merge R W = Some S /\
    forall v o, valid S v = true -> encode_union uw variant v = Some o ->
      decode_union ur o = Some (variant, normalize S v).
Proof. exact union_roundtrip. Qed.

(* the format enums extracted on this run (Gen.all_unions) all pass [union_ok] ... *)
Theorem c04_all_unions_ok : forallb union_entry_ok all_unions = true.
Proof. exact all_unions_ok_lemma. Qed.
Theorem c04_enough_unions : (10 <=? List.length all_unions)%nat = true.
Proof. exact enough_unions_lemma. Qed.
(* ... hence the round trip for every variant of every extracted format enum *)
Theorem c04_all_unions_roundtrip : Forall union_entry_roundtrip all_unions.
Proof. exact all_unions_roundtrip. Qed.

Print Assumptions c04_decode_merge.
Print Assumptions c04_encode_merge.
Print Assumptions c04_normalize_merge.
Print Assumptions c04_extracted_roundtrip.
Print Assumptions c04_extracted_roundtrip_shape.
Print Assumptions c04_extracted_reread_recompiles.
Print Assumptions c04_all_pairs_wref.
Print Assumptions c04_all_pairs_extracted_roundtrip.
Print Assumptions c04_all_compat_pairs_extracted_roundtrip.
Print Assumptions c04_union_roundtrip.
Print Assumptions c04_all_unions_ok.
Print Assumptions c04_enough_unions.
Print Assumptions c04_all_unions_roundtrip.
