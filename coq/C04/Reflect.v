(* C04 — per-table reflection: every extracted (reader, writer) pair describes one schema.
   Gen.v is regenerated from /repo on every run (translators/c04_extract.py). *)
From Coq Require Import ZArith List Bool String.
From FV Require Import C04.Model C04.Gen.
Import ListNotations.
Open Scope string_scope.

(* Pairs whose shape (order, widths, gates, offset widths, nullability) agrees but in which a count field is
   STORED by the writer (or computed from a different array) instead of being computed from the array the
   reader sizes with it — enumerated by name so the list cannot grow silently.  Each is a table on which
   "counts agree with their arrays" is left to the caller (finding gen-compat:<Type>.<field>, notes/C04.md). *)
Definition stored_count_pairs : list string :=
  ["BaseGlyphList"; "Cff2Header"; "CffHeader"; "ClipList"; "Cmap13"; "Cmap14"; "Cmap4"; "Cmap6"; "Cmap8";
   "ColorLine"; "ConditionFormat3"; "ConditionFormat4"; "Cpal"; "DefaultUvs"; "Gasp"; "LayerList"; "Mvar";
   "NonDefaultUvs"; "VarColorLine"].

Definition compat_pair (p : string * schema * schema) : bool :=
  let '(n, R, W) := p in
  if existsb (String.eqb n) stored_count_pairs then compat_shape R W && negb (compat R W) else compat R W.

Lemma all_pairs_compat_lemma : forallb compat_pair all_pairs = true.
Proof. vm_compute. reflexivity. Qed.

(* the reflection is not vacuous: a minimum number of pairs must have been extracted *)
Lemma enough_pairs_lemma : (150 <=? List.length all_pairs)%nat = true.
Proof. vm_compute. reflexivity. Qed.

(* no generated reader (inside or outside the DSL) narrows an integer it read from the data with an `as`
   cast where it sizes an array (e.g. a u32 count used `as u16`) *)
Lemma no_narrowing_casts_lemma : narrowing_casts = [].
Proof. vm_compute. reflexivity. Qed.

(* what [compat] gives for each pair: a merged schema that is well formed with strict counts *)
Lemma compat_merged R W : compat R W = true -> exists sch, merge R W = Some sch /\ wf_schema sch = true /\ strict_counts sch = true.
Proof.
  unfold compat. destruct (merge R W) as [sch|]; [|discriminate].
  intros H. apply andb_true_iff in H. destruct H. eauto.
Qed.
