(* C04 — non-vacuity of the round-7 theorems (PropsM.v), and why [wref] is a hypothesis *)
From Coq Require Import ZArith List Bool String.
From FV Require Import Lib.RustInt C04.Model C04.Gen C04.Proofs C04.Reflect C04.Merge C04.MergeAll C04.Union C04.UnionProofs C04.UnionAll.
Import ListNotations.
Open Scope Z_scope. Open Scope string_scope.

(* SequenceRule: anonymous computed counts (plus_one / array_len) on the write side, subtract(..,1) on the read side *)
Definition sr_v : list value := [VZ 0; VZ 0; VArr [VTab [VZ 7]; VTab [VZ 65535]]; VArr [VTab [VZ 1; VZ 2]]].
Example c04_extracted_roundtrip_nonvacuous : exists S o,
  compat R_SequenceRule W_SequenceRule = true /\ wref W_SequenceRule = true /\
  merge R_SequenceRule W_SequenceRule = Some S /\ valid S sr_v = true /\
  encode W_SequenceRule sr_v = Some o /\ decode R_SequenceRule o = Some (normalize S sr_v) /\
  normalize S sr_v <> sr_v /\ S <> R_SequenceRule /\ S <> W_SequenceRule.
Proof.
  eexists. eexists.
  split; [vm_compute; reflexivity|]. split; [vm_compute; reflexivity|].
  split; [vm_compute; reflexivity|]. split; [vm_compute; reflexivity|].
  split; [vm_compute; reflexivity|]. split; [vm_compute; reflexivity|].
  split; [vm_compute; discriminate|]. split; vm_compute; discriminate.
Qed.

(* Gdef 1.2: hand-computed version, nullable offsets (null and non-null), a gate that holds and one that does not *)
Definition gdef_v : list value :=
  [VZ 65538; VBytes [0; 1; 0; 5; 0; 0]; VNull; VNull; VBytes [0; 2; 0; 0]; VBytes [0; 1; 0; 0]; VAbsent].
Example c04_extracted_roundtrip_gdef : exists S o,
  compat R_Gdef W_Gdef = true /\ wref W_Gdef = true /\ merge R_Gdef W_Gdef = Some S /\ valid S gdef_v = true /\
  encode W_Gdef gdef_v = Some o /\ decode R_Gdef o = Some (normalize S gdef_v) /\
  encode W_Gdef (normalize S gdef_v) = Some o.
Proof.
  eexists. eexists.
  split; [vm_compute; reflexivity|]. split; [vm_compute; reflexivity|].
  split; [vm_compute; reflexivity|]. split; [vm_compute; reflexivity|].
  split; [vm_compute; reflexivity|]. split; vm_compute; reflexivity.
Qed.

(* the shape form on a stored-count pair (Gasp, count consistent with the array) *)
Definition gasp_v : list value := [VZ 1; VZ 2; VArr [VTab [VZ 8; VZ 2]; VTab [VZ 65535; VZ 15]]].
Example c04_extracted_roundtrip_shape_nonvacuous : exists S o,
  compat R_Gasp W_Gasp = false /\ compat_shape R_Gasp W_Gasp = true /\ wref W_Gasp = true /\
  merge R_Gasp W_Gasp = Some S /\ valid S gasp_v = true /\ encode W_Gasp gasp_v = Some o /\
  decode R_Gasp o = Some (normalize S gasp_v).
Proof.
  eexists. eexists.
  split; [vm_compute; reflexivity|]. split; [vm_compute; reflexivity|].
  split; [vm_compute; reflexivity|]. split; [vm_compute; reflexivity|].
  split; [vm_compute; reflexivity|]. split; vm_compute; reflexivity.
Qed.

(* the instantiation is about a non-trivial list, and the merged schemas differ from both halves *)
Example c04_all_pairs_nonvacuous :
  (200 <=? List.length all_pairs)%nat = true /\
  List.length (filter (fun p => let '(_, R, W) := p in compat R W) all_pairs) = 184%nat.
Proof. split; vm_compute; reflexivity. Qed.

(* Why [wref] is a hypothesis of c04_encode_merge: a writer whose gate refers to an ANONYMOUS literal by the
   reader's name.  The pair is [compat], the merged schema encodes, the writer half alone cannot resolve the gate. *)
Definition bad_R : schema := [FScalar "version" 2 GAlways Stored; FScalar "x" 2 (GVerU "version" 1) Stored].
Definition bad_W : schema := [FScalar "" 2 GAlways (Lit 1); FScalar "x" 2 (GVerU "version" 1) Stored].
Example c04_encode_merge_needs_wref_refuted : exists S v o,
  compat bad_R bad_W = true /\ wref bad_W = false /\ merge bad_R bad_W = Some S /\
  encode S v = Some o /\ encode bad_W v = None.
Proof.
  eexists. exists [VZ 0; VZ 5]. eexists.
  split; [vm_compute; reflexivity|]. split; [vm_compute; reflexivity|].
  split; [vm_compute; reflexivity|]. split; vm_compute; reflexivity.
Qed.

(* format enum: a CoverageTable::Format2 value goes out through `match self` and comes back through `match format` as Format2 *)
Definition cov2_v : list value := [VZ 0; VZ 0; VArr [VTab [VZ 3; VZ 9; VZ 0]; VTab [VZ 20; VZ 20; VZ 7]]].
Example c04_union_roundtrip_nonvacuous : exists S o,
  union_ok UR_CoverageTable UW_CoverageTable = true /\ find_w UW_CoverageTable "Format2" = Some W_CoverageFormat2 /\
  merge R_CoverageFormat2 W_CoverageFormat2 = Some S /\ valid S cov2_v = true /\
  encode_union UW_CoverageTable "Format2" cov2_v = Some o /\
  decode_union UR_CoverageTable o = Some ("Format2", normalize S cov2_v) /\
  (14 <=? List.length all_unions)%nat = true.
Proof.
  eexists. eexists.
  split; [vm_compute; reflexivity|]. split; [vm_compute; reflexivity|].
  split; [vm_compute; reflexivity|]. split; [vm_compute; reflexivity|].
  split; [vm_compute; reflexivity|]. split; vm_compute; reflexivity.
Qed.

(* [union_ok] is not vacuous: swapping the FORMAT constants of the two read arms is rejected, and then a Format1
   value would indeed be re-read by the Format2 reader *)
Definition bad_UR : union_r := (2%nat, [("Format1", 2, R_CoverageFormat1); ("Format2", 1, R_CoverageFormat2)]).
Example c04_union_ok_rejects_swapped_formats :
  union_ok bad_UR UW_CoverageTable = false /\
  (exists o, encode_union UW_CoverageTable "Format1" [VZ 0; VZ 0; VArr [VTab [VZ 5]]] = Some o /\
             match decode_union bad_UR o with Some (vn, _) => vn = "Format2" | None => True end).
Proof.
  split; [vm_compute; reflexivity|]. eexists.
  split. { vm_compute. reflexivity. }
  vm_compute. reflexivity.
Qed.
