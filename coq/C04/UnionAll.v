(* C04 — the union round trip instantiated on every extracted format enum of Gen.v *)
From Coq Require Import ZArith List Bool String.
From FV Require Import Lib.RustInt C04.Model C04.Gen C04.Proofs C04.Merge C04.Union C04.UnionProofs.
Import ListNotations.
Open Scope Z_scope.

Definition union_entry_ok (e : string * union_r * union_w) : bool := let '(_, ur, uw) := e in union_ok ur uw.

(* per format enum: the read-side `match format` and the write-side `match self` describe one tagged union *)
Lemma all_unions_ok_lemma : forallb union_entry_ok all_unions = true.
Proof. vm_compute. reflexivity. Qed.

Lemma enough_unions_lemma : (10 <=? List.length all_unions)%nat = true.
Proof. vm_compute. reflexivity. Qed.

Definition union_entry_roundtrip (e : string * union_r * union_w) : Prop :=
  let '(_, ur, uw) := e in
  forall variant W, find_w uw variant = Some W ->
  exists k R S, find_fmt (snd ur) k = Some (variant, R) /\ merge R W = Some S /\
    forall v o, valid S v = true -> encode_union uw variant v = Some o ->
      decode_union ur o = Some (variant, normalize S v).

Theorem all_unions_roundtrip : Forall union_entry_roundtrip all_unions.
Proof.
  apply Forall_forall. intros [[n ur] uw] Hin variant W Hf.
  pose proof (proj1 (forallb_forall _ _) all_unions_ok_lemma _ Hin) as Hok. cbn [union_entry_ok] in Hok.
  exact (union_roundtrip ur uw variant W Hok Hf).
Qed.
