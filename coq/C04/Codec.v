(* C04 — correspondence cases for the two hand-written custom codecs that generated tables embed
   (write-fonts/src/tables/variations.rs PackedDeltas / PackedPointNumbers; read-fonts/src/tables/variations.rs
   DeltaRunIter / PackedPointNumbers).  The executable models and their round-trip theorems are C10's
   (coq/C10/Model.v, Props: packed_deltas_roundtrip, packed_points_roundtrip, packed_size_computed); they are
   imported read-only here so that the C04 shards check the ENCODER's bytes (run boundaries, count header)
   and the decoder's output for i32 delta lists and point lists against the real code. *)
From Coq Require Import ZArith List Bool String.
From FV Require Import C04.Model C04.Gen C04.Union.
From FV Require C10.Model.
Import ListNotations.
Open Scope Z_scope.

Inductive c04_case :=
| CSchema (c : shard_case)
  (* PackedDeltas::new(ds): compiled bytes, what consume_all(bytes).iter() yields *)
| CDeltas (ds bytes decoded : list Z)
  (* PackedPointNumbers: None = All; compiled bytes; reader: None = "all points" (count 0) or the list *)
| CPoints (pts : option (list Z)) (bytes : list Z) (decoded : option (list Z))
  (* round 7: a table WITH offsets.  [bytes] = the real compiled bytes of the table's own fields with every
     non-null offset field overwritten by 0xFF (the TableData::add_offset placeholder; positions = the real
     reader's `shape().<f>_byte_range()`), [kids] = for each non-null offset in field order the real bytes of the
     child found at the offset the real getter returned; [reread] has VBytes child / VNull per offset field. *)
| CSchemaObj (W R : schema) (written : list value) (bytes : list Z) (kids : list (list Z)) (reread : list value)
  (* round 7: a value written through a format ENUM (`match self`) and re-read through the enum's `match format`:
     variant written, its field values, real bytes, variant the real reader chose, its real getters *)
| CUnion (uw : union_w) (ur : union_r) (variant : string) (written : list value) (bytes : list Z)
         (variant' : string) (reread : list value).

Fixpoint kids_flat_eqb (a : list obj) (b : list (list Z)) : bool :=
  match a, b with
  | [], [] => true
  | Obj x [] :: r, y :: s => zlist_eqb x y && kids_flat_eqb r s
  | _, _ => false
  end.

Definition check_obj (W R : schema) (written : list value) (bytes : list Z) (kids : list (list Z)) (reread : list value) : bool :=
  (match encode W written with
   | Some (Obj bs ks) => zlist_eqb bs bytes && kids_flat_eqb ks kids
   | None => false
   end) &&
  (match decode R (Obj bytes (map (fun k => Obj k []) kids)) with
   | Some vs => values_eqb vs reread
   | None => false
   end).

Definition check_any (c : c04_case) : bool :=
  match c with
  | CSchema s => check_case s
  | CSchemaObj W R written bytes kids reread => check_obj W R written bytes kids reread
  | CUnion uw ur variant written bytes variant' reread => check_union uw ur variant written bytes variant' reread
  | CDeltas ds bytes decoded =>
      zlist_eqb (FV.C10.Model.encode_deltas ds) bytes &&
      zlist_eqb (FV.C10.Model.decode_deltas_all bytes) decoded
  | CPoints pts bytes decoded =>
      (match FV.C10.Model.encode_points (match pts with None => FV.C10.Model.PAll | Some l => FV.C10.Model.PSome l end) with
       | FV.C10.Model.WBytes bs => zlist_eqb bs bytes
       | _ => false
       end) &&
      (match FV.C10.Model.decode_points bytes, decoded with
       | FV.C10.Model.RAll, None => true
       | FV.C10.Model.RSome l, Some d => zlist_eqb l d
       | _, _ => false
       end)
  end.
