(* C04 — schema DSL and generic table codec.

   One [schema] = the ordered field list of one generated table / record.  The SAME type is used for
   what translators/c04_extract.py reads out of read-fonts/generated (field order, widths, count
   expressions, gates: the [count] annotations are meaningful, [compute] is [Stored]) and out of
   write-fonts/generated `FontWrite::write_into` (field order, widths, computed counts, literal
   formats, gates, offset widths: the [compute] annotations are meaningful, [count] is [CWriter]).
   [merge R W] puts the two halves together and [compat R W] checks they describe one schema.

   [encode] mirrors the generated `write_into` (write-fonts/generated/*.rs + write-fonts/src/write.rs
   TableWriter::{write_slice, write_offset}, offsets.rs OffsetMarker/NullableOffsetMarker):
   big-endian scalars in field order, `array_len`-style computed counts, literals, fields skipped when
   their version / flag gate is false, offsets written as a placeholder plus a child object.
   [decode] mirrors the generated `FontRead::read` + getters (read-fonts/generated/*.rs): same order,
   widths, count transforms (read-fonts/src/lib.rs `transforms`), gates (font-types/src/version.rs
   `Compatible`), offsets resolved to the child object (the abstraction of C05's `Resolves`).
   No proofs in this file. *)
From Coq Require Import ZArith List Bool String.
From FV Require Import Lib.RustInt.
Import ListNotations.
Open Scope Z_scope.

Definition name := string.

(* count transforms.  Read side: elements = apply_x xr (count field).  Write side: count field =
   apply_x xw (array length).
   XSubK: transforms::subtract (saturating);  XAddK: transforms::add / plus_one;  XHalf: transforms::half;
   XDouble: `2 * array_len(..)`. *)
Inductive xform := XId | XAddK (k : Z) | XSubK (k : Z) | XHalf | XDouble.

Definition apply_x (x : xform) (n : Z) : Z :=
  match x with
  | XId => n
  | XAddK k => n + k
  | XSubK k => Z.max 0 (n - k)
  | XHalf => n / 2
  | XDouble => 2 * n
  end.

(* read-side transform xr undoes write-side transform xw *)
Definition inverse_of (xr xw : xform) : bool :=
  match xr, xw with
  | XId, XId => true
  | XSubK a, XAddK b => (a =? b) && (0 <=? a)
  | XHalf, XDouble => true
  | _, _ => false
  end.

Inductive count :=
| CField (f : name) (x : xform)     (* #[count($f)], subtract($f, k), add($f, k), half($f) *)
| CConst (n : Z)                    (* #[count(256)] *)
| CToEnd                            (* #[count(..)] *)
| CWriter.                          (* write-side half: the writer emits every element it has *)

Inductive compute :=
| Stored                            (* self.f.write_into(writer) *)
| Lit (z : Z)                       (* (1 as u16).write_into(writer), MajorMinor::VERSION_1_0, ... *)
| LenOf (arr : name) (x : xform)    (* u16::try_from(array_len(&self.arr)).unwrap(), plus_one(..), 2 * array_len(..) *)
| Opaque (e : string).              (* self.compute_xxx(): hand-written; its result is supplied with the value *)

Inductive gate :=
| GAlways
| GVerMM (f : name) (major minor : Z)     (* MajorMinor::compatible((M, m)) *)
| GVer16 (f : name) (major minor : Z)     (* Version16Dot16::compatible((M, m)) *)
| GVerU (f : name) (v : Z)                (* u16::compatible(v) : self >= v *)
| GFlag (f : name) (mask : Z).            (* flags.contains(MASK) *)

Inductive field :=
| FScalar (n : name) (w : nat) (g : gate) (c : compute)
| FArray (n : name) (g : gate) (cnt : count) (elem : list field)
| FOffset (n : name) (w : nat) (g : gate) (nullable : bool) (opaque : bool) (sub : list field).

Definition schema := list field.

Definition fname (f : field) : name :=
  match f with FScalar n _ _ _ => n | FArray n _ _ _ => n | FOffset n _ _ _ _ _ => n end.
Definition fgate (f : field) : gate :=
  match f with FScalar _ _ g _ => g | FArray _ g _ _ => g | FOffset _ _ g _ _ _ => g end.

(* universe of values: one value per field, positionally *)
Inductive value :=
| VZ (z : Z)                 (* scalar: its raw big-endian unsigned integer *)
| VAbsent                    (* field whose version / flag gate is false *)
| VNull                      (* null offset *)
| VTab (vs : list value)     (* record / resolved subtable: one value per field *)
| VArr (rows : list value)   (* array: each element a VTab *)
| VBytes (bs : list Z).      (* opaque subtable *)

(* object graph as TableWriter produces it: bytes with offset placeholders + the children in the
   order their offsets were written *)
Inductive obj := Obj (bytes : list Z) (kids : list obj).

Definition ctx := list (name * value).

Fixpoint zipn (fs : list field) (vs : list value) : ctx :=
  match fs, vs with
  | f :: fr, v :: vr => (fname f, v) :: zipn fr vr
  | _, _ => []
  end.

Fixpoint assoc (c : ctx) (f : name) : option value :=
  match c with
  | [] => None
  | (n, v) :: r => if String.eqb n f then Some v else assoc r f
  end.

Definition lookup_z (c : ctx) (f : name) : option Z :=
  match assoc c f with Some (VZ z) => Some z | _ => None end.
Definition lookup_len (c : ctx) (f : name) : option Z :=
  match assoc c f with Some (VArr rows) => Some (Z.of_nat (List.length rows)) | _ => None end.

(* font-types/src/version.rs Compatible; bitflags `contains` *)
Definition gate_holds (g : gate) (c : ctx) : option bool :=
  match g with
  | GAlways => Some true
  | GVerMM f M m => do v <- lookup_z c f ;; Some ((v / 65536 =? M) && (m <=? v mod 65536))
  | GVer16 f M m => do v <- lookup_z c f ;; Some ((v / 65536 =? M) && (m <=? (v mod 65536) / 4096))
  | GVerU f k => do v <- lookup_z c f ;; Some (k <=? v)
  | GFlag f mask => do v <- lookup_z c f ;; Some (Z.land v mask =? mask)
  end.

(* ---- normalize: fill in what the writer computes (literals, array_len-style counts) ---- *)
Definition computed (raw : ctx) (c : compute) (v : value) : value :=
  match v with
  | VAbsent => VAbsent
  | _ =>
    match c with
    | Stored | Opaque _ => v
    | Lit z => VZ z
    | LenOf arr x => match lookup_len raw arr with Some n => VZ (apply_x x n) | None => v end
    end
  end.

(* All recursive functions follow the nesting of the type: a per-field function recursive on the
   [field] (whose element / sub schemas are nested lists) plus a generic sequencing combinator. *)
Section NormSeq.
  Variable nf : field -> ctx -> value -> value.
  Fixpoint norm_seq (fs : list field) (raw : ctx) (vs : list value) : list value :=
    match fs, vs with
    | f :: fr, v :: vr => nf f raw v :: norm_seq fr raw vr
    | _, _ => []
    end.
End NormSeq.

Fixpoint norm_field (f : field) (raw : ctx) (v : value) {struct f} : value :=
  match f with
  | FScalar _ _ _ c => computed raw c v
  | FArray _ _ _ elem =>
      match v with
      | VArr rows => VArr (map (fun r => match r with
                                         | VTab rvs => VTab (norm_seq norm_field elem (zipn elem rvs) rvs)
                                         | o => o end) rows)
      | o => o
      end
  | FOffset _ _ _ _ opaque sub =>
      match v with
      | VTab cvs => if opaque then v else VTab (norm_seq norm_field sub (zipn sub cvs) cvs)
      | o => o
      end
  end.
Definition norm_fields := norm_seq norm_field.

Definition normalize (S : schema) (vs : list value) : list value := norm_fields S (zipn S vs) vs.

(* ---- the serializer over normalized values ---- *)
Definition in_width (w : nat) (z : Z) : bool := (0 <=? z) && (z <? 256 ^ Z.of_nat w).

Definition enc_result := (list Z * list obj)%type.

Section EncSeq.
  Variable ef : field -> ctx -> value -> option enc_result.
  Fixpoint enc_seq (fs : list field) (c : ctx) (vs : list value) : option enc_result :=
    match fs, vs with
    | [], [] => Some ([], [])
    | f :: fr, v :: vr =>
        do here <- ef f c v ;;
        do rest <- enc_seq fr c vr ;;
        Some (fst here ++ fst rest, snd here ++ snd rest)
    | _, _ => None
    end.
  (* the rows of an array: each a VTab encoded with its own context *)
  Variable elem : list field.
  Fixpoint enc_rows (rows : list value) : option enc_result :=
    match rows with
    | [] => Some ([], [])
    | VTab rvs :: rr =>
        do a <- enc_seq elem (zipn elem rvs) rvs ;;
        do b <- enc_rows rr ;;
        Some (fst a ++ fst b, snd a ++ snd b)
    | _ :: _ => None
    end.
End EncSeq.

Fixpoint enc_field (f : field) (c : ctx) (v : value) {struct f} : option enc_result :=
  do g <- gate_holds (fgate f) c ;;
  if negb g then Some ([], [])                      (* `.then(|| ..)` not taken: nothing is written *)
  else
  match f with
  | FScalar _ w _ _ =>
      match v with
      | VZ z => if in_width w z then Some (to_be w z, []) else None   (* try_from(..).unwrap() *)
      | _ => None                                                     (* expect("missing conditional field ..") *)
      end
  | FArray _ _ _ elem =>
      match v with
      | VArr rows => enc_rows enc_field elem rows
      | _ => None
      end
  | FOffset _ w _ nullable opaque sub =>
      match v with
      | VNull => if nullable then Some (repeat 0 w, []) else None
      | VBytes bs => if opaque then Some (repeat 255 w, [Obj bs []]) else None
      | VTab cvs =>
          if opaque then None else
          do a <- enc_seq enc_field sub (zipn sub cvs) cvs ;;
          Some (repeat 255 w, [Obj (fst a) (snd a)])        (* TableData::add_offset placeholder *)
      | _ => None
      end
  end.
Definition enc_fields := enc_seq enc_field.

Definition encode (S : schema) (vs : list value) : option obj :=
  let nvs := normalize S vs in
  do r <- enc_fields S (zipn S nvs) nvs ;; Some (Obj (fst r) (snd r)).

(* ---- the reader ---- *)
Fixpoint take {A} (n : nat) (l : list A) : option (list A * list A) :=
  match n, l with
  | O, _ => Some ([], l)
  | S m, x :: r => do p <- take m r ;; Some (x :: fst p, snd p)
  | S _, [] => None
  end.

Definition all_zero (l : list Z) : bool := forallb (Z.eqb 0) l.

(* size in bytes of one element when it does not depend on the data (records of scalars / offsets) *)
Fixpoint fixed_size (fs : list field) : option nat :=
  match fs with
  | [] => Some O
  | FScalar _ w GAlways _ :: r => do n <- fixed_size r ;; Some (w + n)%nat
  | FOffset _ w GAlways _ _ _ :: r => do n <- fixed_size r ;; Some (w + n)%nat
  | _ => None
  end.

Definition dec1 := (value * list Z * list obj)%type.
Definition dec_result := (list value * list Z * list obj)%type.

Section DecSeq.
  Variable df : field -> ctx -> list Z -> list obj -> option dec1.
  Fixpoint dec_seq (fs : list field) (env : ctx) (bytes : list Z) (kids : list obj) : option dec_result :=
    match fs with
    | [] => Some ([], bytes, kids)
    | f :: fr =>
        do here <- df f env bytes kids ;;
        let '(v, b1, k1) := here in
        do rest <- dec_seq fr (env ++ [(fname f, v)]) b1 k1 ;;
        let '(vs, b2, k2) := rest in
        Some (v :: vs, b2, k2)
    end.
  Variable elem : list field.
  Fixpoint dec_rows (k : nat) (bytes : list Z) (kids : list obj) : option dec_result :=
    match k with
    | O => Some ([], bytes, kids)
    | S k' =>
        do a <- dec_seq elem [] bytes kids ;;
        let '(rvs, b1, k1) := a in
        do b <- dec_rows k' b1 k1 ;;
        let '(more, b2, k2) := b in
        Some (VTab rvs :: more, b2, k2)
    end.
End DecSeq.

Definition count_of (cnt : count) (elem : list field) (env : ctx) (bytes : list Z) : option nat :=
  match cnt with
  | CField cf x => do z <- lookup_z env cf ;; Some (Z.to_nat (apply_x x z))
  | CConst n => Some (Z.to_nat n)
  | CToEnd => do sz <- fixed_size elem ;;
              if Nat.eqb sz 0 then None else Some (Nat.div (List.length bytes) sz)
  | CWriter => None
  end.

Fixpoint dec_field (f : field) (env : ctx) (bytes : list Z) (kids : list obj) {struct f} : option dec1 :=
  do g <- gate_holds (fgate f) env ;;
  if negb g then Some (VAbsent, bytes, kids) else
  match f with
  | FScalar _ w _ _ =>
      do p <- take w bytes ;; Some (VZ (from_be (fst p)), snd p, kids)
  | FArray _ _ cnt elem =>
      do k <- count_of cnt elem env bytes ;;
      do r <- dec_rows dec_field elem k bytes kids ;;
      let '(rows, b2, k2) := r in Some (VArr rows, b2, k2)
  | FOffset _ w _ nullable opaque sub =>
      do p <- take w bytes ;;
      if all_zero (fst p) then (if nullable then Some (VNull, snd p, kids) else None)
      else match kids with
           | Obj cb ck :: kr =>
               if opaque then Some (VBytes cb, snd p, kr)
               else do a <- dec_seq dec_field sub [] cb ck ;;
                    let '(cvs, _, _) := a in Some (VTab cvs, snd p, kr)
           | [] => None
           end
  end.
Definition dec_fields := dec_seq dec_field.

Definition decode (S : schema) (o : obj) : option (list value) :=
  match o with Obj bytes kids =>
    do r <- dec_fields S [] bytes kids ;; let '(vs, _, _) := r in Some vs
  end.

(* ---- well-formedness of a schema (checked by vm_compute on every extracted pair) ---- *)
Definition gate_refs (g : gate) : list name :=
  match g with GAlways => [] | GVerMM f _ _ | GVer16 f _ _ | GVerU f _ | GFlag f _ => [f] end.
Definition mem (n : name) (l : list name) : bool := existsb (String.eqb n) l.

Fixpoint has_toend (fs : list field) : bool :=
  match fs with
  | [] => false
  | FArray _ _ CToEnd _ :: _ => true
  | _ :: r => has_toend r
  end.

(* every name a gate / count refers to is an EARLIER field of the same table; names are distinct;
   a to-end array is the last field and has fixed-size non-empty elements; element schemas contain
   no to-end array *)
Section WfSeq.
  Variable wf1 : list name -> bool -> field -> bool.      (* seen, is-last, field *)
  Fixpoint wf_seq (seen : list name) (fs : list field) : bool :=
    match fs with
    | [] => true
    | f :: fr => wf1 seen (match fr with [] => true | _ => false end) f && wf_seq (seen ++ [fname f]) fr
    end.
End WfSeq.

Fixpoint wf_field (seen : list name) (last : bool) (f : field) {struct f} : bool :=
  forallb (fun n => mem n seen) (gate_refs (fgate f)) &&
  negb (mem (fname f) seen) &&
  match f with
  | FScalar _ _ _ _ => true
  | FArray _ _ cnt elem =>
      wf_seq wf_field [] elem && negb (has_toend elem) &&
      (match cnt with
       | CField cf _ => mem cf seen
       | CConst n => 0 <=? n
       | CToEnd => last && (match fixed_size elem with Some sz => negb (Nat.eqb sz 0) | None => false end)
       | CWriter => false
       end)
  | FOffset _ w _ _ opaque sub => negb (Nat.eqb w 0) && (opaque || wf_seq wf_field [] sub)
  end.
Definition wf_fields := wf_seq wf_field.
Definition wf_schema (S : schema) : bool := wf_fields [] S.

(* find a field by name *)
Fixpoint find_field (fs : list field) (n : name) : option field :=
  match fs with
  | [] => None
  | f :: r => if String.eqb (fname f) n then Some f else find_field r n
  end.

Definition gate_eqb (a b : gate) : bool :=
  match a, b with
  | GAlways, GAlways => true
  | GVerMM f M m, GVerMM f' M' m' | GVer16 f M m, GVer16 f' M' m' => String.eqb f f' && (M =? M') && (m =? m')
  | GVerU f v, GVerU f' v' | GFlag f v, GFlag f' v' => String.eqb f f' && (v =? v')
  | _, _ => false
  end.

(* strict counts: every array counted by a field is counted by a field the WRITER computes from that
   very array with the inverse transform, under the same gate *)
Fixpoint strict_field (top : list field) (f : field) {struct f} : bool :=
  match f with
  | FScalar _ _ _ _ => true
  | FArray n g cnt elem =>
      forallb (strict_field elem) elem &&
      (match cnt with
       | CField cf xr =>
           match find_field top cf with
           | Some (FScalar _ _ g' (LenOf arr xw)) => String.eqb arr n && inverse_of xr xw && gate_eqb g g'
           | _ => false
           end
       | _ => true
       end)
  | FOffset _ _ _ _ opaque sub => opaque || forallb (strict_field sub) sub
  end.
Definition strict_counts (S : schema) : bool := forallb (strict_field S) S.

(* ---- validity of a (normalized) value: what `validate()` + the Rust types guarantee ----
   gates respected (a gated-out field is absent), counts agree with their arrays *)
Section ValidSeq.
  Variable vf : field -> ctx -> value -> bool.
  Fixpoint valid_seq (fs : list field) (c : ctx) (vs : list value) : bool :=
    match fs, vs with
    | [], [] => true
    | f :: fr, v :: vr => vf f c v && valid_seq fr c vr
    | _, _ => false
    end.
End ValidSeq.

Definition count_agrees (cnt : count) (c : ctx) (n : nat) : bool :=
  match cnt with
  | CField cf xr => match lookup_z c cf with
                    | Some z => apply_x xr z =? Z.of_nat n
                    | None => false end
  | CConst k => k =? Z.of_nat n
  | CToEnd => true
  | CWriter => false
  end.

Fixpoint valid_field (f : field) (c : ctx) (v : value) {struct f} : bool :=
  match gate_holds (fgate f) c with
  | Some false => match v with VAbsent => true | _ => false end
  | Some true =>
      match f, v with
      | FScalar _ _ _ _, VZ _ => true
      | FArray _ _ cnt elem, VArr rows =>
          forallb (fun r => match r with VTab rvs => valid_seq valid_field elem (zipn elem rvs) rvs | _ => false end) rows &&
          count_agrees cnt c (List.length rows)
      | FOffset _ _ _ _ _ _, VNull => true
      | FOffset _ _ _ _ true _, VBytes _ => true
      | FOffset _ _ _ _ false sub, VTab cvs => valid_seq valid_field sub (zipn sub cvs) cvs
      | _, _ => false
      end
  | None => false
  end.
Definition valid_fields := valid_seq valid_field.

Definition valid (S : schema) (vs : list value) : bool :=
  let nvs := normalize S vs in valid_fields S (zipn S nvs) nvs.

(* ---- the two generated halves ---- *)
Section MergeSeq.
  Variable mf : field -> field -> option field.
  Fixpoint merge_seq (R W : list field) : option (list field) :=
    match R, W with
    | [], [] => Some []
    | r :: Rr, w :: Wr =>
        do here <- mf r w ;;
        do rest <- merge_seq Rr Wr ;;
        Some (here :: rest)
    | _, _ => None
    end.
End MergeSeq.

(* merge: field by field; names, widths, gates, nullability and offset widths must agree; the count
   comes from the read side, the compute from the write side.  A literal / computed scalar has no name in
   the text of `write_into` (the extractor gives it the name ""): it takes the reader's name. *)
Fixpoint merge_field (r w : field) {struct r} : option field :=
  match r, w with
  | FScalar n wd g _, FScalar n' wd' g' c' =>
      if (String.eqb n n' || String.eqb n' "") && Nat.eqb wd wd' && gate_eqb g g' then Some (FScalar n wd g c') else None
  | FArray n g cnt elem, FArray n' g' _ elem' =>
      if String.eqb n n' && gate_eqb g g'
      then do e <- merge_seq merge_field elem elem' ;; Some (FArray n g cnt e) else None
  | FOffset n wd g nl op sub, FOffset n' wd' g' nl' op' sub' =>
      if String.eqb n n' && Nat.eqb wd wd' && gate_eqb g g' && Bool.eqb nl nl' && Bool.eqb op op'
      then (if op then Some (FOffset n wd g nl op []) else do s <- merge_seq merge_field sub sub' ;; Some (FOffset n wd g nl op s))
      else None
  | _, _ => None
  end.
Definition merge := merge_seq merge_field.

Definition compat (R W : schema) : bool :=
  match merge R W with
  | Some sch => wf_schema sch && strict_counts sch
  | None => false
  end.

(* weaker: same shape (order, widths, gates, offsets) but some count field is stored / hand-computed on the
   write side, so agreement of count and array is left to the value (checked by `valid`) *)
Definition compat_shape (R W : schema) : bool :=
  match merge R W with
  | Some sch => wf_schema sch
  | None => false
  end.

(* ---- correspondence cases written by harness/src/bin/c04.rs ----
   (W, R, written field values, compiled bytes, re-read field values): tables without offsets *)
Fixpoint zlist_eqb (a b : list Z) : bool :=
  match a, b with
  | [], [] => true
  | x :: r, y :: s => (x =? y) && zlist_eqb r s
  | _, _ => false
  end.

Fixpoint value_eqb (a b : value) {struct a} : bool :=
  match a, b with
  | VZ x, VZ y => x =? y
  | VAbsent, VAbsent => true
  | VNull, VNull => true
  | VBytes x, VBytes y => zlist_eqb x y
  | VTab x, VTab y | VArr x, VArr y =>
      (fix go (x y : list value) : bool :=
         match x, y with
         | [], [] => true
         | a :: r, b :: s => value_eqb a b && go r s
         | _, _ => false
         end) x y
  | _, _ => false
  end.

Definition values_eqb (a b : list value) : bool := value_eqb (VTab a) (VTab b).

Definition shard_case := (schema * schema * list value * list Z * list value)%type.

Definition check_case (c : shard_case) : bool :=
  let '(W, R, written, bytes, reread) := c in
  (match encode W written with
   | Some (Obj bs []) => zlist_eqb bs bytes
   | _ => false
   end) &&
  (match decode R (Obj bytes []) with
   | Some vs => values_eqb vs reread
   | None => false
   end).
