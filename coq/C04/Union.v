(* C04 — format enums as tagged unions (round 7).  Model only (no proofs).

   read-fonts/generated:  impl FontRead for <E> { let format: uN = data.read_at(0)?;
                            match format { <T>Marker::FORMAT => Ok(Self::<V>(FontRead::read(data)?)), .., other => Err(InvalidFormat) } }
   write-fonts/generated: impl FontWrite for <E> { match self { Self::<V>(item) => item.write_into(writer), .. } }
   A value of the union = (variant name, field values of that variant). *)
From Coq Require Import ZArith List Bool String.
From FV Require Import Lib.RustInt C04.Model C04.Merge.
Import ListNotations.
Open Scope Z_scope.

Definition union_r := (nat * list (string * Z * schema))%type.   (* tag width; (variant, FORMAT, R_T) per arm, source order *)
Definition union_w := list (string * schema).                     (* (variant, W_T) per arm *)

Fixpoint find_w (u : union_w) (variant : string) : option schema :=
  match u with
  | [] => None
  | (n, W) :: r => if String.eqb n variant then Some W else find_w r variant
  end.

(* `match self { Self::V(item) => item.write_into(writer) }` *)
Definition encode_union (u : union_w) (variant : string) (v : list value) : option obj :=
  do W <- find_w u variant ;; encode W v.

(* `match format { .. }`: first arm whose FORMAT constant equals the tag *)
Fixpoint find_fmt (arms : list (string * Z * schema)) (k : Z) : option (string * schema) :=
  match arms with
  | [] => None                                        (* other => Err(ReadError::InvalidFormat) *)
  | (n, f, R) :: r => if f =? k then Some (n, R) else find_fmt r k
  end.

Definition decode_union (u : union_r) (o : obj) : option (string * list value) :=
  let '(tw, arms) := u in
  match o with Obj bytes kids =>
    do p <- take tw bytes ;;                          (* data.read_at(0) *)
    do a <- find_fmt arms (from_be (fst p)) ;;
    do vs <- decode (snd a) o ;;                      (* FontRead::read(data): the variant re-reads from offset 0 *)
    Some (fst a, vs)
  end.

(* the two halves describe one union: every write variant starts with a literal of the tag's width whose value
   selects, on the read side, the arm of the SAME variant name, whose reader starts with an always-present scalar of
   that width, and the (reader, writer) pair of the variant has one shape and resolvable write-side references;
   both sides have the same number of arms *)
Definition arm_ok (tw : nat) (arms : list (string * Z * schema)) (p : string * schema) : bool :=
  let '(vn, W) := p in
  match W with
  | FScalar _ w GAlways (Lit k) :: _ =>
      match find_fmt arms k with
      | Some (vn', R) =>
          String.eqb vn' vn && Nat.eqb w tw &&
          (match R with FScalar _ w' GAlways _ :: _ => Nat.eqb w' tw | _ => false end) &&
          compat_shape R W && wref W
      | None => false
      end
  | _ => false
  end.

Definition union_ok (ur : union_r) (uw : union_w) : bool :=
  let '(tw, arms) := ur in
  forallb (arm_ok tw arms) uw && Nat.eqb (List.length arms) (List.length uw).

(* correspondence case: (UW, UR, variant written, field values, real bytes, variant re-read, real getters) — offset-free variants *)
Definition check_union (uw : union_w) (ur : union_r) (variant : string) (written : list value) (bytes : list Z)
                       (variant' : string) (reread : list value) : bool :=
  (match encode_union uw variant written with
   | Some (Obj bs []) => zlist_eqb bs bytes
   | _ => false
   end) &&
  (match decode_union ur (Obj bytes []) with
   | Some (vn, vs) => String.eqb vn variant' && values_eqb vs reread
   | None => false
   end).
