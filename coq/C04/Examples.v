(* C04 — non-vacuity of the hypotheses of Props.v, and refutation witnesses *)
From Coq Require Import ZArith List Bool String.
From FV Require Import Lib.RustInt C04.Model C04.Gen C04.Proofs C04.Reflect.
Import ListNotations.
Open Scope Z_scope. Open Scope string_scope.

(* a schema with a literal, a computed count, an array of records, a version gate, a nullable and a
   non-null offset to a sub-schema, an opaque child and a to-end array *)
Definition ex_cov : schema :=
  [FScalar "format" 2 GAlways (Lit 1); FScalar "glyph_count" 2 GAlways (LenOf "glyph_array" XId);
   FArray "glyph_array" GAlways (CField "glyph_count" XId) [FScalar "item" 2 GAlways Stored]].
Definition ex_tab : schema :=
  [FScalar "version" 4 GAlways (Opaque "compute_version"); FScalar "n" 2 GAlways (LenOf "recs" (XAddK 1));
   FArray "recs" GAlways (CField "n" (XSubK 1)) [FScalar "tag" 4 GAlways Stored; FOffset "cov" 2 GAlways true false ex_cov];
   FScalar "extra" 2 (GVerMM "version" 1 1) Stored;
   FOffset "store" 4 (GVerMM "version" 1 1) true true [];
   FArray "tail" GAlways CToEnd [FScalar "b" 1 GAlways Stored]].
Definition ex_v11 : list value :=
  [VZ 65537; VZ 0; VArr [VTab [VZ 7; VTab [VZ 0; VZ 0; VArr [VTab [VZ 5]; VTab [VZ 300]]]]; VTab [VZ 8; VNull]];
   VZ 9; VBytes [1; 2; 3]; VArr [VTab [VZ 1]; VTab [VZ 2]]].
Definition ex_v10 : list value :=
  [VZ 65536; VZ 0; VArr []; VAbsent; VAbsent; VArr []].

Example c04_roundtrip_nonvacuous :
  wf_schema ex_tab = true /\ strict_counts ex_tab = true /\ valid ex_tab ex_v11 = true /\ valid ex_tab ex_v10 = true /\
  (exists o, encode ex_tab ex_v11 = Some o /\ decode ex_tab o = Some (normalize ex_tab ex_v11)) /\
  (exists o, encode ex_tab ex_v10 = Some o /\ decode ex_tab o = Some (normalize ex_tab ex_v10)) /\
  normalize ex_tab ex_v11 <> ex_v11.
Proof.
  repeat split; try (vm_compute; reflexivity); try (eexists; split; vm_compute; reflexivity).
  vm_compute. discriminate.
Qed.

(* real extracted pairs are compat and their merged schema satisfies the hypotheses *)
Example c04_real_pair_nonvacuous :
  compat R_SequenceRule W_SequenceRule = true /\ compat R_Maxp W_Maxp = true /\ compat R_Colr W_Colr = true /\
  compat_shape R_Gasp W_Gasp = true /\ compat R_Gasp W_Gasp = false.
Proof. repeat split; vm_compute; reflexivity. Qed.

(* F-10 in the model: the version is hand-computed; when it comes out as 0 although a version-1 field is
   set, the value violates [valid] (gated-out field present), the writer silently drops the field and the
   round trip fails.  This is why [valid] is a hypothesis of c04_roundtrip_generic; the harness replays it on
   the real Colr (key F-10:colr-base-glyph-list-dropped). *)
Definition ex_colr : schema :=
  [FScalar "version" 2 GAlways (Opaque "compute_version"); FScalar "num" 2 GAlways Stored;
   FOffset "base_glyph_list" 4 (GVerU "version" 1) true true []].
Example c04_gate_dropped_refuted : exists v o,
  wf_schema ex_colr = true /\ valid ex_colr v = false /\ encode ex_colr v = Some o /\
  decode ex_colr o <> Some (normalize ex_colr v).
Proof.
  exists [VZ 0; VZ 2; VBytes [1; 2]]. eexists. repeat split; try (vm_compute; reflexivity).
  vm_compute. discriminate.
Qed.

(* a stored count that disagrees with its array (Gasp.num_ranges = 3 with one range): not [valid], and the
   reader does not get the value back *)
Example c04_stored_count_refuted : exists v o,
  valid W_Gasp v = false /\ encode W_Gasp v = Some o /\ decode R_Gasp o = None.
Proof.
  exists [VZ 1; VZ 3; VArr [VTab [VZ 8; VZ 2]]]. eexists. repeat split; vm_compute; reflexivity.
Qed.
