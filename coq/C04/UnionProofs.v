(* C04 — round trip through a format enum (tagged union over the variants' extracted schemas) *)
From Coq Require Import ZArith List Bool String Lia.
From FV Require Import Lib.RustInt C04.Model C04.Proofs C04.Merge C04.Union.
Import ListNotations.
Open Scope Z_scope.

Lemma find_w_in u vn W : find_w u vn = Some W -> In (vn, W) u.
Proof.
  induction u as [|[n W0] r IH]; cbn; [discriminate|].
  destruct (String.eqb n vn) eqn:E.
  - apply String.eqb_eq in E. intros H; inversion H; subst. auto.
  - intros H. right. exact (IH H).
Qed.

(* a reader that starts with an always-present scalar of width w returns the tag as its first value *)
Lemma decode_head n w c R' bytes kids vs :
  decode (FScalar n w GAlways c :: R') (Obj bytes kids) = Some vs ->
  exists p rest, take w bytes = Some p /\ vs = VZ (from_be (fst p)) :: rest.
Proof.
  unfold decode, dec_fields. cbn [dec_seq dec_field fgate gate_holds]. cbn [obind negb].
  destruct (take w bytes) as [p|]; cbn; [|discriminate].
  destruct (dec_seq dec_field R' _ (snd p) kids) as [[[vr b2] k2]|]; cbn; [|discriminate].
  intros H; inversion H; subst. eauto.
Qed.

Lemma normalize_head_lit n w g k S' v x rest :
  normalize (FScalar n w g (Lit k) :: S') v = VZ x :: rest -> x = k.
Proof.
  unfold normalize, norm_fields. destruct v as [|v0 vr]; cbn [zipn norm_seq]; [discriminate|].
  cbn [norm_field]. unfold computed. destruct v0; intros H; inversion H; reflexivity.
Qed.

Theorem union_roundtrip : forall (ur : union_r) (uw : union_w) variant W,
  union_ok ur uw = true -> find_w uw variant = Some W ->
  exists k R S, find_fmt (snd ur) k = Some (variant, R) /\ merge R W = Some S /\
    forall v o, valid S v = true -> encode_union uw variant v = Some o ->
      decode_union ur o = Some (variant, normalize S v).
Proof.
  intros [tw arms] uw variant W Hok Hf. unfold union_ok in Hok.
  apply andb_true_iff in Hok. destruct Hok as [Hok _].
  rewrite forallb_forall in Hok. specialize (Hok _ (find_w_in _ _ _ Hf)).
  unfold arm_ok in Hok.
  destruct W as [|[n w g c| |] W']; try discriminate.
  destruct g; try discriminate. destruct c as [| k | |]; try discriminate.
  destruct (find_fmt arms k) as [[vn' R]|] eqn:Hfmt; [|discriminate].
  apply andb_true_iff in Hok. destruct Hok as [Hok Hwr].
  apply andb_true_iff in Hok. destruct Hok as [Hok Hcs].
  apply andb_true_iff in Hok. destruct Hok as [Hok HR].
  apply andb_true_iff in Hok. destruct Hok as [Hvn Hw].
  apply String.eqb_eq in Hvn. apply Nat.eqb_eq in Hw. subst vn' w.
  destruct R as [|[rn rw rg rc| |] R']; try discriminate.
  destruct rg; try discriminate. apply Nat.eqb_eq in HR. subst rw.
  pose proof Hcs as Hcs'. unfold compat_shape in Hcs'.
  destruct (merge (FScalar rn tw GAlways rc :: R') (FScalar n tw GAlways (Lit k) :: W')) as [S|] eqn:Hm; [|discriminate].
  exists k, (FScalar rn tw GAlways rc :: R'), S. cbn [snd].
  split; [exact Hfmt|]. split; [exact Hm|].
  intros v o Hv He. unfold encode_union in He. rewrite Hf in He. cbn [obind] in He.
  destruct (extracted_roundtrip_shape _ _ S v o Hcs Hwr Hm Hv He) as [Hd _].
  (* the merged schema starts with the literal *)
  assert (HS : exists S', S = FScalar rn tw GAlways (Lit k) :: S').
  { unfold merge in Hm. destruct (merge_seq_cons _ _ _ _ _ _ Hm) as [s [Sr [Hs [_ ->]]]].
    apply merge_field_inv in Hs. inversion Hs; subst. eauto. }
  destruct HS as [S' ->].
  destruct o as [bytes kids].
  destruct (decode_head _ _ _ _ _ _ _ Hd) as [p [rest [Ht Hn]]].
  pose proof (normalize_head_lit _ _ _ _ _ _ _ _ Hn) as Hk.
  unfold decode_union. rewrite Ht. cbn [obind]. rewrite Hk, Hfmt. cbn [obind snd fst].
  rewrite Hd. reflexivity.
Qed.
