(* C04 — proofs about the generic codec of Model.v *)
From Coq Require Import ZArith List Bool String Lia.
From FV Require Import Lib.RustInt C04.Model.
Import ListNotations.
Open Scope Z_scope.

(* ---------- nested induction principle for [field] ---------- *)
Section FieldInd.
  Variable P : field -> Prop.
  Hypothesis HS : forall n w g c, P (FScalar n w g c).
  Hypothesis HA : forall n g cnt elem, Forall P elem -> P (FArray n g cnt elem).
  Hypothesis HO : forall n w g nl op sub, Forall P sub -> P (FOffset n w g nl op sub).
  Fixpoint field_ind' (f : field) : P f :=
    match f with
    | FScalar n w g c => HS n w g c
    | FArray n g cnt elem =>
        HA n g cnt elem ((fix go (l : list field) : Forall P l :=
                            match l with
                            | [] => Forall_nil _
                            | x :: r => Forall_cons x (field_ind' x) (go r)
                            end) elem)
    | FOffset n w g nl op sub =>
        HO n w g nl op sub ((fix go (l : list field) : Forall P l :=
                               match l with
                               | [] => Forall_nil _
                               | x :: r => Forall_cons x (field_ind' x) (go r)
                               end) sub)
    end.
End FieldInd.

(* ---------- small lemmas ---------- *)
Lemma obind_some {A B} (o : option A) (f : A -> option B) b :
  obind o f = Some b -> exists a, o = Some a /\ f a = Some b.
Proof. destruct o; cbn; intros H; [eauto | discriminate]. Qed.

Lemma inverse_apply xr xw n : inverse_of xr xw = true -> 0 <= n -> apply_x xr (apply_x xw n) = n.
Proof.
  destruct xr, xw; unfold inverse_of, apply_x; try discriminate; intros H Hn.
  - reflexivity.
  - apply andb_true_iff in H. destruct H as [H1 H2]. apply Z.eqb_eq in H1. apply Z.leb_le in H2. subst. lia.
  - rewrite Z.mul_comm. rewrite Z.div_mul by lia. reflexivity.
Qed.

Lemma take_app {A} (a b : list A) : take (List.length a) (a ++ b) = Some (a, b).
Proof. induction a as [|x a IH]; cbn; [reflexivity|]. rewrite IH. reflexivity. Qed.

Lemma take_repeat {A} (x : A) w (b : list A) : take w (repeat x w ++ b) = Some (repeat x w, b).
Proof. pose proof (take_app (repeat x w) b) as H. rewrite repeat_length in H. exact H. Qed.

Lemma take_to_be w z (b : list Z) : take w (to_be w z ++ b) = Some (to_be w z, b).
Proof. pose proof (take_app (to_be w z) b) as H. rewrite to_be_length in H. exact H. Qed.

Lemma all_zero_repeat0 w : forallb (Z.eqb 0) (repeat 0 w) = true.
Proof. induction w; cbn; auto. Qed.

Lemma all_zero_repeat255 w : w <> O -> forallb (Z.eqb 0) (repeat 255 w) = false.
Proof. destruct w; [congruence|]. reflexivity. Qed.

Lemma string_eqb_refl s : String.eqb s s = true.
Proof. apply String.eqb_refl. Qed.

Lemma mem_app n a b : mem n (a ++ b) = mem n a || mem n b.
Proof. unfold mem. apply existsb_app. Qed.

Lemma mem_In n l : mem n l = true <-> In n l.
Proof.
  unfold mem. rewrite existsb_exists. split.
  - intros [x [Hx He]]. apply String.eqb_eq in He. subst. exact Hx.
  - intros H. exists n. split; [exact H | apply String.eqb_refl].
Qed.

Lemma zipn_app pre fs vpre vs : List.length pre = List.length vpre ->
  zipn (pre ++ fs) (vpre ++ vs) = zipn pre vpre ++ zipn fs vs.
Proof.
  revert vpre. induction pre as [|p pre IH]; intros [|v vpre] H; cbn in *; try discriminate; auto.
  rewrite IH by lia. reflexivity.
Qed.

Lemma zipn_snoc pre vpre f v : List.length pre = List.length vpre ->
  zipn (pre ++ [f]) (vpre ++ [v]) = zipn pre vpre ++ [(fname f, v)].
Proof. intros H. rewrite zipn_app by exact H. reflexivity. Qed.

Lemma assoc_app_l a b n : mem n (map fst a) = true -> assoc (a ++ b) n = assoc a n.
Proof.
  induction a as [|[k v] a IH]; cbn; [discriminate|].
  rewrite (String.eqb_sym n k). destruct (String.eqb k n); cbn; auto.
Qed.

Lemma assoc_app_r a b n : mem n (map fst a) = false -> assoc (a ++ b) n = assoc b n.
Proof.
  induction a as [|[k v] a IH]; cbn; [reflexivity|].
  rewrite (String.eqb_sym n k). destruct (String.eqb k n); cbn; [discriminate | auto].
Qed.

Lemma map_fst_zipn pre vpre : List.length pre = List.length vpre -> map fst (zipn pre vpre) = map fname pre.
Proof.
  revert vpre. induction pre as [|p pre IH]; intros [|v vpre] H; cbn in *; try discriminate; auto.
  rewrite IH by lia. reflexivity.
Qed.

(* agreement of two contexts on a set of names *)
Definition agree (seen : list name) (env c : ctx) : Prop :=
  forall n, mem n seen = true -> assoc env n = assoc c n.

Lemma agree_prefix pre vpre fs vs : List.length pre = List.length vpre ->
  agree (map fname pre) (zipn pre vpre) (zipn (pre ++ fs) (vpre ++ vs)).
Proof.
  intros H n Hn. rewrite zipn_app by exact H. symmetry. apply assoc_app_l.
  rewrite map_fst_zipn by exact H. exact Hn.
Qed.

Lemma lookup_z_agree seen env c n : agree seen env c -> mem n seen = true -> lookup_z env n = lookup_z c n.
Proof. intros H Hn. unfold lookup_z. rewrite (H n Hn). reflexivity. Qed.

Lemma gate_agree seen env c g : agree seen env c ->
  forallb (fun n => mem n seen) (gate_refs g) = true -> gate_holds g env = gate_holds g c.
Proof.
  intros H Hr. destruct g; cbn in *; try reflexivity;
    rewrite andb_true_r in Hr; rewrite (lookup_z_agree _ _ _ _ H Hr); reflexivity.
Qed.

Lemma to_be_len w z : List.length (to_be w z) = w.
Proof. apply to_be_length. Qed.

Lemma in_width_range w z : in_width w z = true -> 0 <= z < 256 ^ Z.of_nat w.
Proof. unfold in_width. intros H. apply andb_true_iff in H. destruct H as [A B]. apply Z.leb_le in A. apply Z.ltb_lt in B. lia. Qed.

(* ---------- fixed-size elements ---------- *)
Lemma fixed_size_enc : forall fs c vs bs ks sz,
  fixed_size fs = Some sz -> enc_seq enc_field fs c vs = Some (bs, ks) -> List.length bs = sz.
Proof.
  induction fs as [|f fr IH]; intros c vs bs ks sz Hsz He.
  - destruct vs; cbn in *; [|discriminate]. inversion Hsz; inversion He; subst. reflexivity.
  - destruct vs as [|v vr]; [cbn in He; discriminate|].
    cbn [enc_seq] in He.
    apply obind_some in He. destruct He as [[hb hk] [Hh He]].
    apply obind_some in He. destruct He as [[rb rk] [Hr He]].
    cbn in He. inversion He; subst; clear He.
    rewrite app_length.
    destruct f as [n w g cp | n g cnt elem | n w g nl op sub]; cbn [fixed_size] in Hsz.
    + destruct g; try discriminate.
      apply obind_some in Hsz. destruct Hsz as [m [Hm Hsz]]. inversion Hsz; subst; clear Hsz.
      rewrite (IH _ _ _ _ _ Hm Hr).
      cbn in Hh. destruct v; try discriminate. destruct (in_width w z); try discriminate.
      inversion Hh; subst. rewrite to_be_len. reflexivity.
    + discriminate.
    + destruct g; try discriminate.
      apply obind_some in Hsz. destruct Hsz as [m [Hm Hsz]]. inversion Hsz; subst; clear Hsz.
      rewrite (IH _ _ _ _ _ Hm Hr).
      cbn in Hh. destruct v; try discriminate.
      * destruct nl; try discriminate. inversion Hh; subst. rewrite repeat_length. reflexivity.
      * destruct op; try discriminate.
        apply obind_some in Hh. destruct Hh as [a [_ Hh]]. inversion Hh; subst. rewrite repeat_length. reflexivity.
      * destruct op; try discriminate. inversion Hh; subst. rewrite repeat_length. reflexivity.
Qed.

Lemma enc_rows_len elem sz : fixed_size elem = Some sz -> forall rows bs ks,
  enc_rows enc_field elem rows = Some (bs, ks) -> List.length bs = (List.length rows * sz)%nat.
Proof.
  intros Hsz. induction rows as [|r rows IH]; intros bs ks He; cbn in He.
  - inversion He; subst. reflexivity.
  - destruct r; try discriminate.
    apply obind_some in He. destruct He as [[ab ak] [Ha He]].
    apply obind_some in He. destruct He as [[bb bk] [Hb He]].
    cbn in He. inversion He; subst; clear He.
    rewrite app_length. rewrite (fixed_size_enc _ _ _ _ _ _ Hsz Ha). rewrite (IH _ _ Hb). cbn. lia.
Qed.

(* ---------- the round trip ---------- *)
Definition is_toend (f : field) : bool :=
  match f with FArray _ _ CToEnd _ => true | _ => false end.

Definition RT (f : field) : Prop :=
  forall c env v bs ks rest krest seen last,
    agree seen env c ->
    wf_field seen last f = true ->
    (is_toend f = true -> rest = []) ->
    enc_field f c v = Some (bs, ks) ->
    valid_field f c v = true ->
    dec_field f env (bs ++ rest) (ks ++ krest) = Some (v, rest, krest).

Definition RTS (fs : list field) : Prop :=
  forall pre vpre vs bs ks rest krest,
    List.length pre = List.length vpre ->
    wf_seq wf_field (map fname pre) fs = true ->
    (has_toend fs = true -> rest = []) ->
    enc_seq enc_field fs (zipn (pre ++ fs) (vpre ++ vs)) vs = Some (bs, ks) ->
    valid_seq valid_field fs (zipn (pre ++ fs) (vpre ++ vs)) vs = true ->
    dec_seq dec_field fs (zipn pre vpre) (bs ++ rest) (ks ++ krest) = Some (vs, rest, krest).

Lemma has_toend_cons f fr : has_toend (f :: fr) = is_toend f || (negb (is_toend f) && has_toend fr).
Proof.
  destruct f as [| n g cnt elem |]; cbn; try reflexivity. destruct cnt; reflexivity.
Qed.

Lemma RTS_of_Forall fs : Forall RT fs -> RTS fs.
Proof.
  induction 1 as [|f fr Hf Hfr IH]; intros pre vpre vs bs ks rest krest Hlen Hwf Hte He Hv.
  - destruct vs; cbn in He; [|discriminate]. inversion He; subst. reflexivity.
  - destruct vs as [|v vr]; [cbn in He; discriminate|].
    cbn [enc_seq] in He.
    apply obind_some in He. destruct He as [[hb hk] [Hh He]].
    apply obind_some in He. destruct He as [[rb rk] [Hr He]].
    cbn in He. inversion He; subst; clear He.
    cbn [valid_seq] in Hv. apply andb_true_iff in Hv. destruct Hv as [Hv1 Hv2].
    cbn [wf_seq] in Hwf. apply andb_true_iff in Hwf. destruct Hwf as [Hw1 Hw2].
    cbn [dec_seq].
    rewrite <- !app_assoc.
    assert (Hrest : is_toend f = true -> rb ++ rest = []).
    { intros Ht. rewrite has_toend_cons in Hte. rewrite Ht in Hte. cbn in Hte. rewrite (Hte eq_refl).
      (* to-end arrays are last: fr = [] *)
      destruct f as [| n g cnt elem |]; cbn in Ht; try discriminate. destruct cnt; try discriminate.
      cbn in Hw1. destruct fr as [|x fr'].
      - destruct vr; cbn in Hr; [|discriminate]. inversion Hr; subst. reflexivity.
      - rewrite !andb_false_r in Hw1. cbn in Hw1. rewrite ?andb_false_r in Hw1. discriminate. }
    rewrite (Hf _ (zipn pre vpre) v hb hk (rb ++ rest) (rk ++ krest) (map fname pre) _
                (agree_prefix pre vpre (f :: fr) (v :: vr) Hlen) Hw1 Hrest Hh Hv1).
    cbn.
    rewrite <- (zipn_snoc pre vpre f v Hlen).
    assert (Hlen' : List.length (pre ++ [f]) = List.length (vpre ++ [v])) by (rewrite !app_length; cbn; lia).
    assert (Hctx : zipn (pre ++ f :: fr) (vpre ++ v :: vr) = zipn ((pre ++ [f]) ++ fr) ((vpre ++ [v]) ++ vr))
      by (rewrite <- !app_assoc; reflexivity).
    rewrite Hctx in Hr, Hv2.
    assert (Hwf' : wf_seq wf_field (map fname (pre ++ [f])) fr = true) by (rewrite map_app; exact Hw2).
    assert (Hte' : has_toend fr = true -> rest = []).
    { intros Ht. apply Hte. rewrite has_toend_cons. rewrite Ht.
      destruct (is_toend f); reflexivity. }
    rewrite (IH (pre ++ [f]) (vpre ++ [v]) vr rb rk rest krest Hlen' Hwf' Hte' Hr Hv2).
    reflexivity.
Qed.

Lemma rows_rt elem : RTS elem -> wf_seq wf_field [] elem = true -> has_toend elem = false ->
  forall rows bs ks rest krest,
    enc_rows enc_field elem rows = Some (bs, ks) ->
    forallb (fun r => match r with VTab rvs => valid_seq valid_field elem (zipn elem rvs) rvs | _ => false end) rows = true ->
    dec_rows dec_field elem (List.length rows) (bs ++ rest) (ks ++ krest) = Some (rows, rest, krest).
Proof.
  intros HR Hwf Hte. induction rows as [|r rows IH]; intros bs ks rest krest He Hv; cbn in He.
  - inversion He; subst. reflexivity.
  - destruct r; try discriminate.
    apply obind_some in He. destruct He as [[ab ak] [Ha He]].
    apply obind_some in He. destruct He as [[bb bk] [Hb He]].
    cbn in He. inversion He; subst; clear He.
    cbn [forallb] in Hv. apply andb_true_iff in Hv. destruct Hv as [Hv1 Hv2].
    cbn [List.length dec_rows]. rewrite <- !app_assoc.
    assert (Hte' : has_toend elem = true -> bb ++ rest = []) by (rewrite Hte; discriminate).
    pose proof (HR [] [] vs ab ak (bb ++ rest) (bk ++ krest) eq_refl Hwf Hte' Ha Hv1) as Hd.
    cbn [zipn] in Hd. rewrite Hd. cbn.
    rewrite (IH _ _ _ _ Hb Hv2). reflexivity.
Qed.

Lemma RT_all : forall f, RT f.
Proof.
  apply field_ind'.
  - (* scalar *)
    intros n w g cp c env v bs ks rest krest seen last Hag Hwf _ He Hv.
    cbn in Hwf. apply andb_true_iff in Hwf. destruct Hwf as [Hwf _].
    apply andb_true_iff in Hwf. destruct Hwf as [Hg _].
    cbn [dec_field enc_field valid_field fgate] in *.
    rewrite (gate_agree _ _ _ _ Hag Hg).
    destruct (gate_holds g c) as [[|]|]; cbn in *; try discriminate.
    + destruct v; try discriminate. destruct (in_width w z) eqn:Hw; try discriminate.
      inversion He; subst. cbn.
      rewrite take_to_be. cbn.
      rewrite from_to_be by (apply in_width_range; exact Hw). reflexivity.
    + destruct v; try discriminate. inversion He; subst. reflexivity.
  - (* array *)
    intros n g cnt elem IHe c env v bs ks rest krest seen last Hag Hwf Hte He Hv.
    cbn in Hwf. apply andb_true_iff in Hwf. destruct Hwf as [Hwf Hw3].
    apply andb_true_iff in Hwf. destruct Hwf as [Hg _].
    apply andb_true_iff in Hw3. destruct Hw3 as [Hw3 Hcnt].
    apply andb_true_iff in Hw3. destruct Hw3 as [Hwe Hnte]. apply negb_true_iff in Hnte.
    cbn [dec_field enc_field valid_field fgate] in *.
    rewrite (gate_agree _ _ _ _ Hag Hg).
    destruct (gate_holds g c) as [[|]|]; cbn in *; try discriminate.
    + destruct v; try discriminate.
      apply andb_true_iff in Hv. destruct Hv as [Hvr Hvc].
      assert (Hk : count_of cnt elem env (bs ++ rest) = Some (List.length rows)).
      { destruct cnt as [cf x | k | |]; cbn in *.
        - rewrite (lookup_z_agree _ _ _ _ Hag Hcnt).
          destruct (lookup_z c cf); try discriminate. cbn. apply Z.eqb_eq in Hvc. rewrite Hvc.
          rewrite Nat2Z.id. reflexivity.
        - apply Z.eqb_eq in Hvc. subst. rewrite Nat2Z.id. reflexivity.
        - apply andb_true_iff in Hcnt. destruct Hcnt as [_ Hsz].
          destruct (fixed_size elem) as [sz|] eqn:Hfs; try discriminate. cbn.
          apply negb_true_iff in Hsz. rewrite Hsz.
          rewrite (Hte eq_refl), app_nil_r.
          rewrite (enc_rows_len _ _ Hfs _ _ _ He).
          rewrite Nat.div_mul; [reflexivity|]. apply Nat.eqb_neq in Hsz. exact Hsz.
        - discriminate. }
      rewrite Hk. cbn.
      rewrite (rows_rt elem (RTS_of_Forall _ IHe) Hwe Hnte rows bs ks rest krest He Hvr). reflexivity.
    + destruct v; try discriminate. inversion He; subst. reflexivity.
  - (* offset *)
    intros n w g nl op sub IHs c env v bs ks rest krest seen last Hag Hwf _ He Hv.
    cbn in Hwf. apply andb_true_iff in Hwf. destruct Hwf as [Hwf Hw3].
    apply andb_true_iff in Hwf. destruct Hwf as [Hg _].
    apply andb_true_iff in Hw3. destruct Hw3 as [Hw0 Hws]. apply negb_true_iff in Hw0. apply Nat.eqb_neq in Hw0.
    cbn [dec_field enc_field valid_field fgate] in *.
    rewrite (gate_agree _ _ _ _ Hag Hg).
    destruct (gate_holds g c) as [[|]|]; cbn in *; try discriminate.
    + destruct v; try discriminate.
      * (* null *)
        destruct nl; try discriminate. inversion He; subst. cbn.
        rewrite take_repeat. cbn.
        unfold all_zero. rewrite all_zero_repeat0. reflexivity.
      * (* table *)
        destruct op; try discriminate.
        apply obind_some in He. destruct He as [[ab ak] [Ha He]]. cbn in He. inversion He; subst; clear He.
        cbn. rewrite take_repeat. cbn.
        unfold all_zero. rewrite (all_zero_repeat255 w Hw0). cbn.
        assert (Hte' : has_toend sub = true -> @nil Z = []) by reflexivity.
        pose proof (RTS_of_Forall _ IHs [] [] vs ab ak [] [] eq_refl Hws Hte' Ha Hv) as Hd.
        rewrite !app_nil_r in Hd. cbn [zipn] in Hd. rewrite Hd. reflexivity.
      * (* opaque bytes *)
        destruct op; try discriminate. inversion He; subst. cbn.
        rewrite take_repeat. cbn.
        unfold all_zero. rewrite (all_zero_repeat255 w Hw0). reflexivity.
    + destruct v; try discriminate. inversion He; subst. reflexivity.
Qed.

Lemma RTS_all fs : RTS fs.
Proof. apply RTS_of_Forall. apply Forall_forall. intros f _. apply RT_all. Qed.

(* the round trip on the object graph: decode (encode v) = normalize v, for every valid value *)
Theorem roundtrip_valid : forall (sch : schema) (v : list value) (o : obj),
  wf_schema sch = true -> valid sch v = true -> encode sch v = Some o ->
  decode sch o = Some (normalize sch v).
Proof.
  intros sch v o Hwf Hv He. unfold encode in He. unfold valid in Hv.
  apply obind_some in He. destruct He as [[bs ks] [He Ho]]. inversion Ho; subst; clear Ho.
  unfold decode. cbn [fst snd].
  assert (Hte : has_toend sch = true -> @nil Z = []) by reflexivity.
  pose proof (RTS_all sch [] [] (normalize sch v) bs ks [] [] eq_refl Hwf Hte He Hv) as Hd.
  rewrite !app_nil_r in Hd. cbn [zipn] in Hd. unfold dec_fields. rewrite Hd. reflexivity.
Qed.

(* ---------- computed counts agree with their arrays (what [strict_counts] / [compat] buys) ---------- *)
Lemma assoc_norm_first nf : forall fs raw vs cf f v,
  find_field fs cf = Some f -> assoc (zipn fs vs) cf = Some v ->
  assoc (zipn fs (norm_seq nf fs raw vs)) cf = Some (nf f raw v).
Proof.
  induction fs as [|f0 fr IH]; intros raw vs cf f v Hf Ha; cbn in *; [discriminate|].
  destruct vs as [|v0 vr]; cbn in *; [discriminate|].
  destruct (String.eqb (fname f0) cf) eqn:E.
  - inversion Hf; inversion Ha; subst. reflexivity.
  - eapply IH; eauto.
Qed.

(* If the writer computes count field [cf] from array [arr] with [xw] and the reader applies an inverse
   [xr], then in the normalized value the count the reader derives IS the array's length. *)
Theorem computed_count_agrees : forall (sch : schema) vs cf cf' w g arr xw xr rows z,
  find_field sch cf = Some (FScalar cf' w g (LenOf arr xw)) ->
  inverse_of xr xw = true ->
  assoc (zipn sch vs) arr = Some (VArr rows) ->
  assoc (zipn sch vs) cf = Some (VZ z) ->
  count_agrees (CField cf xr) (zipn sch (normalize sch vs)) (List.length rows) = true.
Proof.
  intros sch vs cf cf' w g arr xw xr rows z Hf Hinv Harr Hcf.
  unfold count_agrees, lookup_z, normalize, norm_fields.
  rewrite (assoc_norm_first norm_field sch (zipn sch vs) vs cf _ _ Hf Hcf).
  cbn. unfold lookup_len. rewrite Harr.
  apply Z.eqb_eq. apply inverse_apply; [exact Hinv | lia].
Qed.

(* ---------- recompiling the re-read value gives the same object: normalize is idempotent ---------- *)
Definition len_mono (raw' raw : ctx) : Prop :=
  forall a n, lookup_len raw' a = Some n -> lookup_len raw a = Some n.

Lemma computed_varr raw c v rows : computed raw c v = VArr rows -> v = VArr rows.
Proof.
  unfold computed. destruct v; try discriminate; destruct c; try discriminate; auto;
    destruct (lookup_len raw arr); try discriminate; auto.
Qed.

Lemma norm_field_varr f raw v rows' : norm_field f raw v = VArr rows' ->
  exists rows, v = VArr rows /\ List.length rows = List.length rows'.
Proof.
  destruct f as [n w g c | n g cnt elem | n w g nl op sub]; cbn.
  - intros H. apply computed_varr in H. subst. eauto.
  - destruct v; try discriminate. intros H. inversion H; subst. eexists; split; [reflexivity|]. rewrite map_length. reflexivity.
  - destruct v; try discriminate.
    + destruct op; discriminate.
    + intros H. inversion H; subst. eauto.
Qed.

Lemma len_mono_norm : forall fs raw vs, len_mono (zipn fs (norm_seq norm_field fs raw vs)) (zipn fs vs).
Proof.
  induction fs as [|f fr IH]; intros raw vs a n; cbn; [discriminate|].
  destruct vs as [|v vr]; cbn; [discriminate|].
  unfold lookup_len in *. cbn.
  destruct (String.eqb (fname f) a) eqn:E.
  - destruct (norm_field f raw v) eqn:Hn; try discriminate.
    intros H. inversion H; subst. apply norm_field_varr in Hn. destruct Hn as [r [Hv Hl]]. subst. rewrite Hl. reflexivity.
  - apply IH.
Qed.

Lemma computed_idem raw raw' c v : len_mono raw' raw -> computed raw' c (computed raw c v) = computed raw c v.
Proof.
  intros Hm. unfold computed at 2. destruct v; try reflexivity; destruct c; try reflexivity; cbn;
    try (destruct (lookup_len raw arr) eqn:E; cbn;
         [ destruct (lookup_len raw' arr) eqn:E'; [apply Hm in E'; rewrite E in E'; inversion E'; reflexivity | reflexivity]
         | destruct (lookup_len raw' arr) eqn:E'; [apply Hm in E'; rewrite E in E'; discriminate | reflexivity] ]).
Qed.

Definition IDEM (f : field) : Prop :=
  forall raw raw' v, len_mono raw' raw -> norm_field f raw' (norm_field f raw v) = norm_field f raw v.

Lemma idem_seq fs : Forall IDEM fs -> forall raw raw' vs, len_mono raw' raw ->
  norm_seq norm_field fs raw' (norm_seq norm_field fs raw vs) = norm_seq norm_field fs raw vs.
Proof.
  induction 1 as [|f fr Hf _ IH]; intros raw raw' vs Hm; [reflexivity|].
  destruct vs as [|v vr]; [reflexivity|]. cbn. rewrite (Hf _ _ _ Hm), (IH _ _ _ Hm). reflexivity.
Qed.

Lemma idem_all : forall f, IDEM f.
Proof.
  apply field_ind'.
  - intros n w g c raw raw' v Hm. cbn. apply computed_idem. exact Hm.
  - intros n g cnt elem IHe raw raw' v Hm. cbn. destruct v; try reflexivity. f_equal.
    rewrite map_map. apply map_ext. intros r. destruct r; try reflexivity. f_equal.
    apply (idem_seq elem IHe). apply len_mono_norm.
  - intros n w g nl op sub IHs raw raw' v Hm. cbn. destruct v; try reflexivity.
    destruct op; cbn; [reflexivity|]. f_equal.
    apply (idem_seq sub IHs). apply len_mono_norm.
Qed.

Theorem normalize_idempotent : forall (sch : schema) v, normalize sch (normalize sch v) = normalize sch v.
Proof.
  intros sch v. unfold normalize, norm_fields.
  apply idem_seq; [apply Forall_forall; intros f _; apply idem_all | apply len_mono_norm].
Qed.

Theorem recompile_stable_lemma : forall (sch : schema) v, encode sch (normalize sch v) = encode sch v.
Proof. intros sch v. unfold encode. rewrite normalize_idempotent. reflexivity. Qed.

(* the re-read value compiles to the same object *)
Theorem reread_recompiles : forall (sch : schema) v o v',
  wf_schema sch = true -> valid sch v = true -> encode sch v = Some o -> decode sch o = Some v' ->
  encode sch v' = Some o.
Proof.
  intros sch v o v' Hwf Hv He Hd. rewrite (roundtrip_valid sch v o Hwf Hv He) in Hd. inversion Hd; subst.
  rewrite recompile_stable_lemma. exact He.
Qed.

(* ---------- version gating: a gated field is present after reading iff the gate holds on what was read ---------- *)
Lemma dec_field_gate f env bytes kids v b k :
  dec_field f env bytes kids = Some (v, b, k) ->
  exists gb, gate_holds (fgate f) env = Some gb /\ (gb = true <-> v <> VAbsent).
Proof.
  destruct f as [n w g c | n g cnt elem | n w g nl op sub]; cbn [dec_field fgate];
    intros H; apply obind_some in H; destruct H as [gb [Hg H]]; exists gb; (split; [exact Hg|]);
    destruct gb; cbn in H.
  - apply obind_some in H. destruct H as [p [_ H]]. inversion H; subst. split; [discriminate | reflexivity].
  - inversion H; subst. split; [discriminate | congruence].
  - apply obind_some in H. destruct H as [kk [_ H]]. apply obind_some in H. destruct H as [[[rows b2] k2] [_ H]].
    inversion H; subst. split; [discriminate | reflexivity].
  - inversion H; subst. split; [discriminate | congruence].
  - apply obind_some in H. destruct H as [p [_ H]].
    destruct (all_zero (fst p)).
    + destruct nl; [|discriminate]. inversion H; subst. split; [discriminate | reflexivity].
    + destruct kids as [|[cb ck] kr]; [discriminate|]. destruct op.
      * inversion H; subst. split; [discriminate | reflexivity].
      * apply obind_some in H. destruct H as [[[cvs b'] k'] [_ H]]. inversion H; subst. split; [discriminate | reflexivity].
  - inversion H; subst. split; [discriminate | congruence].
Qed.

Lemma dec_seq_gating : forall fs pre vpre bytes kids vs b k,
  List.length pre = List.length vpre ->
  wf_seq wf_field (map fname pre) fs = true ->
  dec_seq dec_field fs (zipn pre vpre) bytes kids = Some (vs, b, k) ->
  Forall2 (fun f v => v <> VAbsent <-> gate_holds (fgate f) (zipn (pre ++ fs) (vpre ++ vs)) = Some true) fs vs.
Proof.
  induction fs as [|f fr IH]; intros pre vpre bytes kids vs b k Hlen Hwf Hd; cbn [dec_seq] in Hd.
  - inversion Hd; subst. constructor.
  - apply obind_some in Hd. destruct Hd as [[[v b1] k1] [Hf Hd]].
    apply obind_some in Hd. destruct Hd as [[[vr b2] k2] [Hr Hd]]. inversion Hd; subst; clear Hd.
    cbn [wf_seq] in Hwf. apply andb_true_iff in Hwf. destruct Hwf as [Hw1 Hw2].
    assert (Hg : forallb (fun n => mem n (map fname pre)) (gate_refs (fgate f)) = true).
    { destruct f; cbn in Hw1; apply andb_true_iff in Hw1; destruct Hw1 as [Hw1 _];
        apply andb_true_iff in Hw1; destruct Hw1 as [Hw1 _]; exact Hw1. }
    constructor.
    + destruct (dec_field_gate _ _ _ _ _ _ _ Hf) as [gb [Hgb Hiff]].
      rewrite (gate_agree _ _ _ _ (agree_prefix pre vpre (f :: fr) (v :: vr) Hlen) Hg) in Hgb.
      rewrite Hgb. split.
      * intros Hv. apply Hiff in Hv. subst. reflexivity.
      * intros Hs. inversion Hs; subst. apply Hiff. reflexivity.
    + rewrite <- (zipn_snoc pre vpre f v Hlen) in Hr.
      assert (Hlen' : List.length (pre ++ [f]) = List.length (vpre ++ [v])) by (rewrite !app_length; cbn; lia).
      assert (Hwf' : wf_seq wf_field (map fname (pre ++ [f])) fr = true) by (rewrite map_app; exact Hw2).
      pose proof (IH _ _ _ _ _ _ _ Hlen' Hwf' Hr) as HF.
      rewrite <- !app_assoc in HF. exact HF.
Qed.

Theorem version_gating_lemma : forall (sch : schema) o vs,
  wf_schema sch = true -> decode sch o = Some vs ->
  Forall2 (fun f v => v <> VAbsent <-> gate_holds (fgate f) (zipn sch vs) = Some true) sch vs.
Proof.
  intros sch [bytes kids] vs Hwf Hd. unfold decode in Hd.
  apply obind_some in Hd. destruct Hd as [[[vs' b] k] [Hd H]]. inversion H; subst.
  exact (dec_seq_gating sch [] [] bytes kids vs b k eq_refl Hwf Hd).
Qed.
