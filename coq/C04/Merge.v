(* C04 — the merge lemmas: the codec of the MERGED schema is the codec of the two extracted halves.

     decode (merge R W) = decode R            (unconditionally: the reader never looks at [compute])
     normalize / encode (merge R W) = normalize / encode W
                                              (when the merged schema is well formed and every name the
                                               write half refers to — gate fields, `array_len(&self.arr)`
                                               arrays — is a NAMED field of the write half: [wref W])

   The side condition [wref] is needed because the write half has anonymous scalars (literals / computed
   counts have no name in the text of `write_into`; the extractor names them ""), which [merge] renames to the
   reader's name: a gate of W that referred to such a field by its reader's name would be evaluated on a
   context in which that name does not occur.  [wref] is decidable and checked on every extracted pair by
   vm_compute (MergeAll.v).

   Corollary [extracted_roundtrip]: the generic round trip stated directly on the two EXTRACTED halves
   (which are the definitions the correspondence shards evaluate against the real bytes / real getters). *)
From Coq Require Import ZArith List Bool String Lia.
From FV Require Import Lib.RustInt C04.Model C04.Proofs.
Import ListNotations.
Open Scope Z_scope.

(* ---------- names the write half refers to ---------- *)
Definition compute_refs (c : compute) : list name :=
  match c with LenOf arr _ => [arr] | _ => [] end.
Definition field_refs (f : field) : list name :=
  gate_refs (fgate f) ++ match f with FScalar _ _ _ c => compute_refs c | _ => [] end.
Definition ref_ok (names : list name) (r : name) : bool :=
  negb (String.eqb r EmptyString) && mem r names.

Fixpoint wref_field (names : list name) (f : field) {struct f} : bool :=
  forallb (ref_ok names) (field_refs f) &&
  match f with
  | FScalar _ _ _ _ => true
  | FArray _ _ _ elem => forallb (wref_field (map fname elem)) elem
  | FOffset _ _ _ _ op sub => op || forallb (wref_field (map fname sub)) sub
  end.
Definition wref_seq (fs : list field) : bool := forallb (wref_field (map fname fs)) fs.
Definition wref (W : schema) : bool := wref_seq W.

(* ---------- small facts about merge ---------- *)
Lemma gate_eqb_eq a b : gate_eqb a b = true -> a = b.
Proof.
  destruct a, b; cbn; try discriminate; try reflexivity; intros H;
    repeat (apply andb_true_iff in H; destruct H as [H ?]);
    repeat match goal with
           | H : String.eqb _ _ = true |- _ => apply String.eqb_eq in H
           | H : (_ =? _) = true |- _ => apply Z.eqb_eq in H
           end; subst; reflexivity.
Qed.

Lemma merge_seq_cons mf r Rr w Wr S :
  merge_seq mf (r :: Rr) (w :: Wr) = Some S ->
  exists s Sr, mf r w = Some s /\ merge_seq mf Rr Wr = Some Sr /\ S = s :: Sr.
Proof.
  cbn [merge_seq]. intros H.
  apply obind_some in H. destruct H as [s [Hs H]].
  apply obind_some in H. destruct H as [Sr [Hr H]].
  inversion H; subst; try match goal with HM0 : merge_seq merge_field _ _ = Some _ |- _ => rename HM0 into HM end. eauto.
Qed.

Lemma merge_seq_nil_l mf W S : merge_seq mf [] W = Some S -> W = [] /\ S = [].
Proof. destruct W; cbn; intros H; [inversion H; auto | discriminate]. Qed.

Lemma merge_seq_cons_l mf r Rr W S : merge_seq mf (r :: Rr) W = Some S ->
  exists w Wr, W = w :: Wr.
Proof. destruct W; cbn; intros H; [discriminate | eauto]. Qed.

(* shape of a merged field *)
Inductive merged : field -> field -> field -> Prop :=
| MScalar n wd g c n' c' :
    (n' = n \/ n' = EmptyString) ->
    merged (FScalar n wd g c) (FScalar n' wd g c') (FScalar n wd g c')
| MArray n g cnt elem cnt' elem' e :
    merge_seq merge_field elem elem' = Some e ->
    merged (FArray n g cnt elem) (FArray n g cnt' elem') (FArray n g cnt e)
| MOpaque n wd g nl sub sub' :
    merged (FOffset n wd g nl true sub) (FOffset n wd g nl true sub') (FOffset n wd g nl true [])
| MNested n wd g nl sub sub' s :
    merge_seq merge_field sub sub' = Some s ->
    merged (FOffset n wd g nl false sub) (FOffset n wd g nl false sub') (FOffset n wd g nl false s).

Lemma merge_field_inv r w s : merge_field r w = Some s -> merged r w s.
Proof.
  destruct r as [n wd g c | n g cnt elem | n wd g nl op sub];
    destruct w as [n' wd' g' c' | n' g' cnt' elem' | n' wd' g' nl' op' sub']; cbn [merge_field]; try discriminate.
  - destruct ((String.eqb n n' || String.eqb n' "") && Nat.eqb wd wd' && gate_eqb g g') eqn:E; [|discriminate].
    intros H; inversion H; subst; clear H.
    apply andb_true_iff in E. destruct E as [E Hg]. apply andb_true_iff in E. destruct E as [Hn Hw].
    apply gate_eqb_eq in Hg. apply Nat.eqb_eq in Hw. subst.
    constructor. apply orb_true_iff in Hn. destruct Hn as [Hn | Hn]; apply String.eqb_eq in Hn; auto.
  - destruct (String.eqb n n' && gate_eqb g g') eqn:E; [|discriminate].
    intros H. apply obind_some in H. destruct H as [e [He H]]. inversion H; subst; clear H.
    apply andb_true_iff in E. destruct E as [Hn Hg]. apply String.eqb_eq in Hn. apply gate_eqb_eq in Hg. subst.
    constructor. exact He.
  - destruct (String.eqb n n' && Nat.eqb wd wd' && gate_eqb g g' && Bool.eqb nl nl' && Bool.eqb op op') eqn:E; [|discriminate].
    apply andb_true_iff in E. destruct E as [E Ho]. apply andb_true_iff in E. destruct E as [E Hl].
    apply andb_true_iff in E. destruct E as [E Hg]. apply andb_true_iff in E. destruct E as [Hn Hw].
    apply String.eqb_eq in Hn. apply Nat.eqb_eq in Hw. apply gate_eqb_eq in Hg.
    apply Bool.eqb_prop in Hl. apply Bool.eqb_prop in Ho. subst.
    destruct op'.
    + intros H; inversion H; subst. constructor.
    + intros H. apply obind_some in H. destruct H as [s0 [Hs H]]. inversion H; subst. constructor. exact Hs.
Qed.

(* =====================================================================================
   Part A.  decode (merge R W) = decode R
   ===================================================================================== *)
Lemma merged_fname r w s : merged r w s -> fname s = fname r.
Proof. destruct 1; reflexivity. Qed.
Lemma merged_fgate r w s : merged r w s -> fgate s = fgate r /\ fgate w = fgate r.
Proof. destruct 1; cbn; auto. Qed.

Lemma merge_fixed_size : forall R W S, merge_seq merge_field R W = Some S -> fixed_size S = fixed_size R.
Proof.
  induction R as [|r Rr IH]; intros W S H.
  - apply merge_seq_nil_l in H. destruct H; subst. reflexivity.
  - destruct (merge_seq_cons_l _ _ _ _ _ H) as [w [Wr ->]].
    destruct (merge_seq_cons _ _ _ _ _ _ H) as [s [Sr [Hs [Hr ->]]]].
    apply merge_field_inv in Hs. specialize (IH _ _ Hr).
    destruct Hs; cbn [fixed_size]; try rewrite IH; reflexivity.
Qed.

Definition DEC_EQ (r : field) : Prop := forall w s, merge_field r w = Some s ->
  forall env bytes kids, dec_field s env bytes kids = dec_field r env bytes kids.

Lemma dec_seq_eq : forall R, Forall DEC_EQ R -> forall W S, merge_seq merge_field R W = Some S ->
  forall env bytes kids, dec_seq dec_field S env bytes kids = dec_seq dec_field R env bytes kids.
Proof.
  induction 1 as [|r Rr Hr _ IH]; intros W S H env bytes kids.
  - apply merge_seq_nil_l in H. destruct H; subst. reflexivity.
  - destruct (merge_seq_cons_l _ _ _ _ _ H) as [w [Wr ->]].
    destruct (merge_seq_cons _ _ _ _ _ _ H) as [s [Sr [Hs [Hrr ->]]]].
    cbn [dec_seq]. rewrite (Hr _ _ Hs).
    rewrite (merged_fname _ _ _ (merge_field_inv _ _ _ Hs)).
    destruct (dec_field r env bytes kids) as [[[v b1] k1]|]; cbn; [|reflexivity].
    rewrite (IH _ _ Hrr). reflexivity.
Qed.

Lemma dec_rows_eq S R :
  (forall env bytes kids, dec_seq dec_field S env bytes kids = dec_seq dec_field R env bytes kids) ->
  forall k bytes kids, dec_rows dec_field S k bytes kids = dec_rows dec_field R k bytes kids.
Proof.
  intros Heq. induction k as [|k IH]; intros bytes kids; cbn [dec_rows]; [reflexivity|].
  rewrite Heq. destruct (dec_seq dec_field R [] bytes kids) as [[[rvs b1] k1]|]; cbn; [|reflexivity].
  rewrite IH. reflexivity.
Qed.

Lemma DEC_EQ_all : forall r, DEC_EQ r.
Proof.
  apply field_ind'.
  - intros n wd g c w s H env bytes kids. apply merge_field_inv in H. inversion H; subst; try match goal with HM0 : merge_seq merge_field _ _ = Some _ |- _ => rename HM0 into HM end. reflexivity.
  - intros n g cnt elem IHe w s H env bytes kids. apply merge_field_inv in H. inversion H; subst; try match goal with HM0 : merge_seq merge_field _ _ = Some _ |- _ => rename HM0 into HM end.
    cbn [dec_field fgate].
    assert (Hc : count_of cnt e env bytes = count_of cnt elem env bytes).
    { destruct cnt; cbn [count_of]; try reflexivity. rewrite (merge_fixed_size _ _ _ HM). reflexivity. }
    rewrite Hc.
    destruct (gate_holds g env) as [[|]|]; cbn; try reflexivity.
    destruct (count_of cnt elem env bytes) as [k|]; cbn; [|reflexivity].
    rewrite (dec_rows_eq e elem (dec_seq_eq elem IHe _ _ HM)). reflexivity.
  - intros n wd g nl op sub IHs w s H env bytes kids. apply merge_field_inv in H. inversion H; subst; try match goal with HM0 : merge_seq merge_field _ _ = Some _ |- _ => rename HM0 into HM end.
    + reflexivity.
    + cbn [dec_field fgate].
      destruct (gate_holds g env) as [[|]|]; cbn; try reflexivity.
      destruct (take wd bytes) as [p|]; cbn; [|reflexivity].
      destruct (all_zero (fst p)); [reflexivity|].
      destruct kids as [|[cb ck] kr]; [reflexivity|].
      rewrite (dec_seq_eq sub IHs _ _ HM). reflexivity.
Qed.

Theorem decode_merge : forall R W S, merge R W = Some S -> forall o, decode S o = decode R o.
Proof.
  intros R W S H [bytes kids]. unfold decode, dec_fields.
  rewrite (dec_seq_eq R (proj2 (Forall_forall _ _) (fun f _ => DEC_EQ_all f)) W S H). reflexivity.
Qed.

(* =====================================================================================
   Part B.  normalize / encode (merge R W) = normalize / encode W
   ===================================================================================== *)
Definition names_rel (S W : list field) : Prop :=
  Forall2 (fun s w => fname w = fname s \/ fname w = EmptyString) S W.

Lemma merged_name_rel r w s : merged r w s -> fname w = fname s \/ fname w = EmptyString.
Proof. destruct 1; cbn; auto. Qed.

Lemma merge_names_rel : forall R W S, merge_seq merge_field R W = Some S -> names_rel S W.
Proof.
  induction R as [|r Rr IH]; intros W S H.
  - apply merge_seq_nil_l in H. destruct H; subst. constructor.
  - destruct (merge_seq_cons_l _ _ _ _ _ H) as [w [Wr ->]].
    destruct (merge_seq_cons _ _ _ _ _ _ H) as [s [Sr [Hs [Hr ->]]]].
    constructor; [|exact (IH _ _ Hr)].
    exact (merged_name_rel _ _ _ (merge_field_inv _ _ _ Hs)).
Qed.

Lemma names_rel_in S W r : names_rel S W -> r <> EmptyString -> In r (map fname W) -> In r (map fname S).
Proof.
  induction 1 as [|s w S' W' Hsw _ IH]; intros Hr Hin; cbn in *; [contradiction|].
  destruct Hin as [Hin | Hin].
  - left. destruct Hsw as [E | E]; congruence.
  - right. apply IH; assumption.
Qed.

(* the two whole-table contexts agree on every name that is a NAMED field of the write half *)
Lemma assoc_names_rel : forall S W, names_rel S W -> NoDup (map fname S) ->
  forall r vs, r <> EmptyString -> In r (map fname W) -> assoc (zipn S vs) r = assoc (zipn W vs) r.
Proof.
  induction 1 as [|s w S' W' Hsw Hrel IH]; intros Hnd r vs Hr Hin; [reflexivity|].
  destruct vs as [|v vr]; [reflexivity|].
  cbn [zipn assoc]. cbn [map] in Hnd, Hin. inversion Hnd as [|x l Hnotin Hnd']; subst.
  destruct Hsw as [E | E].
  - rewrite E. destruct (String.eqb (fname s) r) eqn:Es; [reflexivity|].
    apply IH; try assumption.
    destruct Hin as [Hin | Hin]; [|exact Hin].
    rewrite E in Hin. subst. rewrite String.eqb_refl in Es. discriminate.
  - rewrite E.
    assert (Hw : String.eqb EmptyString r = false).
    { apply String.eqb_neq. congruence. }
    rewrite Hw.
    assert (Hin' : In r (map fname W')).
    { destruct Hin as [Hin | Hin]; [congruence | exact Hin]. }
    destruct (String.eqb (fname s) r) eqn:Es.
    + apply String.eqb_eq in Es. subst. exfalso. apply Hnotin.
      exact (names_rel_in _ _ _ Hrel Hr Hin').
    + apply IH; assumption.
Qed.

Definition ctx_agree (names : list name) (cS cW : ctx) : Prop :=
  forall r, ref_ok names r = true -> assoc cS r = assoc cW r.

Lemma ctx_agree_zipn S W vs : names_rel S W -> NoDup (map fname S) ->
  ctx_agree (map fname W) (zipn S vs) (zipn W vs).
Proof.
  intros Hrel Hnd r Hr. unfold ref_ok in Hr. apply andb_true_iff in Hr. destruct Hr as [Hne Hin].
  apply negb_true_iff in Hne. apply String.eqb_neq in Hne. apply mem_In in Hin.
  apply assoc_names_rel; assumption.
Qed.

(* names of a well-formed sequence are distinct *)
Lemma wf_field_notseen seen last f : wf_field seen last f = true -> mem (fname f) seen = false.
Proof.
  intros H. destruct f; cbn [wf_field fname] in *;
    apply andb_true_iff in H; destruct H as [H _]; apply andb_true_iff in H; destruct H as [_ H];
    apply negb_true_iff in H; exact H.
Qed.

Lemma wf_seq_nodup : forall fs seen, wf_seq wf_field seen fs = true ->
  NoDup (map fname fs) /\ (forall n, In n (map fname fs) -> mem n seen = false).
Proof.
  induction fs as [|f fr IH]; intros seen H.
  - split; [constructor | intros n []].
  - cbn [wf_seq] in H. apply andb_true_iff in H. destruct H as [H1 H2].
    destruct (IH _ H2) as [Hnd Hns]. apply wf_field_notseen in H1.
    split.
    + cbn [map]. constructor; [|exact Hnd].
      intros Hin. specialize (Hns _ Hin). rewrite mem_app in Hns. apply orb_false_iff in Hns.
      destruct Hns as [_ Hns]. unfold mem in Hns. cbn in Hns. rewrite String.eqb_refl in Hns. discriminate.
    + intros n [Hn | Hn].
      * subst. exact H1.
      * specialize (Hns _ Hn). rewrite mem_app in Hns. apply orb_false_iff in Hns. tauto.
Qed.

Definition WFX (f : field) : Prop := exists seen last, wf_field seen last f = true.

Lemma wf_seq_WFX : forall fs seen, wf_seq wf_field seen fs = true -> Forall WFX fs.
Proof.
  induction fs as [|f fr IH]; intros seen H; constructor.
  - cbn [wf_seq] in H. apply andb_true_iff in H. destruct H as [H1 _]. red. eauto.
  - cbn [wf_seq] in H. apply andb_true_iff in H. destruct H as [_ H2]. exact (IH _ H2).
Qed.

Lemma WFX_array n g cnt elem : WFX (FArray n g cnt elem) -> wf_seq wf_field [] elem = true.
Proof.
  intros [seen [last H]]. cbn [wf_field] in H.
  apply andb_true_iff in H. destruct H as [_ H]. apply andb_true_iff in H. destruct H as [H _].
  apply andb_true_iff in H. destruct H as [H _]. exact H.
Qed.

Lemma WFX_offset n wd g nl sub : WFX (FOffset n wd g nl false sub) -> wf_seq wf_field [] sub = true.
Proof.
  intros [seen [last H]]. cbn [wf_field] in H.
  apply andb_true_iff in H. destruct H as [_ H]. apply andb_true_iff in H. destruct H as [_ H].
  cbn in H. exact H.
Qed.

(* agreement of lookups / gates on referenced names *)
Lemma ref_ok_gate names f r : forallb (ref_ok names) (field_refs f) = true -> In r (gate_refs (fgate f)) -> ref_ok names r = true.
Proof.
  intros H Hin. unfold field_refs in H. rewrite forallb_app in H. apply andb_true_iff in H. destruct H as [H _].
  rewrite forallb_forall in H. exact (H _ Hin).
Qed.

Lemma gate_holds_agree g cS cW : (forall r, In r (gate_refs g) -> assoc cS r = assoc cW r) ->
  gate_holds g cS = gate_holds g cW.
Proof.
  intros H. destruct g; cbn [gate_holds]; try reflexivity; unfold lookup_z; rewrite (H f) by (cbn; auto); reflexivity.
Qed.

Lemma gate_agree_w names f cS cW : ctx_agree names cS cW ->
  forallb (ref_ok names) (field_refs f) = true -> gate_holds (fgate f) cS = gate_holds (fgate f) cW.
Proof.
  intros Hag Hr. apply gate_holds_agree. intros r Hin. apply Hag. exact (ref_ok_gate _ _ _ Hr Hin).
Qed.

Lemma computed_agree names n wd g c rawS rawW v : ctx_agree names rawS rawW ->
  forallb (ref_ok names) (field_refs (FScalar n wd g c)) = true -> computed rawS c v = computed rawW c v.
Proof.
  intros Hag Hr. unfold computed. destruct c; try reflexivity.
  unfold field_refs in Hr. rewrite forallb_app in Hr. apply andb_true_iff in Hr. destruct Hr as [_ Hr].
  cbn in Hr. rewrite andb_true_r in Hr. unfold lookup_len. rewrite (Hag _ Hr). reflexivity.
Qed.

(* ---------- normalize ---------- *)
Definition NORM_EQ (r : field) : Prop := forall w s, merge_field r w = Some s ->
  forall names rawS rawW v, ctx_agree names rawS rawW -> wref_field names w = true -> WFX s ->
    norm_field s rawS v = norm_field w rawW v.

Lemma norm_seq_eq : forall R, Forall NORM_EQ R -> forall W S, merge_seq merge_field R W = Some S ->
  forall names rawS rawW vs, ctx_agree names rawS rawW -> forallb (wref_field names) W = true -> Forall WFX S ->
    norm_seq norm_field S rawS vs = norm_seq norm_field W rawW vs.
Proof.
  induction 1 as [|r Rr Hr _ IH]; intros W S H names rawS rawW vs Hag Hw Hx.
  - apply merge_seq_nil_l in H. destruct H; subst. reflexivity.
  - destruct (merge_seq_cons_l _ _ _ _ _ H) as [w [Wr ->]].
    destruct (merge_seq_cons _ _ _ _ _ _ H) as [s [Sr [Hs [Hrr ->]]]].
    destruct vs as [|v vr]; [reflexivity|]. cbn [norm_seq].
    cbn [forallb] in Hw. apply andb_true_iff in Hw. destruct Hw as [Hw1 Hw2].
    inversion Hx; subst.
    rewrite (Hr _ _ Hs names rawS rawW v Hag Hw1 H2).
    rewrite (IH _ _ Hrr names rawS rawW vr Hag Hw2 H3). reflexivity.
Qed.

(* the per-level step shared by arrays and nested offsets *)
Lemma level_agree R W S : merge_seq merge_field R W = Some S -> wf_seq wf_field [] S = true ->
  forall vs, ctx_agree (map fname W) (zipn S vs) (zipn W vs).
Proof.
  intros H Hwf vs. apply ctx_agree_zipn; [exact (merge_names_rel _ _ _ H) | exact (proj1 (wf_seq_nodup _ _ Hwf))].
Qed.

Lemma NORM_EQ_all : forall r, NORM_EQ r.
Proof.
  apply field_ind'.
  - intros n wd g c w s H names rawS rawW v Hag Hw _. apply merge_field_inv in H. inversion H; subst; try match goal with HM0 : merge_seq merge_field _ _ = Some _ |- _ => rename HM0 into HM end.
    cbn [norm_field]. cbn [wref_field] in Hw. apply andb_true_iff in Hw. destruct Hw as [Hw _].
    exact (computed_agree _ _ _ _ _ _ _ v Hag Hw).
  - intros n g cnt elem IHe w s H names rawS rawW v _ Hw Hx. apply merge_field_inv in H. inversion H; subst; try match goal with HM0 : merge_seq merge_field _ _ = Some _ |- _ => rename HM0 into HM end.
    cbn [norm_field]. destruct v; try reflexivity. f_equal. apply map_ext. intros row. destruct row; try reflexivity.
    f_equal. cbn [wref_field] in Hw. apply andb_true_iff in Hw. destruct Hw as [_ Hw].
    pose proof (WFX_array _ _ _ _ Hx) as Hwf.
    exact (norm_seq_eq elem IHe _ _ HM (map fname elem') _ _ vs (level_agree _ _ _ HM Hwf vs) Hw (wf_seq_WFX _ _ Hwf)).
  - intros n wd g nl op sub IHs w s H names rawS rawW v _ Hw Hx. apply merge_field_inv in H. inversion H; subst; try match goal with HM0 : merge_seq merge_field _ _ = Some _ |- _ => rename HM0 into HM end.
    + cbn [norm_field]. destruct v; reflexivity.
    + cbn [norm_field]. destruct v; try reflexivity. f_equal.
      cbn [wref_field] in Hw. apply andb_true_iff in Hw. destruct Hw as [_ Hw]. cbn [orb] in Hw.
      pose proof (WFX_offset _ _ _ _ _ Hx) as Hwf.
      exact (norm_seq_eq sub IHs _ _ HM (map fname sub') _ _ vs (level_agree _ _ _ HM Hwf vs) Hw (wf_seq_WFX _ _ Hwf)).
Qed.

Lemma Forall_all {A} (P : A -> Prop) (H : forall a, P a) l : Forall P l.
Proof. apply Forall_forall. intros a _. apply H. Qed.

Theorem normalize_merge : forall R W S, merge R W = Some S -> wf_schema S = true -> wref W = true ->
  forall v, normalize S v = normalize W v.
Proof.
  intros R W S H Hwf Hw v. unfold normalize, norm_fields.
  exact (norm_seq_eq R (Forall_all _ NORM_EQ_all R) W S H (map fname W) _ _ v
           (level_agree _ _ _ H Hwf v) Hw (wf_seq_WFX _ _ Hwf)).
Qed.

(* ---------- encode ---------- *)
Definition ENC_EQ (r : field) : Prop := forall w s, merge_field r w = Some s ->
  forall names cS cW v, ctx_agree names cS cW -> wref_field names w = true -> WFX s ->
    enc_field s cS v = enc_field w cW v.

Lemma enc_seq_eq : forall R, Forall ENC_EQ R -> forall W S, merge_seq merge_field R W = Some S ->
  forall names cS cW vs, ctx_agree names cS cW -> forallb (wref_field names) W = true -> Forall WFX S ->
    enc_seq enc_field S cS vs = enc_seq enc_field W cW vs.
Proof.
  induction 1 as [|r Rr Hr _ IH]; intros W S H names cS cW vs Hag Hw Hx.
  - apply merge_seq_nil_l in H. destruct H; subst. reflexivity.
  - destruct (merge_seq_cons_l _ _ _ _ _ H) as [w [Wr ->]].
    destruct (merge_seq_cons _ _ _ _ _ _ H) as [s [Sr [Hs [Hrr ->]]]].
    destruct vs as [|v vr]; [reflexivity|]. cbn [enc_seq].
    cbn [forallb] in Hw. apply andb_true_iff in Hw. destruct Hw as [Hw1 Hw2].
    inversion Hx; subst.
    rewrite (Hr _ _ Hs names cS cW v Hag Hw1 H2).
    rewrite (IH _ _ Hrr names cS cW vr Hag Hw2 H3). reflexivity.
Qed.

Lemma enc_rows_eq S W :
  (forall rvs, enc_seq enc_field S (zipn S rvs) rvs = enc_seq enc_field W (zipn W rvs) rvs) ->
  forall rows, enc_rows enc_field S rows = enc_rows enc_field W rows.
Proof.
  intros Heq. induction rows as [|row rows IH]; cbn [enc_rows]; [reflexivity|].
  destruct row; try reflexivity. rewrite Heq, IH. reflexivity.
Qed.

Lemma wref_field_refs names f : wref_field names f = true -> forallb (ref_ok names) (field_refs f) = true.
Proof. destruct f; cbn [wref_field]; intros H; apply andb_true_iff in H; tauto. Qed.

Lemma ENC_EQ_all : forall r, ENC_EQ r.
Proof.
  apply field_ind'.
  - intros n wd g c w s H names cS cW v Hag Hw _. apply merge_field_inv in H. inversion H; subst; try match goal with HM0 : merge_seq merge_field _ _ = Some _ |- _ => rename HM0 into HM end.
    cbn [enc_field fgate].
    pose proof (gate_agree_w _ _ _ _ Hag (wref_field_refs _ _ Hw)) as Hg. cbn [fgate] in Hg. rewrite Hg. reflexivity.
  - intros n g cnt elem IHe w s H names cS cW v Hag Hw Hx. apply merge_field_inv in H. inversion H; subst; try match goal with HM0 : merge_seq merge_field _ _ = Some _ |- _ => rename HM0 into HM end.
    cbn [enc_field fgate].
    pose proof (gate_agree_w _ _ _ _ Hag (wref_field_refs _ _ Hw)) as Hg. cbn [fgate] in Hg. rewrite Hg.
    destruct (gate_holds g cW) as [[|]|]; cbn; try reflexivity.
    destruct v; try reflexivity.
    cbn [wref_field] in Hw. apply andb_true_iff in Hw. destruct Hw as [_ Hw].
    pose proof (WFX_array _ _ _ _ Hx) as Hwf.
    apply enc_rows_eq. intros rvs.
    exact (enc_seq_eq elem IHe _ _ HM (map fname elem') _ _ rvs (level_agree _ _ _ HM Hwf rvs) Hw (wf_seq_WFX _ _ Hwf)).
  - intros n wd g nl op sub IHs w s H names cS cW v Hag Hw Hx. apply merge_field_inv in H. inversion H; subst; try match goal with HM0 : merge_seq merge_field _ _ = Some _ |- _ => rename HM0 into HM end.
    + cbn [enc_field fgate].
      pose proof (gate_agree_w _ _ _ _ Hag (wref_field_refs _ _ Hw)) as Hg. cbn [fgate] in Hg. rewrite Hg. reflexivity.
    + cbn [enc_field fgate].
      pose proof (gate_agree_w _ _ _ _ Hag (wref_field_refs _ _ Hw)) as Hg. cbn [fgate] in Hg. rewrite Hg.
      destruct (gate_holds g cW) as [[|]|]; cbn; try reflexivity.
      destruct v; try reflexivity.
      cbn [wref_field] in Hw. apply andb_true_iff in Hw. destruct Hw as [_ Hw]. cbn [orb] in Hw.
      pose proof (WFX_offset _ _ _ _ _ Hx) as Hwf.
      rewrite (enc_seq_eq sub IHs _ _ HM (map fname sub') _ _ vs (level_agree _ _ _ HM Hwf vs) Hw (wf_seq_WFX _ _ Hwf)).
      reflexivity.
Qed.

Theorem encode_merge : forall R W S, merge R W = Some S -> wf_schema S = true -> wref W = true ->
  forall v, encode S v = encode W v.
Proof.
  intros R W S H Hwf Hw v. unfold encode. cbv zeta. rewrite (normalize_merge R W S H Hwf Hw v).
  unfold enc_fields.
  rewrite (enc_seq_eq R (Forall_all _ ENC_EQ_all R) W S H (map fname W) _ _ (normalize W v)
             (level_agree _ _ _ H Hwf (normalize W v)) Hw (wf_seq_WFX _ _ Hwf)).
  reflexivity.
Qed.

(* =====================================================================================
   Corollary on the extracted halves
   ===================================================================================== *)
(* shape agreement is enough (the count agreement that [compat]'s strict_counts would make automatic is part
   of [valid]) — this form also covers the 19 stored-count pairs *)
Theorem extracted_roundtrip_shape : forall (R W S : schema) (v : list value) (o : obj),
  compat_shape R W = true -> wref W = true -> merge R W = Some S ->
  valid S v = true -> encode W v = Some o ->
  decode R o = Some (normalize S v) /\ normalize S v = normalize W v.
Proof.
  intros R W S v o Hc Hw Hm Hv He. unfold compat_shape in Hc. rewrite Hm in Hc.
  split.
  - rewrite <- (decode_merge R W S Hm). rewrite <- (encode_merge R W S Hm Hc Hw) in He.
    exact (roundtrip_valid S v o Hc Hv He).
  - exact (normalize_merge R W S Hm Hc Hw v).
Qed.

Lemma compat_is_shape R W : compat R W = true -> compat_shape R W = true.
Proof.
  unfold compat, compat_shape. destruct (merge R W); [|discriminate].
  intros H. apply andb_true_iff in H. tauto.
Qed.

Theorem extracted_roundtrip : forall (R W S : schema) (v : list value) (o : obj),
  compat R W = true -> wref W = true -> merge R W = Some S ->
  valid S v = true -> encode W v = Some o ->
  decode R o = Some (normalize S v).
Proof.
  intros R W S v o Hc Hw Hm Hv He.
  exact (proj1 (extracted_roundtrip_shape R W S v o (compat_is_shape _ _ Hc) Hw Hm Hv He)).
Qed.

(* ... and the re-read value compiles, with the extracted WRITER, to the same object *)
Theorem extracted_reread_recompiles : forall (R W S : schema) v o v',
  compat_shape R W = true -> wref W = true -> merge R W = Some S ->
  valid S v = true -> encode W v = Some o -> decode R o = Some v' -> encode W v' = Some o.
Proof.
  intros R W S v o v' Hc Hw Hm Hv He Hd.
  pose proof Hc as Hwf. unfold compat_shape in Hwf. rewrite Hm in Hwf.
  rewrite <- (encode_merge R W S Hm Hwf Hw) in *. rewrite <- (decode_merge R W S Hm) in Hd.
  exact (reread_recompiles S v o v' Hwf Hv He Hd).
Qed.
