(* C04 — the merge lemmas instantiated on every extracted pair of Gen.v (regenerated from /repo on every run). *)
From Coq Require Import ZArith List Bool String.
From FV Require Import Lib.RustInt C04.Model C04.Gen C04.Proofs C04.Reflect C04.Merge.
Import ListNotations.
Open Scope Z_scope.

(* every name an extracted WRITER refers to (gate fields, `array_len(&self.arr)` arrays) is a named field of
   that writer, at every nesting level: all 203 pairs *)
Definition pair_wref (p : string * schema * schema) : bool := let '(_, _, W) := p in wref W.
Lemma all_pairs_wref_lemma : forallb pair_wref all_pairs = true.
Proof. vm_compute. reflexivity. Qed.

(* the round trip, stated on the two extracted halves of one pair *)
Definition pair_roundtrip (p : string * schema * schema) : Prop :=
  let '(_, R, W) := p in
  exists S, merge R W = Some S /\
    forall v o, valid S v = true -> encode W v = Some o ->
      decode R o = Some (normalize S v) /\ normalize S v = normalize W v /\
      (forall v', decode R o = Some v' -> encode W v' = Some o).

Lemma compat_pair_shape n R W : compat_pair (n, R, W) = true -> compat_shape R W = true.
Proof.
  unfold compat_pair. destruct (existsb (String.eqb n) stored_count_pairs).
  - intros H. apply andb_true_iff in H. tauto.
  - apply compat_is_shape.
Qed.

Theorem all_pairs_extracted_roundtrip : Forall pair_roundtrip all_pairs.
Proof.
  apply Forall_forall. intros [[n R] W] Hin.
  pose proof (proj1 (forallb_forall _ _) all_pairs_compat_lemma _ Hin) as Hc.
  pose proof (proj1 (forallb_forall _ _) all_pairs_wref_lemma _ Hin) as Hw.
  apply compat_pair_shape in Hc. cbn [pair_wref] in Hw.
  unfold pair_roundtrip.
  destruct (merge R W) as [S|] eqn:Hm.
  - exists S. split; [reflexivity|]. intros v o Hv He.
    destruct (extracted_roundtrip_shape R W S v o Hc Hw Hm Hv He) as [Hd Hn].
    repeat split; try assumption.
    intros v' Hd'. exact (extracted_reread_recompiles R W S v o v' Hc Hw Hm Hv He Hd').
  - unfold compat_shape in Hc. rewrite Hm in Hc. discriminate.
Qed.

(* the pairs that are [compat] (all but the enumerated stored-count pairs): additionally the merged schema has
   strict counts, i.e. count agreement is automatic for writer-computed counts *)
Definition pair_compat_roundtrip (p : string * schema * schema) : Prop :=
  let '(n, R, W) := p in
  existsb (String.eqb n) stored_count_pairs = false ->
  compat R W = true /\
  forall S v o, merge R W = Some S -> valid S v = true -> encode W v = Some o -> decode R o = Some (normalize S v).

Theorem all_compat_pairs_extracted_roundtrip : Forall pair_compat_roundtrip all_pairs.
Proof.
  apply Forall_forall. intros [[n R] W] Hin Hns.
  pose proof (proj1 (forallb_forall _ _) all_pairs_compat_lemma _ Hin) as Hc.
  pose proof (proj1 (forallb_forall _ _) all_pairs_wref_lemma _ Hin) as Hw.
  unfold compat_pair in Hc. rewrite Hns in Hc. cbn [pair_wref] in Hw.
  split; [exact Hc|]. intros S v o Hm Hv He.
  exact (extracted_roundtrip R W S v o Hc Hw Hm Hv He).
Qed.
