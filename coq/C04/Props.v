(* C04 — property theorems.  Only statements, [exact lemma] and Print Assumptions. *)
From Coq Require Import ZArith List Bool String.
From FV Require Import Lib.RustInt C04.Model C04.Gen C04.Proofs C04.Reflect.
Import ListNotations.
Open Scope Z_scope.

(* Compiling a valid value and reading the object graph back yields the value that was written (with the
   writer-computed counts / literals filled in), for EVERY well-formed schema of the DSL: scalars of any
   width, arrays of records (counted by a field through a transform, of constant length, or running to the
   end of the data), version / flag gated fields, offsets of any width to sub-schemas or opaque subtables,
   nullable or not, arbitrarily nested.  [valid]: gated-out fields are absent and counts agree with arrays. *)
Theorem c04_roundtrip_generic : forall (sch : schema) (v : list value) (o : obj),
  wf_schema sch = true -> valid sch v = true -> encode sch v = Some o ->
  decode sch o = Some (normalize sch v).
Proof. exact roundtrip_valid. Qed.

(* ... and the count hypothesis inside [valid] is automatic for a count field the writer computes from the
   array with a transform the reader inverts (what [compat]'s strict_counts checks on every pair) *)
Theorem c04_computed_count_agrees : forall (sch : schema) vs cf cf' w g arr xw xr rows z,
  find_field sch cf = Some (FScalar cf' w g (LenOf arr xw)) ->
  inverse_of xr xw = true ->
  assoc (zipn sch vs) arr = Some (VArr rows) ->
  assoc (zipn sch vs) cf = Some (VZ z) ->
  count_agrees (CField cf xr) (zipn sch (normalize sch vs)) (List.length rows) = true.
Proof. exact computed_count_agrees. Qed.

Theorem c04_inverse_transform : forall xr xw n, inverse_of xr xw = true -> 0 <= n -> apply_x xr (apply_x xw n) = n.
Proof. exact inverse_apply. Qed.

(* Compiling the re-read value produces the same object again *)
Theorem c04_recompile_stable : forall (sch : schema) v, encode sch (normalize sch v) = encode sch v.
Proof. exact recompile_stable_lemma. Qed.
Theorem c04_reread_recompiles : forall (sch : schema) v o v',
  wf_schema sch = true -> valid sch v = true -> encode sch v = Some o -> decode sch o = Some v' ->
  encode sch v' = Some o.
Proof. exact reread_recompiles. Qed.
Theorem c04_normalize_idempotent : forall (sch : schema) v, normalize sch (normalize sch v) = normalize sch v.
Proof. exact normalize_idempotent. Qed.

(* a gated field is present after reading iff the version / flags that were read satisfy its gate *)
Theorem c04_version_gating : forall (sch : schema) o vs,
  wf_schema sch = true -> decode sch o = Some vs ->
  Forall2 (fun f v => v <> VAbsent <-> gate_holds (fgate f) (zipn sch vs) = Some true) sch vs.
Proof. exact version_gating_lemma. Qed.

(* per table: the schema extracted from read-fonts/generated and the one extracted from
   write-fonts/generated describe one schema — all pairs, the exceptions enumerated by name *)
Theorem c04_all_pairs_compat : forallb compat_pair all_pairs = true.
Proof. exact all_pairs_compat_lemma. Qed.
Theorem c04_no_narrowing_casts : narrowing_casts = [].
Proof. exact no_narrowing_casts_lemma. Qed.
Theorem c04_enough_pairs : (150 <=? List.length all_pairs)%nat = true.
Proof. exact enough_pairs_lemma. Qed.
Theorem c04_compat_merged : forall R W, compat R W = true ->
  exists sch, merge R W = Some sch /\ wf_schema sch = true /\ strict_counts sch = true.
Proof. exact compat_merged. Qed.

Print Assumptions c04_roundtrip_generic.
Print Assumptions c04_computed_count_agrees.
Print Assumptions c04_inverse_transform.
Print Assumptions c04_recompile_stable.
Print Assumptions c04_reread_recompiles.
Print Assumptions c04_normalize_idempotent.
Print Assumptions c04_version_gating.
Print Assumptions c04_all_pairs_compat.
Print Assumptions c04_no_narrowing_casts.
Print Assumptions c04_enough_pairs.
Print Assumptions c04_compat_merged.
