(* C11 — lemma collection: normalisation (NormProofs), tent / compute_delta / DeltaSetIndexMap (TentProofs),
   VariationStoreBuilder retrieval (IvsProofs).  Props.v restates the property-level theorems. *)
From FV Require Export C11.NormProofs C11.TentProofs C11.IvsProofs C11.IvsRetrieval.
