(* C11 — lemma collection: normalisation (NormProofs, AvarMono), tent / compute_delta / DeltaSetIndexMap (TentProofs),
   raw row layout and totality (RowLayout), metrics glue (MetricsProofs), VariationStoreBuilder retrieval
   (IvsProofs, IvsRetrieval, SplitRule).  Props.v restates the property-level theorems. *)
From FV Require Export C11.NormProofs C11.U2NProofs C11.AvarMono C11.TentProofs C11.RowLayout C11.MetricsProofs
                       C11.IvsProofs C11.IvsRetrieval C11.SplitRule C11.IvsTotal.
