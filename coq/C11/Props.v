(* C11 — property theorems.  Only statements, [exact lemma] and Print Assumptions. *)
From Coq Require Import ZArith List.
From FV Require Import Lib.RustInt C15.Model C15.Proofs C11.Model C11.Proofs.
Import ListNotations.
Open Scope Z_scope.

(* ---- user coordinates normalise as specified (VariationAxisRecord::normalize, all i32 inputs) ---- *)
Theorem c11_normalize_no_trap : forall mn df mx v, i32 mn -> i32 df -> i32 mx -> i32 v -> normalize mn df mx v <> None.
Proof. exact normalize_no_trap. Qed.
Theorem c11_normalize_range : forall mn df mx v, i32 mn -> i32 df -> i32 mx -> i32 v ->
  exists r, normalize mn df mx v = Some r /\ -65536 <= r <= 65536.
Proof. exact normalize_range. Qed.
Theorem c11_normalize_endpoints : forall mn df mx, i32 mn -> i32 df -> i32 mx -> mn < df -> df < mx ->
  normalize mn df mx mn = Some (-65536) /\ normalize mn df mx df = Some 0 /\ normalize mn df mx mx = Some 65536.
Proof. exact normalize_endpoints. Qed.
Theorem c11_normalize_clamps : forall mn df mx v, i32 mn -> i32 df -> i32 mx -> i32 v ->
  (v <= mn -> normalize mn df mx v = normalize mn df mx mn) /\
  (Z.max mx mn <= v -> normalize mn df mx v = normalize mn df mx (Z.max mx mn)).
Proof. exact normalize_clamps. Qed.
Theorem c11_normalize_monotone : forall mn df mx v1 v2 r1 r2, i32 mn -> i32 df -> i32 mx -> i32 v1 -> i32 v2 ->
  v1 <= v2 -> normalize mn df mx v1 = Some r1 -> normalize mn df mx v2 = Some r2 -> r1 <= r2.
Proof. exact normalize_monotone. Qed.
Theorem c11_normalize_exact : forall mn df mx v, i32 mn -> i32 df -> i32 mx -> i32 v ->
  mn <= df -> df <= mx -> mn <= v -> v <= mx -> df - mn <= 2147483647 -> mx - df <= 2147483647 ->
  normalize mn df mx v =
    Some (if v <? df then - rha ((df - v) * 65536) (df - mn)
          else if df <? v then rha ((v - df) * 65536) (mx - df) else 0).
Proof. exact normalize_exact. Qed.

(* ---- segment maps interpolate linearly between their points (SegmentMaps::apply) ---- *)
Theorem c11_avar_exact_at_point : forall pre f t post coord,
  (forall p, In p pre -> fx4 (fst p) < coord) -> coord = fx4 f -> avar_apply (pre ++ (f, t) :: post) coord = fx4 t.
Proof. exact avar_exact_at_point. Qed.
Theorem c11_avar_apply_interpolates : forall pre f0 t0 f1 t1 post coord,
  (forall p, In p pre -> fx4 (fst p) < coord) -> i16 f0 -> i16 t0 -> i16 f1 -> i16 t1 ->
  fx4 f0 < coord -> coord < fx4 f1 ->
  avar_apply (pre ++ (f0, t0) :: (f1, t1) :: post) coord
  = fx4 t0 + rha ((fx4 t1 - fx4 t0) * (coord - fx4 f0)) (fx4 f1 - fx4 f0).
Proof. exact avar_apply_interpolates. Qed.
Theorem c11_avar_identity_outside : forall maps coord,
  (forall p, In p maps -> fx4 (fst p) < coord) -> avar_apply maps coord = coord.
Proof. exact avar_above_all. Qed.
Theorem c11_avar_identity_below : forall f t rest coord, coord < fx4 f -> avar_apply ((f, t) :: rest) coord = coord.
Proof. exact avar_below_first. Qed.

(* ---- the tent scalar is the specified tent (VariationRegion::compute_scalar) ---- *)
Theorem c11_tent_scalar_spec : forall axes coords, Forall axis16 axes -> Forall i16 coords ->
  compute_scalar axes coords = tent_spec axes coords 65536.
Proof. exact tent_scalar_spec. Qed.
Theorem c11_tent_single_axis : forall s p e c, i16 s -> i16 p -> i16 e -> i16 c ->
  compute_scalar [(s, p, e)] [c] = match tent_frac c s p e with None => 0 | Some (n, d) => rha (65536 * n) d end.
Proof. exact tent_single_axis. Qed.
Theorem c11_tent_zero_outside : forall pre s p e post coords,
  Forall axis16 (pre ++ (s, p, e) :: post) -> Forall i16 coords -> proper_tent s p e ->
  (let c := nth (length pre) coords 0 in c < s \/ e < c) ->
  compute_scalar (pre ++ (s, p, e) :: post) coords = 0.
Proof. exact tent_zero_outside. Qed.
Theorem c11_tent_one_at_peaks : forall axes coords, Forall axis16 axes -> Forall i16 coords ->
  Forall2 (fun a c => c = snd (fst a)) axes coords -> compute_scalar axes coords = 65536.
Proof. exact tent_one_at_peaks. Qed.
Theorem c11_tent_scalar_range : forall axes coords, Forall axis16 axes -> Forall i16 coords ->
  0 <= compute_scalar axes coords <= 65536.
Proof. exact tent_scalar_range. Qed.

(* ---- the delta at a location = sum over regions of tent scalar * delta, one rounding (compute_delta) ---- *)
Theorem c11_compute_delta_spec : forall s outer inner coords st,
  coords <> [] ->
  nth_error (vs_data s) (Z.to_nat outer) = Some (Some st) ->
  Forall (Forall axis16) (vs_regions s) -> Forall i16 coords ->
  let row := nth (Z.to_nat inner) (st_rows st) [] in
  Forall i32 row -> (length row <= length (st_regions st))%nat -> Z.of_nat (length row) <= 65535 ->
  Forall (fun ri => 0 <= ri < Z.of_nat (length (vs_regions s))) (st_regions st) ->
  compute_delta s outer inner coords
  = Ok (wrap_s 32 ((delta_sum (vs_regions s) (st_regions st) row coords + 32768) / 65536)).
Proof. exact compute_delta_spec. Qed.

(* ---- DeltaSetIndexMap::get ---- *)
Theorem c11_deltaset_index_map_get : forall es ib (entries : list (Z * Z)) index,
  1 <= es <= 4 -> 1 <= ib <= 16 -> entries <> [] ->
  Forall (fun e => 0 <= fst e < 65536 /\ 0 <= snd e < 2 ^ ib /\ packed ib e < 256 ^ es) entries ->
  0 <= index ->
  dsim_get ((es - 1) * 16 + (ib - 1)) (Z.of_nat (length entries))
           (flat_map (fun e => to_be (Z.to_nat es) (packed ib e)) entries) index
  = Some (nth (Z.to_nat (Z.min index (Z.of_nat (length entries) - 1))) entries (0, 0)).
Proof. exact deltaset_index_map_get. Qed.

(* ---- metrics glue: base + delta (16-bit deltas) ---- *)
Theorem c11_metric_with_delta : forall base d, 0 <= base <= 65535 -> -32768 <= d <= 32767 ->
  metric_with_delta base (Ok d) = Some (base + d).
Proof. exact metric_with_delta_spec. Qed.

(* ---- builder ---- *)
Theorem c11_narrowing_lossless : forall v bits, i32 v -> (bits = 8 \/ bits = 16 \/ bits = 32) ->
  8 * for_val v <= bits -> wrap_s bits v = v.
Proof. exact narrowing_lossless. Qed.

(* every delta set added is retrievable, through the index the builder returns, with exactly the same per-region
   deltas — for every list of delta sets and EVERY outcome of the optimiser (any grouping of the stored sets into
   encodings under any covering shapes, in any order; rows split at 0xFFFF, narrowed to the column widths, regions
   pruned and renumbered) *)
Theorem c11_ivs_retrieval : forall inputs direct encs b ids st km,
  add_all (builder_new direct) inputs = (b, ids) ->
  wf_inputs inputs ->
  Z.of_nat (length (b_regions b)) <= 65536 ->
  valid_encs b encs ->
  build_with b encs = Some (st, km) ->
  forall k ds id r, nth_error inputs k = Some ds -> nth_error ids k = Some id ->
    row_delta st (remap_get km id None) r = Some (input_delta ds r).
Proof. exact ivs_retrieval. Qed.
Theorem c11_region_renumber_bijective : forall kept, NoDup kept ->
  forall x p, pos_of x kept = Some p <-> nth_error kept p = Some x.
Proof. exact region_renumber_bijective. Qed.
Theorem c11_merge_covers : forall a c x, length a = length c -> length a = length x ->
  (can_cover a x = true -> can_cover (shape_merge a c) x = true) /\
  (can_cover c x = true -> can_cover (shape_merge a c) x = true).
Proof. exact merge_covers. Qed.
Theorem c11_build_direct_as_build_with : forall b x, build_direct b = Some x ->
  build_with b [(direct_shape (length (b_regions b)) (b_sets b), map Z.of_nat (seq 0 (length (b_sets b))))] = Some x.
Proof. exact build_direct_as_build_with. Qed.

(* ---- deepening round: avar monotonicity, metrics glue, raw row layout / totality, split rule ---- *)
(* SegmentMaps::apply, with the mul_div rounding as implemented, is monotone for a monotone map (from strictly
   increasing, to non-decreasing, first point not below and last point not above the diagonal) — for ALL coordinates *)
Theorem c11_avar_monotone_if_map_monotone : forall maps c1 c2, monotone_map maps -> c1 <= c2 ->
  avar_apply maps c1 <= avar_apply maps c2.
Proof. exact avar_monotone_if_map_monotone. Qed.
(* the whole user -> normalized F2Dot14 pipeline (normalize, segment map, to_f2dot14 rounding) is monotone *)
Theorem c11_user_to_normalized_monotone : forall mn df mx maps u1 u2 r1 r2,
  i32 mn -> i32 df -> i32 mx -> i32 u1 -> i32 u2 -> u1 <= u2 ->
  match maps with Some m => monotone_map m | None => True end ->
  user_to_normalized1 mn df mx maps u1 = Some r1 -> user_to_normalized1 mn df mx maps u2 = Some r2 -> r1 <= r2.
Proof. exact user_to_normalized_monotone. Qed.

(* compute_delta over the raw subtable bytes never panics and never indexes out of range, for ANY header values *)
Theorem c11_compute_delta_total : forall regions subs outer inner coords,
  Forall (Forall axis16) regions -> Forall i16 coords ->
  (forall rs, In (Some rs) subs -> Z.of_nat (length (rs_regions rs)) <= 65535) ->
  compute_delta_raw regions subs outer inner coords <> Panic /\
  (forall rs, nth_error subs (Z.to_nat outer) = Some (Some rs) ->
     Forall (fun ri => 0 <= ri < Z.of_nat (length regions)) (rs_regions rs) ->
     exists v, compute_delta_raw regions subs outer inner coords = Ok v).
Proof. exact compute_delta_total. Qed.
(* row layout: fixed stride delta_row_len; wide cells first (32/16 bits), narrow after (16/8), all wide and padded
   when the word count exceeds the column count *)
Theorem c11_delta_set_layout : forall wdc rc (rows : list (list Z * list Z)) inner,
  let wc := Z.land wdc 32767 in
  let long := negb (Z.land wdc 32768 =? 0) in
  0 <= rc -> 0 <= delta_row_len wdc rc ->
  Forall (fun r => Z.of_nat (length (fst r)) = rc /\
                   Z.of_nat (length (enc_cells wc long 0 (fst r) ++ snd r)) = delta_row_len wdc rc /\
                   Forall2 (fun v p => - 2 ^ (cell_width wc long p - 1) <= v < 2 ^ (cell_width wc long p - 1)) (fst r)
                           (map (fun k => 0 + Z.of_nat k) (seq 0 (length (fst r))))) rows ->
  (inner < length rows)%nat ->
  delta_set_bytes wdc rc (flat_map (fun r => enc_cells wc long 0 (fst r) ++ snd r) rows) (Z.of_nat inner)
  = fst (nth inner rows ([], [])).
Proof. exact delta_set_layout. Qed.
Theorem c11_stride_is_row_length : forall wdc rc cells, 0 <= rc -> Z.of_nat (length cells) = rc ->
  Z.of_nat (length (enc_cells (Z.land wdc 32767) (negb (Z.land wdc 32768 =? 0)) 0 cells))
  = delta_row_len wdc rc - (if negb (Z.land wdc 32768 =? 0) then 4 else 2) * Z.max 0 (Z.land wdc 32767 - rc).
Proof. exact stride_is_row_length. Qed.
Theorem c11_compute_delta_raw_spec : forall regions subs outer inner coords rs (rows : list (list Z * list Z)),
  let wdc := rs_wdc rs in
  let rc := Z.of_nat (length (rs_regions rs)) in
  let wc := Z.land wdc 32767 in
  let long := negb (Z.land wdc 32768 =? 0) in
  coords <> [] -> nth_error subs (Z.to_nat outer) = Some (Some rs) ->
  Forall (Forall axis16) regions -> Forall i16 coords ->
  rc <= 65535 -> 0 <= delta_row_len wdc rc ->
  Forall (fun r => Z.of_nat (length (fst r)) = rc /\
                   Z.of_nat (length (enc_cells wc long 0 (fst r) ++ snd r)) = delta_row_len wdc rc /\
                   Forall2 (fun v p => - 2 ^ (cell_width wc long p - 1) <= v < 2 ^ (cell_width wc long p - 1)) (fst r)
                           (map (fun k => 0 + Z.of_nat k) (seq 0 (length (fst r))))) rows ->
  rs_data rs = flat_map (fun r => enc_cells wc long 0 (fst r) ++ snd r) rows ->
  (inner < length rows)%nat ->
  Forall (fun ri => 0 <= ri < Z.of_nat (length regions)) (rs_regions rs) ->
  compute_delta_raw regions subs outer (Z.of_nat inner) coords
  = Ok (wrap_s 32 ((delta_sum regions (rs_regions rs) (fst (nth inner rows ([], []))) coords + 32768) / 65536)).
Proof. exact compute_delta_raw_spec. Qed.

(* metrics glue *)
Theorem c11_hvar_index_clamps : forall (m : dsim) gid, let '(_, mc, _) := m in 0 < mc -> mc <= gid ->
  dsim_lookup m gid = dsim_lookup m (mc - 1).
Proof. exact hvar_index_clamps. Qed.
Theorem c11_hvar_index_packed : forall es ib (entries : list (Z * Z)) gid,
  1 <= es <= 4 -> 1 <= ib <= 16 -> entries <> [] ->
  Forall (fun e => 0 <= fst e < 65536 /\ 0 <= snd e < 2 ^ ib /\ packed ib e < 256 ^ es) entries -> 0 <= gid ->
  dsim_lookup ((es - 1) * 16 + (ib - 1), Z.of_nat (length entries),
               flat_map (fun e => to_be (Z.to_nat es) (packed ib e)) entries) gid
  = Some (nth (Z.to_nat (Z.min gid (Z.of_nat (length entries) - 1))) entries (0, 0)).
Proof. exact hvar_index_packed. Qed.
Theorem c11_advance_spec : forall f scale gid coords h ix D,
  0 <= gid < mf_glyph_count f -> mf_hvar f = Some h -> ~ Forall (fun c => c = 0) coords ->
  Forall (fun m => 0 <= fst m <= 65535) (mf_h_metrics f) ->
  (match hv_adv_map h with Some m => dsim_lookup m gid | None => Some (0, wrap_u 16 gid) end) = Some ix ->
  compute_delta (hv_store h) (fst ix) (snd ix) coords = Ok D -> -32768 <= D <= 32767 ->
  advance_width f scale gid coords = Some (Some (scale_apply scale (hmtx_advance (mf_h_metrics f) gid + D))).
Proof. exact advance_spec. Qed.
Theorem c11_lsb_spec : forall f scale gid coords h m ix D,
  0 <= gid < mf_glyph_count f -> mf_hvar f = Some h -> ~ Forall (fun c => c = 0) coords ->
  -32768 <= hmtx_lsb (mf_h_metrics f) (mf_lsbs f) gid <= 32767 ->
  hv_lsb_map h = Some m -> dsim_lookup m gid = Some ix ->
  compute_delta (hv_store h) (fst ix) (snd ix) coords = Ok D -> -32768 <= D <= 32767 ->
  left_side_bearing f scale gid coords
  = Some (Some (scale_apply scale (hmtx_lsb (mf_h_metrics f) (mf_lsbs f) gid + D))).
Proof. exact lsb_spec. Qed.
Theorem c11_advance_default_location : forall f scale gid coords, 0 <= gid < mf_glyph_count f ->
  Forall (fun c => c = 0) coords -> Forall (fun m => 0 <= fst m <= 65535) (mf_h_metrics f) ->
  advance_width f scale gid coords = Some (Some (scale_apply scale (hmtx_advance (mf_h_metrics f) gid))).
Proof. exact advance_default_location. Qed.
Theorem c11_metrics_beyond_glyph_count : forall f scale gid coords, mf_glyph_count f <= gid ->
  advance_width f scale gid coords = Some None /\ left_side_bearing f scale gid coords = Some None.
Proof. exact metrics_beyond_glyph_count. Qed.
Theorem c11_scale_apply_unscaled : forall v, -32767 <= v <= 32767 -> scale_apply 4194304 v = v * 65536.
Proof. exact scale_apply_unscaled. Qed.

(* the 0xFFFF split: at most MAX_ITEMS rows (in particular exactly MAX_ITEMS) stay one subtable; one more row splits
   off a second one; no subtable is empty or larger than MAX_ITEMS *)
Theorem c11_split_exactly_full : forall e : enc, Z.of_nat (length (snd e)) <= MAX_ITEMS -> split_encs [e] = [e].
Proof. exact split_exactly_full. Qed.
Theorem c11_split_one_more : forall e : enc, MAX_ITEMS < Z.of_nat (length (snd e)) <= 2 * MAX_ITEMS ->
  split_encs [e] = [(fst e, firstn (Z.to_nat MAX_ITEMS) (snd e)); (fst e, skipn (Z.to_nat MAX_ITEMS) (snd e))].
Proof. exact split_one_more. Qed.
Theorem c11_split_encs_subtables : forall sets encs, (forall e, In e encs -> snd e <> []) ->
  Forall (fun e => exists st, encode_encoding sets e = Some st /\ 1 <= st_item_count st <= MAX_ITEMS) (split_encs encs).
Proof. exact split_encs_subtables. Qed.

(* the retrieval theorem for EVERY merge schedule of Encoder::optimize (any list of pairwise merges, with the
   identical-shape absorb step), starting from Encoder::new's grouping by shape; and build never panics on them *)
Theorem c11_ivs_retrieval_every_schedule : forall inputs direct sched b ids st km,
  add_all (builder_new direct) inputs = (b, ids) ->
  wf_inputs inputs ->
  Z.of_nat (length (b_regions b)) <= 65536 ->
  Z.of_nat (length (split_encs (run_schedule (initial_encs b) sched))) <= 65536 ->
  build_with b (run_schedule (initial_encs b) sched) = Some (st, km) ->
  forall k ds id r, nth_error inputs k = Some ds -> nth_error ids k = Some id ->
    row_delta st (remap_get km id None) r = Some (input_delta ds r).
Proof. exact ivs_retrieval_every_schedule. Qed.
Theorem c11_build_schedule_total : forall b sched,
  exists st km, build_with b (run_schedule (initial_encs b) sched) = Some (st, km).
Proof. exact build_schedule_total. Qed.
Theorem c11_build_with_total : forall b encs, (forall e, In e encs -> length (fst e) = length (b_regions b)) ->
  exists st km, build_with b encs = Some (st, km).
Proof. exact build_with_total. Qed.

(* Fvar::user_to_normalized over all axes with the caller's output slice: the result never depends on what the slice
   held before the call; an axis no setting mentions, and every entry beyond the axis count, is 0; no panic *)
Theorem c11_normalize_ignores_buffer : forall axes maps settings buf buf', length buf = length buf' ->
  user_to_normalized axes maps settings buf = user_to_normalized axes maps settings buf'.
Proof. exact normalize_ignores_buffer. Qed.
Theorem c11_normalize_unset_axis_default : forall axes maps settings buf out j,
  user_to_normalized axes maps settings buf = Some out ->
  (length axes <= j)%nat \/ (forall s, In s settings -> fst s <> tag_of (nth j axes (0, 0, 0, 0))) ->
  length out = length buf /\ nth j out 0 = 0.
Proof. exact normalize_unset_axis_default. Qed.
Theorem c11_user_to_normalized_total : forall axes maps settings buf,
  Forall (fun a => let '(_, mn, df, mx) := a in i32 mn /\ i32 df /\ i32 mx) axes -> Forall (fun s => i32 (snd s)) settings ->
  exists out, user_to_normalized axes maps settings buf = Some out.
Proof. exact user_to_normalized_total. Qed.
Theorem c11_user_to_normalized_single : forall t mn df mx maps v old,
  user_to_normalized [(t, mn, df, mx)] maps [(t, v)] [old]
  = match user_to_normalized1 mn df mx (map_for maps 0) v with Some c => Some [c] | None => None end.
Proof. exact user_to_normalized_single. Qed.

Print Assumptions c11_ivs_retrieval.
Print Assumptions c11_region_renumber_bijective.
Print Assumptions c11_merge_covers.
Print Assumptions c11_build_direct_as_build_with.
Print Assumptions c11_normalize_no_trap.
Print Assumptions c11_normalize_range.
Print Assumptions c11_normalize_endpoints.
Print Assumptions c11_normalize_clamps.
Print Assumptions c11_normalize_monotone.
Print Assumptions c11_normalize_exact.
Print Assumptions c11_avar_exact_at_point.
Print Assumptions c11_avar_apply_interpolates.
Print Assumptions c11_avar_identity_outside.
Print Assumptions c11_avar_identity_below.
Print Assumptions c11_tent_scalar_spec.
Print Assumptions c11_tent_single_axis.
Print Assumptions c11_tent_zero_outside.
Print Assumptions c11_tent_one_at_peaks.
Print Assumptions c11_tent_scalar_range.
Print Assumptions c11_compute_delta_spec.
Print Assumptions c11_deltaset_index_map_get.
Print Assumptions c11_metric_with_delta.
Print Assumptions c11_narrowing_lossless.
Print Assumptions c11_avar_monotone_if_map_monotone.
Print Assumptions c11_user_to_normalized_monotone.
Print Assumptions c11_compute_delta_total.
Print Assumptions c11_delta_set_layout.
Print Assumptions c11_stride_is_row_length.
Print Assumptions c11_compute_delta_raw_spec.
Print Assumptions c11_hvar_index_clamps.
Print Assumptions c11_hvar_index_packed.
Print Assumptions c11_advance_spec.
Print Assumptions c11_lsb_spec.
Print Assumptions c11_advance_default_location.
Print Assumptions c11_metrics_beyond_glyph_count.
Print Assumptions c11_scale_apply_unscaled.
Print Assumptions c11_split_exactly_full.
Print Assumptions c11_split_one_more.
Print Assumptions c11_split_encs_subtables.
Print Assumptions c11_ivs_retrieval_every_schedule.
Print Assumptions c11_build_schedule_total.
Print Assumptions c11_build_with_total.
Print Assumptions c11_normalize_ignores_buffer.
Print Assumptions c11_normalize_unset_axis_default.
Print Assumptions c11_user_to_normalized_total.
Print Assumptions c11_user_to_normalized_single.
