(* C11 — property theorems.  Only statements, [exact lemma] and Print Assumptions. *)
From Coq Require Import ZArith List.
From FV Require Import Lib.RustInt C15.Model C15.Proofs C11.Model C11.Proofs.
Import ListNotations.
Open Scope Z_scope.

(* ---- user coordinates normalise as specified (VariationAxisRecord::normalize, all i32 inputs) ---- *)
Theorem c11_normalize_no_trap : forall mn df mx v, i32 mn -> i32 df -> i32 mx -> i32 v -> normalize mn df mx v <> None.
Proof. exact normalize_no_trap. Qed.
Theorem c11_normalize_range : forall mn df mx v, i32 mn -> i32 df -> i32 mx -> i32 v ->
  exists r, normalize mn df mx v = Some r /\ -65536 <= r <= 65536.
Proof. exact normalize_range. Qed.
Theorem c11_normalize_endpoints : forall mn df mx, i32 mn -> i32 df -> i32 mx -> mn < df -> df < mx ->
  normalize mn df mx mn = Some (-65536) /\ normalize mn df mx df = Some 0 /\ normalize mn df mx mx = Some 65536.
Proof. exact normalize_endpoints. Qed.
Theorem c11_normalize_clamps : forall mn df mx v, i32 mn -> i32 df -> i32 mx -> i32 v ->
  (v <= mn -> normalize mn df mx v = normalize mn df mx mn) /\
  (Z.max mx mn <= v -> normalize mn df mx v = normalize mn df mx (Z.max mx mn)).
Proof. exact normalize_clamps. Qed.
Theorem c11_normalize_monotone : forall mn df mx v1 v2 r1 r2, i32 mn -> i32 df -> i32 mx -> i32 v1 -> i32 v2 ->
  v1 <= v2 -> normalize mn df mx v1 = Some r1 -> normalize mn df mx v2 = Some r2 -> r1 <= r2.
Proof. exact normalize_monotone. Qed.
Theorem c11_normalize_exact : forall mn df mx v, i32 mn -> i32 df -> i32 mx -> i32 v ->
  mn <= df -> df <= mx -> mn <= v -> v <= mx -> df - mn <= 2147483647 -> mx - df <= 2147483647 ->
  normalize mn df mx v =
    Some (if v <? df then - rha ((df - v) * 65536) (df - mn)
          else if df <? v then rha ((v - df) * 65536) (mx - df) else 0).
Proof. exact normalize_exact. Qed.

(* ---- segment maps interpolate linearly between their points (SegmentMaps::apply) ---- *)
Theorem c11_avar_exact_at_point : forall pre f t post coord,
  (forall p, In p pre -> fx4 (fst p) < coord) -> coord = fx4 f -> avar_apply (pre ++ (f, t) :: post) coord = fx4 t.
Proof. exact avar_exact_at_point. Qed.
Theorem c11_avar_apply_interpolates : forall pre f0 t0 f1 t1 post coord,
  (forall p, In p pre -> fx4 (fst p) < coord) -> i16 f0 -> i16 t0 -> i16 f1 -> i16 t1 ->
  fx4 f0 < coord -> coord < fx4 f1 ->
  avar_apply (pre ++ (f0, t0) :: (f1, t1) :: post) coord
  = fx4 t0 + rha ((fx4 t1 - fx4 t0) * (coord - fx4 f0)) (fx4 f1 - fx4 f0).
Proof. exact avar_apply_interpolates. Qed.
Theorem c11_avar_identity_outside : forall maps coord,
  (forall p, In p maps -> fx4 (fst p) < coord) -> avar_apply maps coord = coord.
Proof. exact avar_above_all. Qed.
Theorem c11_avar_identity_below : forall f t rest coord, coord < fx4 f -> avar_apply ((f, t) :: rest) coord = coord.
Proof. exact avar_below_first. Qed.

(* ---- the tent scalar is the specified tent (VariationRegion::compute_scalar) ---- *)
Theorem c11_tent_scalar_spec : forall axes coords, Forall axis16 axes -> Forall i16 coords ->
  compute_scalar axes coords = tent_spec axes coords 65536.
Proof. exact tent_scalar_spec. Qed.
Theorem c11_tent_single_axis : forall s p e c, i16 s -> i16 p -> i16 e -> i16 c ->
  compute_scalar [(s, p, e)] [c] = match tent_frac c s p e with None => 0 | Some (n, d) => rha (65536 * n) d end.
Proof. exact tent_single_axis. Qed.
Theorem c11_tent_zero_outside : forall pre s p e post coords,
  Forall axis16 (pre ++ (s, p, e) :: post) -> Forall i16 coords -> proper_tent s p e ->
  (let c := nth (length pre) coords 0 in c < s \/ e < c) ->
  compute_scalar (pre ++ (s, p, e) :: post) coords = 0.
Proof. exact tent_zero_outside. Qed.
Theorem c11_tent_one_at_peaks : forall axes coords, Forall axis16 axes -> Forall i16 coords ->
  Forall2 (fun a c => c = snd (fst a)) axes coords -> compute_scalar axes coords = 65536.
Proof. exact tent_one_at_peaks. Qed.
Theorem c11_tent_scalar_range : forall axes coords, Forall axis16 axes -> Forall i16 coords ->
  0 <= compute_scalar axes coords <= 65536.
Proof. exact tent_scalar_range. Qed.

(* ---- the delta at a location = sum over regions of tent scalar * delta, one rounding (compute_delta) ---- *)
Theorem c11_compute_delta_spec : forall s outer inner coords st,
  coords <> [] ->
  nth_error (vs_data s) (Z.to_nat outer) = Some (Some st) ->
  Forall (Forall axis16) (vs_regions s) -> Forall i16 coords ->
  let row := nth (Z.to_nat inner) (st_rows st) [] in
  Forall i32 row -> (length row <= length (st_regions st))%nat -> Z.of_nat (length row) <= 65535 ->
  Forall (fun ri => 0 <= ri < Z.of_nat (length (vs_regions s))) (st_regions st) ->
  compute_delta s outer inner coords
  = Ok (wrap_s 32 ((delta_sum (vs_regions s) (st_regions st) row coords + 32768) / 65536)).
Proof. exact compute_delta_spec. Qed.

(* ---- DeltaSetIndexMap::get ---- *)
Theorem c11_deltaset_index_map_get : forall es ib (entries : list (Z * Z)) index,
  1 <= es <= 4 -> 1 <= ib <= 16 -> entries <> [] ->
  Forall (fun e => 0 <= fst e < 65536 /\ 0 <= snd e < 2 ^ ib /\ packed ib e < 256 ^ es) entries ->
  0 <= index ->
  dsim_get ((es - 1) * 16 + (ib - 1)) (Z.of_nat (length entries))
           (flat_map (fun e => to_be (Z.to_nat es) (packed ib e)) entries) index
  = Some (nth (Z.to_nat (Z.min index (Z.of_nat (length entries) - 1))) entries (0, 0)).
Proof. exact deltaset_index_map_get. Qed.

(* ---- metrics glue: base + delta (16-bit deltas) ---- *)
Theorem c11_metric_with_delta : forall base d, 0 <= base <= 65535 -> -32768 <= d <= 32767 ->
  metric_with_delta base (Ok d) = Some (base + d).
Proof. exact metric_with_delta_spec. Qed.

(* ---- builder ---- *)
Theorem c11_narrowing_lossless : forall v bits, i32 v -> (bits = 8 \/ bits = 16 \/ bits = 32) ->
  8 * for_val v <= bits -> wrap_s bits v = v.
Proof. exact narrowing_lossless. Qed.

(* every delta set added is retrievable, through the index the builder returns, with exactly the same per-region
   deltas — for every list of delta sets and EVERY outcome of the optimiser (any grouping of the stored sets into
   encodings under any covering shapes, in any order; rows split at 0xFFFF, narrowed to the column widths, regions
   pruned and renumbered) *)
Theorem c11_ivs_retrieval : forall inputs direct encs b ids st km,
  add_all (builder_new direct) inputs = (b, ids) ->
  wf_inputs inputs ->
  Z.of_nat (length (b_regions b)) <= 65536 ->
  valid_encs b encs ->
  build_with b encs = Some (st, km) ->
  forall k ds id r, nth_error inputs k = Some ds -> nth_error ids k = Some id ->
    row_delta st (remap_get km id None) r = Some (input_delta ds r).
Proof. exact ivs_retrieval. Qed.
Theorem c11_region_renumber_bijective : forall kept, NoDup kept ->
  forall x p, pos_of x kept = Some p <-> nth_error kept p = Some x.
Proof. exact region_renumber_bijective. Qed.
Theorem c11_merge_covers : forall a c x, length a = length c -> length a = length x ->
  (can_cover a x = true -> can_cover (shape_merge a c) x = true) /\
  (can_cover c x = true -> can_cover (shape_merge a c) x = true).
Proof. exact merge_covers. Qed.
Theorem c11_build_direct_as_build_with : forall b x, build_direct b = Some x ->
  build_with b [(direct_shape (length (b_regions b)) (b_sets b), map Z.of_nat (seq 0 (length (b_sets b))))] = Some x.
Proof. exact build_direct_as_build_with. Qed.

Print Assumptions c11_ivs_retrieval.
Print Assumptions c11_region_renumber_bijective.
Print Assumptions c11_merge_covers.
Print Assumptions c11_build_direct_as_build_with.
Print Assumptions c11_normalize_no_trap.
Print Assumptions c11_normalize_range.
Print Assumptions c11_normalize_endpoints.
Print Assumptions c11_normalize_clamps.
Print Assumptions c11_normalize_monotone.
Print Assumptions c11_normalize_exact.
Print Assumptions c11_avar_exact_at_point.
Print Assumptions c11_avar_apply_interpolates.
Print Assumptions c11_avar_identity_outside.
Print Assumptions c11_avar_identity_below.
Print Assumptions c11_tent_scalar_spec.
Print Assumptions c11_tent_single_axis.
Print Assumptions c11_tent_zero_outside.
Print Assumptions c11_tent_one_at_peaks.
Print Assumptions c11_tent_scalar_range.
Print Assumptions c11_compute_delta_spec.
Print Assumptions c11_deltaset_index_map_get.
Print Assumptions c11_metric_with_delta.
Print Assumptions c11_narrowing_lossless.
