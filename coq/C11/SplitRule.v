(* C11 — the 0xFFFF split of an encoding into ItemVariationData subtables (Model.v chunks / split_encs). *)
From Coq Require Import ZArith Lia List Bool.
From FV Require Import Lib.RustInt C11.Model.
Import ListNotations.
Open Scope Z_scope.

(* an encoding with at most MAX_ITEMS rows — in particular EXACTLY MAX_ITEMS — is a single subtable *)
Lemma chunks_fit fuel n l : (length l <= n)%nat -> chunks fuel n l = [l].
Proof. intros H. destruct fuel; cbn [chunks]; [reflexivity|]. replace (length l <=? n)%nat with true by (symmetry; apply Nat.leb_le; exact H). reflexivity. Qed.

Lemma chunks_over fuel n l : (0 < n)%nat -> (n < length l)%nat -> (length l <= fuel)%nat ->
  chunks fuel n l = firstn n l :: chunks (pred fuel) n (skipn n l).
Proof.
  intros Hn Hl Hf. destruct fuel; [lia|]. cbn [chunks pred].
  replace (length l <=? n)%nat with false by (symmetry; apply Nat.leb_gt; exact Hl). reflexivity.
Qed.

(* every subtable has at most MAX_ITEMS rows (itemCount fits u16) and, for a non-empty encoding, at least one
   (no NULL subtable is produced by the split) *)
Lemma chunks_bounded n : (0 < n)%nat -> forall fuel l, (length l <= fuel)%nat ->
  Forall (fun c => (length c <= n)%nat) (chunks fuel n l).
Proof.
  intros Hn. induction fuel as [|f IH]; intros l Hl.
  - destruct l; [|cbn in Hl; lia]. cbn. constructor; [cbn; lia | constructor].
  - cbn [chunks]. destruct (Nat.leb_spec (length l) n).
    + constructor; [assumption | constructor].
    + constructor; [rewrite firstn_length; lia|]. apply IH. rewrite skipn_length. lia.
Qed.
Lemma chunks_nonempty n : (0 < n)%nat -> forall fuel l, l <> [] -> (length l <= fuel)%nat ->
  Forall (fun c => c <> []) (chunks fuel n l).
Proof.
  intros Hn. induction fuel as [|f IH]; intros l Hne Hl.
  - destruct l; [congruence | cbn in Hl; lia].
  - cbn [chunks]. destruct (Nat.leb_spec (length l) n).
    + constructor; [assumption | constructor].
    + constructor.
      * intros E. apply (f_equal (@length _)) in E. rewrite firstn_length in E. cbn in E. lia.
      * apply IH; [|rewrite skipn_length; lia]. intros E. apply (f_equal (@length _)) in E. rewrite skipn_length in E. cbn in E. lia.
Qed.

(* split_rule: what Encoder::encode produces for the encodings, stated on row counts *)
Lemma split_exactly_full (e : enc) : Z.of_nat (length (snd e)) <= MAX_ITEMS -> split_encs [e] = [e].
Proof.
  intros H. unfold split_encs. cbn [flat_map]. rewrite app_nil_r. rewrite chunks_fit by (unfold MAX_ITEMS in *; lia).
  destruct e; reflexivity.
Qed.
Lemma split_one_more (e : enc) : MAX_ITEMS < Z.of_nat (length (snd e)) <= 2 * MAX_ITEMS ->
  split_encs [e] = [(fst e, firstn (Z.to_nat MAX_ITEMS) (snd e)); (fst e, skipn (Z.to_nat MAX_ITEMS) (snd e))].
Proof.
  intros H. unfold split_encs. cbn [flat_map]. rewrite app_nil_r.
  rewrite chunks_over by (unfold MAX_ITEMS in *; lia).
  rewrite chunks_fit by (rewrite skipn_length; unfold MAX_ITEMS in *; lia). reflexivity.
Qed.

Lemma split_encs_subtables sets encs : (forall e, In e encs -> snd e <> []) ->
  Forall (fun e => exists st, encode_encoding sets e = Some st /\ 1 <= st_item_count st <= MAX_ITEMS) (split_encs encs).
Proof.
  intros Hne. rewrite Forall_forall. intros e' He'. unfold split_encs in He'.
  apply in_flat_map in He' as [e [He Hc]]. apply in_map_iff in Hc as [c [<- Hc]].
  assert (Hpos : (0 < Z.to_nat MAX_ITEMS)%nat) by (unfold MAX_ITEMS; lia).
  pose proof (chunks_bounded _ Hpos (length (snd e)) (snd e) (le_n _)) as HB.
  pose proof (chunks_nonempty _ Hpos (length (snd e)) (snd e) (Hne e He) (le_n _)) as HN.
  rewrite Forall_forall in HB, HN. specialize (HB c Hc). specialize (HN c Hc).
  unfold encode_encoding. cbn [snd fst]. destruct c as [|id ids]; [congruence|].
  eexists. split; [reflexivity|]. cbn [st_item_count]. unfold MAX_ITEMS in *. cbn [length] in *. lia.
Qed.
