(* C11 — executable model of axis normalisation, tent scalars, item-variation-store delta evaluation,
   DeltaSetIndexMap lookup and the VariationStoreBuilder, hand-written statement by statement from
     read-fonts/src/tables/{fvar.rs,avar.rs,variations.rs,hvar.rs}, skrifa/src/metrics.rs,
     write-fonts/src/tables/variations.rs and variations/ivs_builder.rs.
   No proofs in this file.  Integers are unbounded Z with every wrap / saturation explicit;
   [option] / [res] results make panics (overflow-checks + debug-assertions profile) and ReadErrors explicit.
   Fixed = 16.16 raw i32 bits, F2Dot14 = raw i16 bits.  Fixed arithmetic kernels come from C15.Model. *)
From Coq Require Import ZArith List Bool.
From FV Require Import Lib.RustInt C15.Model.
Import ListNotations.
Open Scope Z_scope.

Inductive res (A : Type) : Type := Ok (a : A) | Err | Panic.
Arguments Ok {A} a. Arguments Err {A}. Arguments Panic {A}.

(* ================= 1. normalisation ================= *)

(* core::cmp::Ord::clamp: assert!(min <= max) *)
Definition ord_clamp (lo hi v : Z) : option Z :=
  if hi <? lo then None else Some (if v <? lo then lo else if hi <? v then hi else v).

(* read-fonts/src/tables/fvar.rs  VariationAxisRecord::normalize *)
Definition normalize (minv defv maxv value : Z) : option Z :=
  let max_value := Z.max maxv minv in
  do value <- ord_clamp minv max_value value ;;
  do value <- (match value ?= defv with
               | Lt => fx_neg 32 (fixed_div (fx_sat_sub 32 defv value) (fx_sat_sub 32 defv minv))
               | Gt => Some (fixed_div (fx_sat_sub 32 value defv) (fx_sat_sub 32 max_value defv))
               | Eq => Some 0
               end) ;;
  ord_clamp (-65536) 65536 value.

(* read-fonts/src/tables/avar.rs  SegmentMaps::apply; a map point is (from, to) in raw F2Dot14 *)
Fixpoint avar_scan (maps : list (Z * Z)) (first : bool) (prev : Z * Z) (coord : Z) : Z :=
  match maps with
  | [] => coord
  | (f, t) :: rest =>
      let from := f2dot14_to_fixed f in
      if from =? coord then f2dot14_to_fixed t
      else if coord <? from then
        if first then coord
        else
          let to := f2dot14_to_fixed t in
          let prev_from := f2dot14_to_fixed (fst prev) in
          let prev_to := f2dot14_to_fixed (snd prev) in
          fx_add 32 prev_to
            (fixed_mul_div (fx_sub 32 to prev_to) (fx_sub 32 coord prev_from) (fx_sub 32 from prev_from))
      else avar_scan rest false (f, t) coord
  end.
Definition avar_apply (maps : list (Z * Z)) (coord : Z) : Z := avar_scan maps true (0, 0) coord.

(* read-fonts fvar.rs Fvar::user_to_normalized, one axis, avar version 1:
   normalize, then the axis' segment map if the avar table has one, then Fixed::to_f2dot14 *)
Definition user_to_normalized1 (minv defv maxv : Z) (maps : option (list (Z * Z))) (user : Z) : option Z :=
  do c <- normalize minv defv maxv user ;;
  Some (fixed_to_f2dot14 (match maps with Some m => avar_apply m c | None => c end)).

(* read-fonts fvar.rs Fvar::user_to_normalized for all axes, avar absent or version 1.
   axes: (tag, min, default, max) in fvar order (several axes may share a tag); maps: the avar SegmentMaps by axis index
   (an avar table may hold fewer maps than there are axes); settings: (tag, user value) in the caller's order;
   buf: the caller's output slice AS IT IS ON ENTRY (any length, any content).
     normalized_coords.fill(0);  for each setting, for each axis i with that tag, if i < len: coords[i] = ...  *)
Definition axis_rec := (Z * Z * Z * Z)%type.
Definition map_for (maps : option (list (list (Z * Z)))) (i : nat) : option (list (Z * Z)) :=
  match maps with Some ms => nth_error ms i | None => None end.
Fixpoint set_at (n : nat) (x : Z) (l : list Z) : list Z :=          (* get_mut(i): no effect beyond the slice *)
  match l, n with
  | [], _ => []
  | _ :: r, O => x :: r
  | y :: r, S m => y :: set_at m x r
  end.
Fixpoint apply_setting (axes : list axis_rec) (maps : option (list (list (Z * Z)))) (i : nat) (tag v : Z)
         (buf : list Z) : option (list Z) :=
  match axes with
  | [] => Some buf
  | (t, mn, df, mx) :: rest =>
      if (t =? tag) && (i <? length buf)%nat then
        do c <- user_to_normalized1 mn df mx (map_for maps i) v ;;
        apply_setting rest maps (S i) tag v (set_at i c buf)
      else apply_setting rest maps (S i) tag v buf
  end.
Fixpoint apply_settings (axes : list axis_rec) (maps : option (list (list (Z * Z)))) (settings : list (Z * Z))
         (buf : list Z) : option (list Z) :=
  match settings with
  | [] => Some buf
  | (tag, v) :: rest => do b <- apply_setting axes maps O tag v buf ;; apply_settings axes maps rest b
  end.
Definition user_to_normalized (axes : list axis_rec) (maps : option (list (list (Z * Z)))) (settings : list (Z * Z))
           (buf : list Z) : option (list Z) :=
  apply_settings axes maps settings (repeat 0 (length buf)).

(* ================= 2. tent scalar and delta evaluation ================= *)

Definition region := list (Z * Z * Z).        (* per axis (start, peak, end), raw F2Dot14 *)

(* one iteration of the loop in VariationRegion::compute_scalar; None = `return ZERO` *)
Definition tent_axis (scalar coord start peak end_ : Z) : option Z :=
  if (peak <? start) || (end_ <? peak) || (peak =? 0) || ((start <? 0) && (0 <? end_)) then Some scalar
  else if (coord <? start) || (end_ <? coord) then None
  else if coord =? peak then Some scalar
  else if coord <? peak then Some (fixed_mul_div scalar (fx_sub 32 coord start) (fx_sub 32 peak start))
  else Some (fixed_mul_div scalar (fx_sub 32 end_ coord) (fx_sub 32 end_ peak)).

(* read-fonts variations.rs VariationRegion::compute_scalar; coords raw F2Dot14, missing coords = 0 *)
Fixpoint compute_scalar_go (axes : region) (coords : list Z) (scalar : Z) : Z :=
  match axes with
  | [] => scalar
  | (s, p, e) :: rest =>
      let coord := match coords with c :: _ => f2dot14_to_fixed c | [] => 0 end in
      match tent_axis scalar coord (f2dot14_to_fixed s) (f2dot14_to_fixed p) (f2dot14_to_fixed e) with
      | None => 0
      | Some sc => compute_scalar_go rest (tl coords) sc
      end
  end.
Definition compute_scalar (axes : region) (coords : list Z) : Z := compute_scalar_go axes coords 65536.

(* decoded ItemVariationData: region indexes and rows of deltas as ItemVariationData::delta_set yields them *)
Record subtable := { st_item_count : Z; st_wdc : Z; st_regions : list Z; st_rows : list (list Z) }.
Record store := { vs_regions : list region; vs_data : list (option subtable) }.

(* the accumulation loop of ItemVariationStore::compute_delta *)
Fixpoint delta_accum (regions : list region) (ridx : list Z) (row : list Z) (coords : list Z) (accum : Z) : res Z :=
  match row with
  | [] => Ok accum
  | d :: row' =>
      match ridx with
      | [] => Err                                   (* region_indices.get(i) = None *)
      | ri :: ridx' =>
          match nth_error regions (Z.to_nat ri) with
          | None => Err                             (* regions.get(region_index)? *)
          | Some reg =>
              let scalar := compute_scalar reg coords in
              match chk_s 64 (accum + d * scalar) with
              | None => Panic
              | Some a => delta_accum regions ridx' row' coords a
              end
          end
      end
  end.

(* read-fonts variations.rs ItemVariationStore::compute_delta *)
Definition compute_delta (s : store) (outer inner : Z) (coords : list Z) : res Z :=
  match coords with
  | [] => Ok 0
  | _ =>
      match nth_error (vs_data s) (Z.to_nat outer) with
      | None => Err                                 (* ArrayOfNullableOffsets::get: InvalidCollectionIndex *)
      | Some None => Ok 0                           (* null offset *)
      | Some (Some st) =>
          let row := nth (Z.to_nat inner) (st_rows st) [] in   (* row beyond the data: empty iterator *)
          match delta_accum (vs_regions s) (st_regions st) row coords 0 with
          | Ok accum => match chk_s 64 (accum + 32768) with
                        | None => Panic
                        | Some a => Ok (wrap_s 32 (Z.shiftr a 16))
                        end
          | Err => Err
          | Panic => Panic
          end
      end
  end.

(* ---- ItemVariationData::delta_set over the raw bytes (ItemDeltas iterator) ---- *)
Definition delta_row_len (wdc rc : Z) : Z :=
  let long_words := negb (Z.land wdc 32768 =? 0) in
  let word_size := if long_words then 4 else 2 in
  let small_size := if long_words then 2 else 1 in
  let long_count := Z.land wdc 32767 in
  let short_count := Z.max 0 (rc - long_count) in
  long_count * word_size + short_count * small_size.

Fixpoint read_items (n : nat) (pos : Z) (wcount : Z) (long_words : bool) (data : list Z) : list Z :=
  match n with
  | O => []
  | S m =>
      let size := Z.to_nat (match (wcount <=? pos), long_words with
                            | true, true | false, false => 2
                            | true, false => 1
                            | false, true => 4
                            end) in
      if (length data <? size)%nat then []
      else s_of_be (Z.of_nat size * 8) (firstn size data) :: read_items m (pos + 1) wcount long_words (skipn size data)
  end.

Definition delta_set_bytes (wdc rc : Z) (data : list Z) (inner : Z) : list Z :=
  let offset := Z.to_nat (delta_row_len wdc rc * inner) in
  let d := if (length data <? offset)%nat then [] else skipn offset data in
  read_items (Z.to_nat rc) 0 (Z.land wdc 32767) (negb (Z.land wdc 32768 =? 0)) d.

(* ItemVariationData as parsed by read-fonts: itemCount, wordDeltaCount, regionIndexes and the delta_sets bytes
   (whose length the parser fixes to delta_sets_len = delta_row_len * itemCount) *)
Record rawsub := { rs_item_count : Z; rs_wdc : Z; rs_regions : list Z; rs_data : list Z }.

(* ItemVariationStore::compute_delta on the raw subtables: delta_set(inner) is decoded from the bytes for ANY header
   values (word count beyond the region count, LONG_WORDS, inner index beyond the data) *)
Definition compute_delta_raw (regions : list region) (subs : list (option rawsub)) (outer inner : Z)
           (coords : list Z) : res Z :=
  match coords with
  | [] => Ok 0
  | _ =>
      match nth_error subs (Z.to_nat outer) with
      | None => Err
      | Some None => Ok 0
      | Some (Some rs) =>
          let row := delta_set_bytes (rs_wdc rs) (Z.of_nat (length (rs_regions rs))) (rs_data rs) inner in
          match delta_accum regions (rs_regions rs) row coords 0 with
          | Ok accum => match chk_s 64 (accum + 32768) with
                        | None => Panic
                        | Some a => Ok (wrap_s 32 (Z.shiftr a 16))
                        end
          | Err => Err
          | Panic => Panic
          end
      end
  end.

(* the decoded view the harness extracts through delta_set, as a function of the raw subtable *)
Definition decode_rawsub (rs : rawsub) : subtable :=
  {| st_item_count := rs_item_count rs; st_wdc := rs_wdc rs; st_regions := rs_regions rs;
     st_rows := map (fun i => delta_set_bytes (rs_wdc rs) (Z.of_nat (length (rs_regions rs))) (rs_data rs) (Z.of_nat i))
                    (seq 0 (Z.to_nat (rs_item_count rs))) |}.

(* ---- DeltaSetIndexMap::get ---- *)
Definition read_be_at (data : list Z) (off size : nat) : option Z :=
  if (length data <? off + size)%nat then None else Some (from_be (firstn size (skipn off data))).

(* fmt = the raw entryFormat byte; result None = ReadError *)
Definition dsim_get (fmt map_count : Z) (data : list Z) (index : Z) : option (Z * Z) :=
  let fmt := Z.land fmt 63 in                                  (* from_bits_truncate *)
  let entry_size := Z.shiftr (Z.land fmt 48) 4 + 1 in
  let index := Z.min index (Z.max 0 (map_count - 1)) in        (* map_count.saturating_sub(1) *)
  let offset := index * entry_size in
  match read_be_at data (Z.to_nat offset) (Z.to_nat entry_size) with
  | None => None
  | Some entry =>
      let bit_count := Z.land fmt 15 + 1 in
      Some (wrap_u 16 (Z.shiftr entry bit_count), wrap_u 16 (Z.land entry (2 ^ bit_count - 1)))
  end.

(* write-fonts variations.rs DeltaSetIndexMap::get_entry_format (mapping entries are u32 = outer<<16 | inner) *)
Definition bit_length16 (x : Z) : Z := if x =? 0 then 0 else Z.log2 x + 1.     (* 16 - leading_zeros *)
Definition get_entry_format (mapping : list Z) : Z :=
  let ored := fold_left Z.lor mapping 0 in
  let inner := Z.land ored 65535 in
  let inner_bits := Z.max (bit_length16 inner) 1 in
  let ored := Z.lor (Z.shiftr ored (16 - inner_bits)) (Z.land ored (2 ^ inner_bits - 1)) in
  let entry_size := if ored <=? 255 then 1 else if ored <=? 65535 then 2 else if ored <=? 16777215 then 3 else 4 in
  Z.lor (Z.shiftl (entry_size - 1) 4) (inner_bits - 1).

Fixpoint trim_trailing (l : list Z) : list Z :=     (* omit trailing entries equal to their predecessor *)
  match l with
  | a :: ((b :: _) as r) => let r' := trim_trailing r in
                            match r' with
                            | [b'] => if a =? b' then [a] else a :: r'
                            | _ => a :: r'
                            end
  | _ => l
  end.

(* write-fonts DeltaSetIndexMap::pack_map_data: (entry format, map_count, map_data) *)
Definition pack_map_data (mapping : list Z) : Z * Z * list Z :=
  let fmt := get_entry_format mapping in
  let inner_bits := Z.land fmt 15 + 1 in
  let inner_mask := 2 ^ inner_bits - 1 in
  let outer_shift := 16 - inner_bits in
  let entry_size := Z.shiftr (Z.land fmt 48) 4 + 1 in
  let kept := trim_trailing mapping in
  (fmt, Z.of_nat (length kept),
   flat_map (fun idx => to_be (Z.to_nat entry_size)
                          (wrap_u (8 * entry_size)
                             (Z.lor (Z.shiftr (Z.land idx 4294901760) outer_shift) (Z.land idx inner_mask)))) kept).

(* ---- HVAR / skrifa glue ---- *)
(* read-fonts variations.rs advance_delta: Fixed::from_i32(compute_delta) ; skrifa metrics.rs:
   advance (u16 as i32) += delta.to_f64() as i32  (truncation toward zero; checked add) *)
Definition metric_with_delta (base : Z) (delta : res Z) : option Z :=
  match delta with
  | Ok d => chk_s 32 (base + Z.quot (fixed_from_i32 d) 65536)
  | Err => Some base                         (* .unwrap_or(0) *)
  | Panic => None
  end.

(* skrifa metrics.rs FixedScaleFactor::apply (raw 16.16 result, converted with to_f32 afterwards); the identity
   scale of Size::unscaled() is Fixed::from_bits(0x10000 * 64) (skrifa instance.rs fixed_linear_scale) *)
Definition scale_apply (scale value : Z) : Z := fixed_mul_div scale value 64.
Definition metric_unscaled (base : Z) (delta : res Z) : option Z :=
  do v <- metric_with_delta base delta ;; Some (scale_apply 4194304 v).

(* ---- the metrics glue: read-fonts hvar.rs / variations.rs advance_delta, item_delta; skrifa metrics.rs GlyphMetrics ---- *)
Definition dsim := (Z * Z * list Z)%type.                  (* entryFormat byte, mapCount, mapData *)
Record hvar_tbl := { hv_store : store; hv_adv_map : option dsim; hv_lsb_map : option dsim }.
(* hmtx long metrics (advance u16, lsb i16), trailing lsb array, maxp glyph count, head unitsPerEm *)
Record metrics_font := { mf_glyph_count : Z; mf_upem : Z; mf_h_metrics : list (Z * Z); mf_lsbs : list Z;
                         mf_hvar : option hvar_tbl }.

Definition dsim_lookup (m : dsim) (gid : Z) : option (Z * Z) := let '(fmt, mc, data) := m in dsim_get fmt mc data gid.

Definition delta_at (h : hvar_tbl) (ix : option (Z * Z)) (coords : list Z) : res Z :=
  match ix with
  | None => Err
  | Some (o, i) => match compute_delta (hv_store h) o i coords with
                   | Ok d => Ok (fixed_from_i32 d)
                   | Err => Err
                   | Panic => Panic
                   end
  end.
(* variations.rs advance_delta: no (readable) map => implicit index (outer 0, inner gid as u16) *)
Definition advance_delta (h : hvar_tbl) (gid : Z) (coords : list Z) : res Z :=
  match coords with
  | [] => Ok 0
  | _ => delta_at h (match hv_adv_map h with Some m => dsim_lookup m gid | None => Some (0, wrap_u 16 gid) end) coords
  end.
(* variations.rs item_delta: no map => Err(NullOffset) *)
Definition lsb_delta (h : hvar_tbl) (gid : Z) (coords : list Z) : res Z :=
  match coords with
  | [] => Ok 0
  | _ => match hv_lsb_map h with Some m => delta_at h (dsim_lookup m gid) coords | None => Err end
  end.

(* skrifa instance.rs LocationRef::effective_coords: the default location is the empty slice *)
Definition effective_coords (coords : list Z) : list Z := if forallb (Z.eqb 0) coords then [] else coords.
(* skrifa instance.rs Size::fixed_linear_scale; ppem64 = (ppem * 64.) as i32, None = Size::unscaled() *)
Definition fixed_linear_scale (ppem64 : option Z) (upem : Z) : Z :=
  match ppem64 with
  | Some p => if 0 <? upem then fixed_div p upem else 4194304
  | None => 4194304
  end.

(* metric += delta.to_f64() as i32 (truncation), .unwrap_or(0) on a ReadError; checked i32 add *)
Definition add_delta (base : Z) (d : res Z) : option Z :=
  match d with
  | Ok x => chk_s 32 (base + Z.quot x 65536)
  | Err => Some base
  | Panic => None
  end.

(* skrifa metrics.rs GlyphMetrics::advance_width for a font with HVAR or without gvar; result: None = panic,
   Some None = `None`, Some (Some bits) = raw 16.16 bits of the value that is then converted with to_f32 *)
Definition advance_width (f : metrics_font) (scale : Z) (gid : Z) (coords : list Z) : option (option Z) :=
  if mf_glyph_count f <=? gid then Some None
  else
    let default_advance := match mf_h_metrics f with [] => 0 | m :: r => fst (last r m) end in
    let advance := match nth_error (mf_h_metrics f) (Z.to_nat gid) with Some m => fst m | None => default_advance end in
    match (match mf_hvar f with
           | Some h => add_delta advance (advance_delta h gid (effective_coords coords))
           | None => Some advance
           end) with
    | None => None
    | Some a => Some (Some (scale_apply scale a))
    end.

(* GlyphMetrics::left_side_bearing *)
Definition left_side_bearing (f : metrics_font) (scale : Z) (gid : Z) (coords : list Z) : option (option Z) :=
  if mf_glyph_count f <=? gid then Some None
  else
    let n := Z.of_nat (length (mf_h_metrics f)) in
    let lsb := match nth_error (mf_h_metrics f) (Z.to_nat gid) with
               | Some m => snd m
               | None => nth (Z.to_nat (Z.max 0 (gid - n))) (mf_lsbs f) 0     (* saturating_sub; unwrap_or_default *)
               end in
    match (match mf_hvar f with
           | Some h => add_delta lsb (lsb_delta h gid (effective_coords coords))
           | None => Some lsb
           end) with
    | None => None
    | Some a => Some (Some (scale_apply scale a))
    end.

(* ================= 3. VariationStoreBuilder ================= *)

Definition axis_eqb (a b : Z * Z * Z) : bool :=
  let '(a1, a2, a3) := a in let '(b1, b2, b3) := b in (a1 =? b1) && (a2 =? b2) && (a3 =? b3).
Fixpoint region_eqb (a b : region) : bool :=
  match a, b with
  | [], [] => true
  | x :: a', y :: b' => axis_eqb x y && region_eqb a' b'
  | _, _ => false
  end.

Fixpoint index_of (r : region) (l : list region) : option nat :=
  match l with
  | [] => None
  | x :: l' => if region_eqb x r then Some O else option_map S (index_of r l')
  end.

(* VariationStoreBuilder::canonical_index_for_region: HashMap<VariationRegion, usize> keyed by insertion count *)
Definition canon (regs : list region) (r : region) : list region * nat :=
  match index_of r regs with
  | Some i => (regs, i)
  | None => (regs ++ [r], length regs)
  end.

Definition dset := list (Z * Z).       (* (canonical region index as u16, delta) *)

Fixpoint canon_all (regs : list region) (ds : list (region * Z)) : list region * dset :=
  match ds with
  | [] => (regs, [])
  | (r, d) :: rest =>
      let '(regs1, i) := canon regs r in
      let '(regs2, out) := canon_all regs1 rest in
      (regs2, (wrap_u 16 (Z.of_nat i), d) :: out)
  end.

(* sort_unstable on Vec<(u16, i32)>: lexicographic order (insertion sort; the sorted result is unique) *)
Definition pair_leb (a b : Z * Z) : bool := (fst a <? fst b) || ((fst a =? fst b) && (snd a <=? snd b)).
Fixpoint insert_sorted (x : Z * Z) (l : dset) : dset :=
  match l with
  | [] => [x]
  | y :: r => if pair_leb x y then x :: y :: r else y :: insert_sorted x r
  end.
Definition sort_pairs (l : dset) : dset := fold_right insert_sorted [] l.

Definition pair_eqb (a b : Z * Z) : bool := (fst a =? fst b) && (snd a =? snd b).
Fixpoint dset_eqb (a b : dset) : bool :=
  match a, b with
  | [], [] => true
  | x :: a', y :: b' => pair_eqb x y && dset_eqb a' b'
  | _, _ => false
  end.
Fixpoint find_dset (c : dset) (l : list dset) : option nat :=
  match l with
  | [] => None
  | x :: l' => if dset_eqb x c then Some O else option_map S (find_dset c l')
  end.

(* builder state: all_regions in insertion order; DeltaSetStorage::{Direct, Deduplicated} — in both the
   temporary id of a stored set is its position, and iter() yields them in position order *)
Record builder := { b_regions : list region; b_direct : bool; b_sets : list dset }.
Definition builder_new (direct : bool) : builder := {| b_regions := []; b_direct := direct; b_sets := [] |}.

(* VariationStoreBuilder::add_deltas + DeltaSetStorage::add *)
Definition canonical_set (raw : dset) : dset :=
  let sorted := sort_pairs raw in
  if forallb (fun p => snd p =? 0) sorted then [] else sorted.

Definition add_deltas (b : builder) (ds : list (region * Z)) : builder * Z :=
  let '(regs, raw) := canon_all (b_regions b) ds in
  let cs := canonical_set raw in
  if b_direct b then
    ({| b_regions := regs; b_direct := true; b_sets := b_sets b ++ [cs] |}, Z.of_nat (length (b_sets b)))
  else match find_dset cs (b_sets b) with
       | Some i => ({| b_regions := regs; b_direct := false; b_sets := b_sets b |}, Z.of_nat i)
       | None => ({| b_regions := regs; b_direct := false; b_sets := b_sets b ++ [cs] |},
                  Z.of_nat (length (b_sets b)))
       end.

Fixpoint add_all (b : builder) (inputs : list (list (region * Z))) : builder * list Z :=
  match inputs with
  | [] => (b, [])
  | ds :: rest => let '(b1, id) := add_deltas b ds in
                  let '(b2, ids) := add_all b1 rest in (b2, id :: ids)
  end.

(* ---- ColumnBits / RowShape ---- *)
(* ColumnBits::for_val; None=0 One=1 Two=2 Four=4 (the derived Ord is the numeric order) *)
Definition for_val (v : Z) : Z :=
  if v =? 0 then 0
  else if (-128 <=? v) && (v <=? 127) then 1
  else if (-32768 <=? v) && (v <=? 32767) then 2
  else 4.

Fixpoint set_nth (n : nat) (x : Z) (l : list Z) : list Z :=
  match l, n with
  | [], _ => []
  | _ :: r, O => x :: r
  | y :: r, S m => y :: set_nth m x r
  end.

(* RowShape::reuse *)
Definition shape_of (n : nat) (ds : dset) : list Z :=
  fold_left (fun sh p => set_nth (Z.to_nat (fst p)) (for_val (snd p)) sh) ds (repeat 0 n).
(* RowShape::merge / can_cover *)
Definition shape_merge (a b : list Z) : list Z := map (fun p => Z.max (fst p) (snd p)) (combine a b).
Definition can_cover (a b : list Z) : bool := forallb (fun p => snd p <=? fst p) (combine a b).

(* RowShape::region_map: columns sorted by (Reverse(bits), index); RegionMap::indices = the active ones *)
Definition cols_with (sh : list Z) (w : Z) : list nat :=
  filter (fun i => nth i sh 0 =? w) (seq 0 (length sh)).
Definition active_cols (sh : list Z) : list nat := cols_with sh 4 ++ cols_with sh 2 ++ cols_with sh 1.
Definition long_words (sh : list Z) : bool := negb (Nat.eqb (length (cols_with sh 4)) 0).
Definition n_long (sh : list Z) : nat :=
  if long_words sh then length (cols_with sh 4) else length (cols_with sh 2).
(* RegionMap::word_delta_count *)
Definition word_delta_count (sh : list Z) : Z :=
  Z.lor (Z.of_nat (n_long sh)) (if long_words sh then 32768 else 0).

(* Encoding::encode inner loop: raw_deltas[pos + column] = val for every (region, val) — later entries win *)
Fixpoint lookup_last (r : Z) (ds : dset) (acc : Z) : Z :=
  match ds with
  | [] => acc
  | (i, d) :: rest => lookup_last r rest (if i =? r then d else acc)
  end.

(* width in bits of the cell at column position pos: encode_raw_delta_values `as i16` / `as i8`, read
   back sign-extended by ItemDeltas::next *)
Definition cell_bits (sh : list Z) (pos : nat) : Z :=
  if (pos <? n_long sh)%nat then (if long_words sh then 32 else 16) else (if long_words sh then 16 else 8).

Fixpoint encode_cells (sh : list Z) (ds : dset) (pos : nat) (cols : list nat) : list Z :=
  match cols with
  | [] => []
  | c :: rest => wrap_s (cell_bits sh pos) (lookup_last (Z.of_nat c) ds 0) :: encode_cells sh ds (S pos) rest
  end.
Definition encode_row (sh : list Z) (ds : dset) : list Z := encode_cells sh ds O (active_cols sh).

(* bytes of one row as RegionMap::encode_raw_delta_values writes them *)
Fixpoint row_bytes (sh : list Z) (pos : nat) (cells : list Z) : list Z :=
  match cells with
  | [] => []
  | v :: rest => be_of_s (cell_bits sh pos) v ++ row_bytes sh (S pos) rest
  end.

Definition enc := (list Z * list Z)%type.          (* (shape, temporary ids of the rows, in row order) *)

(* Encoding::encode *)
Definition encode_encoding (sets : list dset) (e : enc) : option subtable :=
  match snd e with
  | [] => None
  | ids => Some {| st_item_count := Z.of_nat (length ids);
                   st_wdc := word_delta_count (fst e);
                   st_regions := map Z.of_nat (active_cols (fst e));
                   st_rows := map (fun id => encode_row (fst e) (nth (Z.to_nat id) sets [])) ids |}
  end.

(* Encoding::iter_split_into_table_size_chunks / split_off_back:
     const MAX_ITEMS: usize = 0xFFFF;  if self.deltas.len() <= MAX_ITEMS { return None }  else split_off(MAX_ITEMS)
   — an encoding with EXACTLY 0xFFFF rows is one subtable; the tail of a split is never empty *)
Definition MAX_ITEMS : Z := 65535.
Fixpoint chunks (fuel : nat) (n : nat) (l : list Z) : list (list Z) :=
  match fuel with
  | O => [l]
  | S f => if (length l <=? n)%nat then [l] else firstn n l :: chunks f n (skipn n l)
  end.
Definition split_encs (encs : list enc) : list enc :=
  flat_map (fun e => map (fun c => (fst e, c)) (chunks (length (snd e)) (Z.to_nat MAX_ITEMS) (snd e))) encs.

(* key_map entries written by Encoding::encode for subtable index i *)
Fixpoint keys_of (sub : Z) (j : Z) (ids : list Z) : list (Z * (Z * Z)) :=
  match ids with
  | [] => []
  | id :: rest => (id, (sub, j)) :: keys_of sub (j + 1) rest
  end.
Fixpoint all_keys (i : Z) (encs : list enc) : list (Z * (Z * Z)) :=
  match encs with
  | [] => []
  | e :: rest => keys_of (wrap_u 16 i) 0 (snd e) ++ all_keys (i + 1) rest
  end.
(* HashMap insert: the last write for a key wins *)
Fixpoint remap_get (km : list (Z * (Z * Z))) (id : Z) (acc : option (Z * Z)) : option (Z * Z) :=
  match km with
  | [] => acc
  | (k, v) :: rest => remap_get rest id (if k =? id then Some v else acc)
  end.

(* VariationStoreBuilder::make_region_list: prune the unused regions, renumber the rest in old-index order *)
Definition used_regions (subs : list (option subtable)) : list Z :=
  flat_map (fun o => match o with Some s => st_regions s | None => [] end) subs.
Definition kept_regions (n : nat) (used : list Z) : list nat :=
  filter (fun i => existsb (Z.eqb (Z.of_nat i)) used) (seq 0 n).
Fixpoint pos_of (x : nat) (l : list nat) : option nat :=
  match l with
  | [] => None
  | y :: r => if Nat.eqb y x then Some O else option_map S (pos_of x r)
  end.
Fixpoint map_opt {A B} (f : A -> option B) (l : list A) : option (list B) :=
  match l with
  | [] => Some []
  | x :: r => match f x, map_opt f r with Some y, Some ys => Some (y :: ys) | _, _ => None end
  end.
(* region_map[idx] panics on a missing key: None *)
Definition renumber (kept : list nat) (s : option subtable) : option (option subtable) :=
  match s with
  | None => Some None
  | Some st =>
      match map_opt (fun old => option_map Z.of_nat (pos_of (Z.to_nat old) kept)) (st_regions st) with
      | None => None
      | Some ri => Some (Some {| st_item_count := st_item_count st; st_wdc := st_wdc st;
                                 st_regions := ri; st_rows := st_rows st |})
      end
  end.

(* VariationStoreBuilder::build for the Deduplicated storage, with the outcome of Encoder::optimize given as
   [encs]: any list of (shape, row ids).  (The optimiser only decides which rows share a subtable, in which
   order, and under which covering shape.)  None = panic. *)
Definition build_with (b : builder) (encs : list enc) : option (store * list (Z * (Z * Z))) :=
  let chunked := split_encs encs in
  let subs := map (encode_encoding (b_sets b)) chunked in
  let kept := kept_regions (length (b_regions b)) (used_regions subs) in
  match map_opt (renumber kept) subs with
  | None => None
  | Some subs' =>
      Some ({| vs_regions := map (fun i => nth i (b_regions b) []) kept; vs_data := subs' |},
            all_keys 0 chunked)
  end.

(* Encoder::new: group the stored sets by shape, in first-seen order *)
Fixpoint zl_eqb (a b : list Z) : bool :=
  match a, b with
  | [], [] => true
  | x :: a', y :: b' => (x =? y) && zl_eqb a' b'
  | _, _ => false
  end.
Fixpoint group_insert (sh : list Z) (id : Z) (encs : list enc) : list enc :=
  match encs with
  | [] => [(sh, [id])]
  | e :: rest => if zl_eqb (fst e) sh then (fst e, snd e ++ [id]) :: rest else e :: group_insert sh id rest
  end.
Fixpoint initial_encs_from (n : nat) (id : Z) (sets : list dset) (acc : list enc) : list enc :=
  match sets with
  | [] => acc
  | s :: rest => initial_encs_from n (id + 1) rest (group_insert (shape_of n s) id acc)
  end.
Definition initial_encs (b : builder) : list enc :=
  initial_encs_from (length (b_regions b)) 0 (b_sets b) [].

(* one step of Encoder::optimize: combine encodings i and j (Encoding::merge_with), absorb an encoding of
   identical shape if one exists, append the result; which pair is taken when is the cost heuristic's
   business — a schedule is any list of pairs *)
Fixpoint remove_nth {A} (n : nat) (l : list A) : list A :=
  match l, n with
  | [], _ => []
  | _ :: r, O => r
  | x :: r, S m => x :: remove_nth m r
  end.
Fixpoint absorb (e : enc) (encs : list enc) : enc * list enc :=
  match encs with
  | [] => (e, [])
  | x :: rest => if zl_eqb (fst x) (fst e) then ((fst e, snd e ++ snd x), rest)
                 else let '(e', rest') := absorb e rest in (e', x :: rest')
  end.
Definition merge_step (encs : list enc) (ij : nat * nat) : list enc :=
  let '(i, j) := ij in
  match nth_error encs i, nth_error encs j with
  | Some a, Some c =>
      if Nat.eqb i j then encs
      else
        let rest := remove_nth (Nat.min i j) (remove_nth (Nat.max i j) encs) in
        let m := (shape_merge (fst a) (fst c), snd a ++ snd c) in
        let '(m', rest') := absorb m rest in
        rest' ++ [m']
  | _, _ => encs
  end.
Definition run_schedule (encs : list enc) (sched : list (nat * nat)) : list enc := fold_left merge_step sched encs.

(* VariationStoreBuilder::build_unoptimized (Direct storage): one encoding whose shape covers every row *)
Definition direct_shape (n : nat) (sets : list dset) : list Z :=
  fold_left (fun sh s => let t := shape_of n s in if can_cover sh t then sh else shape_merge sh t) sets (repeat 0 n).
Definition build_direct (b : builder) : option (store * list (Z * (Z * Z))) :=
  let n := length (b_regions b) in
  if 65535 <? Z.of_nat (length (b_sets b)) then None      (* debug_assert! / assert! in Encoding::encode *)
  else
    let e := (direct_shape n (b_sets b), map Z.of_nat (seq 0 (length (b_sets b)))) in
    let subs := [encode_encoding (b_sets b) e] in
    let kept := kept_regions n (used_regions subs) in
    match map_opt (renumber kept) subs with
    | None => None
    | Some subs' => Some ({| vs_regions := map (fun i => nth i (b_regions b) []) kept; vs_data := subs' |},
                          keys_of 0 0 (snd e))
    end.

(* ---- observation used by the retrieval theorem: the delta stored for region r in row (outer, inner) ---- *)
Fixpoint row_sum (regions : list region) (ridx : list Z) (row : list Z) (r : region) : Z :=
  match ridx, row with
  | ri :: ridx', d :: row' =>
      (if region_eqb (nth (Z.to_nat ri) regions []) r then d else 0) + row_sum regions ridx' row' r
  | _, _ => 0
  end.
Definition row_delta (s : store) (idx : option (Z * Z)) (r : region) : option Z :=
  match idx with
  | None => None
  | Some (outer, inner) =>
      match nth_error (vs_data s) (Z.to_nat outer) with
      | Some (Some st) =>
          match nth_error (st_rows st) (Z.to_nat inner) with
          | Some row => if Nat.eqb (length row) (length (st_regions st))
                        then Some (row_sum (vs_regions s) (st_regions st) row r) else None
          | None => None
          end
      | _ => None
      end
  end.

(* the delta the caller specified for region r in an input delta set (0 if absent) *)
Fixpoint input_delta (ds : list (region * Z)) (r : region) : Z :=
  match ds with
  | [] => 0
  | (r', d) :: rest => if region_eqb r' r then d else input_delta rest r
  end.

(* ================= 4. specification side ================= *)
(* exact tent numerator / denominator of one axis at coord (all raw F2Dot14): None = outside (0), Some (n, d) *)
Definition tent_frac (coord s p e : Z) : option (Z * Z) :=
  if (p <? s) || (e <? p) || (p =? 0) || ((s <? 0) && (0 <? e)) then Some (1, 1)
  else if (coord <? s) || (e <? coord) then None
  else if coord =? p then Some (1, 1)
  else if coord <? p then Some (coord - s, p - s)
  else Some (e - coord, e - p).

(* ================= 5. correspondence cases ================= *)
Inductive case : Type :=
| CNorm (minv defv maxv v : Z) (out : list Z)                         (* [] = panic *)
| CAvar (maps : list (Z * Z)) (coord : Z) (out : Z)
| CU2N (minv defv maxv : Z) (maps : option (list (Z * Z))) (user : Z) (out : list Z)
(* all axes, the caller's (dirty) output slice on entry, the slice on return; [-999] = panic *)
| CU2NMulti (axes : list axis_rec) (maps : option (list (list (Z * Z)))) (settings : list (Z * Z)) (buf out : list Z)
| CScalar (axes : region) (coords : list Z) (out : Z)
| CDelta (s : store) (outer inner : Z) (coords : list Z) (out : list Z)   (* [v] Ok, [] Err *)
| CRow (wdc rc : Z) (data : list Z) (inner : Z) (out : list Z)
| CDeltaRaw (regions : list region) (subs : list (option rawsub)) (outer inner : Z) (coords : list Z) (out : list Z)
| CDsim (fmt map_count : Z) (data : list Z) (index : Z) (out : list Z)    (* [outer; inner] or [] *)
| CPack (mapping : list Z) (fmt map_count : Z) (data : list Z)
| CMetric (base : Z) (delta : Z) (out : Z)
| CBuild (direct : bool) (inputs : list (list (region * Z))) (ids : list Z)
         (partition : list (list Z)) (out : store) (remap : list (Z * (Z * Z)))
| CRowBytes (sh : list Z) (ds : dset) (out : list Z)
| CChunks (sizes : list Z) (out : list Z)
(* queries: (gid, coords, advance bits, lsb bits); -999999 = `None`, -888888 = not compared (f32 inexact) *)
| CFontMetrics (f : metrics_font) (ppem64 : option Z) (queries : list (Z * list Z * Z * Z)).        (* row counts of the encodings, in order; item counts of the subtables, -1 = NULL *)

Definition opt_out (o : option Z) : list Z := match o with Some v => [v] | None => [] end.

Definition pairz_eqb (a b : Z * Z) : bool := (fst a =? fst b) && (snd a =? snd b).
Definition subtable_eqb (a b : subtable) : bool :=
  (st_item_count a =? st_item_count b) && (st_wdc a =? st_wdc b) && zl_eqb (st_regions a) (st_regions b)
  && (Nat.eqb (length (st_rows a)) (length (st_rows b)))
  && forallb (fun p => zl_eqb (fst p) (snd p)) (combine (st_rows a) (st_rows b)).
Definition osub_eqb (a b : option subtable) : bool :=
  match a, b with Some x, Some y => subtable_eqb x y | None, None => true | _, _ => false end.
Definition store_eqb (a b : store) : bool :=
  (Nat.eqb (length (vs_regions a)) (length (vs_regions b)))
  && forallb (fun p => region_eqb (fst p) (snd p)) (combine (vs_regions a) (vs_regions b))
  && (Nat.eqb (length (vs_data a)) (length (vs_data b)))
  && forallb (fun p => osub_eqb (fst p) (snd p)) (combine (vs_data a) (vs_data b)).

Definition check_build (direct : bool) (inputs : list (list (region * Z))) (ids : list Z)
           (partition : list (list Z)) (out : store) (remap : list (Z * (Z * Z))) : bool :=
  let '(b, mids) := add_all (builder_new direct) inputs in
  let n := length (b_regions b) in
  zl_eqb mids ids &&
  match (if direct then build_direct b
         else build_with b (map (fun ids => (fold_left (fun sh id => shape_merge sh (shape_of n (nth (Z.to_nat id) (b_sets b) [])))
                                                         ids (repeat 0 n), ids)) partition)) with
  | None => false
  | Some (st, km) =>
      store_eqb st out
      && forallb (fun e => match remap_get km (fst e) None with
                           | Some v => pairz_eqb v (snd e)
                           | None => false
                           end) remap
      && (* every input is retrievable through its id, in the model's own reader *)
      forallb (fun p => forallb (fun rd => match row_delta st (remap_get km (snd p) None) (fst rd) with
                                           | Some v => v =? input_delta (fst p) (fst rd)
                                           | None => false
                                           end) (fst p))
              (combine inputs mids)
  end.

Definition check_case (c : case) : bool :=
  match c with
  | CNorm a d m v out => zl_eqb (opt_out (normalize a d m v)) out
  | CAvar maps coord out => avar_apply maps coord =? out
  | CU2N a d m maps u out => zl_eqb (opt_out (user_to_normalized1 a d m maps u)) out
  | CU2NMulti axes maps settings buf out =>
      zl_eqb (match user_to_normalized axes maps settings buf with Some r => r | None => [-999] end) out
  | CScalar axes coords out => compute_scalar axes coords =? out
  | CDelta s o i coords out =>
      match compute_delta s o i coords with
      | Ok v => zl_eqb [v] out
      | Err => zl_eqb [] out
      | Panic => zl_eqb [-999] out
      end
  | CRow wdc rc data inner out => zl_eqb (delta_set_bytes wdc rc data inner) out
  | CDeltaRaw regions subs o i coords out =>
      match compute_delta_raw regions subs o i coords with
      | Ok v => zl_eqb [v] out
      | Err => zl_eqb [] out
      | Panic => zl_eqb [-999] out
      end
  | CDsim fmt mc data index out =>
      zl_eqb (match dsim_get fmt mc data index with Some (o, i) => [o; i] | None => [] end) out
  | CPack mapping fmt mc data =>
      let '(f, c, d) := pack_map_data mapping in (f =? fmt) && (c =? mc) && zl_eqb d data
  | CMetric base delta out => zl_eqb (opt_out (metric_unscaled base (Ok delta))) [out]
  | CBuild direct inputs ids partition out remap => check_build direct inputs ids partition out remap
  | CFontMetrics f ppem64 queries =>
      let scale := fixed_linear_scale ppem64 (mf_upem f) in
      let enc (r : option (option Z)) := match r with Some (Some b) => b | Some None => -999999 | None => -777777 end in
      forallb (fun q => let '(gid, coords, a, l) := q in
                        ((a =? -888888) || (enc (advance_width f scale gid coords) =? a))
                        && ((l =? -888888) || (enc (left_side_bearing f scale gid coords) =? l))) queries
  | CRowBytes sh ds out => zl_eqb (row_bytes sh O (encode_row sh ds)) out
  | CChunks sizes out =>
      zl_eqb (map (fun e => match encode_encoding [] e with Some st => st_item_count st | None => -1 end)
                  (split_encs (map (fun n => ([], repeat 0 (Z.to_nat n))) sizes))) out
  end.
