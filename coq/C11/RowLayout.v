(* C11 — ItemVariationData row layout (long words / words / bytes, wordDeltaCount beyond regionIndexCount) and
   totality of ItemVariationStore::compute_delta over the raw subtable bytes. *)
From Coq Require Import ZArith Lia List Bool.
From Coq Require Import ZifyBool.
From FV Require Import Lib.RustInt C15.Model C15.Proofs C11.Model C11.NormProofs C11.TentProofs.
Import ListNotations.
Open Scope Z_scope.
Ltac Zify.zify_post_hook ::= Z.div_mod_to_equations.

(* ---------- every decoded cell is an i32 and a row never has more cells than region indexes ---------- *)
Lemma s_of_be_i32 bits l : (bits = 8 \/ bits = 16 \/ bits = 32) -> i32 (s_of_be bits l).
Proof.
  intros H. unfold s_of_be. pose proof (wrap_s_range bits (from_be l) ltac:(lia)) as R. unfold i32.
  destruct H as [-> | [-> | ->]]; cbn in R; lia.
Qed.

Lemma read_items_props n : forall pos wc long data,
  (length (read_items n pos wc long data) <= n)%nat /\ Forall i32 (read_items n pos wc long data).
Proof.
  induction n as [|n IH]; intros pos wc long data; cbn [read_items]; [split; [cbn; lia | constructor]|].
  set (size := Z.to_nat _).
  destruct (length data <? size)%nat; [split; [cbn; lia | constructor]|].
  destruct (IH (pos + 1) wc long (skipn size data)) as [L F]. split; [cbn [length]; lia|].
  constructor; [|exact F]. apply s_of_be_i32. subst size.
  destruct (wc <=? pos), long; cbn; tauto.
Qed.

Lemma delta_set_bytes_props wdc rc data inner : 0 <= rc ->
  Z.of_nat (length (delta_set_bytes wdc rc data inner)) <= rc /\ Forall i32 (delta_set_bytes wdc rc data inner).
Proof.
  intros Hrc. unfold delta_set_bytes.
  destruct (read_items_props (Z.to_nat rc) 0 (Z.land wdc 32767) (negb (Z.land wdc 32768 =? 0))
              (if (length data <? Z.to_nat (delta_row_len wdc rc * inner))%nat then [] else skipn (Z.to_nat (delta_row_len wdc rc * inner)) data)) as [L F].
  split; [lia | exact F].
Qed.

(* ---------- the accumulation never overflows i64, whatever the region indexes are ---------- *)
Lemma delta_accum_no_panic regions coords : Forall (Forall axis16) regions -> Forall i16 coords ->
  forall row ridx acc, Forall i32 row ->
  Z.abs acc + Z.of_nat (length row) * 140737488355328 < 9223372036854775808 ->
  match delta_accum regions ridx row coords acc with
  | Ok a => Z.abs a <= Z.abs acc + Z.of_nat (length row) * 140737488355328
  | Err => True
  | Panic => False
  end.
Proof.
  intros Hreg Hco. induction row as [|d row IH]; intros ridx acc Hrow Hb.
  - destruct ridx; cbn [delta_accum length Z.of_nat]; lia.
  - inversion Hrow as [|? ? Hd Hrow']; subst. destruct ridx as [|ri ridx]; cbn [delta_accum]; [exact I|].
    unfold region in *.
    destruct (nth_error regions (Z.to_nat ri)) as [reg|] eqn:En; rewrite ?En; [|exact I].
    assert (Hreg1 : Forall axis16 reg).
    { rewrite Forall_forall in Hreg. apply Hreg. eapply nth_error_In; exact En. }
    pose proof (tent_scalar_range reg coords Hreg1 Hco) as Hs.
    set (sc := compute_scalar reg coords) in *.
    assert (Hprod : Z.abs (d * sc) <= 140737488355328) by (unfold i32 in Hd; nia).
    cbn [length] in *. rewrite Nat2Z.inj_succ in Hb.
    rewrite chk_s64_ok by lia.
    specialize (IH ridx (acc + d * sc) Hrow' ltac:(lia)).
    destruct (delta_accum regions ridx row coords (acc + d * sc)); try exact IH. rewrite Nat2Z.inj_succ. lia.
Qed.

(* compute_delta_total: for ANY header values (word count beyond the region count, LONG_WORDS or not, any inner /
   outer index, any bytes) compute_delta neither panics nor indexes out of range: the outcome is Ok or a ReadError,
   and it is Ok as soon as the outer index addresses a subtable whose region indexes are within the region list *)
Lemma compute_delta_total regions subs outer inner coords :
  Forall (Forall axis16) regions -> Forall i16 coords ->
  (forall rs, In (Some rs) subs -> Z.of_nat (length (rs_regions rs)) <= 65535) ->
  compute_delta_raw regions subs outer inner coords <> Panic /\
  (forall rs, nth_error subs (Z.to_nat outer) = Some (Some rs) ->
     Forall (fun ri => 0 <= ri < Z.of_nat (length regions)) (rs_regions rs) ->
     exists v, compute_delta_raw regions subs outer inner coords = Ok v).
Proof.
  intros Hreg Hco Hlen. unfold compute_delta_raw.
  destruct coords as [|c0 coords']; [split; [discriminate | eauto]|].
  destruct (nth_error subs (Z.to_nat outer)) as [[rs|]|] eqn:En; [| split; [discriminate | intros ? H; discriminate] | split; [discriminate | intros ? H; discriminate]].
  assert (Hrs : Z.of_nat (length (rs_regions rs)) <= 65535) by (apply Hlen; eapply nth_error_In; exact En).
  set (rc := Z.of_nat (length (rs_regions rs))) in *.
  destruct (delta_set_bytes_props (rs_wdc rs) rc (rs_data rs) inner ltac:(lia)) as [L F].
  set (row := delta_set_bytes (rs_wdc rs) rc (rs_data rs) inner) in *.
  pose proof (delta_accum_no_panic regions (c0 :: coords') Hreg Hco row (rs_regions rs) 0 F ltac:(cbn [Z.abs]; lia)) as HP.
  split.
  - destruct (delta_accum regions (rs_regions rs) row (c0 :: coords') 0) as [a| |]; [|discriminate|contradiction].
    cbn [Z.abs] in HP. rewrite chk_s64_ok by lia. discriminate.
  - intros rs' E Hri. injection E as <-.
    destruct (delta_accum_spec regions (c0 :: coords') Hreg Hco row (rs_regions rs) 0 F ltac:(lia) Hri ltac:(cbn [Z.abs]; lia)) as [Eq B].
    rewrite Eq. cbn [Z.abs] in B. rewrite chk_s64_ok by lia. eauto.
Qed.

(* ---------- row layout ---------- *)
(* width in bits of the cell at column position pos for a header (word count wc, LONG_WORDS flag) *)
Definition cell_width (wc : Z) (long : bool) (pos : Z) : Z :=
  match (wc <=? pos), long with
  | true, true | false, false => 16
  | true, false => 8
  | false, true => 32
  end.

Fixpoint enc_cells (wc : Z) (long : bool) (pos : Z) (cells : list Z) : list Z :=
  match cells with
  | [] => []
  | v :: rest => be_of_s (cell_width wc long pos) v ++ enc_cells wc long (pos + 1) rest
  end.

Lemma be_s_roundtrip8 x : -128 <= x < 128 -> s_of_be 8 (be_of_s 8 x) = x.
Proof.
  intros H. unfold s_of_be, be_of_s. change (Z.to_nat (8 / 8)) with 1%nat. cbn [to_be Z.of_nat].
  unfold from_be. cbn [from_be_acc]. change (256 ^ 0) with 1. rewrite Z.div_1_r.
  unfold wrap_s, wrap_u. change (2 ^ 8) with 256. change (2 ^ (8 - 1)) with 128. lia.
Qed.

Lemma be_s_roundtrip_w w x : (w = 8 \/ w = 16 \/ w = 32) -> - 2 ^ (w - 1) <= x < 2 ^ (w - 1) -> s_of_be w (be_of_s w x) = x.
Proof.
  intros [-> | [-> | ->]] H; [apply be_s_roundtrip8; cbn in H; lia | apply be_s_roundtrip; [tauto | exact H] | apply be_s_roundtrip; [tauto | exact H]].
Qed.

Lemma be_of_s_length w x : (w = 8 \/ w = 16 \/ w = 32) -> length (be_of_s w x) = Z.to_nat (w / 8).
Proof. intros H. unfold be_of_s. apply to_be_length. Qed.

Lemma cell_width_cases wc long pos : cell_width wc long pos = 8 \/ cell_width wc long pos = 16 \/ cell_width wc long pos = 32.
Proof. unfold cell_width. destruct (wc <=? pos), long; tauto. Qed.

(* the reader's per-position size = cell_width / 8 *)
Lemma read_items_encoded wc long cells : forall pos rest,
  Forall2 (fun v p => - 2 ^ (cell_width wc long p - 1) <= v < 2 ^ (cell_width wc long p - 1)) cells
          (map (fun k => pos + Z.of_nat k) (seq 0 (length cells))) ->
  read_items (length cells) pos wc long (enc_cells wc long pos cells ++ rest) = cells.
Proof.
  induction cells as [|v cells IH]; intros pos rest HF; [reflexivity|].
  cbn [length read_items enc_cells]. cbn [seq map] in HF. inversion HF as [|? ? ? ? Hv HF']; subst.
  rewrite Z.add_0_r in Hv.
  set (w := cell_width wc long pos) in *.
  assert (Hsize : Z.to_nat (match (wc <=? pos), long with | true, true | false, false => 2 | true, false => 1 | false, true => 4 end)
                  = Z.to_nat (w / 8)).
  { subst w. unfold cell_width. destruct (wc <=? pos), long; reflexivity. }
  rewrite Hsize.
  pose proof (cell_width_cases wc long pos) as Hw. fold w in Hw.
  assert (Hlen : length (be_of_s w v) = Z.to_nat (w / 8)) by (apply be_of_s_length; exact Hw).
  rewrite <- app_assoc. rewrite app_length, Hlen.
  replace (Z.to_nat (w / 8) + length (enc_cells wc long (pos + 1) cells ++ rest) <? Z.to_nat (w / 8))%nat with false by lia.
  rewrite firstn_app, Hlen, Nat.sub_diag. cbn [firstn]. rewrite app_nil_r. rewrite (firstn_all2 (be_of_s w v)) by lia.
  rewrite skipn_app, Hlen, Nat.sub_diag. cbn [skipn]. rewrite (skipn_all2 (be_of_s w v)) by lia. cbn [app].
  f_equal.
  - replace (Z.of_nat (Z.to_nat (w / 8)) * 8) with w by (destruct Hw as [-> | [-> | ->]]; reflexivity).
    apply be_s_roundtrip_w; assumption.
  - apply IH. rewrite <- seq_shift, map_map in HF'.
    erewrite map_ext; [exact HF'|]. intros k. cbn. lia.
Qed.

(* delta_set_layout: the rows are laid out at a fixed stride delta_row_len(wordDeltaCount, regionIndexCount); row i
   starts with its regionIndexCount cells — the first (wordDeltaCount & 0x7FFF) of them wide (32 or 16 bits), the others
   narrow (16 or 8 bits), all of them wide when the word count exceeds the column count — followed by padding up to the
   stride (non-empty only in that last case).  delta_set(inner) returns exactly the cells of row inner. *)
Lemma delta_set_layout wdc rc (rows : list (list Z * list Z)) inner :
  let wc := Z.land wdc 32767 in
  let long := negb (Z.land wdc 32768 =? 0) in
  0 <= rc -> 0 <= delta_row_len wdc rc ->
  Forall (fun r => Z.of_nat (length (fst r)) = rc /\
                   Z.of_nat (length (enc_cells wc long 0 (fst r) ++ snd r)) = delta_row_len wdc rc /\
                   Forall2 (fun v p => - 2 ^ (cell_width wc long p - 1) <= v < 2 ^ (cell_width wc long p - 1)) (fst r)
                           (map (fun k => 0 + Z.of_nat k) (seq 0 (length (fst r))))) rows ->
  (inner < length rows)%nat ->
  delta_set_bytes wdc rc (flat_map (fun r => enc_cells wc long 0 (fst r) ++ snd r) rows) (Z.of_nat inner)
  = fst (nth inner rows ([], [])).
Proof.
  intros wc long Hrc Hstride HF Hin. unfold delta_set_bytes. fold wc long.
  set (stride := Z.to_nat (delta_row_len wdc rc)).
  set (f := fun r : list Z * list Z => enc_cells wc long 0 (fst r) ++ snd r).
  assert (Hf : forall r, In r rows -> length (f r) = stride).
  { intros r Hr. rewrite Forall_forall in HF. destruct (HF r Hr) as [_ [H _]]. subst stride f. cbn beta. lia. }
  (* skipn over equal-length blocks *)
  assert (Hskip : forall l k, (forall r, In r l -> length (f r) = stride) -> (k <= length l)%nat ->
                    skipn (k * stride) (flat_map f l) = flat_map f (skipn k l) /\ length (flat_map f l) = (length l * stride)%nat).
  { induction l as [|a l IHl]; intros k Hl Hk.
    - assert (k = O) by (cbn in Hk; lia). subst k. split; reflexivity.
    - assert (Ha : length (f a) = stride) by (apply Hl; left; reflexivity).
      assert (Hl' : forall r, In r l -> length (f r) = stride) by (intros r Hr; apply Hl; right; exact Hr).
      destruct k as [|k].
      + split; [reflexivity|]. cbn [flat_map length]. rewrite app_length, Ha. destruct (IHl O Hl' ltac:(lia)) as [_ ->]. lia.
      + cbn [length] in Hk. destruct (IHl k Hl' ltac:(lia)) as [I1 I2]. split.
        * cbn [flat_map skipn Nat.mul]. rewrite skipn_app, Ha. rewrite (skipn_all2 (f a)) by lia. cbn [app].
          replace (stride + k * stride - stride)%nat with (k * stride)%nat by lia. exact I1.
        * cbn [flat_map length]. rewrite app_length, Ha, I2. lia. }
  destruct (Hskip rows inner Hf ltac:(lia)) as [S1 S2].
  replace (Z.to_nat (delta_row_len wdc rc * Z.of_nat inner)) with (inner * stride)%nat by (subst stride; nia).
  rewrite S2. replace (length rows * stride <? inner * stride)%nat with false by nia.
  rewrite S1.
  destruct (skipn inner rows) as [|r later] eqn:Esk.
  { apply (f_equal (@length _)) in Esk. rewrite skipn_length in Esk. cbn in Esk. lia. }
  assert (Hnth : nth inner rows ([], []) = r).
  { rewrite <- (firstn_skipn inner rows) at 1. rewrite Esk. rewrite app_nth2 by (rewrite firstn_length; lia).
    rewrite firstn_length. replace (inner - Nat.min inner (length rows))%nat with O by lia. reflexivity. }
  rewrite Hnth. cbn [flat_map]. unfold f at 1. rewrite <- app_assoc.
  assert (Hr : In r rows) by (rewrite <- Hnth; apply nth_In; exact Hin).
  rewrite Forall_forall in HF. destruct (HF r Hr) as [H1 [_ H3]].
  replace (Z.to_nat rc) with (length (fst r)) by lia.
  apply read_items_encoded. exact H3.
Qed.

(* for a consistent header (word count within the column count) the stride is exactly the encoded row: no padding *)
Lemma enc_cells_length wc long cells : forall pos, 0 <= wc -> 0 <= pos ->
  Z.of_nat (length (enc_cells wc long pos cells))
  = (if long then 4 else 2) * Z.max 0 (Z.min (pos + Z.of_nat (length cells)) wc - pos)
    + (if long then 2 else 1) * (Z.of_nat (length cells) - Z.max 0 (Z.min (pos + Z.of_nat (length cells)) wc - pos)).
Proof.
  induction cells as [|v cells IH]; intros pos Hwc Hpos; [cbn [enc_cells length Z.of_nat]; destruct long; lia|].
  cbn [enc_cells]. rewrite app_length, Nat2Z.inj_add, (IH (pos + 1)) by lia.
  rewrite be_of_s_length by apply cell_width_cases. cbn [length]. rewrite Nat2Z.inj_succ.
  unfold cell_width. destruct (wc <=? pos) eqn:E; destruct long; cbn [Z.div]; lia.
Qed.

Lemma stride_is_row_length wdc rc cells : 0 <= rc -> Z.of_nat (length cells) = rc ->
  Z.of_nat (length (enc_cells (Z.land wdc 32767) (negb (Z.land wdc 32768 =? 0)) 0 cells))
  = delta_row_len wdc rc - (if negb (Z.land wdc 32768 =? 0) then 4 else 2) * Z.max 0 (Z.land wdc 32767 - rc).
Proof.
  intros Hrc Hlen. assert (Hwc : 0 <= Z.land wdc 32767) by (apply Z.land_nonneg; right; lia).
  rewrite enc_cells_length by lia. unfold delta_row_len. cbv zeta. rewrite Hlen.
  destruct (negb (Z.land wdc 32768 =? 0)); lia.
Qed.

(* compute_delta_spec for the byte layout: on rows laid out as above (any word count, LONG_WORDS or not) the value
   is the rounded sum over the row's cells *)
Lemma compute_delta_raw_spec regions subs outer inner coords rs (rows : list (list Z * list Z)) :
  let wdc := rs_wdc rs in
  let rc := Z.of_nat (length (rs_regions rs)) in
  let wc := Z.land wdc 32767 in
  let long := negb (Z.land wdc 32768 =? 0) in
  coords <> [] -> nth_error subs (Z.to_nat outer) = Some (Some rs) ->
  Forall (Forall axis16) regions -> Forall i16 coords ->
  rc <= 65535 -> 0 <= delta_row_len wdc rc ->
  Forall (fun r => Z.of_nat (length (fst r)) = rc /\
                   Z.of_nat (length (enc_cells wc long 0 (fst r) ++ snd r)) = delta_row_len wdc rc /\
                   Forall2 (fun v p => - 2 ^ (cell_width wc long p - 1) <= v < 2 ^ (cell_width wc long p - 1)) (fst r)
                           (map (fun k => 0 + Z.of_nat k) (seq 0 (length (fst r))))) rows ->
  rs_data rs = flat_map (fun r => enc_cells wc long 0 (fst r) ++ snd r) rows ->
  (inner < length rows)%nat ->
  Forall (fun ri => 0 <= ri < Z.of_nat (length regions)) (rs_regions rs) ->
  compute_delta_raw regions subs outer (Z.of_nat inner) coords
  = Ok (wrap_s 32 ((delta_sum regions (rs_regions rs) (fst (nth inner rows ([], []))) coords + 32768) / 65536)).
Proof.
  intros wdc rc wc long Hne Hsub Hreg Hco Hrc Hstride HF Hdata Hin Hri.
  unfold compute_delta_raw. destruct coords as [|c0 coords']; [congruence|]. rewrite Hsub. fold wdc rc.
  pose proof (delta_set_layout wdc rc rows inner ltac:(lia) Hstride HF Hin) as HL. cbv zeta in HL. fold wc long in HL.
  rewrite Hdata, HL.
  set (cells := fst (nth inner rows ([], []))) in *.
  assert (Hcells : Z.of_nat (length cells) = rc /\ Forall i32 cells).
  { destruct (delta_set_bytes_props wdc rc (flat_map (fun r => enc_cells wc long 0 (fst r) ++ snd r) rows) (Z.of_nat inner) ltac:(lia)) as [_ F].
    rewrite HL in F. split; [|exact F]. rewrite Forall_forall in HF. apply (HF (nth inner rows ([], []))). apply nth_In. exact Hin. }
  destruct Hcells as [Hclen Hci32].
  destruct (delta_accum_spec regions (c0 :: coords') Hreg Hco cells (rs_regions rs) 0 Hci32 ltac:(lia) Hri ltac:(cbn [Z.abs]; lia)) as [E B].
  rewrite E. cbn [Z.abs] in B. rewrite Z.add_0_l in *. rewrite chk_s64_ok by lia.
  rewrite Z.shiftr_div_pow2 by lia. reflexivity.
Qed.
