(* C11 — non-vacuity examples for the hypotheses of Props.v, and refutation witnesses *)
From Coq Require Import ZArith List Lia.
From FV Require Import Lib.RustInt C15.Model C15.Proofs C11.Model C11.Proofs.
Import ListNotations.
Open Scope Z_scope.

(* wght 100..400..900 : 250 -> -0.5, 650 -> 0.5, 220 -> -0.6 (39322 = round(0.6 * 65536)) *)
Example c11_normalize_wght :
  normalize 6553600 26214400 58982400 16384000 = Some (-32768) /\
  normalize 6553600 26214400 58982400 42598400 = Some 32768 /\
  normalize 6553600 26214400 58982400 14417920 = Some (-39322).
Proof. repeat split; reflexivity. Qed.
(* the degenerate record of oss-fuzz 69787 (min -26335.87, def = max = 8224.13) at 0.0 *)
Example c11_normalize_fuzz : normalize (-1725943170) 538976288 538976288 0 = Some (-16448).
Proof. reflexivity. Qed.
(* min > max, default outside: still total and in range *)
Example c11_normalize_degenerate : normalize 655360 327680 0 500000 = Some 65536.
Proof. reflexivity. Qed.

(* avar: the segment map of the property text's kind: -1 -> -1, 0 -> 0, 0.5 -> 0.25, 1 -> 1 at 0.25 and 0.75 *)
Example c11_avar_interp :
  avar_apply [(-16384, -16384); (0, 0); (8192, 4096); (16384, 16384)] 16384 = 8192 /\
  avar_apply [(-16384, -16384); (0, 0); (8192, 4096); (16384, 16384)] 49152 = 40960 /\
  avar_apply [(-16384, -16384); (0, 0); (8192, 4096); (16384, 16384)] 32768 = 16384.
Proof. repeat split; reflexivity. Qed.

(* tent: region (0, 0.5, 1) at 0.25 -> 0.5 ; two axes multiply; outside -> 0; peak -> 1 *)
Example c11_tent :
  compute_scalar [(0, 8192, 16384)] [4096] = 32768 /\
  compute_scalar [(0, 8192, 16384); (0, 16384, 16384)] [4096; 4096] = 8192 /\
  compute_scalar [(0, 8192, 16384)] [-1] = 0 /\
  compute_scalar [(0, 8192, 16384)] [8192] = 65536 /\
  proper_tent 0 8192 16384.
Proof. repeat split; try reflexivity; unfold proper_tent; lia. Qed.

(* compute_delta: two regions, deltas 100 and -3, at 0.25: (100 * 0.5 + -3 * 0.25 + 0.5) floor = 49 *)
Example c11_delta :
  compute_delta {| vs_regions := [[(0, 8192, 16384)]; [(0, 16384, 16384)]];
                   vs_data := [Some {| st_item_count := 1; st_wdc := 0; st_regions := [0; 1]; st_rows := [[100; -3]] |}] |}
                0 0 [4096] = Ok 49.
Proof. reflexivity. Qed.

(* DeltaSetIndexMap: 1-byte entries with 4 inner bits *)
Example c11_dsim : dsim_get 3 2 [0x12; 0x3f] 1 = Some (3, 15) /\ dsim_get 3 2 [0x12; 0x3f] 77 = Some (3, 15).
Proof. split; reflexivity. Qed.

(* builder: three delta sets over two regions with i8 / i16 / i32 magnitudes; both merged in one subtable *)
Definition ex_r1 : region := [(0, 16384, 16384)].
Definition ex_r2 : region := [(-16384, -16384, 0)].
Definition ex_inputs : list (list (region * Z)) := [[(ex_r1, 5); (ex_r2, -300)]; [(ex_r2, 70000)]; [(ex_r1, 5); (ex_r2, -300)]; [(ex_r1, 0)]].
Example c11_build :
  let '(b, ids) := add_all (builder_new false) ex_inputs in
  ids = [0; 1; 0; 2] /\
  match build_with b [([1; 4], [1; 0]); ([0; 0], [2])] with
  | Some (st, km) =>
      row_delta st (remap_get km 0 None) ex_r1 = Some 5 /\ row_delta st (remap_get km 0 None) ex_r2 = Some (-300) /\
      row_delta st (remap_get km 1 None) ex_r2 = Some 70000 /\ row_delta st (remap_get km 1 None) ex_r1 = Some 0 /\
      row_delta st (remap_get km 2 None) ex_r1 = Some 0
  | None => False
  end.
Proof. vm_compute. repeat split; reflexivity. Qed.

(* ---- witnesses of the two recorded 16.16 range limits of the metrics pipeline (known findings) ---- *)
(* an HVAR delta of 40000 font units is wrapped by Fixed::from_i32: base 1000 + 40000 comes out as -24536 *)
Example c11_metric_large_delta_refuted : exists base d, 0 <= base <= 65535 /\ -2147483648 <= d <= 2147483647 /\
  metric_with_delta base (Ok d) <> Some (base + d).
Proof. exists 1000, 40000. repeat split; try lia. vm_compute. discriminate. Qed.
(* Size::unscaled(): an advance of 40000 comes out as -25536.0 *)
Example c11_metric_unscaled_refuted : exists base, 0 <= base <= 65535 /\ metric_unscaled base (Ok 0) <> Some (base * 65536).
Proof. exists 40000. split; [lia|]. vm_compute. discriminate. Qed.

(* the hypotheses of c11_ivs_retrieval hold for the instance above: a valid optimiser outcome (set 1 — a 32-bit
   delta — and set 0 merged under the wider shape [1;4]; the all-zero set 2 alone under the empty shape) *)
Example c11_retrieval_nonvacuous :
  let b := fst (add_all (builder_new false) ex_inputs) in
  wf_inputs ex_inputs /\ valid_encs b [([1; 4], [1; 0]); ([0; 0], [2])] /\ Z.of_nat (length (b_regions b)) <= 65536.
Proof.
  cbv zeta. split; [|split].
  - unfold wf_inputs, ex_inputs, ex_r1, ex_r2.
    repeat (apply Forall_cons; [split; [repeat constructor; cbn [map fst In]; intuition discriminate | repeat (apply Forall_cons; [unfold i32; cbn [snd]; lia|]); apply Forall_nil]|]).
    apply Forall_nil.
  - unfold valid_encs. cbv zeta. split; [|split; [|split]].
    + intros e [<-|[<-|[]]]; cbn [fst snd]; (split; [reflexivity|]); (split; [repeat constructor; lia|]).
      * intros id [<-|[<-|[]]]; (split; [lia | vm_compute; reflexivity]).
      * intros id [<-|[]]; (split; [lia | vm_compute; reflexivity]).
    + cbn. repeat constructor; cbn; intuition lia.
    + intros id Hid.
      assert (Hl : Z.of_nat (length (b_sets (fst (add_all (builder_new false) ex_inputs)))) = 3) by (vm_compute; reflexivity).
      rewrite Hl in Hid. assert (H : id = 0 \/ id = 1 \/ id = 2) by lia.
      destruct H as [->|[->| ->]]; cbn; tauto.
    + vm_compute. discriminate.
  - vm_compute. discriminate.
Qed.

(* ---- deepening round ---- *)
Definition ex_map : list (Z * Z) := [(-16384, -16384); (0, 0); (8192, 4096); (16384, 16384)].
Example c11_monotone_map_nonvacuous : monotone_map ex_map.
Proof. unfold ex_map, monotone_map, i16. cbn [mono_from last fst snd]. unfold i16. repeat split; lia. Qed.
(* the end-point condition of monotone_map is needed: outside the map the function is the identity, so a map whose
   last point lies above the diagonal is not monotone across it (0.0 -> 0.5 but 1/65536 -> 1/65536) *)
Example c11_avar_needs_endpoint_condition : avar_apply [(0, 8192)] 0 = 32768 /\ avar_apply [(0, 8192)] 1 = 1.
Proof. split; reflexivity. Qed.

(* row layout with LONG_WORDS and a word count (3) beyond the column count (2): stride 12, both cells 32-bit, 4 bytes
   of padding per row *)
Example c11_row_layout_long_beyond :
  delta_row_len (32768 + 3) 2 = 12 /\
  delta_set_bytes (32768 + 3) 2 [0;1;0;0; 255;255;255;254; 9;9;9;9;  128;0;0;0; 0;0;0;7; 9;9;9;9] 1 = [-2147483648; 7] /\
  delta_set_bytes (32768 + 3) 2 [0;1;0;0; 255;255;255;254; 9;9;9;9;  128;0;0;0; 0;0;0;7; 9;9;9;9] 0 = [65536; -2] /\
  delta_set_bytes (32768 + 3) 2 [0;1;0;0; 255;255;255;254; 9;9;9;9;  128;0;0;0; 0;0;0;7; 9;9;9;9] 2 = [].
Proof. repeat split; reflexivity. Qed.
(* short words, word count 1 of 3 columns: one i16 then two i8 *)
Example c11_row_layout_short : delta_set_bytes 1 3 [255; 0; 128; 127; 0; 5; 1; 2] 1 = [5; 1; 2]
                               /\ delta_set_bytes 1 3 [255; 0; 128; 127; 0; 5; 1; 2] 0 = [-256; -128; 127].
Proof. split; reflexivity. Qed.

(* metrics: 3 glyphs, 2 long metrics, an advance map with 2 entries (glyph 2 clamps to the last entry = row 1) *)
Definition ex_font : metrics_font :=
  {| mf_glyph_count := 3; mf_upem := 1000; mf_h_metrics := [(500, 10); (600, 20)]; mf_lsbs := [30];
     mf_hvar := Some {| hv_store := {| vs_regions := [[(0, 16384, 16384)]];
                                      vs_data := [Some {| st_item_count := 2; st_wdc := 0; st_regions := [0]; st_rows := [[100]; [-40]] |}] |};
                        hv_adv_map := Some (0, 2, [0; 1]); hv_lsb_map := None |} |}.
Example c11_metrics_example :
  advance_width ex_font 4194304 0 [16384] = Some (Some (600 * 65536)) /\
  advance_width ex_font 4194304 1 [8192] = Some (Some (580 * 65536)) /\
  advance_width ex_font 4194304 2 [16384] = Some (Some (560 * 65536)) /\     (* last long metric 600, clamped index -> row 1 *)
  advance_width ex_font 4194304 2 [0] = Some (Some (600 * 65536)) /\
  advance_width ex_font 4194304 3 [16384] = Some None /\
  left_side_bearing ex_font 4194304 2 [16384] = Some (Some (30 * 65536)).     (* no lsb map: no delta *)
Proof. repeat split; reflexivity. Qed.

(* the split rule on row counts: exactly 0xFFFF rows -> one subtable, one more -> [0xFFFF; 1] *)
Example c11_split_rule : check_case (CChunks [65535; 65536; 1; 0] [65535; 65535; 1; 1; -1]) = true.
Proof. vm_compute. reflexivity. Qed.

(* a reused slice: two axes (wght 100..400..900, wdth 50..100..200), only wdth set, the slice still holds 1.0 / -1.0
   from an earlier request and has one excess entry: wght and the excess entry come back 0 *)
Example c11_reused_slice :
  user_to_normalized [(2003265652, 6553600, 26214400, 58982400); (2003072104, 3276800, 6553600, 13107200)] None
                     [(2003072104, 13107200)] [16384; -16384; 777] = Some [0; 16384; 0].
Proof. reflexivity. Qed.
