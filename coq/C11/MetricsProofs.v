(* C11 — the metrics glue: hmtx rule, HVAR index (implicit / clamped), delta application (Model.v, metrics glue). *)
From Coq Require Import ZArith Lia List Bool.
From Coq Require Import ZifyBool.
From FV Require Import Lib.RustInt C15.Model C15.Proofs C11.Model C11.NormProofs C11.TentProofs C11.AvarMono.
Import ListNotations.
Open Scope Z_scope.
Ltac Zify.zify_post_hook ::= Z.div_mod_to_equations.

(* ---- specification side ---- *)
(* hmtx: the advance of glyph g is the g-th long metric's, and the LAST long metric's for every later glyph *)
Definition hmtx_advance (hm : list (Z * Z)) (gid : Z) : Z :=
  let n := Z.of_nat (length hm) in
  if gid <? n then fst (nth (Z.to_nat gid) hm (0, 0))
  else if n =? 0 then 0 else fst (nth (Z.to_nat (n - 1)) hm (0, 0)).
(* the side bearing is the long metric's, then the entries of the trailing array, then 0 *)
Definition hmtx_lsb (hm : list (Z * Z)) (lsbs : list Z) (gid : Z) : Z :=
  let n := Z.of_nat (length hm) in
  if gid <? n then snd (nth (Z.to_nat gid) hm (0, 0)) else nth (Z.to_nat (gid - n)) lsbs 0.

Lemma last_nth {A} (l : list A) (a d : A) : last l a = nth (length l) (a :: l) d.
Proof.
  revert a. induction l as [|b l IH]; intros a; [reflexivity|].
  rewrite last_cons. cbn [length nth]. apply IH.
Qed.

(* hvar_index_clamps: an explicit map is consulted at min(gid, mapCount - 1); without a map the advance index is
   (0, gid) and the side-bearing delta is absent *)
Lemma hvar_index_clamps (m : dsim) gid : let '(_, mc, _) := m in 0 < mc -> mc <= gid ->
  dsim_lookup m gid = dsim_lookup m (mc - 1).
Proof. destruct m as [[fmt mc] data]. intros H1 H2. unfold dsim_lookup. apply dsim_get_beyond_count; assumption. Qed.

Lemma hvar_index_packed es ib (entries : list (Z * Z)) gid :
  1 <= es <= 4 -> 1 <= ib <= 16 -> entries <> [] ->
  Forall (fun e => 0 <= fst e < 65536 /\ 0 <= snd e < 2 ^ ib /\ packed ib e < 256 ^ es) entries -> 0 <= gid ->
  dsim_lookup ((es - 1) * 16 + (ib - 1), Z.of_nat (length entries),
               flat_map (fun e => to_be (Z.to_nat es) (packed ib e)) entries) gid
  = Some (nth (Z.to_nat (Z.min gid (Z.of_nat (length entries) - 1))) entries (0, 0)).
Proof. intros. unfold dsim_lookup. apply deltaset_index_map_get; assumption. Qed.

Lemma advance_delta_implicit h gid coords : hv_adv_map h = None -> coords <> [] ->
  advance_delta h gid coords = delta_at h (Some (0, wrap_u 16 gid)) coords.
Proof. intros H Hc. unfold advance_delta. rewrite H. destruct coords; [congruence | reflexivity]. Qed.

Lemma effective_coords_default coords : Forall (fun c => c = 0) coords -> effective_coords coords = [].
Proof.
  intros H. unfold effective_coords. replace (forallb (Z.eqb 0) coords) with true; [reflexivity|].
  symmetry. apply forallb_forall. intros x Hx. rewrite Forall_forall in H. rewrite (H x Hx). reflexivity.
Qed.
Lemma effective_coords_nondefault coords : ~ Forall (fun c => c = 0) coords -> effective_coords coords = coords /\ coords <> [].
Proof.
  intros H. unfold effective_coords. destruct (forallb (Z.eqb 0) coords) eqn:E.
  - exfalso. apply H. rewrite forallb_forall in E. apply Forall_forall. intros x Hx. specialize (E x Hx). lia.
  - split; [reflexivity|]. intros ->. discriminate.
Qed.

Lemma base_advance_spec hm gid : 0 <= gid ->
  (match nth_error hm (Z.to_nat gid) with Some m => fst m | None => match hm with [] => 0 | m :: r => fst (last r m) end end)
  = hmtx_advance hm gid.
Proof.
  intros Hg. unfold hmtx_advance. cbv zeta.
  destruct (nth_error hm (Z.to_nat gid)) as [m|] eqn:E.
  - assert (Z.to_nat gid < length hm)%nat by (apply nth_error_Some; congruence).
    replace (gid <? Z.of_nat (length hm)) with true by lia. rewrite (nth_error_nth _ _ _ E). reflexivity.
  - apply nth_error_None in E. replace (gid <? Z.of_nat (length hm)) with false by lia.
    destruct hm as [|m r]; [reflexivity|]. cbn [length]. replace (Z.of_nat (S (length r)) =? 0) with false by lia.
    rewrite (last_nth r m (0, 0)). f_equal. f_equal. lia.
Qed.

Lemma base_lsb_spec hm lsbs gid : 0 <= gid ->
  (match nth_error hm (Z.to_nat gid) with Some m => snd m
   | None => nth (Z.to_nat (Z.max 0 (gid - Z.of_nat (length hm)))) lsbs 0 end)
  = hmtx_lsb hm lsbs gid.
Proof.
  intros Hg. unfold hmtx_lsb. cbv zeta.
  destruct (nth_error hm (Z.to_nat gid)) as [m|] eqn:E.
  - assert (Z.to_nat gid < length hm)%nat by (apply nth_error_Some; congruence).
    replace (gid <? Z.of_nat (length hm)) with true by lia. rewrite (nth_error_nth _ _ _ E). reflexivity.
  - apply nth_error_None in E. replace (gid <? Z.of_nat (length hm)) with false by lia. f_equal. lia.
Qed.

Lemma add_delta_16 base d : -32768 <= base <= 65535 -> -32768 <= d <= 32767 ->
  add_delta base (Ok (fixed_from_i32 d)) = Some (base + d).
Proof.
  intros Hb Hd. unfold add_delta. rewrite fixed_from_i32_spec by lia. rewrite Z.quot_mul by lia.
  unfold chk_s, in_s. change (2 ^ (32 - 1)) with 2147483648.
  destruct ((- (2147483648) <=? base + d) && (base + d <? 2147483648)) eqn:E; [reflexivity|lia].
Qed.

(* advance_spec: at a non-default location, with an HVAR table, the advance is
   scale(hmtx advance (last long metric repeats) + delta of the row the (clamped / implicit) index addresses) *)
Lemma advance_spec f scale gid coords h ix D :
  0 <= gid < mf_glyph_count f -> mf_hvar f = Some h -> ~ Forall (fun c => c = 0) coords ->
  Forall (fun m => 0 <= fst m <= 65535) (mf_h_metrics f) ->
  (match hv_adv_map h with Some m => dsim_lookup m gid | None => Some (0, wrap_u 16 gid) end) = Some ix ->
  compute_delta (hv_store h) (fst ix) (snd ix) coords = Ok D -> -32768 <= D <= 32767 ->
  advance_width f scale gid coords = Some (Some (scale_apply scale (hmtx_advance (mf_h_metrics f) gid + D))).
Proof.
  intros Hg Hh Hnz Hhm Hix HD HDr. unfold advance_width. replace (mf_glyph_count f <=? gid) with false by lia.
  rewrite Hh. destruct (effective_coords_nondefault coords Hnz) as [-> Hne].
  rewrite base_advance_spec by lia.
  assert (Hbase : 0 <= hmtx_advance (mf_h_metrics f) gid <= 65535).
  { unfold hmtx_advance. cbv zeta. rewrite Forall_forall in Hhm.
    destruct (gid <? Z.of_nat (length (mf_h_metrics f))) eqn:E1.
    - apply Hhm. apply nth_In. lia.
    - destruct (Z.of_nat (length (mf_h_metrics f)) =? 0) eqn:E2; [lia|]. apply Hhm. apply nth_In. lia. }
  unfold advance_delta. destruct coords as [|c0 cs]; [congruence|]. rewrite Hix. destruct ix as [o i]. cbn [fst snd] in HD.
  unfold delta_at. rewrite HD. rewrite add_delta_16 by lia. reflexivity.
Qed.

(* lsb_spec: likewise for the side bearing (hmtx long metric, then the trailing array, then 0); the side-bearing
   map is mandatory for a delta *)
Lemma lsb_spec f scale gid coords h m ix D :
  0 <= gid < mf_glyph_count f -> mf_hvar f = Some h -> ~ Forall (fun c => c = 0) coords ->
  -32768 <= hmtx_lsb (mf_h_metrics f) (mf_lsbs f) gid <= 32767 ->
  hv_lsb_map h = Some m -> dsim_lookup m gid = Some ix ->
  compute_delta (hv_store h) (fst ix) (snd ix) coords = Ok D -> -32768 <= D <= 32767 ->
  left_side_bearing f scale gid coords
  = Some (Some (scale_apply scale (hmtx_lsb (mf_h_metrics f) (mf_lsbs f) gid + D))).
Proof.
  intros Hg Hh Hnz Hb Hm Hix HD HDr. unfold left_side_bearing. replace (mf_glyph_count f <=? gid) with false by lia.
  rewrite Hh. destruct (effective_coords_nondefault coords Hnz) as [-> Hne]. cbv zeta.
  rewrite base_lsb_spec by lia.
  unfold lsb_delta. destruct coords as [|c0 cs]; [congruence|]. rewrite Hm, Hix. destruct ix as [o i]. cbn [fst snd] in HD.
  unfold delta_at. rewrite HD. rewrite add_delta_16 by lia. reflexivity.
Qed.

(* at the default location (all coordinates 0), without HVAR, or beyond the glyph count *)
Lemma advance_default_location f scale gid coords : 0 <= gid < mf_glyph_count f -> Forall (fun c => c = 0) coords ->
  Forall (fun m => 0 <= fst m <= 65535) (mf_h_metrics f) ->
  advance_width f scale gid coords = Some (Some (scale_apply scale (hmtx_advance (mf_h_metrics f) gid))).
Proof.
  intros Hg Hz Hhm. unfold advance_width. replace (mf_glyph_count f <=? gid) with false by lia.
  rewrite (effective_coords_default coords Hz). rewrite base_advance_spec by lia.
  destruct (mf_hvar f) as [h|]; [|reflexivity]. cbn [advance_delta add_delta].
  assert (Hbase : 0 <= hmtx_advance (mf_h_metrics f) gid <= 65535).
  { unfold hmtx_advance. cbv zeta. rewrite Forall_forall in Hhm.
    destruct (gid <? Z.of_nat (length (mf_h_metrics f))) eqn:E1.
    - apply Hhm. apply nth_In. lia.
    - destruct (Z.of_nat (length (mf_h_metrics f)) =? 0) eqn:E2; [lia|]. apply Hhm. apply nth_In. lia. }
  change (Z.quot 0 65536) with 0. rewrite Z.add_0_r.
  unfold chk_s, in_s. change (2 ^ (32 - 1)) with 2147483648.
  destruct ((- (2147483648) <=? hmtx_advance (mf_h_metrics f) gid) && (hmtx_advance (mf_h_metrics f) gid <? 2147483648)) eqn:E; [reflexivity|lia].
Qed.
Lemma metrics_beyond_glyph_count f scale gid coords : mf_glyph_count f <= gid ->
  advance_width f scale gid coords = Some None /\ left_side_bearing f scale gid coords = Some None.
Proof. intros H. unfold advance_width, left_side_bearing. replace (mf_glyph_count f <=? gid) with true by lia. split; reflexivity. Qed.

(* the identity scale of Size::unscaled() is exact below 2^15 *)
Lemma scale_apply_unscaled v : -32767 <= v <= 32767 -> scale_apply 4194304 v = v * 65536.
Proof.
  intros H. unfold scale_apply.
  assert (Hr : rha (4194304 * v) 64 = v * 65536).
  { destruct (Z_lt_le_dec v 0); [rewrite rha_neg by lia | rewrite rha_pos by lia]; lia. }
  rewrite fixed_mul_div_spec; unfold i32; try lia; rewrite Hr; lia.
Qed.
