(* C11 — lemmas about axis normalisation (Model.v section 1). *)
From Coq Require Import ZArith Lia List Bool.
From Coq Require Import ZifyBool.
From FV Require Import Lib.RustInt C15.Model C15.Proofs C11.Model.
Import ListNotations.
Open Scope Z_scope.
Ltac Zify.zify_post_hook ::= Z.div_mod_to_equations.

(* ---- the quotient of two non-negative Fixed values with a <= b is in [0, 1.0] ---- *)
Definition Q (a b : Z) : Z := (2 * (a * 65536) + b) / (2 * b).
Definition S31 (x : Z) : Z := Z.min x 2147483647.

Lemma Q_range a b : 0 <= a -> a <= b -> 0 < b -> 0 <= Q a b <= 65536.
Proof.
  intros Ha Hab Hb. unfold Q. split.
  - apply Z.div_pos; lia.
  - assert ((2 * (a * 65536) + b) / (2 * b) < 65537); [|lia]. apply Z.div_lt_upper_bound; lia.
Qed.

Lemma Q_mono a1 a2 b : 0 <= a1 -> a1 <= a2 -> 0 < b -> Q a1 b <= Q a2 b.
Proof. intros. unfold Q. apply Z.div_le_mono; lia. Qed.

Lemma Q_self a : 0 < a -> Q a a = 65536.
Proof. intros. unfold Q. replace (2 * (a * 65536) + a) with (a + 65536 * (2 * a)) by lia. rewrite Z.div_add by lia. rewrite Z.div_small by lia. reflexivity. Qed.

Lemma fixed_div_unit a b : 0 <= a -> a <= b -> 0 < b -> b <= 2147483647 -> fixed_div a b = Q a b.
Proof.
  intros Ha Hab Hb Hb2.
  pose proof (Q_range a b Ha Hab Hb) as HQ.
  assert (Hr : rha (a * 65536) b = Q a b) by (rewrite rha_pos by lia; reflexivity).
  rewrite fixed_div_spec; unfold i32 in *; lia.
Qed.

Lemma sat_pos x : 0 <= x -> sat_s 32 x = S31 x.
Proof.
  intros. unfold sat_s, clamp, S31. change (2 ^ (32 - 1)) with 2147483648. lia.
Qed.

Lemma fx_neg_ok q : -2147483647 <= q <= 2147483648 -> fx_neg 32 q = Some (- q).
Proof.
  intros H. unfold fx_neg. rewrite wrap_s32_id by (unfold i32; lia). reflexivity.
Qed.

(* closed form of the result *)
Definition norm_val (mn df mx v : Z) : Z :=
  let M := Z.max mx mn in
  let v1 := Z.max mn (Z.min M v) in
  if v1 <? df then - Q (S31 (df - v1)) (S31 (df - mn))
  else if df <? v1 then Q (S31 (v1 - df)) (S31 (M - df))
  else 0.

Lemma ord_clamp_ok lo hi v : lo <= hi -> ord_clamp lo hi v = Some (Z.max lo (Z.min hi v)).
Proof.
  intros H. unfold ord_clamp. replace (hi <? lo) with false by lia. f_equal.
  destruct (v <? lo) eqn:E1; [lia|]. destruct (hi <? v) eqn:E2; lia.
Qed.

Lemma norm_val_range mn df mx v : -65536 <= norm_val mn df mx v <= 65536.
Proof.
  unfold norm_val. cbv zeta.
  set (M := Z.max mx mn). set (v1 := Z.max mn (Z.min M v)).
  destruct (v1 <? df) eqn:E1.
  - pose proof (Q_range (S31 (df - v1)) (S31 (df - mn))) as H. unfold S31 in *. lia.
  - destruct (df <? v1) eqn:E2; [|lia].
    pose proof (Q_range (S31 (v1 - df)) (S31 (M - df))) as H. unfold S31 in *. lia.
Qed.

Lemma normalize_closed mn df mx v : i32 mn -> i32 df -> i32 mx -> i32 v ->
  normalize mn df mx v = Some (norm_val mn df mx v).
Proof.
  intros Hmn Hdf Hmx Hv. unfold i32 in *.
  pose proof (norm_val_range mn df mx v) as HR.
  unfold normalize, norm_val in *. cbv zeta in *.
  set (M := Z.max mx mn) in *.
  rewrite ord_clamp_ok by lia. cbn [obind].
  set (v1 := Z.max mn (Z.min M v)) in *.
  destruct (Z.compare_spec v1 df) as [E|E|E].
  - cbn [obind]. replace (v1 <? df) with false in * by lia. replace (df <? v1) with false in * by lia.
    rewrite ord_clamp_ok by lia. f_equal.
  - replace (v1 <? df) with true in * by lia.
    unfold fx_sat_sub. rewrite !sat_pos by lia.
    rewrite fixed_div_unit by (unfold S31; lia).
    rewrite fx_neg_ok by lia.
    cbn [obind]. rewrite ord_clamp_ok by lia. f_equal. lia.
  - replace (v1 <? df) with false in * by lia. replace (df <? v1) with true in * by lia.
    unfold fx_sat_sub. rewrite !sat_pos by lia.
    rewrite fixed_div_unit by (unfold S31; lia).
    cbn [obind]. rewrite ord_clamp_ok by lia. f_equal. lia.
Qed.

(* ---- property-level lemmas ---- *)
Lemma normalize_no_trap mn df mx v : i32 mn -> i32 df -> i32 mx -> i32 v -> normalize mn df mx v <> None.
Proof. intros. rewrite normalize_closed by assumption. discriminate. Qed.

Lemma normalize_range mn df mx v : i32 mn -> i32 df -> i32 mx -> i32 v ->
  exists r, normalize mn df mx v = Some r /\ -65536 <= r <= 65536.
Proof.
  intros. exists (norm_val mn df mx v). split; [apply normalize_closed; assumption | apply norm_val_range].
Qed.

Lemma normalize_endpoints mn df mx : i32 mn -> i32 df -> i32 mx -> mn < df -> df < mx ->
  normalize mn df mx mn = Some (-65536) /\ normalize mn df mx df = Some 0 /\ normalize mn df mx mx = Some 65536.
Proof.
  intros Hmn Hdf Hmx H1 H2. rewrite !normalize_closed by assumption. unfold i32 in *.
  unfold norm_val. cbv zeta.
  replace (Z.max mx mn) with mx by lia.
  replace (Z.max mn (Z.min mx mn)) with mn by lia.
  replace (Z.max mn (Z.min mx df)) with df by lia.
  replace (Z.max mn (Z.min mx mx)) with mx by lia.
  replace (mn <? df) with true by lia. replace (df <? df) with false by lia.
  replace (mx <? df) with false by lia. replace (df <? mx) with true by lia.
  rewrite !Q_self by (unfold S31; lia). repeat split; reflexivity.
Qed.

(* one-sided versions for half-degenerate records (min = default or default = max) *)
Lemma normalize_default mn df mx : i32 mn -> i32 df -> i32 mx -> mn <= df -> df <= Z.max mx mn ->
  normalize mn df mx df = Some 0.
Proof.
  intros. rewrite normalize_closed by assumption. unfold norm_val. cbv zeta.
  replace (Z.max mn (Z.min (Z.max mx mn) df)) with df by lia.
  replace (df <? df) with false by lia. reflexivity.
Qed.
Lemma normalize_min mn df mx : i32 mn -> i32 df -> i32 mx -> mn < df -> normalize mn df mx mn = Some (-65536).
Proof.
  intros. rewrite normalize_closed by assumption. unfold norm_val, i32 in *. cbv zeta.
  replace (Z.max mn (Z.min (Z.max mx mn) mn)) with mn by lia.
  replace (mn <? df) with true by lia. rewrite Q_self by (unfold S31; lia). reflexivity.
Qed.
Lemma normalize_max mn df mx : i32 mn -> i32 df -> i32 mx -> df < mx -> mn <= mx -> normalize mn df mx mx = Some 65536.
Proof.
  intros. rewrite normalize_closed by assumption. unfold norm_val, i32 in *. cbv zeta.
  replace (Z.max mx mn) with mx by lia.
  replace (Z.max mn (Z.min mx mx)) with mx by lia.
  replace (mx <? df) with false by lia. replace (df <? mx) with true by lia.
  rewrite Q_self by (unfold S31; lia). reflexivity.
Qed.

Lemma normalize_clamps mn df mx v : i32 mn -> i32 df -> i32 mx -> i32 v ->
  (v <= mn -> normalize mn df mx v = normalize mn df mx mn) /\
  (Z.max mx mn <= v -> normalize mn df mx v = normalize mn df mx (Z.max mx mn)).
Proof.
  intros Hmn Hdf Hmx Hv.
  assert (HM : i32 (Z.max mx mn)) by (unfold i32 in *; lia).
  split; intros H; rewrite !normalize_closed by assumption; f_equal; unfold norm_val; cbv zeta.
  - replace (Z.max mn (Z.min (Z.max mx mn) v)) with (Z.max mn (Z.min (Z.max mx mn) mn)) by lia. reflexivity.
  - replace (Z.max mn (Z.min (Z.max mx mn) v)) with (Z.max mn (Z.min (Z.max mx mn) (Z.max mx mn))) by lia. reflexivity.
Qed.

Lemma norm_val_mono mn df mx v1 v2 : v1 <= v2 -> norm_val mn df mx v1 <= norm_val mn df mx v2.
Proof.
  intros H. unfold norm_val. cbv zeta.
  set (M := Z.max mx mn).
  set (a := Z.max mn (Z.min M v1)). set (b := Z.max mn (Z.min M v2)).
  assert (Hab : a <= b) by lia.
  assert (Hamn : mn <= a) by lia. assert (HbM : b <= M) by lia.
  destruct (a <? df) eqn:Ea.
  - destruct (b <? df) eqn:Eb.
    + pose proof (Q_mono (S31 (df - b)) (S31 (df - a)) (S31 (df - mn))) as Hm. unfold S31 in *. lia.
    + pose proof (Q_range (S31 (df - a)) (S31 (df - mn))) as H1.
      destruct (df <? b) eqn:Eb2.
      * pose proof (Q_range (S31 (b - df)) (S31 (M - df))) as H2. unfold S31 in *. lia.
      * unfold S31 in *. lia.
  - replace (b <? df) with false by lia.
    destruct (df <? a) eqn:Ea2.
    + replace (df <? b) with true by lia.
      pose proof (Q_mono (S31 (a - df)) (S31 (b - df)) (S31 (M - df))) as Hm. unfold S31 in *. lia.
    + destruct (df <? b) eqn:Eb2; [|lia].
      pose proof (Q_range (S31 (b - df)) (S31 (M - df))) as H2. unfold S31 in *. lia.
Qed.

Lemma normalize_monotone mn df mx v1 v2 r1 r2 : i32 mn -> i32 df -> i32 mx -> i32 v1 -> i32 v2 -> v1 <= v2 ->
  normalize mn df mx v1 = Some r1 -> normalize mn df mx v2 = Some r2 -> r1 <= r2.
Proof.
  intros Hmn Hdf Hmx H1 H2 Hle E1 E2. rewrite normalize_closed in E1, E2 by assumption.
  injection E1 as <-. injection E2 as <-. apply norm_val_mono. exact Hle.
Qed.

(* the OpenType formula with the rounding explicit, when nothing saturates *)
Lemma normalize_exact mn df mx v : i32 mn -> i32 df -> i32 mx -> i32 v ->
  mn <= df -> df <= mx -> mn <= v -> v <= mx -> df - mn <= 2147483647 -> mx - df <= 2147483647 ->
  normalize mn df mx v =
    Some (if v <? df then - rha ((df - v) * 65536) (df - mn)
          else if df <? v then rha ((v - df) * 65536) (mx - df) else 0).
Proof.
  intros Hmn Hdf Hmx Hv H1 H2 H3 H4 H5 H6. rewrite normalize_closed by assumption. f_equal.
  unfold norm_val. cbv zeta.
  replace (Z.max mx mn) with mx by lia.
  replace (Z.max mn (Z.min mx v)) with v by lia.
  destruct (v <? df) eqn:E1.
  - rewrite rha_pos by lia. unfold Q, S31. replace (Z.min (df - v) 2147483647) with (df - v) by lia.
    replace (Z.min (df - mn) 2147483647) with (df - mn) by lia. reflexivity.
  - destruct (df <? v) eqn:E2; [|reflexivity].
    rewrite rha_pos by lia. unfold Q, S31. replace (Z.min (v - df) 2147483647) with (v - df) by lia.
    replace (Z.min (mx - df) 2147483647) with (mx - df) by lia. reflexivity.
Qed.

(* |rha (d * x) y| <= |d| when 0 < x < y *)
Lemma rha_scale_bound d x y : 0 < x < y -> - Z.abs d <= rha (d * x) y <= Z.abs d.
Proof.
  intros Hx. destruct (Z_lt_le_dec d 0) as [Hn|Hp].
  - assert (H1 : 0 < - (d * x)) by nia.
    assert (H2 : - (d * x) <= (- d) * y) by nia.
    rewrite rha_neg by lia.
    assert (0 <= (2 * - (d * x) + y) / (2 * y)) by (apply Z.div_pos; lia).
    assert ((2 * - (d * x) + y) / (2 * y) < - d + 1) by (apply Z.div_lt_upper_bound; lia).
    lia.
  - assert (H1 : 0 <= d * x) by nia.
    assert (H2 : d * x <= d * y) by nia.
    rewrite rha_pos by lia.
    assert (0 <= (2 * (d * x) + y) / (2 * y)) by (apply Z.div_pos; lia).
    assert ((2 * (d * x) + y) / (2 * y) < d + 1) by (apply Z.div_lt_upper_bound; lia).
    lia.
Qed.

(* ---- avar SegmentMaps::apply ---- *)
Definition fx4 (x : Z) : Z := x * 4.

Lemma avar_scan_skip pre : forall first prev rest coord,
  (forall p, In p pre -> fx4 (fst p) < coord) -> pre <> [] ->
  avar_scan (pre ++ rest) first prev coord = avar_scan rest false (last pre (0, 0)) coord.
Proof.
  induction pre as [|[f t] pre IH]; intros first prev rest coord Hall Hne; [congruence|].
  cbn [app avar_scan]. unfold f2dot14_to_fixed.
  assert (Hf : fx4 f < coord) by (apply (Hall (f, t)); left; reflexivity). unfold fx4 in Hf.
  replace (f * 4 =? coord) with false by lia. replace (coord <? f * 4) with false by lia.
  destruct pre as [|q pre'].
  - reflexivity.
  - rewrite IH; [reflexivity | | discriminate]. intros p Hp. apply Hall. right. exact Hp.
Qed.

Lemma avar_empty coord : avar_apply [] coord = coord.
Proof. reflexivity. Qed.

Lemma avar_below_first f t rest coord : coord < fx4 f -> avar_apply ((f, t) :: rest) coord = coord.
Proof.
  intros H. unfold avar_apply, fx4 in *. cbn [avar_scan]. unfold f2dot14_to_fixed.
  replace (f * 4 =? coord) with false by lia. replace (coord <? f * 4) with true by lia. reflexivity.
Qed.

Lemma avar_above_all maps coord : (forall p, In p maps -> fx4 (fst p) < coord) -> avar_apply maps coord = coord.
Proof.
  intros H. unfold avar_apply. destruct maps as [|m maps]; [reflexivity|].
  rewrite <- (app_nil_r (m :: maps)). rewrite avar_scan_skip; [reflexivity | exact H | discriminate].
Qed.

Lemma avar_exact_at_point pre f t post coord :
  (forall p, In p pre -> fx4 (fst p) < coord) -> coord = fx4 f ->
  avar_apply (pre ++ (f, t) :: post) coord = fx4 t.
Proof.
  intros Hall Hc. unfold avar_apply.
  assert (Hhead : forall first prev, avar_scan ((f, t) :: post) first prev coord = fx4 t).
  { intros. cbn [avar_scan]. unfold f2dot14_to_fixed, fx4 in *. replace (f * 4 =? coord) with true by lia. reflexivity. }
  destruct pre as [|q pre]; [apply Hhead|].
  rewrite avar_scan_skip; [apply Hhead | exact Hall | discriminate].
Qed.

Lemma avar_apply_interpolates pre f0 t0 f1 t1 post coord :
  (forall p, In p pre -> fx4 (fst p) < coord) -> i16 f0 -> i16 t0 -> i16 f1 -> i16 t1 ->
  fx4 f0 < coord -> coord < fx4 f1 ->
  avar_apply (pre ++ (f0, t0) :: (f1, t1) :: post) coord
  = fx4 t0 + rha ((fx4 t1 - fx4 t0) * (coord - fx4 f0)) (fx4 f1 - fx4 f0).
Proof.
  intros Hall Hf0 Ht0 Hf1 Ht1 Hlo Hhi. unfold avar_apply.
  replace (pre ++ (f0, t0) :: (f1, t1) :: post) with ((pre ++ [(f0, t0)]) ++ (f1, t1) :: post)
    by (rewrite <- app_assoc; reflexivity).
  rewrite avar_scan_skip.
  2:{ intros p Hp. apply in_app_or in Hp. destruct Hp as [Hp|[<-|[]]]; [apply Hall; exact Hp | exact Hlo]. }
  2:{ destruct pre; discriminate. }
  rewrite last_last. cbn [avar_scan fst snd]. unfold f2dot14_to_fixed, fx4, i16 in *.
  replace (f1 * 4 =? coord) with false by lia. replace (coord <? f1 * 4) with true by lia.
  unfold fx_sub, fx_add.
  rewrite (wrap_s32_id (t1 * 4 - t0 * 4)) by (unfold i32; lia).
  rewrite (wrap_s32_id (coord - f0 * 4)) by (unfold i32; lia).
  rewrite (wrap_s32_id (f1 * 4 - f0 * 4)) by (unfold i32; lia).
  (* |rha (d * x) y| <= |d| because 0 < x < y *)
  set (d := t1 * 4 - t0 * 4). set (x := coord - f0 * 4). set (y := f1 * 4 - f0 * 4).
  assert (Hx : 0 < x < y) by (subst x y; lia).
  assert (Hd : -262140 <= d <= 262140) by (subst d; lia).
  pose proof (rha_scale_bound d x y Hx) as Hr.
  rewrite fixed_mul_div_spec; unfold i32; try lia.
  apply wrap_s32_id. unfold i32. lia.
Qed.
