(* C11 — lemmas about the tent scalar, ItemVariationStore::compute_delta and DeltaSetIndexMap::get
   (Model.v section 2). *)
From Coq Require Import ZArith Lia List Bool.
From Coq Require Import ZifyBool.
From FV Require Import Lib.RustInt C15.Model C15.Proofs C11.Model C11.NormProofs.
Import ListNotations.
Open Scope Z_scope.
Ltac Zify.zify_post_hook ::= Z.div_mod_to_equations.

Definition axis16 (a : Z * Z * Z) : Prop := i16 (fst (fst a)) /\ i16 (snd (fst a)) /\ i16 (snd a).

(* the specification: per axis the OpenType tent as an exact fraction n/d ([tent_frac]), accumulated into the
   16.16 scalar with one rounding (half away from zero) per interpolating axis; 0 as soon as one axis is
   outside its tent *)
Fixpoint tent_spec (axes : region) (coords : list Z) (sc : Z) : Z :=
  match axes with
  | [] => sc
  | (s, p, e) :: rest =>
      let c := match coords with c :: _ => c | [] => 0 end in
      match tent_frac c s p e with
      | None => 0
      | Some (n, d) => tent_spec rest (tl coords) (rha (sc * n) d)
      end
  end.

Lemma rha_one n : rha n 1 = n.
Proof.
  unfold rha. cbn [Z.sgn Z.abs]. rewrite Z.mul_1_r.
  replace ((2 * Z.abs n + 1) / (2 * 1)) with (Z.abs n) by lia.
  destruct n; cbn; lia.
Qed.

Lemma rha_scale k a b : 0 < k -> b <> 0 -> rha (k * a) (k * b) = rha a b.
Proof.
  intros Hk Hb. unfold rha.
  rewrite !Z.sgn_mul, !Z.abs_mul. rewrite (Z.sgn_pos k), (Z.abs_eq k) by lia. rewrite !Z.mul_1_l.
  f_equal.
  replace (2 * (k * Z.abs a) + k * Z.abs b) with (k * (2 * Z.abs a + Z.abs b)) by lia.
  replace (2 * (k * Z.abs b)) with (k * (2 * Z.abs b)) by lia.
  apply Z.div_mul_cancel_l; lia.
Qed.

Lemma rha_frac_range sc n d : 0 <= sc -> 0 <= n -> n <= d -> 0 < d -> 0 <= rha (sc * n) d <= sc.
Proof.
  intros Hs Hn Hnd Hd.
  assert (H1 : 0 <= sc * n) by nia. assert (H2 : sc * n <= sc * d) by nia.
  rewrite rha_pos by lia. split.
  - apply Z.div_pos; lia.
  - assert ((2 * (sc * n) + d) / (2 * d) < sc + 1); [|lia]. apply Z.div_lt_upper_bound; lia.
Qed.

Lemma tent_frac_wf c s p e n d : tent_frac c s p e = Some (n, d) -> 0 <= n /\ n <= d /\ 0 < d.
Proof.
  unfold tent_frac. intros H.
  destruct ((p <? s) || (e <? p) || (p =? 0) || ((s <? 0) && (0 <? e))) eqn:E0; [injection H as <- <-; lia|].
  destruct ((c <? s) || (e <? c)) eqn:E1; [discriminate|].
  destruct (c =? p) eqn:E2; [injection H as <- <-; lia|].
  destruct (c <? p) eqn:E3; injection H as <- <-; lia.
Qed.

(* one loop iteration = the specified tent fraction applied with one rounding *)
Lemma tent_axis_spec sc c s p e : i16 c -> i16 s -> i16 p -> i16 e -> 0 <= sc <= 65536 ->
  tent_axis sc (f2dot14_to_fixed c) (f2dot14_to_fixed s) (f2dot14_to_fixed p) (f2dot14_to_fixed e)
  = match tent_frac c s p e with None => None | Some (n, d) => Some (rha (sc * n) d) end.
Proof.
  intros Hc Hs Hp He Hsc. unfold i16 in *. unfold tent_axis, tent_frac, f2dot14_to_fixed.
  replace (p * 4 <? s * 4) with (p <? s) by lia. replace (e * 4 <? p * 4) with (e <? p) by lia.
  replace (p * 4 =? 0) with (p =? 0) by lia. replace (s * 4 <? 0) with (s <? 0) by lia.
  replace (0 <? e * 4) with (0 <? e) by lia.
  destruct ((p <? s) || (e <? p) || (p =? 0) || ((s <? 0) && (0 <? e))) eqn:E0.
  { rewrite Z.mul_1_r, rha_one. reflexivity. }
  replace (c * 4 <? s * 4) with (c <? s) by lia. replace (e * 4 <? c * 4) with (e <? c) by lia.
  destruct ((c <? s) || (e <? c)) eqn:E1; [reflexivity|].
  replace (c * 4 =? p * 4) with (c =? p) by lia.
  destruct (c =? p) eqn:E2. { rewrite Z.mul_1_r, rha_one. reflexivity. }
  replace (c * 4 <? p * 4) with (c <? p) by lia.
  destruct (c <? p) eqn:E3; f_equal; unfold fx_sub.
  - rewrite !wrap_s32_id by (unfold i32; lia).
    pose proof (rha_frac_range sc (c - s) (p - s)) as HR.
    replace (c * 4 - s * 4) with (4 * (c - s)) by lia. replace (p * 4 - s * 4) with (4 * (p - s)) by lia.
    assert (Hsc4 : rha (sc * (4 * (c - s))) (4 * (p - s)) = rha (sc * (c - s)) (p - s)).
    { replace (sc * (4 * (c - s))) with (4 * (sc * (c - s))) by lia. apply rha_scale; lia. }
    rewrite fixed_mul_div_spec; unfold i32; try lia; rewrite Hsc4; lia.
  - rewrite !wrap_s32_id by (unfold i32; lia).
    pose proof (rha_frac_range sc (e - c) (e - p)) as HR.
    replace (e * 4 - c * 4) with (4 * (e - c)) by lia. replace (e * 4 - p * 4) with (4 * (e - p)) by lia.
    assert (Hsc4 : rha (sc * (4 * (e - c))) (4 * (e - p)) = rha (sc * (e - c)) (e - p)).
    { replace (sc * (4 * (e - c))) with (4 * (sc * (e - c))) by lia. apply rha_scale; lia. }
    rewrite fixed_mul_div_spec; unfold i32; try lia; rewrite Hsc4; lia.
Qed.

Lemma tent_go_spec axes : forall coords sc, Forall axis16 axes -> Forall i16 coords -> 0 <= sc <= 65536 ->
  compute_scalar_go axes coords sc = tent_spec axes coords sc /\ 0 <= tent_spec axes coords sc <= 65536.
Proof.
  induction axes as [|[[s p] e] rest IH]; intros coords sc Hax Hco Hsc.
  - cbn. split; [reflexivity|lia].
  - inversion Hax as [|? ? [H1 [H2 H3]] Hrest]; subst. cbn [fst snd] in *.
    cbn [compute_scalar_go tent_spec].
    set (c := match coords with c :: _ => c | [] => 0 end).
    assert (Hc : i16 c).
    { subst c. destruct coords; [unfold i16; lia|]. inversion Hco; assumption. }
    assert (Hcf : match coords with c0 :: _ => f2dot14_to_fixed c0 | [] => 0 end = f2dot14_to_fixed c).
    { subst c. destruct coords; reflexivity. }
    rewrite Hcf. rewrite tent_axis_spec by assumption.
    destruct (tent_frac c s p e) as [[n d]|] eqn:E; [|split; [reflexivity|lia]].
    pose proof (tent_frac_wf _ _ _ _ _ _ E) as [Hn [Hnd Hd]].
    pose proof (rha_frac_range sc n d ltac:(lia) Hn Hnd Hd) as HR.
    apply IH; [assumption | destruct coords; [constructor | inversion Hco; assumption] | lia].
Qed.

(* tent_scalar_spec: the scalar of a region = the specified tents accumulated with explicit rounding *)
Lemma tent_scalar_spec axes coords : Forall axis16 axes -> Forall i16 coords ->
  compute_scalar axes coords = tent_spec axes coords 65536.
Proof. intros. unfold compute_scalar. apply tent_go_spec; try assumption. lia. Qed.

Lemma tent_scalar_range axes coords : Forall axis16 axes -> Forall i16 coords ->
  0 <= compute_scalar axes coords <= 65536.
Proof.
  intros Ha Hc. rewrite tent_scalar_spec by assumption. apply (tent_go_spec axes coords 65536 Ha Hc). lia.
Qed.

(* a region with a single interpolating axis: exactly the tent n/d rounded to 16.16 *)
Lemma tent_single_axis s p e c : i16 s -> i16 p -> i16 e -> i16 c ->
  compute_scalar [(s, p, e)] [c]
  = match tent_frac c s p e with None => 0 | Some (n, d) => rha (65536 * n) d end.
Proof.
  intros. rewrite tent_scalar_spec.
  - cbn [tent_spec tl]. destruct (tent_frac c s p e) as [[n d]|]; reflexivity.
  - constructor; [unfold axis16; cbn [fst snd]; auto | constructor].
  - constructor; [assumption | constructor].
Qed.

(* 0 outside the tent of any (proper) axis *)
Definition proper_tent (s p e : Z) : Prop := s <= p /\ p <= e /\ p <> 0 /\ ~ (s < 0 /\ 0 < e).

Lemma tent_spec_zero axes : forall coords, tent_spec axes coords 0 = 0.
Proof.
  induction axes as [|[[s p] e] rest IH]; intros coords; [reflexivity|].
  cbn [tent_spec]. destruct (tent_frac _ s p e) as [[n d]|]; [|reflexivity].
  rewrite Z.mul_0_l. unfold rha at 1. cbn [Z.sgn Z.abs]. rewrite Z.mul_0_l. apply IH.
Qed.

Lemma tent_zero_outside pre s p e post coords : Forall axis16 (pre ++ (s, p, e) :: post) -> Forall i16 coords ->
  proper_tent s p e ->
  (let c := nth (length pre) coords 0 in c < s \/ e < c) ->
  compute_scalar (pre ++ (s, p, e) :: post) coords = 0.
Proof.
  intros Ha Hc Hp Hout. rewrite tent_scalar_spec by assumption. clear Ha Hc.
  generalize 65536 as sc. revert coords Hout.
  induction pre as [|[[s0 p0] e0] pre IH]; intros coords Hout sc.
  - cbn [app tent_spec length nth] in *.
    assert (Hc : match coords with c :: _ => c | [] => 0 end = nth 0 coords 0) by (destruct coords; reflexivity).
    rewrite Hc. unfold tent_frac. destruct Hp as [P1 [P2 [P3 P4]]].
    replace ((p <? s) || (e <? p) || (p =? 0) || ((s <? 0) && (0 <? e))) with false by lia.
    replace ((nth 0 coords 0 <? s) || (e <? nth 0 coords 0)) with true by lia. reflexivity.
  - cbn [app tent_spec]. destruct (tent_frac _ s0 p0 e0) as [[n d]|]; [|reflexivity].
    apply IH. destruct coords; cbn [length nth tl] in *; [destruct (length pre); exact Hout | exact Hout].
Qed.

(* 1.0 when every coordinate sits at the peak of its axis *)
Lemma tent_one_at_peaks axes : forall coords, Forall axis16 axes -> Forall i16 coords ->
  Forall2 (fun a c => c = snd (fst a)) axes coords -> compute_scalar axes coords = 65536.
Proof.
  intros coords Ha Hc HF. rewrite tent_scalar_spec by assumption. clear Ha Hc.
  induction HF as [|[[s p] e] c axes coords Hcp HF IH]; [reflexivity|].
  cbn [fst snd] in Hcp. subst c. cbn [tent_spec tl].
  assert (Hf : tent_frac p s p e = Some (1, 1)).
  { unfold tent_frac. destruct ((p <? s) || (e <? p) || (p =? 0) || ((s <? 0) && (0 <? e))) eqn:E0; [reflexivity|].
    replace ((p <? s) || (e <? p)) with false by lia. rewrite Z.eqb_refl. reflexivity. }
  rewrite Hf. rewrite Z.mul_1_r, rha_one. exact IH.
Qed.

(* ---- compute_delta ---- *)
Lemma chk_s64_ok z : -9223372036854775808 <= z < 9223372036854775808 -> chk_s 64 z = Some z.
Proof.
  intros H. unfold chk_s, in_s. change (2 ^ (64 - 1)) with 9223372036854775808.
  destruct ((- (9223372036854775808) <=? z) && (z <? 9223372036854775808)) eqn:E; [reflexivity|lia].
Qed.

Fixpoint delta_sum (regions : list region) (ridx row coords : list Z) : Z :=
  match row, ridx with
  | d :: row', ri :: ridx' => d * compute_scalar (nth (Z.to_nat ri) regions []) coords + delta_sum regions ridx' row' coords
  | _, _ => 0
  end.

Lemma delta_accum_spec regions coords : Forall (Forall axis16) regions -> Forall i16 coords ->
  forall row ridx acc,
  Forall i32 row -> (length row <= length ridx)%nat ->
  Forall (fun ri => 0 <= ri < Z.of_nat (length regions)) ridx ->
  Z.abs acc + Z.of_nat (length row) * 140737488355328 < 9223372036854775808 ->
  delta_accum regions ridx row coords acc = Ok (acc + delta_sum regions ridx row coords)
  /\ Z.abs (acc + delta_sum regions ridx row coords) <= Z.abs acc + Z.of_nat (length row) * 140737488355328.
Proof.
  intros Hreg Hco. induction row as [|d row IH]; intros ridx acc Hrow Hlen Hri Hb.
  - destruct ridx; cbn [delta_accum delta_sum length Z.of_nat]; rewrite Z.add_0_r; (split; [reflexivity | lia]).
  - destruct ridx as [|ri ridx]; [cbn in Hlen; lia|].
    inversion Hrow as [|? ? Hd Hrow']; subst. inversion Hri as [|? ? Hr Hri']; subst.
    cbn [delta_accum delta_sum].
    destruct (nth_error regions (Z.to_nat ri)) as [reg|] eqn:En.
    2:{ apply nth_error_None in En. lia. }
    assert (Hnth : nth (Z.to_nat ri) regions [] = reg) by (apply nth_error_nth; exact En).
    unfold region in *. rewrite En. rewrite Hnth.
    assert (Hreg1 : Forall axis16 reg).
    { rewrite Forall_forall in Hreg. apply Hreg. eapply nth_error_In; exact En. }
    pose proof (tent_scalar_range reg coords Hreg1 Hco) as Hs.
    set (sc := compute_scalar reg coords) in *.
    assert (Hprod : Z.abs (d * sc) <= 140737488355328) by (unfold i32 in Hd; nia).
    cbn [length] in *. rewrite Nat2Z.inj_succ in Hb.
    rewrite chk_s64_ok by lia.
    destruct (IH ridx (acc + d * sc) Hrow' ltac:(lia) Hri' ltac:(lia)) as [E B].
    rewrite E. split; [f_equal; lia|]. rewrite Nat2Z.inj_succ. lia.
Qed.

(* compute_delta_spec: for a well-formed row, no error, no overflow panic, and the value is
   (sum over the row's regions of delta * tent scalar + 0x8000) >> 16 — one rounding at the end *)
Lemma compute_delta_spec s outer inner coords st :
  coords <> [] ->
  nth_error (vs_data s) (Z.to_nat outer) = Some (Some st) ->
  Forall (Forall axis16) (vs_regions s) -> Forall i16 coords ->
  let row := nth (Z.to_nat inner) (st_rows st) [] in
  Forall i32 row -> (length row <= length (st_regions st))%nat -> Z.of_nat (length row) <= 65535 ->
  Forall (fun ri => 0 <= ri < Z.of_nat (length (vs_regions s))) (st_regions st) ->
  compute_delta s outer inner coords
  = Ok (wrap_s 32 ((delta_sum (vs_regions s) (st_regions st) row coords + 32768) / 65536)).
Proof.
  intros Hne Hsub Hreg Hco row Hrow Hlen Hlen2 Hri. unfold compute_delta.
  destruct coords as [|c0 coords']; [congruence|]. rewrite Hsub. fold row.
  destruct (delta_accum_spec (vs_regions s) (c0 :: coords') Hreg Hco row (st_regions st) 0 Hrow Hlen Hri) as [E B].
  { cbn [Z.abs]. lia. }
  rewrite E. cbn [Z.abs] in B. rewrite Z.add_0_l in *.
  set (S := delta_sum (vs_regions s) (st_regions st) row (c0 :: coords')) in *.
  rewrite chk_s64_ok by lia.
  rewrite Z.shiftr_div_pow2 by lia. reflexivity.
Qed.

Lemma compute_delta_no_coords s outer inner : compute_delta s outer inner [] = Ok 0.
Proof. reflexivity. Qed.
Lemma compute_delta_null_subtable s outer inner coords :
  nth_error (vs_data s) (Z.to_nat outer) = Some None -> compute_delta s outer inner coords = Ok 0.
Proof. intros H. unfold compute_delta. rewrite H. destruct coords; reflexivity. Qed.

(* ---- DeltaSetIndexMap::get ---- *)
Lemma dsim_get_beyond_count fmt mc data index : 0 < mc -> mc <= index ->
  dsim_get fmt mc data index = dsim_get fmt mc data (mc - 1).
Proof. intros. unfold dsim_get. replace (Z.min index (Z.max 0 (mc - 1))) with (Z.min (mc - 1) (Z.max 0 (mc - 1))) by lia. reflexivity. Qed.

Lemma fmt_fields es ib : 1 <= es <= 4 -> 1 <= ib <= 16 ->
  let fmt := (es - 1) * 16 + (ib - 1) in
  Z.land fmt 63 = fmt /\ Z.shiftr (Z.land fmt 48) 4 + 1 = es /\ Z.land fmt 15 + 1 = ib.
Proof.
  intros He Hi.
  assert (E : es = 1 \/ es = 2 \/ es = 3 \/ es = 4) by lia.
  assert (I : ib = 1 \/ ib = 2 \/ ib = 3 \/ ib = 4 \/ ib = 5 \/ ib = 6 \/ ib = 7 \/ ib = 8 \/ ib = 9 \/ ib = 10
              \/ ib = 11 \/ ib = 12 \/ ib = 13 \/ ib = 14 \/ ib = 15 \/ ib = 16) by lia.
  repeat (destruct E as [-> | E]); repeat (destruct I as [-> | I]); try subst es; try subst ib; cbv; repeat split; reflexivity.
Qed.

Definition packed (ib : Z) (e : Z * Z) : Z := fst e * 2 ^ ib + snd e.

Lemma skipn_flat_map {A} (f : A -> list Z) (n : nat) : (forall a, length (f a) = n) ->
  forall (l : list A) (k : nat), skipn (k * n) (flat_map f l) = flat_map f (skipn k l).
Proof.
  intros Hf l. induction l as [|a l IH]; intros k.
  - cbn. rewrite !skipn_nil. reflexivity.
  - destruct k as [|k]; [reflexivity|].
    cbn [flat_map skipn Nat.mul]. rewrite skipn_app, Hf.
    rewrite (skipn_all2 (f a)) by (rewrite Hf; lia). cbn [app].
    replace (n + k * n - n)%nat with (k * n)%nat by lia. apply IH.
Qed.

(* deltaset_index_map_get: unpacking inverts the packed representation for every entry format, and an index at
   or beyond the count yields the last entry *)
Lemma deltaset_index_map_get es ib (entries : list (Z * Z)) index :
  1 <= es <= 4 -> 1 <= ib <= 16 -> entries <> [] ->
  Forall (fun e => 0 <= fst e < 65536 /\ 0 <= snd e < 2 ^ ib /\ packed ib e < 256 ^ es) entries ->
  0 <= index ->
  dsim_get ((es - 1) * 16 + (ib - 1)) (Z.of_nat (length entries))
           (flat_map (fun e => to_be (Z.to_nat es) (packed ib e)) entries) index
  = Some (nth (Z.to_nat (Z.min index (Z.of_nat (length entries) - 1))) entries (0, 0)).
Proof.
  intros Hes Hib Hne HF Hidx.
  destruct (fmt_fields es ib Hes Hib) as [F1 [F2 F3]]. cbv zeta in F1, F2, F3.
  unfold dsim_get. rewrite F1, F2, F3.
  assert (Hlen : (0 < length entries)%nat) by (destruct entries; [congruence | cbn; lia]).
  set (k := Z.min index (Z.max 0 (Z.of_nat (length entries) - 1))).
  assert (Hk : k = Z.min index (Z.of_nat (length entries) - 1)) by lia.
  assert (Hk2 : 0 <= k < Z.of_nat (length entries)) by lia.
  set (f := fun e : Z * Z => to_be (Z.to_nat es) (packed ib e)).
  assert (Hf : forall a, length (f a) = Z.to_nat es) by (intros; apply to_be_length).
  unfold read_be_at.
  assert (Hflen : length (flat_map f entries) = (length entries * Z.to_nat es)%nat).
  { clear -Hf. induction entries as [|a l IH]; [reflexivity|]. cbn [flat_map length]. rewrite app_length, Hf, IH. lia. }
  replace (Z.to_nat (k * es)) with (Z.to_nat k * Z.to_nat es)%nat by nia.
  rewrite Hflen.
  replace (length entries * Z.to_nat es <? Z.to_nat k * Z.to_nat es + Z.to_nat es)%nat with false by nia.
  rewrite (skipn_flat_map f (Z.to_nat es) Hf).
  destruct (skipn (Z.to_nat k) entries) as [|e rest] eqn:Esk.
  { apply (f_equal (@length _)) in Esk. rewrite skipn_length in Esk. cbn in Esk. lia. }
  assert (Hnth : nth (Z.to_nat k) entries (0, 0) = e).
  { rewrite <- (firstn_skipn (Z.to_nat k) entries) at 1. rewrite Esk.
    rewrite app_nth2 by (rewrite firstn_length; lia). rewrite firstn_length.
    replace (Z.to_nat k - Nat.min (Z.to_nat k) (length entries))%nat with O by lia. reflexivity. }
  cbn [flat_map]. rewrite firstn_app, Hf. replace (Z.to_nat es - Z.to_nat es)%nat with O by lia.
  cbn [firstn]. rewrite app_nil_r. rewrite firstn_all2 by (rewrite Hf; lia).
  assert (He : 0 <= fst e < 65536 /\ 0 <= snd e < 2 ^ ib /\ packed ib e < 256 ^ es).
  { rewrite Forall_forall in HF. apply HF. rewrite <- Hnth. apply nth_In. lia. }
  destruct He as [Ho [Hi Hp]].
  assert (Hpow : 0 < 2 ^ ib) by (apply Z.pow_pos_nonneg; lia).
  unfold f. rewrite from_to_be.
  2:{ rewrite Z2Nat.id by lia. unfold packed in *. nia. }
  rewrite <- Hk, Hnth. f_equal. destruct e as [o i]. cbn [fst snd] in *. unfold packed. cbn [fst snd].
  f_equal.
  - rewrite Z.shiftr_div_pow2 by lia. rewrite Z.div_add_l by lia. rewrite Z.div_small by lia.
    unfold wrap_u. change (2 ^ 16) with 65536. rewrite Z.mod_small; lia.
  - replace (2 ^ ib - 1) with (Z.ones ib) by (rewrite Z.ones_equiv; lia).
    rewrite Z.land_ones by lia. rewrite Z.add_comm, Z.mod_add by lia. rewrite Z.mod_small by lia.
    unfold wrap_u. change (2 ^ 16) with 65536. rewrite Z.mod_small; [reflexivity|].
    assert (2 ^ ib <= 2 ^ 16) by (apply Z.pow_le_mono_r; lia). change (2 ^ 16) with 65536 in *. lia.
Qed.

(* ---- HVAR / skrifa glue ---- *)
Lemma metric_with_delta_spec base d : 0 <= base <= 65535 -> -32768 <= d <= 32767 ->
  metric_with_delta base (Ok d) = Some (base + d).
Proof.
  intros Hb Hd. unfold metric_with_delta. rewrite fixed_from_i32_spec by lia.
  rewrite Z.quot_mul by lia. unfold chk_s, in_s. change (2 ^ (32 - 1)) with 2147483648.
  destruct ((- (2147483648) <=? base + d) && (base + d <? 2147483648)) eqn:E; [reflexivity|lia].
Qed.
