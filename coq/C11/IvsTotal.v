(* C11 — VariationStoreBuilder::build never hits the `region_map[idx]` panic of make_region_list, and every merge
   schedule of Encoder::optimize yields a valid outcome (so ivs_retrieval applies to all of them). *)
From Coq Require Import ZArith Lia List Bool Permutation.
From Coq Require Import ZifyBool.
From FV Require Import Lib.RustInt C15.Model C15.Proofs C11.Model C11.IvsProofs C11.IvsRetrieval.
Import ListNotations.
Open Scope Z_scope.

Lemma map_opt_total {A B} (f : A -> option B) l : (forall x, In x l -> f x <> None) -> exists l', map_opt f l = Some l'.
Proof.
  induction l as [|a l IH]; intros H; [eexists; reflexivity|]. cbn [map_opt].
  destruct (f a) as [b|] eqn:E; [|exfalso; apply (H a); [left; reflexivity | exact E]].
  destruct IH as [l' ->]; [intros x Hx; apply H; right; exact Hx|]. eexists. reflexivity.
Qed.

Lemma active_cols_lt sh c : In c (active_cols sh) -> (c < length sh)%nat.
Proof.
  intros Hc. unfold active_cols in Hc.
  apply in_app_or in Hc as [Hc|Hc]; [|apply in_app_or in Hc as [Hc|Hc]]; apply cols_with_In in Hc; tauto.
Qed.

(* build_with_total: for encodings whose shapes have one entry per canonical region, build returns a store *)
Lemma build_with_total b encs : (forall e, In e encs -> length (fst e) = length (b_regions b)) ->
  exists st km, build_with b encs = Some (st, km).
Proof.
  intros Hlen. unfold build_with.
  set (chunked := split_encs encs). set (subs := map (encode_encoding (b_sets b)) chunked).
  set (kept := kept_regions (length (b_regions b)) (used_regions subs)).
  destruct (map_opt_total (renumber kept) subs) as [subs' E]; [|rewrite E; eauto].
  intros s Hs. unfold renumber. destruct s as [st|]; [|discriminate].
  destruct (map_opt_total (fun old => option_map Z.of_nat (pos_of (Z.to_nat old) kept)) (st_regions st)) as [ri Eri]; [|rewrite Eri; discriminate].
  intros old Hold.
  (* st comes from a chunk e' of an encoding e *)
  unfold subs in Hs. apply in_map_iff in Hs as [e' [He' Hin']].
  destruct (split_encs_In e' encs Hin') as [e [He [Hfst _]]].
  unfold encode_encoding in He'. destruct (snd e') as [|id0 ids0] eqn:Es; [discriminate|]. injection He' as <-.
  cbn [st_regions] in Hold. apply in_map_iff in Hold as [c [<- Hc]]. rewrite Nat2Z.id.
  assert (Hin_kept : In c kept).
  { unfold kept, kept_regions. apply filter_In. split.
    - apply in_seq. pose proof (active_cols_lt _ _ Hc). rewrite Hfst, (Hlen e He) in H. lia.
    - apply existsb_exists. exists (Z.of_nat c). split; [|apply Z.eqb_refl].
      unfold used_regions. apply in_flat_map. exists (encode_encoding (b_sets b) e'). split.
      + unfold subs. apply in_map. exact Hin'.
      + unfold encode_encoding. rewrite Es. cbn [st_regions]. apply in_map. exact Hc. }
  destruct (pos_of_In c kept Hin_kept) as [p ->]. discriminate.
Qed.

(* ---------- every merge schedule yields a valid optimiser outcome ---------- *)
Definition shape_vals (sh : list Z) : Prop := Forall (fun w => w = 0 \/ w = 1 \/ w = 2 \/ w = 4) sh.
Definition enc_ok (n : nat) (sets : list dset) (e : enc) : Prop :=
  length (fst e) = n /\ shape_vals (fst e) /\
  forall id, In id (snd e) -> 0 <= id /\ can_cover (fst e) (shape_of n (nth (Z.to_nat id) sets [])) = true.
Definition all_ids (sets : list dset) : list Z := map Z.of_nat (seq 0 (length sets)).
Definition encs_ok (n : nat) (sets : list dset) (encs : list enc) : Prop :=
  Forall (enc_ok n sets) encs /\ Permutation (flat_map snd encs) (all_ids sets).

Lemma zl_eqb_eq a : forall b, zl_eqb a b = true -> a = b.
Proof.
  induction a as [|x a IH]; intros [|y b] H; cbn [zl_eqb] in H; try discriminate; [reflexivity|].
  apply andb_true_iff in H as [H1 H2]. f_equal; [lia | apply IH; exact H2].
Qed.
Lemma can_cover_refl a : can_cover a a = true.
Proof. unfold can_cover. induction a as [|x a IH]; [reflexivity|]. cbn [combine forallb fst snd]. rewrite IH. rewrite andb_true_r. lia. Qed.

Lemma set_nth_vals n x l : (x = 0 \/ x = 1 \/ x = 2 \/ x = 4) -> shape_vals l -> shape_vals (set_nth n x l).
Proof.
  intros Hx. revert l. induction n as [|n IH]; intros [|y l] H; cbn [set_nth]; try constructor; inversion H; subst; auto.
  - apply IH. assumption.
Qed.
Lemma shape_of_vals n cs : shape_vals (shape_of n cs).
Proof.
  unfold shape_of.
  assert (H : forall sh, shape_vals sh -> shape_vals (fold_left (fun sh p => set_nth (Z.to_nat (fst p)) (for_val (snd p)) sh) cs sh)).
  { induction cs as [|p cs IH]; intros sh Hsh; [exact Hsh|]. cbn [fold_left]. apply IH. apply set_nth_vals; [apply for_val_cases | exact Hsh]. }
  apply H. unfold shape_vals. apply Forall_forall. intros x Hx. apply repeat_spec in Hx. lia.
Qed.

(* Encoder::new *)
Lemma group_insert_ok n sets sh id encs : Forall (enc_ok n sets) encs -> 0 <= id ->
  sh = shape_of n (nth (Z.to_nat id) sets []) ->
  Forall (enc_ok n sets) (group_insert sh id encs) /\ Permutation (flat_map snd (group_insert sh id encs)) (id :: flat_map snd encs).
Proof.
  intros Hok Hid Hsh. induction encs as [|e encs IH]; cbn [group_insert].
  - split.
    + constructor; [|constructor]. unfold enc_ok. cbn [fst snd]. subst sh. split; [apply shape_of_length|]. split; [apply shape_of_vals|].
      intros i [<-|[]]. split; [exact Hid | apply can_cover_refl].
    + cbn. reflexivity.
  - inversion Hok as [|? ? He Hrest]; subst. destruct (zl_eqb (fst e) (shape_of n (nth (Z.to_nat id) sets []))) eqn:E.
    + apply zl_eqb_eq in E. split.
      * constructor; [|exact Hrest]. destruct He as [H1 [H2 H3]]. unfold enc_ok. cbn [fst snd]. split; [exact H1|]. split; [exact H2|].
        intros i Hi. apply in_app_or in Hi as [Hi|[<-|[]]]; [apply H3; exact Hi|]. split; [exact Hid|]. rewrite E. apply can_cover_refl.
      * cbn [flat_map snd]. rewrite <- app_assoc. cbn [app]. symmetry. apply Permutation_middle.
    + destruct (IH Hrest) as [I1 I2]. split; [constructor; assumption|].
      cbn [flat_map]. rewrite I2. symmetry. apply Permutation_middle.
Qed.

Lemma initial_encs_from_ok n rest : forall pre acc,
  Forall (enc_ok n (pre ++ rest)) acc -> Permutation (flat_map snd acc) (all_ids pre) ->
  encs_ok n (pre ++ rest) (initial_encs_from n (Z.of_nat (length pre)) rest acc).
Proof.
  induction rest as [|s rest IH]; intros pre acc Hok Hperm; cbn [initial_encs_from].
  - rewrite app_nil_r in *. split; assumption.
  - replace (pre ++ s :: rest) with ((pre ++ [s]) ++ rest) in * by (rewrite <- app_assoc; reflexivity).
    replace (Z.of_nat (length pre) + 1) with (Z.of_nat (length (pre ++ [s]))) by (rewrite app_length; cbn; lia).
    destruct (group_insert_ok n ((pre ++ [s]) ++ rest) (shape_of n s) (Z.of_nat (length pre)) acc Hok ltac:(lia)) as [G1 G2].
    { rewrite Nat2Z.id. rewrite <- app_assoc. rewrite app_nth2 by lia. rewrite Nat.sub_diag. reflexivity. }
    apply IH; [exact G1|]. rewrite G2, Hperm. unfold all_ids. rewrite app_length. cbn [length].
    rewrite Nat.add_1_r, seq_S, map_app. cbn [map Nat.add]. apply Permutation_cons_append.
Qed.

Lemma initial_encs_ok b : encs_ok (length (b_regions b)) (b_sets b) (initial_encs b).
Proof.
  unfold initial_encs. apply (initial_encs_from_ok (length (b_regions b)) (b_sets b) [] []); [constructor | reflexivity].
Qed.

(* one merge step *)
Lemma remove_nth_perm {A} (l : list A) : forall i a, nth_error l i = Some a -> Permutation l (a :: remove_nth i l).
Proof.
  induction l as [|x l IH]; intros [|i] a H; cbn in H; try discriminate.
  - injection H as ->. reflexivity.
  - cbn [remove_nth]. rewrite (IH i a H) at 1. apply perm_swap.
Qed.
Lemma nth_error_remove_lt {A} (l : list A) : forall i j, (j < i)%nat -> nth_error (remove_nth i l) j = nth_error l j.
Proof.
  induction l as [|x l IH]; intros i j H; [destruct i, j; reflexivity|].
  destruct i as [|i]; [lia|]. destruct j as [|j]; [reflexivity|]. cbn. apply IH. lia.
Qed.

Lemma absorb_ok n sets m : forall encs m' rest', enc_ok n sets m -> Forall (enc_ok n sets) encs ->
  absorb m encs = (m', rest') ->
  enc_ok n sets m' /\ Forall (enc_ok n sets) rest' /\ Permutation (flat_map snd rest' ++ snd m') (flat_map snd encs ++ snd m).
Proof.
  induction encs as [|x encs IH]; intros m' rest' Hm Hok E; cbn [absorb] in E.
  - injection E as <- <-. split; [exact Hm | split; [constructor | reflexivity]].
  - inversion Hok as [|? ? Hx Hrest]; subst. destruct (zl_eqb (fst x) (fst m)) eqn:Ez.
    + injection E as <- <-. apply zl_eqb_eq in Ez. split; [|split; [exact Hrest|]].
      * destruct Hm as [H1 [H2 H3]], Hx as [X1 [X2 X3]]. unfold enc_ok. cbn [fst snd]. split; [exact H1|]. split; [exact H2|].
        intros id Hid. apply in_app_or in Hid as [Hid|Hid]; [apply H3; exact Hid|]. rewrite <- Ez. apply X3. exact Hid.
      * cbn [flat_map snd]. rewrite <- !app_assoc. rewrite (Permutation_app_comm (snd x) _). rewrite <- app_assoc. reflexivity.
    + destruct (absorb m encs) as [e' r'] eqn:Ea. injection E as <- <-.
      destruct (IH e' r' Hm Hrest eq_refl) as [I1 [I2 I3]]. split; [exact I1|]. split; [constructor; assumption|].
      cbn [flat_map]. rewrite <- !app_assoc. apply Permutation_app_head. exact I3.
Qed.

Lemma merge_enc_ok n sets a c : enc_ok n sets a -> enc_ok n sets c -> enc_ok n sets (shape_merge (fst a) (fst c), snd a ++ snd c).
Proof.
  intros [A1 [A2 A3]] [C1 [C2 C3]]. unfold enc_ok. cbn [fst snd].
  assert (Hl : length (shape_merge (fst a) (fst c)) = n).
  { unfold shape_merge. rewrite map_length, combine_length. lia. }
  split; [exact Hl|]. split; [apply merge_shape_values; assumption|].
  intros id Hid.
  assert (L1 : length (fst a) = length (fst c)) by congruence.
  assert (L2 : length (fst a) = length (shape_of n (nth (Z.to_nat id) sets []))) by (rewrite shape_of_length; exact A1).
  pose proof (merge_covers (fst a) (fst c) _ L1 L2) as [M1 M2].
  apply in_app_or in Hid as [Hid|Hid].
  - destruct (A3 id Hid) as [H0 Hc]. split; [exact H0 | apply M1; exact Hc].
  - destruct (C3 id Hid) as [H0 Hc]. split; [exact H0 | apply M2; exact Hc].
Qed.

Lemma merge_step_ok n sets encs ij : encs_ok n sets encs -> encs_ok n sets (merge_step encs ij).
Proof.
  intros [Hok Hperm]. destruct ij as [i j]. unfold merge_step.
  destruct (nth_error encs i) as [a|] eqn:Ei; [|split; assumption].
  destruct (nth_error encs j) as [c|] eqn:Ej; [|split; assumption].
  destruct (Nat.eqb_spec i j) as [->|Hne]; [split; assumption|].
  set (hi := Nat.max i j). set (lo := Nat.min i j).
  (* the element at hi and the one at lo, whichever is a / c *)
  assert (Hex : exists x y, nth_error encs hi = Some x /\ nth_error encs lo = Some y /\
                            ((x = a /\ y = c) \/ (x = c /\ y = a))).
  { destruct (Nat.lt_ge_cases i j).
    - exists c, a. subst hi lo. rewrite Nat.max_r, Nat.min_l by lia. tauto.
    - exists a, c. subst hi lo. rewrite Nat.max_l, Nat.min_r by lia. tauto. }
  destruct Hex as [x [y [Hx [Hy Hxy]]]].
  assert (Hlt : (lo < hi)%nat) by (subst lo hi; lia).
  pose proof (remove_nth_perm encs hi x Hx) as P1.
  assert (Hy' : nth_error (remove_nth hi encs) lo = Some y) by (rewrite nth_error_remove_lt by exact Hlt; exact Hy).
  pose proof (remove_nth_perm (remove_nth hi encs) lo y Hy') as P2.
  set (rest := remove_nth lo (remove_nth hi encs)) in *.
  assert (Pall : Permutation encs (x :: y :: rest)) by (rewrite P1 at 1; rewrite P2 at 1; reflexivity).
  assert (Hok' : Forall (enc_ok n sets) (x :: y :: rest)).
  { apply Forall_forall. intros e He. rewrite Forall_forall in Hok. apply Hok. eapply Permutation_in; [symmetry; exact Pall | exact He]. }
  inversion Hok' as [|? ? Hxo Hyr]; subst. inversion Hyr as [|? ? Hyo Hrest]; subst.
  assert (Ha : enc_ok n sets a /\ enc_ok n sets c) by (destruct Hxy as [[-> ->]|[-> ->]]; tauto).
  destruct Ha as [Ha Hc].
  pose proof (merge_enc_ok n sets a c Ha Hc) as Hm.
  destruct (absorb (shape_merge (fst a) (fst c), snd a ++ snd c) rest) as [m' rest'] eqn:Ea.
  destruct (absorb_ok n sets _ rest m' rest' Hm Hrest Ea) as [A1 [A2 A3]].
  split.
  - apply Forall_app. split; [exact A2 | constructor; [exact A1 | constructor]].
  - rewrite flat_map_app. cbn [flat_map]. rewrite app_nil_r. rewrite A3. cbn [snd].
    rewrite <- Hperm. rewrite (Permutation_flat_map snd Pall). cbn [flat_map].
    destruct Hxy as [[-> ->]|[-> ->]].
    + rewrite Permutation_app_comm. rewrite <- app_assoc. reflexivity.
    + rewrite Permutation_app_comm. rewrite <- app_assoc. apply Permutation_app_swap_app.
Qed.

Lemma run_schedule_ok n sets sched : forall encs, encs_ok n sets encs -> encs_ok n sets (run_schedule encs sched).
Proof.
  unfold run_schedule. induction sched as [|ij sched IH]; intros encs H; [exact H|]. cbn [fold_left]. apply IH. apply merge_step_ok. exact H.
Qed.

Lemma encs_ok_valid b encs : encs_ok (length (b_regions b)) (b_sets b) encs ->
  Z.of_nat (length (split_encs encs)) <= 65536 -> valid_encs b encs.
Proof.
  intros [Hok Hperm] Hcount. unfold valid_encs. cbv zeta. split; [|split; [|split; [|exact Hcount]]].
  - intros e He. rewrite Forall_forall in Hok. apply (Hok e He).
  - eapply Permutation_NoDup; [symmetry; exact Hperm|]. unfold all_ids.
    apply FinFun.Injective_map_NoDup; [intros x y H; lia | apply seq_NoDup].
  - intros id Hid. eapply Permutation_in; [symmetry; exact Hperm|]. unfold all_ids.
    apply in_map_iff. exists (Z.to_nat id). split; [lia | apply in_seq; lia].
Qed.

(* ivs_retrieval for EVERY merge schedule of the optimiser, starting from Encoder::new's grouping by shape *)
Theorem ivs_retrieval_every_schedule inputs direct sched b ids st km :
  add_all (builder_new direct) inputs = (b, ids) ->
  wf_inputs inputs ->
  Z.of_nat (length (b_regions b)) <= 65536 ->
  Z.of_nat (length (split_encs (run_schedule (initial_encs b) sched))) <= 65536 ->
  build_with b (run_schedule (initial_encs b) sched) = Some (st, km) ->
  forall k ds id r, nth_error inputs k = Some ds -> nth_error ids k = Some id ->
    row_delta st (remap_get km id None) r = Some (input_delta ds r).
Proof.
  intros Hadd Hwf Hregs Hcount Hbuild. eapply ivs_retrieval; try eassumption.
  apply encs_ok_valid; [|exact Hcount]. apply run_schedule_ok. apply initial_encs_ok.
Qed.

(* and build never panics on such an outcome *)
Lemma build_schedule_total b sched : exists st km, build_with b (run_schedule (initial_encs b) sched) = Some (st, km).
Proof.
  apply build_with_total. intros e He.
  destruct (run_schedule_ok _ _ sched _ (initial_encs_ok b)) as [Hok _]. rewrite Forall_forall in Hok. apply (Hok e He).
Qed.
