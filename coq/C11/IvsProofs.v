(* C11 — lemmas about the VariationStoreBuilder model (Model.v section 3). *)
From Coq Require Import ZArith Lia List Bool.
From Coq Require Import ZifyBool.
From FV Require Import Lib.RustInt C15.Model C15.Proofs C11.Model.
Import ListNotations.
Open Scope Z_scope.
Ltac Zify.zify_post_hook ::= Z.div_mod_to_equations.

(* narrowing_lossless: a value classified by ColumnBits::for_val as fitting a column of w bytes survives the
   `as i8` / `as i16` narrowing and the sign-extending read *)
Lemma narrowing_lossless v bits : i32 v -> (bits = 8 \/ bits = 16 \/ bits = 32) -> 8 * for_val v <= bits ->
  wrap_s bits v = v.
Proof.
  intros Hv Hbits Hf. unfold for_val, i32 in *. apply wrap_s_id; [lia|].
  destruct (v =? 0) eqn:E0.
  { assert (v = 0) by lia. subst v. destruct Hbits as [-> | [-> | ->]]; cbn; lia. }
  destruct ((-128 <=? v) && (v <=? 127)) eqn:E1.
  { destruct Hbits as [-> | [-> | ->]]; cbn; lia. }
  destruct ((-32768 <=? v) && (v <=? 32767)) eqn:E2.
  { destruct Hbits as [-> | [-> | ->]]; cbn; lia. }
  destruct Hbits as [-> | [-> | ->]]; cbn; lia.
Qed.
