(* C11 — avar_monotone_if_map_monotone: SegmentMaps::apply (as implemented, with the Fixed mul_div rounding) is
   monotone when the segment map is, and so is the whole user -> F2Dot14 pipeline of Fvar::user_to_normalized. *)
From Coq Require Import ZArith Lia List Bool.
From Coq Require Import ZifyBool.
From FV Require Import Lib.RustInt C15.Model C15.Proofs C11.Model C11.NormProofs.
Import ListNotations.
Open Scope Z_scope.
Ltac Zify.zify_post_hook ::= Z.div_mod_to_equations.

(* one interpolation step, all wrapping +/- exact *)
Lemma interp_exact pf pt f t c : i16 pf -> i16 pt -> i16 f -> i16 t -> fx4 pf < c -> c < fx4 f ->
  fx_add 32 (f2dot14_to_fixed pt)
    (fixed_mul_div (fx_sub 32 (f2dot14_to_fixed t) (f2dot14_to_fixed pt)) (fx_sub 32 c (f2dot14_to_fixed pf))
                   (fx_sub 32 (f2dot14_to_fixed f) (f2dot14_to_fixed pf)))
  = fx4 pt + rha ((fx4 t - fx4 pt) * (c - fx4 pf)) (fx4 f - fx4 pf).
Proof.
  intros Hpf Hpt Hf Ht Hlo Hhi. unfold f2dot14_to_fixed, fx4, i16 in *. unfold fx_sub, fx_add.
  rewrite (wrap_s32_id (t * 4 - pt * 4)) by (unfold i32; lia).
  rewrite (wrap_s32_id (c - pf * 4)) by (unfold i32; lia).
  rewrite (wrap_s32_id (f * 4 - pf * 4)) by (unfold i32; lia).
  set (d := t * 4 - pt * 4). set (x := c - pf * 4). set (y := f * 4 - pf * 4).
  assert (Hx : 0 < x < y) by (subst x y; lia).
  assert (Hd : -262140 <= d <= 262140) by (subst d; lia).
  pose proof (rha_scale_bound d x y Hx) as Hr.
  rewrite fixed_mul_div_spec; unfold i32; try lia.
  apply wrap_s32_id. unfold i32. lia.
Qed.

(* rha (d * x) y for d >= 0 is monotone in x and stays in [0, d] on 0 <= x <= y *)
Lemma rha_mono_x d x1 x2 y : 0 <= d -> 0 <= x1 -> x1 <= x2 -> 0 < y -> rha (d * x1) y <= rha (d * x2) y.
Proof.
  intros Hd H1 H12 Hy. assert (0 <= d * x1) by nia. assert (d * x1 <= d * x2) by nia.
  rewrite !rha_pos by lia. apply Z.div_le_mono; lia.
Qed.
Lemma rha_unit_range d x y : 0 <= d -> 0 < x < y -> 0 <= rha (d * x) y <= d.
Proof. intros Hd Hx. pose proof (rha_scale_bound d x y Hx). assert (0 <= d * x) by nia. rewrite rha_pos in * by lia.
  split; [apply Z.div_pos; lia | lia]. Qed.

(* a monotone segment map seen from the previous point: from strictly increasing, to non-decreasing, all i16 *)
Fixpoint mono_from (prev : Z * Z) (rest : list (Z * Z)) : Prop :=
  match rest with
  | [] => True
  | (f, t) :: r => fst prev < f /\ snd prev <= t /\ i16 f /\ i16 t /\ mono_from (f, t) r
  end.

Lemma last_nonempty_default {A} (b : A) l d d' : last (b :: l) d = last (b :: l) d'.
Proof. revert b. induction l as [|c l IH]; intros b; [reflexivity|]. cbn [last] in *. apply IH. Qed.
Lemma last_cons {A} (a : A) l d : last (a :: l) d = last l a.
Proof. destruct l as [|b l]; [reflexivity|]. cbn [last]. apply last_nonempty_default. Qed.

(* scanning after at least one point has been passed *)
Lemma scan_lower rest : forall prev c, i16 (fst prev) -> i16 (snd prev) -> mono_from prev rest ->
  snd (last rest prev) <= fst (last rest prev) -> fx4 (fst prev) < c ->
  fx4 (snd prev) <= avar_scan rest false prev c.
Proof.
  induction rest as [|[f t] rest IH]; intros [pf pt] c Hpf Hpt Hm Hlast Hc; cbn [fst snd] in *.
  - cbn [avar_scan last] in *. cbn [fst snd] in Hlast. unfold fx4 in *. lia.
  - destruct Hm as [Hf [Ht [Hf16 [Ht16 Hm]]]]. cbn [fst snd] in *. rewrite last_cons in Hlast.
    cbn [avar_scan].
    destruct (f2dot14_to_fixed f =? c) eqn:E1; [unfold f2dot14_to_fixed, fx4 in *; lia|].
    destruct (c <? f2dot14_to_fixed f) eqn:E2.
    + cbn [fst snd]. rewrite interp_exact by (try assumption; unfold f2dot14_to_fixed, fx4 in *; lia).
      pose proof (rha_unit_range (fx4 t - fx4 pt) (c - fx4 pf) (fx4 f - fx4 pf)) as HR. unfold fx4, f2dot14_to_fixed in *. lia.
    + specialize (IH (f, t) c Hf16 Ht16 Hm Hlast). cbn [fst snd] in IH. unfold fx4, f2dot14_to_fixed in *. lia.
Qed.

Ltac U := unfold f2dot14_to_fixed, fx4 in *.

Lemma scan_mono rest : forall prev c1 c2, i16 (fst prev) -> i16 (snd prev) -> mono_from prev rest ->
  snd (last rest prev) <= fst (last rest prev) -> fx4 (fst prev) < c1 -> c1 <= c2 ->
  avar_scan rest false prev c1 <= avar_scan rest false prev c2.
Proof.
  induction rest as [|[f t] rest IH]; intros [pf pt] c1 c2 Hpf Hpt Hm Hlast Hc1 Hc12; cbn [fst snd] in *.
  - cbn [avar_scan]. exact Hc12.
  - destruct Hm as [Hf [Ht [Hf16 [Ht16 Hm]]]]. cbn [fst snd] in *. rewrite last_cons in Hlast.
    pose proof (scan_lower rest (f, t)) as HL. cbn [fst snd] in HL.
    cbn [avar_scan fst snd].
    destruct (f2dot14_to_fixed f =? c1) eqn:A1; destruct (f2dot14_to_fixed f =? c2) eqn:A2.
    + lia.
    + replace (c2 <? f2dot14_to_fixed f) with false by lia. specialize (HL c2 Hf16 Ht16 Hm Hlast). U. lia.
    + replace (c1 <? f2dot14_to_fixed f) with true by lia.
      rewrite interp_exact by (try assumption; U; lia).
      pose proof (rha_unit_range (fx4 t - fx4 pt) (c1 - fx4 pf) (fx4 f - fx4 pf)) as HR. U. lia.
    + destruct (c1 <? f2dot14_to_fixed f) eqn:B1; destruct (c2 <? f2dot14_to_fixed f) eqn:B2.
      * rewrite !interp_exact by (try assumption; U; lia).
        pose proof (rha_mono_x (fx4 t - fx4 pt) (c1 - fx4 pf) (c2 - fx4 pf) (fx4 f - fx4 pf)) as HM. U. lia.
      * rewrite interp_exact by (try assumption; U; lia).
        pose proof (rha_unit_range (fx4 t - fx4 pt) (c1 - fx4 pf) (fx4 f - fx4 pf)) as HR.
        specialize (HL c2 Hf16 Ht16 Hm Hlast). U. lia.
      * lia.
      * apply (IH (f, t)); cbn [fst snd]; try assumption; U; lia.
Qed.

(* a monotone map: non-empty, points (from strictly increasing, to non-decreasing), and — because the function is the
   identity outside the map — the first point not below the diagonal and the last not above it (the required
   (-1,-1) and (1,1) end points satisfy both with equality) *)
Definition monotone_map (maps : list (Z * Z)) : Prop :=
  match maps with
  | [] => True
  | (f, t) :: rest => i16 f /\ i16 t /\ mono_from (f, t) rest /\ f <= t /\ snd (last rest (f, t)) <= fst (last rest (f, t))
  end.

Lemma avar_monotone_if_map_monotone maps c1 c2 : monotone_map maps -> c1 <= c2 ->
  avar_apply maps c1 <= avar_apply maps c2.
Proof.
  intros Hm Hc. unfold avar_apply. destruct maps as [|[f t] rest]; [exact Hc|].
  destruct Hm as [Hf [Ht [Hmono [Hft Hlast]]]].
  pose proof (scan_lower rest (f, t)) as HL. pose proof (scan_mono rest (f, t)) as HM. cbn [fst snd] in HL, HM.
  cbn [avar_scan].
  destruct (f2dot14_to_fixed f =? c1) eqn:A1; destruct (f2dot14_to_fixed f =? c2) eqn:A2.
  - lia.
  - replace (c2 <? f2dot14_to_fixed f) with false by lia. specialize (HL c2 Hf Ht Hmono Hlast). U. lia.
  - replace (c1 <? f2dot14_to_fixed f) with true by lia. U. lia.
  - destruct (c1 <? f2dot14_to_fixed f) eqn:B1; destruct (c2 <? f2dot14_to_fixed f) eqn:B2.
    + exact Hc.
    + specialize (HL c2 Hf Ht Hmono Hlast). U. lia.
    + lia.
    + apply HM; try assumption; U; lia.
Qed.

(* the result of a monotone map on [-1, 1] stays between its first and last `to` values (or the coordinate) *)
Lemma scan_upper rest : forall prev c, i16 (fst prev) -> i16 (snd prev) -> mono_from prev rest -> fx4 (fst prev) < c ->
  avar_scan rest false prev c <= Z.max c (fx4 (snd (last rest prev))).
Proof.
  induction rest as [|[f t] rest IH]; intros [pf pt] c Hpf Hpt Hm Hc; cbn [fst snd] in *.
  - cbn [avar_scan]. lia.
  - destruct Hm as [Hf [Ht [Hf16 [Ht16 Hm]]]]. cbn [fst snd] in *. rewrite last_cons.
    assert (Hmono_last : forall r p, mono_from p r -> snd p <= snd (last r p)).
    { clear. induction r as [|[f t] r IH]; intros p H; [cbn; lia|]. destruct H as [_ [H2 [_ [_ H5]]]]. rewrite last_cons.
      specialize (IH (f, t) H5). cbn [snd] in *. lia. }
    pose proof (Hmono_last rest (f, t) Hm) as Hl. cbn [snd] in Hl.
    cbn [avar_scan].
    destruct (f2dot14_to_fixed f =? c) eqn:E1; [unfold f2dot14_to_fixed, fx4 in *; lia|].
    destruct (c <? f2dot14_to_fixed f) eqn:E2.
    + cbn [fst snd]. rewrite interp_exact by (try assumption; unfold f2dot14_to_fixed, fx4 in *; lia).
      pose proof (rha_unit_range (fx4 t - fx4 pt) (c - fx4 pf) (fx4 f - fx4 pf)) as HR. unfold fx4, f2dot14_to_fixed in *. lia.
    + apply (IH (f, t)); cbn [fst snd]; try assumption. unfold fx4, f2dot14_to_fixed in *. lia.
Qed.

(* Fixed::to_f2dot14 is monotone where it does not wrap *)
Lemma to_f2dot14_mono x y : -131074 <= x -> x <= y -> y <= 131069 -> fixed_to_f2dot14 x <= fixed_to_f2dot14 y.
Proof. intros. rewrite !fixed_to_f2dot14_in_range by lia. apply Z.div_le_mono; lia. Qed.

(* the whole pipeline of Fvar::user_to_normalized for one axis is monotone in the user coordinate *)
Lemma user_to_normalized_monotone mn df mx maps u1 u2 r1 r2 :
  i32 mn -> i32 df -> i32 mx -> i32 u1 -> i32 u2 -> u1 <= u2 ->
  match maps with Some m => monotone_map m | None => True end ->
  user_to_normalized1 mn df mx maps u1 = Some r1 -> user_to_normalized1 mn df mx maps u2 = Some r2 -> r1 <= r2.
Proof.
  intros Hmn Hdf Hmx H1 H2 Hle Hmap E1 E2. unfold user_to_normalized1 in *.
  destruct (normalize_range mn df mx u1 Hmn Hdf Hmx H1) as [n1 [N1 R1]].
  destruct (normalize_range mn df mx u2 Hmn Hdf Hmx H2) as [n2 [N2 R2]].
  rewrite N1 in E1. rewrite N2 in E2. cbn [obind] in E1, E2. injection E1 as <-. injection E2 as <-.
  pose proof (normalize_monotone mn df mx u1 u2 n1 n2 Hmn Hdf Hmx H1 H2 Hle N1 N2) as Hn.
  destruct maps as [m|]; [|apply to_f2dot14_mono; lia].
  pose proof (avar_monotone_if_map_monotone m n1 n2 Hmap Hn) as Hav.
  (* range of the mapped values *)
  assert (Hrange : forall c, -65536 <= c <= 65536 -> -131072 <= avar_apply m c <= 131068).
  { intros c Hc. unfold avar_apply. destruct m as [|[f t] rest]; [cbn; lia|].
    destruct Hmap as [Hf [Ht [Hmono [Hft Hlast]]]].
    pose proof (scan_lower rest (f, t) c Hf Ht Hmono Hlast) as HL. pose proof (scan_upper rest (f, t) c Hf Ht Hmono) as HU.
    cbn [fst snd] in HL, HU.
    assert (Hl16 : i16 (snd (last rest (f, t)))).
    { clear -Ht Hmono. revert f t Ht Hmono. induction rest as [|[f' t'] r IH]; intros f t Ht Hm; [exact Ht|].
      rewrite last_cons. destruct Hm as [_ [_ [_ [Ht' Hm]]]]. apply (IH f' t' Ht' Hm). }
    cbn [avar_scan].
    destruct (f2dot14_to_fixed f =? c) eqn:A; [unfold f2dot14_to_fixed, i16 in *; lia|].
    destruct (c <? f2dot14_to_fixed f) eqn:B; [lia|]. unfold f2dot14_to_fixed, fx4, i16 in *. lia. }
  pose proof (Hrange n1 R1). pose proof (Hrange n2 R2). apply to_f2dot14_mono; lia.
Qed.
