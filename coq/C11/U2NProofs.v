(* C11 — Fvar::user_to_normalized over all axes with the caller's output slice: the result does not depend on what the
   slice held before; an axis no setting mentions is 0; excess entries are 0; the last setting of a tag wins. *)
From Coq Require Import ZArith Lia List Bool.
From Coq Require Import ZifyBool.
From FV Require Import Lib.RustInt C15.Model C15.Proofs C11.Model C11.NormProofs.
Import ListNotations.
Open Scope Z_scope.

Definition tag_of (a : axis_rec) : Z := let '(t, _, _, _) := a in t.

Lemma set_at_length n x : forall l, length (set_at n x l) = length l.
Proof. induction n as [|n IH]; intros [|y l]; cbn; auto. Qed.
Lemma nth_set_at n x : forall l c, nth c (set_at n x l) 0 = if (Nat.eqb n c) && (n <? length l)%nat then x else nth c l 0.
Proof.
  induction n as [|n IH]; intros [|y l] c; cbn [set_at length].
  - rewrite andb_false_r. reflexivity.
  - destruct c; reflexivity.
  - rewrite andb_false_r. reflexivity.
  - destruct c as [|c]; [reflexivity|]. cbn [nth]. rewrite IH. cbn [Nat.eqb]. reflexivity.
Qed.

(* normalize_ignores_buffer: only the LENGTH of the caller's slice matters, never its previous content *)
Lemma normalize_ignores_buffer axes maps settings buf buf' : length buf = length buf' ->
  user_to_normalized axes maps settings buf = user_to_normalized axes maps settings buf'.
Proof. intros H. unfold user_to_normalized. rewrite H. reflexivity. Qed.

(* one setting touches exactly the in-range entries of the axes carrying its tag *)
Lemma apply_setting_spec axes maps tag v : forall i0 buf buf', apply_setting axes maps i0 tag v buf = Some buf' ->
  length buf' = length buf /\
  forall j, (j < i0)%nat \/ (i0 + length axes <= j)%nat \/ tag_of (nth (j - i0) axes (0, 0, 0, 0)) <> tag ->
            nth j buf' 0 = nth j buf 0.
Proof.
  induction axes as [|[[[t mn] df] mx] rest IH]; intros i0 buf buf' H; cbn [apply_setting] in H.
  - injection H as <-. split; reflexivity.
  - destruct ((t =? tag) && (i0 <? length buf)%nat) eqn:E.
    + destruct (user_to_normalized1 mn df mx (map_for maps i0) v) as [c|]; [|discriminate]. cbn [obind] in H.
      destruct (IH (S i0) _ _ H) as [L N]. rewrite set_at_length in L. split; [exact L|].
      intros j Hj. rewrite N.
      * rewrite nth_set_at. destruct (Nat.eqb_spec i0 j) as [->|Hne]; [|reflexivity].
        exfalso. destruct Hj as [Hj|[Hj|Hj]]; [lia | cbn [length] in Hj; lia|].
        rewrite Nat.sub_diag in Hj. cbn [nth tag_of] in Hj. lia.
      * destruct Hj as [Hj|[Hj|Hj]]; [left; lia | right; left; cbn [length] in Hj; lia|].
        destruct (Nat.eq_dec j i0) as [->|Hne]; [left; lia|].
        destruct (Nat.lt_ge_cases j i0); [left; lia|]. right; right.
        replace (j - i0)%nat with (S (j - S i0)) in Hj by lia. exact Hj.
    + destruct (IH (S i0) _ _ H) as [L N]. split; [exact L|].
      intros j Hj. apply N.
      destruct Hj as [Hj|[Hj|Hj]]; [|right; left; cbn [length] in Hj; lia|].
      * destruct (Nat.eq_dec j i0); [|left; lia]. left. lia.
      * destruct (Nat.lt_ge_cases j (S i0)); [left; lia|]. right; right.
        replace (j - i0)%nat with (S (j - S i0)) in Hj by lia. exact Hj.
Qed.

Lemma apply_settings_spec axes maps settings : forall buf out, apply_settings axes maps settings buf = Some out ->
  length out = length buf /\
  forall j, (length axes <= j)%nat \/ (forall s, In s settings -> fst s <> tag_of (nth j axes (0, 0, 0, 0))) ->
            nth j out 0 = nth j buf 0.
Proof.
  induction settings as [|[tag v] settings IH]; intros buf out H; cbn [apply_settings] in H.
  - injection H as <-. split; reflexivity.
  - destruct (apply_setting axes maps 0 tag v buf) as [b|] eqn:E; [|discriminate]. cbn [obind] in H.
    destruct (apply_setting_spec _ _ _ _ _ _ _ E) as [L1 N1]. destruct (IH _ _ H) as [L2 N2].
    split; [congruence|]. intros j Hj. rewrite N2.
    + apply N1. destruct Hj as [Hj|Hj]; [right; left; lia|]. right; right. rewrite Nat.sub_0_r.
      intros Heq. apply (Hj (tag, v)); [left; reflexivity | cbn [fst]; congruence].
    + destruct Hj as [Hj|Hj]; [left; exact Hj|]. right. intros s Hs. apply Hj. right. exact Hs.
Qed.

(* normalize_unset_axis_default: an axis that no setting mentions — and every entry beyond the axis count — is 0
   (the default location), whatever the slice held on entry *)
Lemma normalize_unset_axis_default axes maps settings buf out j :
  user_to_normalized axes maps settings buf = Some out ->
  (length axes <= j)%nat \/ (forall s, In s settings -> fst s <> tag_of (nth j axes (0, 0, 0, 0))) ->
  length out = length buf /\ nth j out 0 = 0.
Proof.
  intros H Hj. unfold user_to_normalized in H. destruct (apply_settings_spec _ _ _ _ _ H) as [L N].
  rewrite repeat_length in L. split; [exact L|]. rewrite (N j Hj). rewrite nth_repeat. reflexivity.
Qed.

(* user_to_normalized never panics (normalize does not) *)
Lemma apply_setting_total axes maps tag v : i32 v -> Forall (fun a => let '(_, mn, df, mx) := a in i32 mn /\ i32 df /\ i32 mx) axes ->
  forall i0 buf, exists buf', apply_setting axes maps i0 tag v buf = Some buf'.
Proof.
  intros Hv. induction axes as [|[[[t mn] df] mx] rest IH]; intros HF i0 buf; cbn [apply_setting]; [eauto|].
  inversion HF as [|? ? Hh HF']; subst. cbn beta iota in Hh. destruct Hh as [H1 [H2 H3]].
  destruct ((t =? tag) && (i0 <? length buf)%nat); [|apply IH; exact HF'].
  unfold user_to_normalized1. destruct (normalize_range mn df mx v H1 H2 H3 Hv) as [r [-> _]]. cbn [obind]. apply IH. exact HF'.
Qed.
Lemma user_to_normalized_total axes maps settings buf :
  Forall (fun a => let '(_, mn, df, mx) := a in i32 mn /\ i32 df /\ i32 mx) axes -> Forall (fun s => i32 (snd s)) settings ->
  exists out, user_to_normalized axes maps settings buf = Some out.
Proof.
  intros HA HS. unfold user_to_normalized. generalize (repeat 0 (length buf)) as b.
  induction settings as [|[tag v] settings IH]; intros b; cbn [apply_settings]; [eauto|].
  inversion HS as [|? ? Hv HS']; subst. cbn [snd] in Hv.
  destruct (apply_setting_total axes maps tag v Hv HA 0%nat b) as [b' ->]. cbn [obind]. apply IH. exact HS'.
Qed.

(* a single axis with a single setting of its tag: exactly the one-axis pipeline *)
Lemma user_to_normalized_single t mn df mx maps v old :
  user_to_normalized [(t, mn, df, mx)] maps [(t, v)] [old]
  = match user_to_normalized1 mn df mx (map_for maps 0) v with Some c => Some [c] | None => None end.
Proof.
  unfold user_to_normalized. cbn [length repeat apply_settings apply_setting].
  rewrite Z.eqb_refl. cbn [andb Nat.ltb Nat.leb length].
  destruct (user_to_normalized1 mn df mx (map_for maps 0) v); reflexivity.
Qed.
