(* C11 — the retrieval theorem for the VariationStoreBuilder model (Model.v section 3). *)
From Coq Require Import ZArith Lia List Bool Permutation.
From Coq Require Import ZifyBool.
From FV Require Import Lib.RustInt C15.Model C15.Proofs C11.Model C11.IvsProofs.
Import ListNotations.
Open Scope Z_scope.
Ltac Zify.zify_post_hook ::= Z.div_mod_to_equations.

(* ---------- boolean equalities reflect equality ---------- *)
Lemma axis_eqb_eq a b : axis_eqb a b = true <-> a = b.
Proof.
  destruct a as [[a1 a2] a3], b as [[b1 b2] b3]. unfold axis_eqb. split.
  - intros H. assert (a1 = b1 /\ a2 = b2 /\ a3 = b3) as [-> [-> ->]] by lia. reflexivity.
  - intros H. injection H as -> -> ->. rewrite !Z.eqb_refl. reflexivity.
Qed.
Lemma region_eqb_eq a : forall b, region_eqb a b = true <-> a = b.
Proof.
  induction a as [|x a IH]; intros [|y b]; cbn [region_eqb]; split; intros H; try reflexivity; try discriminate.
  - apply andb_true_iff in H as [H1 H2]. apply axis_eqb_eq in H1. apply IH in H2. subst. reflexivity.
  - injection H as -> ->. apply andb_true_iff. split; [apply axis_eqb_eq | apply IH]; reflexivity.
Qed.
Lemma region_eqb_refl a : region_eqb a a = true.
Proof. apply region_eqb_eq. reflexivity. Qed.
Lemma region_eqb_neq a b : a <> b -> region_eqb a b = false.
Proof. intros H. destruct (region_eqb a b) eqn:E; [apply region_eqb_eq in E; contradiction | reflexivity]. Qed.

Lemma dset_eqb_eq a : forall b, dset_eqb a b = true <-> a = b.
Proof.
  induction a as [|[x1 x2] a IH]; intros [|[y1 y2] b]; cbn [dset_eqb]; split; intros H; try reflexivity; try discriminate.
  - apply andb_true_iff in H as [H1 H2]. unfold pair_eqb in H1. cbn [fst snd] in H1.
    apply IH in H2. assert (x1 = y1 /\ x2 = y2) as [-> ->] by lia. subst. reflexivity.
  - injection H as -> -> ->. apply andb_true_iff. split; [unfold pair_eqb; cbn [fst snd]; lia | apply IH; reflexivity].
Qed.

(* ---------- index_of / canonical region indices ---------- *)
Lemma index_of_Some r l : forall i, index_of r l = Some i -> nth_error l i = Some r.
Proof.
  induction l as [|x l IH]; intros i H; cbn [index_of] in H; [discriminate|].
  destruct (region_eqb x r) eqn:E.
  - injection H as <-. apply region_eqb_eq in E. subst. reflexivity.
  - destruct (index_of r l) as [j|]; [|discriminate]. injection H as <-. cbn. apply IH. reflexivity.
Qed.
Lemma index_of_None r l : index_of r l = None -> ~ In r l.
Proof.
  induction l as [|x l IH]; intros H; cbn [index_of] in H; [intros []|].
  destruct (region_eqb x r) eqn:E; [discriminate|].
  destruct (index_of r l) eqn:E2; [discriminate|]. intros [->|Hin].
  - rewrite region_eqb_refl in E. discriminate.
  - apply IH; [reflexivity | exact Hin].
Qed.
Lemma index_of_app r l m : forall i, index_of r l = Some i -> index_of r (l ++ m) = Some i.
Proof.
  induction l as [|x l IH]; intros i H; cbn [index_of app] in *; [discriminate|].
  destruct (region_eqb x r); [exact H|].
  destruct (index_of r l) as [j|]; [|discriminate]. rewrite (IH j eq_refl). exact H.
Qed.
Lemma index_of_nth l : NoDup l -> forall i r, nth_error l i = Some r -> index_of r l = Some i.
Proof.
  induction 1 as [|x l Hx Hnd IH]; intros i r H; [destruct i; discriminate|].
  destruct i as [|i]; cbn in H.
  - injection H as ->. cbn [index_of]. rewrite region_eqb_refl. reflexivity.
  - cbn [index_of]. assert (x <> r) by (intros ->; apply Hx; eapply nth_error_In; exact H).
    rewrite region_eqb_neq by assumption. rewrite (IH i r H). reflexivity.
Qed.
Lemma index_of_In r l : In r l -> exists i, index_of r l = Some i.
Proof. intros H. destruct (index_of r l) eqn:E; [eauto | apply index_of_None in E; contradiction]. Qed.

Definition idx (regs : list region) (r : region) : nat := match index_of r regs with Some i => i | None => O end.
Definition extends {A} (l l' : list A) : Prop := exists m, l' = l ++ m.
Lemma extends_refl {A} (l : list A) : extends l l. Proof. exists []. rewrite app_nil_r. reflexivity. Qed.
Lemma extends_trans {A} (a b c : list A) : extends a b -> extends b c -> extends a c.
Proof. intros [m ->] [m' ->]. exists (m ++ m'). rewrite app_assoc. reflexivity. Qed.
Lemma idx_extends regs regs' r : extends regs regs' -> In r regs -> idx regs' r = idx regs r.
Proof.
  intros [m ->] Hin. unfold idx. destruct (index_of_In r regs Hin) as [i E]. rewrite E, (index_of_app _ _ m i E). reflexivity.
Qed.
Lemma extends_In {A} (l l' : list A) x : extends l l' -> In x l -> In x l'.
Proof. intros [m ->] H. apply in_or_app. left. exact H. Qed.
Lemma extends_nth_error {A} (l l' : list A) i x : extends l l' -> nth_error l i = Some x -> nth_error l' i = Some x.
Proof. intros [m ->] H. rewrite nth_error_app1; [exact H | apply nth_error_Some; congruence]. Qed.

Lemma NoDup_snoc {A} (l : list A) x : NoDup l -> ~ In x l -> NoDup (l ++ [x]).
Proof.
  intros Hnd Hx. apply (Permutation_NoDup (Permutation_cons_append l x)). constructor; assumption.
Qed.

Definition raw_of (regs : list region) (ds : list (region * Z)) : dset :=
  map (fun rd => (wrap_u 16 (Z.of_nat (idx regs (fst rd))), snd rd)) ds.

Lemma canon_spec regs r regs1 i : canon regs r = (regs1, i) -> NoDup regs ->
  NoDup regs1 /\ extends regs regs1 /\ index_of r regs1 = Some i.
Proof.
  unfold canon. intros H Hnd. destruct (index_of r regs) as [j|] eqn:E; injection H as <- <-.
  - split; [exact Hnd|]. split; [apply extends_refl | exact E].
  - split; [|split; [exists [r]; reflexivity|]].
    + apply NoDup_snoc; [exact Hnd | apply index_of_None; exact E].
    + apply index_of_nth.
      * apply NoDup_snoc; [exact Hnd | apply index_of_None; exact E].
      * rewrite nth_error_app2 by lia. rewrite Nat.sub_diag. reflexivity.
Qed.

Lemma canon_all_spec ds : forall regs regs' raw, canon_all regs ds = (regs', raw) -> NoDup regs ->
  NoDup regs' /\ extends regs regs' /\ raw = raw_of regs' ds /\ (forall rd, In rd ds -> In (fst rd) regs').
Proof.
  induction ds as [|[r d] ds IH]; intros regs regs' raw H Hnd; cbn [canon_all] in H.
  - injection H as <- <-. repeat split; auto using extends_refl. intros rd [].
  - destruct (canon regs r) as [regs1 i] eqn:Ec. destruct (canon_all regs1 ds) as [regs2 out] eqn:Ea.
    injection H as <- <-.
    destruct (canon_spec _ _ _ _ Ec Hnd) as [Hnd1 [Hext1 Hidx]].
    destruct (IH _ _ _ Ea Hnd1) as [Hnd2 [Hext2 [Hraw Hin]]].
    split; [exact Hnd2|]. split; [eapply extends_trans; eassumption|]. split.
    + cbn [raw_of map fst snd]. f_equal; [|exact Hraw]. f_equal. f_equal. f_equal.
      unfold idx. destruct Hext2 as [m ->]. rewrite (index_of_app _ _ m i Hidx). reflexivity.
    + intros rd [<-|Hrd]; [|apply Hin; exact Hrd]. cbn [fst]. eapply extends_In; [exact Hext2|].
      eapply nth_error_In. apply index_of_Some. exact Hidx.
Qed.

Lemma raw_of_extends regs regs' ds : extends regs regs' -> (forall rd, In rd ds -> In (fst rd) regs) ->
  raw_of regs' ds = raw_of regs ds.
Proof.
  intros He Hin. unfold raw_of. apply map_ext_in. intros rd Hrd. rewrite (idx_extends regs regs' _ He (Hin rd Hrd)). reflexivity.
Qed.

Definition cset (regs : list region) (ds : list (region * Z)) : dset := canonical_set (raw_of regs ds).

Lemma find_dset_Some c l : forall i, find_dset c l = Some i -> nth_error l i = Some c.
Proof.
  induction l as [|x l IH]; intros i H; cbn [find_dset] in H; [discriminate|].
  destruct (dset_eqb x c) eqn:E.
  - injection H as <-. apply dset_eqb_eq in E. subst. reflexivity.
  - destruct (find_dset c l) as [j|]; [|discriminate]. injection H as <-. cbn. apply IH. reflexivity.
Qed.

Lemma add_deltas_spec b ds b1 id : add_deltas b ds = (b1, id) -> NoDup (b_regions b) ->
  NoDup (b_regions b1) /\ extends (b_regions b) (b_regions b1) /\ extends (b_sets b) (b_sets b1) /\
  b_direct b1 = b_direct b /\ 0 <= id /\
  nth_error (b_sets b1) (Z.to_nat id) = Some (cset (b_regions b1) ds) /\
  (forall rd, In rd ds -> In (fst rd) (b_regions b1)).
Proof.
  unfold add_deltas. intros H Hnd.
  destruct (canon_all (b_regions b) ds) as [regs raw] eqn:Ec.
  destruct (canon_all_spec _ _ _ _ Ec Hnd) as [Hnd1 [Hext [Hraw Hin]]]. subst raw. fold (cset regs ds) in H.
  destruct (b_direct b) eqn:Ed.
  - injection H as <- <-. cbn [b_regions b_sets b_direct]. repeat split; auto; try lia.
    + exists [cset regs ds]. reflexivity.
    + rewrite Nat2Z.id. rewrite nth_error_app2 by lia. rewrite Nat.sub_diag. reflexivity.
  - destruct (find_dset (cset regs ds) (b_sets b)) as [i|] eqn:Ef; injection H as <- <-; cbn [b_regions b_sets b_direct].
    + repeat split; auto using extends_refl; try lia. rewrite Nat2Z.id. apply find_dset_Some. exact Ef.
    + repeat split; auto; try lia.
      * exists [cset regs ds]. reflexivity.
      * rewrite Nat2Z.id. rewrite nth_error_app2 by lia. rewrite Nat.sub_diag. reflexivity.
Qed.

Lemma add_all_spec inputs : forall b b' ids, add_all b inputs = (b', ids) -> NoDup (b_regions b) ->
  NoDup (b_regions b') /\ extends (b_regions b) (b_regions b') /\ extends (b_sets b) (b_sets b') /\
  b_direct b' = b_direct b /\
  forall k ds id, nth_error inputs k = Some ds -> nth_error ids k = Some id ->
    0 <= id /\ nth_error (b_sets b') (Z.to_nat id) = Some (cset (b_regions b') ds) /\
    (forall rd, In rd ds -> In (fst rd) (b_regions b')).
Proof.
  induction inputs as [|ds inputs IH]; intros b b' ids H Hnd; cbn [add_all] in H.
  - injection H as <- <-. repeat split; auto using extends_refl; destruct k; discriminate.
  - destruct (add_deltas b ds) as [b1 id1] eqn:E1. destruct (add_all b1 inputs) as [b2 ids2] eqn:E2.
    injection H as <- <-.
    destruct (add_deltas_spec _ _ _ _ E1 Hnd) as [Hnd1 [Hr1 [Hs1 [Hd1 [Hid1 [Hnth1 Hin1]]]]]].
    destruct (IH _ _ _ E2 Hnd1) as [Hnd2 [Hr2 [Hs2 [Hd2 Hall]]]].
    split; [exact Hnd2|]. split; [eapply extends_trans; eassumption|]. split; [eapply extends_trans; eassumption|].
    split; [congruence|].
    intros k ds0 id Hk Hidk. destruct k as [|k]; cbn in Hk, Hidk.
    + injection Hk as <-. injection Hidk as <-. split; [exact Hid1|]. split.
      * unfold cset. rewrite (raw_of_extends _ _ _ Hr2 Hin1). eapply extends_nth_error; [exact Hs2 | exact Hnth1].
      * intros rd Hrd. eapply extends_In; [exact Hr2 | apply Hin1; exact Hrd].
    + apply (Hall k ds0 id Hk Hidk).
Qed.

(* ---------- the canonical delta set represents the input sparse map ---------- *)
Lemma lookup_last_notin k l : forall acc, ~ In k (map fst l) -> lookup_last k l acc = acc.
Proof.
  induction l as [|[i d] l IH]; intros acc H; [reflexivity|]. cbn [lookup_last]. cbn [map fst In] in H.
  rewrite IH by tauto. destruct (i =? k) eqn:E; [exfalso; apply H; left; lia | reflexivity].
Qed.
Lemma lookup_last_in k d l : NoDup (map fst l) -> In (k, d) l -> forall acc, lookup_last k l acc = d.
Proof.
  induction l as [|[i e] l IH]; intros Hnd Hin acc; [destruct Hin|]. cbn [lookup_last].
  cbn [map fst] in Hnd. inversion Hnd as [|? ? Hni Hnd']; subst. destruct Hin as [Heq|Hin].
  - injection Heq as -> ->. rewrite Z.eqb_refl. apply lookup_last_notin. exact Hni.
  - apply IH; assumption.
Qed.

Lemma insert_perm x l : Permutation (insert_sorted x l) (x :: l).
Proof.
  induction l as [|y l IH]; [reflexivity|]. cbn [insert_sorted]. destruct (pair_leb x y); [reflexivity|].
  rewrite IH. apply perm_swap.
Qed.
Lemma sort_perm l : Permutation (sort_pairs l) l.
Proof. induction l as [|x l IH]; [reflexivity|]. cbn [sort_pairs fold_right]. fold (sort_pairs l). rewrite insert_perm, IH. reflexivity. Qed.

Lemma input_delta_notin ds r : ~ In r (map fst ds) -> input_delta ds r = 0.
Proof.
  induction ds as [|[r' d] ds IH]; intros H; [reflexivity|]. cbn [input_delta]. cbn [map fst In] in H.
  rewrite region_eqb_neq by tauto. apply IH. tauto.
Qed.
Lemma input_delta_in ds r d : NoDup (map fst ds) -> In (r, d) ds -> input_delta ds r = d.
Proof.
  induction ds as [|[r' d'] ds IH]; intros Hnd Hin; [destruct Hin|]. cbn [input_delta].
  cbn [map fst] in Hnd. inversion Hnd as [|? ? Hni Hnd']; subst. destruct Hin as [Heq|Hin].
  - injection Heq as -> ->. rewrite region_eqb_refl. reflexivity.
  - assert (r' <> r) by (intros ->; apply Hni; apply (in_map fst) in Hin; exact Hin).
    rewrite region_eqb_neq by assumption. apply IH; assumption.
Qed.

Lemma NoDup_map_inj' {A B C} (f : A -> B) (g : A -> C) (l : list A) :
  (forall x y, In x l -> In y l -> f x = f y -> g x = g y) -> NoDup (map g l) -> NoDup (map f l).
Proof.
  induction l as [|a l IH]; intros Hinj Hnd; [constructor|]. cbn [map] in *. inversion Hnd as [|? ? Hni Hnd']; subst.
  constructor.
  - intros Hin. apply in_map_iff in Hin as [y [Hfy Hy]]. apply Hni. apply in_map_iff. exists y. split; [|exact Hy].
    apply Hinj; [right; exact Hy | left; reflexivity | exact Hfy].
  - apply IH; [|exact Hnd']. intros x y Hx Hy. apply Hinj; right; assumption.
Qed.

Lemma cset_lookup regs ds c : NoDup regs -> NoDup (map fst ds) -> (forall rd, In rd ds -> In (fst rd) regs) ->
  Z.of_nat (length regs) <= 65536 -> (c < length regs)%nat ->
  lookup_last (Z.of_nat c) (cset regs ds) 0 = input_delta ds (nth c regs []).
Proof.
  intros Hnd Hds Hin Hlen Hc.
  set (r := nth c regs []).
  assert (Hr : nth_error regs c = Some r) by (apply nth_error_nth'; exact Hc).
  set (kf := fun rd : region * Z => wrap_u 16 (Z.of_nat (idx regs (fst rd)))).
  assert (Hkf : forall rd, In rd ds -> kf rd = Z.of_nat (idx regs (fst rd)) /\ nth_error regs (idx regs (fst rd)) = Some (fst rd)).
  { intros rd Hrd. destruct (index_of_In _ _ (Hin rd Hrd)) as [i Ei]. unfold kf, idx. rewrite Ei.
    pose proof (index_of_Some _ _ _ Ei) as Hn. split; [|exact Hn].
    assert (i < length regs)%nat by (apply nth_error_Some; congruence).
    unfold wrap_u. change (2 ^ 16) with 65536. apply Z.mod_small. lia. }
  assert (HA : forall rd, In rd ds -> (kf rd = Z.of_nat c <-> fst rd = r)).
  { intros rd Hrd. destruct (Hkf rd Hrd) as [K1 K2]. split.
    - intros H. rewrite K1 in H. apply Nat2Z.inj in H. rewrite H in K2. congruence.
    - intros H. rewrite K1. f_equal. unfold idx. rewrite H. rewrite (index_of_nth regs Hnd c r Hr). reflexivity. }
  assert (Hraw : map fst (raw_of regs ds) = map kf ds) by (unfold raw_of; rewrite map_map; reflexivity).
  assert (Hnd_raw : NoDup (map fst (raw_of regs ds))).
  { rewrite Hraw. apply (NoDup_map_inj' kf fst ds); [|exact Hds].
    intros x y Hx Hy Hxy. destruct (Hkf x Hx) as [X1 X2], (Hkf y Hy) as [Y1 Y2].
    rewrite X1, Y1 in Hxy. apply Nat2Z.inj in Hxy. rewrite Hxy in X2. congruence. }
  pose proof (sort_perm (raw_of regs ds)) as Hperm.
  assert (Hnd_sorted : NoDup (map fst (sort_pairs (raw_of regs ds)))).
  { eapply Permutation_NoDup; [|exact Hnd_raw]. apply Permutation_map. symmetry. exact Hperm. }
  unfold cset, canonical_set.
  destruct (in_dec (list_eq_dec (fun a b : Z * Z * Z => ltac:(decide equality; try apply Z.eq_dec; decide equality; apply Z.eq_dec))) r (map fst ds)) as [Hrin|Hrout].
  - apply in_map_iff in Hrin as [[r0 d] [Hr0 Hrd]]. cbn [fst] in Hr0. subst r0.
    rewrite (input_delta_in ds r d Hds Hrd).
    assert (Hraw_in : In (Z.of_nat c, d) (raw_of regs ds)).
    { unfold raw_of. apply in_map_iff. exists (r, d). split; [|exact Hrd]. cbn [fst snd]. f_equal.
      apply (proj2 (HA (r, d) Hrd)). reflexivity. }
    assert (Hs_in : In (Z.of_nat c, d) (sort_pairs (raw_of regs ds))).
    { eapply Permutation_in; [symmetry; exact Hperm | exact Hraw_in]. }
    destruct (forallb (fun p : Z * Z => snd p =? 0) (sort_pairs (raw_of regs ds))) eqn:Ez.
    + rewrite forallb_forall in Ez. specialize (Ez _ Hs_in). cbn [snd] in Ez. cbn [lookup_last]. lia.
    + apply lookup_last_in; assumption.
  - rewrite (input_delta_notin ds r Hrout).
    assert (Hk_out : ~ In (Z.of_nat c) (map fst (sort_pairs (raw_of regs ds)))).
    { intros H. apply (Permutation_in (l' := map fst (raw_of regs ds))) in H; [|apply Permutation_map; exact Hperm].
      rewrite Hraw in H. apply in_map_iff in H as [rd [Hk Hrd]]. apply Hrout. apply in_map_iff. exists rd. split; [|exact Hrd].
      apply (proj1 (HA rd Hrd)). exact Hk. }
    destruct (forallb _ _); [reflexivity|]. apply lookup_last_notin. exact Hk_out.
Qed.

(* ---------- shapes ---------- *)
Lemma for_val_cases v : for_val v = 0 \/ for_val v = 1 \/ for_val v = 2 \/ for_val v = 4.
Proof. unfold for_val. destruct (v =? 0); [tauto|]. destruct (_ && _); [tauto|]. destruct (_ && _); tauto. Qed.
Lemma for_val_zero v : for_val v = 0 -> v = 0.
Proof. unfold for_val. destruct (v =? 0) eqn:E; [lia|]. destruct (_ && _); [discriminate|]. destruct (_ && _); discriminate. Qed.

Lemma set_nth_length n x : forall l, length (set_nth n x l) = length l.
Proof. induction n as [|n IH]; intros [|y l]; cbn; auto. Qed.
Lemma nth_set_nth n x : forall l c, nth c (set_nth n x l) 0 = if (Nat.eqb n c) && (n <? length l)%nat then x else nth c l 0.
Proof.
  induction n as [|n IH]; intros [|y l] c; cbn [set_nth length].
  - rewrite andb_false_r. reflexivity.
  - destruct c; reflexivity.
  - rewrite andb_false_r. reflexivity.
  - destruct c as [|c]; [reflexivity|]. cbn [nth]. rewrite IH. cbn [Nat.eqb]. reflexivity.
Qed.

Definition shape_step (sh : list Z) (p : Z * Z) : list Z := set_nth (Z.to_nat (fst p)) (for_val (snd p)) sh.

Lemma shape_fold c cs : forall sh acc, (c < length sh)%nat -> nth c sh 0 = for_val acc -> Forall (fun p => 0 <= fst p) cs ->
  nth c (fold_left shape_step cs sh) 0 = for_val (lookup_last (Z.of_nat c) cs acc).
Proof.
  induction cs as [|[i d] cs IH]; intros sh acc Hc Hn Hk; [exact Hn|].
  inversion Hk as [|? ? Hi Hk']; subst. cbn [fst] in Hi. cbn [fold_left lookup_last].
  apply IH; [unfold shape_step; rewrite set_nth_length; exact Hc | | exact Hk'].
  unfold shape_step. cbn [fst snd]. rewrite nth_set_nth.
  destruct (i =? Z.of_nat c) eqn:E.
  - replace (Nat.eqb (Z.to_nat i) c) with true by lia. replace (Z.to_nat i <? length sh)%nat with true by lia. reflexivity.
  - replace (Nat.eqb (Z.to_nat i) c) with false by lia. exact Hn.
Qed.

Lemma shape_of_nth n cs c : (c < n)%nat -> Forall (fun p => 0 <= fst p) cs ->
  nth c (shape_of n cs) 0 = for_val (lookup_last (Z.of_nat c) cs 0).
Proof.
  intros Hc Hk. unfold shape_of. apply (shape_fold c cs (repeat 0 n) 0); [rewrite repeat_length; exact Hc | | exact Hk].
  rewrite nth_repeat. reflexivity.
Qed.
Lemma shape_of_length n cs : length (shape_of n cs) = n.
Proof.
  unfold shape_of. change (fun sh p => set_nth (Z.to_nat (fst p)) (for_val (snd p)) sh) with shape_step.
  assert (H : forall sh, length (fold_left shape_step cs sh) = length sh).
  { induction cs as [|p cs IH]; intros sh; [reflexivity|]. cbn [fold_left]. rewrite IH. apply set_nth_length. }
  rewrite H. apply repeat_length.
Qed.

Lemma can_cover_nth a : forall b c, can_cover a b = true -> length a = length b -> nth c b 0 <= nth c a 0.
Proof.
  unfold can_cover. induction a as [|x a IH]; intros [|y b] c H Hl; try discriminate; [destruct c; cbn; lia|].
  cbn [combine forallb fst snd] in H. apply andb_true_iff in H as [H1 H2]. destruct c as [|c]; cbn [nth]; [lia|].
  apply IH; [exact H2 | cbn in Hl; lia].
Qed.

Lemma cset_keys_nonneg regs ds : Forall (fun p => 0 <= fst p) (cset regs ds).
Proof.
  unfold cset, canonical_set. destruct (forallb _ _); [constructor|].
  rewrite Forall_forall. intros p Hp. apply (Permutation_in _ (sort_perm _)) in Hp.
  unfold raw_of in Hp. apply in_map_iff in Hp as [rd [<- _]]. cbn [fst]. unfold wrap_u. apply Z.mod_pos_bound. reflexivity.
Qed.

Lemma input_delta_i32 ds r : Forall (fun rd => i32 (snd rd)) ds -> i32 (input_delta ds r).
Proof.
  induction ds as [|[r' d] ds IH]; intros H; [unfold i32; cbn; lia|]. inversion H; subst. cbn [input_delta].
  destruct (region_eqb r' r); [assumption | apply IH; assumption].
Qed.

(* ---------- columns ---------- *)
Lemma cols_with_In sh w c : In c (cols_with sh w) <-> (c < length sh)%nat /\ nth c sh 0 = w.
Proof. unfold cols_with. rewrite filter_In, in_seq. split; intros [H1 H2]; split; lia. Qed.

Lemma cell_bits_ok sh j : (j < length (active_cols sh))%nat ->
  let c := nth j (active_cols sh) O in
  8 * nth c sh 0 <= cell_bits sh j /\ (cell_bits sh j = 8 \/ cell_bits sh j = 16 \/ cell_bits sh j = 32).
Proof.
  intros Hj c. unfold cell_bits, n_long, long_words.
  assert (Hbits : forall (b1 b2 : bool), (if b1 then (if b2 then 32 else 16) else (if b2 then 16 else 8)) = 8 \/
                    (if b1 then (if b2 then 32 else 16) else (if b2 then 16 else 8)) = 16 \/
                    (if b1 then (if b2 then 32 else 16) else (if b2 then 16 else 8)) = 32) by (intros [] []; tauto).
  split; [|apply Hbits].
  subst c. unfold active_cols in *. rewrite !app_length in Hj.
  set (A4 := cols_with sh 4) in *. set (A2 := cols_with sh 2) in *. set (A1 := cols_with sh 1) in *.
  destruct (Nat.ltb_spec j (length A4)) as [H4|H4].
  - rewrite app_nth1 by exact H4.
    assert (Hin : In (nth j A4 O) A4) by (apply nth_In; exact H4). apply cols_with_In in Hin as [_ ->].
    destruct (Nat.eqb_spec (length A4) 0) as [E|E]; [lia|]. cbn [negb].
    replace (j <? length A4)%nat with true by lia. lia.
  - rewrite app_nth2 by lia.
    destruct (Nat.ltb_spec (j - length A4) (length A2)) as [H2|H2].
    + rewrite app_nth1 by exact H2.
      assert (Hin : In (nth (j - length A4) A2 O) A2) by (apply nth_In; exact H2). apply cols_with_In in Hin as [_ ->].
      destruct (Nat.eqb_spec (length A4) 0) as [E|E]; cbn [negb].
      * replace (j <? length A2)%nat with true by lia. lia.
      * replace (j <? length A4)%nat with false by lia. lia.
    + rewrite app_nth2 by lia.
      assert (Hin : In (nth (j - length A4 - length A2) A1 O) A1) by (apply nth_In; lia). apply cols_with_In in Hin as [_ ->].
      destruct (negb _); destruct (_ <? _)%nat; lia.
Qed.

Lemma encode_cells_id sh cs (L : nat -> Z) : (forall c, L c = lookup_last (Z.of_nat c) cs 0) ->
  forall cols pos, (forall j, (j < length cols)%nat -> wrap_s (cell_bits sh (pos + j)) (L (nth j cols O)) = L (nth j cols O)) ->
  encode_cells sh cs pos cols = map L cols.
Proof.
  intros HL. induction cols as [|c cols IH]; intros pos H; [reflexivity|]. cbn [encode_cells map]. f_equal.
  - rewrite <- HL. specialize (H O ltac:(cbn; lia)). rewrite Nat.add_0_r in H. exact H.
  - apply IH. intros j Hj. specialize (H (S j) ltac:(cbn; lia)). rewrite Nat.add_succ_r in H. exact H.
Qed.

(* a row encoded under any covering shape holds the set's values unchanged, column by column *)
Lemma encode_row_values sh cs : Forall (fun p => 0 <= fst p) cs ->
  can_cover sh (shape_of (length sh) cs) = true ->
  (forall c, i32 (lookup_last (Z.of_nat c) cs 0)) ->
  encode_row sh cs = map (fun c => lookup_last (Z.of_nat c) cs 0) (active_cols sh).
Proof.
  intros Hk Hcov Hi32. unfold encode_row. apply encode_cells_id; [reflexivity|].
  intros j Hj. cbn [Nat.add]. destruct (cell_bits_ok sh j Hj) as [Hb Hbits]. cbv zeta in Hb.
  set (c := nth j (active_cols sh) O) in *.
  assert (Hc : (c < length sh)%nat).
  { assert (Hin : In c (active_cols sh)) by (apply nth_In; exact Hj). unfold active_cols in Hin.
    apply in_app_or in Hin as [Hin|Hin]; [|apply in_app_or in Hin as [Hin|Hin]]; apply cols_with_In in Hin; tauto. }
  apply narrowing_lossless; [apply Hi32 | exact Hbits |].
  pose proof (can_cover_nth sh _ c Hcov ltac:(rewrite shape_of_length; reflexivity)) as Hle.
  rewrite shape_of_nth in Hle by assumption. lia.
Qed.

(* ---------- column sums ---------- *)
Fixpoint csum (F : nat -> Z) (cols : list nat) : Z := match cols with [] => 0 | c :: r => F c + csum F r end.
Lemma csum_app F a b : csum F (a ++ b) = csum F a + csum F b.
Proof. induction a as [|x a IH]; cbn [app csum]; lia. Qed.
Lemma csum_ext F G cols : (forall c, In c cols -> F c = G c) -> csum F cols = csum G cols.
Proof. induction cols as [|x l IH]; intros H; [reflexivity|]. cbn [csum]. rewrite (H x) by (left; reflexivity). rewrite IH; [reflexivity|]. intros c Hc. apply H. right. exact Hc. Qed.
Lemma csum_zero F cols : (forall c, In c cols -> F c = 0) -> csum F cols = 0.
Proof. induction cols as [|x l IH]; intros H; [reflexivity|]. cbn [csum]. rewrite (H x) by (left; reflexivity). rewrite IH; [reflexivity|]. intros c Hc. apply H. right. exact Hc. Qed.
Lemma csum_filter_seq (P : nat -> bool) c0 v : forall n a,
  csum (fun c => if Nat.eqb c c0 then v else 0) (filter P (seq a n))
  = if P c0 && ((a <=? c0)%nat && (c0 <? a + n)%nat) then v else 0.
Proof.
  induction n as [|n IH]; intros a; cbn [seq filter csum].
  - destruct (Nat.leb_spec a c0), (Nat.ltb_spec c0 (a + 0)); cbn [andb]; try lia; rewrite andb_false_r; reflexivity.
  - assert (Hstep : a <> c0 -> ((S a <=? c0)%nat && (c0 <? S a + n)%nat) = ((a <=? c0)%nat && (c0 <? a + S n)%nat)).
    { intros Hne. destruct (Nat.leb_spec (S a) c0), (Nat.ltb_spec c0 (S a + n)), (Nat.leb_spec a c0), (Nat.ltb_spec c0 (a + S n)); cbn [andb]; try reflexivity; lia. }
    assert (Hself : ((c0 <=? c0)%nat && (c0 <? c0 + S n)%nat) = true).
    { destruct (Nat.leb_spec c0 c0), (Nat.ltb_spec c0 (c0 + S n)); cbn [andb]; try reflexivity; lia. }
    assert (Hpast : ((S c0 <=? c0)%nat && (c0 <? S c0 + n)%nat) = false).
    { destruct (Nat.leb_spec (S c0) c0); cbn [andb]; [lia | reflexivity]. }
    destruct (P a) eqn:Ea; cbn [csum]; rewrite IH.
    + destruct (Nat.eqb_spec a c0) as [->|Hne].
      * rewrite Ea, Hpast, Hself. rewrite andb_false_r. cbn [andb]. lia.
      * rewrite (Hstep Hne). lia.
    + destruct (Nat.eqb_spec a c0) as [->|Hne].
      * rewrite Ea. reflexivity.
      * rewrite (Hstep Hne). reflexivity.
Qed.

(* ---------- renumbering ---------- *)
Lemma pos_of_Some x l : forall p, pos_of x l = Some p -> nth_error l p = Some x.
Proof.
  induction l as [|y l IH]; intros p H; cbn [pos_of] in H; [discriminate|].
  destruct (Nat.eqb_spec y x) as [->|Hne].
  - injection H as <-. reflexivity.
  - destruct (pos_of x l) as [q|]; [|discriminate]. injection H as <-. cbn. apply IH. reflexivity.
Qed.
Lemma pos_of_In x l : In x l -> exists p, pos_of x l = Some p.
Proof.
  induction l as [|y l IH]; intros H; [destruct H|]. cbn [pos_of]. destruct (Nat.eqb_spec y x); [eauto|].
  destruct H as [->|H]; [congruence|]. destruct (IH H) as [p ->]. cbn. eauto.
Qed.
(* region_renumber_bijective: on the kept (used) old indices, old -> new is a bijection onto the positions
   of the new region list, and the region itself is preserved *)
Lemma region_renumber_bijective kept : NoDup kept -> forall x p, pos_of x kept = Some p <-> nth_error kept p = Some x.
Proof.
  intros Hnd x p. split; [apply pos_of_Some|]. intros H.
  destruct (pos_of_In x kept (nth_error_In _ _ H)) as [q Hq]. pose proof (pos_of_Some _ _ _ Hq) as Hq'.
  rewrite Hq. f_equal. apply (proj1 (NoDup_nth_error kept) Hnd); [apply nth_error_Some; congruence | congruence].
Qed.
Lemma kept_regions_NoDup n used : NoDup (kept_regions n used).
Proof. unfold kept_regions. apply NoDup_filter. apply seq_NoDup. Qed.

Lemma nth_map_nth_error {A B} (f : A -> B) l p x d : nth_error l p = Some x -> nth p (map f l) d = f x.
Proof. revert p. induction l as [|y l IH]; intros [|p] H; cbn in *; try discriminate; [congruence | apply IH; exact H]. Qed.

Lemma map_opt_nth {A B} (f : A -> option B) l : forall l', map_opt f l = Some l' ->
  forall i x, nth_error l i = Some x -> exists y, f x = Some y /\ nth_error l' i = Some y.
Proof.
  induction l as [|a l IH]; intros l' H i x Hi; [destruct i; discriminate|].
  cbn [map_opt] in H. destruct (f a) as [b|] eqn:Ea; [|discriminate]. destruct (map_opt f l) as [bs|] eqn:El; [|discriminate].
  injection H as <-. destruct i as [|i]; cbn in Hi |- *.
  - injection Hi as <-. eauto.
  - apply (IH bs eq_refl i x Hi).
Qed.
Lemma map_opt_length {A B} (f : A -> option B) l : forall l', map_opt f l = Some l' -> length l' = length l.
Proof.
  induction l as [|a l IH]; intros l' H; cbn [map_opt] in H; [injection H as <-; reflexivity|].
  destruct (f a); [|discriminate]. destruct (map_opt f l) as [bs|]; [|discriminate]. injection H as <-. cbn. f_equal. apply IH. reflexivity.
Qed.

Lemma row_sum_cols regs kept r (val : nat -> Z) : forall cols ri,
  map_opt (fun old => option_map Z.of_nat (pos_of (Z.to_nat old) kept)) (map Z.of_nat cols) = Some ri ->
  row_sum (map (fun i => nth i regs []) kept) ri (map val cols) r
  = csum (fun c => if region_eqb (nth c regs []) r then val c else 0) cols.
Proof.
  induction cols as [|c cols IH]; intros ri H; cbn [map map_opt] in H.
  - injection H as <-. reflexivity.
  - rewrite Nat2Z.id in H. destruct (pos_of c kept) as [p|] eqn:Ep; cbn [option_map] in H; [|discriminate].
    destruct (map_opt _ (map Z.of_nat cols)) as [ri'|] eqn:Er; [|discriminate]. injection H as <-.
    cbn [map row_sum csum]. rewrite Nat2Z.id. erewrite nth_map_nth_error by (apply pos_of_Some; exact Ep).
    rewrite (IH ri' eq_refl). reflexivity.
Qed.

(* ---------- keys ---------- *)
Lemma remap_get_unique km id v : NoDup (map fst km) -> In (id, v) km -> forall acc, remap_get km id acc = Some v.
Proof.
  induction km as [|[k w] km IH]; intros Hnd Hin acc; [destruct Hin|]. cbn [remap_get].
  cbn [map fst] in Hnd. inversion Hnd as [|? ? Hni Hnd']; subst. destruct Hin as [Heq|Hin].
  - injection Heq as -> ->. rewrite Z.eqb_refl.
    assert (Hno : forall acc', remap_get km id acc' = acc').
    { clear -Hni. induction km as [|[k w] km IH]; intros acc'; [reflexivity|]. cbn [remap_get]. cbn [map fst In] in Hni.
      rewrite IH by tauto. destruct (k =? id) eqn:E; [exfalso; apply Hni; left; lia | reflexivity]. }
    apply Hno.
  - apply IH; assumption.
Qed.
Lemma keys_of_fst sub ids : forall j, map fst (keys_of sub j ids) = ids.
Proof. induction ids as [|id ids IH]; intros j; [reflexivity|]. cbn [keys_of map fst]. rewrite IH. reflexivity. Qed.
Lemma keys_of_In sub ids : forall j0 j id, nth_error ids j = Some id -> In (id, (sub, j0 + Z.of_nat j)) (keys_of sub j0 ids).
Proof.
  induction ids as [|x ids IH]; intros j0 j id H; [destruct j; discriminate|]. destruct j as [|j]; cbn in H; cbn [keys_of].
  - injection H as ->. left. f_equal. f_equal. lia.
  - right. replace (j0 + Z.of_nat (S j)) with (j0 + 1 + Z.of_nat j) by lia. apply IH. exact H.
Qed.
Lemma all_keys_fst encs : forall i, map fst (all_keys i encs) = flat_map snd encs.
Proof. induction encs as [|e encs IH]; intros i; [reflexivity|]. cbn [all_keys flat_map]. rewrite map_app, keys_of_fst, IH. reflexivity. Qed.
Lemma all_keys_In encs : forall i0 i e j id, nth_error encs i = Some e -> nth_error (snd e) j = Some id ->
  In (id, (wrap_u 16 (i0 + Z.of_nat i), Z.of_nat j)) (all_keys i0 encs).
Proof.
  induction encs as [|x encs IH]; intros i0 i e j id Hi Hj; [destruct i; discriminate|]. cbn [all_keys]. apply in_or_app.
  destruct i as [|i]; cbn in Hi.
  - injection Hi as ->. left. rewrite Z.add_0_r. apply (keys_of_In (wrap_u 16 i0) (snd e) 0 j id Hj).
  - right. replace (i0 + Z.of_nat (S i)) with (i0 + 1 + Z.of_nat i) by lia. eapply IH; eassumption.
Qed.

(* ---------- chunks ---------- *)
Lemma concat_chunks n : forall fuel l, concat (chunks fuel n l) = l.
Proof.
  induction fuel as [|f IH]; intros l; cbn [chunks]; [cbn; apply app_nil_r|].
  destruct (length l <=? n)%nat; [cbn; apply app_nil_r|]. cbn [concat]. rewrite IH. apply firstn_skipn.
Qed.
Lemma chunks_incl n : forall fuel l c, In c (chunks fuel n l) -> incl c l.
Proof.
  induction fuel as [|f IH]; intros l c H; cbn [chunks] in H.
  - destruct H as [<-|[]]. apply incl_refl.
  - destruct (length l <=? n)%nat; [destruct H as [<-|[]]; apply incl_refl|].
    destruct H as [<-|H].
    + intros x Hx. rewrite <- (firstn_skipn n l). apply in_or_app. left. exact Hx.
    + intros x Hx. rewrite <- (firstn_skipn n l). apply in_or_app. right. apply (IH _ _ H). exact Hx.
Qed.
Lemma split_encs_flat encs : flat_map snd (split_encs encs) = flat_map snd encs.
Proof.
  unfold split_encs. induction encs as [|e encs IH]; [reflexivity|]. cbn [flat_map]. rewrite flat_map_app, IH. f_equal.
  rewrite flat_map_concat_map, map_map. cbn [snd]. rewrite map_id. apply concat_chunks.
Qed.
Lemma split_encs_In e' encs : In e' (split_encs encs) -> exists e, In e encs /\ fst e' = fst e /\ incl (snd e') (snd e).
Proof.
  unfold split_encs. intros H. apply in_flat_map in H as [e [He H]]. apply in_map_iff in H as [c [<- Hc]].
  exists e. split; [exact He|]. split; [reflexivity|]. cbn [snd]. eapply chunks_incl. exact Hc.
Qed.

(* ---------- the theorem ---------- *)
(* any outcome of Encoder::optimize + the final sorts: a list of (shape, row ids) such that every row is
   covered by the shape of its encoding, and every stored set sits in exactly one encoding *)
Definition valid_encs (b : builder) (encs : list enc) : Prop :=
  let n := length (b_regions b) in
  (forall e, In e encs -> length (fst e) = n /\ Forall (fun w => w = 0 \/ w = 1 \/ w = 2 \/ w = 4) (fst e) /\
     forall id, In id (snd e) -> 0 <= id /\ can_cover (fst e) (shape_of n (nth (Z.to_nat id) (b_sets b) [])) = true) /\
  NoDup (flat_map snd encs) /\
  (forall id, 0 <= id < Z.of_nat (length (b_sets b)) -> In id (flat_map snd encs)) /\
  Z.of_nat (length (split_encs encs)) <= 65536.

Definition wf_inputs (inputs : list (list (region * Z))) : Prop :=
  Forall (fun ds => NoDup (map fst ds) /\ Forall (fun rd => i32 (snd rd)) ds) inputs.

Lemma In_flat_map_nth (encs : list enc) id : In id (flat_map snd encs) ->
  exists i e j, nth_error encs i = Some e /\ nth_error (snd e) j = Some id.
Proof.
  intros H. apply in_flat_map in H as [e [He Hid]]. apply In_nth_error in He as [i Hi]. apply In_nth_error in Hid as [j Hj]. eauto.
Qed.

(* the value stored in the row of a set, summed over the columns whose region is r, is the input delta *)
Lemma row_value regs ds sh r : NoDup regs -> NoDup (map fst ds) -> Forall (fun rd => i32 (snd rd)) ds ->
  (forall rd, In rd ds -> In (fst rd) regs) -> Z.of_nat (length regs) <= 65536 ->
  length sh = length regs -> Forall (fun w => w = 0 \/ w = 1 \/ w = 2 \/ w = 4) sh ->
  can_cover sh (shape_of (length regs) (cset regs ds)) = true ->
  csum (fun c => if region_eqb (nth c regs []) r then lookup_last (Z.of_nat c) (cset regs ds) 0 else 0) (active_cols sh)
  = input_delta ds r.
Proof.
  intros Hnd Hds Hi32 Hin Hlen Hsh Hvals Hcov.
  set (L := fun c => lookup_last (Z.of_nat c) (cset regs ds) 0).
  assert (HL : forall c, (c < length regs)%nat -> L c = input_delta ds (nth c regs [])).
  { intros c Hc. apply cset_lookup; assumption. }
  assert (Hact : forall c, In c (active_cols sh) -> (c < length regs)%nat).
  { intros c Hc. unfold active_cols in Hc. rewrite <- Hsh.
    apply in_app_or in Hc as [Hc|Hc]; [|apply in_app_or in Hc as [Hc|Hc]]; apply cols_with_In in Hc; tauto. }
  destruct (in_dec (list_eq_dec (fun a b : Z * Z * Z => ltac:(decide equality; try apply Z.eq_dec; decide equality; apply Z.eq_dec))) r regs) as [Hr|Hr].
  - apply In_nth_error in Hr as [c0 Hc0].
    assert (Hc0lt : (c0 < length regs)%nat) by (apply nth_error_Some; unfold region in *; rewrite Hc0; discriminate).
    assert (Hnth0 : nth c0 regs [] = r) by (apply nth_error_nth; exact Hc0).
    rewrite (csum_ext _ (fun c => if Nat.eqb c c0 then L c0 else 0)).
    2:{ intros c Hc. pose proof (Hact c Hc) as Hclt. destruct (Nat.eqb_spec c c0) as [->|Hne].
        - rewrite Hnth0, region_eqb_refl. reflexivity.
        - rewrite region_eqb_neq; [reflexivity|]. intros Heq. apply Hne.
          apply (proj1 (NoDup_nth_error regs) Hnd); [exact Hclt|]. unfold region in *. rewrite Hc0. rewrite <- Heq. apply nth_error_nth'. exact Hclt. }
    unfold active_cols, cols_with. rewrite !csum_app, !csum_filter_seq. cbn [Nat.add].
    replace ((0 <=? c0)%nat && (c0 <? length sh)%nat) with true
      by (rewrite Hsh; destruct (Nat.leb_spec 0 c0), (Nat.ltb_spec c0 (length regs)); cbn; lia).
    rewrite !andb_true_r.
    assert (Hw : nth c0 sh 0 = 0 \/ nth c0 sh 0 = 1 \/ nth c0 sh 0 = 2 \/ nth c0 sh 0 = 4).
    { rewrite Forall_forall in Hvals. apply Hvals. apply nth_In. lia. }
    rewrite <- Hnth0, <- (HL c0 Hc0lt).
    pose proof (can_cover_nth sh _ c0 Hcov ltac:(rewrite shape_of_length; exact Hsh)) as Hle.
    rewrite shape_of_nth in Hle by (try exact Hc0lt; apply cset_keys_nonneg). fold (L c0) in Hle.
    destruct Hw as [W|[W|[W|W]]]; rewrite W in *; cbn.
    + pose proof (for_val_cases (L c0)) as Hc. assert (for_val (L c0) = 0) by lia. rewrite (for_val_zero _ H). reflexivity.
    + lia.
    + lia.
    + lia.
  - rewrite csum_zero.
    + symmetry. apply input_delta_notin. intros Hx. apply in_map_iff in Hx as [rd [<- Hrd]]. apply Hr. apply Hin. exact Hrd.
    + intros c Hc. rewrite region_eqb_neq; [reflexivity|]. intros Heq. apply Hr. rewrite <- Heq. apply nth_In. apply Hact. exact Hc.
Qed.

Theorem ivs_retrieval inputs direct encs b ids st km :
  add_all (builder_new direct) inputs = (b, ids) ->
  wf_inputs inputs ->
  Z.of_nat (length (b_regions b)) <= 65536 ->
  valid_encs b encs ->
  build_with b encs = Some (st, km) ->
  forall k ds id r, nth_error inputs k = Some ds -> nth_error ids k = Some id ->
    row_delta st (remap_get km id None) r = Some (input_delta ds r).
Proof.
  intros Hadd Hwf Hregs [Hencs [Hnd_ids [Hall_ids Hcount]]] Hbuild k ds id r Hk Hidk.
  destruct (add_all_spec inputs _ _ _ Hadd (NoDup_nil _)) as [Hnd [_ [_ [_ Hsets]]]].
  destruct (Hsets k ds id Hk Hidk) as [Hid0 [Hset Hin]].
  assert (Hds : NoDup (map fst ds) /\ Forall (fun rd => i32 (snd rd)) ds).
  { unfold wf_inputs in Hwf. rewrite Forall_forall in Hwf. apply Hwf. eapply nth_error_In. exact Hk. }
  destruct Hds as [Hds Hi32].
  set (regs := b_regions b) in *. set (sets := b_sets b) in *.
  assert (Hidlt : 0 <= id < Z.of_nat (length sets)).
  { split; [exact Hid0|]. assert (Z.to_nat id < length sets)%nat by (apply nth_error_Some; congruence). lia. }
  (* locate the row *)
  unfold build_with in Hbuild. fold regs sets in Hbuild.
  set (chunked := split_encs encs) in *.
  set (subs := map (encode_encoding sets) chunked) in *.
  set (kept := kept_regions (length regs) (used_regions subs)) in *.
  destruct (map_opt (renumber kept) subs) as [subs'|] eqn:Eren; [|discriminate].
  injection Hbuild as <- <-.
  pose proof (Hall_ids id Hidlt) as Hid_in. rewrite <- split_encs_flat in Hid_in. fold chunked in Hid_in.
  destruct (In_flat_map_nth chunked id Hid_in) as [i [e' [j [Hi Hj]]]].
  assert (Hilt : (i < length chunked)%nat) by (apply nth_error_Some; congruence).
  (* the key *)
  assert (Hkey : remap_get (all_keys 0 chunked) id None = Some (Z.of_nat i, Z.of_nat j)).
  { apply remap_get_unique.
    - rewrite all_keys_fst. unfold chunked. rewrite split_encs_flat. exact Hnd_ids.
    - pose proof (all_keys_In chunked 0 i e' j id Hi Hj) as H. rewrite Z.add_0_l in H.
      unfold wrap_u in H. change (2 ^ 16) with 65536 in H. rewrite Z.mod_small in H by lia. exact H. }
  rewrite Hkey. unfold row_delta. cbn [vs_data vs_regions]. rewrite !Nat2Z.id.
  (* the subtable *)
  assert (Hsub : nth_error subs i = Some (encode_encoding sets e')).
  { unfold subs. rewrite nth_error_map, Hi. reflexivity. }
  destruct (map_opt_nth _ _ _ Eren i _ Hsub) as [y [Hy Hy']]. rewrite Hy'.
  unfold encode_encoding in Hy. destruct (snd e') as [|id0 ids0] eqn:Eids; [destruct j; discriminate|].
  rewrite <- Eids in *. cbn [renumber st_regions st_rows st_item_count st_wdc] in Hy.
  destruct (map_opt _ (map Z.of_nat (active_cols (fst e')))) as [ri|] eqn:Eri; [|discriminate].
  injection Hy as <-. cbn [st_rows st_regions].
  rewrite nth_error_map, Hj. cbn [option_map].
  assert (Hnthset : nth (Z.to_nat id) sets [] = cset regs ds) by (apply nth_error_nth; exact Hset).
  rewrite Hnthset.
  (* validity of the encoding this chunk came from *)
  destruct (split_encs_In e' encs (nth_error_In _ _ Hi)) as [e [He [Hfst Hincl]]].
  destruct (Hencs e He) as [Hlen [Hvals Hcovs]].
  destruct (Hcovs id (Hincl id (nth_error_In _ _ Hj))) as [_ Hcov]. fold regs sets in Hcov, Hlen. rewrite Hnthset in Hcov.
  rewrite <- Hfst in Hlen, Hvals, Hcov.
  assert (HLi32 : forall c, i32 (lookup_last (Z.of_nat c) (cset regs ds) 0)).
  { intros c. destruct (Nat.ltb_spec c (length regs)) as [Hc|Hc].
    - rewrite cset_lookup by assumption. apply input_delta_i32. exact Hi32.
    - rewrite lookup_last_notin; [unfold i32; lia|]. intros Hx.
      unfold cset, canonical_set in Hx. destruct (forallb _ _); [destruct Hx|].
      apply (Permutation_in (l' := map fst (raw_of regs ds))) in Hx; [|apply Permutation_map; apply sort_perm].
      unfold raw_of in Hx. rewrite map_map in Hx. apply in_map_iff in Hx as [rd [Hkx Hrd]]. cbn [fst] in Hkx.
      destruct (index_of_In _ _ (Hin rd Hrd)) as [q Eq]. unfold idx in Hkx. rewrite Eq in Hkx.
      assert (q < length regs)%nat by (apply nth_error_Some; rewrite (index_of_Some _ _ _ Eq); discriminate).
      unfold wrap_u in Hkx. change (2 ^ 16) with 65536 in Hkx. rewrite Z.mod_small in Hkx by lia. lia. }
  rewrite encode_row_values; [| apply cset_keys_nonneg | rewrite Hlen; exact Hcov | exact HLi32].
  rewrite map_length. rewrite (map_opt_length _ _ _ Eri), map_length. rewrite Nat.eqb_refl.
  f_equal. rewrite (row_sum_cols regs kept r _ _ _ Eri).
  apply row_value; assumption.
Qed.

(* merge_covers: Encoding::merge_with keeps every row of both encodings covered (RowShape::merge = pointwise max) *)
Lemma merge_covers a : forall c x, length a = length c -> length a = length x ->
  (can_cover a x = true -> can_cover (shape_merge a c) x = true) /\
  (can_cover c x = true -> can_cover (shape_merge a c) x = true).
Proof.
  unfold can_cover, shape_merge. induction a as [|p a IH]; intros [|q c] [|y x] H1 H2; try discriminate; cbn in *; [tauto|].
  destruct (IH c x ltac:(lia) ltac:(lia)) as [I1 I2]. split; intros H; apply andb_true_iff in H as [Ha Hb]; apply andb_true_iff; split.
  - lia.
  - apply I1. exact Hb.
  - lia.
  - apply I2. exact Hb.
Qed.
Lemma merge_shape_values a : forall c, Forall (fun w => w = 0 \/ w = 1 \/ w = 2 \/ w = 4) a ->
  Forall (fun w => w = 0 \/ w = 1 \/ w = 2 \/ w = 4) c -> Forall (fun w => w = 0 \/ w = 1 \/ w = 2 \/ w = 4) (shape_merge a c).
Proof.
  unfold shape_merge. induction a as [|p a IH]; intros [|q c] Ha Hc; cbn; try constructor.
  - inversion Ha; inversion Hc; subst. cbn [fst snd]. lia.
  - inversion Ha; inversion Hc; subst. apply IH; assumption.
Qed.

(* the Direct storage (HVAR implicit indices): one encoding under direct_shape; same theorem *)
Lemma build_direct_as_build_with b x : build_direct b = Some x ->
  build_with b [(direct_shape (length (b_regions b)) (b_sets b), map Z.of_nat (seq 0 (length (b_sets b))))] = Some x.
Proof.
  unfold build_direct, build_with. destruct (65535 <? Z.of_nat (length (b_sets b))) eqn:E; [discriminate|].
  set (e := (direct_shape (length (b_regions b)) (b_sets b), map Z.of_nat (seq 0 (length (b_sets b))))).
  assert (Hs : split_encs [e] = [e]).
  { unfold split_encs. cbn [flat_map]. rewrite app_nil_r. subst e. cbn [fst snd].
    set (l := map Z.of_nat (seq 0 (length (b_sets b)))).
    assert (Hl : length l = length (b_sets b)) by (subst l; rewrite map_length, seq_length; reflexivity).
    destruct (length l) as [|f] eqn:El; cbn [chunks]; [reflexivity|].
    rewrite El. replace (S f <=? Z.to_nat MAX_ITEMS)%nat with true by (unfold MAX_ITEMS; lia). reflexivity. }
  rewrite Hs. cbn [map]. intros H.
  destruct (map_opt _ _) as [subs'|]; [|discriminate]. injection H as <-. cbn [all_keys snd]. rewrite app_nil_r. reflexivity.
Qed.
