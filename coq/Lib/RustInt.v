(* Machine-integer semantics used by all models: two's-complement wrap, Rust `as` casts,
   checked/wrapping/saturating primitives.  [option Z] results: [None] = the operation panics
   in the overflow-checks + debug-assertions profile (the profile the harness builds). *)
From Coq Require Import ZArith Lia Bool List.
From Coq Require Import ZifyBool.
Import ListNotations.
Open Scope Z_scope.

Definition wrap_u (bits : Z) (z : Z) : Z := z mod 2 ^ bits.
Definition wrap_s (bits : Z) (z : Z) : Z := (z + 2 ^ (bits - 1)) mod 2 ^ bits - 2 ^ (bits - 1).

Definition in_u (bits z : Z) : bool := (0 <=? z) && (z <? 2 ^ bits).
Definition in_s (bits z : Z) : bool := (- 2 ^ (bits - 1) <=? z) && (z <? 2 ^ (bits - 1)).

Definition clamp (lo hi z : Z) : Z := Z.max lo (Z.min hi z).
Definition sat_s (bits z : Z) : Z := clamp (- 2 ^ (bits - 1)) (2 ^ (bits - 1) - 1) z.
Definition sat_u (bits z : Z) : Z := clamp 0 (2 ^ bits - 1) z.

(* checked arithmetic result in the strict profile *)
Definition chk_s (bits z : Z) : option Z := if in_s bits z then Some z else None.
Definition chk_u (bits z : Z) : option Z := if in_u bits z then Some z else None.

Definition obind {A B} (o : option A) (f : A -> option B) : option B :=
  match o with Some a => f a | None => None end.
Notation "'do' x <- o ;; k" := (obind o (fun x => k)) (at level 200, x name, o at level 100, k at level 200).

Lemma wrap_u_range bits z : 0 < bits -> 0 <= wrap_u bits z < 2 ^ bits.
Proof. intros H. unfold wrap_u. apply Z.mod_pos_bound. apply Z.pow_pos_nonneg; lia. Qed.

Lemma wrap_s_range bits z : 0 < bits -> - 2 ^ (bits - 1) <= wrap_s bits z < 2 ^ (bits - 1).
Proof.
  intros H. unfold wrap_s.
  assert (Hp : 2 ^ bits = 2 * 2 ^ (bits - 1)).
  { replace bits with (Z.succ (bits - 1)) at 1 by lia. rewrite Z.pow_succ_r by lia. reflexivity. }
  assert (0 < 2 ^ (bits - 1)) by (apply Z.pow_pos_nonneg; lia).
  pose proof (Z.mod_pos_bound (z + 2 ^ (bits - 1)) (2 ^ bits)) as Hb. lia.
Qed.

Lemma wrap_s_id bits z : 0 < bits -> - 2 ^ (bits - 1) <= z < 2 ^ (bits - 1) -> wrap_s bits z = z.
Proof.
  intros H Hr. unfold wrap_s.
  assert (Hp : 2 ^ bits = 2 * 2 ^ (bits - 1)).
  { replace bits with (Z.succ (bits - 1)) at 1 by lia. rewrite Z.pow_succ_r by lia. reflexivity. }
  rewrite Z.mod_small by lia. lia.
Qed.

Lemma wrap_u_id bits z : 0 <= z < 2 ^ bits -> wrap_u bits z = z.
Proof. intros. unfold wrap_u. apply Z.mod_small; lia. Qed.

Lemma wrap_s_congr bits z : 0 < bits -> (wrap_s bits z) mod 2 ^ bits = z mod 2 ^ bits.
Proof.
  intros H. unfold wrap_s.
  assert (Hpos : 0 < 2 ^ bits) by (apply Z.pow_pos_nonneg; lia).
  rewrite Zminus_mod, Z.mod_mod by lia. rewrite <- Zminus_mod. f_equal. lia.
Qed.

(* big-endian byte codecs over lists of bytes (each byte a Z in [0,256)) *)
Fixpoint to_be (n : nat) (z : Z) : list Z :=
  match n with
  | O => []
  | S m => (z / 256 ^ Z.of_nat m) mod 256 :: to_be m z
  end.

Fixpoint from_be_acc (acc : Z) (l : list Z) : Z :=
  match l with
  | [] => acc
  | b :: r => from_be_acc (acc * 256 + b) r
  end.
Definition from_be (l : list Z) : Z := from_be_acc 0 l.

Definition is_byte (b : Z) : Prop := 0 <= b < 256.

Lemma from_be_acc_app acc l : from_be_acc acc l = acc * 256 ^ Z.of_nat (length l) + from_be_acc 0 l.
Proof.
  revert acc. induction l as [|b r IH]; intros acc.
  - cbn. lia.
  - cbn [from_be_acc length]. rewrite IH. rewrite (IH (0 * 256 + b)).
    rewrite Nat2Z.inj_succ, Z.pow_succ_r by lia. lia.
Qed.

Lemma from_be_bound l : Forall is_byte l -> 0 <= from_be l < 256 ^ Z.of_nat (length l).
Proof.
  unfold from_be. induction l as [|b r IH]; intros HF.
  - cbn. lia.
  - inversion HF as [|? ? Hb Hr]; subst. specialize (IH Hr).
    cbn [from_be_acc length]. rewrite from_be_acc_app.
    rewrite Nat2Z.inj_succ, Z.pow_succ_r by lia. unfold is_byte in Hb.
    assert (0 < 256 ^ Z.of_nat (length r)) by (apply Z.pow_pos_nonneg; lia). nia.
Qed.

Lemma to_be_length n z : length (to_be n z) = n.
Proof. induction n; cbn; auto. Qed.

Lemma to_be_bytes n z : Forall is_byte (to_be n z).
Proof.
  induction n as [|m IH]; cbn; constructor; auto.
  unfold is_byte. apply Z.mod_pos_bound. lia.
Qed.

Lemma from_to_be n z : 0 <= z < 256 ^ Z.of_nat n -> from_be (to_be n z) = z.
Proof.
  unfold from_be. revert z. induction n as [|m IH]; intros z Hz.
  - cbn in *. lia.
  - cbn [to_be from_be_acc]. rewrite from_be_acc_app, to_be_length.
    rewrite Nat2Z.inj_succ, Z.pow_succ_r in Hz by lia.
    assert (Hp : 0 < 256 ^ Z.of_nat m) by (apply Z.pow_pos_nonneg; lia).
    assert (Hq : 0 <= z / 256 ^ Z.of_nat m < 256).
    { split. apply Z.div_pos; lia. apply Z.div_lt_upper_bound; lia. }
    rewrite (Z.mod_small (z / _) 256) by lia.
    assert (Hrec : from_be_acc 0 (to_be m z) = z mod 256 ^ Z.of_nat m).
    { clear IH Hq Hz. revert z. induction m as [|k IHk]; intros z.
      - cbn. rewrite Z.mod_1_r. reflexivity.
      - cbn [to_be from_be_acc]. rewrite from_be_acc_app, to_be_length.
        assert (Hk : 0 < 256 ^ Z.of_nat k) by (apply Z.pow_pos_nonneg; lia).
        rewrite IHk by (apply Z.pow_pos_nonneg; lia).
        rewrite Nat2Z.inj_succ, Z.pow_succ_r by lia.
        replace (256 * 256 ^ Z.of_nat k) with (256 ^ Z.of_nat k * 256) by lia.
        rewrite Z.rem_mul_r by lia. lia. }
    rewrite Hrec. pose proof (Z.div_mod z (256 ^ Z.of_nat m)). lia.
Qed.

Lemma to_from_be l : Forall is_byte l -> to_be (length l) (from_be l) = l.
Proof.
  unfold from_be. induction l as [|b r IH]; intros HF.
  - reflexivity.
  - inversion HF as [|? ? Hb Hr]; subst. specialize (IH Hr).
    cbn [length to_be from_be_acc]. rewrite from_be_acc_app.
    pose proof (from_be_bound r Hr) as Hbd. unfold from_be in Hbd.
    assert (Hp : 0 < 256 ^ Z.of_nat (length r)) by (apply Z.pow_pos_nonneg; lia).
    unfold is_byte in Hb.
    f_equal.
    + replace ((0 * 256 + b) * 256 ^ Z.of_nat (length r) + from_be_acc 0 r)
        with (from_be_acc 0 r + b * 256 ^ Z.of_nat (length r)) by lia.
      rewrite Z.div_add by lia. rewrite Z.div_small by lia. rewrite Z.mod_small; lia.
    + (* to_be only depends on z mod 256^n *)
      assert (Hmod : forall n z k, to_be n (z + k * 256 ^ Z.of_nat n) = to_be n z).
      { clear. induction n as [|m IHm]; intros z k; [reflexivity|].
        cbn [to_be]. f_equal.
        - rewrite Nat2Z.inj_succ, Z.pow_succ_r by lia.
          assert (0 < 256 ^ Z.of_nat m) by (apply Z.pow_pos_nonneg; lia).
          replace (z + k * (256 * 256 ^ Z.of_nat m)) with (z + (k * 256) * 256 ^ Z.of_nat m) by lia.
          rewrite Z.div_add by lia.
          rewrite Z.add_mod by lia. rewrite Z.mod_mul by lia. rewrite Z.add_0_r, Z.mod_mod; lia.
        - rewrite Nat2Z.inj_succ, Z.pow_succ_r by lia.
          replace (z + k * (256 * 256 ^ Z.of_nat m)) with (z + (k * 256) * 256 ^ Z.of_nat m) by lia.
          apply IHm. }
      replace ((0 * 256 + b) * 256 ^ Z.of_nat (length r) + from_be_acc 0 r)
        with (from_be_acc 0 r + b * 256 ^ Z.of_nat (length r)) by lia.
      rewrite Hmod. exact IH.
Qed.
