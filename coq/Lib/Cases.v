(* Shared helper for correspondence shards (cases_<k>.v written by the Rust harness):
   [bad_indices chk cases] is the list of indices of cases on which the executable model
   disagrees with what the implementation produced.  An empty list means full agreement. *)
From Coq Require Import List NArith.
Import ListNotations.

Fixpoint bad_indices_from {A : Type} (chk : A -> bool) (i : N) (l : list A) : list N :=
  match l with
  | [] => []
  | x :: r => if chk x then bad_indices_from chk (N.succ i) r
              else i :: bad_indices_from chk (N.succ i) r
  end.

Definition bad_indices {A : Type} (chk : A -> bool) (l : list A) : list N :=
  bad_indices_from chk 0%N l.

Lemma bad_indices_from_nil {A} (chk : A -> bool) l : forall i,
  bad_indices_from chk i l = [] <-> forallb chk l = true.
Proof.
  induction l as [|x r IH]; intros i; cbn.
  - split; reflexivity.
  - destruct (chk x); cbn.
    + apply IH.
    + split; discriminate.
Qed.
