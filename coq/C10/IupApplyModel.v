(* C10 (round 7) — executable model of skrifa's inference of missing deltas
   (skrifa/src/outline/glyf/deltas.rs: simple_glyph's per-tuple closure, interpolate_deltas, Jiggler::shift,
   Jiggler::interpolate) with C = i32 (unscaled font units) and D = Fixed, as FreeTypeScaler uses it, plus the
   final `*unscaled += delta.map(Fixed::to_i32)` of an unscaled, unhinted load (outline/glyf/mod.rs).
   No proofs in this file.  [None] = the `?` / `.ok_or(OutOfBounds)` failure paths. *)
From Coq Require Import ZArith List Bool.
From FV Require Import Lib.RustInt C15.Model C10.ApplyModel.
Import ListNotations.
Open Scope Z_scope.

Definition ipt := (Z * Z)%type.      (* glyph point, font units (i32) *)
Definition fpt := (Z * Z)%type.      (* Point<Fixed>, raw bits *)

Definition to_fx (p : ipt) : fpt := (fixed_from_i32 (fst p), fixed_from_i32 (snd p)).   (* point.map(D::from) *)

(* rewrite entries lo..=hi of [l] with [f index old] *)
Fixpoint map_range_go {A} (k : nat) (lo hi : nat) (f : nat -> A -> A) (l : list A) : list A :=
  match l with
  | [] => []
  | a :: l' => (if (Nat.leb lo k && Nat.leb k hi)%bool then f k a else a) :: map_range_go (S k) lo hi f l'
  end.
Definition map_range {A} (lo hi : nat) (f : nat -> A -> A) (l : list A) : list A := map_range_go O lo hi f l.

(* interp_coord!($coord) for ONE coordinate: [ins] the glyph coordinates, [outs] the working buffer coordinate *)
Definition interp_value (in1 in2 out1 out2 scale d1 d2 : Z) (p : Z) : Z :=
  let out := fixed_from_i32 p in
  if out <=? in1 then fx_add 32 out d1
  else if in2 <=? out then fx_add 32 out d2
  else fx_add 32 out1 (fixed_mul (fx_sub 32 out in1) scale).

Definition interp_coord (ins outs : list Z) (lo hi r1 r2 : nat) : option (list Z) :=
  match nth_error ins r1, nth_error ins r2 with
  | Some p1, Some p2 =>
      let '(r1, r2) := if p2 <? p1 then (r2, r1) else (r1, r2) in     (* core::mem::swap *)
      match nth_error ins r1, nth_error ins r2, nth_error outs r1, nth_error outs r2 with
      | Some i1, Some i2, Some out1, Some out2 =>
          let in1 := fixed_from_i32 i1 in
          let in2 := fixed_from_i32 i2 in
          if negb (in1 =? in2) || (out1 =? out2) then
            let scale := if negb (in1 =? in2) then fixed_div (fx_sub 32 out2 out1) (fx_sub 32 in2 in1) else 0 in
            let d1 := fx_sub 32 out1 in1 in
            let d2 := fx_sub 32 out2 in2 in
            (* self.points.get(range)? / self.out_points.get_mut(range)? *)
            if (Nat.ltb hi (length ins) && Nat.ltb hi (length outs))%bool then
              Some (map_range lo hi
                      (fun k _ => interp_value in1 in2 out1 out2 scale d1 d2 (nth k ins 0)) outs)
            else None
          else Some outs
      | _, _, _, _ => None
      end
  | _, _ => None
  end.

(* Jiggler::interpolate(range lo..=hi, RefPoints(r1, r2)) on Point slices: x then y *)
Definition jig_interpolate (pts : list ipt) (outs : list fpt) (lo hi r1 r2 : nat) : option (list fpt) :=
  if Nat.ltb hi lo then Some outs                          (* range.is_empty() *)
  else
    match interp_coord (map fst pts) (map fst outs) lo hi r1 r2 with
    | None => None
    | Some xs =>
        match interp_coord (map snd pts) (map snd outs) lo hi r1 r2 with
        | None => None
        | Some ys => Some (combine xs ys)
        end
    end.

(* Jiggler::shift(range lo..=hi, ref_ix) *)
Definition jig_shift (pts : list ipt) (outs : list fpt) (lo hi r : nat) : option (list fpt) :=
  match nth_error pts r, nth_error outs r with
  | Some pin, Some pout =>
      let dx := fx_sub 32 (fst pout) (fst (to_fx pin)) in
      let dy := fx_sub 32 (snd pout) (snd (to_fx pin)) in
      if (dx =? 0) && (dy =? 0) then Some outs
      else if (Nat.leb lo r && Nat.ltb hi (length outs))%bool then      (* get_mut(start..ref)?, get_mut(ref+1..=end)? *)
        Some (map_range lo hi (fun k o => if Nat.eqb k r then o else (fx_add 32 (fst o) dx, fx_add 32 (snd o) dy)) outs)
      else None
  | _, _ => None
  end.

(* consecutive referenced points a, b of one contour: interpolate a+1 ..= b-1 between them *)
Fixpoint interp_between (pts : list ipt) (outs : list fpt) (cur : nat) (rest : list nat) : option (list fpt * nat) :=
  match rest with
  | [] => Some (outs, cur)
  | b :: rest' =>
      match jig_interpolate pts outs (S cur) (b - 1) cur b with
      | None => None
      | Some outs' => interp_between pts outs' b rest'
      end
  end.

(* the body of `for &end_point_ix in contours`; [first] = point_ix on entry.  The two `while` loops read
   flags.get(point_ix)? for every index first..=end, so they fail iff first <= end and end is beyond the flags. *)
Definition iup_contour (pts : list ipt) (flags : list bool) (outs : list fpt) (first end_ : nat) : option (list fpt) :=
  if Nat.ltb end_ first then Some outs
  else if negb (Nat.ltb end_ (length flags)) then None
  else
    match filter (fun k => nth k flags false) (seq first (S end_ - first)) with
    | [] => Some outs                                                   (* no deltas in this contour *)
    | r0 :: rest =>
        match interp_between pts outs r0 rest with
        | None => None
        | Some (outs1, cur) =>
            if Nat.eqb cur r0 then jig_shift pts outs1 first end_ cur
            else
              match jig_interpolate pts outs1 (S cur) end_ cur r0 with
              | None => None
              | Some outs2 =>
                  if Nat.ltb O r0 then jig_interpolate pts outs2 first (r0 - 1) cur r0 else Some outs2
              end
        end
    end.

Fixpoint interpolate_go (pts : list ipt) (flags : list bool) (ends : list nat) (first : nat) (outs : list fpt)
  : option (list fpt) :=
  match ends with
  | [] => Some outs
  | e :: ends' =>
      match iup_contour pts flags outs first e with
      | None => None
      | Some outs' => interpolate_go pts flags ends' (if Nat.ltb e first then first else S e) outs'
      end
  end.
Definition interpolate_deltas (pts : list ipt) (flags : list bool) (ends : list nat) (outs : list fpt) :=
  interpolate_go pts flags ends O outs.

(* the closure simple_glyph passes to compute_deltas_for_glyph (sparse tuple), and the dense fast path *)
Definition pt_sub (a b : fpt) : fpt := (fx_sub 32 (fst a) (fst b), fx_sub 32 (snd a) (snd b)).
Definition pt_add (a b : fpt) : fpt := (fx_add 32 (fst a) (fst b), fx_add 32 (snd a) (snd b)).

Fixpoint add_inferred (deltas : list fpt) (pts : list ipt) (iup : list fpt) : list fpt :=
  match deltas, pts, iup with
  | d :: ds, p :: ps, o :: os => pt_add d (pt_sub o (to_fx p)) :: add_inferred ds ps os
  | _, _, _ => deltas
  end.

Definition sg_tuple (pts : list ipt) (ends : list nat) (deltas : list fpt) (t : atuple) : option (list fpt) :=
  let '(s, op, xs, ys) := t in
  match op with
  | None => Some (accumulate_dense s xs ys deltas)
  | Some sp =>
      let iup0 := map (fun p => (fst (to_fx p), snd (to_fx p), false)) pts in
      let acc := accumulate_sparse s sp xs ys iup0 in
      match interpolate_deltas pts (map snd acc) ends (map fst acc) with
      | None => None
      | Some outp => Some (add_inferred deltas pts outp)
      end
  end.

Fixpoint sg_tuples (pts : list ipt) (ends : list nat) (deltas : list fpt) (ts : list atuple) : option (list fpt) :=
  match ts with
  | [] => Some deltas
  | t :: ts' => match sg_tuple pts ends deltas t with None => None | Some d => sg_tuples pts ends d ts' end
  end.

(* simple_glyph (deltas zeroed, active tuples in order), then the unscaled load: point + delta.to_i32(),
   or the plain points when simple_glyph failed (`.is_ok()` false) *)
Definition unscaled_points (pts : list ipt) (ends : list nat) (ts : list atuple) : list ipt :=
  match sg_tuples pts ends (map (fun _ => (0, 0)) pts) ts with
  | None => pts
  | Some ds => map (fun pd => (fst (fst pd) + fixed_to_i32 (fst (snd pd)), snd (fst pd) + fixed_to_i32 (snd (snd pd))))
                   (combine pts ds)
  end.

(* ScaledOutline::new (skrifa/src/outline/glyf/outline.rs:142): every outline x is shifted by the final x of phantom
   point 0 (the adjusted left side bearing: its base x_min - lsb plus its rounded accumulated delta) *)
Definition drawn_points (pts : list ipt) (ends : list nat) (ts : list atuple) : list ipt :=
  let r := unscaled_points pts ends ts in
  let n := (length pts - 4)%nat in
  let x_shift := fst (nth n r (0, 0)) in
  map (fun p => (fst p - x_shift, snd p)) (firstn n r).

(* ---- correspondence case (harness/src/bin/c10.rs, iup_apply_part): all points incl. the 4 phantoms (phantom 0 with
   the x skrifa computes for it, x_min - lsb, which is 0 in the generated fonts), contour end indices, the ACTIVE tuples
   at the location with the scalar the real compute_scalar returned, and the outline points (phantoms excluded) that
   skrifa drew unscaled/unhinted with PathStyle::FreeType ---- *)
Inductive gcase :=
| GDraw (pts : list ipt) (ends : list Z) (ts : list atuple) (drawn : list ipt).

Definition check_gcase (c : gcase) : bool :=
  match c with
  | GDraw pts ends ts drawn => list_eqb pair_eqb (drawn_points pts (map Z.to_nat ends) ts) drawn
  end.
