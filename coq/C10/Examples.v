(* C10 — non-vacuity examples for the hypotheses of Props.v, and refuted variants. *)
From Coq Require Import ZArith List QArith Lia.
From FV Require Import Lib.RustInt C10.Model C10.Proofs C10.PointProofs C10.IupProofs.
Import ListNotations.
Open Scope Z_scope.

(* the byte string of the repo's own unit test (PACKED_DELTA_BYTES) is what the model writes *)
Example c10_deltas_example :
  encode_deltas [10; -105; 0; -58; 0; 0; 0; 0; 0; 0; 0; 0; 4130; -1228] = [3; 10; 151; 0; 198; 135; 65; 16; 34; 251; 52]
  /\ Forall i32 [10; -105; 0; -58; 0; 0; 0; 0; 0; 0; 0; 0; 4130; -1228].
Proof. split; [reflexivity|]. repeat constructor; unfold i32; lia. Qed.

(* the run cap: 65 byte-sized deltas are split 64 + 1; a single zero is inlined in a byte run, two are not;
   a single byte between words is inlined, a byte followed by a byte is not *)
Example c10_run_cap : map run_len (delta_runs (repeat 7 65)) = [64; 1]%nat.
Proof. reflexivity. Qed.
Example c10_zero_inlining :
  delta_runs [1; 0; 1] = [OneByte [1; 0; 1]] /\ delta_runs [1; 0; 0; 1] = [OneByte [1]; Zeros 2; OneByte [1]].
Proof. split; reflexivity. Qed.
Example c10_byte_inlining :
  delta_runs [300; 1; 300] = [TwoBytes [300; 1; 300]] /\ delta_runs [300; 1; 1; 300] = [TwoBytes [300]; OneByte [1; 1]; TwoBytes [300]].
Proof. split; reflexivity. Qed.

(* point numbers: the repo's unit-test vector; hypotheses of packed_points_roundtrip hold for it *)
Example c10_points_example :
  encode_points (PSome [5; 25; 225; 1002; 2002; 2008; 2228; 10000])
  = WBytes [8; 2; 5; 20; 200; 129; 3; 9; 3; 232; 1; 6; 220; 128; 30; 92]
  /\ nondec 0 [5; 25; 225; 1002; 2002; 2008; 2228; 10000].
Proof. split; [reflexivity|]. cbn [nondec]. repeat split; lia. Qed.

(* REFUTED without the non-emptiness hypothesis: PackedPointNumbers::Some(vec![]) is written as the single
   byte 0, which reads back as "all points" — the empty set is not representable.  (GlyphDeltas uses exactly
   this encoding for a tuple none of whose deltas is required; see notes/C10.md.) *)
Example c10_points_empty_roundtrip_refuted :
  exists pts, nondec 0 pts /\ encode_points (PSome pts) = WBytes [0] /\ decode_points [0] <> RSome pts.
Proof. exists []. repeat split. discriminate. Qed.

(* REFUTED for unsorted input: the writer panics (u16 subtraction overflow in the strict profile) *)
Example c10_points_unsorted_refuted : encode_points (PSome [3; 2]) = WPanic.
Proof. reflexivity. Qed.

(* IUP: the contour of the repo's scenario 8 takes the forced-point branch (must-encode = {0, 4} as the
   repo's test expects); hypotheses of iup_sound_forced_branch are met by the exact kernel *)
Definition ex_coords : list (Z * Z) := [(131, 430); (131, 350); (470, 350); (470, 430); (131, 330)].
Definition ex_deltas : list (Z * Z) := [(-15, 115); (-15, 30); (124, 30); (124, 115); (-39, 26)].
Definition ex_me := must_encode_at (map qpt_of ex_deltas) (map qpt_of ex_coords) (0 # 1)%Q.
Definition ex_ci_rot := fun mid => can_iup_in_between (rotate_right mid (map qpt_of ex_deltas)) (rotate_right mid (map qpt_of ex_coords)) (0 # 1)%Q.
Definition ex_ci_dbl := can_iup_in_between (map qpt_of ex_deltas ++ map qpt_of ex_deltas) (map qpt_of ex_coords ++ map qpt_of ex_coords) (0 # 1)%Q.
Example c10_iup_forced_example :
  filter ex_me (seq 0 5) = [0; 4]%nat /\ contour_mask ex_me ex_ci_rot ex_ci_dbl 5 = Some [true; false; true; true; true].
Proof. split; vm_compute; reflexivity. Qed.

(* IUP: a contour with no forced point (the repo's scenario 6 shape) takes the other branch *)
Definition ex6 : list (Z * Z) := [(0, 0); (10, 10); (20, 20); (30, 30)].
Example c10_iup_unforced_example :
  iup_contour_optimize ex6 ex6 (0 # 1)%Q = Some [(0, 0, true); (10, 10, false); (20, 20, false); (30, 30, true)].
Proof. vm_compute. reflexivity. Qed.
