(* C10 — property theorems. *)
From Coq Require Import ZArith List.
From FV Require Import Lib.RustInt C10.Model C10.Proofs.
Import ListNotations.
Open Scope Z_scope.
