(* C10 — property theorems.  Only statements, [exact lemma] and Print Assumptions. *)
From Coq Require Import ZArith List.
From FV Require Import Lib.RustInt C10.Model C10.Proofs C10.PointProofs C10.IupProofs C10.IupUnforced.
Import ListNotations.
Open Scope Z_scope.

(* ---- packed deltas: for every list of i32, reading what the writer wrote gives the list back
   (whole buffer, `consume_all`; and as a prefix of a longer buffer with the count known, as in a gvar tuple) ---- *)
Theorem packed_deltas_roundtrip : forall ds, Forall i32 ds -> decode_deltas_all (encode_deltas ds) = ds.
Proof. exact Proofs.packed_deltas_roundtrip. Qed.
Theorem packed_deltas_roundtrip_prefix : forall ds rest, Forall i32 ds ->
  decode_deltas_n (length ds) (encode_deltas ds ++ rest) = ds.
Proof. exact Proofs.packed_deltas_roundtrip_prefix. Qed.
Theorem packed_deltas_are_bytes : forall ds, Forall i32 ds -> Forall is_byte (encode_deltas ds).
Proof. exact encode_deltas_bytes. Qed.

(* ---- packed point numbers: every non-empty non-decreasing (in particular strictly increasing) list of u16
   of at most 32767 elements is written without panic and read back; "all points" likewise ---- *)
Theorem packed_points_roundtrip : forall pts, pts <> [] -> nondec 0 pts -> Z.of_nat (length pts) <= 32767 ->
  exists bytes, encode_points (PSome pts) = WBytes bytes /\ Forall is_byte bytes /\ decode_points bytes = RSome pts.
Proof. exact points_roundtrip. Qed.
Theorem strictly_increasing_is_nondec : forall l, Forall (fun p => 0 <= p <= 65535) l -> strictly_increasing l ->
  forall prev, (match l with [] => True | a :: _ => prev <= a end) -> nondec prev l.
Proof. exact strict_nondec. Qed.
Theorem packed_points_all_roundtrip : encode_points PAll = WBytes [0] /\ decode_points [0] = RAll.
Proof. exact points_all_roundtrip. Qed.

(* ---- every run the writers emit is legal: 1..64 deltas (1..128 points), the control byte decodes to exactly
   that length and storage class, every value fits the class ---- *)
Theorem run_lengths_legal : forall ds, Forall i32 ds ->
  Forall (fun r => (1 <= run_len r <= 64)%nat
                   /\ count_of_control (run_flag r) = run_len r
                   /\ rtype_of_control (run_flag r) = run_type r
                   /\ 0 <= run_flag r < 256
                   /\ Forall (fits (run_type r)) (run_vals r)) (delta_runs ds).
Proof. exact delta_run_lengths_legal. Qed.
Theorem point_run_lengths_legal : forall pts, nondec 0 pts ->
  exists rs, point_runs (PSome pts) = Some rs /\
    Forall (fun r => (1 <= length (pr_pts r) <= 128)%nat
                     /\ read_point_control [prun_ctrl r] = Some (length (pr_pts r), pr_words r, [])
                     /\ 0 <= prun_ctrl r < 256) rs
    /\ concat (map pr_pts rs) = pts.
Proof. exact PointProofs.point_run_lengths_legal. Qed.

(* ---- compute_size is the length of the written bytes (and panics only when that exceeds u16) ---- *)
Theorem packed_size_computed : forall ds, Forall i32 ds ->
  (forall s, deltas_compute_size ds = Some s -> s = Z.of_nat (length (encode_deltas ds)))
  /\ (Z.of_nat (length (encode_deltas ds)) <= 65535 -> deltas_compute_size ds = Some (Z.of_nat (length (encode_deltas ds)))).
Proof. exact deltas_size_computed. Qed.
Theorem packed_points_size_computed : forall pts, nondec 0 pts -> Z.of_nat (length pts) <= 32767 ->
  exists bytes, encode_points (PSome pts) = WBytes bytes /\
    (forall s, points_compute_size (PSome pts) = Some s -> s = Z.of_nat (length bytes)) /\
    (Z.of_nat (length bytes) <= 65535 -> points_compute_size (PSome pts) = Some (Z.of_nat (length bytes))).
Proof. exact points_size_computed. Qed.

(* ---- IUP optimiser, forced-point branch, for EVERY kernel (me, ci_rot, ci_dbl):
   the mask has the input's length; forced points are retained; at least one point is retained; every point
   marked optional lies (in the rotated index space the DP works in: rot p = (p + mid) mod n) strictly between
   two retained points [from] (-1 = the last point) and [to] with no retained point in between and with the
   kernel's consent can_iup_in_between(from, to) = true ---- *)
Theorem iup_sound_forced_branch : forall me ci_rot ci_dbl n mask,
  (0 < n)%nat ->
  filter me (seq 0 n) <> [] ->
  contour_mask me ci_rot ci_dbl n = Some mask ->
  let mid := (n - 1 - list_max (filter me (seq 0 n)))%nat in
  let retained := fun p => nth p mask false = true in
  length mask = n
  /\ (forall p, (p < n)%nat -> me p = true -> retained p)
  /\ retained (unrot n mid (n - 1))
  /\ forall p, (p < n)%nat -> ~ retained p ->
       exists (from : Z) (to : nat),
         -1 <= from /\ from < Z.of_nat (rot n mid p) < Z.of_nat to /\ (to < n)%nat
         /\ ci_rot mid from to = true
         /\ retained (unrot n mid to)
         /\ retained (unrot n mid (Z.to_nat (from mod Z.of_nat n)))
         /\ forall q, from < Z.of_nat q < Z.of_nat to -> ~ retained (unrot n mid q).
Proof. exact iup_sound_forced. Qed.

(* ---- IUP optimiser, no-forced-point branch (contour solved twice in a row, best rotation), for EVERY kernel:
   there is a window (start - n, start] of the doubled index space whose residues mod n are the contour; the point
   start mod n is retained; every point p of the window whose residue is marked optional lies strictly between
   [from] (>= start - n, the same point as start) and [to] (<= start), both retained, none retained in between,
   with the kernel's consent on the doubled contour ---- *)
Theorem iup_sound_unforced_branch : forall me ci_rot ci_dbl n mask, (2 <= n)%nat ->
  filter me (seq 0 n) = [] ->
  contour_mask me ci_rot ci_dbl n = Some mask ->
  let retained := fun p => nth p mask false = true in
  exists start : nat, (n - 1 <= start <= 2 * n - 2)%nat /\
    retained (start mod n)%nat /\
    forall p : nat, Z.of_nat start - Z.of_nat n < Z.of_nat p <= Z.of_nat start ->
      retained (p mod n)%nat \/
      exists (from : Z) (to : nat),
        ci_dbl from to = true
        /\ Z.of_nat start - Z.of_nat n <= from /\ from < Z.of_nat p < Z.of_nat to /\ (to <= start)%nat
        /\ retained (to mod n)%nat
        /\ retained (Z.to_nat (from mod Z.of_nat n))
        /\ forall q : nat, from < Z.of_nat q < Z.of_nat to -> ~ retained (q mod n)%nat.
Proof. exact iup_sound_unforced. Qed.

(* both branches: the mask has the contour's length *)
Theorem iup_mask_length : forall me ci_rot ci_dbl n mask,
  contour_mask me ci_rot ci_dbl n = Some mask -> length mask = n.
Proof. exact contour_mask_length. Qed.

(* the per-contour output keeps length, order and (rounded) values of the input deltas, in every branch *)
Theorem iup_contour_output_shape : forall deltas coords tol out,
  iup_contour_optimize deltas coords tol = Some out -> map fst out = map rounded deltas.
Proof. exact iup_contour_shape. Qed.

(* rotation bookkeeping: (idx + mid) % n and (idx + n - mid) % n are mutually inverse on [0, n), and
   rotate_right(mid) moves index p to rot p *)
Theorem iup_rotation_bijective : forall n mid p, (mid < n)%nat -> (p < n)%nat ->
  unrot n mid (rot n mid p) = p /\ rot n mid (unrot n mid p) = p /\ (rot n mid p < n)%nat /\ (unrot n mid p < n)%nat.
Proof. exact rotation_bijective. Qed.
Theorem iup_rotate_right_index : forall (l : list (Z * Z)) d mid p, (mid <= length l)%nat -> (p < length l)%nat ->
  nth (rot (length l) mid p) (rotate_right mid l) d = nth p l d.
Proof. exact (fun l d => rotate_right_nth d l). Qed.

Print Assumptions packed_deltas_roundtrip.
Print Assumptions packed_deltas_roundtrip_prefix.
Print Assumptions packed_deltas_are_bytes.
Print Assumptions packed_points_roundtrip.
Print Assumptions strictly_increasing_is_nondec.
Print Assumptions packed_points_all_roundtrip.
Print Assumptions run_lengths_legal.
Print Assumptions point_run_lengths_legal.
Print Assumptions packed_size_computed.
Print Assumptions packed_points_size_computed.
Print Assumptions iup_sound_forced_branch.
Print Assumptions iup_sound_unforced_branch.
Print Assumptions iup_mask_length.
Print Assumptions iup_contour_output_shape.
Print Assumptions iup_rotation_bijective.
Print Assumptions iup_rotate_right_index.
