(* C10 (round 7) — lemmas about skrifa's inference of missing deltas (IupApplyModel.v). *)
From Coq Require Import ZArith Lia List Bool Arith.
From FV Require Import Lib.RustInt C15.Model C15.Proofs C11.TentProofs C10.ApplyModel C10.ApplyProofs C10.IupApplyModel.
Import ListNotations.

(* ================= writes stay inside the range ================= *)
Lemma map_range_go_nth {A} lo hi (f : nat -> A -> A) : forall l k0 i,
  nth_error (map_range_go k0 lo hi f l) i
  = option_map (fun a => if (Nat.leb lo (k0 + i) && Nat.leb (k0 + i) hi)%bool then f (k0 + i)%nat a else a) (nth_error l i).
Proof.
  induction l as [|a l IH]; intros k0 i.
  - destruct i; reflexivity.
  - destruct i as [|i]; cbn [map_range_go nth_error option_map].
    + rewrite Nat.add_0_r. reflexivity.
    + rewrite IH. replace (S k0 + i)%nat with (k0 + S i)%nat by lia. reflexivity.
Qed.

Lemma map_range_go_length {A} lo hi (f : nat -> A -> A) : forall l k0, length (map_range_go k0 lo hi f l) = length l.
Proof. induction l as [|a l IH]; intros k0; cbn; [reflexivity | rewrite IH; reflexivity]. Qed.

(* [b] differs from [a] at most inside lo..=hi *)
Definition wr {A} (lo hi : nat) (a b : list A) : Prop :=
  length b = length a /\ forall i, ~ (lo <= i <= hi)%nat -> nth_error b i = nth_error a i.

Lemma wr_refl {A} lo hi (a : list A) : wr lo hi a a.
Proof. split; [reflexivity | intros; reflexivity]. Qed.

Lemma map_range_wr {A} lo hi (f : nat -> A -> A) l : wr lo hi l (map_range lo hi f l).
Proof.
  split; [apply map_range_go_length|]. intros i Hi. unfold map_range. rewrite map_range_go_nth. cbn [Nat.add].
  destruct (nth_error l i) as [a|]; [|reflexivity]. cbn [option_map].
  destruct (Nat.leb lo i) eqn:E1; destruct (Nat.leb i hi) eqn:E2; cbn [andb]; try reflexivity.
  apply Nat.leb_le in E1, E2. exfalso. apply Hi. lia.
Qed.

Lemma map_range_at {A} lo hi (f : nat -> A -> A) l i : (lo <= i <= hi)%nat ->
  nth_error (map_range lo hi f l) i = option_map (f i) (nth_error l i).
Proof.
  intros Hi. unfold map_range. rewrite map_range_go_nth. cbn [Nat.add].
  replace (Nat.leb lo i) with true by (symmetry; apply Nat.leb_le; lia).
  replace (Nat.leb i hi) with true by (symmetry; apply Nat.leb_le; lia). reflexivity.
Qed.

Lemma interp_coord_wr ins outs lo hi r1 r2 o : interp_coord ins outs lo hi r1 r2 = Some o -> wr lo hi outs o.
Proof.
  unfold interp_coord. destruct (nth_error ins r1) as [p1|]; [|discriminate].
  destruct (nth_error ins r2) as [p2|]; [|discriminate].
  destruct (if (p2 <? p1)%Z then (r2, r1) else (r1, r2)) as [a b].
  destruct (nth_error ins a); [|discriminate]. destruct (nth_error ins b); [|discriminate].
  destruct (nth_error outs a); [|discriminate]. destruct (nth_error outs b); [|discriminate].
  match goal with |- (if ?c then _ else _) = _ -> _ => destruct c end.
  - match goal with |- (if ?c then _ else _) = _ -> _ => destruct c end; [|discriminate].
    intros H; injection H as <-. apply map_range_wr.
  - intros H; injection H as <-. apply wr_refl.
Qed.

Lemma nth_error_combine {A B} : forall (a : list A) (b : list B) i,
  nth_error (combine a b) i
  = match nth_error a i, nth_error b i with Some x, Some y => Some (x, y) | _, _ => None end.
Proof.
  induction a as [|x a IH]; intros [|y b] [|i]; cbn; try reflexivity.
  - destruct (nth_error a i); reflexivity.
  - apply IH.
Qed.

Lemma jig_interpolate_wr pts outs lo hi r1 r2 o : jig_interpolate pts outs lo hi r1 r2 = Some o -> wr lo hi outs o.
Proof.
  unfold jig_interpolate. destruct (Nat.ltb hi lo); [intros H; injection H as <-; apply wr_refl|].
  destruct (interp_coord (map fst pts) (map fst outs) lo hi r1 r2) as [xs|] eqn:Ex; [|discriminate].
  destruct (interp_coord (map snd pts) (map snd outs) lo hi r1 r2) as [ys|] eqn:Ey; [|discriminate].
  intros H; injection H as <-.
  apply interp_coord_wr in Ex, Ey. destruct Ex as [Lx Nx], Ey as [Ly Ny]. rewrite map_length in Lx, Ly.
  unfold fpt in *. split; [rewrite combine_length, Lx, Ly; apply Nat.min_id|].
  intros i Hi. rewrite nth_error_combine, (Nx i Hi), (Ny i Hi), !nth_error_map.
  destruct (nth_error outs i) as [[x y]|]; reflexivity.
Qed.

Lemma jig_shift_wr pts outs lo hi r o : jig_shift pts outs lo hi r = Some o ->
  length o = length outs /\ forall i, (~ (lo <= i <= hi)%nat \/ i = r) -> nth_error o i = nth_error outs i.
Proof.
  unfold jig_shift. destruct (nth_error pts r); [|discriminate]. destruct (nth_error outs r); [|discriminate].
  match goal with |- (if ?c then _ else _) = _ -> _ => destruct c end; [intros H; injection H as <-; auto|].
  match goal with |- (if ?c then _ else _) = _ -> _ => destruct c end; [|discriminate].
  intros H; injection H as <-. split; [apply map_range_go_length|].
  intros k [Hk| ->]; [apply map_range_wr; exact Hk|].
  destruct (Nat.leb lo r && Nat.leb r hi)%bool eqn:E.
  - apply andb_prop in E. destruct E as [E1 E2]. apply Nat.leb_le in E1, E2.
    rewrite map_range_at by lia. rewrite Nat.eqb_refl. destruct (nth_error outs r); reflexivity.
  - apply map_range_wr. intros [H1 H2]. apply Nat.leb_le in H1, H2. rewrite H1, H2 in E. discriminate.
Qed.

(* ================= referenced points keep their explicit deltas ================= *)
Section Flags.
Variable f : nat -> bool.

Definition pres (a b : list fpt) : Prop :=
  length b = length a /\ forall i, f i = true -> nth_error b i = nth_error a i.
Lemma pres_refl a : pres a a. Proof. split; auto. Qed.
Lemma pres_trans a b c : pres a b -> pres b c -> pres a c.
Proof. intros [L1 N1] [L2 N2]. split; [congruence|]. intros i Hi. rewrite (N2 i Hi). apply N1. exact Hi. Qed.
Lemma wr_pres lo hi a b : wr lo hi a b -> (forall k, (lo <= k <= hi)%nat -> f k = false) -> pres a b.
Proof.
  intros [L N] Hf. split; [exact L|]. intros i Hi. apply N. intros Hr. rewrite (Hf i Hr) in Hi. discriminate.
Qed.

(* the referenced indices of a contour, in order, with nothing referenced in the gaps *)
Fixpoint chain (hi lower : nat) (l : list nat) : Prop :=
  match l with
  | [] => forall k, (lower <= k < hi)%nat -> f k = false
  | x :: r => (lower <= x < hi)%nat /\ f x = true /\ (forall k, (lower <= k < x)%nat -> f k = false) /\ chain hi (S x) r
  end.

Lemma chain_lower hi a l : f a = false -> chain hi (S a) l -> chain hi a l.
Proof.
  intros Ha. destruct l as [|x r]; cbn [chain].
  - intros H k Hk. destruct (Nat.eq_dec k a) as [->|]; [exact Ha | apply H; lia].
  - intros [H1 [H2 [H3 H4]]]. repeat split; try lia; try assumption.
    intros k Hk. destruct (Nat.eq_dec k a) as [->|]; [exact Ha | apply H3; lia].
Qed.

Lemma chain_filter_seq : forall n a, chain (a + n) a (filter f (seq a n)).
Proof.
  induction n as [|n IH]; intros a.
  - cbn. intros k Hk. lia.
  - cbn [seq filter]. specialize (IH (S a)). replace (S a + n)%nat with (a + S n)%nat in IH by lia.
    destruct (f a) eqn:Ea.
    + cbn [chain]. repeat split; try lia; try assumption.
    + apply chain_lower; assumption.
Qed.

Lemma interp_between_pres pts hi : forall rest outs cur o cur',
  chain hi (S cur) rest -> interp_between pts outs cur rest = Some (o, cur') ->
  pres outs o /\ (cur <= cur')%nat /\ (rest <> [] -> cur < cur')%nat
  /\ (forall k, (S cur' <= k < hi)%nat -> f k = false) /\ (cur < hi -> cur' < hi)%nat.
Proof.
  induction rest as [|b rest IH]; intros outs cur o cur' Hc H.
  - cbn in H. injection H as <- <-. cbn in Hc. repeat split; auto using pres_refl. congruence.
  - cbn [interp_between] in H. cbn [chain] in Hc. destruct Hc as [Hb [Hfb [Hgap Hc]]].
    destruct (jig_interpolate pts outs (S cur) (b - 1) cur b) as [o1|] eqn:E; [|discriminate].
    apply jig_interpolate_wr in E.
    assert (P1 : pres outs o1) by (apply (wr_pres _ _ _ _ E); intros k Hk; apply Hgap; lia).
    destruct (IH _ _ _ _ Hc H) as [P2 [Hle [_ [Hrest Hhi]]]].
    repeat split; [exact (proj1 (pres_trans _ _ _ P1 P2)) | exact (proj2 (pres_trans _ _ _ P1 P2)) | lia | intros; lia | exact Hrest | intros; apply Hhi; lia].
Qed.

End Flags.

(* flags as a list *)
Lemma iup_contour_keeps pts flags outs first end_ o :
  iup_contour pts flags outs first end_ = Some o -> pres (fun k => nth k flags false) outs o.
Proof.
  set (f := fun k => nth k flags false).
  unfold iup_contour. destruct (Nat.ltb end_ first) eqn:E0; [intros H; injection H as <-; apply pres_refl|].
  apply Nat.ltb_ge in E0.
  destruct (negb (Nat.ltb end_ (length flags))); [discriminate|].
  pose proof (chain_filter_seq f (S end_ - first) first) as Hc.
  replace (first + (S end_ - first))%nat with (S end_) in Hc by lia.
  fold f. destruct (filter f (seq first (S end_ - first))) as [|r0 rest]; [intros H; injection H as <-; apply pres_refl|].
  cbn [chain] in Hc. destruct Hc as [Hr0 [Hfr0 [Hpre Hc]]].
  destruct (interp_between pts outs r0 rest) as [[o1 cur]|] eqn:Eb; [|discriminate].
  destruct (interp_between_pres f pts (S end_) rest outs r0 o1 cur Hc Eb) as [P1 [Hle [Hlt [Hpost Hhi]]]].
  destruct (Nat.eqb cur r0) eqn:Ec.
  - apply Nat.eqb_eq in Ec. subst cur. intros H. apply jig_shift_wr in H. destruct H as [L N].
    apply (pres_trans _ _ o1 _ P1). split; [exact L|]. intros i Hi. apply N.
    destruct (Nat.eq_dec i r0) as [->|Hne]; [right; reflexivity|]. left. intros Hr.
    assert (f i = false); [|congruence].
    destruct (Nat.lt_ge_cases i r0); [apply Hpre; lia | apply Hpost; lia].
  - destruct (jig_interpolate pts o1 (S cur) end_ cur r0) as [o2|] eqn:E2; [|discriminate].
    apply jig_interpolate_wr in E2.
    assert (P2 : pres f o1 o2) by (apply (wr_pres _ _ _ _ _ E2); intros k Hk; apply Hpost; lia).
    destruct (Nat.ltb 0 r0) eqn:E3.
    + intros H. apply jig_interpolate_wr in H.
      assert (P3 : pres f o2 o) by (apply (wr_pres _ _ _ _ _ H); intros k Hk; apply Hpre; lia).
      exact (pres_trans _ _ _ _ P1 (pres_trans _ _ _ _ P2 P3)).
    + intros H; injection H as <-. exact (pres_trans _ _ _ _ P1 P2).
Qed.

Lemma interpolate_go_keeps pts flags : forall ends first outs o,
  interpolate_go pts flags ends first outs = Some o -> pres (fun k => nth k flags false) outs o.
Proof.
  induction ends as [|e ends IH]; intros first outs o H.
  - cbn in H. injection H as <-. apply pres_refl.
  - cbn [interpolate_go] in H. destruct (iup_contour pts flags outs first e) as [o1|] eqn:E; [|discriminate].
    apply iup_contour_keeps in E. apply IH in H. exact (pres_trans _ _ _ _ E H).
Qed.

(* (3b) whenever interpolate_deltas succeeds, the buffer keeps its length and every point that carries the
   HAS_DELTA marker keeps exactly the value accumulate_sparse_deltas gave it (its explicit delta) *)
Lemma interpolate_deltas_keeps_referenced pts flags ends outs o :
  interpolate_deltas pts flags ends outs = Some o ->
  length o = length outs /\ forall i, nth i flags false = true -> nth_error o i = nth_error outs i.
Proof. intros H. exact (interpolate_go_keeps pts flags ends O outs o H). Qed.

(* ================= the inference rule per coordinate ================= *)
Open Scope Z_scope.

(* [interp_value] with everything in range is the OpenType rule in exact integer form: with reference
   coordinates i1 < i2 (font units), their moved positions out1, out2 (16.16) and
   scale = rha(out2 - out1, i2 - i1):
     p <= i1            ->  p moves by ref1's delta  (out1 - i1)
     p >= i2            ->  p moves by ref2's delta  (out2 - i2)
     i1 < p < i2        ->  out1 + (p - i1) * scale       (no second rounding: (p - i1) is an integer) *)
Definition small (z : Z) : Prop := -16384 <= z <= 16383.

Lemma from_i32_small p : small p -> fixed_from_i32 p = p * 65536.
Proof. unfold small. intros. apply fixed_from_i32_spec. lia. Qed.

Lemma iup_scale_exact i1 i2 out1 out2 : small i1 -> small i2 -> i1 < i2 -> i32 (out2 - out1) ->
  i32 (rha (out2 - out1) (i2 - i1)) ->
  fixed_div (fx_sub 32 out2 out1) (fx_sub 32 (fixed_from_i32 i2) (fixed_from_i32 i1)) = rha (out2 - out1) (i2 - i1).
Proof.
  intros H1 H2 Hlt Ha Hr. rewrite !from_i32_small by assumption. unfold small, i32 in *.
  unfold fx_sub. rewrite !wrap_s32_id by (unfold i32; lia).
  assert (E : rha ((out2 - out1) * 65536) (i2 * 65536 - i1 * 65536) = rha (out2 - out1) (i2 - i1)).
  { replace ((out2 - out1) * 65536) with (65536 * (out2 - out1)) by lia.
    replace (i2 * 65536 - i1 * 65536) with (65536 * (i2 - i1)) by lia. apply rha_scale; lia. }
  rewrite fixed_div_spec; unfold i32; try lia; rewrite E; lia.
Qed.

Lemma interp_value_rule i1 i2 out1 out2 p :
  small i1 -> small i2 -> small p -> i1 < i2 -> i32 out1 -> i32 out2 ->
  let in1 := fixed_from_i32 i1 in
  let in2 := fixed_from_i32 i2 in
  let scale := rha (out2 - out1) (i2 - i1) in
  let v := interp_value in1 in2 out1 out2 scale (fx_sub 32 out1 in1) (fx_sub 32 out2 in2) p in
  (p <= i1 -> i32 (out1 - i1 * 65536) -> i32 (p * 65536 + (out1 - i1 * 65536)) -> v = p * 65536 + (out1 - i1 * 65536))
  /\ (i2 <= p -> i32 (out2 - i2 * 65536) -> i32 (p * 65536 + (out2 - i2 * 65536)) -> v = p * 65536 + (out2 - i2 * 65536))
  /\ (i1 < p < i2 -> i32 ((p - i1) * scale) -> i32 (out1 + (p - i1) * scale) -> v = out1 + (p - i1) * scale).
Proof.
  intros H1 H2 Hp Hlt Ho1 Ho2. cbv zeta. unfold interp_value.
  rewrite !from_i32_small by assumption. unfold small, i32 in *.
  repeat split.
  - intros Hle Hd Hs. replace (p * 65536 <=? i1 * 65536) with true by lia.
    unfold fx_add, fx_sub. rewrite (wrap_s32_id (out1 - i1 * 65536)) by (unfold i32; lia).
    apply wrap_s32_id. unfold i32. lia.
  - intros Hge Hd Hs. replace (p * 65536 <=? i1 * 65536) with false by lia.
    replace (i2 * 65536 <=? p * 65536) with true by lia.
    unfold fx_add, fx_sub. rewrite (wrap_s32_id (out2 - i2 * 65536)) by (unfold i32; lia).
    apply wrap_s32_id. unfold i32. lia.
  - intros Hin Hm Hs. replace (p * 65536 <=? i1 * 65536) with false by lia.
    replace (i2 * 65536 <=? p * 65536) with false by lia.
    unfold fx_add, fx_sub. rewrite (wrap_s32_id (p * 65536 - i1 * 65536)) by (unfold i32; lia).
    set (sc := rha (out2 - out1) (i2 - i1)) in *.
    assert (E : rha ((p * 65536 - i1 * 65536) * sc) 65536 = (p - i1) * sc).
    { replace ((p * 65536 - i1 * 65536) * sc) with (65536 * ((p - i1) * sc)) by lia.
      replace 65536 with (65536 * 1) at 2 by lia. rewrite rha_scale by lia. apply rha_one. }
    rewrite fixed_mul_spec; rewrite E; [|unfold i32; lia]. apply wrap_s32_id. unfold i32. lia.
Qed.
