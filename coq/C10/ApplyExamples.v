(* C10 (round 7) — non-vacuity examples for ApplyProps.v and witnesses. *)
From Coq Require Import ZArith List Lia Permutation.
From FV Require Import Lib.RustInt C15.Model C15.Proofs C10.ApplyModel C10.ApplyProofs.
Import ListNotations.
Open Scope Z_scope.

(* c10_compute_scalar_spec: two axes, one peak-only (peak 1.0, coord 0.5 -> 1/2), one intermediate
   (start 0.25, peak 0.5, end 1.0, coord 0.75 -> (1 - 0.75)/(1 - 0.5) = 1/2): scalar 1/4 = 16384 *)
Example c10_scalar_example :
  gv_compute_scalar [(16384, None); (8192, Some (4096, 16384))] [8192; 12288] = Some 16384
  /\ gv_spec [(16384, None); (8192, Some (4096, 16384))] [8192; 12288] 65536 = Some 16384
  /\ Forall gaxis16 [(16384, None); (8192, Some (4096, 16384))] /\ Forall i16 [8192; 12288].
Proof.
  split; [vm_compute; reflexivity|]. split; [vm_compute; reflexivity|].
  split; repeat constructor; unfold i16; cbn; lia.
Qed.
(* a rounding case: 1/3 of ONE = 21845.33 -> 21845; negative peak with negative coordinate *)
Example c10_scalar_rounding : gv_compute_scalar [(-12288, None)] [-4096] = Some 21845.
Proof. vm_compute. reflexivity. Qed.
(* the product can round to 0, then the tuple does not apply although every axis is inside its tent *)
Example c10_scalar_rounds_to_none :
  gv_compute_scalar [(16384, None); (16384, None)] [1; 1] = None
  /\ gv_frac 1 16384 None = Some (1, 16384).
Proof. split; vm_compute; reflexivity. Qed.

(* c10_compute_scalar_zero_outside: second axis at exactly its region end *)
Example c10_scalar_outside_example :
  gv_frac (nth (length [(16384, @None (Z * Z))]) [16384; 16384] 0) 8192 (Some (4096, 16384)) = None
  /\ gv_compute_scalar ([(16384, None)] ++ (8192, Some (4096, 16384)) :: []) [16384; 16384] = None.
Proof. split; vm_compute; reflexivity. Qed.
(* coordinate 0 on an axis with a non-zero peak: outside *)
Example c10_scalar_default_location : gv_compute_scalar [(16384, None)] [] = None.
Proof. vm_compute. reflexivity. Qed.

(* c10_compute_scalar_one_at_peak: hypotheses hold (axis 0 at its peak, axis 1 unused, missing coord = 0) *)
Example c10_scalar_peak_example :
  gv_compute_scalar [(-8192, Some (-16384, -8192)); (0, Some (0, 0))] [-8192] = Some 65536
  /\ (forall i p im, nth_error [(-8192, Some (-16384, -8192)); (0, Some (0, 0))] i = Some (p, im) ->
        p = 0 \/ nth i [-8192] 0 = p).
Proof.
  split; [vm_compute; reflexivity|]. intros [|[|[|i]]] p im H; cbn in H; try discriminate; injection H as <- <-; cbn; lia.
Qed.

(* c10_compute_scalar_single_axis *)
Example c10_scalar_single_example :
  gv_frac 6144 8192 (Some (4096, 16384)) = Some (2048, 4096) /\ rha (65536 * 2048) 4096 = 32768
  /\ gv_compute_scalar [(8192, Some (4096, 16384))] [6144] = Some 32768.
Proof. repeat split; vm_compute; reflexivity. Qed.

(* OBSERVATION (faithful to the Rust and to FreeType, differs from compute_scalar_f32 / the spec's advice to
   ignore a malformed region): start 0.75 > peak 0.5 is interpolated, not ignored: (1 - 0.8)/(1 - 0.5) ~ 0.4 *)
Example c10_scalar_invalid_region_not_ignored :
  gv_compute_scalar [(8192, Some (12288, 16384))] [13107] = Some 26216.
Proof. vm_compute. reflexivity. Qed.
(* sign-mismatched region start < 0 < end with peak 0.5: interpolated as written *)
Example c10_scalar_sign_mismatch_not_ignored :
  gv_compute_scalar [(8192, Some (-16384, 16384))] [-8192] = Some 21845.
Proof. vm_compute. reflexivity. Qed.

(* c10_accumulate_dense_spec: scalar 0.37 (0x5EB8 = 24248), deltas (3, -2), (-100, 7); exact products *)
Example c10_dense_example :
  accumulate_dense 24248 [3; -100] [-2; 7] [(0, 0); (65536, -65536)] = [(72744, -48496); (-2359264, 104200)]
  /\ 3 * 24248 = 72744 /\ 65536 + -100 * 24248 = -2359264.
Proof. repeat split; vm_compute; reflexivity. Qed.
(* scalar ONE takes the from_i32 path; a wrapped accumulator (i32::MAX + 65536) *)
Example c10_dense_wraps : accumulate_dense 65536 [1] [0] [(2147483647, 5)] = [(-2147418113, 5)].
Proof. vm_compute. reflexivity. Qed.

(* c10_accumulate_sparse_spec: points 0 and 2 of a 3-entry buffer, point 7 beyond the buffer is ignored *)
Example c10_sparse_example :
  accumulate_sparse 32768 [0; 2; 7] [10; 20; 30] [1; 2; 3] [(0, 0, false); (5, 5, false); (100, 100, false)]
  = [(327680, 32768, true); (5, 5, false); (655460, 65636, true)]
  /\ NoDup [0; 2; 7] /\ ~ In (Z.of_nat 1) [0; 2; 7].
Proof.
  split; [vm_compute; reflexivity|]. split.
  - repeat constructor; cbn; lia.
  - cbn. lia.
Qed.
(* a repeated point number accumulates twice (why the NoDup hypothesis is there) *)
Example c10_sparse_duplicate_point :
  accumulate_sparse 65536 [1; 1] [1; 2] [0; 0] [(0, 0, false); (0, 0, false)] = [(0, 0, false); (196608, 0, true)].
Proof. vm_compute. reflexivity. Qed.

(* c10_scale_delta_exact *)
Example c10_scale_exact_example : scale_delta 24248 (-32768) = -32768 * 24248 /\ i32 (-32768 * 24248).
Proof. split; [vm_compute; reflexivity | unfold i32; lia]. Qed.
(* outside its hypothesis (an i32-run delta >= 32768): from_i32 wraps, the product is NOT d * scalar *)
Example c10_scale_i32_delta_wraps : scale_delta 32768 40000 = -836763648 /\ 40000 * 32768 = 1310720000.
Proof. split; vm_compute; reflexivity. Qed.

(* c10_accumulate_order_independent: a dense and two sparse tuples in two orders *)
Example c10_order_example :
  let t1 : atuple := (24248, None, [3; -100; 8], [-2; 7; 1]) in
  let t2 : atuple := (65536, Some [0; 2], [10; 20], [1; 2]) in
  let t3 : atuple := (-98304, Some [2; 2; 9], [5; 6; 7], [0; 0; 0]) in
  let acc := [(0, 0, false); (2147483000, 5, false); (0, 0, true)] in
  apply_tuples [t1; t2; t3] acc = apply_tuples [t3; t1; t2] acc
  /\ Permutation [t1; t2; t3] [t3; t1; t2]
  /\ apply_tuples [t1; t2; t3] acc <> acc.
Proof.
  cbv zeta. split; [vm_compute; reflexivity|]. split.
  - apply Permutation_sym. apply (Permutation_cons_app [_; _] []). apply Permutation_refl.
  - vm_compute. discriminate.
Qed.
